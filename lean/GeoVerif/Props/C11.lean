import GeoVerif.Lemmas.Geohash
import Mathlib.Data.List.Nodup
/-!
# C11 — the Niemeyer geohash codec is a consistent hierarchical tiling

Model: `GeoVerif/Model/Geohash.lean`; tables: `GeoVerif/Gen/Geohash.lean` (regenerated from the live
`_NIEMEYER_CONFIG` on every run).  All theorems quantify over **every** coordinate, length and hash;
the only finite reasoning is about the generated tables (`decide +kernel`).

A decode result `d = (lon, lat, lon_err, lat_err)` denotes the closed cell
`[lon − lon_err, lon + lon_err] × [lat − lat_err, lat + lat_err]` (`Contains`).
-/
namespace GV.Geohash
open GV.Geohash.Gen

/-! ## specification vocabulary -/

/-- the closed cell denoted by a decode result contains the point -/
def Contains (d : Rat × Rat × Rat × Rat) (lon lat : Rat) : Prop :=
  d.1 - d.2.2.1 ≤ lon ∧ lon ≤ d.1 + d.2.2.1 ∧ d.2.1 - d.2.2.2 ≤ lat ∧ lat ≤ d.2.1 + d.2.2.2

/-- the open cell denoted by a decode result contains the point -/
def StrictlyContains (d : Rat × Rat × Rat × Rat) (lon lat : Rat) : Prop :=
  d.1 - d.2.2.1 < lon ∧ lon < d.1 + d.2.2.1 ∧ d.2.1 - d.2.2.2 < lat ∧ lat < d.2.1 + d.2.2.2

/-! ## table theorems — re-checked by the kernel against the tables the code holds *now* -/

/-- `inverse ∘ ord ∘ charset = id` on `0 … base−1` -/
def InverseCharset (cfg : NiemeyerCfg) : Prop :=
  ∀ i < cfg.base, (cfg.charset[i]?).bind (fun c => cfg.inverse.lookup c.toNat) = some i

/-- the alphabet has exactly `base` distinct characters -/
def CharsetDistinct (cfg : NiemeyerCfg) : Prop := cfg.charset.length = cfg.base ∧ cfg.charset.Nodup

/-- `bits` are the descending powers of two `2^(k−1), …, 2, 1` and `base = 2^k` -/
def BitsPow2 (cfg : NiemeyerCfg) : Prop :=
  cfg.bits = (List.range cfg.bits.length).reverse.map (2 ^ ·) ∧ cfg.base = 2 ^ cfg.bits.length

instance (cfg : NiemeyerCfg) : Decidable (InverseCharset cfg) := by unfold InverseCharset; infer_instance
instance (cfg : NiemeyerCfg) : Decidable (CharsetDistinct cfg) := by unfold CharsetDistinct; infer_instance
instance (cfg : NiemeyerCfg) : Decidable (BitsPow2 cfg) := by unfold BitsPow2; infer_instance

theorem inverse_charset_16 : InverseCharset niemeyer16 := by decide +kernel
theorem inverse_charset_32 : InverseCharset niemeyer32 := by decide +kernel
theorem inverse_charset_64 : InverseCharset niemeyer64 := by decide +kernel
theorem charset_distinct_16 : CharsetDistinct niemeyer16 := by decide +kernel
theorem charset_distinct_32 : CharsetDistinct niemeyer32 := by decide +kernel
theorem charset_distinct_64 : CharsetDistinct niemeyer64 := by decide +kernel
theorem bits_pow2_16 : BitsPow2 niemeyer16 := by decide +kernel
theorem bits_pow2_32 : BitsPow2 niemeyer32 := by decide +kernel
theorem bits_pow2_64 : BitsPow2 niemeyer64 := by decide +kernel

/-- everything the codec theorems need from a table (`WF`, see `Lemmas/Geohash.lean`): the three facts
    above, "assembling a character from bits with `|=` and taking it apart with `&` are inverse" for all
    `base` values, and ranges symmetric about 0 -/
theorem wf_16 : WF niemeyer16 := by decide +kernel
theorem wf_32 : WF niemeyer32 := by decide +kernel
theorem wf_64 : WF niemeyer64 := by decide +kernel

/-- the dict holds exactly the bases 16, 32, 64 under their own keys, longitudes span ±180 and the
    latitude interval covers ±90 -/
theorem configs_table : niemeyerConfigs.map (·.1) = [16, 32, 64] ∧
    ∀ p ∈ niemeyerConfigs, WF p.2 ∧ p.2.base = p.1 ∧ p.2.minX = -180 ∧ p.2.maxX = 180 ∧ (p.2.maxY = 90 ∨ p.2.maxY = 180) := by
  decide +kernel

theorem mem_of_lookup {α β} [BEq α] [LawfulBEq α] {k : α} {v : β} :
    ∀ {l : List (α × β)}, l.lookup k = some v → (k, v) ∈ l
  | [], h => by simp at h
  | (k', v') :: l, h => by
    rw [List.lookup_cons] at h
    by_cases hk : k == k'
    · simp only [hk] at h
      injection h with h; subst h
      have : k = k' := by simpa using hk
      subst this; exact List.mem_cons_self
    · simp only [hk] at h
      exact List.mem_cons_of_mem _ (mem_of_lookup h)

/-- every config the code can look up is well-formed -/
theorem cfgOf_wf {base : Nat} {cfg : NiemeyerCfg} (h : cfgOf base = some cfg) :
    WF cfg ∧ cfg.base = base ∧ cfg.minX = -180 ∧ cfg.maxX = 180 ∧ (cfg.maxY = 90 ∨ cfg.maxY = 180) :=
  configs_table.2 (base, cfg) (mem_of_lookup h)

/-- non-vacuity: the three supported bases resolve -/
example : (cfgOf 16).isSome ∧ (cfgOf 32).isSome ∧ (cfgOf 64).isSome ∧ (cfgOf 10).isNone := by decide +kernel

/-! ## encode: total, right length, right alphabet -/

theorem encode_eq {base : Nat} {cfg : NiemeyerCfg} (hb : cfgOf base = some cfg) (lon lat : Rat) (n : Nat) :
    encode base lon lat n = encGo cfg lon lat n (EncSt.init cfg) := by
  simp [encode, hb, encodeCfg]

theorem decode_eq {base : Nat} {cfg : NiemeyerCfg} (hb : cfgOf base = some cfg) (h : List Char) :
    decode base h = decodeCfg cfg h := by
  simp [decode, hb]

/-- for a supported base the encoder never fails (no `IndexError` into the alphabet) -/
theorem encode_total {base : Nat} {cfg : NiemeyerCfg} (hb : cfgOf base = some cfg) (lon lat : Rat) (n : Nat) :
    ∃ h, encode base lon lat n = .ok h := by
  obtain ⟨h, e, _, _⟩ := encGo_total (cfgOf_wf hb).1 lon lat n (EncSt.init cfg)
  exact ⟨h, by rw [encode_eq hb, e]⟩

/-- **length**: the geohash has exactly the requested length -/
theorem encode_length {base : Nat} {cfg : NiemeyerCfg} (hb : cfgOf base = some cfg) {lon lat : Rat} {n : Nat}
    {h : List Char} (he : encode base lon lat n = .ok h) : h.length = n := by
  obtain ⟨h', e, hl, _⟩ := encGo_total (cfgOf_wf hb).1 lon lat n (EncSt.init cfg)
  rw [encode_eq hb, e] at he
  injection he with he; subst he; exact hl

/-- **alphabet**: every character is from the base's alphabet -/
theorem encode_alphabet {base : Nat} {cfg : NiemeyerCfg} (hb : cfgOf base = some cfg) {lon lat : Rat} {n : Nat}
    {h : List Char} (he : encode base lon lat n = .ok h) : ∀ c ∈ h, c ∈ cfg.charset := by
  obtain ⟨h', e, _, ha⟩ := encGo_total (cfgOf_wf hb).1 lon lat n (EncSt.init cfg)
  rw [encode_eq hb, e] at he
  injection he with he; subst he; exact ha

/-- an unsupported base is a `ValueError` -/
theorem encode_unsupported {base : Nat} (hb : cfgOf base = none) (lon lat : Rat) (n : Nat) :
    encode base lon lat n = .error "ERR:Value" := by simp [encode, hb]

/-! ## decode: total on the alphabet, rejects everything else -/

theorem decode_total {base : Nat} {cfg : NiemeyerCfg} (hb : cfgOf base = some cfg) {h : List Char}
    (hall : ∀ c ∈ h, c ∈ cfg.charset) : ∃ d, decode base h = .ok d := by
  obtain ⟨s, hs⟩ := decGo_total (cfgOf_wf hb).1 h (DecSt.init cfg) hall
  exact ⟨_, by rw [decode_eq hb, decodeCfg, hs]⟩

/-- **rejection**: a geohash containing a character outside the alphabet is a `ValueError`
    (never a `KeyError` from the inverse table, never a result) -/
theorem decode_rejects {base : Nat} {cfg : NiemeyerCfg} (hb : cfgOf base = some cfg) {h : List Char}
    (hex : ∃ c ∈ h, c ∉ cfg.charset) : decode base h = .error "ERR:Value" := by
  rw [decode_eq hb, decodeCfg, decGo_rejects (cfgOf_wf hb).1 h _ hex]

/-! ## bridging a decode result and the final bisection state -/

theorem init_toEnc (cfg : NiemeyerCfg) : (DecSt.init cfg).toEnc = EncSt.init cfg := rfl

theorem init_errInv {cfg : NiemeyerCfg} (h : WF cfg) : ErrInv (DecSt.init cfg) := by
  obtain ⟨_, _, _, _, _, _, hx, hy, _, _⟩ := h
  unfold ErrInv DecSt.init
  simp only [hx, hy]
  constructor <;> ring

theorem decodeCfg_ok {cfg : NiemeyerCfg} {h : List Char} {d : Rat × Rat × Rat × Rat}
    (hd : decodeCfg cfg h = .ok d) :
    ∃ s, decGo cfg h (DecSt.init cfg) = .ok s ∧ d = (mid s.lonIv, mid s.latIv, s.lonErr, s.latErr) := by
  unfold decodeCfg at hd
  cases hs : decGo cfg h (DecSt.init cfg) with
  | error e => simp [hs] at hd
  | ok s =>
    simp only [hs] at hd
    injection hd with hd
    exact ⟨s, rfl, hd.symm⟩

theorem contains_iff {s : DecSt} (he : ErrInv s) (lon lat : Rat) :
    Contains (mid s.lonIv, mid s.latIv, s.lonErr, s.latErr) lon lat ↔ InCell lon lat s.toEnc := by
  obtain ⟨h1, h2⟩ := he
  unfold Contains InCell DecSt.toEnc mid
  simp only [h1, h2]
  constructor <;> intro ⟨a, b, c, d⟩ <;> refine ⟨?_, ?_, ?_, ?_⟩ <;> linarith

theorem strictly_iff {s : DecSt} (he : ErrInv s) (lon lat : Rat) :
    StrictlyContains (mid s.lonIv, mid s.latIv, s.lonErr, s.latErr) lon lat ↔ Interior lon lat s.toEnc := by
  obtain ⟨h1, h2⟩ := he
  unfold StrictlyContains Interior DecSt.toEnc mid
  simp only [h1, h2]
  constructor <;> intro ⟨a, b, c, d⟩ <;> refine ⟨?_, ?_, ?_, ?_⟩ <;> linarith

/-! ## the codec laws -/

/-- **round trip**: the decoded (closed) cell of the encoding contains the coordinate, for every
    coordinate of the base's range, every length — including points on cell edges and range limits -/
theorem decode_encode_contains {base : Nat} {cfg : NiemeyerCfg} (hb : cfgOf base = some cfg)
    {lon lat : Rat} (hx : cfg.minX ≤ lon ∧ lon ≤ cfg.maxX) (hy : cfg.minY ≤ lat ∧ lat ≤ cfg.maxY)
    {n : Nat} {h : List Char} (he : encode base lon lat n = .ok h) :
    ∃ d, decode base h = .ok d ∧ Contains d lon lat := by
  have hw := (cfgOf_wf hb).1
  rw [encode_eq hb, ← init_toEnc] at he
  obtain ⟨s, hs, hin, herr⟩ := decGo_of_encGo hw lon lat n (DecSt.init cfg) h he
  refine ⟨(mid s.lonIv, mid s.latIv, s.lonErr, s.latErr), by rw [decode_eq hb, decodeCfg, hs], ?_⟩
  rw [contains_iff (herr (init_errInv hw))]
  exact hin ⟨hx.1, hx.2, hy.1, hy.2⟩

/-- every stored coordinate (lon ∈ [−180, 180), lat ∈ [−90, 90]) lies in the range of every base -/
theorem decode_encode_contains_coord {base : Nat} {cfg : NiemeyerCfg} (hb : cfgOf base = some cfg)
    {lon lat : Rat} (hx : -180 ≤ lon ∧ lon ≤ 180) (hy : -90 ≤ lat ∧ lat ≤ 90)
    {n : Nat} {h : List Char} (he : encode base lon lat n = .ok h) :
    ∃ d, decode base h = .ok d ∧ Contains d lon lat := by
  obtain ⟨hw, _, h1, h2, h3⟩ := cfgOf_wf hb
  have hy' : cfg.minY = -cfg.maxY := hw.2.2.2.2.2.2.2.1
  refine decode_encode_contains hb ?_ ?_ he
  · rw [h1, h2]; exact hx
  · rw [hy']; rcases h3 with h3 | h3 <;> rw [h3] <;> constructor <;> linarith [hy.1, hy.2]

/-- **prefix hierarchy**: the encoding at a shorter length is a prefix of the encoding at a longer one -/
theorem encode_prefix {base : Nat} {lon lat : Rat} {n m : Nat} {h1 h2 : List Char}
    (he1 : encode base lon lat n = .ok h1) (he2 : encode base lon lat (n + m) = .ok h2) : h1 <+: h2 := by
  unfold encode at he1 he2
  cases hb : cfgOf base with
  | none => simp [hb] at he1
  | some cfg =>
    simp only [hb, encodeCfg] at he1 he2
    exact encGo_prefix cfg lon lat n m _ h1 h2 he1 he2

/-- **interior re-encoding**: every point strictly inside the decoded cell encodes (at that length)
    to the geohash itself -/
theorem encode_of_strictly_contains {base : Nat} {cfg : NiemeyerCfg} (hb : cfgOf base = some cfg)
    {h : List Char} {d : Rat × Rat × Rat × Rat} (hd : decode base h = .ok d) {lon lat : Rat}
    (hin : StrictlyContains d lon lat) : encode base lon lat h.length = .ok h := by
  have hw := (cfgOf_wf hb).1
  rw [decode_eq hb] at hd
  obtain ⟨s, hs, rfl⟩ := decodeCfg_ok hd
  have hp : Pos (DecSt.init cfg).toEnc := hw.init_pos
  obtain ⟨_, _, _, herr⟩ := decGo_sub hw h _ s hs hp
  rw [strictly_iff (herr (init_errInv hw))] at hin
  rw [encode_eq hb, ← init_toEnc]
  exact encGo_of_decGo hw h _ s hs hp hin

/-- the centre of a decoded cell lies strictly inside it -/
theorem centre_strictly_contained {base : Nat} {cfg : NiemeyerCfg} (hb : cfgOf base = some cfg)
    {h : List Char} {d : Rat × Rat × Rat × Rat} (hd : decode base h = .ok d) :
    StrictlyContains d d.1 d.2.1 ∧ 0 < d.2.2.1 ∧ 0 < d.2.2.2 := by
  have hw := (cfgOf_wf hb).1
  rw [decode_eq hb] at hd
  obtain ⟨s, hs, rfl⟩ := decodeCfg_ok hd
  have hp : Pos (DecSt.init cfg).toEnc := hw.init_pos
  obtain ⟨_, hpos, _, herr⟩ := decGo_sub hw h _ s hs hp
  obtain ⟨e1, e2⟩ := herr (init_errInv hw)
  obtain ⟨p1, p2⟩ := hpos
  simp only [DecSt.toEnc] at p1 p2
  have : 0 < s.lonErr := by rw [e1]; linarith
  have : 0 < s.latErr := by rw [e2]; linarith
  refine ⟨⟨?_, ?_, ?_, ?_⟩, ‹_›, ‹_›⟩ <;> simp only <;> linarith

/-- **centre**: re-encoding the decoded centre returns the same geohash (pure codec statement) -/
theorem encode_centre {base : Nat} {cfg : NiemeyerCfg} (hb : cfgOf base = some cfg)
    {h : List Char} {d : Rat × Rat × Rat × Rat} (hd : decode base h = .ok d) :
    encode base d.1 d.2.1 h.length = .ok h :=
  encode_of_strictly_contains hb hd (centre_strictly_contained hb hd).1

/-! ### through the `Coordinate` constructor -/

theorem normalize_id {lon lat : Rat} (h1 : -180 ≤ lon) (h2 : lon < 180) (h3 : -90 ≤ lat) (h4 : lat ≤ 90) :
    normalize true lon lat = (lon, lat) := by
  have hlat : latLoop (fuelLat lat) lon lat = (lon, lat) := by
    unfold fuelLat; simp [latLoop, h3, h4]
  have hlon : lonLoop (fuelLon lon) lon = lon := by
    unfold fuelLon; simp [lonLoop, h1, le_of_lt h2]
  have hne : lon ≠ 180 := ne_of_lt h2
  simp [normalize, hlat, hlon, hne]

/-- the decoded centre's longitude is strictly inside (−180, 180) -/
theorem centre_lon_range {base : Nat} {cfg : NiemeyerCfg} (hb : cfgOf base = some cfg)
    {h : List Char} {d : Rat × Rat × Rat × Rat} (hd : decode base h = .ok d) :
    -180 ≤ d.1 - d.2.2.1 ∧ d.1 + d.2.2.1 ≤ 180 ∧ -cfg.maxY ≤ d.2.1 - d.2.2.2 ∧ d.2.1 + d.2.2.2 ≤ cfg.maxY := by
  obtain ⟨hw, _, h1, h2, _⟩ := cfgOf_wf hb
  have hy' : cfg.minY = -cfg.maxY := hw.2.2.2.2.2.2.2.1
  rw [decode_eq hb] at hd
  obtain ⟨s, hs, rfl⟩ := decodeCfg_ok hd
  have hp : Pos (DecSt.init cfg).toEnc := hw.init_pos
  obtain ⟨hsub, _, _, herr⟩ := decGo_sub hw h _ s hs hp
  obtain ⟨e1, e2⟩ := herr (init_errInv hw)
  obtain ⟨s1, s2, s3, s4⟩ := hsub
  simp only [DecSt.toEnc, DecSt.init, h1, h2, hy'] at s1 s2 s3 s4
  simp only [e1, e2, mid]
  refine ⟨?_, ?_, ?_, ?_⟩ <;> linarith

/-- **centre, as observed**: whenever the centre is itself a valid coordinate (|lat| ≤ 90),
    `_coord_to_niemeyer(Coordinate(lon, lat), len(h), base) == h` -/
theorem encodeCoord_centre {base : Nat} {cfg : NiemeyerCfg} (hb : cfgOf base = some cfg)
    {h : List Char} {d : Rat × Rat × Rat × Rat} (hd : decode base h = .ok d)
    (hlat : -90 ≤ d.2.1 ∧ d.2.1 ≤ 90) : encodeCoord base d.1 d.2.1 h.length = .ok h := by
  obtain ⟨r1, r2, _, _⟩ := centre_lon_range hb hd
  obtain ⟨_, e1, e2⟩ := centre_strictly_contained hb hd
  unfold encodeCoord
  rw [normalize_id (by linarith) (by linarith) hlat.1 hlat.2]
  exact encode_centre hb hd

/-! ## sub-hashes tile their parent -/

theorem toSet_of_nodup {α} [DecidableEq α] : ∀ {l : List α}, l.Nodup → toSet l = l
  | [], _ => rfl
  | x :: xs, h => by
    have hx := List.nodup_cons.mp h
    simp [toSet, toSet_of_nodup hx.2, hx.1]

/-- **children, count**: exactly `base` distinct sub-hashes, namely `h ++ [c]` for each `c` of the alphabet -/
theorem subhashes_count {base : Nat} {cfg : NiemeyerCfg} (hb : cfgOf base = some cfg) (h : List Char) :
    ∃ ks, subhashes base h = .ok ks ∧ ks.length = base ∧ ks.Nodup ∧
      ∀ k, k ∈ ks ↔ ∃ c ∈ cfg.charset, k = h ++ [c] := by
  obtain ⟨hw, hbase, _⟩ := cfgOf_wf hb
  have hnd : (cfg.charset.map fun c => h ++ [c]).Nodup := by
    refine List.Nodup.map ?_ hw.nodup
    intro a b hab
    simpa using hab
  refine ⟨cfg.charset.map fun c => h ++ [c], ?_, ?_, hnd, ?_⟩
  · simp [subhashes, hb, toSet_of_nodup hnd]
  · rw [List.length_map, hw.length, hbase]
  · intro k
    simp only [List.mem_map]
    constructor
    · rintro ⟨c, hc, rfl⟩; exact ⟨c, hc, rfl⟩
    · rintro ⟨c, hc, rfl⟩; exact ⟨c, hc, rfl⟩

theorem decGo_snoc_ok {cfg : NiemeyerCfg} {h : List Char} {c : Char} {s : DecSt}
    (hd : decGo cfg (h ++ [c]) (DecSt.init cfg) = .ok s) :
    ∃ sp, decGo cfg h (DecSt.init cfg) = .ok sp ∧ decChar cfg sp c = .ok s := by
  rw [decGo_append] at hd
  cases hp : decGo cfg h (DecSt.init cfg) with
  | error e => simp [hp] at hd
  | ok sp =>
    simp only [hp, decGo] at hd
    cases hc : decChar cfg sp c with
    | error e => simp [hc] at hd
    | ok s1 =>
      simp only [hc] at hd
      injection hd with hd
      exact ⟨sp, rfl, hd ▸ hc⟩

/-- **children, inside**: each child cell lies inside the parent cell -/
theorem subhashes_inside {base : Nat} {cfg : NiemeyerCfg} (hb : cfgOf base = some cfg)
    {h : List Char} {d : Rat × Rat × Rat × Rat} (hd : decode base h = .ok d) {c : Char} (hc : c ∈ cfg.charset) :
    ∃ d', decode base (h ++ [c]) = .ok d' ∧ ∀ lon lat, Contains d' lon lat → Contains d lon lat := by
  have hw := (cfgOf_wf hb).1
  rw [decode_eq hb] at hd
  obtain ⟨sp, hs, rfl⟩ := decodeCfg_ok hd
  have hp : Pos (DecSt.init cfg).toEnc := hw.init_pos
  obtain ⟨_, hpos, hall, herr⟩ := decGo_sub hw h _ sp hs hp
  obtain ⟨sc, hsc⟩ := decGo_total hw [c] sp (by simpa using hc)
  have hsc' : decChar cfg sp c = .ok sc := by
    simp only [decGo] at hsc
    cases hx : decChar cfg sp c with
    | error e => simp [hx] at hsc
    | ok s1 => simp only [hx] at hsc; injection hsc with hsc; subst hsc; rfl
  obtain ⟨hsub, _, _, herr'⟩ := decChar_sub hw hsc' hpos
  refine ⟨(mid sc.lonIv, mid sc.latIv, sc.lonErr, sc.latErr), ?_, ?_⟩
  · rw [decode_eq hb, decodeCfg, decGo_append, hs]
    simp only [hsc]
  · intro lon lat hin
    have e0 := herr (init_errInv hw)
    rw [contains_iff (herr' e0)] at hin
    rw [contains_iff e0]
    exact inCell_of_sub hsub hin

/-- **children, cover**: every point of the (closed) parent cell lies in some (closed) child cell -/
theorem subhashes_cover {base : Nat} {cfg : NiemeyerCfg} (hb : cfgOf base = some cfg)
    {h : List Char} {d : Rat × Rat × Rat × Rat} (hd : decode base h = .ok d) {lon lat : Rat}
    (hin : Contains d lon lat) :
    ∃ c ∈ cfg.charset, ∃ d', decode base (h ++ [c]) = .ok d' ∧ Contains d' lon lat := by
  have hw := (cfgOf_wf hb).1
  rw [decode_eq hb] at hd
  obtain ⟨sp, hs, rfl⟩ := decodeCfg_ok hd
  have hp : Pos (DecSt.init cfg).toEnc := hw.init_pos
  obtain ⟨_, _, _, herr⟩ := decGo_sub hw h _ sp hs hp
  have e0 := herr (init_errInv hw)
  rw [contains_iff e0] at hin
  obtain ⟨c, sc, _, hc, hdc, hto, herr'⟩ := decChar_of_encChar hw lon lat sp
  refine ⟨c, hc, (mid sc.lonIv, mid sc.latIv, sc.lonErr, sc.latErr), ?_, ?_⟩
  · rw [decode_eq hb, decodeCfg, decGo_append, hs]
    simp only [decGo, hdc]
  · rw [contains_iff (herr' e0), hto]
    exact encChar_inCell _ _ hin

/-- **children, no overlap**: a point strictly inside two child cells forces the children to be equal -/
theorem subhashes_disjoint {base : Nat} {cfg : NiemeyerCfg} (hb : cfgOf base = some cfg)
    {h : List Char} {c1 c2 : Char} {d1 d2 : Rat × Rat × Rat × Rat}
    (hd1 : decode base (h ++ [c1]) = .ok d1) (hd2 : decode base (h ++ [c2]) = .ok d2)
    {lon lat : Rat} (h1 : StrictlyContains d1 lon lat) (h2 : StrictlyContains d2 lon lat) : c1 = c2 := by
  have hw := (cfgOf_wf hb).1
  rw [decode_eq hb] at hd1 hd2
  obtain ⟨s1, hs1, rfl⟩ := decodeCfg_ok hd1
  obtain ⟨s2, hs2, rfl⟩ := decodeCfg_ok hd2
  obtain ⟨sp, hp1, hc1⟩ := decGo_snoc_ok hs1
  obtain ⟨sp', hp2, hc2⟩ := decGo_snoc_ok hs2
  rw [hp1] at hp2
  injection hp2 with hp2; subst hp2
  have hp : Pos (DecSt.init cfg).toEnc := hw.init_pos
  obtain ⟨_, hpos, _, herr⟩ := decGo_sub hw h _ sp hp1 hp
  have e0 := herr (init_errInv hw)
  obtain ⟨_, _, _, herr1⟩ := decChar_sub hw hc1 hpos
  obtain ⟨_, _, _, herr2⟩ := decChar_sub hw hc2 hpos
  rw [strictly_iff (herr1 e0)] at h1
  rw [strictly_iff (herr2 e0)] at h2
  obtain ⟨v1, a1, b1⟩ := encChar_of_decChar hw hc1 hpos (Sub.refl _) h1
  obtain ⟨v2, a2, b2⟩ := encChar_of_decChar hw hc2 hpos (Sub.refl _) h2
  rw [a1] at a2
  have hv : v1 = v2 := congrArg Prod.fst a2
  subst hv
  rw [b1] at b2
  injection b2

/-- **tiling**: the sub-hashes of a cell are exactly `base` cells that lie inside it, cover it and do
    not overlap -/
theorem subhashes_tile {base : Nat} {cfg : NiemeyerCfg} (hb : cfgOf base = some cfg)
    {h : List Char} {d : Rat × Rat × Rat × Rat} (hd : decode base h = .ok d) :
    ∃ ks, subhashes base h = .ok ks ∧ ks.length = base ∧ ks.Nodup ∧
      (∀ k ∈ ks, ∃ d', decode base k = .ok d' ∧ ∀ lon lat, Contains d' lon lat → Contains d lon lat) ∧
      (∀ lon lat, Contains d lon lat → ∃ k ∈ ks, ∃ d', decode base k = .ok d' ∧ Contains d' lon lat) ∧
      (∀ k1 ∈ ks, ∀ k2 ∈ ks, ∀ d1 d2 lon lat, decode base k1 = .ok d1 → decode base k2 = .ok d2 →
          StrictlyContains d1 lon lat → StrictlyContains d2 lon lat → k1 = k2) := by
  obtain ⟨ks, e1, e2, e3, e4⟩ := subhashes_count hb h
  refine ⟨ks, e1, e2, e3, ?_, ?_, ?_⟩
  · intro k hk
    obtain ⟨c, hc, rfl⟩ := (e4 k).mp hk
    exact subhashes_inside hb hd hc
  · intro lon lat hin
    obtain ⟨c, hc, d', h1, h2⟩ := subhashes_cover hb hd hin
    exact ⟨h ++ [c], (e4 _).mpr ⟨c, hc, rfl⟩, d', h1, h2⟩
  · intro k1 hk1 k2 hk2 d1 d2 lon lat hd1 hd2 s1 s2
    obtain ⟨c1, _, rfl⟩ := (e4 k1).mp hk1
    obtain ⟨c2, _, rfl⟩ := (e4 k2).mp hk2
    rw [subhashes_disjoint hb hd1 hd2 s1 s2]

/-- non-vacuity: a real cell, its centre and one of its children -/
example : decode 32 ['9', 'q'] = .ok (-118125 / 1000, 365625 / 10000, 5625 / 1000, 28125 / 10000) ∧
    encode 32 (-118125 / 1000) (365625 / 10000) 2 = .ok ['9', 'q'] ∧
    (subhashes 32 ['9', 'q']).map (·.length) = .ok 32 := by decide +kernel

/-! ## exactness of the float program

Every cell either loop reaches after `n` bisection steps is `refineSt (EncSt.init cfg) bs` for a bit
string of length `n` (`decGo_refine` for the decoder, `encChar_eq` for the encoder), and its end
points are grid lines of the `2^⌈n/2⌉ × 2^⌊n/2⌋` grid. -/

theorem dyadic_of_grid (A W i : Int) {q p : Nat} (hqp : q ≤ p) :
    ∃ m : Int, (A : Rat) + i * ((W : Rat) / 2 ^ q) = m / 2 ^ p := by
  obtain ⟨k, rfl⟩ : ∃ k, p = q + k := ⟨p - q, by omega⟩
  refine ⟨(A * 2 ^ q + i * W) * 2 ^ k, ?_⟩
  have h1 : (2 : Rat) ^ q ≠ 0 := pow_ne_zero _ (by norm_num)
  have h2 : (2 : Rat) ^ k ≠ 0 := pow_ne_zero _ (by norm_num)
  push_cast
  rw [pow_add]
  field_simp

/-- all interval end points after `n` steps are integer multiples of `2^-⌈n/2⌉` inside [−180, 180] -/
theorem cell_dyadic {base : Nat} {cfg : NiemeyerCfg} (hb : cfgOf base = some cfg) (bs : List Bool) :
    ∀ e ∈ [(refineSt (EncSt.init cfg) bs).lonIv.1, (refineSt (EncSt.init cfg) bs).lonIv.2,
           (refineSt (EncSt.init cfg) bs).latIv.1, (refineSt (EncSt.init cfg) bs).latIv.2],
      -180 ≤ e ∧ e ≤ 180 ∧ ∃ m : Int, e = m / 2 ^ ((bs.length + 1) / 2) := by
  obtain ⟨hw, _, h1, h2, h3⟩ := cfgOf_wf hb
  have hy' : cfg.minY = -cfg.maxY := hw.2.2.2.2.2.2.2.1
  have hY : ∃ Y : Int, cfg.maxY = Y ∧ (Y = 90 ∨ Y = 180) := by
    rcases h3 with h3 | h3
    · exact ⟨90, by rw [h3]; norm_num, Or.inl rfl⟩
    · exact ⟨180, by rw [h3]; norm_num, Or.inr rfl⟩
  obtain ⟨Y, hY, hYb⟩ := hY
  have hYr : (Y : Rat) ≤ 180 := by rcases hYb with r | r <;> rw [r] <;> norm_num
  have hYp : (0 : Rat) < Y := by rcases hYb with r | r <;> rw [r] <;> norm_num
  have i1 : (EncSt.init cfg).lonIv = (-180, 180) := by simp [EncSt.init, h1, h2]
  have i2 : (EncSt.init cfg).latIv = (-(Y : Rat), (Y : Rat)) := by simp [EncSt.init, hy', hY]
  have ic : (EncSt.init cfg).lonComp = true := rfl
  obtain ⟨s1, s2, s3, s4⟩ := refineSt_sub bs hw.init_pos
  obtain ⟨p1, p2⟩ := refineSt_pos bs hw.init_pos
  obtain ⟨i, j, g1, g2⟩ := refineSt_grid bs (grid_init cfg)
  rw [i1] at s1 s2
  rw [i2] at s3 s4
  rw [ic] at g1 g2
  simp only [lonSteps, latSteps, if_true, Nat.zero_add, h1, h2, hy', hY] at g1 g2
  generalize refineSt (EncSt.init cfg) bs = S at *
  simp only at s1 s2 s3 s4
  have hq : bs.length / 2 ≤ (bs.length + 1) / 2 := by omega
  intro e he
  simp only [List.mem_cons, List.not_mem_nil, or_false] at he
  rcases he with rfl | rfl | rfl | rfl
  · refine ⟨s1, by linarith, ?_⟩
    obtain ⟨m, hm⟩ := dyadic_of_grid (-180) 360 i (le_refl ((bs.length + 1) / 2))
    push_cast at hm
    exact ⟨m, by rw [g1, ← hm]; dsimp only; ring⟩
  · refine ⟨by linarith, s2, ?_⟩
    obtain ⟨m, hm⟩ := dyadic_of_grid (-180) 360 (i + 1) (le_refl ((bs.length + 1) / 2))
    push_cast at hm
    exact ⟨m, by rw [g1, ← hm]; dsimp only; ring⟩
  · refine ⟨by linarith, by linarith, ?_⟩
    obtain ⟨m, hm⟩ := dyadic_of_grid (-Y) (Y + Y) j hq
    push_cast at hm
    exact ⟨m, by rw [g2, ← hm]; dsimp only; ring⟩
  · refine ⟨by linarith, by linarith, ?_⟩
    obtain ⟨m, hm⟩ := dyadic_of_grid (-Y) (Y + Y) (j + 1) hq
    push_cast at hm
    exact ⟨m, by rw [g2, ← hm]; dsimp only; ring⟩

/-- **binary64 exactness**: within 88 bisection steps (geohash lengths ≤ 14 in base 64, ≤ 17 in base
    32, ≤ 22 in base 16) every interval end point is `m / 2^44` with `|m| ≤ 180·2^44 < 2^52`; such
    numbers, their pairwise sums and the halves of those sums are exactly representable, so the
    float program computes exactly what this rational model computes -/
theorem float_exact_bound {base : Nat} {cfg : NiemeyerCfg} (hb : cfgOf base = some cfg) (bs : List Bool)
    (hn : bs.length ≤ 88) :
    ∀ e ∈ [(refineSt (EncSt.init cfg) bs).lonIv.1, (refineSt (EncSt.init cfg) bs).lonIv.2,
           (refineSt (EncSt.init cfg) bs).latIv.1, (refineSt (EncSt.init cfg) bs).latIv.2],
      ∃ m : Int, e = m / 2 ^ 44 ∧ |m| ≤ 180 * 2 ^ 44 := by
  intro e he
  obtain ⟨lo, hi, m, hm⟩ := cell_dyadic hb bs e he
  obtain ⟨k, hk⟩ : ∃ k, 44 = (bs.length + 1) / 2 + k := ⟨44 - (bs.length + 1) / 2, by omega⟩
  have h1 : (2 : Rat) ^ ((bs.length + 1) / 2) ≠ 0 := pow_ne_zero _ (by norm_num)
  have h2 : (2 : Rat) ^ k ≠ 0 := pow_ne_zero _ (by norm_num)
  have he' : e = ((m * 2 ^ k : Int) : Rat) / 2 ^ 44 := by
    rw [hm, hk, pow_add]; push_cast; field_simp
  refine ⟨m * 2 ^ k, he', ?_⟩
  have hpos : (0 : Rat) < 2 ^ 44 := by norm_num
  have hv : ((m * 2 ^ k : Int) : Rat) = e * 2 ^ 44 := by rw [he']; field_simp
  have hlo : (-(180 * 2 ^ 44 : Int) : Rat) ≤ ((m * 2 ^ k : Int) : Rat) := by
    rw [hv]; push_cast; nlinarith
  have hhi : ((m * 2 ^ k : Int) : Rat) ≤ ((180 * 2 ^ 44 : Int) : Rat) := by
    rw [hv]; push_cast; nlinarith
  rw [abs_le]
  constructor
  · exact_mod_cast hlo
  · exact_mod_cast hhi

/-! ## the cell as a `GeoBox` (`niemeyer_to_geobox`) — partial, finding F11a

Full statement (FALSE on the current code, see `cellBox_counterexample`):
  for every cell inside the coordinate range, `cellBox` is the decoded cell, i.e.
  `b.contains (lon, lat) = true ↔ Contains d lon lat`.
What is missing: the hypothesis `d.1 + d.2.2.1 < 180` (east edge strictly west of the antimeridian);
for an east edge of exactly 180 the `Coordinate` constructor stores −180. -/

theorem cellBox_contains_partial {base : Nat} {cfg : NiemeyerCfg} (hb : cfgOf base = some cfg)
    {h : List Char} {d : Rat × Rat × Rat × Rat} (hd : decode base h = .ok d)
    (heast : d.1 + d.2.2.1 < 180) (hlat : -90 ≤ d.2.1 - d.2.2.2 ∧ d.2.1 + d.2.2.2 ≤ 90) :
    ∃ b, cellBox base h = .ok b ∧ b.nw = (d.1 - d.2.2.1, d.2.1 + d.2.2.2) ∧
      b.se = (d.1 + d.2.2.1, d.2.1 - d.2.2.2) ∧
      ∀ lon lat, b.contains (lon, lat) = true ↔ Contains d lon lat := by
  obtain ⟨r1, _, _, _⟩ := centre_lon_range hb hd
  obtain ⟨_, e1, e2⟩ := centre_strictly_contained hb hd
  obtain ⟨lon, lat, le, la⟩ := d
  simp only at heast hlat r1 e1 e2
  have n1 : normalize true (lon - le) (lat + la) = (lon - le, lat + la) :=
    normalize_id r1 (by linarith) (by linarith) hlat.2
  have n2 : normalize true (lon + le) (lat - la) = (lon + le, lat - la) :=
    normalize_id (by linarith) heast hlat.1 (by linarith)
  refine ⟨⟨(lon - le, lat + la), (lon + le, lat - la)⟩, ?_, rfl, rfl, ?_⟩
  · simp only [cellBox, hd, n1, n2]
  · intro x y
    simp only [Box.contains, Contains, Bool.and_eq_true, decide_eq_true_eq]
    tauto

/-- the box of the cell a coordinate encodes to contains the coordinate, unless the cell's east edge
    is the antimeridian -/
theorem cellBox_contains_coord_partial {base : Nat} {cfg : NiemeyerCfg} (hb : cfgOf base = some cfg)
    {lon lat : Rat} (hx : -180 ≤ lon ∧ lon ≤ 180) (hy : -90 ≤ lat ∧ lat ≤ 90) {n : Nat} {h : List Char}
    (he : encode base lon lat n = .ok h) :
    ∃ d, decode base h = .ok d ∧
      (d.1 + d.2.2.1 < 180 → -90 ≤ d.2.1 - d.2.2.2 → d.2.1 + d.2.2.2 ≤ 90 →
        ∃ b, cellBox base h = .ok b ∧ b.contains (lon, lat) = true) := by
  obtain ⟨d, hd, hc⟩ := decode_encode_contains_coord hb hx hy he
  refine ⟨d, hd, fun h1 h2 h3 => ?_⟩
  obtain ⟨b, hb1, _, _, hb4⟩ := cellBox_contains_partial hb hd h1 ⟨h2, h3⟩
  exact ⟨b, hb1, (hb4 lon lat).mpr hc⟩

/-- **F11a**: base 32, cell `z` = [135, 180] × [45, 90] lies inside the coordinate range, yet its box
    has the SE corner at longitude −180 and contains no point at all (in particular not the centre) -/
theorem cellBox_counterexample :
    decode 32 ['z'] = .ok (1575 / 10, 675 / 10, 225 / 10, 225 / 10) ∧
    cellBox 32 ['z'] = .ok ⟨(135, 90), (-180, 45)⟩ ∧
    ∀ p : Pt, (Box.mk (135, 90) (-180, 45)).contains p = false := by
  refine ⟨by decide +kernel, by decide +kernel, ?_⟩
  intro p
  simp only [Box.contains, Bool.and_eq_false_iff, decide_eq_false_iff_not, not_le]
  by_cases h : (135 : Rat) ≤ p.1
  · left; left; right; linarith
  · left; left; left; exact not_le.mp h

/-! ## neighbours (`_get_surrounding`) -/

theorem mapExcept_ok {α β ε} {f : α → Except ε β} {P : β → Prop} : ∀ (l : List α),
    (∀ x ∈ l, ∃ y, f x = .ok y ∧ P y) → ∃ ys, mapExcept f l = .ok ys ∧ ys.length = l.length ∧ ∀ y ∈ ys, P y
  | [], _ => ⟨[], rfl, rfl, by simp⟩
  | x :: xs, hall => by
    obtain ⟨y, hy, py⟩ := hall x (by simp)
    obtain ⟨ys, h1, h2, h3⟩ := mapExcept_ok xs (fun z hz => hall z (by simp [hz]))
    refine ⟨y :: ys, by simp only [mapExcept, hy, h1], by simp [h2], ?_⟩
    intro z hz
    rcases List.mem_cons.mp hz with rfl | hz
    · exact py
    · exact h3 z hz

/-- the eight neighbours are geohashes of the same length over the same alphabet: the flood fill of
    C12 never leaves the finite set of cells of that length -/
theorem surrounding_length {base : Nat} {cfg : NiemeyerCfg} (hb : cfgOf base = some cfg)
    {h : List Char} {d : Rat × Rat × Rat × Rat} (hd : decode base h = .ok d) :
    ∃ ns, surrounding base h = .ok ns ∧ ns.length = 8 ∧
      ∀ n ∈ ns, n.length = h.length ∧ ∀ c ∈ n, c ∈ cfg.charset := by
  obtain ⟨lon, lat, le, la⟩ := d
  have := mapExcept_ok (P := fun n : List Char => n.length = h.length ∧ ∀ c ∈ n, c ∈ cfg.charset)
    (f := fun (o : Int × Int) => encodeCoord base (lon + o.1 * (le * 2)) (lat + o.2 * (la * 2)) h.length)
    offsets (by
      intro o _
      obtain ⟨n, hn⟩ := encode_total hb (normalize true (lon + o.1 * (le * 2)) (lat + o.2 * (la * 2))).1
        (normalize true (lon + o.1 * (le * 2)) (lat + o.2 * (la * 2))).2 h.length
      exact ⟨n, by simpa [encodeCoord] using hn, encode_length hb hn, encode_alphabet hb hn⟩)
  obtain ⟨ns, h1, h2, h3⟩ := this
  exact ⟨ns, by simp only [surrounding, hd, h1], by simpa [offsets] using h2, h3⟩

/-! ## the neighbours are the adjacent grid cells -/

/-- width of a longitude / latitude cell after `n` bisection steps -/
def cellW (cfg : NiemeyerCfg) (n : Nat) : Rat := (cfg.maxX - cfg.minX) / 2 ^ lonSteps true n
def cellH (cfg : NiemeyerCfg) (n : Nat) : Rat := (cfg.maxY - cfg.minY) / 2 ^ latSteps true n

theorem cellW_pos {cfg : NiemeyerCfg} (hw : WF cfg) (n : Nat) : 0 < cellW cfg n := by
  obtain ⟨_, _, _, _, _, _, hx, _, px, _⟩ := hw
  unfold cellW
  apply div_pos
  · rw [hx]; linarith
  · positivity

theorem cellH_pos {cfg : NiemeyerCfg} (hw : WF cfg) (n : Nat) : 0 < cellH cfg n := by
  obtain ⟨_, _, _, _, _, _, _, hy, _, py⟩ := hw
  unfold cellH
  apply div_pos
  · rw [hy]; linarith
  · positivity

/-- a decoded cell is a grid cell: centre and error margins in closed form -/
theorem decode_grid {base : Nat} {cfg : NiemeyerCfg} (hb : cfgOf base = some cfg) {h : List Char}
    {d : Rat × Rat × Rat × Rat} (hd : decode base h = .ok d) :
    ∃ i j : Int, d = (cfg.minX + (i + 1 / 2) * cellW cfg (h.length * cfg.bits.length),
                      cfg.minY + (j + 1 / 2) * cellH cfg (h.length * cfg.bits.length),
                      cellW cfg (h.length * cfg.bits.length) / 2,
                      cellH cfg (h.length * cfg.bits.length) / 2) := by
  have hw := (cfgOf_wf hb).1
  rw [decode_eq hb] at hd
  obtain ⟨s, hs, rfl⟩ := decodeCfg_ok hd
  have hp : Pos (DecSt.init cfg).toEnc := hw.init_pos
  obtain ⟨_, _, _, herr⟩ := decGo_sub hw h _ s hs hp
  obtain ⟨e1, e2⟩ := herr (init_errInv hw)
  obtain ⟨bs, hl, hr⟩ := decGo_refine hw h _ s hs
  obtain ⟨i, j, g1, g2⟩ := refineSt_grid bs (grid_init cfg)
  rw [init_toEnc] at hr
  rw [← hr] at g1 g2
  have ic : (EncSt.init cfg).lonComp = true := rfl
  rw [ic, hl] at g1 g2
  simp only [Nat.zero_add, DecSt.toEnc] at g1 g2
  refine ⟨i, j, ?_⟩
  rw [e1, e2, g1, g2]
  unfold mid cellW cellH
  simp only
  refine Prod.ext ?_ (Prod.ext ?_ (Prod.ext ?_ ?_)) <;> simp only <;> ring

theorem index_unique {W : Rat} (hW : 0 < W) {A : Rat} {i i' a : Int}
    (h1 : A + (i' + 1 / 2) * W - W / 2 ≤ A + (i + a + 1 / 2) * W)
    (h2 : A + (i + a + 1 / 2) * W ≤ A + (i' + 1 / 2) * W + W / 2) : i' = i + a := by
  have e1 : (i' : Rat) * W ≤ ((i : Rat) + a + 1 / 2) * W := by linarith
  have e2 : ((i : Rat) + a + 1 / 2) * W ≤ ((i' : Rat) + 1) * W := by linarith
  have f1 : (i' : Rat) ≤ (i : Rat) + a + 1 / 2 := le_of_mul_le_mul_right e1 hW
  have f2 : (i : Rat) + a + 1 / 2 ≤ (i' : Rat) + 1 := le_of_mul_le_mul_right e2 hW
  have g1 : (2 * i' : Int) ≤ 2 * (i + a) + 1 := by
    have : ((2 * i' : Int) : Rat) ≤ ((2 * (i + a) + 1 : Int) : Rat) := by push_cast; linarith
    exact_mod_cast this
  have g2 : (2 * (i + a) + 1 : Int) ≤ 2 * i' + 2 := by
    have : ((2 * (i + a) + 1 : Int) : Rat) ≤ ((2 * i' + 2 : Int) : Rat) := by push_cast; linarith
    exact_mod_cast this
  omega

/-- **grid step**: encoding the centre of a cell moved by whole cell sizes (staying inside the base's
    range) yields the cell whose centre is that point, with the same error margins -/
theorem encode_offset {base : Nat} {cfg : NiemeyerCfg} (hb : cfgOf base = some cfg) {h : List Char}
    {d : Rat × Rat × Rat × Rat} (hd : decode base h = .ok d) (a b : Int)
    (hx : cfg.minX ≤ d.1 + a * (d.2.2.1 * 2) ∧ d.1 + a * (d.2.2.1 * 2) ≤ cfg.maxX)
    (hy : cfg.minY ≤ d.2.1 + b * (d.2.2.2 * 2) ∧ d.2.1 + b * (d.2.2.2 * 2) ≤ cfg.maxY) :
    ∃ n, encode base (d.1 + a * (d.2.2.1 * 2)) (d.2.1 + b * (d.2.2.2 * 2)) h.length = .ok n ∧
      decode base n = .ok (d.1 + a * (d.2.2.1 * 2), d.2.1 + b * (d.2.2.2 * 2), d.2.2.1, d.2.2.2) := by
  have hw := (cfgOf_wf hb).1
  obtain ⟨n, hn⟩ := encode_total hb (d.1 + a * (d.2.2.1 * 2)) (d.2.1 + b * (d.2.2.2 * 2)) h.length
  have hlen := encode_length hb hn
  obtain ⟨dn, hdn, hc⟩ := decode_encode_contains hb hx hy hn
  obtain ⟨i, j, rfl⟩ := decode_grid hb hd
  obtain ⟨i', j', rfl⟩ := decode_grid hb hdn
  rw [hlen] at hc hdn
  set W := cellW cfg (h.length * cfg.bits.length) with hWd
  set H := cellH cfg (h.length * cfg.bits.length) with hHd
  have hW : 0 < W := cellW_pos hw _
  have hH : 0 < H := cellH_pos hw _
  obtain ⟨c1, c2, c3, c4⟩ := hc
  simp only at c1 c2 c3 c4
  have ei : i' = i + a := by
    apply index_unique hW (A := cfg.minX)
    · linarith
    · linarith
  have ej : j' = j + b := by
    apply index_unique hH (A := cfg.minY)
    · linarith
    · linarith
  refine ⟨n, hn, ?_⟩
  rw [hdn, ei, ej]
  simp only
  congr 1
  refine Prod.ext ?_ (Prod.ext ?_ (Prod.ext ?_ ?_)) <;> simp only <;> push_cast <;> ring

theorem mapExcept_forall₂ {α β ε} {f : α → Except ε β} {R : α → β → Prop} : ∀ (l : List α),
    (∀ x ∈ l, ∃ y, f x = .ok y ∧ R x y) → ∃ ys, mapExcept f l = .ok ys ∧ List.Forall₂ R l ys
  | [], _ => ⟨[], rfl, List.Forall₂.nil⟩
  | x :: xs, hall => by
    obtain ⟨y, hy, py⟩ := hall x (by simp)
    obtain ⟨ys, h1, h2⟩ := mapExcept_forall₂ xs (fun z hz => hall z (by simp [hz]))
    exact ⟨y :: ys, by simp only [mapExcept, hy, h1], List.Forall₂.cons py h2⟩

/-- **neighbours are the adjacent grid cells**: for a cell whose 3×3 block lies inside the coordinate
    range (and west of the antimeridian), `_get_surrounding` returns, in the order N, NE, E, SE, S,
    SW, W, NW, the eight cells whose decoded centres are the centre moved by one cell size, with the
    same error margins -/
theorem surrounding_adjacent {base : Nat} {cfg : NiemeyerCfg} (hb : cfgOf base = some cfg) {h : List Char}
    {d : Rat × Rat × Rat × Rat} (hd : decode base h = .ok d)
    (hx : -180 ≤ d.1 - 3 * d.2.2.1 ∧ d.1 + 3 * d.2.2.1 < 180)
    (hy : -90 ≤ d.2.1 - 3 * d.2.2.2 ∧ d.2.1 + 3 * d.2.2.2 ≤ 90) :
    ∃ ns, surrounding base h = .ok ns ∧
      List.Forall₂ (fun (o : Int × Int) n =>
        decode base n = .ok (d.1 + o.1 * (d.2.2.1 * 2), d.2.1 + o.2 * (d.2.2.2 * 2), d.2.2.1, d.2.2.2))
        offsets ns := by
  obtain ⟨hw, _, h1, h2, h3⟩ := cfgOf_wf hb
  have hy' : cfg.minY = -cfg.maxY := hw.2.2.2.2.2.2.2.1
  obtain ⟨_, e1, e2⟩ := centre_strictly_contained hb hd
  obtain ⟨lon, lat, le, la⟩ := d
  simp only at hx hy e1 e2
  have hmaxY : (90 : Rat) ≤ cfg.maxY := by rcases h3 with r | r <;> norm_num [r]
  have key : ∀ o ∈ offsets, ∃ n, encodeCoord base (lon + o.1 * (le * 2)) (lat + o.2 * (la * 2)) h.length = .ok n ∧
      decode base n = .ok (lon + o.1 * (le * 2), lat + o.2 * (la * 2), le, la) := by
    intro o ho
    have ho1 : (-1 : Rat) ≤ o.1 ∧ (o.1 : Rat) ≤ 1 ∧ (-1 : Rat) ≤ o.2 ∧ (o.2 : Rat) ≤ 1 := by
      simp only [offsets, List.mem_cons, List.not_mem_nil, or_false] at ho
      rcases ho with rfl | rfl | rfl | rfl | rfl | rfl | rfl | rfl <;> norm_num
    obtain ⟨a1, a2, a3, a4⟩ := ho1
    have bx1 : -180 ≤ lon + o.1 * (le * 2) := by nlinarith
    have bx2 : lon + o.1 * (le * 2) < 180 := by nlinarith
    have by1 : -90 ≤ lat + o.2 * (la * 2) := by nlinarith
    have by2 : lat + o.2 * (la * 2) ≤ 90 := by nlinarith
    obtain ⟨n, hn, hdn⟩ := encode_offset hb hd o.1 o.2
      (by simp only; rw [h1, h2]; exact ⟨bx1, le_of_lt bx2⟩)
      (by simp only; rw [hy']; constructor <;> linarith)
    refine ⟨n, ?_, hdn⟩
    unfold encodeCoord
    rw [normalize_id bx1 bx2 by1 by2]
    exact hn
  obtain ⟨ns, hns, hf⟩ := mapExcept_forall₂ (R := fun (o : Int × Int) n =>
      decode base n = .ok (lon + o.1 * (le * 2), lat + o.2 * (la * 2), le, la)) offsets key
  exact ⟨ns, by simp only [surrounding, hd, hns], hf⟩


end GV.Geohash
