import GeoVerif.Gen.SrcXyz
import GeoVerif.Props.C07
/-!
# Source tie for the unit-vector form of a coordinate and the dot-product distance (`coordinates.py`, `_geometry.py`)

`GeoVerif/Gen/SrcXyz.lean` is regenerated on every run from the current text of `Coordinate.xyz`, `Coordinate._from_xyz`
and `_geometry.dist_xyz_meters`, generic over the numeric class.  The source works on Python lists (`[x, y, z]`,
`xyz[2]`, `zip`, `sum`), the model of `Model/Sphere.lean` on triples: the equalities go through the list of the triple's
components, for every numeric instance and every radius.  `_from_xyz` may raise (`assert len(xyz) == 3`, `xyz[i]`): on a
three-element list it does not, and the pair it hands to the `Coordinate` constructor normalises to the model's `fromXyz`.
-/
namespace GV.C07SrcXyz
open GV GV.Sphere Num

section generic
variable {α : Type} [Num α] (R : α)

/-- the components of a triple, as the Python list -/
def toList (v : α × α × α) : List α := [v.1, v.2.1, v.2.2]

/-- `Coordinate.xyz` -/
theorem xyz_eq (c : Coord α) : Src.Xyz.xyz R c = toList (xyz c) := by
  simp [Src.Xyz.xyz, xyz, toList]

/-- Python's `sum` over the three products is the model's three-term compensated sum -/
theorem pySumList_three (x y z : α) : pySumList [x, y, z] = pySum3 x y z := by
  simp [pySumList, pySum3]

/-- `_geometry.dist_xyz_meters` -/
theorem distXyz_eq (c1 c2 : Coord α) : Src.Xyz.distXyz R c1 c2 = distXyz R c1 c2 := by
  simp only [Src.Xyz.distXyz, xyz_eq, toList, List.zip_cons_cons, List.zip_nil_right, List.map_cons, List.map_nil,
    pySumList_three, distXyz, dot3, clampUnit]
  rfl

/-- `Coordinate._from_xyz` on a three-element list: no AssertionError, no IndexError, and the (longitude, latitude)
    handed to the `Coordinate` constructor -/
theorem fromXyz_ok (x y z : α) :
    Src.Xyz.fromXyz R [x, y, z] = .ok (degrees (Num.atan2 y x), degrees (Num.asin z)) := by
  simp [Src.Xyz.fromXyz, GV.Py.getIdx]

/-- … which the constructor normalises to the model's `fromXyz` -/
theorem fromXyz_eq (v : α × α × α) :
    (Src.Xyz.fromXyz R (toList v)).map (normCoord 4) = .ok (fromXyz v) := by
  simp [toList, fromXyz_ok, fromXyz, Except.map]

/-- a list of any other length is rejected by the `assert` -/
theorem fromXyz_assert (xs : List α) (h : xs.length ≠ 3) :
    Src.Xyz.fromXyz R xs = .error "ERR:Other:AssertionError" := by
  simp only [Src.Xyz.fromXyz, Int.ofNat_eq_natCast]
  split
  · next hc => exfalso; simp at hc; omega
  · rfl

end generic

/-! ## headline theorems of `Props/C07.lean` for the translated distance (real numbers) -/

section real
open Real GV.RealGeo GV.SphereBridge GV.NumReal GV.C07

/-- **the translated dot-product distance is the haversine distance** (latitudes in range) -/
theorem src_hav_eq_distXyz (R : ℝ) (c1 c2 : RC) (h1 : |c1.2| ≤ 90) (h2 : |c2.2| ≤ 90) :
    haversine R c1 c2 = Src.Xyz.distXyz R c1 c2 := by
  rw [distXyz_eq]; exact hav_eq_distXyz R c1 c2 h1 h2

theorem src_distXyz_self (R : ℝ) (c : RC) : Src.Xyz.distXyz R c c = 0 := by
  rw [distXyz_eq]; exact distXyz_self R c

theorem src_distXyz_symm (R : ℝ) (c1 c2 : RC) : Src.Xyz.distXyz R c1 c2 = Src.Xyz.distXyz R c2 c1 := by
  rw [distXyz_eq, distXyz_eq]; exact distXyz_symm R c1 c2

end real

end GV.C07SrcXyz
