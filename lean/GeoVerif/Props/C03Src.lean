import GeoVerif.Gen.SrcCurved
import GeoVerif.Props.C03
/-!
# Source tie for the analytic membership tests of the curved shapes (`structures.py`)

`GeoVerif/Gen/SrcCurved.lean` is regenerated from the current text of `GeoCircle.contains_coordinate`,
`GeoEllipse.contains_coordinate` and `GeoRing.contains_coordinate` on every run, generic over the numeric class of
`Model/Sphere.lean` (so the equalities hold for the real-number instance the C03 theorems use and for the binary64
instance the driver runs).  Each translated test is proved equal to the model's, for every numeric instance, every
rounding function, every shape and every list of hole tests.
-/
namespace GV.C03Src
open GV GV.Sphere Num

variable {α : Type} [Num α]
variable (rnd5 : α → α) (R : α) (center : Coord α) (radius a b rotDeg inner outer amin amax : α)
  (holes : List (Coord α → Bool))

theorem containsCircle_eq (c : Coord α) :
    Src.Curved.containsCircle rnd5 R center radius a b rotDeg inner outer amin amax holes () c =
      containsCircle R center radius holes c := by
  simp only [Src.Curved.containsCircle, containsCircle, notInHoles]
  cases Num.le (haversine R c center) radius <;> cases holes.any (fun h => h c) <;> rfl

theorem containsEllipse_eq (c : Coord α) :
    Src.Curved.containsEllipse rnd5 R center radius a b rotDeg inner outer amin amax holes () c =
      containsEllipse rnd5 R center a b rotDeg holes c := by
  simp only [Src.Curved.containsEllipse, containsEllipse, notInHoles]
  cases Num.le (haversine R center c) (radiusAtAngle a b (radians (bearing rnd5 center c - rotDeg))) <;>
    cases holes.any (fun h => h c) <;> rfl

theorem containsRing_eq (c : Coord α) :
    Src.Curved.containsRing rnd5 R center radius a b rotDeg inner outer amin amax holes () c =
      containsRing rnd5 R center inner outer amin amax holes c := by
  simp only [Src.Curved.containsRing, containsRing, notInHoles]
  cases Num.lt (amax - amin) (ofI 360) <;> cases Num.le amin (bearing rnd5 center c) <;>
    cases Num.le (bearing rnd5 center c) amax <;> cases Num.le inner (haversine R center c) <;>
    cases Num.le (haversine R center c) outer <;> cases holes.any (fun h => h c) <;> rfl

end GV.C03Src
