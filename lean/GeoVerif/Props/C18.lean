import GeoVerif.Lemmas.Collection
/-!
# C18 — collection filters select exactly the members satisfying the per-shape predicate

Per-shape predicates (`x.intersects(q)`, `x.contains(q)`, `q.contains(x)`, `x.bounds`) are parameters:
the theorems hold for *every* predicate, every collection (any length) and both collection classes.

`WF c` is what the constructors guarantee (nothing for a FeatureCollection; chronological and fully
time-bounded for a Track — `mk_wf`).  Purity (the source collection is unchanged) is true of the model by
construction (its functions return new values) and is checked on the implementation by snapshots.
-/
namespace GV.Coll

/-- the class invariant: a Track is chronological and holds no time-less shape -/
def WF (c : Coll) : Prop := c.tag = .track → Sorted c.shapes ∧ ∀ x ∈ c.shapes, x.dt ≠ none

/-- **what the property demands of a filter**: same class, exactly the members satisfying `p`, in their
    original order (`List.filter` keeps order and multiplicity) -/
structure IsFilterOf (p : Shape → Bool) (c : Coll) (r : Except String Coll) : Prop where
  eq : r = .ok ⟨c.tag, c.shapes.filter p⟩

/-- reading of `IsFilterOf`: the result is a sub-sequence of the source, contains exactly the members
    with `p`, with their multiplicity, has the receiver's class and is again well formed -/
theorem IsFilterOf.exact {p : Shape → Bool} {c : Coll} {r : Except String Coll} (h : IsFilterOf p c r)
    (hc : WF c) :
    ∃ r', r = .ok r' ∧ r'.tag = c.tag ∧ r'.shapes.Sublist c.shapes ∧
      (∀ x, x ∈ r'.shapes ↔ x ∈ c.shapes ∧ p x = true) ∧
      (∀ x, p x = true → r'.shapes.count x = c.shapes.count x) ∧ WF r' := by
  refine ⟨_, h.eq, rfl, List.filter_sublist, fun x => List.mem_filter, ?_, ?_⟩
  · intro x hx; exact List.count_filter hx
  · intro ht
    obtain ⟨hs, hd⟩ := hc ht
    exact ⟨hs.filter p, fun x hx => hd x (List.mem_filter.mp hx).1⟩

/-- the constructors establish `WF` -/
theorem mk_wf {tag : Tag} {l : List Shape} {c : Coll} (h : build tag l = .ok c) : WF c ∧ c.tag = tag := by
  cases tag with
  | fc =>
    simp only [build, rewrap, mkFC, Except.ok.injEq] at h; subst h
    exact ⟨fun ht => (by cases ht), rfl⟩
  | track =>
    simp only [build, rewrap] at h
    obtain ⟨ht, rfl⟩ := mkTrack_inv h
    exact ⟨fun _ => ⟨sortByStart_sorted l, fun x hx => ht x (mem_sortByStart.mp hx)⟩, rfl⟩

/-- **`type(self)([x for x in self.geoshapes if p(x)])`** is `List.filter p` with the receiver's class: the
    Track constructor accepts the list and its (stable) re-sort is the identity -/
theorem rewrap_filter (c : Coll) (hc : WF c) (p : Shape → Bool) :
    rewrap c.tag (c.shapes.filter p) = .ok ⟨c.tag, c.shapes.filter p⟩ := by
  cases ht : c.tag with
  | fc => rfl
  | track =>
    obtain ⟨hs, hd⟩ := hc ht
    exact mkTrack_sorted_id (fun x hx => hd x (List.mem_filter.mp hx).1) (hs.filter p)

/-- `filter_by_dt(datetime)`: exactly the members whose `dt` *equals* that instant (I6) -/
theorem filterByDt_inst (c : Coll) (hc : WF c) (t : Int) :
    IsFilterOf (fun x => decide (x.dt = some ⟨t, t⟩)) c (c.filterByDt (.inst t)) := by
  constructor
  simp only [filterByDt]
  rw [rewrap_filter c hc]
  congr 2
  apply List.filter_congr
  intro x _
  unfold dtEquals
  cases hd : x.dt with
  | none => simp
  | some d =>
    rw [Bool.eq_iff_iff]
    simp only [decide_eq_true_eq, Option.some.injEq]
    cases d; simp [TI.eq]

/-- `filter_by_dt(TimeInterval)`: exactly the time-bounded members whose `dt` intersects it -/
theorem filterByDt_ival (c : Coll) (hc : WF c) (i : TI) :
    IsFilterOf (fun x => match x.dt with | none => false | some d => i.intersects d) c
      (c.filterByDt (.ival i)) := by
  constructor
  simp only [filterByDt]
  rw [rewrap_filter c hc]
  rfl

/-- any other argument type: `ValueError` -/
theorem filterByDt_other (c : Coll) : c.filterByDt .other = .error "ERR:Value" := rfl

/-- `filter_by_intersection(q)` keeps exactly the members `x` with `x.intersects(q)` -/
theorem filterByIntersection_exact (c : Coll) (hc : WF c) (xq qx : Shape → Bool) :
    IsFilterOf xq c (c.filterByIntersection xq qx) :=
  ⟨rewrap_filter c hc xq⟩

/-- `filter_contains(q)` keeps exactly the members `x` with `x.contains(q)` -/
theorem filterContains_exact (c : Coll) (hc : WF c) (xq qx : Shape → Bool) :
    IsFilterOf xq c (c.filterContains xq qx) :=
  ⟨rewrap_filter c hc xq⟩

/-- `filter_contained_by(q)` keeps exactly the members `x` with `q.contains(x)` -/
theorem filterContainedBy_exact (c : Coll) (hc : WF c) (xq qx : Shape → Bool) :
    IsFilterOf qx c (c.filterContainedBy xq qx) :=
  ⟨rewrap_filter c hc qx⟩

/-- `filter_by_property(key, f)`: when every member has the key, exactly the members with `f(value)` -/
theorem filterByProperty_exact (c : Coll) (hc : WF c) (key : String) (f : PVal → Bool)
    (h : ∀ x ∈ c.shapes, assocGet x.properties key ≠ none) :
    IsFilterOf (propHolds key f) c (c.filterByProperty key f) := by
  constructor
  unfold filterByProperty
  rw [filterPropLoop_ok key f c.shapes [] h]
  simp only [List.nil_append]
  exact rewrap_filter c hc _

/-- … and `KeyError` exactly when some member lacks the key -/
theorem filterByProperty_keyError (c : Coll) (hc : WF c) (key : String) (f : PVal → Bool) :
    c.filterByProperty key f = .error "ERR:Key" ↔ ∃ x ∈ c.shapes, assocGet x.properties key = none := by
  constructor
  · intro he
    by_contra hne
    have h : ∀ x ∈ c.shapes, assocGet x.properties key ≠ none := fun x hx hn => hne ⟨x, hx, hn⟩
    rw [(filterByProperty_exact c hc key f h).eq] at he
    cases he
  · intro h
    unfold filterByProperty
    rw [filterPropLoop_error key f c.shapes [] h]

/-- a time-bounded shape always has the `datetime_start` property, a time-less one only if the user set it -/
theorem properties_datetime_start (x : Shape) (d : TI) (h : x.dt = some d) :
    assocGet x.properties "datetime_start" = some (.inst d.start) := by
  unfold Shape.properties; rw [h]; simp only
  have hset : ∀ (l : List (String × PVal)) (k : String) (v : PVal), assocGet (assocSet l k v) k = some v := by
    intro l k v
    induction l with
    | nil => simp [assocSet, assocGet]
    | cons a as ih =>
      obtain ⟨k', v'⟩ := a
      by_cases hk : (k' == k) = true
      · simp [assocSet, assocGet, hk]
      · simp [assocSet, assocGet, hk, ih]
  have hother : ∀ (l : List (String × PVal)) (k k2 : String) (v : PVal), (k2 == k) = false →
      assocGet (assocSet l k2 v) k = assocGet l k := by
    intro l k k2 v hk
    induction l with
    | nil => simp [assocSet, assocGet, hk]
    | cons a as ih =>
      obtain ⟨k', v'⟩ := a
      by_cases hk' : (k' == k2) = true
      · have : k' = k2 := by simpa using hk'
        subst this
        simp [assocSet, assocGet, hk]
      · by_cases hk'' : (k' == k) = true
        · simp [assocSet, assocGet, hk', hk'']
        · simp [assocSet, assocGet, hk', hk'', ih]
  rw [hother _ _ _ _ (by decide), hset]

/-! ### bounds -/

/-- box `a` lies inside box `b` -/
def Box.le (a b : Box) : Prop := b.1 ≤ a.1 ∧ b.2.1 ≤ a.2.1 ∧ a.2.2.1 ≤ b.2.2.1 ∧ a.2.2.2 ≤ b.2.2.2

/-- **the bounds of a collection are the union (least enclosing box) of its members' bounds**: every
    member box lies inside, each side is attained by some member, hence every box enclosing all members
    encloses it; and the empty collection raises (`min()` of an empty sequence) -/
theorem bounds_is_union (bnd : Shape → Box) (c : Coll) :
    (c.shapes = [] → bounds bnd c = .error "ERR:Value") ∧
    (c.shapes ≠ [] → ∃ b, bounds bnd c = .ok b ∧
      (∀ x ∈ c.shapes, Box.le (bnd x) b) ∧
      (∃ x ∈ c.shapes, b.1 = (bnd x).1) ∧ (∃ x ∈ c.shapes, b.2.1 = (bnd x).2.1) ∧
      (∃ x ∈ c.shapes, b.2.2.1 = (bnd x).2.2.1) ∧ (∃ x ∈ c.shapes, b.2.2.2 = (bnd x).2.2.2) ∧
      ∀ b', (∀ x ∈ c.shapes, Box.le (bnd x) b') → Box.le b b') := by
  constructor
  · intro h; simp [bounds, h, pyMin]; rfl
  · intro h
    have hne : ∀ (g : Box → Rat), (c.shapes.map bnd).map g ≠ [] := by
      intro g; simpa using h
    obtain ⟨m1, h1⟩ := pyMin_ok_of_ne_nil (hne (·.1))
    obtain ⟨m2, h2⟩ := pyMin_ok_of_ne_nil (hne (·.2.1))
    obtain ⟨m3, h3⟩ := pyMax_ok_of_ne_nil (hne (·.2.2.1))
    obtain ⟨m4, h4⟩ := pyMax_ok_of_ne_nil (hne (·.2.2.2))
    refine ⟨(m1, m2, m3, m4), ?_, ?_⟩
    · simp only [bounds, h1, h2, h3, h4]; rfl
    · obtain ⟨a1, b1⟩ := pyMin_spec h1
      obtain ⟨a2, b2⟩ := pyMin_spec h2
      obtain ⟨a3, b3⟩ := pyMax_spec h3
      obtain ⟨a4, b4⟩ := pyMax_spec h4
      simp only [List.map_map, List.mem_map, Function.comp] at a1 a2 a3 a4 b1 b2 b3 b4
      have e1 : ∃ x ∈ c.shapes, m1 = (bnd x).1 := by obtain ⟨x, hx, e⟩ := a1; exact ⟨x, hx, e.symm⟩
      have e2 : ∃ x ∈ c.shapes, m2 = (bnd x).2.1 := by obtain ⟨x, hx, e⟩ := a2; exact ⟨x, hx, e.symm⟩
      have e3 : ∃ x ∈ c.shapes, m3 = (bnd x).2.2.1 := by obtain ⟨x, hx, e⟩ := a3; exact ⟨x, hx, e.symm⟩
      have e4 : ∃ x ∈ c.shapes, m4 = (bnd x).2.2.2 := by obtain ⟨x, hx, e⟩ := a4; exact ⟨x, hx, e.symm⟩
      refine ⟨?_, e1, e2, e3, e4, ?_⟩
      · intro x hx
        exact ⟨b1 _ ⟨x, hx, rfl⟩, b2 _ ⟨x, hx, rfl⟩, b3 _ ⟨x, hx, rfl⟩, b4 _ ⟨x, hx, rfl⟩⟩
      · intro b' hb'
        obtain ⟨x1, hx1, r1⟩ := e1
        obtain ⟨x2, hx2, r2⟩ := e2
        obtain ⟨x3, hx3, r3⟩ := e3
        obtain ⟨x4, hx4, r4⟩ := e4
        refine ⟨?_, ?_, ?_, ?_⟩
        · show b'.1 ≤ m1; rw [r1]; exact (hb' x1 hx1).1
        · show b'.2.1 ≤ m2; rw [r2]; exact (hb' x2 hx2).2.1
        · show m3 ≤ b'.2.2.1; rw [r3]; exact (hb' x3 hx3).2.2.1
        · show m4 ≤ b'.2.2.2; rw [r4]; exact (hb' x4 hx4).2.2.2

/-! ### the vertex collection handed to the hull (`_get_vertices`) -/

theorem vertsList_append (a b : List Geo) : vertsList (a ++ b) = vertsList a ++ vertsList b := by
  induction a with
  | nil => simp [vertsList]
  | cons g gs ih => simp [vertsList, ih]

/-- every vertex of every member (multi-shapes flattened recursively) is handed to `convex_hull` -/
theorem verts_mem {gs : List Geo} {g : Geo} {p : Pt} (hg : g ∈ gs) (hp : p ∈ g.verts) :
    p ∈ vertsList gs := by
  induction gs with
  | nil => cases hg
  | cons a as ih =>
    simp only [vertsList, List.mem_append]
    rcases List.mem_cons.mp hg with rfl | h
    · left; exact hp
    · right; exact ih h

/-- a multi-shape contributes the vertices of all its members, in member order -/
theorem verts_multi (ms : List Geo) : (Geo.multi ms).verts = vertsList ms := by
  simp [Geo.verts]

/-! ### list protocol -/

theorem len_eq (c : Coll) : c.len = c.shapes.length := rfl

theorem iter_eq (c : Coll) : c.iter = c.shapes := rfl

theorem bool_iff (c : Coll) : c.bool = true ↔ c.shapes ≠ [] := by
  simp [Coll.bool]

/-- `item in collection`: some member is the same object or compares equal -/
theorem contains_iff (c : Coll) (item : Shape) :
    c.contains item = true ↔ ∃ x ∈ c.shapes, x.id = item.id ∨ x.eqc = item.eqc := by
  simp [Coll.contains, sameOrEq]

/-- `FeatureCollection + FeatureCollection` is list concatenation -/
theorem add_fc (a b : List Shape) : add (mkFC a) (mkFC b) = .ok (mkFC (a ++ b)) := rfl

/-- mixing the classes raises -/
theorem add_mixed (a b : Coll) (h : a.tag ≠ b.tag) : add a b = .error "ERR:Value" := by
  cases ha : a.tag <;> cases hb : b.tag <;> simp_all [add]

/-- `Track + Track` is the chronological (stable) merge of the concatenation -/
theorem add_track (a b : Coll) (ha : a.tag = .track) (hb : b.tag = .track) (wa : WF a) (wb : WF b) :
    add a b = .ok ⟨.track, sortByStart (a.shapes ++ b.shapes)⟩ := by
  simp only [add, ha, hb]
  apply mkTrack_ok
  intro x hx
  rcases List.mem_append.mp hx with h | h
  · exact (wa ha).2 x h
  · exact (wb hb).2 x h

/-- `collection[i]`, `0 ≤ i < n` -/
theorem getIdx_nonneg (c : Coll) (i : Nat) (h : i < c.shapes.length) :
    c.getIdx (i : Int) = .ok c.shapes[i] := by
  have h1 : ¬ ((i : Int) < 0) := by omega
  have h2 : ¬ ((i : Int) < 0 ∨ (i : Int) ≥ (c.shapes.length : Int)) := by omega
  simp only [getIdx, if_neg h1, if_neg h2, Int.toNat_natCast, List.getElem?_eq_getElem h]

/-- `collection[-k]`, `1 ≤ k ≤ n`, counts from the end -/
theorem getIdx_neg (c : Coll) (k : Nat) (h1 : 1 ≤ k) (h : k ≤ c.shapes.length) :
    c.getIdx (-(k : Int)) = .ok (c.shapes[c.shapes.length - k]'(by omega)) := by
  have h1' : (-(k : Int) < 0) := by omega
  have h2 : ¬ (-(k : Int) + (c.shapes.length : Int) < 0 ∨
      -(k : Int) + (c.shapes.length : Int) ≥ (c.shapes.length : Int)) := by omega
  have h3 : (-(k : Int) + (c.shapes.length : Int)).toNat = c.shapes.length - k := by omega
  have h4 : c.shapes.length - k < c.shapes.length := by omega
  simp only [getIdx, if_pos h1', if_neg h2, h3, List.getElem?_eq_getElem h4]

/-- out of range: `IndexError` -/
theorem getIdx_out (c : Coll) (i : Int) (h : i ≥ c.shapes.length ∨ i < -(c.shapes.length : Int)) :
    c.getIdx i = .error "ERR:Index" := by
  by_cases hi : i < 0
  · have : i + (c.shapes.length : Int) < 0 ∨ i + (c.shapes.length : Int) ≥ (c.shapes.length : Int) := by omega
    simp only [getIdx, if_pos hi, if_pos this]
  · have : i < 0 ∨ i ≥ (c.shapes.length : Int) := by omega
    simp only [getIdx, if_neg hi, if_pos this]

theorem range_filterMap_getElem? (l : List Shape) (a len : Nat) :
    (List.range len).filterMap (fun (k : Nat) => l[a + k]?) = (l.drop a).take len := by
  induction len with
  | zero => simp
  | succ n ih =>
    rw [List.range_succ, List.filterMap_append, ih]
    simp only [List.filterMap_cons, List.filterMap_nil]
    cases h : l[a + n]? with
    | none =>
      simp only [List.append_nil]
      have hlen : l.length ≤ a + n := List.getElem?_eq_none_iff.mp h
      rw [List.take_of_length_le (by simp; omega), List.take_of_length_le (by simp; omega)]
    | some x =>
      have hlt : a + n < l.length := by
        by_contra hc
        rw [List.getElem?_eq_none_iff.mpr (by omega)] at h; cases h
      have : (l.drop a)[n]? = some x := by rw [List.getElem?_drop]; exact h
      rw [List.take_add_one, this]; rfl

theorem slice_step1_core (l : List Shape) (a len : Nat) :
    (List.range len).filterMap (fun (k : Nat) => l[((a : Int) + (k : Int) * 1).toNat]?) =
      (l.drop a).take len := by
  have : ∀ k : Nat, ((a : Int) + (k : Int) * 1).toNat = a + k := by intro k; omega
  simp only [this]
  exact range_filterMap_getElem? l a len

/-- `collection[:]` is the whole list -/
theorem getSlice_full (c : Coll) : c.getSlice none none none = .ok c.shapes := by
  unfold getSlice sliceIndices
  simp only [Option.getD_none]
  have h0 : ((1 : Int) == 0) = false := by decide
  simp only [h0, Bool.false_eq_true, if_false]
  have hneg : decide ((1 : Int) < 0) = false := by decide
  simp only [hneg, Bool.false_eq_true, if_false]
  by_cases hn : (0 : Int) < (c.shapes.length : Int)
  · simp only [hn, if_true]
    have : ((c.shapes.length : Int) - 0 + 1 - 1) / 1 = (c.shapes.length : Int) := by omega
    simp only [this, Int.toNat_natCast]
    have := slice_step1_core c.shapes 0 c.shapes.length
    simp only [Nat.cast_zero, List.drop_zero, List.take_length] at this
    rw [this]
  · simp only [hn, if_false]
    have : c.shapes = [] := by
      cases hc : c.shapes with
      | nil => rfl
      | cons a as => rw [hc] at hn; simp at hn
    simp [this]

/-- `collection[a:b]` for in-range non-negative bounds is `drop a (take b)` -/
theorem getSlice_step1 (c : Coll) (a b : Nat) (ha : a ≤ c.shapes.length) (hb : b ≤ c.shapes.length) :
    c.getSlice (some (a : Int)) (some (b : Int)) none = .ok ((c.shapes.take b).drop a) := by
  unfold getSlice sliceIndices
  simp only [Option.getD_none]
  have h0 : ((1 : Int) == 0) = false := by decide
  simp only [h0, Bool.false_eq_true, if_false]
  have hneg : decide ((1 : Int) < 0) = false := by decide
  simp only [hneg, Bool.false_eq_true, if_false]
  have ha0 : ¬ ((a : Int) < 0) := by omega
  have hb0 : ¬ ((b : Int) < 0) := by omega
  simp only [ha0, hb0, if_false]
  have hca : (if (a : Int) ≥ (c.shapes.length : Int) then (c.shapes.length : Int) else (a : Int)) = (a : Int) := by
    split <;> omega
  have hcb : (if (b : Int) ≥ (c.shapes.length : Int) then (c.shapes.length : Int) else (b : Int)) = (b : Int) := by
    split <;> omega
  simp only [hca, hcb]
  have hlen : (if (a : Int) < (b : Int) then ((b : Int) - (a : Int) + 1 - 1) / 1 else 0).toNat = b - a := by
    split <;> omega
  simp only [hlen]
  rw [slice_step1_core, List.drop_take]

theorem range_filterMap_rev (l : List Shape) (n : Nat) (hn : n ≤ l.length) :
    (List.range n).filterMap (fun (k : Nat) => l[(((n : Int) - 1) + (k : Int) * (-1)).toNat]?) =
      (l.take n).reverse := by
  induction n with
  | zero => simp
  | succ m ih =>
    have hm : m ≤ l.length := by omega
    rw [List.range_succ_eq_map, List.filterMap_cons]
    have h0 : ((((m + 1 : Nat) : Int) - 1) + ((0 : Nat) : Int) * (-1)).toNat = m := by omega
    rw [h0]
    have hlt : m < l.length := by omega
    rw [List.getElem?_eq_getElem hlt]
    simp only [List.filterMap_map]
    have hfun : ((fun (k : Nat) => l[((((m + 1 : Nat) : Int) - 1) + (k : Int) * (-1)).toNat]?) ∘ Nat.succ) =
        (fun (k : Nat) => l[(((m : Int) - 1) + (k : Int) * (-1)).toNat]?) := by
      funext k
      simp only [Function.comp]
      congr 1
      omega
    rw [hfun, ih hm]
    have : l.take (m + 1) = l.take m ++ [l[m]] := by
      rw [List.take_add_one, List.getElem?_eq_getElem hlt]; rfl
    rw [this, List.reverse_append]
    rfl

/-- `collection[::-1]` is the reversed list -/
theorem getSlice_reverse (c : Coll) : c.getSlice none none (some (-1)) = .ok c.shapes.reverse := by
  unfold getSlice sliceIndices
  simp only [Option.getD_some]
  have h0 : ((-1 : Int) == 0) = false := by decide
  simp only [h0, Bool.false_eq_true, if_false]
  have hneg : decide ((-1 : Int) < 0) = true := by decide
  simp only [hneg, if_true]
  have hlen : (if (-1 : Int) < (c.shapes.length : Int) - 1 then
      ((c.shapes.length : Int) - 1 - (-1) - (-1) - 1) / (-(-1)) else 0).toNat = c.shapes.length := by
    have e : (-(-1 : Int)) = 1 := by decide
    rw [e, Int.ediv_one]
    split <;> omega
  simp only [hlen]
  have := range_filterMap_rev c.shapes c.shapes.length (le_refl _)
  rw [List.take_length] at this
  rw [this]

/-- a zero step raises `ValueError` -/
theorem getSlice_step0 (c : Coll) (a b : Option Int) : c.getSlice a b (some 0) = .error "ERR:Value" := by
  simp [getSlice, sliceIndices]

/-! ### `==` of collections (`FeatureCollection.__eq__`, `Track.__eq__`)

The property text claims nothing about `==`; these are facts about the model the `list-eq` stream ties to the code.
`listEqBy r` is `list == list` for an arbitrary member relation `r` (`x is y or x == y`); the model's `listEq` is its
instance at `sameOrEq` (same object, or same measured class of `==`). -/

/-- `list == list` for a member relation `r` -/
def listEqBy (r : Shape → Shape → Bool) : List Shape → List Shape → Bool
  | [], [] => true
  | x :: xs, y :: ys => r x y && listEqBy r xs ys
  | _, _ => false

theorem listEq_eq_by : ∀ a b : List Shape, listEq a b = listEqBy sameOrEq a b
  | [], [] => rfl
  | [], _ :: _ => rfl
  | _ :: _, [] => rfl
  | x :: xs, y :: ys => by simp only [listEq, listEqBy, listEq_eq_by xs ys]

/-- same length and pairwise related -/
theorem listEqBy_iff (r : Shape → Shape → Bool) : ∀ a b : List Shape,
    listEqBy r a b = true ↔ List.Forall₂ (fun x y => r x y = true) a b
  | [], [] => by simp [listEqBy]
  | [], _ :: _ => ⟨fun h => by simp [listEqBy] at h, fun h => by cases h⟩
  | _ :: _, [] => ⟨fun h => by simp [listEqBy] at h, fun h => by cases h⟩
  | x :: xs, y :: ys => by simp [listEqBy, listEqBy_iff r xs ys]

theorem listEqBy_refl {r : Shape → Shape → Bool} (hr : ∀ x, r x x = true) : ∀ a : List Shape, listEqBy r a a = true
  | [] => rfl
  | x :: xs => by simp [listEqBy, hr x, listEqBy_refl hr xs]

/-- a symmetric member equality makes list equality symmetric -/
theorem listEqBy_symm {r : Shape → Shape → Bool} (hr : ∀ x y, r x y = r y x) : ∀ a b : List Shape,
    listEqBy r a b = listEqBy r b a
  | [], [] => rfl
  | [], _ :: _ => rfl
  | _ :: _, [] => rfl
  | x :: xs, y :: ys => by simp only [listEqBy, hr x y, listEqBy_symm hr xs ys]

theorem sameOrEq_refl (x : Shape) : sameOrEq x x = true := by simp [sameOrEq]

/-- the member relation of the model is symmetric (object identity is; `==` of shapes is by assumption — its classes
    are measured) -/
theorem sameOrEq_symm (x y : Shape) : sameOrEq x y = sameOrEq y x := by
  simp only [sameOrEq]
  rw [Bool.eq_iff_iff]
  simp only [Bool.or_eq_true, beq_iff_eq]
  constructor <;> rintro (h | h) <;> simp [h]

/-- `a == a` for a FeatureCollection (also when a member is not `==` to itself: the list compares by identity first) -/
theorem eqFC_refl (a : Coll) (ha : a.tag = .fc) : a.eqFC a = true := by
  simp [eqFC, ha, listEq_eq_by, listEqBy_refl sameOrEq_refl]

/-- `a == b` and `b == a` agree for two FeatureCollections -/
theorem eqFC_symm (a b : Coll) (ha : a.tag = .fc) (hb : b.tag = .fc) : a.eqFC b = b.eqFC a := by
  simp [eqFC, ha, hb, listEq_eq_by, listEqBy_symm sameOrEq_symm a.shapes b.shapes]

/-- what `==` of two FeatureCollections says: same length, pairwise the same object or `==` members, same order -/
theorem eqFC_iff (a b : Coll) :
    a.eqFC b = true ↔ b.tag = .fc ∧ List.Forall₂ (fun x y => x.id = y.id ∨ x.eqc = y.eqc) a.shapes b.shapes := by
  simp only [eqFC, Bool.and_eq_true, beq_iff_eq, listEq_eq_by, listEqBy_iff]
  have : (fun x y : Shape => sameOrEq x y = true) = (fun x y => x.id = y.id ∨ x.eqc = y.eqc) := by
    funext x y
    simp only [sameOrEq, Bool.or_eq_true, beq_iff_eq, eq_iff_iff]
    constructor <;> rintro (h | h) <;> simp [h]
  rw [this]

/-- `==` between collections of either class: reflexive, symmetric, and never true across the classes -/
theorem eqColl_refl (a : Coll) : eqColl a a = true := by
  cases ha : a.tag <;> simp [eqColl, eqFC, eqTrack, ha, listEq_eq_by, listEqBy_refl sameOrEq_refl]

theorem eqColl_symm (a b : Coll) : eqColl a b = eqColl b a := by
  have h1 : (Tag.track == Tag.fc) = false := by decide
  have h2 : (Tag.fc == Tag.track) = false := by decide
  cases ha : a.tag <;> cases hb : b.tag <;>
    simp [eqColl, eqFC, eqTrack, ha, hb, h1, h2, listEq_eq_by, listEqBy_symm sameOrEq_symm a.shapes b.shapes]

theorem eqColl_mixed (a b : Coll) (h : a.tag ≠ b.tag) : eqColl a b = false := by
  have h1 : (Tag.track == Tag.fc) = false := by decide
  have h2 : (Tag.fc == Tag.track) = false := by decide
  cases ha : a.tag <;> cases hb : b.tag <;> simp_all [eqColl, eqFC, eqTrack]

/-- non-vacuity: a twin (`==`, another object) in place of a member keeps two collections equal, another order or an
    unequal member does not, a Track over the same members is never equal, and a member that is not `==` to itself
    (class `-1` here stands for "its own class") still leaves `a == a` true through the identity test -/
example :
    let s (i e : Int) : Shape := ⟨i, e, none, [], 0, 0⟩
    eqFC ⟨.fc, [s 0 0, s 1 1]⟩ ⟨.fc, [s 0 0, s 2 1]⟩ = true ∧
    eqFC ⟨.fc, [s 0 0, s 1 1]⟩ ⟨.fc, [s 1 1, s 0 0]⟩ = false ∧
    eqFC ⟨.fc, [s 0 0, s 1 1]⟩ ⟨.fc, [s 0 0, s 3 3]⟩ = false ∧
    eqFC ⟨.fc, [s 0 0, s 1 1]⟩ ⟨.fc, [s 0 0]⟩ = false ∧
    eqFC ⟨.fc, [s 0 0, s 1 1]⟩ ⟨.track, [s 0 0, s 1 1]⟩ = false ∧
    eqColl ⟨.track, [s 0 0]⟩ ⟨.fc, [s 0 0]⟩ = false ∧
    eqFC ⟨.fc, [s 5 5]⟩ ⟨.fc, [s 5 5]⟩ = true ∧ eqFC ⟨.fc, [s 5 5]⟩ ⟨.fc, [s 6 6]⟩ = false := by decide

/-! ### `+` on feature collections is list concatenation: a monoid, additive in `len`, a union for `in` -/

/-- concatenating feature collections is associative, has the empty collection as a unit on both sides,
    adds lengths and unions membership -/
theorem add_fc_assoc (a b c : List Shape) :
    (add (mkFC a) (mkFC b) >>= fun ab => add ab (mkFC c)) =
      (add (mkFC b) (mkFC c) >>= fun bc => add (mkFC a) bc) := by
  simp [add_fc, bind, Except.bind, List.append_assoc]

theorem add_fc_empty (a : List Shape) :
    add (mkFC a) (mkFC []) = .ok (mkFC a) ∧ add (mkFC []) (mkFC a) = .ok (mkFC a) := by
  simp [add_fc]

theorem add_fc_len (a b : List Shape) (c : Coll) (h : add (mkFC a) (mkFC b) = .ok c) :
    c.len = (mkFC a).len + (mkFC b).len := by
  rw [add_fc] at h; cases h; simp [len, mkFC]

theorem add_fc_contains (a b : List Shape) (c : Coll) (h : add (mkFC a) (mkFC b) = .ok c) (x : Shape) :
    c.contains x = ((mkFC a).contains x || (mkFC b).contains x) := by
  rw [add_fc] at h; cases h; simp [contains, mkFC, List.any_append]

/-! ### non-vacuity -/

/-- a Track receiver (chronological, with a long early interval and duplicate starts), non-trivial
    predicates: the hypotheses of the theorems above are satisfiable and the filters are neither empty
    nor everything -/
example :
    let s (i : Int) (a b : Int) : Shape := ⟨i, i, some ⟨a, b⟩, [("k", .user i)], 0, 0⟩
    let c : Coll := ⟨.track, [s 3 0 20, s 1 3 3, s 0 5 9, s 2 5 5]⟩
    WF c ∧
      c.filterByDt (.ival ⟨4, 6⟩) = .ok ⟨.track, [s 3 0 20, s 0 5 9, s 2 5 5]⟩ ∧
      c.filterByDt (.inst 5) = .ok ⟨.track, [s 2 5 5]⟩ ∧
      c.filterByProperty "missing" (fun _ => true) = .error "ERR:Key" := by
  intro s c
  have hc : WF c := fun _ => ⟨by unfold Sorted; decide, by decide⟩
  refine ⟨hc, ?_, ?_, ?_⟩
  · rw [(filterByDt_ival c hc _).eq]; decide
  · rw [(filterByDt_inst c hc _).eq]; decide
  · rw [filterByProperty_keyError c hc]; decide

end GV.Coll
