import GeoVerif.Gen.SrcCurvedGen
import GeoVerif.Props.C03
import GeoVerif.Props.C07Src
/-!
# Source tie for the vertex generators and analytic bounds of the curved shapes (`structures.py`)

`GeoVerif/Gen/SrcCurvedGen.lean` is regenerated on every run from the current text of `GeoCircle.bounding_coords`,
`GeoEllipse._radius_at_angle`, `GeoEllipse.bounding_coords`, `GeoRing._draw_bounds`, `GeoRing.bounding_coords`,
`GeoCircle.bounds`, `GeoEllipse.bounds` (and the two `centroid` properties they read), generic over the numeric class of
`Model/Sphere.lean` and over the destination function (`inverse_haversine_radians` is the parameter `dest`,
`inverse_haversine_degrees` the parameter `destDeg`).

Each translated definition is proved equal to the model's, for every numeric instance, every destination function,
every shape and every sample count `k`:

* the loops (`for i in range(k, -1, -1): … coords.append(…)`) are structural recursions over the schedule with the list
  built so far as state; by induction they are `acc ++ schedule.map f` — the model's enumeration;
* instantiating `dest` with the model's `destination rnd R` gives `circleRing` / `ellipseRing` / `ringArcs` / `wedgeRing`
  (what the driver runs), with `destRaw R` the un-rounded rings the C03 / C09 theorems are about, and with the
  *translated* calculator of `Gen/SrcCalc.lean` (through `C07Src.destination_eq`) the same model functions again;
* `GeoRing.bounding_coords` reads `outer_bounds[0]`, which raises `IndexError` on an empty list: the equality shows it
  never does (the schedule `k … 0` is never empty).

The headline theorems of `Props/C03.lean` are restated for the translated definitions at the end.
-/
namespace GV.C03SrcGen
open GV GV.Sphere Num

section generic
variable {α : Type} [Num α]
variable (dest destDeg : Coord α → α → α → Coord α) (center : Coord α)
  (radius a b rotDeg inner outer amin amax : α)

/-- `GeoCircle.bounding_coords` of the model, for any destination function -/
def circleRingWith (dest : Coord α → α → α → Coord α) (center : Coord α) (radius : α) (k : Nat) : List (Coord α) :=
  (schedule (kOr k 36)).map fun i => dest center (circleAngle (kOr k 36) i) radius

theorem circleRing_model (rnd : α → α) (R : α) (k : Nat) :
    circleRing rnd R center radius k = circleRingWith (destination rnd R) center radius k := rfl

theorem circleRingRaw_model (R : α) (k : Nat) :
    circleRingRaw R center radius k = circleRingWith (destRaw R) center radius k := rfl

/-! ## the translated definitions equal the model's -/

theorem radiusAtAngle_eq (ang : α) :
    Src.CurvedGen.radiusAtAngle dest destDeg center radius a b rotDeg inner outer amin amax () ang =
      radiusAtAngle a b ang := by
  first | rfl | simp [Src.CurvedGen.radiusAtAngle, radiusAtAngle]

theorem circleCentroid_eq :
    Src.CurvedGen.circleCentroid dest destDeg center radius a b rotDeg inner outer amin amax () = center := rfl

theorem ellipseCentroid_eq :
    Src.CurvedGen.ellipseCentroid dest destDeg center radius a b rotDeg inner outer amin amax () = center := rfl

/-- the `for` loop of `GeoCircle.bounding_coords`, from any list of indices and any list built so far -/
theorem circle_loop_eq (k : Nat) (xs : List Nat) (acc : List (Coord α)) :
    Src.CurvedGen.circleRing.loop1 dest destDeg center radius a b rotDeg inner outer amin amax k xs acc =
      acc ++ xs.map fun i => dest center (circleAngle k i) radius := by
  induction xs generalizing acc with
  | nil => simp [Src.CurvedGen.circleRing.loop1]
  | cons i is ih => simp [Src.CurvedGen.circleRing.loop1, ih, circleAngle]

theorem circleRing_eq (k : Nat) :
    Src.CurvedGen.circleRing dest destDeg center radius a b rotDeg inner outer amin amax () k =
      circleRingWith dest center radius k := by
  simp [Src.CurvedGen.circleRing, circle_loop_eq, circleRingWith, kOr]

/-- the `for` loop of `GeoEllipse.bounding_coords` -/
theorem ellipse_loop_eq (k : Nat) (rot : α) (xs : List Nat) (acc : List (Coord α)) :
    Src.CurvedGen.ellipseRing.loop1 dest destDeg center radius a b rotDeg inner outer amin amax () k rot xs acc =
      acc ++ xs.map fun i => dest center (circleAngle k i + rot) (radiusAtAngle a b (circleAngle k i)) := by
  induction xs generalizing acc with
  | nil => simp [Src.CurvedGen.ellipseRing.loop1]
  | cons i is ih => simp [Src.CurvedGen.ellipseRing.loop1, ih, circleAngle, radiusAtAngle_eq]

theorem ellipseRing_eq (k : Nat) :
    Src.CurvedGen.ellipseRing dest destDeg center radius a b rotDeg inner outer amin amax () k =
      ellipseRingWith dest center a b rotDeg k := by
  simp [Src.CurvedGen.ellipseRing, ellipse_loop_eq, ellipseRingWith, ellipseDefaultK, kOr]

/-- the `for` loop of `GeoRing._draw_bounds`: two lists grow side by side -/
theorem ring_loop_eq (k : Nat) (xs : List Nat) (accO accI : List (Coord α)) :
    Src.CurvedGen.ringArcs.loop1 dest destDeg center radius a b rotDeg inner outer amin amax k xs accO accI =
      (accO ++ xs.map (fun i => dest center (ringAngle amin amax k i) outer),
       accI ++ xs.map (fun i => dest center (ringAngle amin amax k i) inner)) := by
  induction xs generalizing accO accI with
  | nil => simp [Src.CurvedGen.ringArcs.loop1]
  | cons i is ih => simp [Src.CurvedGen.ringArcs.loop1, ih, ringAngle]

/-- `max(c, 10)` on ints, as the model spells it -/
theorem max_ten (c : Int) : max c 10 = if c < 10 then 10 else c := by
  split <;> omega

theorem ringArcs_eq (k : Nat) :
    Src.CurvedGen.ringArcs dest destDeg center radius a b rotDeg inner outer amin amax () k =
      ringArcsWith dest center inner outer amin amax k := by
  simp only [Src.CurvedGen.ringArcs, ring_loop_eq, ringArcsWith, ringDefaultK, kOr, max_ten, List.nil_append]

theorem schedule_cons (k : Nat) : ∃ t, schedule k = k :: t := by
  cases k with
  | zero => exact ⟨[], rfl⟩
  | succ n => exact ⟨schedule n, by simp [schedule, List.range_succ]⟩

/-- `GeoRing.bounding_coords` never raises (`outer_bounds[0]` exists) and returns the model's ring -/
theorem wedgeRing_eq (k : Nat) :
    Src.CurvedGen.wedgeRing dest destDeg center radius a b rotDeg inner outer amin amax () k =
      .ok (wedgeRingOf amin amax (ringArcsWith dest center inner outer amin amax k)) := by
  obtain ⟨t, ht⟩ := schedule_cons (kOr k (ringDefaultK amin amax))
  simp only [Src.CurvedGen.wedgeRing, ringArcs_eq, wedgeRingOf, isFullRing]
  rcases Bool.eq_false_or_eq_true (Num.le amin (ofI 0)) with h1 | h1 <;>
    rcases Bool.eq_false_or_eq_true (Num.le (ofI 0) amin) with h2 | h2 <;>
    rcases Bool.eq_false_or_eq_true (Num.le amax (ofI 360)) with h3 | h3 <;>
    rcases Bool.eq_false_or_eq_true (Num.le (ofI 360) amax) with h4 | h4 <;>
    simp [ringArcsWith, ht, GV.Py.getIdx, h1, h2, h3, h4]

/-- `GeoCircle.bounds` (with `inverse_haversine_degrees` the model's) -/
theorem circleBounds_eq (rnd : α → α) (R : α) :
    Src.CurvedGen.circleBounds dest (destinationDeg rnd R) center radius a b rotDeg inner outer amin amax () =
      circleBounds rnd R center radius := by
  first | rfl | simp [Src.CurvedGen.circleBounds, circleBounds]

/-- `GeoEllipse.bounds` -/
theorem ellipseBounds_eq (rnd : α → α) (R : α) :
    Src.CurvedGen.ellipseBounds dest (destinationDeg rnd R) center radius a b rotDeg inner outer amin amax () =
      ellipseBounds rnd R center a b rotDeg := by
  first | rfl | simp [Src.CurvedGen.ellipseBounds, ellipseBounds, ellipseCentroid_eq]

/-! ## instances of the destination function -/

/-- with the model's calculator: what the driver runs against the code -/
theorem circleRing_eq_model (rnd : α → α) (R : α) (k : Nat) :
    Src.CurvedGen.circleRing (destination rnd R) destDeg center radius a b rotDeg inner outer amin amax () k =
      circleRing rnd R center radius k := by
  rw [circleRing_eq]; rfl

theorem ellipseRing_eq_model (rnd : α → α) (R : α) (k : Nat) :
    Src.CurvedGen.ellipseRing (destination rnd R) destDeg center radius a b rotDeg inner outer amin amax () k =
      ellipseRing rnd R center a b rotDeg k := by
  rw [ellipseRing_eq]; rfl

theorem ringArcs_eq_model (rnd : α → α) (R : α) (k : Nat) :
    Src.CurvedGen.ringArcs (destination rnd R) destDeg center radius a b rotDeg inner outer amin amax () k =
      ringArcs rnd R center inner outer amin amax k := by
  rw [ringArcs_eq]; rfl

theorem wedgeRing_eq_model (rnd : α → α) (R : α) (k : Nat) :
    Src.CurvedGen.wedgeRing (destination rnd R) destDeg center radius a b rotDeg inner outer amin amax () k =
      .ok (wedgeRing rnd R center inner outer amin amax k) := by
  rw [wedgeRing_eq]; rfl

/-- with the *translated* calculator (`Gen/SrcCalc.lean`; the `Coordinate` constructor is `normCoord 4`): source text
    on both levels, the model's ring -/
theorem circleRing_eq_calc (rnd : α → α) (R : α) (k : Nat) :
    Src.CurvedGen.circleRing (fun s ang d => normCoord 4 (Src.Calc.destination rnd R s ang d)) destDeg
        center radius a b rotDeg inner outer amin amax () k =
      circleRing rnd R center radius k := by
  have h : (fun s ang d => normCoord 4 (Src.Calc.destination rnd R s ang d)) = destination rnd R := by
    funext s ang d; exact C07Src.destination_eq rnd R s ang d
  rw [h, circleRing_eq_model]

theorem wedgeRing_eq_calc (rnd : α → α) (R : α) (k : Nat) :
    Src.CurvedGen.wedgeRing (fun s ang d => normCoord 4 (Src.Calc.destination rnd R s ang d)) destDeg
        center radius a b rotDeg inner outer amin amax () k =
      .ok (wedgeRing rnd R center inner outer amin amax k) := by
  have h : (fun s ang d => normCoord 4 (Src.Calc.destination rnd R s ang d)) = destination rnd R := by
    funext s ang d; exact C07Src.destination_eq rnd R s ang d
  rw [h, wedgeRing_eq_model]

theorem circleRing_eq_raw (R : α) (k : Nat) :
    Src.CurvedGen.circleRing (destRaw R) destDeg center radius a b rotDeg inner outer amin amax () k =
      circleRingRaw R center radius k := by
  rw [circleRing_eq]; rfl

theorem ellipseRing_eq_raw (R : α) (k : Nat) :
    Src.CurvedGen.ellipseRing (destRaw R) destDeg center radius a b rotDeg inner outer amin amax () k =
      ellipseRingRaw R center a b rotDeg k := by
  rw [ellipseRing_eq]; rfl

theorem wedgeRing_eq_raw (R : α) (k : Nat) :
    Src.CurvedGen.wedgeRing (destRaw R) destDeg center radius a b rotDeg inner outer amin amax () k =
      .ok (wedgeRingRaw R center inner outer amin amax k) := by
  rw [wedgeRing_eq]; rfl

end generic

/-! ## headline theorems of `Props/C03.lean`, for the translated definitions (real numbers, un-rounded vertices) -/

section real
open Real GV.RealGeo GV.SphereBridge GV.NumReal GV.C07 GV.C03
variable (destDeg : RC → ℝ → ℝ → RC) (radius a b rotDeg inner outer amin amax : ℝ)

/-- **every vertex the source generates for a circle lies on the circle**, whatever `k` -/
theorem src_circleRing_on_circle {R : ℝ} (hR : 0 < R) (c : RC) (r : ℝ) (k : Nat) (hlat : |c.2| ≤ 90)
    (h0 : 0 ≤ r) (h1 : r ≤ π * R) :
    ∀ p ∈ Src.CurvedGen.circleRing (destRaw R) destDeg c r a b rotDeg inner outer amin amax () k,
      haversine R c p = r := by
  rw [circleRing_eq_raw]; exact circleRing_on_circle hR c r k hlat h0 h1

/-- **the generated circle ring is closed** -/
theorem src_ring_closed (R : ℝ) (c : RC) (r : ℝ) (k : Nat) :
    (Src.CurvedGen.circleRing (destRaw R) destDeg c r a b rotDeg inner outer amin amax () k).head? =
      (Src.CurvedGen.circleRing (destRaw R) destDeg c r a b rotDeg inner outer amin amax () k).getLast? := by
  rw [circleRing_eq_raw]; exact ring_closed R c r k

/-- every vertex the source generates for an ellipse lies on the polar curve `_radius_at_angle` -/
theorem src_ellipseRing_on_curve {R : ℝ} (hR : 0 < R) (c : RC) (k : Nat) (hlat : |c.2| ≤ 90)
    (hb : 0 < b) (hab : b ≤ a) (ha : a ≤ π * R) :
    ∀ p ∈ Src.CurvedGen.ellipseRing (destRaw R) destDeg c radius a b rotDeg inner outer amin amax () k,
      ∃ i ≤ kOr k (ellipseDefaultK a b),
        haversine R c p = radiusAtAngle a b (circleAngle (kOr k (ellipseDefaultK a b)) i) := by
  rw [ellipseRing_eq_raw]; exact ellipseRing_on_curve hR c a b rotDeg k hlat hb hab ha

/-- a wedge's generated ring is closed by construction (and `bounding_coords` does not raise) -/
theorem src_wedgeRing_closed (R : ℝ) (c : RC) (k : Nat) (h : ¬(amin = 0 ∧ amax = 360)) :
    ∃ ring, Src.CurvedGen.wedgeRing (destRaw R) destDeg c radius a b rotDeg inner outer amin amax () k = .ok ring ∧
      ring.head? = ring.getLast? :=
  ⟨_, wedgeRing_eq_raw _ _ _ _ _ _ _ _ _ _ _ _, wedgeRing_closed R c inner outer amin amax k h⟩

end real

end GV.C03SrcGen
