import GeoVerif.Gen.SrcBase
import GeoVerif.Props.C06Src
import GeoVerif.Props.C05
/-!
# Source tie for the space-time gates of `geostructures/_base.py` (`BaseShapeProtocol`)

`GeoVerif/Gen/SrcBase.lean` is regenerated from the current text of `_base.py` on every run; it calls the translated
`TimeInterval` methods of `Gen/SrcTime.lean`.  Each translated gate is proved equal to the hand-written model of
`Model/SpaceTime.lean`, for every world (nothing is assumed about the spatial methods), and the C05 laws are restated
for the translated gates.
-/
namespace GV.C05Src
open GV GV.ST

variable {σ κ : Type}

/-- unfold the translated gates and the model gates, rewrite the translated `TimeInterval` calls into the model's
    (`C06Src`), then go through the cases of the two `dt` attributes -/
macro "gate_eq" W:ident a:ident b:ident : tactic =>
  `(tactic| (
    simp only [Src.Base.containsTimeDt, Src.Base.containsTimeTI, Src.Base.intersectsTimeDt, Src.Base.intersectsTimeTI,
      Src.Base.containsCoord, Src.Base.containsShape, Src.Base.dunderContainsCoord, Src.Base.dunderContainsShape,
      Src.Base.intersects, World.contains, World.dunderContains, World.intersects, containsTime, intersectsTime, truthy,
      C06Src.containsDt_eq, C06Src.containsTI_eq, C06Src.intersectsDt_eq, C06Src.intersects_eq]
    <;> (cases ($W).dt $a <;> cases ($W).dt $b <;> simp <;> grind)))

theorem containsTimeDt_eq (W : World σ κ) (a : σ) (x : Int) :
    Src.Base.containsTimeDt W a x = containsTime (W.dt a) (.at x) := by
  simp only [Src.Base.containsTimeDt, containsTime, C06Src.containsDt_eq]; cases W.dt a <;> simp

theorem containsTimeTI_eq (W : World σ κ) (a : σ) (t : TI) :
    Src.Base.containsTimeTI W a t = containsTime (W.dt a) (.ti t) := by
  simp only [Src.Base.containsTimeTI, containsTime, C06Src.containsTI_eq]; cases W.dt a <;> simp

theorem intersectsTimeDt_eq (W : World σ κ) (a : σ) (x : Int) :
    Src.Base.intersectsTimeDt W a x = intersectsTime (W.dt a) (.at x) := by
  simp only [Src.Base.intersectsTimeDt, intersectsTime, C06Src.intersectsDt_eq]; cases W.dt a <;> simp

theorem intersectsTimeTI_eq (W : World σ κ) (a : σ) (t : TI) :
    Src.Base.intersectsTimeTI W a t = intersectsTime (W.dt a) (.ti t) := by
  simp only [Src.Base.intersectsTimeTI, intersectsTime, C06Src.intersects_eq]; cases W.dt a <;> simp

theorem containsCoord_eq (W : World σ κ) (a : σ) (c : κ) : Src.Base.containsCoord W a c = W.contains a (.inl c) := by
  simp only [Src.Base.containsCoord, World.contains]

theorem containsShape_eq (W : World σ κ) (a b : σ) : Src.Base.containsShape W a b = W.contains a (.inr b) := by
  gate_eq W a b

theorem dunderContainsCoord_eq (W : World σ κ) (a : σ) (c : κ) :
    Src.Base.dunderContainsCoord W a c = W.dunderContains a (.inl c) := by
  simp only [Src.Base.dunderContainsCoord, Src.Base.containsCoord, World.dunderContains, World.contains]

theorem dunderContainsShape_eq (W : World σ κ) (a b : σ) :
    Src.Base.dunderContainsShape W a b = W.dunderContains a (.inr b) := by
  gate_eq W a b

theorem intersects_eq (W : World σ κ) (a b : σ) : Src.Base.intersects W a b = W.intersects a b := by
  gate_eq W a b

/-! ### the C05 laws, restated for the translated source -/

/-- **intersects** of the source = temporal intersection ∧ spatial intersection when both shapes are time-bounded, the
    spatial test alone when either has no time bounds -/
theorem src_intersects_eq (W : World σ κ) (a b : σ) :
    Src.Base.intersects W a b =
      match W.dt a, W.dt b with
      | some da, some db => da.intersects db && W.intersectsShape a b
      | _, _ => W.intersectsShape a b := by
  rw [intersects_eq]; exact GV.ST.intersects_eq W a b

/-- **contains** of the source = temporal inclusion ∧ spatial containment when both are time-bounded -/
theorem src_contains_eq (W : World σ κ) (a b : σ) :
    Src.Base.containsShape W a b =
      match W.dt a, W.dt b with
      | some da, some db => da.containsTI db && W.containsShape a b
      | _, _ => W.containsShape a b := by
  rw [containsShape_eq]; exact GV.ST.contains_eq W a b

/-- a shape without time bounds is never excluded by time -/
theorem src_timeless (W : World σ κ) (a b : σ) (h : W.dt a = none ∨ W.dt b = none) :
    Src.Base.intersects W a b = W.intersectsShape a b ∧ Src.Base.containsShape W a b = W.containsShape a b := by
  rw [intersects_eq, containsShape_eq]
  exact ⟨GV.ST.intersects_timeless W a b h, GV.ST.contains_timeless W a b h⟩

end GV.C05Src
