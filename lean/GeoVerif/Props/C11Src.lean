import GeoVerif.Gen.SrcGeohash
import GeoVerif.Props.C11
/-!
# Source tie for the Niemeyer geohash codec (`geohash.py`)

`GeoVerif/Gen/SrcGeohash.lean` is regenerated from the current text of `geohash.py` on every run (`harness/srcunits.py`,
unit `SrcGeohash`): `_decode_niemeyer` (the two nested `for` loops: the outer one a structural recursion over the hash
that may raise, the inner one a recursion over `config['bits']` that returns its state), `_coord_to_niemeyer` (the `while`
loop as a fuelled recursion over its seven state variables, fuel `length · len(bits)`), `_get_niemeyer_subhashes`,
`niemeyer_to_geobox` and `NiemeyerHasher._get_surrounding`.  `_NIEMEYER_CONFIG` is the generated table of
`Gen/Geohash.lean`; the two-element interval lists are pairs; `|=` / `&` are `Nat.lor` / `Nat.land`.
`coordinate.to_float()[:2]` is the coordinate's stored `(longitude, latitude)` — for every coordinate, with or without Z
and M (`to_float` is pinned as "a tuple that starts with longitude, latitude"; unpacking the *whole* tuple into two names,
which raised for a coordinate carrying Z or M, is outside the subset and would break the tie).

Each translated definition is proved **equal** to the hand-written model of `Model/Geohash.lean` for every input (every
geohash, coordinate, `length : Int`, base), the loops for every config (`loops_eq_of_wf`: the only thing the encoder loop
needs is a non-empty `bits`, which `WF` contains; with an empty `bits` the source would raise `IndexError` where the
model's `encChar` emits character 0).  The shapes differ: the model encodes character by character (`encGo` over `encChar`
over the masks), the source bit by bit with a bit counter — `encLoop_eq` relates a loop state *in the middle of a
character* to the model and shows that the fuel handed in is never exhausted.  The headline theorems of `Props/C11` are
then restated for the translated functions.
-/
set_option linter.unusedSimpArgs false
set_option linter.unusedTactic false
set_option linter.unreachableTactic false

namespace GV.C11Src
open GV GV.Geohash GV.Geohash.Gen

/-!
The loop lemmas are stated for *any* function that satisfies the equations of the generated loop (`F`, `G` below) and are
applied to the generated loops by unification, inside the proofs of the top-level equalities: the proofs do not name the
variables a loop merely reads, so a new local in front of a loop (`bits = config['bits']`) does not disturb them.
-/

/-- the state tuple the nested loop returns, in the order of the source's assignments -/
def decTuple (s : DecSt) : (Rat × Rat) × (Rat × Rat) × Rat × Rat × Bool :=
  (s.latIv, s.lonIv, s.lonErr, s.latErr, s.lonComp)

theorem tuple_congr {α : Sort _} (G : Rat × Rat → Rat × Rat → Rat → Rat → Bool → α)
    (L : (Rat × Rat) × (Rat × Rat) × Rat × Rat × Bool) (s : DecSt) (h : L = decTuple s) :
    G L.1 L.2.1 L.2.2.1 L.2.2.2.1 L.2.2.2.2 = G s.latIv s.lonIv s.lonErr s.latErr s.lonComp := by
  subst h; rfl

/-! ## `_decode_niemeyer` -/

/-- the inner `for mask in config['bits']` loop is the model's fold of `decBit` over the masks (`decVal`) -/
theorem decInner_generic (v : Nat)
    (F : List Nat → Rat × Rat → Rat × Rat → Rat → Rat → Bool → (Rat × Rat) × (Rat × Rat) × Rat × Rat × Bool)
    (h0 : ∀ latIv lonIv lonErr latErr lc, F [] latIv lonIv lonErr latErr lc = (latIv, lonIv, lonErr, latErr, lc))
    (hs : ∀ m ms latIv lonIv lonErr latErr lc, F (m :: ms) latIv lonIv lonErr latErr lc =
      F ms (decBit ⟨lonIv, latIv, lonErr, latErr, lc⟩ (testMask v m)).latIv
        (decBit ⟨lonIv, latIv, lonErr, latErr, lc⟩ (testMask v m)).lonIv
        (decBit ⟨lonIv, latIv, lonErr, latErr, lc⟩ (testMask v m)).lonErr
        (decBit ⟨lonIv, latIv, lonErr, latErr, lc⟩ (testMask v m)).latErr
        (decBit ⟨lonIv, latIv, lonErr, latErr, lc⟩ (testMask v m)).lonComp) :
    ∀ (masks : List Nat) (s : DecSt), F masks s.latIv s.lonIv s.lonErr s.latErr s.lonComp =
      decTuple (masks.foldl (fun s mask => decBit s (testMask v mask)) s) := by
  intro masks
  induction masks with
  | nil => intro s; rw [h0]; rfl
  | cons m ms ih => intro s; rw [hs, List.foldl_cons]; exact ih _

/-- the outer `for character in geohash` loop, followed by the two mid points, is the model's `decGo` -/
theorem decOuter_generic (cfg : NiemeyerCfg)
    (G : List Char → Rat × Rat → Rat × Rat → Rat → Rat → Bool → Except String (Rat × Rat × Rat × Rat))
    (h0 : ∀ s : DecSt, G [] s.latIv s.lonIv s.lonErr s.latErr s.lonComp = .ok (mid s.lonIv, mid s.latIv, s.lonErr, s.latErr))
    (hs : ∀ c cs (s : DecSt), G (c :: cs) s.latIv s.lonIv s.lonErr s.latErr s.lonComp =
      match decChar cfg s c with
      | .ok s' => G cs s'.latIv s'.lonIv s'.lonErr s'.latErr s'.lonComp
      | .error e => .error e) :
    ∀ (cs : List Char) (s : DecSt), G cs s.latIv s.lonIv s.lonErr s.latErr s.lonComp =
      match decGo cfg cs s with
      | .ok s' => .ok (mid s'.lonIv, mid s'.latIv, s'.lonErr, s'.latErr)
      | .error e => .error e := by
  intro cs
  induction cs with
  | nil => intro s; rw [h0]; rfl
  | cons c cs ih =>
    intro s
    rw [hs]
    simp only [decGo]
    cases decChar cfg s c with
    | error e => rfl
    | ok s' => exact ih s'

/-- … started at the config's ranges: `decodeCfg` -/
theorem decodeCfg_generic (cfg : NiemeyerCfg)
    (G : List Char → Rat × Rat → Rat × Rat → Rat → Rat → Bool → Except String (Rat × Rat × Rat × Rat))
    (h0 : ∀ s : DecSt, G [] s.latIv s.lonIv s.lonErr s.latErr s.lonComp = .ok (mid s.lonIv, mid s.latIv, s.lonErr, s.latErr))
    (hs : ∀ c cs (s : DecSt), G (c :: cs) s.latIv s.lonIv s.lonErr s.latErr s.lonComp =
      match decChar cfg s c with
      | .ok s' => G cs s'.latIv s'.lonIv s'.lonErr s'.latErr s'.lonComp
      | .error e => .error e) (gh : List Char) :
    G gh (cfg.minY, cfg.maxY) (cfg.minX, cfg.maxX) cfg.maxX cfg.maxY true = decodeCfg cfg gh := by
  have := decOuter_generic cfg G h0 hs gh (DecSt.init cfg)
  unfold decodeCfg
  refine Eq.trans this ?_
  cases decGo cfg gh (DecSt.init cfg) <;> rfl

/-- **the translated `_decode_niemeyer` is the model's `decode`** (every geohash, every base) -/
theorem decodeNiemeyer_eq (gh : List Char) (base : Nat) :
    Src.Geohash.decodeNiemeyer gh base = decode base gh := by
  unfold Src.Geohash.decodeNiemeyer decode cfgOf
  cases niemeyerConfigs.lookup base with
  | none => rfl
  | some cfg =>
    simp only []
    refine decodeCfg_generic cfg _ ?_ ?_ gh
    · intro s
      simp [Src.Geohash.decodeNiemeyer.loop1, mid]
    · intro c cs s
      rw [Src.Geohash.decodeNiemeyer.loop1]
      simp only [decChar]
      by_cases hc : c ∈ cfg.charset
      · cases hl : cfg.inverse.lookup c.toNat with
        | none => simp [hc]
        | some v =>
          have hc' : cfg.charset.contains c = true := by simpa using hc
          simp only [hc, hc', Bool.not_true, Bool.false_eq_true, if_false, if_true]
          -- the nested loop over the masks, whatever it is handed besides its state
          refine tuple_congr _ _ (decVal cfg s v) ?_
          refine decInner_generic v _ ?_ ?_ cfg.bits s
          · intros; rfl
          · intro m ms latIv lonIv lonErr latErr lc
            rw [Src.Geohash.decodeNiemeyer.loop2]
            cases lc <;> cases hb : testMask v m <;> simp [decBit, testMask, mid] at hb ⊢ <;> simp [hb]
      · simp [hc]

/-! ## `_coord_to_niemeyer` -/

/-- the model's side of "finish the current character, then `m` more": what the loop computes from a state in the
    middle of a character (`bit` masks already consumed) -/
def encRest (cfg : NiemeyerCfg) (lon lat : Rat) (m : Nat) (gh : List Char) (ch bit : Nat) (s : EncSt) :
    Except String (List Char) :=
  let r := encChar lon lat (cfg.bits.drop bit) ch s
  match cfg.charset[r.1]? with
  | none => .error "ERR:Index"
  | some c =>
    match encGo cfg lon lat m r.2 with
    | .ok cs => .ok (gh ++ c :: cs)
    | .error e => .error e

theorem encRest_zero (cfg : NiemeyerCfg) (lon lat : Rat) (m : Nat) (gh : List Char) (c : Char) (s : EncSt) :
    encRest cfg lon lat m (gh ++ [c]) 0 0 s =
      match encGo cfg lon lat (m + 1) s with
      | .ok cs => .ok (gh ++ c :: cs)
      | .error e => .error e := by
  unfold encRest
  simp only [List.drop_zero, encGo]
  cases cfg.charset[(encChar lon lat cfg.bits 0 s).1]? with
  | none => rfl
  | some c' =>
    cases encGo cfg lon lat m (encChar lon lat cfg.bits 0 s).2 <;> simp

/-- what one iteration of the `while` loop is, in the model's vocabulary (`F` is the loop): one `encBit`, the bit or-ed
    into the character when it is set, then either the next mask or the finished character -/
def EncStep (cfg : NiemeyerCfg) (lon lat : Rat) (length : Int)
    (F : Nat → List Char → Rat × Rat → Rat × Rat → Nat → Nat → Bool → Nat → Except String (List Char)) : Prop :=
  ∀ (fuel : Nat) (gh : List Char) (latIv lonIv : Rat × Rat) (ch bit : Nat) (lc : Bool) (pos : Nat),
    (pos : Int) < length → ∀ hbit : bit < cfg.bits.length,
    F (fuel + 1) gh latIv lonIv ch bit lc pos =
      (let r := encBit lon lat ⟨lonIv, latIv, lc⟩
       let ch' := if r.1 then ch ||| cfg.bits[bit] else ch
       if bit + 1 < cfg.bits.length then F fuel gh r.2.latIv r.2.lonIv ch' (bit + 1) r.2.lonComp pos
       else
         match cfg.charset[ch']? with
         | none => .error "ERR:Index"
         | some c => F fuel (gh ++ [c]) r.2.latIv r.2.lonIv 0 0 r.2.lonComp (pos + 1))

/-- once `geohash_position` has reached `length` the loop returns the hash, whatever fuel is left -/
def EncDone (length : Int)
    (F : Nat → List Char → Rat × Rat → Rat × Rat → Nat → Nat → Bool → Nat → Except String (List Char)) : Prop :=
  ∀ (fuel : Nat) (gh : List Char) (latIv lonIv : Rat × Rat) (ch bit : Nat) (lc : Bool) (pos : Nat),
    length ≤ (pos : Int) → F fuel gh latIv lonIv ch bit lc pos = .ok gh

/-- **the fuelled `while` loop is the model's character-wise recursion**, from any state in the middle of a character,
    as soon as the fuel covers the iterations that are left (`m` whole characters and the rest of the current one) -/
theorem encLoop_generic (cfg : NiemeyerCfg) (lon lat : Rat) (length : Int)
    (F : Nat → List Char → Rat × Rat → Rat × Rat → Nat → Nat → Bool → Nat → Except String (List Char))
    (hdone : EncDone length F) (hstep : EncStep cfg lon lat length F) :
    ∀ (fuel m : Nat) (gh : List Char) (latIv lonIv : Rat × Rat) (ch bit : Nat) (lc : Bool) (pos : Nat),
      bit < cfg.bits.length → length = (pos : Int) + 1 + (m : Int) →
      m * cfg.bits.length + (cfg.bits.length - bit) ≤ fuel →
      F fuel gh latIv lonIv ch bit lc pos = encRest cfg lon lat m gh ch bit ⟨lonIv, latIv, lc⟩ := by
  intro fuel
  induction fuel with
  | zero => intro m gh latIv lonIv ch bit lc pos hbit _ hf; omega
  | succ fuel ih =>
    intro m gh latIv lonIv ch bit lc pos hbit hlen hf
    rw [hstep fuel gh latIv lonIv ch bit lc pos (by omega) hbit]
    have hdrop : cfg.bits.drop bit = cfg.bits[bit] :: cfg.bits.drop (bit + 1) := List.drop_eq_getElem_cons hbit
    by_cases hn : bit + 1 < cfg.bits.length
    · simp only [hn, if_true]
      rw [ih m gh _ _ _ (bit + 1) _ pos hn hlen (by omega)]
      unfold encRest
      rw [hdrop]
      simp only [encChar]
    · have hnil : cfg.bits.drop (bit + 1) = [] := List.drop_eq_nil_of_le (by omega)
      simp only [hn, if_false]
      unfold encRest
      rw [hdrop, hnil]
      simp only [encChar]
      cases hx : cfg.charset[if (encBit lon lat ⟨lonIv, latIv, lc⟩).1 = true then ch ||| cfg.bits[bit] else ch]? with
      | none => rfl
      | some c =>
        simp only []
        cases m with
        | zero =>
          rw [hdone _ _ _ _ _ _ _ _ (by omega)]
          simp [encGo]
        | succ m =>
          have hk : (m + 1) * cfg.bits.length = m * cfg.bits.length + cfg.bits.length := Nat.succ_mul _ _
          rw [ih m (gh ++ [c]) _ _ 0 0 _ (pos + 1) (by omega) (by push_cast at hlen ⊢; omega) (by omega)]
          rw [encRest_zero]

/-- … started at the config's ranges with the fuel `length · len(bits)`, for a config whose `bits` is not empty (every
    well-formed one): the model's `encodeCfg` — **the fuel suffices** -/
theorem encodeCfg_generic (cfg : NiemeyerCfg) (lon lat : Rat) (length : Int)
    (F : Nat → List Char → Rat × Rat → Rat × Rat → Nat → Nat → Bool → Nat → Except String (List Char))
    (hdone : EncDone length F) (hstep : EncStep cfg lon lat length F) (hk : 0 < cfg.bits.length) :
    F (length.toNat * cfg.bits.length) [] (cfg.minY, cfg.maxY) (cfg.minX, cfg.maxX) 0 0 true 0 =
      encodeCfg cfg lon lat length.toNat := by
  by_cases hl : length ≤ 0
  · rw [hdone _ _ _ _ _ _ _ _ (by simpa using hl)]
    have : length.toNat = 0 := by omega
    simp [this, encodeCfg, encGo]
  · obtain ⟨m, hm⟩ : ∃ m : Nat, length.toNat = m + 1 := ⟨length.toNat - 1, by omega⟩
    have hk' : (m + 1) * cfg.bits.length = m * cfg.bits.length + cfg.bits.length := Nat.succ_mul _ _
    rw [encLoop_generic cfg lon lat length F hdone hstep _ m [] _ _ 0 0 true 0 hk (by push_cast; omega) (by rw [hm]; omega)]
    have := encRest_zero cfg lon lat m [] (Char.ofNat 0) ⟨(cfg.minX, cfg.maxX), (cfg.minY, cfg.maxY), true⟩
    rw [hm]
    unfold encodeCfg EncSt.init
    unfold encRest at this ⊢
    simp only [List.drop_zero, encGo] at this ⊢
    cases cfg.charset[(encChar lon lat cfg.bits 0 ⟨(cfg.minX, cfg.maxX), (cfg.minY, cfg.maxY), true⟩).1]? with
    | none => rfl
    | some c => cases encGo cfg lon lat m (encChar lon lat cfg.bits 0 ⟨(cfg.minX, cfg.maxX), (cfg.minY, cfg.maxY), true⟩).2 <;> simp

/-- **the translated `_coord_to_niemeyer` is the model's `encode`** on the stored longitude / latitude: every
    coordinate, every `length` (an `int`: zero and negative lengths give the empty hash), every base -/
theorem coordToNiemeyer_eq (p : Pt) (length : Int) (base : Nat) :
    Src.Geohash.coordToNiemeyer p length base = encode base p.1 p.2 length.toNat := by
  unfold Src.Geohash.coordToNiemeyer encode
  cases hb : cfgOf base with
  | none =>
    have : niemeyerConfigs.lookup base = none := hb
    simp [this]
  | some cfg =>
    have hl : niemeyerConfigs.lookup base = some cfg := hb
    have hk : 0 < cfg.bits.length := (cfgOf_wf hb).1.2.2.2.2.2.1
    simp only [hl, hb, Option.isSome_some, Bool.not_true, Bool.false_eq_true, if_false]
    refine encodeCfg_generic cfg p.1 p.2 length _ ?_ ?_ hk
    · intro fuel gh latIv lonIv ch bit lc pos h
      -- (the loop test, in the spellings `simp` may leave it in)
      have h1 : ¬ ((pos : Int) < length) := by omega
      have h2 : ¬ ((pos : Int) ≤ length - 1) := by omega
      have h3 : ¬ ((pos : Int) + 1 ≤ length) := by omega
      cases fuel <;> simp [Src.Geohash.coordToNiemeyer.loop1, h, h1, h2, h3]
    · intro fuel gh latIv lonIv ch bit lc pos hpos hbit
      rw [Src.Geohash.coordToNiemeyer.loop1]
      have hb : cfg.bits[bit]? = some cfg.bits[bit] := List.getElem?_eq_getElem hbit
      have hp2 : (pos : Int) ≤ length - 1 := by omega
      have hp3 : (pos : Int) + 1 ≤ length := by omega
      have hp4 : ¬ (length ≤ (pos : Int)) := by omega
      have hlt : ((bit : Int) < ((cfg.bits.length : Nat) : Int) - 1) ↔ bit + 1 < cfg.bits.length := by omega
      have hlt2 : ((bit : Int) ≤ ((cfg.bits.length : Nat) : Int) - 2) ↔ bit + 1 < cfg.bits.length := by omega
      have hlt3 : ((bit : Int) = ((cfg.bits.length : Nat) : Int) - 1) ↔ ¬ (bit + 1 < cfg.bits.length) := by omega
      have hlt4 : (((cfg.bits.length : Nat) : Int) - 1 ≤ (bit : Int)) ↔ ¬ (bit + 1 < cfg.bits.length) := by omega
      cases lc
      · by_cases hc : p.2 > (latIv.1 + latIv.2) / 2
        · by_cases hn : bit + 1 < cfg.bits.length
          · simp [encBit, mid, hpos, hp2, hp3, hp4, hb, hlt, hlt2, hlt3, hlt4, hc, hn]
          · cases hx : cfg.charset[ch ||| cfg.bits[bit]]? <;> simp [encBit, mid, hpos, hp2, hp3, hp4, hb, hlt, hlt2, hlt3, hlt4, hc, hn, hx]
        · by_cases hn : bit + 1 < cfg.bits.length
          · simp [encBit, mid, hpos, hp2, hp3, hp4, hb, hlt, hlt2, hlt3, hlt4, hc, hn]
          · cases hx : cfg.charset[ch]? <;> simp [encBit, mid, hpos, hp2, hp3, hp4, hb, hlt, hlt2, hlt3, hlt4, hc, hn, hx]
      · by_cases hc : p.1 > (lonIv.1 + lonIv.2) / 2
        · by_cases hn : bit + 1 < cfg.bits.length
          · simp [encBit, mid, hpos, hp2, hp3, hp4, hb, hlt, hlt2, hlt3, hlt4, hc, hn]
          · cases hx : cfg.charset[ch ||| cfg.bits[bit]]? <;> simp [encBit, mid, hpos, hp2, hp3, hp4, hb, hlt, hlt2, hlt3, hlt4, hc, hn, hx]
        · by_cases hn : bit + 1 < cfg.bits.length
          · simp [encBit, mid, hpos, hp2, hp3, hp4, hb, hlt, hlt2, hlt3, hlt4, hc, hn]
          · cases hx : cfg.charset[ch]? <;> simp [encBit, mid, hpos, hp2, hp3, hp4, hb, hlt, hlt2, hlt3, hlt4, hc, hn, hx]

/-! ## `_get_niemeyer_subhashes`, `niemeyer_to_geobox`, `NiemeyerHasher._get_surrounding` -/

/-- **the translated `_get_niemeyer_subhashes` is the model's `subhashes`** -/
theorem subhashes_eq (gh : List Char) (base : Nat) :
    Src.Geohash.subhashes gh base = subhashes base gh := by
  unfold Src.Geohash.subhashes subhashes
  cases hb : cfgOf base with
  | none =>
    have : niemeyerConfigs.lookup base = none := hb
    simp [this]
  | some cfg =>
    have hl : niemeyerConfigs.lookup base = some cfg := hb
    simp [hl]

/-- **the translated `niemeyer_to_geobox` is the model's `cellBox`** (both corners through the normalising constructor) -/
theorem niemeyerToGeobox_eq (gh : List Char) (base : Nat) :
    Src.Geohash.niemeyerToGeobox gh base = cellBox base gh := by
  unfold Src.Geohash.niemeyerToGeobox cellBox
  rw [decodeNiemeyer_eq]
  cases decode base gh with
  | error e => rfl
  | ok d => obtain ⟨lon, lat, lonErr, latErr⟩ := d; first | rfl | simp

/-- **the translated `_get_surrounding` is the model's `surrounding`**: the eight re-encoded offset centres, in the
    source's order -/
theorem getSurrounding_eq (gh : List Char) (base : Nat) :
    Src.Geohash.getSurrounding gh base = surrounding base gh := by
  unfold Src.Geohash.getSurrounding surrounding
  rw [decodeNiemeyer_eq]
  cases decode base gh with
  | error e => rfl
  | ok d =>
    obtain ⟨lon, lat, lonErr, latErr⟩ := d
    simp only [coordToNiemeyer_eq, offsets, mapExcept, encodeCoord, Int.toNat_natCast]
    norm_num
    simp only [← sub_eq_add_neg]
    repeat (first | rfl | (split <;> simp only [*]))

/-! ## the config-generic statements and the three concrete bases -/

/-- the codec loops, for **every** well-formed config (`WF`, the predicate the codec theorems of `Props/C11` rest on): whatever
    satisfies the equations of the source's decoder loop is `decodeCfg`, whatever satisfies those of the fuelled encoder
    loop is `encodeCfg` (`decodeNiemeyer_eq` and `coordToNiemeyer_eq` instantiate this with the generated loops and the
    config found under `base`) -/
theorem loops_eq_of_wf {cfg : NiemeyerCfg} (hw : WF cfg) :
    (∀ (G : List Char → Rat × Rat → Rat × Rat → Rat → Rat → Bool → Except String (Rat × Rat × Rat × Rat)),
      (∀ s : DecSt, G [] s.latIv s.lonIv s.lonErr s.latErr s.lonComp = .ok (mid s.lonIv, mid s.latIv, s.lonErr, s.latErr)) →
      (∀ c cs (s : DecSt), G (c :: cs) s.latIv s.lonIv s.lonErr s.latErr s.lonComp =
        match decChar cfg s c with
        | .ok s' => G cs s'.latIv s'.lonIv s'.lonErr s'.latErr s'.lonComp
        | .error e => .error e) →
      ∀ gh, G gh (cfg.minY, cfg.maxY) (cfg.minX, cfg.maxX) cfg.maxX cfg.maxY true = decodeCfg cfg gh) ∧
    (∀ (lon lat : Rat) (length : Int)
      (F : Nat → List Char → Rat × Rat → Rat × Rat → Nat → Nat → Bool → Nat → Except String (List Char)),
      EncDone length F → EncStep cfg lon lat length F →
      F (length.toNat * cfg.bits.length) [] (cfg.minY, cfg.maxY) (cfg.minX, cfg.maxX) 0 0 true 0 =
        encodeCfg cfg lon lat length.toNat) :=
  ⟨fun G h0 hs gh => decodeCfg_generic cfg G h0 hs gh,
   fun lon lat length F hd hs => encodeCfg_generic cfg lon lat length F hd hs hw.2.2.2.2.2.1⟩

/-- bases 16, 32 and 64: the translated functions are the model's codec over the generated tables -/
theorem bases_eq (p : Pt) (gh : List Char) (length : Int) :
    Src.Geohash.decodeNiemeyer gh 16 = decodeCfg niemeyer16 gh ∧
    Src.Geohash.decodeNiemeyer gh 32 = decodeCfg niemeyer32 gh ∧
    Src.Geohash.decodeNiemeyer gh 64 = decodeCfg niemeyer64 gh ∧
    Src.Geohash.coordToNiemeyer p length 16 = encodeCfg niemeyer16 p.1 p.2 length.toNat ∧
    Src.Geohash.coordToNiemeyer p length 32 = encodeCfg niemeyer32 p.1 p.2 length.toNat ∧
    Src.Geohash.coordToNiemeyer p length 64 = encodeCfg niemeyer64 p.1 p.2 length.toNat := by
  have h16 : cfgOf 16 = some niemeyer16 := rfl
  have h32 : cfgOf 32 = some niemeyer32 := rfl
  have h64 : cfgOf 64 = some niemeyer64 := rfl
  simp only [decodeNiemeyer_eq, coordToNiemeyer_eq, decode, encode, h16, h32, h64, and_self]

/-! ## the headline theorems of `Props/C11`, restated for the translated source -/

/-- **round trip** (`decode_encode_contains_coord`): the cell `_decode_niemeyer` gives for the hash `_coord_to_niemeyer`
    produces contains the coordinate — every stored coordinate, every length, every supported base -/
theorem src_decode_encode_contains {base : Nat} {cfg : NiemeyerCfg} (hb : cfgOf base = some cfg) {p : Pt}
    (hx : -180 ≤ p.1 ∧ p.1 ≤ 180) (hy : -90 ≤ p.2 ∧ p.2 ≤ 90) {n : Int} {h : List Char}
    (he : Src.Geohash.coordToNiemeyer p n base = .ok h) :
    ∃ d, Src.Geohash.decodeNiemeyer h base = .ok d ∧ Contains d p.1 p.2 := by
  simp only [coordToNiemeyer_eq, decodeNiemeyer_eq] at he ⊢
  exact decode_encode_contains_coord hb hx hy he

/-- **length and alphabet** of the produced hash (`encode_length`, `encode_alphabet`, `encode_total`) -/
theorem src_encode_shape {base : Nat} {cfg : NiemeyerCfg} (hb : cfgOf base = some cfg) (p : Pt) (n : Int) :
    ∃ h, Src.Geohash.coordToNiemeyer p n base = .ok h ∧ h.length = n.toNat ∧ ∀ c ∈ h, c ∈ cfg.charset := by
  simp only [coordToNiemeyer_eq]
  obtain ⟨h, he⟩ := encode_total hb p.1 p.2 n.toNat
  exact ⟨h, he, encode_length hb he, encode_alphabet hb he⟩

/-- **centre** (`encode_centre`): re-encoding the decoded centre at the hash's length returns the hash -/
theorem src_encode_centre {base : Nat} {cfg : NiemeyerCfg} (hb : cfgOf base = some cfg) {h : List Char}
    {d : Rat × Rat × Rat × Rat} (hd : Src.Geohash.decodeNiemeyer h base = .ok d) :
    Src.Geohash.coordToNiemeyer (d.1, d.2.1) (h.length : Int) base = .ok h := by
  simp only [coordToNiemeyer_eq, decodeNiemeyer_eq, Int.toNat_natCast] at hd ⊢
  exact encode_centre hb hd

/-- **rejection** (`decode_rejects`): a character outside the alphabet is a `ValueError` -/
theorem src_decode_rejects {base : Nat} {cfg : NiemeyerCfg} (hb : cfgOf base = some cfg) {h : List Char}
    (hex : ∃ c ∈ h, c ∉ cfg.charset) : Src.Geohash.decodeNiemeyer h base = .error "ERR:Value" := by
  rw [decodeNiemeyer_eq]; exact decode_rejects hb hex

/-- **tiling** (`subhashes_tile`): the sub-hashes the source returns are `base` cells inside the parent that cover it and do
    not overlap -/
theorem src_subhashes_tile {base : Nat} {cfg : NiemeyerCfg} (hb : cfgOf base = some cfg)
    {h : List Char} {d : Rat × Rat × Rat × Rat} (hd : Src.Geohash.decodeNiemeyer h base = .ok d) :
    ∃ ks, Src.Geohash.subhashes h base = .ok ks ∧ ks.length = base ∧ ks.Nodup ∧
      (∀ k ∈ ks, ∃ d', Src.Geohash.decodeNiemeyer k base = .ok d' ∧ ∀ lon lat, Contains d' lon lat → Contains d lon lat) ∧
      (∀ lon lat, Contains d lon lat → ∃ k ∈ ks, ∃ d', Src.Geohash.decodeNiemeyer k base = .ok d' ∧ Contains d' lon lat) ∧
      (∀ k1 ∈ ks, ∀ k2 ∈ ks, ∀ d1 d2 lon lat, Src.Geohash.decodeNiemeyer k1 base = .ok d1 →
          Src.Geohash.decodeNiemeyer k2 base = .ok d2 →
          StrictlyContains d1 lon lat → StrictlyContains d2 lon lat → k1 = k2) := by
  simp only [decodeNiemeyer_eq, subhashes_eq] at hd ⊢
  exact subhashes_tile hb hd

/-- **neighbours** (`surrounding_adjacent`): away from the range limits `_get_surrounding` returns the eight adjacent grid
    cells, clockwise from north -/
theorem src_surrounding_adjacent {base : Nat} {cfg : NiemeyerCfg} (hb : cfgOf base = some cfg) {h : List Char}
    {d : Rat × Rat × Rat × Rat} (hd : Src.Geohash.decodeNiemeyer h base = .ok d)
    (hx : -180 ≤ d.1 - 3 * d.2.2.1 ∧ d.1 + 3 * d.2.2.1 < 180)
    (hy : -90 ≤ d.2.1 - 3 * d.2.2.2 ∧ d.2.1 + 3 * d.2.2.2 ≤ 90) :
    ∃ ns, Src.Geohash.getSurrounding h base = .ok ns ∧
      List.Forall₂ (fun (o : Int × Int) n =>
        Src.Geohash.decodeNiemeyer n base = .ok (d.1 + o.1 * (d.2.2.1 * 2), d.2.1 + o.2 * (d.2.2.2 * 2), d.2.2.1, d.2.2.2))
        offsets ns := by
  simp only [decodeNiemeyer_eq, getSurrounding_eq] at hd ⊢
  exact surrounding_adjacent hb hd hx hy

/-- non-vacuity: the translated functions on a real cell -/
example : Src.Geohash.decodeNiemeyer ['9', 'q'] 32 = .ok (-118125 / 1000, 365625 / 10000, 5625 / 1000, 28125 / 10000) ∧
    Src.Geohash.coordToNiemeyer (-118125 / 1000, 365625 / 10000) 2 32 = .ok ['9', 'q'] ∧
    Src.Geohash.coordToNiemeyer (1, 2) (-3) 32 = .ok [] ∧
    Src.Geohash.coordToNiemeyer (1, 2) 3 10 = .error "ERR:Value" := by decide +kernel

end GV.C11Src
