import GeoVerif.Model.SpaceTime
import GeoVerif.Props.C06
/-!
# C05 — space-time predicates are the conjunction of the spatial and the temporal test

All theorems hold for every `World` (every assignment of time bounds to shapes and **every** spatial
relation) and every pair of shapes.

* `intersects_eq`, `contains_eq`      the gates are `temporal && spatial` when both shapes are
                                      time-bounded and `spatial` alone otherwise
* `intersects_iff`, `contains_iff`    the temporal conjunct is "the denoted sets of instants
                                      intersect" / "⊆" (C06's `den`: `[start, end)` or a single instant)
* `containsTime_*`, `intersectsTime_*` the delegations, incl. `self.dt is None → False`
* `ctorDt_instant`, `ctorDt_naive_utc`, `ctorDt_same_instant`, `setDt_eq_ctorDt`
                                      datetime ↦ zero-length interval at its instant; naive = UTC;
                                      constructor and `set_dt` agree
-/
namespace GV.ST
open GV.TI (den WF)

variable {σ κ : Type}

/-! ### the gates as conjunctions -/

/-- **intersects** = temporal intersection ∧ spatial intersection when both shapes are time-bounded,
    the spatial test alone when either has no time bounds -/
theorem intersects_eq (W : World σ κ) (a b : σ) :
    W.intersects a b =
      match W.dt a, W.dt b with
      | some da, some db => da.intersects db && W.intersectsShape a b
      | _, _ => W.intersectsShape a b := by
  unfold World.intersects
  generalize W.dt a = oa
  generalize W.dt b = ob
  cases oa with
  | none => cases ob <;> simp [truthy]
  | some da =>
    cases ob with
    | none => simp [truthy]
    | some db =>
      simp only [truthy, intersectsTime, Bool.and_self, if_true]
      by_cases h : da.intersects db = true <;> simp [h]

/-- **contains** = temporal inclusion ∧ spatial containment when both shapes are time-bounded,
    the spatial test alone otherwise -/
theorem contains_eq (W : World σ κ) (a b : σ) :
    W.contains a (.inr b) =
      match W.dt a, W.dt b with
      | some da, some db => da.containsTI db && W.containsShape a b
      | _, _ => W.containsShape a b := by
  simp only [World.contains]
  generalize W.dt a = oa
  generalize W.dt b = ob
  cases oa with
  | none => cases ob <;> simp [truthy]
  | some da =>
    cases ob with
    | none => simp [truthy]
    | some db =>
      simp only [truthy, containsTime, Bool.and_self, if_true]
      by_cases h : da.containsTI db = true <;> simp [h]

/-- the coordinate shortcut: no time test at all -/
theorem contains_coord (W : World σ κ) (a : σ) (c : κ) : W.contains a (.inl c) = W.containsCoord a c := rfl

/-- `other in shape` is `shape.contains(other)` -/
theorem dunderContains_eq (W : World σ κ) (a : σ) (x : κ ⊕ σ) : W.dunderContains a x = W.contains a x := rfl

theorem intersects_timeless (W : World σ κ) (a b : σ) (h : W.dt a = none ∨ W.dt b = none) :
    W.intersects a b = W.intersectsShape a b := by
  rw [intersects_eq]; rcases h with h | h <;> rw [h]
  cases W.dt a <;> rfl

theorem contains_timeless (W : World σ κ) (a b : σ) (h : W.dt a = none ∨ W.dt b = none) :
    W.contains a (.inr b) = W.containsShape a b := by
  rw [contains_eq]; rcases h with h | h <;> rw [h]
  cases W.dt a <;> rfl

/-! ### … and what the temporal conjunct means (C06 set semantics) -/

/-- **intersects**: the shapes intersect in space, and — if both are time-bounded — their time bounds
    share an instant -/
theorem intersects_iff (W : World σ κ) (hwf : ∀ s t, W.dt s = some t → WF t) (a b : σ) :
    W.intersects a b = true ↔
      W.intersectsShape a b = true ∧
      ∀ da db, W.dt a = some da → W.dt b = some db → (den da ∩ den db).Nonempty := by
  rw [intersects_eq]
  cases ha : W.dt a with
  | none => simp
  | some da =>
    cases hb : W.dt b with
    | none => simp
    | some db =>
      simp only [Bool.and_eq_true, Option.some.injEq]
      rw [TI.intersects_iff da db (hwf a da ha) (hwf b db hb)]
      constructor
      · rintro ⟨h1, h2⟩; exact ⟨h2, fun _ _ e1 e2 => by subst e1 e2; exact h1⟩
      · rintro ⟨h1, h2⟩; exact ⟨h2 _ _ rfl rfl, h1⟩

/-- **contains**: the receiver contains the shape in space, and — if both are time-bounded — every
    instant of the argument's time bounds is an instant of the receiver's -/
theorem contains_iff (W : World σ κ) (hwf : ∀ s t, W.dt s = some t → WF t) (a b : σ) :
    W.contains a (.inr b) = true ↔
      W.containsShape a b = true ∧
      ∀ da db, W.dt a = some da → W.dt b = some db → den db ⊆ den da := by
  rw [contains_eq]
  cases ha : W.dt a with
  | none => simp
  | some da =>
    cases hb : W.dt b with
    | none => simp
    | some db =>
      simp only [Bool.and_eq_true, Option.some.injEq]
      rw [TI.containsTI_iff da db (hwf a da ha) (hwf b db hb)]
      constructor
      · rintro ⟨h1, h2⟩; exact ⟨h2, fun _ _ e1 e2 => by subst e1 e2; exact h1⟩
      · rintro ⟨h1, h2⟩; exact ⟨h2 _ _ rfl rfl, h1⟩

/-- the time-aware intersection test is symmetric whenever the spatial one is -/
theorem intersects_symm (W : World σ κ) (hwf : ∀ s t, W.dt s = some t → WF t)
    (hs : ∀ x y, W.intersectsShape x y = W.intersectsShape y x) (a b : σ) :
    W.intersects a b = W.intersects b a := by
  rw [Bool.eq_iff_iff, intersects_iff W hwf, intersects_iff W hwf, hs a b]
  constructor
  · rintro ⟨h1, h2⟩; refine ⟨h1, fun db da hb ha => ?_⟩; rw [Set.inter_comm]; exact h2 da db ha hb
  · rintro ⟨h1, h2⟩; refine ⟨h1, fun da db ha hb => ?_⟩; rw [Set.inter_comm]; exact h2 db da hb ha

/-- containment implies intersection in space-time whenever it does in space -/
theorem contains_imp_intersects (W : World σ κ) (hwf : ∀ s t, W.dt s = some t → WF t)
    (hci : ∀ x y, W.containsShape x y = true → W.intersectsShape x y = true) (a b : σ)
    (h : W.contains a (.inr b) = true) : W.intersects a b = true := by
  rw [contains_iff W hwf] at h
  rw [intersects_iff W hwf]
  refine ⟨hci a b h.1, fun da db ha hb => ?_⟩
  have hsub := h.2 da db ha hb
  have hmem : ((db.start : ℚ)) ∈ den db := TI.start_mem_den (hwf b db hb)
  exact ⟨db.start, hsub hmem, hmem⟩

/-! ### `contains_time` / `intersects_time` -/

/-- a shape without time bounds contains / intersects no time -/
theorem time_none (x : TimeArg) : containsTime none x = false ∧ intersectsTime none x = false := ⟨rfl, rfl⟩

theorem containsTime_at (s : TI) (x : Int) : containsTime (some s) (.at x) = true ↔ (x : ℚ) ∈ den s :=
  TI.mem_iff s x

theorem containsTime_ti (s t : TI) (hs : WF s) (ht : WF t) :
    containsTime (some s) (.ti t) = true ↔ den t ⊆ den s :=
  TI.containsTI_iff s t hs ht

theorem intersectsTime_at (s : TI) (x : Int) : intersectsTime (some s) (.at x) = true ↔ (x : ℚ) ∈ den s :=
  TI.intersectsDt_iff s x

theorem intersectsTime_ti (s t : TI) (hs : WF s) (ht : WF t) :
    intersectsTime (some s) (.ti t) = true ↔ (den s ∩ den t).Nonempty :=
  TI.intersects_iff s t hs ht

/-! ### the `dt` a shape ends up with -/

/-- **a datetime becomes the zero-length interval at its instant** — exactly what passing that
    interval would have given; in particular the constructor never raises -/
theorem ctorDt_instant (d : PyDt) :
    ctorDt (.dt d) = .ok (some ⟨instant (defaultToZulu d), instant (defaultToZulu d)⟩) ∧
    ctorDt (.dt d) = ctorDt (.ti ⟨instant (defaultToZulu d), instant (defaultToZulu d)⟩) := by
  have : ctorDt (.dt d) = .ok (some ⟨instant (defaultToZulu d), instant (defaultToZulu d)⟩) := by
    simp [ctorDt, TI.mk?]
  exact ⟨this, this⟩

/-- **a naive datetime is read as UTC**: it gives the same `dt` as the aware datetime with the same
    digits and offset zero, namely the instant with those digits -/
theorem ctorDt_naive_utc (w : Int) :
    ctorDt (.dt ⟨w, none⟩) = ctorDt (.dt ⟨w, some 0⟩) ∧ ctorDt (.dt ⟨w, none⟩) = .ok (some ⟨w, w⟩) := by
  simp [ctorDt, TI.mk?, defaultToZulu, instant]

/-- aware datetimes denoting the same instant (whatever their offsets) give the same `dt` -/
theorem ctorDt_same_instant (w w' o o' : Int) (h : w - o = w' - o') :
    ctorDt (.dt ⟨w, some o⟩) = ctorDt (.dt ⟨w', some o'⟩) := by
  simp [ctorDt, TI.mk?, defaultToZulu, instant, h]

/-- `set_dt` and the constructor normalise in the same way -/
theorem setDt_eq_ctorDt (a : DtArg) : setDt a = ctorDt a := by
  cases a <;> rfl

/-- **indistinguishable**: constructing with a datetime, constructing with the zero-length interval at
    that instant, `set_dt(datetime)` and `set_dt(interval)` all leave the same `dt`; every time-aware
    observation of the model goes through `World.dt`, so no predicate can tell them apart -/
theorem dt_routes_agree (d : PyDt) :
    let t : TI := ⟨instant (defaultToZulu d), instant (defaultToZulu d)⟩
    ctorDt (.dt d) = ctorDt (.ti t) ∧ setDt (.dt d) = ctorDt (.ti t) ∧ setDt (.ti t) = ctorDt (.ti t) := by
  intro t
  exact ⟨(ctorDt_instant d).2, by rw [setDt_eq_ctorDt]; exact (ctorDt_instant d).2, setDt_eq_ctorDt _⟩

/-- neither route raises, and the stored interval is well formed (given that a passed interval is);
    the instant route denotes exactly one instant -/
theorem ctorDt_wf (a : DtArg) (ha : ∀ t, a = .ti t → WF t) :
    ∃ r, ctorDt a = .ok r ∧ ∀ t, r = some t → WF t := by
  cases a with
  | none => exact ⟨none, rfl, by simp⟩
  | ti t => exact ⟨some t, rfl, by intro t' e; cases e; exact ha t rfl⟩
  | dt d =>
    refine ⟨_, (ctorDt_instant d).1, ?_⟩
    intro t e; cases e; exact le_refl _

theorem ctorDt_den (d : PyDt) (t : TI) (h : ctorDt (.dt d) = .ok (some t)) :
    den t = {((instant (defaultToZulu d) : Int) : ℚ)} := by
  rw [(ctorDt_instant d).1] at h
  cases h
  exact TI.den_instant rfl

/-! ### non-vacuity -/

/-- two shapes that intersect in space: overlapping bounds → `true`; touching bounds (right-open) →
    `false`; an instant on the closed left end → `true`; one shape time-less → spatial answer;
    containment needs inclusion, not overlap -/
example :
    let W : Option TI → Option TI → World Bool Unit := fun da db =>
      { dt := fun s => if s then db else da, containsCoord := fun _ _ => true,
        containsShape := fun _ _ => true, intersectsShape := fun _ _ => true }
    (W (some ⟨0, 5⟩) (some ⟨3, 8⟩)).intersects false true = true ∧
    (W (some ⟨0, 5⟩) (some ⟨5, 8⟩)).intersects false true = false ∧
    (W (some ⟨0, 5⟩) (some ⟨0, 0⟩)).intersects false true = true ∧
    (W (some ⟨0, 5⟩) (some ⟨5, 5⟩)).intersects false true = false ∧
    (W none (some ⟨5, 8⟩)).intersects false true = true ∧
    (W (some ⟨0, 5⟩) (some ⟨3, 8⟩)).contains false (.inr true) = false ∧
    (W (some ⟨0, 5⟩) (some ⟨3, 5⟩)).contains false (.inr true) = true := by decide

/-- 01:00 at UTC+1 and a naive 00:00 are the same instant (unit: hours) -/
example : ctorDt (.dt ⟨1, some 1⟩) = ctorDt (.dt ⟨0, none⟩) ∧ ctorDt (.dt ⟨0, none⟩) = .ok (some ⟨0, 0⟩) := by
  decide

end GV.ST
