import GeoVerif.Model.SpaceTime
import GeoVerif.Props.C06
/-!
# C05 — space-time predicates are the conjunction of the spatial and the temporal test

All theorems hold for every `World` (every assignment of time bounds to shapes and **every** spatial
relation) and every pair of shapes.

* `intersects_eq`, `contains_eq`      the gates are `temporal && spatial` when both shapes are
                                      time-bounded and `spatial` alone otherwise
* `intersects_iff`, `contains_iff`    the temporal conjunct is "the denoted sets of instants
                                      intersect" / "⊆" (C06's `den`: `[start, end)` or a single instant)
* `containsTime_*`, `intersectsTime_*` the delegations, incl. `self.dt is None → False`
* `ctorDt_instant`, `ctorDt_naive_utc`, `ctorDt_same_instant`, `setDt_eq_ctorDt`
                                      datetime ↦ zero-length interval at its instant; naive = UTC;
                                      constructor and `set_dt` agree
-/
namespace GV.ST
open GV.TI (den WF)

variable {σ κ : Type}

/-! ### the gates as conjunctions -/

/-- **intersects** = temporal intersection ∧ spatial intersection when both shapes are time-bounded,
    the spatial test alone when either has no time bounds -/
theorem intersects_eq (W : World σ κ) (a b : σ) :
    W.intersects a b =
      match W.dt a, W.dt b with
      | some da, some db => da.intersects db && W.intersectsShape a b
      | _, _ => W.intersectsShape a b := by
  unfold World.intersects
  generalize W.dt a = oa
  generalize W.dt b = ob
  cases oa with
  | none => cases ob <;> simp [truthy]
  | some da =>
    cases ob with
    | none => simp [truthy]
    | some db =>
      simp only [truthy, intersectsTime, Bool.and_self, if_true]
      by_cases h : da.intersects db = true <;> simp [h]

/-- **contains** = temporal inclusion ∧ spatial containment when both shapes are time-bounded,
    the spatial test alone otherwise -/
theorem contains_eq (W : World σ κ) (a b : σ) :
    W.contains a (.inr b) =
      match W.dt a, W.dt b with
      | some da, some db => da.containsTI db && W.containsShape a b
      | _, _ => W.containsShape a b := by
  simp only [World.contains]
  generalize W.dt a = oa
  generalize W.dt b = ob
  cases oa with
  | none => cases ob <;> simp [truthy]
  | some da =>
    cases ob with
    | none => simp [truthy]
    | some db =>
      simp only [truthy, containsTime, Bool.and_self, if_true]
      by_cases h : da.containsTI db = true <;> simp [h]

/-- the coordinate shortcut: no time test at all -/
theorem contains_coord (W : World σ κ) (a : σ) (c : κ) : W.contains a (.inl c) = W.containsCoord a c := rfl

/-- `other in shape` is `shape.contains(other)` -/
theorem dunderContains_eq (W : World σ κ) (a : σ) (x : κ ⊕ σ) : W.dunderContains a x = W.contains a x := rfl

theorem intersects_timeless (W : World σ κ) (a b : σ) (h : W.dt a = none ∨ W.dt b = none) :
    W.intersects a b = W.intersectsShape a b := by
  rw [intersects_eq]; rcases h with h | h <;> rw [h]
  cases W.dt a <;> rfl

theorem contains_timeless (W : World σ κ) (a b : σ) (h : W.dt a = none ∨ W.dt b = none) :
    W.contains a (.inr b) = W.containsShape a b := by
  rw [contains_eq]; rcases h with h | h <;> rw [h]
  cases W.dt a <;> rfl

/-! ### … and what the temporal conjunct means (C06 set semantics) -/

/-- **intersects**: the shapes intersect in space, and — if both are time-bounded — their time bounds
    share an instant -/
theorem intersects_iff (W : World σ κ) (hwf : ∀ s t, W.dt s = some t → WF t) (a b : σ) :
    W.intersects a b = true ↔
      W.intersectsShape a b = true ∧
      ∀ da db, W.dt a = some da → W.dt b = some db → (den da ∩ den db).Nonempty := by
  rw [intersects_eq]
  cases ha : W.dt a with
  | none => simp
  | some da =>
    cases hb : W.dt b with
    | none => simp
    | some db =>
      simp only [Bool.and_eq_true, Option.some.injEq]
      rw [TI.intersects_iff da db (hwf a da ha) (hwf b db hb)]
      constructor
      · rintro ⟨h1, h2⟩; exact ⟨h2, fun _ _ e1 e2 => by subst e1 e2; exact h1⟩
      · rintro ⟨h1, h2⟩; exact ⟨h2 _ _ rfl rfl, h1⟩

/-- **contains**: the receiver contains the shape in space, and — if both are time-bounded — every
    instant of the argument's time bounds is an instant of the receiver's -/
theorem contains_iff (W : World σ κ) (hwf : ∀ s t, W.dt s = some t → WF t) (a b : σ) :
    W.contains a (.inr b) = true ↔
      W.containsShape a b = true ∧
      ∀ da db, W.dt a = some da → W.dt b = some db → den db ⊆ den da := by
  rw [contains_eq]
  cases ha : W.dt a with
  | none => simp
  | some da =>
    cases hb : W.dt b with
    | none => simp
    | some db =>
      simp only [Bool.and_eq_true, Option.some.injEq]
      rw [TI.containsTI_iff da db (hwf a da ha) (hwf b db hb)]
      constructor
      · rintro ⟨h1, h2⟩; exact ⟨h2, fun _ _ e1 e2 => by subst e1 e2; exact h1⟩
      · rintro ⟨h1, h2⟩; exact ⟨h2 _ _ rfl rfl, h1⟩

/-- the time-aware intersection test is symmetric whenever the spatial one is -/
theorem intersects_symm (W : World σ κ) (hwf : ∀ s t, W.dt s = some t → WF t)
    (hs : ∀ x y, W.intersectsShape x y = W.intersectsShape y x) (a b : σ) :
    W.intersects a b = W.intersects b a := by
  rw [Bool.eq_iff_iff, intersects_iff W hwf, intersects_iff W hwf, hs a b]
  constructor
  · rintro ⟨h1, h2⟩; refine ⟨h1, fun db da hb ha => ?_⟩; rw [Set.inter_comm]; exact h2 da db ha hb
  · rintro ⟨h1, h2⟩; refine ⟨h1, fun da db ha hb => ?_⟩; rw [Set.inter_comm]; exact h2 db da hb ha

/-- containment implies intersection in space-time whenever it does in space -/
theorem contains_imp_intersects (W : World σ κ) (hwf : ∀ s t, W.dt s = some t → WF t)
    (hci : ∀ x y, W.containsShape x y = true → W.intersectsShape x y = true) (a b : σ)
    (h : W.contains a (.inr b) = true) : W.intersects a b = true := by
  rw [contains_iff W hwf] at h
  rw [intersects_iff W hwf]
  refine ⟨hci a b h.1, fun da db ha hb => ?_⟩
  have hsub := h.2 da db ha hb
  have hmem : ((db.start : ℚ)) ∈ den db := TI.start_mem_den (hwf b db hb)
  exact ⟨db.start, hsub hmem, hmem⟩

/-! ### order-like laws of the space-time gates -/

/-- space-time containment is transitive whenever the spatial relation is, **provided the middle shape is
    time-bounded** (or one of the outer shapes is timeless): a timeless middle shape is "everywhen" for
    both questions and transmits nothing about time -/
theorem contains_trans (W : World σ κ) (hwf : ∀ s t, W.dt s = some t → WF t)
    (ht : ∀ x y z, W.containsShape x y = true → W.containsShape y z = true → W.containsShape x z = true)
    (a b c : σ) (hb : W.dt b ≠ none ∨ W.dt a = none ∨ W.dt c = none)
    (h1 : W.contains a (.inr b) = true) (h2 : W.contains b (.inr c) = true) :
    W.contains a (.inr c) = true := by
  rw [contains_iff W hwf] at h1 h2 ⊢
  refine ⟨ht a b c h1.1 h2.1, fun da dc ha hc => ?_⟩
  rcases hb with hb | hb | hb
  · cases hdb : W.dt b with
    | none => exact absurd hdb hb
    | some db => exact Set.Subset.trans (h2.2 db dc hdb hc) (h1.2 da db ha hdb)
  · rw [hb] at ha; cases ha
  · rw [hb] at hc; cases hc

/-- … and the proviso is needed: with a timeless middle shape both links hold and the conclusion fails -/
theorem contains_trans_needs_bounded_middle :
    ∃ (W : World (Fin 3) Unit), (∀ s t, W.dt s = some t → WF t) ∧
      (∀ x y z, W.containsShape x y = true → W.containsShape y z = true → W.containsShape x z = true) ∧
      W.contains 0 (.inr 1) = true ∧ W.contains 1 (.inr 2) = true ∧ W.contains 0 (.inr 2) = false := by
  refine ⟨{ dt := fun s => if s = 0 then some ⟨0, 1⟩ else if s = 1 then none else some ⟨5, 6⟩,
            containsCoord := fun _ _ => true, containsShape := fun _ _ => true,
            intersectsShape := fun _ _ => true }, ?_, fun _ _ _ _ _ => rfl, by decide, by decide, by decide⟩
  intro s t h
  simp only at h
  split at h
  · cases h; decide
  · split at h
    · cases h
    · cases h; decide

/-- a time-bounded shape contains itself in space-time whenever it does in space -/
theorem contains_self (W : World σ κ) (hwf : ∀ s t, W.dt s = some t → WF t) (a : σ)
    (h : W.containsShape a a = true) : W.contains a (.inr a) = true := by
  rw [contains_iff W hwf]
  refine ⟨h, fun da db ha hb => ?_⟩
  rw [ha] at hb; cases hb; exact Set.Subset.refl _

/-- an intersecting pair stays intersecting when either time bound is widened (`issubset`) -/
theorem intersects_mono (W W' : World σ κ) (hwf : ∀ s t, W.dt s = some t → WF t)
    (hwf' : ∀ s t, W'.dt s = some t → WF t) (a b : σ)
    (hs : W'.intersectsShape a b = W.intersectsShape a b)
    (ha : ∀ t', W'.dt a = some t' → ∃ t, W.dt a = some t ∧ t.issubset t' = true)
    (hb : ∀ t', W'.dt b = some t' → ∃ t, W.dt b = some t ∧ t.issubset t' = true)
    (h : W.intersects a b = true) : W'.intersects a b = true := by
  rw [intersects_iff W hwf] at h
  rw [intersects_iff W' hwf', hs]
  refine ⟨h.1, fun da' db' ea eb => ?_⟩
  obtain ⟨da, e1, s1⟩ := ha da' ea
  obtain ⟨db, e2, s2⟩ := hb db' eb
  obtain ⟨x, hx1, hx2⟩ := h.2 da db e1 e2
  exact ⟨x, (TI.issubset_iff da da' (hwf a da e1) (hwf' a da' ea)).mp s1 hx1,
    (TI.issubset_iff db db' (hwf b db e2) (hwf' b db' eb)).mp s2 hx2⟩

/-! ### `contains_time` / `intersects_time` -/

/-- a shape without time bounds contains / intersects no time -/
theorem time_none (x : TimeArg) : containsTime none x = false ∧ intersectsTime none x = false := ⟨rfl, rfl⟩

theorem containsTime_at (s : TI) (x : Int) : containsTime (some s) (.at x) = true ↔ (x : ℚ) ∈ den s :=
  TI.mem_iff s x

theorem containsTime_ti (s t : TI) (hs : WF s) (ht : WF t) :
    containsTime (some s) (.ti t) = true ↔ den t ⊆ den s :=
  TI.containsTI_iff s t hs ht

theorem intersectsTime_at (s : TI) (x : Int) : intersectsTime (some s) (.at x) = true ↔ (x : ℚ) ∈ den s :=
  TI.intersectsDt_iff s x

theorem intersectsTime_ti (s t : TI) (hs : WF s) (ht : WF t) :
    intersectsTime (some s) (.ti t) = true ↔ (den s ∩ den t).Nonempty :=
  TI.intersects_iff s t hs ht

/-! ### the `dt` a shape ends up with -/

/-- **a datetime becomes the zero-length interval at its instant** — exactly what passing that
    interval would have given; in particular the constructor never raises -/
theorem ctorDt_instant (d : PyDt) :
    ctorDt (.dt d) = .ok (some ⟨instant (defaultToZulu d), instant (defaultToZulu d)⟩) ∧
    ctorDt (.dt d) = ctorDt (.ti ⟨instant (defaultToZulu d), instant (defaultToZulu d)⟩) := by
  have : ctorDt (.dt d) = .ok (some ⟨instant (defaultToZulu d), instant (defaultToZulu d)⟩) := by
    simp [ctorDt, TI.mk?]
  exact ⟨this, this⟩

/-- **a naive datetime is read as UTC**: it gives the same `dt` as the aware datetime with the same
    digits and offset zero, namely the instant with those digits -/
theorem ctorDt_naive_utc (w : Int) :
    ctorDt (.dt ⟨w, none⟩) = ctorDt (.dt ⟨w, some 0⟩) ∧ ctorDt (.dt ⟨w, none⟩) = .ok (some ⟨w, w⟩) := by
  simp [ctorDt, TI.mk?, defaultToZulu, instant]

/-- aware datetimes denoting the same instant (whatever their offsets) give the same `dt` -/
theorem ctorDt_same_instant (w w' o o' : Int) (h : w - o = w' - o') :
    ctorDt (.dt ⟨w, some o⟩) = ctorDt (.dt ⟨w', some o'⟩) := by
  simp [ctorDt, TI.mk?, defaultToZulu, instant, h]

/-- `set_dt` and the constructor normalise in the same way -/
theorem setDt_eq_ctorDt (a : DtArg) : setDt a = ctorDt a := by
  cases a <;> rfl

/-- **indistinguishable**: constructing with a datetime, constructing with the zero-length interval at
    that instant, `set_dt(datetime)` and `set_dt(interval)` all leave the same `dt`; every time-aware
    observation of the model goes through `World.dt`, so no predicate can tell them apart -/
theorem dt_routes_agree (d : PyDt) :
    let t : TI := ⟨instant (defaultToZulu d), instant (defaultToZulu d)⟩
    ctorDt (.dt d) = ctorDt (.ti t) ∧ setDt (.dt d) = ctorDt (.ti t) ∧ setDt (.ti t) = ctorDt (.ti t) := by
  intro t
  exact ⟨(ctorDt_instant d).2, by rw [setDt_eq_ctorDt]; exact (ctorDt_instant d).2, setDt_eq_ctorDt _⟩

/-- neither route raises, and the stored interval is well formed (given that a passed interval is);
    the instant route denotes exactly one instant -/
theorem ctorDt_wf (a : DtArg) (ha : ∀ t, a = .ti t → WF t) :
    ∃ r, ctorDt a = .ok r ∧ ∀ t, r = some t → WF t := by
  cases a with
  | none => exact ⟨none, rfl, by simp⟩
  | ti t => exact ⟨some t, rfl, by intro t' e; cases e; exact ha t rfl⟩
  | dt d =>
    refine ⟨_, (ctorDt_instant d).1, ?_⟩
    intro t e; cases e; exact le_refl _

theorem ctorDt_den (d : PyDt) (t : TI) (h : ctorDt (.dt d) = .ok (some t)) :
    den t = {((instant (defaultToZulu d) : Int) : ℚ)} := by
  rw [(ctorDt_instant d).1] at h
  cases h
  exact TI.den_instant rfl

/-! ### observe – mutate – observe: the answers follow the current bounds

The model's only time state is the `dt` value, so after any history of `set_dt` / `buffer_dt` /
`strip_dt` calls (in place or on the returned copy) every predicate answers as for a freshly built
shape with the current bounds. -/

/-- `dt` argument that rebuilds given bounds from scratch -/
def argOf : Option TI → DtArg
  | none => .none
  | some t => .ti t

/-- **fresh-twin law**: a shape built from scratch with the bounds a history left behind has exactly the
    `dt` the mutated shape has — and all gates are functions of `dt` -/
theorem hist_fresh (dt : Option TI) (ms : List Mut) :
    ctorDt (argOf (applyMuts dt ms)) = .ok (applyMuts dt ms) := by
  cases applyMuts dt ms <;> rfl

/-- a shape without time bounds can not be buffered (`ValueError`) -/
theorem bufferDt_none (b : Int) : bufferDt none b = .error "ERR:Value" := rfl

/-- **buffer_dt** widens both ends (or narrows them, for a negative buffer that leaves `end ≥ start`)
    and the result is a well-formed interval -/
theorem bufferDt_ok (t : TI) (b : Int) (hb : t.start - b ≤ t.stop + b) :
    bufferDt (some t) b = .ok (some ⟨t.start - b, t.stop + b⟩) ∧ WF ⟨t.start - b, t.stop + b⟩ := by
  refine ⟨?_, hb⟩
  have : ¬ (t.stop + b < t.start - b) := by omega
  simp [bufferDt, truthy, TI.mk?, this]

/-- a negative buffer that would put the end before the start raises, nothing changes -/
theorem bufferDt_err (t : TI) (b : Int) (hb : t.stop + b < t.start - b) :
    bufferDt (some t) b = .error "ERR:Value" := by
  simp [bufferDt, truthy, TI.mk?, hb]

/-- a zero-width buffer (`timedelta(0)`, falsy in Python) is the identity -/
theorem bufferDt_zero (t : TI) (hw : WF t) : bufferDt (some t) 0 = .ok (some t) := by
  have h := (bufferDt_ok t 0 (by unfold WF at hw; omega)).1
  simpa using h

/-- **instant → interval**: buffering the instant `x` by `b > 0` gives the right-open interval
    `[x-b, x+b)` — a set with more than one instant, no longer the single point -/
theorem bufferDt_instant_den (x b : Int) (hb : 0 < b) :
    ∃ r, bufferDt (some ⟨x, x⟩) b = .ok (some r) ∧
      den r = Set.Ico (((x - b : Int) : ℚ)) (((x + b : Int) : ℚ)) := by
  refine ⟨⟨x - b, x + b⟩, (bufferDt_ok ⟨x, x⟩ b (by simp only; omega)).1, ?_⟩
  exact TI.den_proper (t := ⟨x - b, x + b⟩) (by simp only; omega)

/-- **interval → instant**: narrowing `[s, e)` by half its (even) length leaves the single instant -/
theorem bufferDt_to_instant (s h : Int) (_hh : 0 ≤ h) :
    ∃ r, bufferDt (some ⟨s, s + 2 * h⟩) (-h) = .ok (some r) ∧ den r = {(((s + h : Int)) : ℚ)} := by
  refine ⟨⟨s + h, s + h⟩, ?_, TI.den_instant rfl⟩
  have := (bufferDt_ok ⟨s, s + 2 * h⟩ (-h) (by simp only; omega)).1
  simp only at this
  rw [this]
  congr 3 <;> omega

/-- every mutator leaves a well-formed interval (or none) behind, whatever the history -/
theorem applyMuts_wf (dt : Option TI) (ms : List Mut) (h0 : ∀ t, dt = some t → WF t)
    (hargs : ∀ m ∈ ms, ∀ t, m = .setDt (.ti t) → WF t) :
    ∀ t, applyMuts dt ms = some t → WF t := by
  induction ms generalizing dt with
  | nil => exact h0
  | cons m ms ih =>
    have hrest : ∀ m' ∈ ms, ∀ t, m' = .setDt (.ti t) → WF t :=
      fun m' hm' => hargs m' (List.mem_cons_of_mem _ hm')
    unfold applyMuts
    cases hm : applyMut dt m with
    | error e => simp only; exact ih dt h0 hrest
    | ok d =>
      simp only
      refine ih d ?_ hrest
      intro t ht; subst ht
      cases m with
      | stripDt => simp [applyMut, stripDt] at hm
      | setDt a =>
        simp only [applyMut, setDt_eq_ctorDt] at hm
        obtain ⟨r, hr, hwf⟩ := ctorDt_wf a (fun t' e => hargs _ (List.mem_cons_self) t' (by rw [e]))
        rw [hr] at hm; cases hm; exact hwf t rfl
      | bufferDt b =>
        simp only [applyMut] at hm
        cases dt with
        | none => simp [bufferDt, truthy] at hm
        | some t0 =>
          by_cases hb : t0.stop + b < t0.start - b
          · rw [bufferDt_err t0 b hb] at hm; cases hm
          · have hb' : t0.start - b ≤ t0.stop + b := by omega
            rw [(bufferDt_ok t0 b hb').1] at hm; cases hm; exact hb'

/-! ### non-vacuity -/

/-- two shapes that intersect in space: overlapping bounds → `true`; touching bounds (right-open) →
    `false`; an instant on the closed left end → `true`; one shape time-less → spatial answer;
    containment needs inclusion, not overlap -/
example :
    let W : Option TI → Option TI → World Bool Unit := fun da db =>
      { dt := fun s => if s then db else da, containsCoord := fun _ _ => true,
        containsShape := fun _ _ => true, intersectsShape := fun _ _ => true }
    (W (some ⟨0, 5⟩) (some ⟨3, 8⟩)).intersects false true = true ∧
    (W (some ⟨0, 5⟩) (some ⟨5, 8⟩)).intersects false true = false ∧
    (W (some ⟨0, 5⟩) (some ⟨0, 0⟩)).intersects false true = true ∧
    (W (some ⟨0, 5⟩) (some ⟨5, 5⟩)).intersects false true = false ∧
    (W none (some ⟨5, 8⟩)).intersects false true = true ∧
    (W (some ⟨0, 5⟩) (some ⟨3, 8⟩)).contains false (.inr true) = false ∧
    (W (some ⟨0, 5⟩) (some ⟨3, 5⟩)).contains false (.inr true) = true := by decide

/-- 01:00 at UTC+1 and a naive 00:00 are the same instant (unit: hours) -/
example : ctorDt (.dt ⟨1, some 1⟩) = ctorDt (.dt ⟨0, none⟩) ∧ ctorDt (.dt ⟨0, none⟩) = .ok (some ⟨0, 0⟩) := by
  decide

/-- the history of the seeded defect's demo: an instant, widened by one hour on each side, then asked
    about a time half an hour later: contained -/
example :
    applyMuts (some ⟨12, 12⟩) [.bufferDt 1] = some ⟨11, 13⟩ ∧
    containsTime (applyMuts (some ⟨12, 12⟩) [.bufferDt 1]) (.at 12) = true ∧
    containsTime (some ⟨12, 12⟩) (.ti ⟨12, 13⟩) = false ∧
    containsTime (applyMuts (some ⟨12, 12⟩) [.bufferDt 1]) (.ti ⟨12, 13⟩) = true ∧
    applyMuts (some ⟨10, 14⟩) [.bufferDt (-2), .bufferDt (-1), .stripDt, .bufferDt 5] = none := by decide

end GV.ST
