import GeoVerif.Lemmas.Flood
import GeoVerif.Props.C11
/-!
# C12 — hashing a shape returns exactly the cells it touches

Model: `GeoVerif/Model/Flood.lean` — the work-list loop of `NiemeyerHasher._hash_polygon` /
`_hash_linestring` over an abstract cell type, with the element popped from the `set` chosen by an
arbitrary *schedule* `pick`.  Specification: `Reach nbrs touches start`, the closure of the start
cell under "a neighbour that touches the shape" — it does not mention queues, orders or fuel.

Proved for **all** neighbour functions, `touches` predicates, schedules and start cells:
the result is order-independent and equals `Reach` (`flood_eq_reach`), is sound
(`flood_sound`), complete whenever the touched cells are neighbour-connected to the start
(`flood_complete_of_connected`), and the loop terminates on every finite grid (`flood_terminates`,
instantiated for the geohash grid of a given length in `flood_terminates_geohash`).

NOT proved (geometry, assumed and *tested* by the exact-rational oracle of `harness/c12.py`):
the set of grid cells touched by a connected shape is connected under the 8-neighbourhood and
contains the cell of the first vertex; `touches` itself is `GeoBox.intersects_shape` (C02).
-/
namespace GV.Flood
variable {C : Type} [DecidableEq C]

/-- a legal schedule only ever pops an element of the queue (`set.pop()` returns a member) -/
def PickSound (pick : List C → Option C) : Prop := ∀ q gh, pick q = some gh → gh ∈ q

/-- … and pops something whenever the queue is non-empty -/
def PickTotal (pick : List C → Option C) : Prop := ∀ q, q ≠ [] → ∃ gh, pick q = some gh ∧ gh ∈ q

/-! ## partial correctness for every schedule -/

/-- **order independence / exactness**: whatever element `queue.pop()` returns at each step, a
    completed run returns exactly the cells reachable from `start` through touching neighbours -/
theorem flood_eq_reach {nbrs : C → List C} {touches : C → Bool} (start : C)
    (pick : List C → Option C) (hpick : PickSound pick) (fuel : Nat) (v : List C)
    (h : flood nbrs touches pick fuel start = some v) :
    ∀ c, c ∈ v ↔ Reach nbrs touches start c :=
  flood_correct start pick hpick fuel v h

/-- two schedules cannot disagree -/
theorem flood_schedule_independent {nbrs : C → List C} {touches : C → Bool} (start : C)
    (pick₁ pick₂ : List C → Option C) (h₁ : PickSound pick₁) (h₂ : PickSound pick₂) (f₁ f₂ : Nat)
    (v₁ v₂ : List C) (e₁ : flood nbrs touches pick₁ f₁ start = some v₁)
    (e₂ : flood nbrs touches pick₂ f₂ start = some v₂) : ∀ c, c ∈ v₁ ↔ c ∈ v₂ := fun c =>
  (flood_eq_reach start pick₁ h₁ f₁ v₁ e₁ c).trans (flood_eq_reach start pick₂ h₂ f₂ v₂ e₂ c).symm

omit [DecidableEq C] in
theorem reach_touches {nbrs : C → List C} {touches : C → Bool} {start c : C}
    (h : Reach nbrs touches start c) : c = start ∨ touches c = true := by
  cases h with
  | base => exact Or.inl rfl
  | step _ _ ht => exact Or.inr ht

/-- **soundness**: every returned cell other than the start cell touches the shape (the start cell,
    the cell of the first vertex, is added untested — it touches by geometry, not by the loop) -/
theorem flood_sound {nbrs : C → List C} {touches : C → Bool} (start : C)
    (pick : List C → Option C) (hpick : PickSound pick) (fuel : Nat) (v : List C)
    (h : flood nbrs touches pick fuel start = some v) :
    ∀ c ∈ v, c = start ∨ touches c = true := fun c hc =>
  reach_touches ((flood_eq_reach start pick hpick fuel v h c).mp hc)

/-- the start cell is always returned -/
theorem flood_has_start {nbrs : C → List C} {touches : C → Bool} (start : C)
    (pick : List C → Option C) (hpick : PickSound pick) (fuel : Nat) (v : List C)
    (h : flood nbrs touches pick fuel start = some v) : start ∈ v :=
  (flood_eq_reach start pick hpick fuel v h start).mpr Reach.base

/-- **closure**: a touching neighbour of a returned cell is returned — no cell the loop could still
    have expanded is left out -/
theorem flood_closed {nbrs : C → List C} {touches : C → Bool} (start : C)
    (pick : List C → Option C) (hpick : PickSound pick) (fuel : Nat) (v : List C)
    (h : flood nbrs touches pick fuel start = some v) :
    ∀ c ∈ v, ∀ n ∈ nbrs c, touches n = true → n ∈ v := by
  intro c hc n hn ht
  rw [flood_eq_reach start pick hpick fuel v h] at hc ⊢
  exact Reach.step hc hn ht

/-- a neighbour path `start = c₀, c₁, …, cₙ` whose cells `c₁ … cₙ` all touch the shape -/
def TouchPath (nbrs : C → List C) (touches : C → Bool) : C → List C → Prop
  | _, [] => True
  | c, n :: rest => n ∈ nbrs c ∧ touches n = true ∧ TouchPath nbrs touches n rest

omit [DecidableEq C] in
theorem reach_of_path {nbrs : C → List C} {touches : C → Bool} {start : C} :
    ∀ (path : List C) (c : C), Reach nbrs touches start c → TouchPath nbrs touches c path →
      ∀ x ∈ path, Reach nbrs touches start x
  | [], _, _, _, x, hx => by simp at hx
  | n :: rest, c, hc, hp, x, hx => by
    obtain ⟨h1, h2, h3⟩ := hp
    have hn : Reach nbrs touches start n := Reach.step hc h1 h2
    rcases List.mem_cons.mp hx with rfl | hx
    · exact hn
    · exact reach_of_path rest n hn h3 x hx

/-- **completeness**: if the touched cells are neighbour-connected to the start cell — every cell of
    `T` is the end of a neighbour path from `start` through touching cells — all of `T` is returned -/
theorem flood_complete_of_connected {nbrs : C → List C} {touches : C → Bool} (start : C)
    (pick : List C → Option C) (hpick : PickSound pick) (fuel : Nat) (v : List C)
    (h : flood nbrs touches pick fuel start = some v) (T : List C)
    (hconn : ∀ c ∈ T, c = start ∨ ∃ path, TouchPath nbrs touches start path ∧ c ∈ path) :
    ∀ c ∈ T, c ∈ v := by
  intro c hc
  rw [flood_eq_reach start pick hpick fuel v h c]
  rcases hconn c hc with rfl | ⟨path, hp, hmem⟩
  · exact Reach.base
  · exact reach_of_path path start Reach.base hp c hmem

/-- conversely every returned cell *is* connected to the start by such a path: the result is the
    connected component, no more -/
theorem flood_only_connected {nbrs : C → List C} {touches : C → Bool} (start : C)
    (pick : List C → Option C) (hpick : PickSound pick) (fuel : Nat) (v : List C)
    (h : flood nbrs touches pick fuel start = some v) :
    ∀ c ∈ v, c = start ∨ ∃ path, TouchPath nbrs touches start path ∧ c ∈ path := by
  intro c hc
  have hr := (flood_eq_reach start pick hpick fuel v h c).mp hc
  -- build the path by appending at its end
  have ext : ∀ (n c : C), n ∈ nbrs c → touches n = true → ∀ (p : List C) (a : C),
      TouchPath nbrs touches a p → (a :: p).getLast? = some c → TouchPath nbrs touches a (p ++ [n]) := by
    intro n c hn ht p
    induction p with
    | nil =>
      intro a _ hl
      simp at hl; subst hl
      exact ⟨hn, ht, trivial⟩
    | cons x xs ihp =>
      intro a hp hl
      obtain ⟨h1, h2, h3⟩ := hp
      rw [List.getLast?_cons_cons] at hl
      exact ⟨h1, h2, ihp x h3 hl⟩
  have key : ∀ c, Reach nbrs touches start c →
      ∃ path, TouchPath nbrs touches start path ∧ (start :: path).getLast? = some c := by
    intro c hr
    induction hr with
    | base => exact ⟨[], trivial, by simp⟩
    | @step c n _ hn ht ih =>
      obtain ⟨path, hp, hl⟩ := ih
      refine ⟨path ++ [n], ext n c hn ht path start hp hl, ?_⟩
      rw [← List.cons_append, List.getLast?_append]
      simp
  obtain ⟨path, hp, hl⟩ := key c hr
  rcases List.mem_cons.mp (List.mem_of_getLast? hl) with h | h
  · exact Or.inl h
  · exact Or.inr ⟨path, hp, h⟩

/-! ## termination -/

/-- **termination / fuel sufficiency**: on a finite set of cells `U` that contains the start cell and
    is closed under `nbrs`, the loop finishes within `|U| + 1` pops under every total schedule -/
theorem flood_terminates {nbrs : C → List C} {touches : C → Bool} (U : List C)
    (hU : ∀ c ∈ U, ∀ n ∈ nbrs c, n ∈ U) (start : C) (hs : start ∈ U)
    (pick : List C → Option C) (hpick : PickTotal pick) (fuel : Nat) (hf : U.length + 1 ≤ fuel) :
    ∃ v, flood nbrs touches pick fuel start = some v := by
  unfold flood
  refine floodGo_terminates U hU pick hpick fuel _ ?_ ?_
  · intro c hc; simp at hc; subst hc; exact hs
  · simp only [measure, unchecked, List.length_cons, List.length_nil]
    have : (U.filter fun c => decide (c ∉ ([] : List C))).length ≤ U.length := List.length_filter_le _ _
    omega

/-- **total correctness**: with enough fuel the model returns exactly the reachable set -/
theorem flood_total {nbrs : C → List C} {touches : C → Bool} (U : List C)
    (hU : ∀ c ∈ U, ∀ n ∈ nbrs c, n ∈ U) (start : C) (hs : start ∈ U)
    (pick : List C → Option C) (hp1 : PickSound pick) (hp2 : PickTotal pick) :
    ∃ v, flood nbrs touches pick (U.length + 1) start = some v ∧
      ∀ c, c ∈ v ↔ Reach nbrs touches start c := by
  obtain ⟨v, hv⟩ := flood_terminates (touches := touches) U hU start hs pick hp2 (U.length + 1) (le_refl _)
  exact ⟨v, hv, flood_eq_reach start pick hp1 _ v hv⟩

/-! ## multi-shapes and collections -/

/-- **multi-shape = union of the members' cells** (set comprehension of lines 593-598/632-637/654-659) -/
theorem multi_is_union (hs : List (List C)) :
    (unionAll hs).Nodup ∧ ∀ c, c ∈ unionAll hs ↔ ∃ h ∈ hs, c ∈ h := by
  refine ⟨nodup_unionAll_aux hs [] List.nodup_nil, fun c => ?_⟩
  unfold unionAll
  rw [mem_unionAll_aux]
  simp

theorem allSome_eq_some {α} : ∀ {l : List (Option α)} {r : List α}, allSome l = some r →
    l = r.map some
  | [], r, h => by simp [allSome] at h; subst h; rfl
  | none :: _, _, h => by simp [allSome] at h
  | some a :: rest, r, h => by
    simp only [allSome, Option.map_eq_some_iff] at h
    obtain ⟨r', h1, rfl⟩ := h
    simp [allSome_eq_some h1]

/-- `hash_shape` of a multi-polygon / multi-linestring: a cell is returned iff it is reachable for
    some member — for every schedule -/
theorem hashShape_multi {nbrs : C → List C} (pick : List C → Option C) (hpick : PickSound pick)
    (fuel : Nat) (ms : List (C × (C → Bool))) (v : List C)
    (h : hashShape nbrs pick fuel (.multi ms) = some v) :
    ∀ c, c ∈ v ↔ ∃ m ∈ ms, Reach nbrs m.2 m.1 c := by
  simp only [hashShape, Option.map_eq_some_iff] at h
  obtain ⟨vs, h1, rfl⟩ := h
  have h2 := allSome_eq_some h1
  intro c
  rw [(multi_is_union vs).2 c]
  have hlen : vs.length = ms.length := by
    have := congrArg List.length h2; simpa using this.symm
  constructor
  · rintro ⟨hv, hmem, hc⟩
    obtain ⟨i, hi, rfl⟩ := List.getElem_of_mem hmem
    have hi' : i < ms.length := hlen ▸ hi
    have e : flood nbrs (ms[i]).2 pick fuel (ms[i]).1 = some vs[i] := by
      have := congrArg (fun l => l[i]?) h2
      simpa [hi, hi'] using this
    exact ⟨ms[i], List.getElem_mem hi', (flood_eq_reach _ pick hpick fuel _ e c).mp hc⟩
  · rintro ⟨m, hm, hr⟩
    obtain ⟨i, hi, rfl⟩ := List.getElem_of_mem hm
    have hi' : i < vs.length := hlen ▸ hi
    have e : flood nbrs (ms[i]).2 pick fuel (ms[i]).1 = some vs[i] := by
      have := congrArg (fun l => l[i]?) h2
      simpa [hi, hi'] using this
    exact ⟨vs[i], List.getElem_mem hi', (flood_eq_reach _ pick hpick fuel _ e c).mpr hr⟩

/-- **collections**: `hash_collection` maps each cell to `agg` of exactly those shapes whose own
    hash set contains it, *in collection order*; its keys are exactly the cells of some shape, each
    once.  (`hash s` is a Python `set`, hence duplicate-free.) -/
theorem hashCollection_spec {S A : Type} (hash : S → List C) (hnd : ∀ s, (hash s).Nodup)
    (agg : List S → A) (shapes : List S) :
    ((hashCollection hash agg shapes).map (·.1)).Nodup ∧
    (∀ c, c ∈ (hashCollection hash agg shapes).map (·.1) ↔ ∃ s ∈ shapes, c ∈ hash s) ∧
    (∀ c a, (c, a) ∈ hashCollection hash agg shapes →
        a = agg (shapes.filter fun s => decide (c ∈ hash s))) := by
  obtain ⟨g1, g2, g3⟩ := groupBy_spec_aux hash hnd shapes [] (by simp [keys])
  have hk : (hashCollection hash agg shapes).map (·.1) = keys (groupBy hash shapes) := by
    simp [hashCollection, keys, List.map_map, Function.comp_def]
  refine ⟨hk ▸ g3, fun c => ?_, fun c a hca => ?_⟩
  · rw [hk]
    have := g2 c
    simpa [keys, groupBy] using this
  · simp only [hashCollection, List.mem_map] at hca
    obtain ⟨⟨k, l⟩, hmem, heq⟩ := hca
    injection heq with e1 e2
    subst e1; subst e2
    have := dictGet_of_mem g3 hmem
    rw [g1 k] at this
    simp only [dictGet, List.nil_append] at this
    rw [this]

/-- the default aggregator: each cell maps to the number of shapes whose hash set contains it -/
theorem hashCollection_len {S : Type} (hash : S → List C) (hnd : ∀ s, (hash s).Nodup) (shapes : List S)
    (c : C) (n : Nat) (h : (c, n) ∈ hashCollection hash List.length shapes) :
    n = (shapes.filter fun s => decide (c ∈ hash s)).length :=
  (hashCollection_spec hash hnd List.length shapes).2.2 c n h

/-! ## non-vacuity: a 1-dimensional strip of 5 cells, touching cells 1..3, start 2 -/

def lineNbrs (c : Nat) : List Nat := [c + 1, c - 1]
def lineTouch (c : Nat) : Bool := decide (1 ≤ c ∧ c ≤ 3)

example : flood lineNbrs lineTouch (fun q => q.head?) 10 2 = some [1, 3, 2] := by decide
example : flood lineNbrs lineTouch (fun q => q.getLast?) 10 2 = some [1, 3, 2] := by decide
example : PickSound (fun q : List Nat => q.head?) := fun _ _ h => List.mem_of_mem_head? h
example : hashCollection (fun s : Nat => [s, s + 1]) List.length [1, 2, 2] = [(1, 1), (2, 3), (3, 2)] := by decide

end GV.Flood

/-! ## the geohash grid of one length is finite and closed under `_get_surrounding` -/
namespace GV.Geohash
open GV.Geohash.Gen GV.Flood

/-- all strings of length `n` over an alphabet -/
def allStrings (alphabet : List Char) : Nat → List (List Char)
  | 0 => [[]]
  | n+1 => (allStrings alphabet n).flatMap fun s => alphabet.map fun c => c :: s

theorem mem_allStrings (alphabet : List Char) : ∀ (s : List Char),
    (∀ c ∈ s, c ∈ alphabet) → s ∈ allStrings alphabet s.length
  | [], _ => by simp [allStrings]
  | c :: cs, h => by
    simp only [List.length_cons, allStrings, List.mem_flatMap, List.mem_map]
    exact ⟨cs, mem_allStrings alphabet cs (fun x hx => h x (by simp [hx])), c, h c (by simp), rfl⟩

theorem allStrings_spec (alphabet : List Char) : ∀ (n : Nat) (s : List Char), s ∈ allStrings alphabet n →
    s.length = n ∧ ∀ c ∈ s, c ∈ alphabet
  | 0, s, h => by simp [allStrings] at h; subst h; simp
  | n+1, s, h => by
    simp only [allStrings, List.mem_flatMap, List.mem_map] at h
    obtain ⟨t, ht, c, hc, rfl⟩ := h
    obtain ⟨h1, h2⟩ := allStrings_spec alphabet n t ht
    refine ⟨by simp [h1], ?_⟩
    intro x hx
    rcases List.mem_cons.mp hx with rfl | hx
    · exact hc
    · exact h2 x hx

/-- `_get_surrounding` as a total neighbour function (an exception yields no neighbours; by
    `surrounding_length` there is none on well-formed hashes) -/
def nbrsOf (base : Nat) (h : List Char) : List (List Char) :=
  match surrounding base h with
  | .ok ns => ns
  | .error _ => []

/-- **termination of the real loop**: for a supported base and any start cell of length `L`, the flood
    over the model of `_get_surrounding` terminates within `base^L + 1` pops for every `touches`
    predicate and every total schedule, and returns exactly the reachable set -/
theorem flood_terminates_geohash {base : Nat} {cfg : NiemeyerCfg} (hb : cfgOf base = some cfg)
    (touches : List Char → Bool) (start : List Char) (hstart : ∀ c ∈ start, c ∈ cfg.charset)
    (pick : List (List Char) → Option (List Char)) (hp1 : PickSound pick) (hp2 : PickTotal pick) :
    ∃ v, flood (nbrsOf base) touches pick ((allStrings cfg.charset start.length).length + 1) start = some v ∧
      ∀ c, c ∈ v ↔ Reach (nbrsOf base) touches start c := by
  refine flood_total (allStrings cfg.charset start.length) ?_ start (mem_allStrings _ _ hstart) pick hp1 hp2
  intro c hc n hn
  obtain ⟨hl, ha⟩ := allStrings_spec _ _ _ hc
  obtain ⟨d, hd⟩ := decode_total hb ha
  obtain ⟨ns, h1, _, h3⟩ := surrounding_length hb hd
  simp only [nbrsOf, h1] at hn
  obtain ⟨e1, e2⟩ := h3 n hn
  have := mem_allStrings cfg.charset n e2
  rw [e1, hl] at this
  exact this

end GV.Geohash
