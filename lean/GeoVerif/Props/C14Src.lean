import GeoVerif.Gen.SrcGeoJson
import GeoVerif.Props.C14
/-!
# Source tie for the GeoJSON exporters, the ring orientation and the time fields (C14)
-/
namespace GV.C14Src
open GV GV.GeoJson GV.Src.GeoJson

/-! ## ring orientation -/

/-- the translated `ensure_edge_bounds`, seen through (longitude, latitude), is the model's `ensureEdge` -/
theorem ensureEdgeBounds_eq (a b : Pos) :
    ((ensureEdgeBounds a b).1.pt, (ensureEdgeBounds a b).2.pt) = ensureEdge a.pt b.pt := by
  unfold ensureEdgeBounds ensureEdge
  by_cases h : absR (a.lon - b.lon) > 180 <;> by_cases h2 : a.lon < 0 <;> simp [Pos.pt, h, h2]

/-- one term of the source's sum is one term of the model's shoelace sum -/
theorem term_eq (e : Pos × Pos) :
    ((ensureEdgeBounds e.1 e.2).2.lon - (ensureEdgeBounds e.1 e.2).1.lon) *
        ((ensureEdgeBounds e.1 e.2).2.lat + (ensureEdgeBounds e.1 e.2).1.lat) =
      ((ensureEdge e.1.pt e.2.pt).2.1 - (ensureEdge e.1.pt e.2.pt).1.1) *
        ((ensureEdge e.1.pt e.2.pt).2.2 + (ensureEdge e.1.pt e.2.pt).1.2) := by
  rw [← ensureEdgeBounds_eq]; rfl

/-- **`is_counter_clockwise`** of the source is the model's `isCCW` of the (longitude, latitude) ring; on the empty list
    `bounds[0]` raises `IndexError` -/
theorem isCounterClockwise_eq (ring : List Pos) :
    isCounterClockwise ring =
      match ring with
      | [] => .error "ERR:Index"
      | _ :: _ => .ok (isCCW (ring.map Pos.pt)) := by
  cases ring with
  | nil => rfl
  | cons v vs =>
    simp only [isCounterClockwise, Py.getIdx, isCCW, shoelace, List.map_cons, cyclicPairs, List.drop_succ_cons, List.drop_zero]
    have hz : (v.pt :: vs.map Pos.pt).zip (vs.map Pos.pt ++ [v.pt]) =
        ((v :: vs).zip (vs ++ [v])).map (fun e => (e.1.pt, e.2.pt)) := by
      rw [show v.pt :: vs.map Pos.pt = (v :: vs).map Pos.pt from rfl,
        show vs.map Pos.pt ++ [v.pt] = (vs ++ [v]).map Pos.pt by simp, List.zip_map]
      rfl
    simp only [hz, List.map_map, Function.comp_def, term_eq]
    first | rfl | simp

/-- **`GeoPolygon.__init__`** of the source stores the model's `mkOutlineP`: the ring is closed, then reversed unless
    `is_counter_clockwise(outline) ^ _is_hole`; `outline[0]` raises `IndexError` on an empty list -/
theorem polygonInit_eq (outline : List Pos) (holes : List HoleSrc) (dt : Option TI) (props : Obj) (isHole : Bool) :
    polygonInit outline holes dt props isHole = mkOutlineP outline isHole := by
  cases outline with
  | nil => rfl
  | cons v vs =>
    obtain ⟨b, hb⟩ : ∃ b, (v :: vs).getLast? = some b := by
      cases h : (v :: vs).getLast? with
      | none => simp at h
      | some b => exact ⟨b, rfl⟩
    have hne : ∀ l : List Pos, isCounterClockwise (v :: l) = .ok (isCCW ((v :: l).map Pos.pt)) := fun l => by
      rw [isCounterClockwise_eq]
    simp only [polygonInit, Py.getIdx, Py.getLast_eq, hb, mkOutlineP, closeRingP, List.head?_cons, List.isEmpty_cons,
      List.cons_append, hne]
    by_cases h : v = b <;> cases isHole <;> simp [h] <;> split <;> simp_all

/-- `GeoPolygon(outline)`: the instance with every optional argument at its default -/
theorem polygonInitDefault_eq (outline : List Pos) : polygonInitDefault outline = mkOutlineP outline := by
  cases outline with
  | nil => rfl
  | cons v vs =>
    obtain ⟨b, hb⟩ : ∃ b, (v :: vs).getLast? = some b := by
      cases h : (v :: vs).getLast? with
      | none => simp at h
      | some b => exact ⟨b, rfl⟩
    have hne : ∀ l : List Pos, isCounterClockwise (v :: l) = .ok (isCCW ((v :: l).map Pos.pt)) := fun l => by
      rw [isCounterClockwise_eq]
    simp only [polygonInitDefault, Py.getIdx, Py.getLast_eq, hb, mkOutlineP, closeRingP, List.head?_cons, List.isEmpty_cons,
      List.cons_append, hne]
    by_cases h : v = b <;> simp [h] <;> split <;> simp_all

end GV.C14Src
