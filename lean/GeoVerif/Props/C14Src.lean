import GeoVerif.Gen.SrcGeoJson
import GeoVerif.Props.C14
import GeoVerif.Props.C06Src
/-!
# Source tie for the GeoJSON exporters, the ring orientation and the time fields (C14)
-/
namespace GV.C14Src
open GV GV.GeoJson
open GV.Src.GeoJson (Kw PolygonS BoxS CurvedS RingS LineS PointS PolyM MPolyS MLineS MPointS ShapeS
  coordEq ensureEdgeBounds isCounterClockwise polygonInit polygonInitDefault
  polygonBoundingCoords boxBoundingCoords ringBoundingCoords polygonLinearRings boxLinearRings curvedLinearRings
  ringLinearRings mpolyLinearRings boxBounds pointBounds pointCentroid polygonToGeoInterface boxToGeoInterface
  curvedToGeoInterface ringToGeoInterface lineGeoInterface lineToGeoInterface pointGeoInterface pointToGeoInterface
  mlineGeoInterface mlineToGeoInterface mpointGeoInterface mpointToGeoInterface mpolyToGeoInterface startDt endDt
  propertiesJson getDtFromGeojsonProps)

variable (rt : Rt)

/-! ## ring orientation -/

/-- the translated `ensure_edge_bounds`, seen through (longitude, latitude), is the model's `ensureEdge` -/
theorem ensureEdgeBounds_eq (a b : Pos) :
    ((ensureEdgeBounds rt a b).1.pt, (ensureEdgeBounds rt a b).2.pt) = ensureEdge a.pt b.pt := by
  unfold ensureEdgeBounds ensureEdge
  by_cases h : absR (a.lon - b.lon) > 180 <;> by_cases h2 : a.lon < 0 <;> simp [Pos.pt, h, h2]

/-- one term of the source's sum is one term of the model's shoelace sum -/
theorem term_eq (e : Pos × Pos) :
    ((ensureEdgeBounds rt e.1 e.2).2.lon - (ensureEdgeBounds rt e.1 e.2).1.lon) *
        ((ensureEdgeBounds rt e.1 e.2).2.lat + (ensureEdgeBounds rt e.1 e.2).1.lat) =
      ((ensureEdge e.1.pt e.2.pt).2.1 - (ensureEdge e.1.pt e.2.pt).1.1) *
        ((ensureEdge e.1.pt e.2.pt).2.2 + (ensureEdge e.1.pt e.2.pt).1.2) := by
  rw [← ensureEdgeBounds_eq rt]; rfl

/-- **`is_counter_clockwise`** of the source is the model's `isCCW` of the (longitude, latitude) ring; on the empty list
    `bounds[0]` raises `IndexError` -/
theorem isCounterClockwise_eq (ring : List Pos) :
    isCounterClockwise rt ring =
      match ring with
      | [] => .error "ERR:Index"
      | _ :: _ => .ok (isCCW (ring.map Pos.pt)) := by
  cases ring with
  | nil => rfl
  | cons v vs =>
    simp only [isCounterClockwise, Py.getIdx, isCCW, shoelace, List.map_cons, cyclicPairs, List.drop_succ_cons, List.drop_zero]
    have hz : (v.pt :: vs.map Pos.pt).zip (vs.map Pos.pt ++ [v.pt]) =
        ((v :: vs).zip (vs ++ [v])).map (fun e => (e.1.pt, e.2.pt)) := by
      rw [show v.pt :: vs.map Pos.pt = (v :: vs).map Pos.pt from rfl,
        show vs.map Pos.pt ++ [v.pt] = (vs ++ [v]).map Pos.pt by simp, List.zip_map]
      rfl
    simp only [hz, List.map_map, Function.comp_def, term_eq]
    first | rfl | simp

/-- `Coordinate.__eq__` of the source is equality of (longitude, latitude, z) -/
theorem coordEq_eq (a b : Pos) : coordEq rt a b = (a == b) := by
  obtain ⟨x, y, z⟩ := a
  obtain ⟨x', y', z'⟩ := b
  simp only [coordEq]
  rw [Bool.eq_iff_iff]
  simp [Pos.mk.injEq]
  tauto

/-- **`GeoPolygon.__init__`** of the source stores the model's `mkOutlineP`: the ring is closed, then reversed unless
    `is_counter_clockwise(outline) ^ _is_hole`; `outline[0]` raises `IndexError` on an empty list -/
theorem polygonInit_eq (outline : List Pos) (holes : List HoleSrc) (dt : Option TI) (props : Obj) (isHole : Bool) :
    polygonInit rt outline holes dt props isHole = mkOutlineP outline isHole := by
  cases outline with
  | nil => rfl
  | cons v vs =>
    obtain ⟨b, hb⟩ : ∃ b, (v :: vs).getLast? = some b := by
      cases h : (v :: vs).getLast? with
      | none => simp at h
      | some b => exact ⟨b, rfl⟩
    have hne : ∀ l : List Pos, isCounterClockwise rt (v :: l) = .ok (isCCW ((v :: l).map Pos.pt)) := fun l => by
      rw [isCounterClockwise_eq]
    simp only [polygonInit, Py.getIdx, Py.getLast_eq, hb, mkOutlineP, closeRingP, List.head?_cons, List.isEmpty_cons,
      List.cons_append, hne, coordEq_eq]
    by_cases h : v = b <;> cases isHole <;> simp [h] <;> split <;> simp_all

/-- `GeoPolygon(outline)`: the instance with every optional argument at its default -/
theorem polygonInitDefault_eq (outline : List Pos) : polygonInitDefault rt outline = mkOutlineP outline := by
  cases outline with
  | nil => rfl
  | cons v vs =>
    obtain ⟨b, hb⟩ : ∃ b, (v :: vs).getLast? = some b := by
      cases h : (v :: vs).getLast? with
      | none => simp at h
      | some b => exact ⟨b, rfl⟩
    have hne : ∀ l : List Pos, isCounterClockwise rt (v :: l) = .ok (isCCW ((v :: l).map Pos.pt)) := fun l => by
      rw [isCounterClockwise_eq]
    simp only [polygonInitDefault, Py.getIdx, Py.getLast_eq, hb, mkOutlineP, closeRingP, List.head?_cons, List.isEmpty_cons,
      List.cons_append, hne, coordEq_eq]
    by_cases h : v = b <;> simp [h] <;> split <;> simp_all

/-! ## positions and rings -/

/-- **`list(coord.to_float())`** as a JSON array is the model's position: `[lon, lat]` or `[lon, lat, z]` -/
theorem toFloat_eq (p : Pos) : J.arr ((Src.GeoJson.toFloat rt p).map J.num) = posToJ p := by
  obtain ⟨x, y, z⟩ := p
  cases z <;> simp [Src.GeoJson.toFloat, posToJ]

theorem toFloat_idx (p : Pos) : Py.getIdx (Src.GeoJson.toFloat rt p) 0 = .ok p.lon ∧ Py.getIdx (Src.GeoJson.toFloat rt p) 1 = .ok p.lat := by
  obtain ⟨x, y, z⟩ := p
  cases z <;> simp [Src.GeoJson.toFloat, Py.getIdx]

/-- the nested comprehension `[[list(coord.to_float()) for coord in ring] for ring in rings]` as a JSON array -/
theorem ringsJ_eq (rings : List (List Pos)) :
    J.arr ((rings.map (fun ring => ring.map (fun c => Src.GeoJson.toFloat rt c))).map
      (fun a => J.arr (a.map (fun b => J.arr (b.map (fun x => J.num x)))))) = J.arr (rings.map ringToJ) := by
  simp only [List.map_map, Function.comp_def, toFloat_eq]
  rfl

theorem ringJ_eq (ring : List Pos) :
    J.arr ((ring.map (fun c => Src.GeoJson.toFloat rt c)).map (fun b => J.arr (b.map (fun x => J.num x)))) = ringToJ ring := by
  simp only [List.map_map, Function.comp_def, toFloat_eq]
  rfl

/-! ### receivers as the model's export sources -/

/-- the keyword arguments of `to_geojson` as the exporters' `**kwargs` -/
def kwOf (o : Opts) : Kw := ⟨o.k, o.bbox, o.extra⟩

def polygonSrc (p : PolygonS) : PolySrc := .polygon p.outline p.holes
def boxSrc (b : BoxS) : PolySrc := .box b.nw b.se b.holes
/-- `bnd`: the value of the (abstract) `bounds` -/
def curvedSrc (c : CurvedS) (bnd : Rat × Rat × Rat × Rat) : PolySrc := .curved c.bounding bnd c.holes
/-- `self.angle_min == 0 and self.angle_max == 360` -/
def ringFull (r : RingS) : Bool := r.amin == 0 && r.amax == 360
def ringSrc (r : RingS) (bnd : Rat × Rat × Rat × Rat) : PolySrc := .ring r.outer r.inner (ringFull r) bnd r.holes

theorem kw_default_k : ({} : Kw).k = none := rfl

/-- the source's test (with its int literals) is `ringFull` -/
theorem ringFull_eq (r : RingS) : ((r.amin == ((0 : Int) : Rat)) && (r.amax == ((360 : Int) : Rat))) = ringFull r := by
  simp [ringFull]

/-- **`PolygonBase.linear_rings`** on a `GeoPolygon`: the outline, then every hole's default outline reversed -/
theorem polygonLinearRings_eq (p : PolygonS) (kw : Kw) :
    polygonLinearRings rt p kw = .ok ((polygonSrc p).linearRings kw.k) := by
  simp [polygonLinearRings, polygonBoundingCoords, polygonSrc, PolySrc.linearRings, PolySrc.bounding, PolySrc.holes]

/-- **`GeoBox.bounding_coords`**: the five corners; the two computed corners go through the `Coordinate` constructor,
    which is the identity on coordinates in the constructor's range (C08) -/
theorem boxBoundingCoords_eq (b : BoxS) (kw : Kw) (h1 : PosOK b.nw) (h2 : PosOK b.se) :
    boxBoundingCoords rt b kw = .ok ((boxSrc b).bounding kw.k) := by
  have n1 : normalize true b.nw.lon b.se.lat = (b.nw.lon, b.se.lat) := normalize_id h1.1 h1.2.1 h2.2.2.1 h2.2.2.2
  have n2 : normalize true b.se.lon b.nw.lat = (b.se.lon, b.nw.lat) := normalize_id h2.1 h2.2.1 h1.2.2.1 h1.2.2.2
  simp only [boxBoundingCoords, (toFloat_idx rt b.nw).1, (toFloat_idx rt b.nw).2, (toFloat_idx rt b.se).1, (toFloat_idx rt b.se).2,
    n1, n2, boxSrc, PolySrc.bounding]
  cases b.nw.z <;> simp [zOr]

theorem boxLinearRings_eq (b : BoxS) (kw : Kw) (h1 : PosOK b.nw) (h2 : PosOK b.se) :
    boxLinearRings rt b kw = .ok ((boxSrc b).linearRings kw.k) := by
  simp [boxLinearRings, boxBoundingCoords_eq rt b kw h1 h2, boxSrc, PolySrc.linearRings, PolySrc.holes]

theorem curvedLinearRings_eq (c : CurvedS) (bnd : Rat × Rat × Rat × Rat) (kw : Kw) :
    curvedLinearRings rt c kw = .ok ((curvedSrc c bnd).linearRings kw.k) := by
  simp [curvedLinearRings, curvedSrc, PolySrc.linearRings, PolySrc.bounding, PolySrc.holes]

theorem getIdx_zero {α : Type} (l : List α) :
    Py.getIdx l 0 = match l.head? with | some x => .ok x | none => .error "ERR:Index" := by
  cases l <;> rfl

/-- **`GeoRing.bounding_coords`**: the outer arc for a full ring, else outer arc + reversed inner arc + first vertex
    (`outer_bounds[0]` raises `IndexError` on an empty arc, which `_draw_bounds` never returns) -/
theorem ringBoundingCoords_eq (r : RingS) (bnd : Rat × Rat × Rat × Rat) (kw : Kw) (ho : r.outer kw.k ≠ []) :
    ringBoundingCoords rt r kw = .ok ((ringSrc r bnd).bounding kw.k) := by
  obtain ⟨a, t, hat⟩ := List.exists_cons_of_ne_nil ho
  simp only [ringBoundingCoords, ringSrc, PolySrc.bounding, ringFull_eq, getIdx_zero, hat]
  cases ringFull r <;> simp

/-- **`GeoRing.linear_rings`**: a full ring is an outer circle and a reversed inner circle, both closed; a wedge is one
    closed ring; the holes follow, reversed, drawn with the same `k` -/
theorem ringLinearRings_eq (r : RingS) (bnd : Rat × Rat × Rat × Rat) (kw : Kw) (ho : r.outer kw.k ≠ [])
    (hi : ringFull r = true → r.inner kw.k ≠ []) :
    ringLinearRings rt r kw = .ok ((ringSrc r bnd).linearRings kw.k) := by
  obtain ⟨a, t, hat⟩ := List.exists_cons_of_ne_nil ho
  simp only [ringLinearRings, ringFull_eq, ringSrc]
  cases hf : ringFull r with
  | true =>
    obtain ⟨a', t', hat'⟩ := List.exists_cons_of_ne_nil (hi hf)
    simp [PolySrc.linearRings, getIdx_zero, hat, hat']
  | false =>
    simp [PolySrc.linearRings, PolySrc.bounding, getIdx_zero, hat]

/-! ## the geometry member (`to_geo_interface`) -/

/-- **`PolygonBase.to_geo_interface`** on a `GeoPolygon` (its `bounds` pinned as the outline's bounding box) -/
theorem polygonToGeoInterface_eq (p : PolygonS) (kw : Kw) :
    polygonToGeoInterface rt p kw = toGeoInterface (.poly (polygonSrc p)) kw.k kw.bbox := by
  simp only [polygonToGeoInterface, polygonLinearRings_eq, toGeoInterface, ringsJ_eq, Geom.coordinates, Geom.typeName,
    Geom.bounds]
  cases kw.bbox
  · simp [oupdate, oset]
  · simp only [polygonSrc, PolySrc.bounds]
    cases bboxPos p.outline <;> simp [oupdate, oset, bboxToJ]

/-- … on a `GeoBox` whose corners are in the constructor's range -/
theorem boxToGeoInterface_eq (b : BoxS) (kw : Kw) (h1 : PosOK b.nw) (h2 : PosOK b.se) :
    boxToGeoInterface rt b kw = toGeoInterface (.poly (boxSrc b)) kw.k kw.bbox := by
  simp only [boxToGeoInterface, boxLinearRings_eq rt b _ h1 h2, toGeoInterface, ringsJ_eq, Geom.coordinates, Geom.typeName,
    Geom.bounds]
  cases kw.bbox <;> simp [oupdate, oset, boxSrc, PolySrc.bounds, boxBounds, bboxToJ]

/-- … on a `GeoCircle` / `GeoEllipse` (vertices and `bounds` abstract; `bounds` does not raise) -/
theorem curvedToGeoInterface_eq (c : CurvedS) (bnd : Rat × Rat × Rat × Rat) (kw : Kw) (hb : c.bounds = .ok bnd) :
    curvedToGeoInterface rt c kw = toGeoInterface (.poly (curvedSrc c bnd)) kw.k kw.bbox := by
  simp only [curvedToGeoInterface, curvedLinearRings_eq rt c bnd, toGeoInterface, ringsJ_eq, Geom.coordinates, Geom.typeName,
    Geom.bounds, hb]
  cases kw.bbox <;> simp [oupdate, oset, curvedSrc, PolySrc.bounds, bboxToJ]

/-- … on a `GeoRing` (arcs abstract and non-empty; `bounds` abstract, assumed to be what the model computes) -/
theorem ringToGeoInterface_eq (r : RingS) (bnd : Rat × Rat × Rat × Rat) (kw : Kw) (ho : r.outer kw.k ≠ [])
    (hi : ringFull r = true → r.inner kw.k ≠ []) (hb : r.bounds = (ringSrc r bnd).bounds) :
    ringToGeoInterface rt r kw = toGeoInterface (.poly (ringSrc r bnd)) kw.k kw.bbox := by
  have hr := ringLinearRings_eq rt r bnd ⟨kw.k, false, []⟩ ho hi
  simp only [ringToGeoInterface, hr, toGeoInterface, ringsJ_eq, Geom.coordinates, Geom.typeName, Geom.bounds, hb]
  cases kw.bbox
  · simp [oupdate, oset]
  · cases (ringSrc r bnd).bounds <;> simp [oupdate, oset, bboxToJ]

/-- **`GeoLineString.to_geo_interface`** (its `bounds` pinned as the vertex list's bounding box) -/
theorem lineToGeoInterface_eq (l : LineS) (kw : Kw) :
    lineToGeoInterface rt l kw = toGeoInterface (.line l.vertices) kw.k kw.bbox := by
  simp only [lineToGeoInterface, lineGeoInterface, toGeoInterface, ringJ_eq, Geom.coordinates, Geom.typeName, Geom.bounds]
  cases kw.bbox
  · simp [oupdate, oset]
  · cases bboxPos l.vertices <;> simp [oupdate, oset, bboxToJ]

/-- **`GeoPoint.to_geo_interface`** -/
theorem pointToGeoInterface_eq (p : PointS) (kw : Kw) :
    pointToGeoInterface rt p kw = toGeoInterface (.point p.coordinate) kw.k kw.bbox := by
  simp only [pointToGeoInterface, pointGeoInterface, toGeoInterface, toFloat_eq, Geom.coordinates, Geom.typeName, Geom.bounds]
  cases kw.bbox <;> simp [oupdate, oset, bboxToJ, pointBounds]

/-- **`MultiGeoLineString.to_geo_interface`** (`MultiShapeBase.bounds` abstract, assumed to be what the model computes) -/
theorem mlineToGeoInterface_eq (m : MLineS) (kw : Kw)
    (hb : m.bounds = (Geom.mline (m.geoshapes.map (·.vertices))).bounds) :
    mlineToGeoInterface rt m kw = toGeoInterface (.mline (m.geoshapes.map (·.vertices))) kw.k kw.bbox := by
  have hc : J.arr ((m.geoshapes.map (fun shape => shape.vertices.map (fun v => Src.GeoJson.toFloat rt v))).map
      (fun a => J.arr (a.map (fun b => J.arr (b.map (fun x => J.num x)))))) =
      J.arr ((m.geoshapes.map (·.vertices)).map ringToJ) := by
    rw [← ringsJ_eq rt]; simp only [List.map_map, Function.comp_def]
  simp only [mlineToGeoInterface, mlineGeoInterface, toGeoInterface, hc, Geom.coordinates, Geom.typeName, hb]
  cases kw.bbox
  · simp [oupdate, oset]
  · cases (Geom.mline (m.geoshapes.map (·.vertices))).bounds <;> simp [oupdate, oset, bboxToJ]

/-- **`MultiGeoPoint.to_geo_interface`** (`point.centroid` is the point's coordinate) -/
theorem mpointToGeoInterface_eq (m : MPointS) (kw : Kw)
    (hb : m.bounds = (Geom.mpoint (m.geoshapes.map (·.coordinate))).bounds) :
    mpointToGeoInterface rt m kw = toGeoInterface (.mpoint (m.geoshapes.map (·.coordinate))) kw.k kw.bbox := by
  have hc : J.arr ((m.geoshapes.map (fun pt => Src.GeoJson.toFloat rt (pointCentroid rt pt))).map
      (fun b => J.arr (b.map (fun x => J.num x)))) = ringToJ (m.geoshapes.map (·.coordinate)) := by
    rw [← ringJ_eq rt]; simp only [List.map_map, Function.comp_def, pointCentroid]
  simp only [mpointToGeoInterface, mpointGeoInterface, toGeoInterface, hc, Geom.coordinates, Geom.typeName, hb]
  cases kw.bbox
  · simp [oupdate, oset]
  · cases (Geom.mpoint (m.geoshapes.map (·.coordinate))).bounds <;> simp [oupdate, oset, bboxToJ]

/-- the member loop of `MultiGeoPolygon.linear_rings`, when every member answers `linear_rings(**kwargs)` as the
    model's export source next to it does -/
theorem mpolyLinearRings_eq (m : MPolyS) (ps : List PolySrc) (kw : Kw)
    (hm : List.Forall₂ (fun (x : PolyM) p => x.linearRings kw = .ok (p.linearRings kw.k)) m.geoshapes ps) :
    mpolyLinearRings rt m kw = .ok (ps.map (fun p => p.linearRings kw.k)) := by
  simp only [mpolyLinearRings]
  generalize m.geoshapes = ms at hm
  induction hm with
  | nil => rfl
  | cons h _ ih => simp only [Py.mapE, h, ih, List.map_cons]

/-- **`MultiGeoPolygon.to_geo_interface`** -/
theorem mpolyToGeoInterface_eq (m : MPolyS) (ps : List PolySrc) (kw : Kw)
    (hm : List.Forall₂ (fun (x : PolyM) p => x.linearRings ⟨kw.k, false, []⟩ = .ok (p.linearRings kw.k)) m.geoshapes ps)
    (hb : m.bounds = (Geom.mpoly ps).bounds) :
    mpolyToGeoInterface rt m kw = toGeoInterface (.mpoly ps) kw.k kw.bbox := by
  have hr := mpolyLinearRings_eq rt m ps ⟨kw.k, false, []⟩ hm
  have hc : J.arr (((ps.map (fun p => p.linearRings kw.k)).map (fun shape => shape.map (fun ring =>
        ring.map (fun c => Src.GeoJson.toFloat rt c)))).map (fun a => J.arr (a.map (fun b => J.arr (b.map (fun c =>
        J.arr (c.map (fun x => J.num x)))))))) = J.arr (ps.map fun p => J.arr ((p.linearRings kw.k).map ringToJ)) := by
    simp only [List.map_map, Function.comp_def, toFloat_eq]
    rfl
  simp only [mpolyToGeoInterface, hr, toGeoInterface, hc, Geom.coordinates, Geom.typeName, hb]
  cases kw.bbox
  · simp [oupdate, oset]
  · cases (Geom.mpoly ps).bounds <;> simp [oupdate, oset, bboxToJ]

/-! ## the Feature: `properties`, the time fields, `to_geojson` -/

/-- `start` / `end`: `ValueError` without time bounds -/
theorem startDt_eq (s : ShapeS) :
    startDt rt s = match s.dt with | some t => .ok t.start | none => .error "ERR:Value" := by
  cases h : s.dt <;> simp [startDt, h]

theorem endDt_eq (s : ShapeS) :
    endDt rt s = match s.dt with | some t => .ok t.stop | none => .error "ERR:Value" := by
  cases h : s.dt <;> simp [endDt, h]

/-- **`properties`**: a copy of `_properties` plus `datetime_start` / `datetime_end` (as datetimes) when the shape is
    time-bounded; never raises -/
theorem properties_eq (s : ShapeS) (g : Geom) :
    Src.GeoJson.properties rt s = .ok (GeoJson.properties ⟨g, s.dt, s.props⟩) := by
  cases h : s.dt <;> simp [Src.GeoJson.properties, GeoJson.properties, startDt_eq, endDt_eq, h]

/-- **`_properties_json`** (`sanitize_json` pinned as the model's `sanitize`) -/
theorem propertiesJson_eq (s : ShapeS) (g : Geom) :
    propertiesJson rt s = .ok (sanKvs rt (GeoJson.properties ⟨g, s.dt, s.props⟩)) := by
  simp [propertiesJson, properties_eq rt s g]

/-- **`to_geojson`** of the source is the model's `toGeoJson`, whatever class the receiver has, as long as its
    `to_geo_interface` is what the model computes for the geometry (`…ToGeoInterface_eq` above): `k` and `include_bbox` are
    popped and handed on, the shape's sanitised properties are overridden by the caller's, what is left of `**kwargs`
    becomes further members -/
theorem toGeoJson_eq (s : Src) (o : Opts) (gi : Kw → Except String Obj)
    (hgi : ∀ kw, gi kw = toGeoInterface s.geom kw.k kw.bbox) :
    (Src.GeoJson.toGeoJson rt ⟨s.dt, s.props, gi⟩ o.props (kwOf o)).map J.obj = GeoJson.toGeoJson rt s o := by
  simp only [Src.GeoJson.toGeoJson, hgi, propertiesJson_eq rt _ s.geom, kwOf, GeoJson.toGeoJson]
  have hs : (⟨s.geom, s.dt, s.props⟩ : Src) = s := rfl
  cases toGeoInterface s.geom o.k o.bbox with
  | error e => rfl
  | ok g =>
    cases o.props with
    | none => simp [Kw.rest, oset, Except.map, hs]
    | some d => cases d <;> simp [Kw.rest, oset, Except.map, hs]

/-! ## the time fields on the way back (`get_dt_from_geojson_props`) -/

/-- the nested `_convert` applied to `rec.pop(field, None)` (an absent field arrives as `None`, JSON null): falsy values
    give `None`, a string goes through `datetime.fromisoformat`, anything else is a `TypeError` -/
theorem convert_eq (v : Option J) :
    Src.GeoJson.getDtFromGeojsonProps.convert rt (v.getD .null) = convertTs rt v := by
  cases v with
  | none => simp [Src.GeoJson.getDtFromGeojsonProps.convert, convertTs, J.truthy]
  | some j =>
    cases j <;> simp only [Src.GeoJson.getDtFromGeojsonProps.convert, convertTs, Option.getD_some] <;> split <;>
      first | rfl | simp_all [Except.map]

/-- **`get_dt_from_geojson_props`** of the source — its result *and* what it leaves of the dict it was handed — is the
    model's `getDt`: both fields are popped (the second from what the first pop left), no field gives `None`, one field
    the instant, two fields `TimeInterval(start, end)` (which raises `ValueError` when `end < start`) -/
theorem getDt_eq (rec : Obj) (ks ke : String) :
    getDtFromGeojsonProps rt rec ks ke = getDt rt rec ks ke := by
  simp only [getDtFromGeojsonProps, convert_eq, getDt, C06Src.init_eq]
  cases convertTs rt (oget rec ks) with
  | error e => rfl
  | ok a =>
    cases convertTs rt (oget (oerase rec ks) ke) with
    | error e => rfl
    | ok b =>
      cases a <;> cases b <;> simp
      cases TI.mk? _ _ <;> rfl

end GV.C14Src
