import GeoVerif.Gen.SrcGeoJson
import GeoVerif.Props.C14
import GeoVerif.Props.C06Src
/-!
# Source tie for GeoJSON export / import (C14)

`GeoVerif/Gen/SrcGeoJson.lean` is regenerated on every run from the current text of `_geometry.py`, `structures.py`,
`multistructures.py`, `_base.py`, `coordinates.py` and `utils/functions.py` (unit `SrcGeoJson`, declared in
`harness/srcunits_geojson.py`, which also says how Python objects are read).  This file proves every translated
definition equal to the hand-written model of `Model/GeoJson.lean` / `Model/Plane.lean`:

* ring orientation — `ensure_edge_bounds`, `is_counter_clockwise` (the shoelace sum over consecutive vertex pairs),
  `Coordinate.__eq__`, `GeoPolygon.__init__` (close, then reverse unless counter-clockwise `^ _is_hole`);
* positions and rings — `Coordinate.to_float`, `bounding_coords` / `linear_rings` of polygon, box, circle / ellipse, ring /
  wedge and multi-polygon (where a hole is reversed);
* the geometry member — `to_geo_interface` of the nine exporting classes (`coordinates` nesting, `bbox`);
* the Feature — `properties`, `_properties_json`, `to_geojson` (`k` / `include_bbox` popped, property override order,
  `**kwargs` as further members);
* the way back — `get_dt_from_geojson_props` (both fields popped, instant vs. interval) and `from_geojson` of the six
  importable types (geometry selection, type test, position / ring / member loops, the time fields popped from a *copy*
  of `properties`);

and restates the headline theorems of `Props/C14.lean` — RFC 7946 winding, export → import identity, the time fields —
for the translated definitions (`src_*`, `export_eq`, `src_full_roundtrip`).
-/
namespace GV.C14Src
open GV GV.GeoJson
open GV.Src.GeoJson (Kw PolygonS BoxS CurvedS RingS LineS PointS PolyM MPolyS MLineS MPointS ShapeS
  coordEq ensureEdgeBounds isCounterClockwise polygonInit polygonInitDefault
  polygonBoundingCoords boxBoundingCoords ringBoundingCoords polygonLinearRings boxLinearRings curvedLinearRings
  ringLinearRings mpolyLinearRings boxBounds pointBounds pointCentroid polygonToGeoInterface boxToGeoInterface
  curvedToGeoInterface ringToGeoInterface lineGeoInterface lineToGeoInterface pointGeoInterface pointToGeoInterface
  mlineGeoInterface mlineToGeoInterface mpointGeoInterface mpointToGeoInterface mpolyToGeoInterface startDt endDt
  propertiesJson getDtFromGeojsonProps pointFromGeoJson lineFromGeoJson mpointFromGeoJson mlineFromGeoJson polygonFromGeoJson mpolyFromGeoJson jIter)

variable (rt : Rt)

/-! ## ring orientation -/

/-- the translated `ensure_edge_bounds`, seen through (longitude, latitude), is the model's `ensureEdge` -/
theorem ensureEdgeBounds_eq (a b : Pos) :
    ((ensureEdgeBounds rt a b).1.pt, (ensureEdgeBounds rt a b).2.pt) = ensureEdge a.pt b.pt := by
  unfold ensureEdgeBounds ensureEdge
  by_cases h : absR (a.lon - b.lon) > 180 <;> by_cases h2 : a.lon < 0 <;> simp [Pos.pt, h, h2]

/-- one term of the source's sum is one term of the model's shoelace sum -/
theorem term_eq (e : Pos × Pos) :
    ((ensureEdgeBounds rt e.1 e.2).2.lon - (ensureEdgeBounds rt e.1 e.2).1.lon) *
        ((ensureEdgeBounds rt e.1 e.2).2.lat + (ensureEdgeBounds rt e.1 e.2).1.lat) =
      ((ensureEdge e.1.pt e.2.pt).2.1 - (ensureEdge e.1.pt e.2.pt).1.1) *
        ((ensureEdge e.1.pt e.2.pt).2.2 + (ensureEdge e.1.pt e.2.pt).1.2) := by
  rw [← ensureEdgeBounds_eq rt]; rfl

/-- **`is_counter_clockwise`** of the source is the model's `isCCW` of the (longitude, latitude) ring; on the empty list
    `bounds[0]` raises `IndexError` -/
theorem isCounterClockwise_eq (ring : List Pos) :
    isCounterClockwise rt ring =
      match ring with
      | [] => .error "ERR:Index"
      | _ :: _ => .ok (isCCW (ring.map Pos.pt)) := by
  cases ring with
  | nil => rfl
  | cons v vs =>
    simp only [isCounterClockwise, Py.getIdx, isCCW, shoelace, List.map_cons, cyclicPairs, List.drop_succ_cons, List.drop_zero]
    have hz : (v.pt :: vs.map Pos.pt).zip (vs.map Pos.pt ++ [v.pt]) =
        ((v :: vs).zip (vs ++ [v])).map (fun e => (e.1.pt, e.2.pt)) := by
      rw [show v.pt :: vs.map Pos.pt = (v :: vs).map Pos.pt from rfl,
        show vs.map Pos.pt ++ [v.pt] = (vs ++ [v]).map Pos.pt by simp, List.zip_map]
      rfl
    simp only [hz, List.map_map, Function.comp_def, term_eq]
    first
      | rfl
      | (simp; done)
      | (simp only [Except.ok.injEq]; rw [Bool.eq_iff_iff]; simp [not_lt, not_le]; done)

/-- `Coordinate.__eq__` of the source is equality of (longitude, latitude, z) -/
theorem coordEq_eq (a b : Pos) : coordEq rt a b = (a == b) := by
  obtain ⟨x, y, z⟩ := a
  obtain ⟨x', y', z'⟩ := b
  simp only [coordEq]
  rw [Bool.eq_iff_iff]
  simp [Pos.mk.injEq]
  tauto

/-- **`GeoPolygon.__init__`** of the source stores the model's `mkOutlineP`: the ring is closed, then reversed unless
    `is_counter_clockwise(outline) ^ _is_hole`; `outline[0]` raises `IndexError` on an empty list -/
theorem polygonInit_eq (outline : List Pos) (holes : List HoleSrc) (dt : Option TI) (props : Obj) (isHole : Bool) :
    polygonInit rt outline holes dt props isHole = mkOutlineP outline isHole := by
  cases outline with
  | nil => rfl
  | cons v vs =>
    obtain ⟨b, hb⟩ : ∃ b, (v :: vs).getLast? = some b := by
      cases h : (v :: vs).getLast? with
      | none => simp at h
      | some b => exact ⟨b, rfl⟩
    have hne : ∀ l : List Pos, isCounterClockwise rt (v :: l) = .ok (isCCW ((v :: l).map Pos.pt)) := fun l => by
      rw [isCounterClockwise_eq]
    simp only [polygonInit, Py.getIdx, Py.getLast, hb, mkOutlineP, closeRingP, List.head?_cons, List.isEmpty_cons,
      List.cons_append, hne, coordEq_eq]
    by_cases h : v = b <;> cases isHole <;> simp [h] <;> split <;> simp_all

/-- `GeoPolygon(outline)`: the instance with every optional argument at its default -/
theorem polygonInitDefault_eq (outline : List Pos) : polygonInitDefault rt outline = mkOutlineP outline := by
  cases outline with
  | nil => rfl
  | cons v vs =>
    obtain ⟨b, hb⟩ : ∃ b, (v :: vs).getLast? = some b := by
      cases h : (v :: vs).getLast? with
      | none => simp at h
      | some b => exact ⟨b, rfl⟩
    have hne : ∀ l : List Pos, isCounterClockwise rt (v :: l) = .ok (isCCW ((v :: l).map Pos.pt)) := fun l => by
      rw [isCounterClockwise_eq]
    simp only [polygonInitDefault, Py.getIdx, Py.getLast, hb, mkOutlineP, closeRingP, List.head?_cons, List.isEmpty_cons,
      List.cons_append, hne, coordEq_eq]
    by_cases h : v = b <;> simp [h] <;> split <;> simp_all

/-! ## positions and rings -/

/-- **`list(coord.to_float())`** as a JSON array is the model's position: `[lon, lat]` or `[lon, lat, z]` -/
theorem toFloat_eq (p : Pos) : J.arr ((Src.GeoJson.toFloat rt p).map J.num) = posToJ p := by
  obtain ⟨x, y, z⟩ := p
  cases z <;> simp [Src.GeoJson.toFloat, posToJ]

theorem toFloat_idx (p : Pos) : Py.getIdx (Src.GeoJson.toFloat rt p) 0 = .ok p.lon ∧ Py.getIdx (Src.GeoJson.toFloat rt p) 1 = .ok p.lat := by
  obtain ⟨x, y, z⟩ := p
  cases z <;> simp [Src.GeoJson.toFloat, Py.getIdx]

/-- the nested comprehension `[[list(coord.to_float()) for coord in ring] for ring in rings]` as a JSON array -/
theorem ringsJ_eq (rings : List (List Pos)) :
    J.arr ((rings.map (fun ring => ring.map (fun c => Src.GeoJson.toFloat rt c))).map
      (fun a => J.arr (a.map (fun b => J.arr (b.map (fun x => J.num x)))))) = J.arr (rings.map ringToJ) := by
  simp only [List.map_map, Function.comp_def, toFloat_eq]
  rfl

theorem ringJ_eq (ring : List Pos) :
    J.arr ((ring.map (fun c => Src.GeoJson.toFloat rt c)).map (fun b => J.arr (b.map (fun x => J.num x)))) = ringToJ ring := by
  simp only [List.map_map, Function.comp_def, toFloat_eq]
  rfl

/-! ### receivers as the model's export sources -/

/-- the keyword arguments of `to_geojson` as the exporters' `**kwargs` -/
def kwOf (o : Opts) : Kw := ⟨o.k, o.bbox, o.extra⟩

def polygonSrc (p : PolygonS) : PolySrc := .polygon p.outline p.holes
def boxSrc (b : BoxS) : PolySrc := .box b.nw b.se b.holes
/-- `bnd`: the value of the (abstract) `bounds` -/
def curvedSrc (c : CurvedS) (bnd : Rat × Rat × Rat × Rat) : PolySrc := .curved c.bounding bnd c.holes
/-- `self.angle_min == 0 and self.angle_max == 360` -/
def ringFull (r : RingS) : Bool := r.amin == 0 && r.amax == 360
def ringSrc (r : RingS) (bnd : Rat × Rat × Rat × Rat) : PolySrc := .ring r.outer r.inner (ringFull r) bnd r.holes

theorem kw_default_k : ({} : Kw).k = none := rfl

/-- the source's test (with its int literals) is `ringFull` -/
theorem ringFull_eq (r : RingS) : ((r.amin == ((0 : Int) : Rat)) && (r.amax == ((360 : Int) : Rat))) = ringFull r := by
  simp [ringFull]

/-- **`PolygonBase.linear_rings`** on a `GeoPolygon`: the outline, then every hole's default outline reversed -/
theorem polygonLinearRings_eq (p : PolygonS) (kw : Kw) :
    polygonLinearRings rt p kw = .ok ((polygonSrc p).linearRings kw.k) := by
  simp [polygonLinearRings, polygonBoundingCoords, polygonSrc, PolySrc.linearRings, PolySrc.bounding, PolySrc.holes]

/-- **`GeoBox.bounding_coords`**: the five corners; the two computed corners go through the `Coordinate` constructor,
    which is the identity on coordinates in the constructor's range (C08) -/
theorem boxBoundingCoords_eq (b : BoxS) (kw : Kw) (h1 : PosOK b.nw) (h2 : PosOK b.se) :
    boxBoundingCoords rt b kw = .ok ((boxSrc b).bounding kw.k) := by
  have n1 : normalize true b.nw.lon b.se.lat = (b.nw.lon, b.se.lat) := normalize_id h1.1 h1.2.1 h2.2.2.1 h2.2.2.2
  have n2 : normalize true b.se.lon b.nw.lat = (b.se.lon, b.nw.lat) := normalize_id h2.1 h2.2.1 h1.2.2.1 h1.2.2.2
  simp only [boxBoundingCoords, (toFloat_idx rt b.nw).1, (toFloat_idx rt b.nw).2, (toFloat_idx rt b.se).1, (toFloat_idx rt b.se).2,
    n1, n2, boxSrc, PolySrc.bounding]
  cases b.nw.z <;> simp [zOr]

theorem boxLinearRings_eq (b : BoxS) (kw : Kw) (h1 : PosOK b.nw) (h2 : PosOK b.se) :
    boxLinearRings rt b kw = .ok ((boxSrc b).linearRings kw.k) := by
  simp [boxLinearRings, boxBoundingCoords_eq rt b kw h1 h2, boxSrc, PolySrc.linearRings, PolySrc.holes]

theorem curvedLinearRings_eq (c : CurvedS) (bnd : Rat × Rat × Rat × Rat) (kw : Kw) :
    curvedLinearRings rt c kw = .ok ((curvedSrc c bnd).linearRings kw.k) := by
  simp [curvedLinearRings, curvedSrc, PolySrc.linearRings, PolySrc.bounding, PolySrc.holes]

theorem getIdx_zero {α : Type} (l : List α) :
    Py.getIdx l 0 = match l.head? with | some x => .ok x | none => .error "ERR:Index" := by
  cases l <;> rfl

/-- **`GeoRing.bounding_coords`**: the outer arc for a full ring, else outer arc + reversed inner arc + first vertex
    (`outer_bounds[0]` raises `IndexError` on an empty arc, which `_draw_bounds` never returns) -/
theorem ringBoundingCoords_eq (r : RingS) (bnd : Rat × Rat × Rat × Rat) (kw : Kw) (ho : r.outer kw.k ≠ []) :
    ringBoundingCoords rt r kw = .ok ((ringSrc r bnd).bounding kw.k) := by
  obtain ⟨a, t, hat⟩ := List.exists_cons_of_ne_nil ho
  simp only [ringBoundingCoords, ringSrc, PolySrc.bounding, ringFull_eq, getIdx_zero, hat]
  cases ringFull r <;> simp

/-- **`GeoRing.linear_rings`**: a full ring is an outer circle and a reversed inner circle, both closed; a wedge is one
    closed ring; the holes follow, reversed, drawn with the same `k` -/
theorem ringLinearRings_eq (r : RingS) (bnd : Rat × Rat × Rat × Rat) (kw : Kw) (ho : r.outer kw.k ≠ [])
    (hi : ringFull r = true → r.inner kw.k ≠ []) :
    ringLinearRings rt r kw = .ok ((ringSrc r bnd).linearRings kw.k) := by
  obtain ⟨a, t, hat⟩ := List.exists_cons_of_ne_nil ho
  simp only [ringLinearRings, ringFull_eq, ringSrc]
  cases hf : ringFull r with
  | true =>
    obtain ⟨a', t', hat'⟩ := List.exists_cons_of_ne_nil (hi hf)
    simp [PolySrc.linearRings, getIdx_zero, hat, hat']
  | false =>
    simp [PolySrc.linearRings, PolySrc.bounding, getIdx_zero, hat]

/-! ## the geometry member (`to_geo_interface`) -/

/-- **`PolygonBase.to_geo_interface`** on a `GeoPolygon` (its `bounds` pinned as the outline's bounding box) -/
theorem polygonToGeoInterface_eq (p : PolygonS) (kw : Kw) :
    polygonToGeoInterface rt p kw = toGeoInterface (.poly (polygonSrc p)) kw.k kw.bbox := by
  simp only [polygonToGeoInterface, polygonLinearRings_eq, toGeoInterface, ringsJ_eq, Geom.coordinates, Geom.typeName,
    Geom.bounds]
  cases kw.bbox
  · simp [oupdate, oset]
  · simp only [polygonSrc, PolySrc.bounds]
    cases bboxPos p.outline <;> simp [oupdate, oset, bboxToJ]

/-- … on a `GeoBox` whose corners are in the constructor's range -/
theorem boxToGeoInterface_eq (b : BoxS) (kw : Kw) (h1 : PosOK b.nw) (h2 : PosOK b.se) :
    boxToGeoInterface rt b kw = toGeoInterface (.poly (boxSrc b)) kw.k kw.bbox := by
  simp only [boxToGeoInterface, boxLinearRings_eq rt b _ h1 h2, toGeoInterface, ringsJ_eq, Geom.coordinates, Geom.typeName,
    Geom.bounds]
  cases kw.bbox <;> simp [oupdate, oset, boxSrc, PolySrc.bounds, boxBounds, bboxToJ]

/-- … on a `GeoCircle` / `GeoEllipse` (vertices and `bounds` abstract; `bounds` does not raise) -/
theorem curvedToGeoInterface_eq (c : CurvedS) (bnd : Rat × Rat × Rat × Rat) (kw : Kw) (hb : c.bounds = .ok bnd) :
    curvedToGeoInterface rt c kw = toGeoInterface (.poly (curvedSrc c bnd)) kw.k kw.bbox := by
  simp only [curvedToGeoInterface, curvedLinearRings_eq rt c bnd, toGeoInterface, ringsJ_eq, Geom.coordinates, Geom.typeName,
    Geom.bounds, hb]
  cases kw.bbox <;> simp [oupdate, oset, curvedSrc, PolySrc.bounds, bboxToJ]

/-- … on a `GeoRing` (arcs abstract and non-empty; `bounds` abstract, assumed to be what the model computes) -/
theorem ringToGeoInterface_eq (r : RingS) (bnd : Rat × Rat × Rat × Rat) (kw : Kw) (ho : r.outer kw.k ≠ [])
    (hi : ringFull r = true → r.inner kw.k ≠ []) (hb : r.bounds = (ringSrc r bnd).bounds) :
    ringToGeoInterface rt r kw = toGeoInterface (.poly (ringSrc r bnd)) kw.k kw.bbox := by
  have hr := ringLinearRings_eq rt r bnd ⟨kw.k, false, []⟩ ho hi
  simp only [ringToGeoInterface, hr, toGeoInterface, ringsJ_eq, Geom.coordinates, Geom.typeName, Geom.bounds, hb]
  cases kw.bbox
  · simp [oupdate, oset]
  · cases (ringSrc r bnd).bounds <;> simp [oupdate, oset, bboxToJ]

/-- **`GeoLineString.to_geo_interface`** (its `bounds` pinned as the vertex list's bounding box) -/
theorem lineToGeoInterface_eq (l : LineS) (kw : Kw) :
    lineToGeoInterface rt l kw = toGeoInterface (.line l.vertices) kw.k kw.bbox := by
  simp only [lineToGeoInterface, lineGeoInterface, toGeoInterface, ringJ_eq, Geom.coordinates, Geom.typeName, Geom.bounds]
  cases kw.bbox
  · simp [oupdate, oset]
  · cases bboxPos l.vertices <;> simp [oupdate, oset, bboxToJ]

/-- **`GeoPoint.to_geo_interface`** -/
theorem pointToGeoInterface_eq (p : PointS) (kw : Kw) :
    pointToGeoInterface rt p kw = toGeoInterface (.point p.coordinate) kw.k kw.bbox := by
  simp only [pointToGeoInterface, pointGeoInterface, toGeoInterface, toFloat_eq, Geom.coordinates, Geom.typeName, Geom.bounds]
  cases kw.bbox <;> simp [oupdate, oset, bboxToJ, pointBounds]

/-- **`MultiGeoLineString.to_geo_interface`** (`MultiShapeBase.bounds` abstract, assumed to be what the model computes) -/
theorem mlineToGeoInterface_eq (m : MLineS) (kw : Kw)
    (hb : m.bounds = (Geom.mline (m.geoshapes.map (·.vertices))).bounds) :
    mlineToGeoInterface rt m kw = toGeoInterface (.mline (m.geoshapes.map (·.vertices))) kw.k kw.bbox := by
  have hc : J.arr ((m.geoshapes.map (fun shape => shape.vertices.map (fun v => Src.GeoJson.toFloat rt v))).map
      (fun a => J.arr (a.map (fun b => J.arr (b.map (fun x => J.num x)))))) =
      J.arr ((m.geoshapes.map (·.vertices)).map ringToJ) := by
    rw [← ringsJ_eq rt]; simp only [List.map_map, Function.comp_def]
  simp only [mlineToGeoInterface, mlineGeoInterface, toGeoInterface, hc, Geom.coordinates, Geom.typeName, hb]
  cases kw.bbox
  · simp [oupdate, oset]
  · cases (Geom.mline (m.geoshapes.map (·.vertices))).bounds <;> simp [oupdate, oset, bboxToJ]

/-- **`MultiGeoPoint.to_geo_interface`** (`point.centroid` is the point's coordinate) -/
theorem mpointToGeoInterface_eq (m : MPointS) (kw : Kw)
    (hb : m.bounds = (Geom.mpoint (m.geoshapes.map (·.coordinate))).bounds) :
    mpointToGeoInterface rt m kw = toGeoInterface (.mpoint (m.geoshapes.map (·.coordinate))) kw.k kw.bbox := by
  have hc : J.arr ((m.geoshapes.map (fun pt => Src.GeoJson.toFloat rt (pointCentroid rt pt))).map
      (fun b => J.arr (b.map (fun x => J.num x)))) = ringToJ (m.geoshapes.map (·.coordinate)) := by
    rw [← ringJ_eq rt]; simp only [List.map_map, Function.comp_def, pointCentroid]
  simp only [mpointToGeoInterface, mpointGeoInterface, toGeoInterface, hc, Geom.coordinates, Geom.typeName, hb]
  cases kw.bbox
  · simp [oupdate, oset]
  · cases (Geom.mpoint (m.geoshapes.map (·.coordinate))).bounds <;> simp [oupdate, oset, bboxToJ]

/-- the member loop of `MultiGeoPolygon.linear_rings`, when every member answers `linear_rings(**kwargs)` as the
    model's export source next to it does -/
theorem mpolyLinearRings_eq (m : MPolyS) (ps : List PolySrc) (kw : Kw)
    (hm : List.Forall₂ (fun (x : PolyM) p => x.linearRings kw = .ok (p.linearRings kw.k)) m.geoshapes ps) :
    mpolyLinearRings rt m kw = .ok (ps.map (fun p => p.linearRings kw.k)) := by
  simp only [mpolyLinearRings]
  generalize m.geoshapes = ms at hm
  induction hm with
  | nil => rfl
  | cons h _ ih => simp only [Py.mapE, h, ih, List.map_cons]

/-- **`MultiGeoPolygon.to_geo_interface`** -/
theorem mpolyToGeoInterface_eq (m : MPolyS) (ps : List PolySrc) (kw : Kw)
    (hm : List.Forall₂ (fun (x : PolyM) p => x.linearRings ⟨kw.k, false, []⟩ = .ok (p.linearRings kw.k)) m.geoshapes ps)
    (hb : m.bounds = (Geom.mpoly ps).bounds) :
    mpolyToGeoInterface rt m kw = toGeoInterface (.mpoly ps) kw.k kw.bbox := by
  have hr := mpolyLinearRings_eq rt m ps ⟨kw.k, false, []⟩ hm
  have hc : J.arr (((ps.map (fun p => p.linearRings kw.k)).map (fun shape => shape.map (fun ring =>
        ring.map (fun c => Src.GeoJson.toFloat rt c)))).map (fun a => J.arr (a.map (fun b => J.arr (b.map (fun c =>
        J.arr (c.map (fun x => J.num x)))))))) = J.arr (ps.map fun p => J.arr ((p.linearRings kw.k).map ringToJ)) := by
    simp only [List.map_map, Function.comp_def, toFloat_eq]
    rfl
  simp only [mpolyToGeoInterface, hr, toGeoInterface, hc, Geom.coordinates, Geom.typeName, hb]
  cases kw.bbox
  · simp [oupdate, oset]
  · cases (Geom.mpoly ps).bounds <;> simp [oupdate, oset, bboxToJ]

/-! ## the Feature: `properties`, the time fields, `to_geojson` -/

/-- `start` / `end`: `ValueError` without time bounds -/
theorem startDt_eq (s : ShapeS) :
    startDt rt s = match s.dt with | some t => .ok t.start | none => .error "ERR:Value" := by
  cases h : s.dt <;> simp [startDt, h]

theorem endDt_eq (s : ShapeS) :
    endDt rt s = match s.dt with | some t => .ok t.stop | none => .error "ERR:Value" := by
  cases h : s.dt <;> simp [endDt, h]

/-- **`properties`**: a copy of `_properties` plus `datetime_start` / `datetime_end` (as datetimes) when the shape is
    time-bounded; never raises -/
theorem properties_eq (s : ShapeS) (g : Geom) :
    Src.GeoJson.properties rt s = .ok (GeoJson.properties ⟨g, s.dt, s.props⟩) := by
  cases h : s.dt <;> simp [Src.GeoJson.properties, GeoJson.properties, startDt_eq, endDt_eq, h]

/-- **`_properties_json`** (`sanitize_json` pinned as the model's `sanitize`) -/
theorem propertiesJson_eq (s : ShapeS) (g : Geom) :
    propertiesJson rt s = .ok (sanKvs rt (GeoJson.properties ⟨g, s.dt, s.props⟩)) := by
  simp [propertiesJson, properties_eq rt s g]

/-- **`to_geojson`** of the source is the model's `toGeoJson`, whatever class the receiver has, as long as its
    `to_geo_interface` is what the model computes for the geometry (`…ToGeoInterface_eq` above): `k` and `include_bbox` are
    popped and handed on, the shape's sanitised properties are overridden by the caller's, what is left of `**kwargs`
    becomes further members -/
theorem toGeoJson_eq (s : Src) (o : Opts) (gi : Kw → Except String Obj)
    (hgi : gi ⟨o.k, o.bbox, []⟩ = toGeoInterface s.geom o.k o.bbox) :
    (Src.GeoJson.toGeoJson rt ⟨s.dt, s.props, gi⟩ o.props (kwOf o)).map J.obj = GeoJson.toGeoJson rt s o := by
  simp only [Src.GeoJson.toGeoJson, hgi, propertiesJson_eq rt _ s.geom, kwOf, GeoJson.toGeoJson]
  have hs : (⟨s.geom, s.dt, s.props⟩ : Src) = s := rfl
  cases toGeoInterface s.geom o.k o.bbox with
  | error e => rfl
  | ok g =>
    cases o.props with
    | none => simp [Kw.rest, oset, Except.map, hs]
    | some d => cases d <;> simp [Kw.rest, oset, Except.map, hs]

/-! ## the time fields on the way back (`get_dt_from_geojson_props`) -/

/-- the nested `_convert` applied to `rec.pop(field, None)` (an absent field arrives as `None`, JSON null): falsy values
    give `None`, a string goes through `datetime.fromisoformat`, anything else is a `TypeError` -/
theorem convert_eq (v : Option J) :
    Src.GeoJson.getDtFromGeojsonProps.convert rt (v.getD .null) = convertTs rt v := by
  cases v with
  | none => simp [Src.GeoJson.getDtFromGeojsonProps.convert, convertTs, J.truthy]
  | some j =>
    cases j <;> simp only [Src.GeoJson.getDtFromGeojsonProps.convert, convertTs, Option.getD_some] <;> split <;>
      first | rfl | simp_all [Except.map]

/-- **`get_dt_from_geojson_props`** of the source — its result *and* what it leaves of the dict it was handed — is the
    model's `getDt`: both fields are popped (the second from what the first pop left), no field gives `None`, one field
    the instant, two fields `TimeInterval(start, end)` (which raises `ValueError` when `end < start`) -/
theorem getDt_eq (rec : Obj) (ks ke : String) :
    getDtFromGeojsonProps rt rec ks ke = getDt rt rec ks ke := by
  simp only [getDtFromGeojsonProps, convert_eq, getDt, C06Src.init_eq]
  cases convertTs rt (oget rec ks) with
  | error e => rfl
  | ok a =>
    cases convertTs rt (oget (oerase rec ks) ke) with
    | error e => rfl
    | ok b =>
      cases a <;> cases b <;> simp
      cases TI.mk? _ _ <;> rfl

/-! ## the importers (`from_geojson`)

The translated importers hand `get_dt_from_geojson_props` a dict made by `dict(…)` inside the importer (the translator
refuses the call otherwise: the function pops from the dict it is given), so the caller's document is not touched — the
model's `copy = true`; what is proved here is that the imported shape is the model's. -/

/-- `dict(gjson.get('properties') or {})` followed by `get_dt_from_geojson_props`, as the model reads it -/
theorem propsAndDt_fst (d : Obj) (ks ke : String) (r : Option TI × Obj × Obj) (h : propsAndDt rt d ks ke = .ok r) :
    r.2.2 = d := propsAndDt_doc h

set_option hygiene false in
/-- the tail every importer shares: `dict(gjson.get('properties') or {})`, `get_dt_from_geojson_props`, the constructor -/
local macro "props_tail" d:term "," ks:term "," ke:term "," rt:term : tactic =>
  `(tactic| (
    cases hpr : oget $d "properties" with
    | none => simp [hpr, J.truthy]; cases getDt $rt ([] : Obj) $ks $ke <;> simp [Except.map]
    | some j =>
      cases j with
      | obj p => cases p <;> simp [J.truthy] <;> (generalize getDt $rt _ $ks $ke = r) <;> cases r <;> simp [Except.map]
      | null => simp [J.truthy]; cases getDt $rt ([] : Obj) $ks $ke <;> simp [Except.map]
      | bool b => cases b <;> simp [J.truthy, Except.map] <;> cases getDt $rt ([] : Obj) $ks $ke <;> simp [Except.map]
      | num q => by_cases hq : q = 0 <;> simp [J.truthy, Except.map, hq] <;> cases getDt $rt ([] : Obj) $ks $ke <;> simp [Except.map]
      | str s => by_cases hs : s = "" <;> simp [J.truthy, Except.map, hs] <;> cases getDt $rt ([] : Obj) $ks $ke <;> simp [Except.map]
      | dt u => simp [J.truthy, Except.map]
      | arr xs => cases xs <;> simp [J.truthy, Except.map] <;> cases getDt $rt ([] : Obj) $ks $ke <;> simp [Except.map]))

set_option hygiene false in
/-- the type test of an importer on the geometry dict `g`: `geom.get('type') == '<Name>'`; the continuation proves the goal
    for a document of the right type (`ht : oget g "type" = some (.str t)`, `hp : t = name`) -/
local macro "type_gate" g:term "," name:term "=>" k:tacticSeq : tactic =>
  `(tactic| (
    cases ht : oget $g "type" with
    | none => simp [ht, Except.map, bind, Except.bind]
    | some t =>
      cases t with
      | str t =>
        by_cases hp : t = $name
        · simp only [ht, hp, Option.getD_some, beq_self_eq_true, if_true]
          ($k)
        · simp [ht, hp, Except.map, bind, Except.bind]
      | _ => simp [ht, Except.map, bind, Except.bind]))

/-- **`GeoPoint.from_geojson`** returns the shape the model's importer returns (and raises what it raises) -/
theorem pointFromGeoJson_eq (d : Obj) (ks ke : String) :
    pointFromGeoJson rt d ks ke = (fromGeoJson rt .point (.obj d) ks ke).map (·.1) := by
  simp only [pointFromGeoJson, getDt_eq, fromGeoJson, selectGeom, Kind.name, checkType, geomEarly, geomLate, propsAndDt]
  cases hc : ohas d "coordinates" <;> simp only [Bool.false_eq_true, if_false, if_true]
  · cases hg : oget d "geometry" with
    | none => simp [oget, Except.map]
    | some g =>
      cases g with
      | obj g =>
        simp only [Option.getD_some]
        type_gate g, "Point" =>
          cases hco : oget g "coordinates" with
          | none => simp [ht, hp, hco, Except.map, bind, Except.bind]
          | some c =>
            cases hpos : posOfJ c with
            | error e => simp [ht, hp, hco, hpos, Except.map, bind, Except.bind]
            | ok pos =>
              simp [ht, hp, hco, hpos, bind, Except.bind, pure, Except.pure]
              props_tail d, ks, ke, rt
      | _ => simp [Except.map]
  · type_gate d, "Point" =>
      cases hco : oget d "coordinates" with
      | none => simp [ht, hp, hco, Except.map, bind, Except.bind]
      | some c =>
        cases hpos : posOfJ c with
        | error e => simp [ht, hp, hco, hpos, Except.map, bind, Except.bind]
        | ok pos =>
          simp [ht, hp, hco, hpos, bind, Except.bind, pure, Except.pure]
          props_tail d, ks, ke, rt

/-! ### importers that iterate over `coordinates`

Iterating a JSON value that is not a list (a string gives characters, a dict keys) is outside what the model's readers
describe exactly (`listOfJ`, `ringOfJ` answer `ValueError` for every string / dict, Python does so only when the position
reader then fails): the equalities are stated for documents whose `coordinates` member, where present, is a list (of
lists …) down to the positions — any GeoJSON document, well typed or not below that. -/

/-- the geometry dict the importers read: the document itself if it has `coordinates`, else its `geometry` member -/
def geomOf (d : Obj) : Obj :=
  if ohas d "coordinates" then d else match oget d "geometry" with | some (.obj g) => g | _ => []

def isArr : J → Bool
  | .arr _ => true
  | _ => false

/-- absent, or a list -/
def arr1 (j : Option J) : Bool :=
  match j with
  | none => true
  | some c => isArr c

/-- absent, or a list of lists -/
def arr2 (j : Option J) : Bool :=
  match j with
  | none => true
  | some (.arr xs) => xs.all isArr
  | some _ => false

theorem pyMapE_eq_of {α β : Type} (f g : α → Except String β) (h : ∀ x, f x = g x) (l : List α) :
    Py.mapE f l = GeoJson.mapE g l := by
  induction l with
  | nil => rfl
  | cons x xs ih =>
    simp only [Py.mapE, GeoJson.mapE, h x, ih]
    cases g x with
    | error e => rfl
    | ok y => cases GeoJson.mapE g xs <;> rfl

set_option hygiene false in
/-- a one-level `coordinates` list read by `[Coordinate(…) for x in geom.get('coordinates', [])]` -/
local macro "coords1" g:term "," d:term "," ks:term "," ke:term "," rt:term : tactic =>
  `(tactic| (
    cases hco : oget $g "coordinates" with
    | none =>
      simp [ht, hp, hco, jIter, Py.mapE, listOfJ, bind, Except.bind, pure, Except.pure]
      props_tail $d, $ks, $ke, $rt
    | some c =>
      cases c <;> simp [hco, arr1, isArr] at harr'
      rename_i xs
      simp only [jIter, Option.getD_some]
      rw [pyMapE_eq_of _ posOfJ (fun x => by cases posOfJ x <;> rfl)]
      cases hm : GeoJson.mapE posOfJ xs with
      | error e => simp [ht, hp, hco, hm, listOfJ, Except.map, bind, Except.bind]
      | ok vs =>
        simp [ht, hp, hco, hm, listOfJ, bind, Except.bind, pure, Except.pure]
        props_tail $d, $ks, $ke, $rt))

/-- **`GeoLineString.from_geojson`** -/
theorem lineFromGeoJson_eq (d : Obj) (ks ke : String) (harr : arr1 (oget (geomOf d) "coordinates") = true) :
    lineFromGeoJson rt d ks ke = (fromGeoJson rt .line (.obj d) ks ke).map (·.1) := by
  simp only [lineFromGeoJson, getDt_eq, fromGeoJson, selectGeom, Kind.name, checkType, geomEarly, geomLate, propsAndDt]
  cases hc : ohas d "coordinates" <;> simp only [Bool.false_eq_true, if_false, if_true]
  · cases hg : oget d "geometry" with
    | none => simp [oget, Except.map]
    | some g =>
      cases g with
      | obj g =>
        simp only [Option.getD_some]
        have harr' : arr1 (oget g "coordinates") = true := by simpa [geomOf, hc, hg] using harr
        type_gate g, "LineString" => coords1 g, d, ks, ke, rt
      | _ => simp [Except.map]
  · have harr' : arr1 (oget d "coordinates") = true := by simpa [geomOf, hc] using harr
    type_gate d, "LineString" => coords1 d, d, ks, ke, rt

theorem pyMapE_map {α β γ : Type} (f : α → Except String γ) (g : α → Except String β) (w : β → γ) (l : List α)
    (h : ∀ x ∈ l, f x = (g x).map w) : Py.mapE f l = (GeoJson.mapE g l).map (List.map w) := by
  induction l with
  | nil => rfl
  | cons x xs ih =>
    have hx := h x (by simp)
    have ih' := ih (fun y hy => h y (by simp [hy]))
    simp only [Py.mapE, GeoJson.mapE, hx, ih']
    cases g x with
    | error e => rfl
    | ok y => cases GeoJson.mapE g xs <;> rfl

set_option hygiene false in
/-- `[GeoPoint(Coordinate(…)) for coord in geom.get('coordinates', [])]` -/
local macro "coords_mpoint" g:term "," d:term "," ks:term "," ke:term "," rt:term : tactic =>
  `(tactic| (
    cases hco : oget $g "coordinates" with
    | none =>
      simp [ht, hp, hco, jIter, Py.mapE, listOfJ, bind, Except.bind, pure, Except.pure]
      props_tail $d, $ks, $ke, $rt
    | some c =>
      cases c <;> simp [hco, arr1, isArr] at harr'
      rename_i xs
      simp only [jIter, Option.getD_some]
      rw [pyMapE_map _ posOfJ PointS.mk xs (fun x _ => by cases posOfJ x <;> rfl)]
      cases hm : GeoJson.mapE posOfJ xs with
      | error e => simp [ht, hp, hco, hm, listOfJ, Except.map, bind, Except.bind]
      | ok vs =>
        simp [ht, hp, hco, hm, listOfJ, Except.map, bind, Except.bind, pure, Except.pure, List.map_map, Function.comp_def]
        props_tail $d, $ks, $ke, $rt))

/-- **`MultiGeoPoint.from_geojson`** -/
theorem mpointFromGeoJson_eq (d : Obj) (ks ke : String) (harr : arr1 (oget (geomOf d) "coordinates") = true) :
    mpointFromGeoJson rt d ks ke = (fromGeoJson rt .mpoint (.obj d) ks ke).map (·.1) := by
  simp only [mpointFromGeoJson, getDt_eq, fromGeoJson, selectGeom, Kind.name, checkType, geomEarly, geomLate, propsAndDt]
  cases hc : ohas d "coordinates" <;> simp only [Bool.false_eq_true, if_false, if_true]
  · cases hg : oget d "geometry" with
    | none => simp [oget, Except.map]
    | some g =>
      cases g with
      | obj g =>
        simp only [Option.getD_some]
        have harr' : arr1 (oget g "coordinates") = true := by simpa [geomOf, hc, hg] using harr
        type_gate g, "MultiPoint" => coords_mpoint g, d, ks, ke, rt
      | _ => simp [Except.map]
  · have harr' : arr1 (oget d "coordinates") = true := by simpa [geomOf, hc] using harr
    type_gate d, "MultiPoint" => coords_mpoint d, d, ks, ke, rt

set_option hygiene false in
/-- `[GeoLineString([Coordinate(…) for x in line]) for line in geom.get('coordinates', [])]` -/
local macro "coords_mline" g:term "," d:term "," ks:term "," ke:term "," rt:term : tactic =>
  `(tactic| (
    cases hco : oget $g "coordinates" with
    | none =>
      simp [ht, hp, hco, jIter, Py.mapE, listOfJ, bind, Except.bind, pure, Except.pure]
      props_tail $d, $ks, $ke, $rt
    | some c =>
      cases c <;> simp [hco, arr2] at harr'
      rename_i xs
      simp only [jIter, Option.getD_some]
      rw [pyMapE_map _ ringOfJ LineS.mk xs (fun x hx => by
        have := harr' x hx
        cases x <;> simp [isArr] at this
        simp only [jIter, ringOfJ]
        rw [pyMapE_eq_of _ posOfJ (fun x => by cases posOfJ x <;> rfl)]
        rename_i ps
        cases GeoJson.mapE posOfJ ps <;> rfl)]
      cases hm : GeoJson.mapE ringOfJ xs with
      | error e => simp [ht, hp, hco, hm, listOfJ, Except.map, bind, Except.bind]
      | ok vs =>
        simp [ht, hp, hco, hm, listOfJ, Except.map, bind, Except.bind, pure, Except.pure, List.map_map, Function.comp_def]
        props_tail $d, $ks, $ke, $rt))

/-- **`MultiGeoLineString.from_geojson`** -/
theorem mlineFromGeoJson_eq (d : Obj) (ks ke : String) (harr : arr2 (oget (geomOf d) "coordinates") = true) :
    mlineFromGeoJson rt d ks ke = (fromGeoJson rt .mline (.obj d) ks ke).map (·.1) := by
  simp only [mlineFromGeoJson, getDt_eq, fromGeoJson, selectGeom, Kind.name, checkType, geomEarly, geomLate, propsAndDt]
  cases hc : ohas d "coordinates" <;> simp only [Bool.false_eq_true, if_false, if_true]
  · cases hg : oget d "geometry" with
    | none => simp [oget, Except.map]
    | some g =>
      cases g with
      | obj g =>
        simp only [Option.getD_some]
        have harr' : arr2 (oget g "coordinates") = true := by simpa [geomOf, hc, hg] using harr
        type_gate g, "MultiLineString" => coords_mline g, d, ks, ke, rt
      | _ => simp [Except.map]
  · have harr' : arr2 (oget d "coordinates") = true := by simpa [geomOf, hc] using harr
    type_gate d, "MultiLineString" => coords_mline d, d, ks, ke, rt

/-! ### the polygon importers: a loop that appends to `rings` / `shapes` -/

/-- the ring loop of `GeoPolygon.from_geojson` reads the rings left to right (the model's `mapE ringOfJ`) and then runs
    the rest of the function on the collected rings -/
theorem polygonLoop1_spec (d : Obj) (ks ke : String) (g : Obj) :
    ∀ (xs : List J) (acc : List (List Pos)), (∀ x ∈ xs, isArr x = true) →
      polygonFromGeoJson.loop1 rt d ks ke g xs acc =
        match GeoJson.mapE ringOfJ xs with
        | .error e => .error e
        | .ok rs => polygonFromGeoJson.loop1 rt d ks ke g [] (acc ++ rs) := by
  intro xs
  induction xs with
  | nil => intro acc _; simp [GeoJson.mapE]
  | cons x xs ih =>
    intro acc h
    have hx := h x (by simp)
    cases x <;> simp [isArr] at hx
    rename_i ps
    rw [polygonFromGeoJson.loop1]
    simp only [jIter]
    rw [pyMapE_eq_of _ posOfJ (fun x => by cases posOfJ x <;> rfl)]
    simp only [GeoJson.mapE, ringOfJ, bind, Except.bind, pure, Except.pure]
    cases GeoJson.mapE posOfJ ps with
    | error e => rfl
    | ok r =>
      simp only []
      rw [ih _ (fun y hy => h y (by simp [hy]))]
      cases GeoJson.mapE ringOfJ xs with
      | error e => rfl
      | ok rs => simp [List.append_assoc]

/-- what the model's `GeoPolygon` importer does once the rings are read: the holes through the constructor, the
    properties and time fields, then the constructor on the shell -/
def polygonRest (d : Obj) (ks ke : String) (rings : List (List Pos)) : Except String Shape := do
  let holes ← GeoJson.mapE (fun r => mkOutlineP r) rings.tail
  let x ← propsAndDt rt d ks ke
  let o ← mkOutlineP (rings.headD [])
  pure ⟨.polygon ⟨o, holes⟩, x.1, x.2.1⟩

theorem polygonTail1 (d : Obj) (ks ke : String) (g : Obj) (rings : List (List Pos)) :
    polygonFromGeoJson.loop1 rt d ks ke g [] rings = polygonRest rt d ks ke rings := by
  rw [polygonFromGeoJson.loop1]
  simp only [getDt_eq, polygonInitDefault_eq, polygonRest, propsAndDt, bind, Except.bind, pure, Except.pure]
  rw [pyMapE_eq_of _ (fun r => mkOutlineP r) (fun x => by first | rfl | (cases mkOutlineP x <;> rfl))]
  match rings with
  | [] =>
    simp [GeoJson.mapE, Py.getIdx, mkOutlineP]
    props_tail d, ks, ke, rt
  | [a] =>
    simp only [List.length_singleton, List.tail_cons, List.headD_cons, GeoJson.mapE, Py.getIdx]
    cases ho : mkOutlineP a <;> simp <;> props_tail d, ks, ke, rt
  | a :: b :: t =>
    simp only [List.tail_cons, List.headD_cons, List.drop_succ_cons, List.drop_zero, Py.getIdx]
    have hl : decide ((((a :: b :: t).length : Nat) : Int) > (1 : Int)) = true := by simp <;> omega
    simp only [hl, if_true]
    cases hh : GeoJson.mapE (fun r => mkOutlineP r) (b :: t) with
    | error e => simp
    | ok hs =>
      cases ho : mkOutlineP a <;> simp <;> props_tail d, ks, ke, rt

/-- (the same loop in the branch where `geom` is the `geometry` member) it reads the rings left to right (the model's `mapE ringOfJ`) and then runs
    the rest of the function on the collected rings -/
theorem polygonLoop2_spec (d : Obj) (ks ke : String) (g : J) :
    ∀ (xs : List J) (acc : List (List Pos)), (∀ x ∈ xs, isArr x = true) →
      polygonFromGeoJson.loop2 rt d ks ke g xs acc =
        match GeoJson.mapE ringOfJ xs with
        | .error e => .error e
        | .ok rs => polygonFromGeoJson.loop2 rt d ks ke g [] (acc ++ rs) := by
  intro xs
  induction xs with
  | nil => intro acc _; simp [GeoJson.mapE]
  | cons x xs ih =>
    intro acc h
    have hx := h x (by simp)
    cases x <;> simp [isArr] at hx
    rename_i ps
    rw [polygonFromGeoJson.loop2]
    simp only [jIter]
    rw [pyMapE_eq_of _ posOfJ (fun x => by cases posOfJ x <;> rfl)]
    simp only [GeoJson.mapE, ringOfJ, bind, Except.bind, pure, Except.pure]
    cases GeoJson.mapE posOfJ ps with
    | error e => rfl
    | ok r =>
      simp only []
      rw [ih _ (fun y hy => h y (by simp [hy]))]
      cases GeoJson.mapE ringOfJ xs with
      | error e => rfl
      | ok rs => simp [List.append_assoc]

theorem polygonTail2 (d : Obj) (ks ke : String) (g : J) (rings : List (List Pos)) :
    polygonFromGeoJson.loop2 rt d ks ke g [] rings = polygonRest rt d ks ke rings := by
  rw [polygonFromGeoJson.loop2]
  simp only [getDt_eq, polygonInitDefault_eq, polygonRest, propsAndDt, bind, Except.bind, pure, Except.pure]
  rw [pyMapE_eq_of _ (fun r => mkOutlineP r) (fun x => by first | rfl | (cases mkOutlineP x <;> rfl))]
  match rings with
  | [] =>
    simp [GeoJson.mapE, Py.getIdx, mkOutlineP]
    props_tail d, ks, ke, rt
  | [a] =>
    simp only [List.length_singleton, List.tail_cons, List.headD_cons, GeoJson.mapE, Py.getIdx]
    cases ho : mkOutlineP a <;> simp <;> props_tail d, ks, ke, rt
  | a :: b :: t =>
    simp only [List.tail_cons, List.headD_cons, List.drop_succ_cons, List.drop_zero, Py.getIdx]
    have hl : decide ((((a :: b :: t).length : Nat) : Int) > (1 : Int)) = true := by simp <;> omega
    simp only [hl, if_true]
    cases hh : GeoJson.mapE (fun r => mkOutlineP r) (b :: t) with
    | error e => simp
    | ok hs =>
      cases ho : mkOutlineP a <;> simp <;> props_tail d, ks, ke, rt

/-- absent, or a list of lists (the rings of a polygon) -/
theorem arr2_some {c : J} (h : arr2 (some c) = true) : ∃ xs, c = .arr xs ∧ ∀ x ∈ xs, isArr x = true := by
  cases c <;> simp [arr2] at h
  exact ⟨_, rfl, h⟩

set_option hygiene false in
/-- the model's polygon importer once the geometry dict is known to be `g` with `coordinates` a list of lists `xs` -/
local macro "polygon_model" : tactic =>
  `(tactic| (
    simp only [polygonRest, geomLate, Except.map, bind, Except.bind, pure, Except.pure]
    cases GeoJson.mapE (fun r => mkOutlineP r) _ <;> simp only [] <;>
      cases propsAndDt rt d ks ke <;> simp only [] <;>
        cases mkOutlineP _ <;> rfl))

/-- **`GeoPolygon.from_geojson`**: the ring loop, the holes through `GeoPolygon(ring)`, the time fields popped from a copy
    of the properties, the shell through the constructor -/
theorem polygonFromGeoJson_eq (d : Obj) (ks ke : String) (harr : arr2 (oget (geomOf d) "coordinates") = true) :
    polygonFromGeoJson rt d ks ke = (fromGeoJson rt .polygon (.obj d) ks ke).map (·.1) := by
  simp only [polygonFromGeoJson, fromGeoJson, selectGeom, Kind.name, checkType, geomEarly]
  cases hc : ohas d "coordinates" <;> simp only [Bool.false_eq_true, if_false, if_true]
  · cases hg : oget d "geometry" with
    | none => simp [oget, Except.map]
    | some g =>
      cases g with
      | obj g =>
        simp only [Option.getD_some]
        have harr' : arr2 (oget g "coordinates") = true := by simpa [geomOf, hc, hg] using harr
        type_gate g, "Polygon" =>
          cases hco : oget g "coordinates" with
          | none =>
            simp only [Option.getD_none, jIter, polygonTail2, ht, hp, hco, listOfJ, bind, Except.bind, pure,
              Except.pure, if_true]
            polygon_model
          | some c =>
            obtain ⟨xs, rfl, hxs⟩ := arr2_some (hco ▸ harr')
            simp only [Option.getD_some, jIter, polygonLoop2_spec rt d ks ke _ xs [] hxs, ht, hp, hco, listOfJ, bind,
              Except.bind, pure, Except.pure, if_true, List.nil_append]
            cases GeoJson.mapE ringOfJ xs with
            | error e => simp [Except.map]
            | ok rs =>
              simp only [polygonTail2]
              polygon_model
      | _ => simp [Except.map]
  · have harr' : arr2 (oget d "coordinates") = true := by simpa [geomOf, hc] using harr
    type_gate d, "Polygon" =>
      cases hco : oget d "coordinates" with
      | none =>
        simp only [Option.getD_none, jIter, polygonTail1, ht, hp, hco, listOfJ, bind, Except.bind, pure,
          Except.pure, if_true]
        polygon_model
      | some c =>
        obtain ⟨xs, rfl, hxs⟩ := arr2_some (hco ▸ harr')
        simp only [Option.getD_some, jIter, polygonLoop1_spec rt d ks ke _ xs [] hxs, ht, hp, hco, listOfJ, bind,
          Except.bind, pure, Except.pure, if_true, List.nil_append]
        cases GeoJson.mapE ringOfJ xs with
        | error e => simp [Except.map]
        | ok rs =>
          simp only [polygonTail1]
          polygon_model

theorem pyMapE_eq_mem {α β : Type} (f g : α → Except String β) (l : List α) (h : ∀ x ∈ l, f x = g x) :
    Py.mapE f l = GeoJson.mapE g l := by
  have := pyMapE_map f g id l (fun x hx => by rw [h x hx]; cases g x <;> rfl)
  rw [this]
  cases GeoJson.mapE g l <;> simp [Except.map]

/-- a list of lists -/
def isArr2 : J → Bool
  | .arr xs => xs.all isArr
  | _ => false

/-- absent, or a list of lists of lists (the polygons of a multi-polygon) -/
def arr3 (j : Option J) : Bool :=
  match j with
  | none => true
  | some (.arr xs) => xs.all isArr2
  | some _ => false

theorem arr3_some {c : J} (h : arr3 (some c) = true) : ∃ xs, c = .arr xs ∧ ∀ x ∈ xs, isArr2 x = true := by
  cases c <;> simp [arr3] at h
  exact ⟨_, rfl, h⟩

/-- the member loop of `MultiGeoPolygon.from_geojson`: every polygon is read as the model's `mpolyMember` (rings, shell,
    holes reversed before they go through the constructor), then the rest of the function runs on the collected shapes -/
theorem mpolyLoop1_spec (d : Obj) (ks ke : String) (g : Obj) :
    ∀ (xs : List J) (acc : List Poly), (∀ x ∈ xs, isArr2 x = true) →
      mpolyFromGeoJson.loop1 rt d ks ke g xs acc =
        match GeoJson.mapE mpolyMember xs with
        | .error e => .error e
        | .ok ps => mpolyFromGeoJson.loop1 rt d ks ke g [] (acc ++ ps) := by
  intro xs
  induction xs with
  | nil => intro acc _; simp [GeoJson.mapE]
  | cons x xs ih =>
    intro acc h
    have hx := h x (by simp)
    cases x <;> simp [isArr2] at hx
    rename_i rs
    rw [mpolyFromGeoJson.loop1]
    simp only [jIter, polygonInitDefault_eq]
    rw [pyMapE_eq_mem _ ringOfJ rs (fun r hr => by
      have := hx r hr
      cases r <;> simp [isArr] at this
      simp only [jIter, ringOfJ]
      rw [pyMapE_eq_of _ posOfJ (fun x => by cases posOfJ x <;> rfl)]
      rename_i ps
      cases GeoJson.mapE posOfJ ps <;> rfl)]
    simp only [GeoJson.mapE, mpolyMember, ringsOfJ, bind, Except.bind, pure, Except.pure]
    cases GeoJson.mapE ringOfJ rs with
    | error e => rfl
    | ok rings =>
      simp only []
      match rings with
      | [] => simp [Py.getIdx]
      | [a] =>
        simp only [Py.getIdx, List.length_singleton, GeoJson.mapE]
        cases mkOutlineP a with
        | error e => simp
        | ok o =>
          simp
          rw [ih _ (fun y hy => h y (by simp [hy]))]
          cases GeoJson.mapE mpolyMember xs with
          | error e => rfl
          | ok ps => simp [List.append_assoc]
      | a :: b :: t =>
        have hl : decide ((((a :: b :: t).length : Nat) : Int) > (1 : Int)) = true := by simp <;> omega
        simp only [Py.getIdx, hl, if_true, List.drop_succ_cons, List.drop_zero]
        rw [pyMapE_eq_of _ (fun r => mkOutlineP r.reverse) (fun x => by first | rfl | (cases mkOutlineP x.reverse <;> rfl))]
        cases GeoJson.mapE (fun r => mkOutlineP r.reverse) (b :: t) with
        | error e => simp
        | ok hs =>
          cases mkOutlineP a with
          | error e => simp
          | ok o =>
            simp
            rw [ih _ (fun y hy => h y (by simp [hy]))]
            cases GeoJson.mapE mpolyMember xs with
            | error e => rfl
            | ok ps => simp [List.append_assoc]

/-- (the same loop in the branch where `geom` is the `geometry` member) every polygon is read as the model's `mpolyMember` (rings, shell,
    holes reversed before they go through the constructor), then the rest of the function runs on the collected shapes -/
theorem mpolyLoop2_spec (d : Obj) (ks ke : String) (g : J) :
    ∀ (xs : List J) (acc : List Poly), (∀ x ∈ xs, isArr2 x = true) →
      mpolyFromGeoJson.loop2 rt d ks ke g xs acc =
        match GeoJson.mapE mpolyMember xs with
        | .error e => .error e
        | .ok ps => mpolyFromGeoJson.loop2 rt d ks ke g [] (acc ++ ps) := by
  intro xs
  induction xs with
  | nil => intro acc _; simp [GeoJson.mapE]
  | cons x xs ih =>
    intro acc h
    have hx := h x (by simp)
    cases x <;> simp [isArr2] at hx
    rename_i rs
    rw [mpolyFromGeoJson.loop2]
    simp only [jIter, polygonInitDefault_eq]
    rw [pyMapE_eq_mem _ ringOfJ rs (fun r hr => by
      have := hx r hr
      cases r <;> simp [isArr] at this
      simp only [jIter, ringOfJ]
      rw [pyMapE_eq_of _ posOfJ (fun x => by cases posOfJ x <;> rfl)]
      rename_i ps
      cases GeoJson.mapE posOfJ ps <;> rfl)]
    simp only [GeoJson.mapE, mpolyMember, ringsOfJ, bind, Except.bind, pure, Except.pure]
    cases GeoJson.mapE ringOfJ rs with
    | error e => rfl
    | ok rings =>
      simp only []
      match rings with
      | [] => simp [Py.getIdx]
      | [a] =>
        simp only [Py.getIdx, List.length_singleton, GeoJson.mapE]
        cases mkOutlineP a with
        | error e => simp
        | ok o =>
          simp
          rw [ih _ (fun y hy => h y (by simp [hy]))]
          cases GeoJson.mapE mpolyMember xs with
          | error e => rfl
          | ok ps => simp [List.append_assoc]
      | a :: b :: t =>
        have hl : decide ((((a :: b :: t).length : Nat) : Int) > (1 : Int)) = true := by simp <;> omega
        simp only [Py.getIdx, hl, if_true, List.drop_succ_cons, List.drop_zero]
        rw [pyMapE_eq_of _ (fun r => mkOutlineP r.reverse) (fun x => by first | rfl | (cases mkOutlineP x.reverse <;> rfl))]
        cases GeoJson.mapE (fun r => mkOutlineP r.reverse) (b :: t) with
        | error e => simp
        | ok hs =>
          cases mkOutlineP a with
          | error e => simp
          | ok o =>
            simp
            rw [ih _ (fun y hy => h y (by simp [hy]))]
            cases GeoJson.mapE mpolyMember xs with
            | error e => rfl
            | ok ps => simp [List.append_assoc]

/-- what the model's `MultiGeoPolygon` importer does once the members are read -/
def mpolyRest (d : Obj) (ks ke : String) (shapes : List Poly) : Except String Shape := do
  let x ← propsAndDt rt d ks ke
  pure ⟨.mpoly shapes, x.1, x.2.1⟩

theorem mpolyTail1 (d : Obj) (ks ke : String) (g : Obj) (shapes : List Poly) :
    mpolyFromGeoJson.loop1 rt d ks ke g [] shapes = mpolyRest rt d ks ke shapes := by
  rw [mpolyFromGeoJson.loop1]
  simp only [getDt_eq, mpolyRest, propsAndDt, bind, Except.bind, pure, Except.pure]
  props_tail d, ks, ke, rt

theorem mpolyTail2 (d : Obj) (ks ke : String) (g : J) (shapes : List Poly) :
    mpolyFromGeoJson.loop2 rt d ks ke g [] shapes = mpolyRest rt d ks ke shapes := by
  rw [mpolyFromGeoJson.loop2]
  simp only [getDt_eq, mpolyRest, propsAndDt, bind, Except.bind, pure, Except.pure]
  props_tail d, ks, ke, rt

set_option hygiene false in
local macro "mpoly_model" : tactic =>
  `(tactic| (
    simp only [mpolyRest, geomLate, Except.map, bind, Except.bind, pure, Except.pure]
    cases propsAndDt rt d ks ke <;> rfl))

/-- **`MultiGeoPolygon.from_geojson`** -/
theorem mpolyFromGeoJson_eq (d : Obj) (ks ke : String) (harr : arr3 (oget (geomOf d) "coordinates") = true) :
    mpolyFromGeoJson rt d ks ke = (fromGeoJson rt .mpoly (.obj d) ks ke).map (·.1) := by
  simp only [mpolyFromGeoJson, fromGeoJson, selectGeom, Kind.name, checkType, geomEarly]
  cases hc : ohas d "coordinates" <;> simp only [Bool.false_eq_true, if_false, if_true]
  · cases hg : oget d "geometry" with
    | none => simp [oget, Except.map]
    | some g =>
      cases g with
      | obj g =>
        simp only [Option.getD_some]
        have harr' : arr3 (oget g "coordinates") = true := by simpa [geomOf, hc, hg] using harr
        type_gate g, "MultiPolygon" =>
          cases hco : oget g "coordinates" with
          | none =>
            simp only [Option.getD_none, jIter, mpolyTail2, ht, hp, hco, listOfJ, bind, Except.bind, pure,
              Except.pure, if_true]
            mpoly_model
          | some c =>
            obtain ⟨xs, rfl, hxs⟩ := arr3_some (hco ▸ harr')
            simp only [Option.getD_some, jIter, mpolyLoop2_spec rt d ks ke _ xs [] hxs, ht, hp, hco, listOfJ, bind,
              Except.bind, pure, Except.pure, if_true, List.nil_append]
            cases GeoJson.mapE mpolyMember xs with
            | error e => simp [Except.map]
            | ok rs =>
              simp only [mpolyTail2]
              mpoly_model
      | _ => simp [Except.map]
  · have harr' : arr3 (oget d "coordinates") = true := by simpa [geomOf, hc] using harr
    type_gate d, "MultiPolygon" =>
      cases hco : oget d "coordinates" with
      | none =>
        simp only [Option.getD_none, jIter, mpolyTail1, ht, hp, hco, listOfJ, bind, Except.bind, pure,
          Except.pure, if_true]
        mpoly_model
      | some c =>
        obtain ⟨xs, rfl, hxs⟩ := arr3_some (hco ▸ harr')
        simp only [Option.getD_some, jIter, mpolyLoop1_spec rt d ks ke _ xs [] hxs, ht, hp, hco, listOfJ, bind,
          Except.bind, pure, Except.pure, if_true, List.nil_append]
        cases GeoJson.mapE mpolyMember xs with
        | error e => simp [Except.map]
        | ok rs =>
          simp only [mpolyTail1]
          mpoly_model

/-! ## the export chain as the source dispatches it

`to_geojson` calls `self.to_geo_interface`, a multi-polygon calls `poly.linear_rings` on its members: Python picks the
method by the object's class.  `Recv` is "an object of one of the exporting classes"; its methods are the *translated*
ones of its class. -/

/-- the value of an abstract `bounds` that did not raise -/
def bndOf (e : Except String (Rat × Rat × Rat × Rat)) : Rat × Rat × Rat × Rat :=
  match e with
  | .ok b => b
  | .error _ => (0, 0, 0, 0)

/-- a polygon-like object -/
inductive PolyRecv where
  | polygon (p : PolygonS)
  | box (b : BoxS)
  | curved (c : CurvedS)
  | ring (r : RingS)

/-- `x.linear_rings(**kwargs)`, dispatched on the class -/
def PolyRecv.linearRings : PolyRecv → Kw → Except String (List (List Pos))
  | .polygon p, kw => polygonLinearRings rt p kw
  | .box b, kw => boxLinearRings rt b kw
  | .curved c, kw => curvedLinearRings rt c kw
  | .ring r, kw => ringLinearRings rt r kw

/-- `x.to_geo_interface(**kwargs)`, dispatched on the class -/
def PolyRecv.geoInterface : PolyRecv → Kw → Except String Obj
  | .polygon p, kw => polygonToGeoInterface rt p kw
  | .box b, kw => boxToGeoInterface rt b kw
  | .curved c, kw => curvedToGeoInterface rt c kw
  | .ring r, kw => ringToGeoInterface rt r kw

/-- the model's export source of the object -/
def PolyRecv.toSrc : PolyRecv → PolySrc
  | .polygon p => polygonSrc p
  | .box b => boxSrc b
  | .curved c => curvedSrc c (bndOf c.bounds)
  | .ring r => ringSrc r (bndOf r.bounds)

/-- what the equalities assume of the object drawn with `k`: box corners in the constructor's range (C08), a curved
    shape's `bounds` does not raise (C09), a ring's arcs have a vertex (C03) and its `bounds` is what the model computes -/
def PolyRecv.OK (k : Option Nat) : PolyRecv → Prop
  | .polygon _ => True
  | .box b => PosOK b.nw ∧ PosOK b.se
  | .curved c => ∃ bnd, c.bounds = .ok bnd
  | .ring r => r.outer k ≠ [] ∧ (ringFull r = true → r.inner k ≠ []) ∧ r.bounds = (ringSrc r (bndOf r.bounds)).bounds

theorem PolyRecv.linearRings_eq (x : PolyRecv) (kw : Kw) (h : x.OK kw.k) :
    x.linearRings rt kw = .ok (x.toSrc.linearRings kw.k) := by
  cases x with
  | polygon p => exact polygonLinearRings_eq rt p kw
  | box b => exact boxLinearRings_eq rt b kw h.1 h.2
  | curved c => exact curvedLinearRings_eq rt c _ kw
  | ring r => exact ringLinearRings_eq rt r _ kw h.1 h.2.1

theorem PolyRecv.geoInterface_eq (x : PolyRecv) (kw : Kw) (h : x.OK kw.k) :
    x.geoInterface rt kw = toGeoInterface (.poly x.toSrc) kw.k kw.bbox := by
  cases x with
  | polygon p => exact polygonToGeoInterface_eq rt p kw
  | box b => exact boxToGeoInterface_eq rt b kw h.1 h.2
  | curved c =>
    obtain ⟨bnd, hb⟩ := h
    have : bndOf c.bounds = bnd := by rw [hb]; rfl
    simp only [PolyRecv.geoInterface, PolyRecv.toSrc, this]
    exact curvedToGeoInterface_eq rt c bnd kw hb
  | ring r => exact ringToGeoInterface_eq rt r _ kw h.1 h.2.1 h.2.2

/-- an object of one of the exporting classes -/
inductive Recv where
  | poly (x : PolyRecv)
  | line (l : LineS)
  | point (p : PointS)
  | mpoly (xs : List PolyRecv) (bounds : Except String (Rat × Rat × Rat × Rat))
  | mline (m : MLineS)
  | mpoint (m : MPointS)

/-- the `MultiGeoPolygon` record: every member answers `linear_rings` with the translated method of its class -/
def mpolyS (xs : List PolyRecv) (bounds : Except String (Rat × Rat × Rat × Rat)) : MPolyS :=
  ⟨xs.map (fun x => ⟨x.linearRings rt⟩), bounds⟩

/-- `self.to_geo_interface(**kwargs)`, dispatched on the class -/
def Recv.geoInterface : Recv → Kw → Except String Obj
  | .poly x, kw => x.geoInterface rt kw
  | .line l, kw => lineToGeoInterface rt l kw
  | .point p, kw => pointToGeoInterface rt p kw
  | .mpoly xs b, kw => mpolyToGeoInterface rt (mpolyS rt xs b) kw
  | .mline m, kw => mlineToGeoInterface rt m kw
  | .mpoint m, kw => mpointToGeoInterface rt m kw

/-- the model's geometry of the object -/
def Recv.toGeom : Recv → Geom
  | .poly x => .poly x.toSrc
  | .line l => .line l.vertices
  | .point p => .point p.coordinate
  | .mpoly xs _ => .mpoly (xs.map PolyRecv.toSrc)
  | .mline m => .mline (m.geoshapes.map (·.vertices))
  | .mpoint m => .mpoint (m.geoshapes.map (·.coordinate))

/-- the assumptions on the members, and `MultiShapeBase.bounds` (abstract here) is what the model computes -/
def Recv.OK (k : Option Nat) : Recv → Prop
  | .poly x => x.OK k
  | .line _ => True
  | .point _ => True
  | .mpoly xs b => (∀ x ∈ xs, x.OK k) ∧ b = (Geom.mpoly (xs.map PolyRecv.toSrc)).bounds
  | .mline m => m.bounds = (Geom.mline (m.geoshapes.map (·.vertices))).bounds
  | .mpoint m => m.bounds = (Geom.mpoint (m.geoshapes.map (·.coordinate))).bounds

/-- **the geometry member** the source computes for an object of any exporting class is the model's `toGeoInterface` -/
theorem Recv.geoInterface_eq (r : Recv) (kw : Kw) (h : r.OK kw.k) :
    r.geoInterface rt kw = toGeoInterface r.toGeom kw.k kw.bbox := by
  cases r with
  | poly x => exact x.geoInterface_eq rt kw h
  | line l => exact lineToGeoInterface_eq rt l kw
  | point p => exact pointToGeoInterface_eq rt p kw
  | mpoly xs b =>
    refine mpolyToGeoInterface_eq rt (mpolyS rt xs b) (xs.map PolyRecv.toSrc) kw ?_ h.2
    have hx := h.1
    simp only [mpolyS]
    clear h
    induction xs with
    | nil => exact .nil
    | cons x t ih =>
      refine .cons ?_ (ih (fun y hy => hx y (by simp [hy])))
      exact x.linearRings_eq rt ⟨kw.k, false, []⟩ (hx x (by simp))
  | mline m => exact mlineToGeoInterface_eq rt m kw h
  | mpoint m => exact mpointToGeoInterface_eq rt m kw h

/-- the object as `to_geojson` sees it -/
def Recv.shape (r : Recv) (dt : Option TI) (props : Obj) : ShapeS := ⟨dt, props, r.geoInterface rt⟩

/-- **export** — `shape.to_geojson(properties=…, **kwargs)` as the source computes it, through the translated
    `to_geo_interface` / `linear_rings` / `bounding_coords` / `to_float` of the object's class, is the model's `toGeoJson` -/
theorem export_eq (r : Recv) (dt : Option TI) (props : Obj) (o : Opts) (h : r.OK o.k) :
    (Src.GeoJson.toGeoJson rt (r.shape rt dt props) o.props (kwOf o)).map J.obj =
      GeoJson.toGeoJson rt ⟨r.toGeom, dt, props⟩ o :=
  toGeoJson_eq rt ⟨r.toGeom, dt, props⟩ o (r.geoInterface rt) (r.geoInterface_eq rt ⟨o.k, o.bbox, []⟩ h)

/-! ## the headline theorems of `Props/C14.lean`, restated for the translated source -/

/-- the source's orientation test answers the RFC's question: for a closed ring that does not cross the antimeridian,
    `is_counter_clockwise` returns `True` exactly when the plain shoelace area is non-negative -/
theorem src_isCCW_iff_area (v : Pos) (vs : List Pos) (hc : Closed (v :: vs))
    (hw : NoWrap ((v :: vs).map Pos.pt)) :
    isCounterClockwise rt (v :: vs) = .ok true ↔ 0 ≤ area2 ((v :: vs).map Pos.pt) := by
  rw [isCounterClockwise_eq]
  simp only [Except.ok.injEq]
  exact isCCW_iff_area _ (closed_map Pos.pt hc) hw

/-- … and across the antimeridian: the sign of the area of the ring with continuous longitudes -/
theorem src_isCCW_iff_winding (v : Pos) (vs : List Pos) (hc : Closed (v :: vs))
    (hl : LonOK ((v :: vs).map Pos.pt)) (ht : turn ((v :: vs).map Pos.pt) = 0) :
    isCounterClockwise rt (v :: vs) = .ok true ↔ 0 ≤ area2 (unwrap ((v :: vs).map Pos.pt)) := by
  rw [isCounterClockwise_eq]
  simp only [Except.ok.injEq]
  exact isCCW_iff_winding _ (closed_map Pos.pt hc) hl ht

/-- the source's constructors build the model's `mkPolygon` -/
theorem src_mkPolygon {raw o : List Pos} {holes hs : List (List Pos)}
    (h1 : polygonInitDefault rt raw = .ok o)
    (h2 : GeoJson.mapE (fun r => polygonInitDefault rt r) holes = .ok hs) :
    mkPolygon raw holes = .ok (polygonSrc ⟨o, hs.map fun h => ⟨fun _ => h⟩⟩) := by
  have hf : (fun r => polygonInitDefault rt r) = fun r => mkOutlineP r := by
    funext r; exact polygonInitDefault_eq rt r
  rw [hf] at h2
  rw [polygonInitDefault_eq] at h1
  simp [mkPolygon, h1, h2, polygonSrc]

/-- **exterior counter-clockwise, holes clockwise (RFC 7946 §3.1.6)** — for a `GeoPolygon` that the *source's*
    constructor builds from arbitrary vertex lists (either orientation, open or closed, with or without Z; the holes
    through `GeoPolygon(ring)` as the importers do) whose rings do not cross the antimeridian, the rings the *source's*
    `linear_rings` hands to the exporter are: shell with non-negative shoelace area, every hole non-positive -/
theorem src_exterior_ccw_holes_cw (raw o : List Pos) (holes hs : List (List Pos)) (kw : Kw)
    (h1 : polygonInitDefault rt raw = .ok o)
    (h2 : GeoJson.mapE (fun r => polygonInitDefault rt r) holes = .ok hs)
    (hw : NoWrap ((closeRingP raw).map Pos.pt))
    (hwh : ∀ r ∈ holes, NoWrap ((closeRingP r).map Pos.pt)) :
    ∃ shell rest, polygonLinearRings rt ⟨o, hs.map fun h => ⟨fun _ => h⟩⟩ kw = .ok (shell :: rest) ∧
      0 ≤ area2 (shell.map Pos.pt) ∧ ∀ r ∈ rest, area2 (r.map Pos.pt) ≤ 0 := by
  obtain ⟨shell, rest, hlr, ha, hb⟩ :=
    exterior_ccw_holes_cw raw holes _ kw.k (src_mkPolygon rt h1 h2) hw hwh
  exact ⟨shell, rest, by rw [polygonLinearRings_eq, hlr], ha, hb⟩

/-- … and for rings that cross the antimeridian (un-wrapped longitudes) -/
theorem src_exterior_ccw_holes_cw_antimeridian (raw o : List Pos) (holes hs : List (List Pos)) (kw : Kw)
    (h1 : polygonInitDefault rt raw = .ok o)
    (h2 : GeoJson.mapE (fun r => polygonInitDefault rt r) holes = .ok hs)
    (hl : LonOK ((closeRingP raw).map Pos.pt)) (ht : turn ((closeRingP raw).map Pos.pt) = 0)
    (hlh : ∀ r ∈ holes, LonOK ((closeRingP r).map Pos.pt))
    (hth : ∀ r ∈ holes, turn ((closeRingP r).map Pos.pt) = 0) :
    ∃ shell rest, polygonLinearRings rt ⟨o, hs.map fun h => ⟨fun _ => h⟩⟩ kw = .ok (shell :: rest) ∧
      0 ≤ area2 (unwrap (shell.map Pos.pt)) ∧ ∀ r ∈ rest, area2 (unwrap (r.map Pos.pt)) ≤ 0 := by
  obtain ⟨shell, rest, hlr, ha, hb⟩ :=
    exterior_ccw_holes_cw_antimeridian raw holes _ kw.k (src_mkPolygon rt h1 h2) hl ht hlh hth
  exact ⟨shell, rest, by rw [polygonLinearRings_eq, hlr], ha, hb⟩

/-- **export → import identity of the geometry** — the `coordinates` the *source* computes for an object of any exporting
    class, read by the importer of the matching type, give back the polygon form of the shape -/
theorem src_geom_roundtrip (r : Recv) (kw : Kw) (geo : Obj) (hok : r.OK kw.k) (hg : GeomOK r.toGeom kw.k)
    (hexp : r.geoInterface rt kw = .ok geo) :
    ∃ g0 sg, geomEarly r.toGeom.kind geo = .ok g0 ∧ geomLate g0 = .ok sg ∧ r.toGeom.polyForm kw.k = .ok sg := by
  rw [r.geoInterface_eq rt kw hok] at hexp
  exact geom_roundtrip r.toGeom kw.k hg geo (toGeoInterface_ok hexp).2

/-- **round trip of the Feature** — the document the *source's* `to_geojson` builds, imported with the importer of its
    type, returns the polygon form of the shape, the same time bounds and user properties, and leaves the document as
    it was -/
theorem src_roundtrip (hrt : rt.Lawful) (r : Recv) (dt : Option TI) (props : Obj) (o : Opts) (doc : Obj)
    (hok : r.OK o.k) (hg : GeomOK r.toGeom o.k) (hP : PropsOK props) (hdt : DtOK dt)
    (hov : o.props.getD [] = []) (hx : ExtraOK o.extra)
    (hexp : Src.GeoJson.toGeoJson rt (r.shape rt dt props) o.props (kwOf o) = .ok doc) :
    ∃ sg, r.toGeom.polyForm o.k = .ok sg ∧
      fromGeoJson rt r.toGeom.kind (.obj doc) = .ok (⟨sg, dt, props⟩, .obj doc) := by
  have h := export_eq rt r dt props o hok
  rw [hexp] at h
  exact roundtrip rt hrt ⟨r.toGeom, dt, props⟩ o (.obj doc) hg hP hdt hov hx h.symm

/-- **the time fields come back** — what the source's `_properties_json` writes for a time-bounded shape, the source's
    `get_dt_from_geojson_props` reads back as the same interval, leaving exactly the user properties -/
theorem src_time_fields_roundtrip (hrt : rt.Lawful) (s : ShapeS) (t : TI) (hdt : s.dt = some t)
    (hle : t.start ≤ t.stop) (hP : PropsOK s.props) :
    ∃ pj, propertiesJson rt s = .ok pj ∧
      getDtFromGeojsonProps rt pj "datetime_start" "datetime_end" = .ok (some t, s.props) := by
  refine ⟨_, propertiesJson_eq rt s (.point ⟨0, 0, none⟩), ?_⟩
  rw [getDt_eq, hdt, properties_some _ t s.props hP, sanKvs_append, sanKvs_of_native rt s.props hP.1]
  have := getDt_exported hrt s.props t.start t.stop hle hP.2.1 hP.2.2
  simpa [sanKvs, sanitize] using this

/-- … and a shape without time bounds exports no time field and reads back `None` -/
theorem src_time_fields_absent (s : ShapeS) (hdt : s.dt = none) (hP : PropsOK s.props) :
    ∃ pj, propertiesJson rt s = .ok pj ∧
      getDtFromGeojsonProps rt pj "datetime_start" "datetime_end" = .ok (none, s.props) := by
  refine ⟨_, propertiesJson_eq rt s (.point ⟨0, 0, none⟩), ?_⟩
  rw [getDt_eq, hdt]
  have hp : GeoJson.properties ⟨.point ⟨0, 0, none⟩, none, s.props⟩ = s.props := rfl
  rw [hp, sanKvs_of_native rt s.props hP.1]
  exact getDt_absent rt s.props hP.2.1 hP.2.2

/-! ### export with the translated exporters, import with the translated importers -/

/-- `<Type>.from_geojson`, the translated importer of each type -/
def srcImport (k : Kind) (d : Obj) (ks ke : String) : Except String Shape :=
  match k with
  | .point => pointFromGeoJson rt d ks ke
  | .line => lineFromGeoJson rt d ks ke
  | .polygon => polygonFromGeoJson rt d ks ke
  | .mpoint => mpointFromGeoJson rt d ks ke
  | .mline => mlineFromGeoJson rt d ks ke
  | .mpoly => mpolyFromGeoJson rt d ks ke

/-- the `coordinates` member is nested lists as deep as the type iterates over it (decidable; true of every document the
    exporters write, see `arrOK_exported`) -/
def arrOK (k : Kind) (d : Obj) : Bool :=
  match k with
  | .point => true
  | .line => arr1 (oget (geomOf d) "coordinates")
  | .mpoint => arr1 (oget (geomOf d) "coordinates")
  | .polygon => arr2 (oget (geomOf d) "coordinates")
  | .mline => arr2 (oget (geomOf d) "coordinates")
  | .mpoly => arr3 (oget (geomOf d) "coordinates")

/-- **the importers of the source are the model's importers** (shape returned, exception raised) on every document whose
    `coordinates` are lists where the importer iterates -/
theorem srcImport_eq (k : Kind) (d : Obj) (ks ke : String) (h : arrOK k d = true) :
    srcImport rt k d ks ke = (fromGeoJson rt k (.obj d) ks ke).map (·.1) := by
  cases k with
  | point => exact pointFromGeoJson_eq rt d ks ke
  | line => exact lineFromGeoJson_eq rt d ks ke h
  | polygon => exact polygonFromGeoJson_eq rt d ks ke h
  | mpoint => exact mpointFromGeoJson_eq rt d ks ke h
  | mline => exact mlineFromGeoJson_eq rt d ks ke h
  | mpoly => exact mpolyFromGeoJson_eq rt d ks ke h

theorem isArr_ringToJ (r : List Pos) : isArr (ringToJ r) = true := rfl

theorem isArr2_ringsToJ (rs : List (List Pos)) : isArr2 (J.arr (rs.map ringToJ)) = true := by
  simp [isArr2, isArr_ringToJ]

/-- what the exporters write is nested lists all the way down -/
theorem arrOK_exported (g : Geom) (k : Option Nat) (geo props extra : Obj) (hx : ExtraOK extra)
    (hc : oget geo "coordinates" = some (g.coordinates k)) :
    arrOK g.kind (oupdate [("type", .str "Feature"), ("geometry", .obj geo), ("properties", .obj props)] extra) = true := by
  obtain ⟨_, m2, _, m4⟩ := exported_members (geo := geo) (props := props) hx
  have hg : geomOf (oupdate [("type", .str "Feature"), ("geometry", .obj geo), ("properties", .obj props)] extra) = geo := by
    simp [geomOf, ohas, m4, m2]
  cases g <;> simp [arrOK, Geom.kind, hg, hc, Geom.coordinates, arr1, arr2, arr3, isArr_ringToJ, isArr2_ringsToJ, isArr, isArr2,
    ringToJ]

/-- **export → import, source to source** — for an object of any exporting class: the Feature the translated `to_geojson`
    builds, handed to the translated `from_geojson` of its type, comes back as the polygon form of the shape with the same
    time bounds and the same user properties -/
theorem src_full_roundtrip (hrt : rt.Lawful) (r : Recv) (dt : Option TI) (props : Obj) (o : Opts) (doc : Obj)
    (hok : r.OK o.k) (hg : GeomOK r.toGeom o.k) (hP : PropsOK props) (hdt : DtOK dt)
    (hov : o.props.getD [] = []) (hx : ExtraOK o.extra)
    (hexp : Src.GeoJson.toGeoJson rt (r.shape rt dt props) o.props (kwOf o) = .ok doc) :
    ∃ sg, r.toGeom.polyForm o.k = .ok sg ∧
      srcImport rt r.toGeom.kind doc "datetime_start" "datetime_end" = .ok ⟨sg, dt, props⟩ := by
  obtain ⟨sg, h1, h2⟩ := src_roundtrip rt hrt r dt props o doc hok hg hP hdt hov hx hexp
  refine ⟨sg, h1, ?_⟩
  have hm := export_eq rt r dt props o hok
  rw [hexp] at hm
  obtain ⟨geo, hgeo, hdoc⟩ := toGeoJson_ok hm.symm
  have hd : doc = oupdate [("type", .str "Feature"), ("geometry", .obj geo),
      ("properties", .obj (exportedProps rt ⟨r.toGeom, dt, props⟩ o))] o.extra := by
    simpa [Except.map] using hdoc
  have harr : arrOK r.toGeom.kind doc = true := by
    rw [hd]; exact arrOK_exported r.toGeom o.k geo _ _ hx (toGeoInterface_ok hgeo).2
  rw [srcImport_eq rt _ doc _ _ harr, h2]
  rfl

/-! ### non-vacuity: the hypotheses hold of concrete objects -/

/-- a unit box with a triangular hole, as an exporting object -/
def demoBox : Recv :=
  .poly (.box ⟨⟨0, 1, none⟩, ⟨1, 0, none⟩, [⟨fun _ => [⟨1/4, 1/4, none⟩, ⟨3/4, 1/4, none⟩, ⟨1/2, 3/4, none⟩, ⟨1/4, 1/4, none⟩]⟩]⟩)

example : demoBox.OK none := by
  refine ⟨?_, ?_⟩ <;> simp only [PosOK] <;> norm_num

/-- a full ring whose arcs have vertices and whose `bounds` is the model's -/
def demoRing : RingS :=
  ⟨fun _ => [⟨0, 1, none⟩, ⟨1, 0, none⟩, ⟨0, -1, none⟩], fun _ => [⟨0, 1/2, none⟩, ⟨1/2, 0, none⟩], 0, 360, .ok (-1, -1, 1, 1), []⟩

example : (PolyRecv.ring demoRing).OK none := by
  refine ⟨by simp [demoRing], fun _ => by simp [demoRing], ?_⟩
  simp [demoRing, ringSrc, PolySrc.bounds, ringFull, bndOf]

example : (Recv.mpoly [.polygon ⟨[⟨0, 0, none⟩, ⟨1, 0, none⟩, ⟨0, 1, none⟩, ⟨0, 0, none⟩], []⟩]
    (Geom.mpoly [polygonSrc ⟨[⟨0, 0, none⟩, ⟨1, 0, none⟩, ⟨0, 1, none⟩, ⟨0, 0, none⟩], []⟩]).bounds).OK none := by
  refine ⟨fun x hx => ?_, rfl⟩
  simp at hx; subst hx; trivial

/-- the source's constructor closes an open clockwise triangle and turns it counter-clockwise -/
example (rt : Rt) : polygonInitDefault rt [⟨0, 0, none⟩, ⟨0, 1, none⟩, ⟨1, 0, none⟩] =
    .ok [⟨0, 0, none⟩, ⟨1, 0, none⟩, ⟨0, 1, none⟩, ⟨0, 0, none⟩] := by
  rw [polygonInitDefault_eq]; decide +kernel

/-- a bare LineString geometry satisfies the importers' assumption -/
example : arrOK .line [("type", .str "LineString"), ("coordinates", .arr [.arr [.num 0, .num 0], .arr [.num 1, .num 1]])] = true := by
  decide

end GV.C14Src
