import GeoVerif.Model.Time
import Mathlib.Order.Interval.Set.Basic
import Mathlib.Order.Interval.Set.Disjoint
import Mathlib.Order.Interval.Set.LinearOrder
import Mathlib.Algebra.Order.Field.Rat
import Mathlib.Data.Rat.Cast.Order
import Mathlib.Data.Int.Cast.Lemmas
import Mathlib.Tactic.Linarith
import Mathlib.Tactic.NormNum
import Mathlib.Tactic.Push

/-!
# C06 — `TimeInterval` is the right-open set `[start, end)` (or a single instant)

Specification: `den t`, the set of (rational, i.e. *dense*) instants the interval denotes.  Dense
time matters: over the integers `[5,6)` and the instant `5` would denote the same set.

Property theorems only; every theorem quantifies over all (well-formed) intervals and instants.
-/
namespace GV.TI

/-- what the constructor guarantees -/
def WF (t : TI) : Prop := t.start ≤ t.stop

instance (t : TI) : Decidable (WF t) := by unfold WF; infer_instance

/-- the set of instants a well-formed interval denotes -/
def den (t : TI) : Set ℚ :=
  if t.start = t.stop then {(t.start : ℚ)} else Set.Ico (t.start : ℚ) (t.stop : ℚ)

theorem mem_den_instant {t : TI} (h : t.start = t.stop) (x : ℚ) : x ∈ den t ↔ x = t.start := by
  simp [den, h]

theorem mem_den_proper {t : TI} (h : t.start ≠ t.stop) (x : ℚ) :
    x ∈ den t ↔ (t.start : ℚ) ≤ x ∧ x < t.stop := by
  simp [den, h]

theorem den_proper {t : TI} (h : t.start ≠ t.stop) : den t = Set.Ico (t.start : ℚ) t.stop := by
  simp [den, h]

theorem den_instant {t : TI} (h : t.start = t.stop) : den t = {(t.start : ℚ)} := by
  simp [den, h]

theorem lt_of_proper {t : TI} (hw : WF t) (h : t.start ≠ t.stop) : (t.start : ℚ) < t.stop := by
  exact_mod_cast lt_of_le_of_ne hw h

theorem start_mem_den {t : TI} (hw : WF t) : (t.start : ℚ) ∈ den t := by
  by_cases h : t.start = t.stop
  · rw [mem_den_instant h]
  · rw [mem_den_proper h]; exact ⟨le_refl _, lt_of_proper hw h⟩

/-- **membership**: `datetime in interval` is membership in the denoted set -/
theorem mem_iff (t : TI) (x : Int) : t.containsDt x = true ↔ (x : ℚ) ∈ den t := by
  unfold containsDt isInstant
  by_cases h : t.start = t.stop
  · simp [h, mem_den_instant h]; constructor <;> intro h' <;> exact_mod_cast h'.symm
  · simp [h, mem_den_proper h]

theorem intersectsDt_iff (t : TI) (x : Int) : t.intersectsDt x = true ↔ (x : ℚ) ∈ den t :=
  mem_iff t x

/-- a proper interval contains a point strictly after its start -/
theorem mid_mem {t : TI} (hw : WF t) (h : t.start ≠ t.stop) :
    ((t.start : ℚ) + t.stop) / 2 ∈ den t ∧ (t.start : ℚ) < ((t.start : ℚ) + t.stop) / 2 := by
  have := lt_of_proper hw h
  rw [mem_den_proper h]
  refine ⟨⟨by linarith, by linarith⟩, by linarith⟩

/-- **subset** -/
theorem issubset_iff (a b : TI) (ha : WF a) (hb : WF b) :
    a.issubset b = true ↔ den a ⊆ den b := by
  unfold issubset
  by_cases hai : a.start = a.stop
  · have hinst : a.isInstant = true := by simp [isInstant, hai]
    rw [if_pos hinst, mem_iff]
    constructor
    · intro h x hx; rw [mem_den_instant hai] at hx; subst hx; exact_mod_cast h
    · intro h; apply h; rw [mem_den_instant hai]
  · have hai' : (a.start == a.stop) = false := by simpa using hai
    simp only [isInstant, hai', Bool.false_eq_true, if_false, Bool.and_eq_true, decide_eq_true_eq]
    have hlt := lt_of_proper ha hai
    constructor
    · rintro ⟨h1, h2⟩ x hx
      rw [mem_den_proper hai] at hx
      have h1' : (b.start : ℚ) ≤ a.start := by exact_mod_cast h1
      have h2' : (a.stop : ℚ) ≤ b.stop := by exact_mod_cast h2
      have hbi : b.start ≠ b.stop := by
        intro hb'; have : (b.start : ℚ) = b.stop := by exact_mod_cast hb'
        linarith [hx.1, hx.2]
      rw [mem_den_proper hbi]; exact ⟨by linarith [hx.1], by linarith [hx.2]⟩
    · intro h
      have hs : (a.start : ℚ) ∈ den a := start_mem_den ha
      obtain ⟨hm, hm'⟩ := mid_mem ha hai
      have hbs := h hs
      have hbm := h hm
      by_cases hbi : b.start = b.stop
      · rw [mem_den_instant hbi] at hbs hbm; linarith
      · rw [mem_den_proper hbi] at hbs
        refine ⟨by exact_mod_cast hbs.1, ?_⟩
        by_contra hc; rw [not_le] at hc
        have hc' : (b.stop : ℚ) < a.stop := by exact_mod_cast hc
        set p : ℚ := (max (a.start:ℚ) b.stop + a.stop) / 2 with hp
        have hp1 : max (a.start:ℚ) b.stop < a.stop := max_lt hlt hc'
        have hpa : p ∈ den a := by
          rw [mem_den_proper hai]; constructor
          · have := le_max_left (a.start:ℚ) b.stop; linarith
          · linarith
        have := h hpa
        rw [mem_den_proper hbi] at this
        have := le_max_right (a.start:ℚ) b.stop
        linarith [this, hp1]

/-- **superset** -/
theorem issuperset_iff (a b : TI) (ha : WF a) (hb : WF b) :
    a.issuperset b = true ↔ den b ⊆ den a := issubset_iff b a hb ha

/-- `interval in interval` -/
theorem containsTI_iff (a b : TI) (ha : WF a) (hb : WF b) :
    a.containsTI b = true ↔ den b ⊆ den a := issuperset_iff a b ha hb

/-- **disjointness** -/
theorem isdisjoint_iff (a b : TI) (ha : WF a) (hb : WF b) :
    a.isdisjoint b = true ↔ Disjoint (den a) (den b) := by
  unfold isdisjoint
  by_cases hai : a.start = a.stop
  · have hinst : a.isInstant = true := by simp [isInstant, hai]
    rw [if_pos hinst, den_instant hai, Set.disjoint_singleton_left, ← mem_iff]
    simp
  · have hai' : a.isInstant = false := by simpa [isInstant] using hai
    rw [hai']; simp only [Bool.false_eq_true, if_false]
    by_cases hbi : b.start = b.stop
    · have hinst : b.isInstant = true := by simp [isInstant, hbi]
      rw [if_pos hinst, den_instant hbi, Set.disjoint_singleton_right, ← mem_iff]
      simp
    · have hbi' : b.isInstant = false := by simpa [isInstant] using hbi
      rw [hbi']; simp only [Bool.false_eq_true, if_false]
      rw [den_proper hai, den_proper hbi, Set.Ico_disjoint_Ico]
      have key : min (a.stop:ℚ) b.stop ≤ max (a.start:ℚ) b.start ↔
          (a.stop ≤ b.start ∨ b.stop ≤ a.start) := by
        have e : (min (a.stop:ℚ) b.stop ≤ max (a.start:ℚ) b.start) ↔
            (((min a.stop b.stop : Int):ℚ) ≤ ((max a.start b.start : Int):ℚ)) := by
          push_cast; rfl
        rw [e, Int.cast_le]; unfold WF at ha hb; omega
      rw [key]
      simp only [Bool.or_eq_true, decide_eq_true_eq, ge_iff_le]

/-- disjointness is symmetric -/
theorem isdisjoint_symm (a b : TI) (ha : WF a) (hb : WF b) : a.isdisjoint b = b.isdisjoint a := by
  rw [Bool.eq_iff_iff, isdisjoint_iff a b ha hb, isdisjoint_iff b a hb ha, disjoint_comm]

/-- `intersects` is the negation of `isdisjoint` (in both argument orders) -/
theorem intersects_eq_not_disjoint (a b : TI) (ha : WF a) (hb : WF b) :
    a.intersects b = !a.isdisjoint b := by
  unfold intersects; rw [isdisjoint_symm b a hb ha]

theorem intersects_iff (a b : TI) (ha : WF a) (hb : WF b) :
    a.intersects b = true ↔ (den a ∩ den b).Nonempty := by
  rw [intersects_eq_not_disjoint a b ha hb, Bool.not_eq_true', ← Bool.not_eq_true,
    isdisjoint_iff a b ha hb, Set.not_disjoint_iff_nonempty_inter]

/-- the computed intersection is `None` exactly when the sets are disjoint -/
theorem intersection_none_iff (a b : TI) (ha : WF a) (hb : WF b) :
    a.intersection b = none ↔ Disjoint (den a) (den b) := by
  rw [← isdisjoint_iff a b ha hb]; unfold intersection
  by_cases h : a.isdisjoint b = true <;> simp [h]

/-- otherwise it is a well-formed interval denoting exactly the common instants -/
theorem intersection_den (a b c : TI) (ha : WF a) (hb : WF b) (h : a.intersection b = some c) :
    WF c ∧ den c = den a ∩ den b := by
  unfold intersection at h
  by_cases hd : a.isdisjoint b = true
  · simp [hd] at h
  · simp only [hd, Bool.false_eq_true, if_false, Option.some.injEq] at h
    subst h
    have hnd : ¬ Disjoint (den a) (den b) := by rwa [← isdisjoint_iff a b ha hb]
    by_cases hai : a.start = a.stop
    · -- a is the instant a.start, and it lies in b
      rw [den_instant hai, Set.disjoint_singleton_left, not_not] at hnd
      have hsub : ({(a.start : ℚ)} : Set ℚ) ∩ den b = {(a.start : ℚ)} :=
        Set.inter_eq_left.mpr (Set.singleton_subset_iff.mpr hnd)
      rw [den_instant hai, hsub]
      by_cases hbi : b.start = b.stop
      · rw [mem_den_instant hbi] at hnd
        have e : a.start = b.start := by exact_mod_cast hnd
        have hc : max a.start b.start = min a.stop b.stop := by
          rw [← hai, ← hbi, ← e]; simp
        refine ⟨by unfold WF; simp only; omega, ?_⟩
        rw [den_instant (t := ⟨max a.start b.start, min a.stop b.stop⟩) hc]
        simp [e]
      · rw [mem_den_proper hbi] at hnd
        have e1 : b.start ≤ a.start := by exact_mod_cast hnd.1
        have e2 : a.start < b.stop := by exact_mod_cast hnd.2
        have hc : max a.start b.start = min a.stop b.stop := by
          rw [← hai]; omega
        refine ⟨by unfold WF; simp only; omega, ?_⟩
        rw [den_instant (t := ⟨max a.start b.start, min a.stop b.stop⟩) hc]
        have : max a.start b.start = a.start := by omega
        simp [this]
    · by_cases hbi : b.start = b.stop
      · rw [den_instant hbi, Set.disjoint_singleton_right, not_not] at hnd
        have hsub : den a ∩ ({(b.start : ℚ)} : Set ℚ) = {(b.start : ℚ)} :=
          Set.inter_eq_right.mpr (Set.singleton_subset_iff.mpr hnd)
        rw [den_instant hbi, hsub]
        rw [mem_den_proper hai] at hnd
        have e1 : a.start ≤ b.start := by exact_mod_cast hnd.1
        have e2 : b.start < a.stop := by exact_mod_cast hnd.2
        have hc : max a.start b.start = min a.stop b.stop := by
          rw [← hbi]; omega
        refine ⟨by unfold WF; simp only; omega, ?_⟩
        rw [den_instant (t := ⟨max a.start b.start, min a.stop b.stop⟩) hc]
        have : max a.start b.start = b.start := by omega
        simp [this]
      · rw [den_proper hai, den_proper hbi, Set.Ico_disjoint_Ico, not_le] at hnd
        have h1 := lt_of_proper ha hai
        have h2 := lt_of_proper hb hbi
        have hlt : max a.start b.start < min a.stop b.stop := by
          have : ((max a.start b.start : Int) : ℚ) < ((min a.stop b.stop : Int) : ℚ) := by
            push_cast; exact hnd
          exact_mod_cast this
        refine ⟨le_of_lt hlt, ?_⟩
        rw [den_proper (t := ⟨max a.start b.start, min a.stop b.stop⟩) (ne_of_lt hlt),
          den_proper hai, den_proper hbi, Set.Ico_inter_Ico]
        push_cast; rfl

/-- **union** is the hull: it starts at the earlier start and ends at the later end … -/
theorem union_hull (a b : TI) (ha : WF a) (hb : WF b) :
    (a.union b).start = min a.start b.start ∧ (a.union b).stop = max a.stop b.stop ∧
      WF (a.union b) := by
  refine ⟨rfl, rfl, ?_⟩
  unfold WF union at *; simp only; omega

/-- … and it covers an operand whenever that operand is a proper interval, or an instant that is not
    sitting alone on the hull's right end (a right-open interval can not minimally cover that). -/
theorem union_covers_left (a b : TI) (ha : WF a) (hb : WF b)
    (h : a.start ≠ a.stop ∨ a.start < max a.stop b.stop ∨ (a.union b).start = (a.union b).stop) :
    den a ⊆ den (a.union b) := by
  intro x hx
  have hu : (a.union b).start = min a.start b.start ∧ (a.union b).stop = max a.stop b.stop :=
    ⟨rfl, rfl⟩
  by_cases hui : (a.union b).start = (a.union b).stop
  · -- the hull is an instant: both operands are that instant
    rw [mem_den_instant hui]
    have e : a.start = a.stop ∧ min a.start b.start = a.start := by
      rw [hu.1, hu.2] at hui; unfold WF at ha hb; constructor <;> omega
    rw [mem_den_instant e.1] at hx; rw [hx, hu.1, e.2]
  · rw [mem_den_proper hui, hu.1, hu.2]; push_cast
    by_cases hai : a.start = a.stop
    · rw [mem_den_instant hai] at hx; subst hx
      have hlt : a.start < max a.stop b.stop := by
        rcases h with h | h | h
        · exact absurd hai h
        · exact h
        · exact absurd h hui
      refine ⟨min_le_left _ _, ?_⟩
      have : ((a.start : Int) : ℚ) < ((max a.stop b.stop : Int) : ℚ) := by exact_mod_cast hlt
      push_cast at this; exact this
    · rw [mem_den_proper hai] at hx
      exact ⟨le_trans (min_le_left _ _) hx.1, lt_of_lt_of_le hx.2 (le_max_left _ _)⟩

/-- any interval covering both operands covers the hull: the union is the *smallest* cover -/
theorem union_minimal (a b c : TI) (ha : WF a) (hb : WF b) (hc : WF c)
    (hpa : a.start ≠ a.stop) (hpb : b.start ≠ b.stop)
    (h1 : den a ⊆ den c) (h2 : den b ⊆ den c) : den (a.union b) ⊆ den c := by
  have s1 := (issubset_iff a c ha hc).mpr h1
  have s2 := (issubset_iff b c hb hc).mpr h2
  have hu := union_hull a b ha hb
  apply (issubset_iff (a.union b) c hu.2.2 hc).mp
  unfold issubset at s1 s2 ⊢
  have ia : a.isInstant = false := by simpa [isInstant] using hpa
  have ib : b.isInstant = false := by simpa [isInstant] using hpb
  have iu : (a.union b).isInstant = false := by
    unfold isInstant union; simp only [beq_eq_false_iff_ne, ne_eq]
    unfold WF at ha hb; omega
  rw [ia] at s1; rw [ib] at s2; rw [iu]
  simp only [Bool.false_eq_true, if_false, Bool.and_eq_true, decide_eq_true_eq] at s1 s2 ⊢
  rw [hu.1, hu.2.1]; omega

/-- mutual subsets are equal -/
theorem subset_antisymm (a b : TI) (ha : WF a) (hb : WF b)
    (h1 : a.issubset b = true) (h2 : b.issubset a = true) : a = b := by
  have e : den a = den b :=
    Set.Subset.antisymm ((issubset_iff a b ha hb).mp h1) ((issubset_iff b a hb ha).mp h2)
  -- recover the end points from the sets
  unfold issubset at h1 h2
  cases a with | mk as ae => cases b with | mk bs be =>
  unfold WF at ha hb; simp only at ha hb
  by_cases hai : as = ae <;> by_cases hbi : bs = be <;>
    simp [isInstant, containsDt, hai, hbi] at h1 h2 ⊢ <;> omega

/-- `__eq__` is structural equality … -/
theorem eq_iff (a b : TI) : a.eq b = true ↔ a = b := by
  cases a; cases b; simp [eq]

/-- … and equal intervals hash equally -/
theorem eq_imp_hash (a b : TI) (h : a.eq b = true) : a.hashKey = b.hashKey := by
  rw [(eq_iff a b).mp h]

/-- the constructor rejects exactly `end < start`, and what it accepts is well formed -/
theorem mk_rejects (s e : Int) : (mk? s e = .error "ERR:Value" ↔ e < s) ∧
    (∀ t, mk? s e = .ok t → WF t ∧ t.start = s ∧ t.stop = e) := by
  unfold mk?
  by_cases h : e < s
  · simp [h]
  · simp only [h, if_false, reduceCtorEq, Except.ok.injEq, true_and]
    intro t ht; subst ht; exact ⟨by unfold WF; simp only; omega, rfl, rfl⟩

/-! ### algebraic laws of the operations (every well-formed operand) -/
/-- **intersection** does not depend on the order of its operands -/
theorem intersection_comm (a b : TI) (ha : WF a) (hb : WF b) :
    a.intersection b = b.intersection a := by
  unfold intersection
  rw [isdisjoint_symm a b ha hb, max_comm a.start b.start, min_comm a.stop b.stop]

set_option linter.unnecessarySeqFocus false in
/-- an interval meets itself in itself -/
theorem intersection_self (a : TI) (ha : WF a) : a.intersection a = some a := by
  cases a with | mk s e =>
  unfold WF at ha; simp only at ha
  by_cases h : s = e <;> simp [intersection, isdisjoint, isInstant, containsDt, h] <;> omega

/-- the computed intersection is a subset of both operands (the code's own `issubset`) -/
theorem intersection_issubset (a b c : TI) (ha : WF a) (hb : WF b) (h : a.intersection b = some c) :
    c.issubset a = true ∧ c.issubset b = true := by
  obtain ⟨hc, e⟩ := intersection_den a b c ha hb h
  exact ⟨(issubset_iff c a hc ha).mpr (e ▸ Set.inter_subset_left),
    (issubset_iff c b hc hb).mpr (e ▸ Set.inter_subset_right)⟩

/-- **union** does not depend on the order of its operands … -/
theorem union_comm (a b : TI) : a.union b = b.union a := by
  unfold union; rw [min_comm, max_comm]

/-- … nor on the grouping … -/
theorem union_assoc (a b c : TI) : (a.union b).union c = a.union (b.union c) := by
  unfold union; simp only [min_assoc, max_assoc]

/-- … and is idempotent -/
theorem union_self (a : TI) : a.union a = a := by
  cases a; simp [union]

/-- `issubset` is reflexive … -/
theorem issubset_refl (a : TI) (ha : WF a) : a.issubset a = true :=
  (issubset_iff a a ha ha).mpr (Set.Subset.refl _)

/-- … and transitive -/
theorem issubset_trans (a b c : TI) (ha : WF a) (hb : WF b) (hc : WF c)
    (h1 : a.issubset b = true) (h2 : b.issubset c = true) : a.issubset c = true :=
  (issubset_iff a c ha hc).mpr
    (Set.Subset.trans ((issubset_iff a b ha hb).mp h1) ((issubset_iff b c hb hc).mp h2))

/-- `elapsed` is never negative, is zero exactly for instants, and grows with `issubset` -/
theorem elapsed_nonneg (a : TI) (ha : WF a) : 0 ≤ a.elapsed ∧ (a.elapsed = 0 ↔ a.isInstant = true) := by
  unfold WF at ha; unfold elapsed isInstant
  refine ⟨by omega, ?_⟩
  simp only [beq_iff_eq]; omega

theorem elapsed_mono (a b : TI) (ha : WF a) (hb : WF b) (h : a.issubset b = true) :
    a.elapsed ≤ b.elapsed := by
  cases a with | mk as ae => cases b with | mk bs be =>
  unfold WF at ha hb; simp only at ha hb
  unfold issubset at h
  by_cases hai : as = ae <;> by_cases hbi : bs = be <;>
    simp [isInstant, containsDt, hai, hbi, elapsed] at h ⊢ <;> omega

/-- the hull is at least as long as either operand -/
theorem elapsed_union_ge (a b : TI) : a.elapsed ≤ (a.union b).elapsed ∧ b.elapsed ≤ (a.union b).elapsed := by
  unfold elapsed union; simp only; omega

/-- a disjoint pair never shares an instant with the same third interval's intersection: disjointness is
    inherited by subsets -/
theorem isdisjoint_of_subset (a b c : TI) (ha : WF a) (hb : WF b) (hc : WF c)
    (h1 : a.issubset b = true) (h2 : b.isdisjoint c = true) : a.isdisjoint c = true :=
  (isdisjoint_iff a c ha hc).mpr
    (Set.disjoint_of_subset_left ((issubset_iff a b ha hb).mp h1) ((isdisjoint_iff b c hb hc).mp h2))

/-- `copy` is equal to the original -/
theorem copy_eq_self (a : TI) : a.copy.eq a = true := by
  cases a; simp [copy, eq]

/-! ### non-vacuity: the hypotheses are met by concrete, non-trivial intervals -/
example : WF ⟨0, 2⟩ ∧ WF ⟨2, 2⟩ ∧ (⟨2, 2⟩ : TI).issubset ⟨0, 2⟩ = false ∧
    (⟨0, 2⟩ : TI).isdisjoint ⟨2, 2⟩ = true ∧ (⟨0, 2⟩ : TI).intersection ⟨2, 4⟩ = none ∧
    (⟨0, 3⟩ : TI).intersection ⟨2, 4⟩ = some ⟨2, 3⟩ := by
  refine ⟨by decide, by decide, by decide, by decide, by decide, by decide⟩

example : (⟨0, 3⟩ : TI).intersection ⟨2, 4⟩ = (⟨2, 4⟩ : TI).intersection ⟨0, 3⟩ ∧
    (⟨2, 3⟩ : TI).issubset ⟨0, 3⟩ = true ∧ (⟨0, 3⟩ : TI).issubset ⟨0, 5⟩ = true ∧
    (⟨0, 3⟩ : TI).isdisjoint ⟨3, 3⟩ = true := by
  refine ⟨by decide, by decide, by decide, by decide⟩

end GV.TI
