import GeoVerif.Gen.SrcCalc
import GeoVerif.Props.C07
/-!
# Source tie for the calculator formulas of `calc.py`

`GeoVerif/Gen/SrcCalc.lean` is regenerated from the current text of `haversine_distance_meters`, `bearing_degrees`,
`inverse_haversine_radians` and `inverse_haversine_degrees` on every run, operation by operation in source order, generic
over the numeric class of `Model/Sphere.lean`.  Each translated formula is proved equal to the model's for every numeric
instance — the real numbers, about which the C07 theorems speak, and binary64, which the driver executes against the code
— every rounding function and every radius.
-/
namespace GV.C07Src
open GV GV.Sphere Num

variable {α : Type} [Num α] (rnd : α → α) (R : α)

theorem haversine_eq (c1 c2 : Coord α) : Src.Calc.haversine rnd R c1 c2 = haversine R c1 c2 := by
  first | rfl | (simp only [Src.Calc.haversine, haversine, havCore, havA, capOne]; rfl)

theorem bearing_eq (c1 c2 : Coord α) : Src.Calc.bearing rnd R c1 c2 = bearing rnd c1 c2 := by
  first | rfl | (simp only [Src.Calc.bearing, bearing, bearingUnrounded, bearingRaw, bearingX, bearingY]; rfl)

/-- the (longitude, latitude) handed to the `Coordinate` constructor is the model's rounded raw destination; the
    constructor's normalisation is applied on top by both -/
theorem destination_eq (start : Coord α) (ang d : α) :
    normCoord 4 (Src.Calc.destination rnd R start ang d) = destination rnd R start ang d := by
  first | rfl | (simp only [Src.Calc.destination, destination, destRaw, destLonRad, destLatRad, clampUnit]; rfl)

theorem destinationDeg_eq (start : Coord α) (angDeg d : α) :
    normCoord 4 (Src.Calc.destinationDeg rnd R start angDeg d) = destinationDeg rnd R start angDeg d := by
  first | rfl | (simp only [Src.Calc.destinationDeg, destinationDeg, destination_eq])

end GV.C07Src
