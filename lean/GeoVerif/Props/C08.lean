import GeoVerif.Model.CoordObj
import GeoVerif.Lemmas.Coord
import Mathlib.Analysis.SpecialFunctions.Trigonometric.Inverse
import Mathlib.Analysis.SpecialFunctions.Complex.Arg
import Mathlib.Data.Rat.Cast.Order
import Mathlib.Tactic.Linarith
import Mathlib.Tactic.NormNum
import Mathlib.Tactic.Ring
import Mathlib.Tactic.Push

/-!
# C08 — coordinates are stored canonically

Property theorems about `GV.normalize` (the constructor's two loops + the `180 ↦ -180` rewrite),
`Coord.eq` / `Coord.hashKey`, the Z field, and `xyz` / `_from_xyz` at the real-number instance of the
numeric signature `Trig` (the driver runs the *same* definitions at `Float`).

Every theorem quantifies over **all** rational inputs (no magnitude bound: the ±1e5 of the property's
quantifier is only where the float program is known to coincide with the rational one, DESIGN §3).
-/
namespace GV.C08
open GV GV.CoordObj

/-! ## range, identity on the range, idempotence -/

/-- **range** (and termination: the result satisfies both loops' exit conditions, so the computed fuel
    `fuelLat`/`fuelLon` never runs out): longitude in `[-180, 180)`, latitude in `[-90, 90]` -/
theorem norm_range (lon lat : ℚ) :
    -180 ≤ (normalize true lon lat).1 ∧ (normalize true lon lat).1 < 180 ∧
    -90 ≤ (normalize true lon lat).2 ∧ (normalize true lon lat).2 ≤ 90 := by
  rw [normalize_true]
  simp only
  have hlat := latLoop_range (fuelLat lat) lon lat (by exact_mod_cast fuelLat_sufficient lat)
  have hlon := lonLoop_range (fuelLon (latLoop (fuelLat lat) lon lat).1) (latLoop (fuelLat lat) lon lat).1
    (by exact_mod_cast fuelLon_sufficient _)
  refine ⟨?_, ?_, hlat.1, hlat.2⟩
  · split_ifs
    · norm_num
    · exact hlon.1
  · split_ifs with h
    · norm_num
    · exact lt_of_le_of_ne hlon.2 h

/-- the number of loop rounds is what the fuel says: extra fuel changes nothing -/
theorem latLoop_fuel_irrelevant (k : ℕ) (lon lat : ℚ) :
    latLoop (fuelLat lat + k) lon lat = latLoop (fuelLat lat) lon lat := by
  have key : ∀ (n : ℕ) (lon lat : ℚ), bandMeasure 90 lat < n → ∀ k, latLoop (n + k) lon lat = latLoop n lon lat := by
    intro n
    induction n with
    | zero => intro lon lat h; have := bandMeasure_nonneg (by norm_num : (0:ℚ) < 90) lat; omega
    | succ n ih =>
      intro lon lat h k
      rw [show n + 1 + k = (n + k) + 1 by omega]
      unfold latLoop
      by_cases hr : -90 ≤ lat ∧ lat ≤ 90
      · simp only [hr, and_self, if_true]
      · simp only [hr, if_false]
        apply ih
        have := bandMeasure_decr (by norm_num : (0:ℚ) < 90) lat (latStep lon lat).2
          (out_of_band hr) (abs_latStep lon lat hr)
        push_cast at h ⊢; omega
  exact key _ lon lat (by exact_mod_cast fuelLat_sufficient lat) k

theorem lonLoop_fuel_irrelevant (k : ℕ) (lon : ℚ) :
    lonLoop (fuelLon lon + k) lon = lonLoop (fuelLon lon) lon := by
  have key : ∀ (n : ℕ) (lon : ℚ), bandMeasure 180 lon < n → ∀ k, lonLoop (n + k) lon = lonLoop n lon := by
    intro n
    induction n with
    | zero => intro lon h; have := bandMeasure_nonneg (by norm_num : (0:ℚ) < 180) lon; omega
    | succ n ih =>
      intro lon h k
      rw [show n + 1 + k = (n + k) + 1 by omega, lonLoop_succ, lonLoop_succ]
      by_cases hr : -180 ≤ lon ∧ lon ≤ 180
      · simp only [hr, and_self, if_true]
      · simp only [hr, if_false]
        apply ih
        have := bandMeasure_decr (by norm_num : (0:ℚ) < 180) lon (lonStep lon)
          (out_of_band hr) (abs_lonStep lon hr)
        push_cast at h ⊢; omega
  exact key _ lon (by exact_mod_cast fuelLon_sufficient lon) k

/-- **identity on the canonical range** (with or without `_bounded`; an un-bounded coordinate is stored as
    given, everywhere) -/
theorem norm_id_in_range (b : Bool) (lon lat : ℚ)
    (h1 : -180 ≤ lon) (h2 : lon < 180) (h3 : -90 ≤ lat) (h4 : lat ≤ 90) :
    normalize b lon lat = (lon, lat) := by
  cases b
  · rw [normalize_false]
  · rw [normalize_true]
    simp only [latLoop_id _ lon lat ⟨h3, h4⟩, lonLoop_id _ lon ⟨h1, le_of_lt h2⟩]
    simp [ne_of_lt h2]

example : normalize true 10 20 = (10, 20) :=
  norm_id_in_range true 10 20 (by norm_num) (by norm_num) (by norm_num) (by norm_num)

/-- **idempotence**: normalising again changes nothing -/
theorem norm_idem (b : Bool) (lon lat : ℚ) :
    normalize b (normalize b lon lat).1 (normalize b lon lat).2 = normalize b lon lat := by
  cases b
  · simp only [normalize_false]
  · obtain ⟨h1, h2, h3, h4⟩ := norm_range lon lat
    exact norm_id_in_range true _ _ h1 h2 h3 h4

/-- building a coordinate from a stored coordinate's fields returns the same coordinate -/
theorem new_idem (lon lat : ℚ) (z m : Option ℚ) (b : Bool) :
    Coord.new (Coord.new lon lat z m b).lon (Coord.new lon lat z m b).lat z m b = Coord.new lon lat z m b := by
  simp only [Coord.new, norm_idem]

example : normalize true 190 100 = (10, 80) := by decide +kernel
example : normalize true (-5) (-271) = (-5, 89) := by decide +kernel
example : normalize true 540 0 = (-180, 0) := by decide +kernel
/-- an un-bounded coordinate (far end of an un-wrapped edge) is stored as given -/
example : normalize false 180 0 = (180, 0) ∧ normalize false 190 95 = (190, 95) := by decide +kernel

/-! ## the normalised coordinate denotes the same point (unit vector over ℝ) -/

noncomputable instance : Trig ℝ where
  sin := Real.sin
  cos := Real.cos
  asin := Real.arcsin
  atan2 y x := Complex.arg ⟨x, y⟩
  degToRad := Real.pi / 180
  radToDeg := 180 / Real.pi

open Real in
/-- bridging lemma: the generic `xyz` at ℝ *is* the textbook expression (by `rfl`) -/
theorem xyz_real (lon lat : ℝ) :
    xyz lon lat = (cos (lat * (π / 180)) * cos (lon * (π / 180)),
                   cos (lat * (π / 180)) * sin (lon * (π / 180)),
                   sin (lat * (π / 180))) := rfl

open Real in
theorem fromXyzRaw_real (v : ℝ × ℝ × ℝ) :
    fromXyzRaw v = (Complex.arg ⟨v.1, v.2.1⟩ * (180 / π), arcsin v.2.2 * (180 / π)) := rfl

section steps
open Real

theorem deg_add_180 (x : ℝ) : (x + 180) * (π / 180) = x * (π / 180) + π := by ring
theorem deg_sub_180 (x : ℝ) : (x - 180) * (π / 180) = x * (π / 180) - π := by ring
theorem deg_add_360 (x : ℝ) : (x + 360) * (π / 180) = x * (π / 180) + 2 * π := by ring
theorem deg_sub_360 (x : ℝ) : (x - 360) * (π / 180) = x * (π / 180) - 2 * π := by ring
theorem deg_refl_north (x : ℝ) : (90 - (x - 90)) * (π / 180) = π - x * (π / 180) := by ring
theorem deg_refl_south (x : ℝ) : (-90 - (x + 90)) * (π / 180) = -(x * (π / 180) + π) := by ring

/-- crossing the north pole: reflect the latitude, turn the longitude by half a turn (either way) -/
theorem xyz_north_add (lon lat : ℝ) : xyz (lon + 180) (90 - (lat - 90)) = xyz lon lat := by
  simp only [xyz_real, deg_add_180, deg_refl_north, cos_pi_sub, sin_pi_sub, cos_add_pi, sin_add_pi]
  simp
theorem xyz_north_sub (lon lat : ℝ) : xyz (lon - 180) (90 - (lat - 90)) = xyz lon lat := by
  simp only [xyz_real, deg_sub_180, deg_refl_north, cos_pi_sub, sin_pi_sub, cos_sub_pi, sin_sub_pi]
  simp
/-- crossing the south pole -/
theorem xyz_south_add (lon lat : ℝ) : xyz (lon + 180) (-90 - (lat + 90)) = xyz lon lat := by
  simp only [xyz_real, deg_add_180, deg_refl_south, cos_neg, sin_neg, cos_add_pi, sin_add_pi]
  simp
theorem xyz_south_sub (lon lat : ℝ) : xyz (lon - 180) (-90 - (lat + 90)) = xyz lon lat := by
  simp only [xyz_real, deg_sub_180, deg_refl_south, cos_neg, sin_neg, cos_add_pi, sin_add_pi,
    cos_sub_pi, sin_sub_pi]
  simp
/-- a full turn of the longitude -/
theorem xyz_add_360 (lon lat : ℝ) : xyz (lon + 360) lat = xyz lon lat := by
  simp only [xyz_real, deg_add_360, cos_add_two_pi, sin_add_two_pi]
theorem xyz_sub_360 (lon lat : ℝ) : xyz (lon - 360) lat = xyz lon lat := by
  simp only [xyz_real, deg_sub_360, cos_sub_two_pi, sin_sub_two_pi]
/-- the antimeridian has two names -/
theorem xyz_180 (lat : ℝ) : xyz (-180) lat = xyz 180 lat := by
  have h1 : (-180 : ℝ) * (π / 180) = -π := by ring
  have h2 : (180 : ℝ) * (π / 180) = π := by ring
  simp only [xyz_real, h1, h2, cos_neg, sin_neg, sin_pi, neg_zero]

end steps

/-- one round of the pole loop keeps the point -/
theorem latStep_same_point (lon lat : ℚ) :
    xyz (((latStep lon lat).1 : ℚ) : ℝ) (((latStep lon lat).2 : ℚ) : ℝ) = xyz (lon : ℝ) (lat : ℝ) := by
  unfold latStep
  by_cases h1 : lon < 0 <;> by_cases h2 : lat > 90 <;> simp only [h1, h2, if_true, if_false] <;> push_cast
  · exact xyz_north_add _ _
  · exact xyz_south_add _ _
  · exact xyz_north_sub _ _
  · exact xyz_south_sub _ _

theorem latLoop_same_point : ∀ (n : ℕ) (lon lat : ℚ),
    xyz (((latLoop n lon lat).1 : ℚ) : ℝ) (((latLoop n lon lat).2 : ℚ) : ℝ) = xyz (lon : ℝ) (lat : ℝ)
  | 0, _, _ => rfl
  | n+1, lon, lat => by
    unfold latLoop
    by_cases hr : -90 ≤ lat ∧ lat ≤ 90
    · simp only [hr, and_self, if_true]
    · simp only [hr, if_false]
      rw [latLoop_same_point n, latStep_same_point]

theorem lonStep_same_point (lon : ℚ) (lat : ℝ) : xyz ((lonStep lon : ℚ) : ℝ) lat = xyz (lon : ℝ) lat := by
  unfold lonStep
  by_cases h : lon > 180 <;> simp only [h, if_true, if_false] <;> push_cast
  · exact xyz_sub_360 _ _
  · exact xyz_add_360 _ _

theorem lonLoop_same_point : ∀ (n : ℕ) (lon : ℚ) (lat : ℝ),
    xyz ((lonLoop n lon : ℚ) : ℝ) lat = xyz (lon : ℝ) lat
  | 0, _, _ => rfl
  | n+1, lon, lat => by
    rw [lonLoop_succ]
    by_cases hr : -180 ≤ lon ∧ lon ≤ 180
    · simp only [hr, and_self, if_true]
    · simp only [hr, if_false]
      rw [lonLoop_same_point n, lonStep_same_point]

theorem rewrite180_same_point (l : ℚ) (lat : ℝ) :
    xyz (((if l = 180 then -180 else l : ℚ)) : ℝ) lat = xyz (l : ℝ) lat := by
  by_cases h : l = 180
  · simp only [h, if_true]; push_cast; exact xyz_180 lat
  · simp only [h, if_false]

/-- **same point**: the stored coordinate has the unit vector of the raw input — every pole reflection,
    every ±360 wrap and the `180 ↦ -180` rewrite preserve it (for every input, bounded or not) -/
theorem norm_same_point (b : Bool) (lon lat : ℚ) :
    xyz (((normalize b lon lat).1 : ℚ) : ℝ) (((normalize b lon lat).2 : ℚ) : ℝ) = xyz (lon : ℝ) (lat : ℝ) := by
  cases b
  · rw [normalize_false]
  · rw [normalize_true]
    simp only
    rw [rewrite180_same_point, lonLoop_same_point, latLoop_same_point]

/-! ## equality and hashing -/

theorem eq_iff (a b : Coord) : a.eq b = true ↔ a.lon = b.lon ∧ a.lat = b.lat ∧ a.z = b.z := by
  simp only [Coord.eq, Bool.and_eq_true, beq_iff_eq]
  tauto

/-- **`==` implies equal hashes** (after F08a: M is in neither) -/
theorem eq_imp_hash (a b : Coord) (h : a.eq b = true) : a.hashKey = b.hashKey := by
  obtain ⟨h1, h2, h3⟩ := (eq_iff a b).mp h
  simp only [Coord.hashKey, h1, h2, h3]

/-- the hash key separates exactly what `==` separates -/
theorem hash_iff_eq (a b : Coord) : a.hashKey = b.hashKey ↔ a.eq b = true := by
  rw [eq_iff]; simp only [Coord.hashKey, Prod.mk.injEq]

theorem eq_ignores_m (a : Coord) (m' : Option ℚ) : a.eq { a with m := m' } = true := by
  rw [eq_iff]; exact ⟨rfl, rfl, rfl⟩

theorem hash_ignores_m (a : Coord) (m' : Option ℚ) : ({ a with m := m' } : Coord).hashKey = a.hashKey := rfl

theorem eq_refl (a : Coord) : a.eq a = true := by rw [eq_iff]; exact ⟨rfl, rfl, rfl⟩
theorem eq_symm (a b : Coord) : a.eq b = b.eq a := by
  rw [Bool.eq_iff_iff, eq_iff, eq_iff]; constructor <;> (rintro ⟨h1, h2, h3⟩; exact ⟨h1.symm, h2.symm, h3.symm⟩)
theorem eq_trans (a b c : Coord) (h1 : a.eq b = true) (h2 : b.eq c = true) : a.eq c = true := by
  rw [eq_iff] at *
  exact ⟨h1.1.trans h2.1, h1.2.1.trans h2.2.1, h1.2.2.trans h2.2.2⟩

/-- `==` distinguishes Z values -/
theorem eq_sees_z (a : Coord) (z' : Option ℚ) (h : z' ≠ a.z) : a.eq { a with z := z' } = false := by
  rw [Bool.eq_false_iff]; intro h'
  exact h ((eq_iff _ _).mp h').2.2.symm

example : (Coord.new 1 2 (some 3) (some 4)).eq (Coord.new 361 2 (some 3) none) = true := by decide +kernel
example : (Coord.new 1 2 (some 0) none).eq (Coord.new 1 2 none none) = false := by decide +kernel

/-! ## the Z value survives -/

/-- **Z (and M) survive construction** whatever the normalisation does -/
theorem z_survives (lon lat : ℚ) (z m : Option ℚ) (b : Bool) :
    (Coord.new lon lat z m b).z = z ∧ (Coord.new lon lat z m b).m = m := ⟨rfl, rfl⟩

/-- **Z is exported** by `to_float` and `to_str` as the third field whenever it is not `None` — including
    `0` (after F08b) -/
theorem z_exported (c : Coord) (v : ℚ) (hz : c.z = some v) (rev : Bool) :
    (c.toFloat rev)[2]? = some v ∧ (c.toStr rev)[2]? = some v := by
  cases rev <;> cases hm : c.m <;> simp [Coord.toFloat, Coord.toStr, hz, hm]

theorem no_z_no_field (c : Coord) (hz : c.z = none) (hm : c.m = none) (rev : Bool) :
    (c.toFloat rev).length = 2 ∧ (c.toStr rev).length = 2 := by
  cases rev <;> simp [Coord.toFloat, Coord.toStr, hz, hm]

/-- the first two exported fields are the stored longitude and latitude (swapped on `reverse`) -/
theorem export_lonlat (c : Coord) :
    (c.toFloat false).take 2 = [c.lon, c.lat] ∧ (c.toFloat true).take 2 = [c.lat, c.lon] ∧
    (c.toStr false).take 2 = [c.lon, c.lat] ∧ (c.toStr true).take 2 = [c.lat, c.lon] := by
  cases hz : c.z <;> cases hm : c.m <;> simp [Coord.toFloat, Coord.toStr, hz, hm]

example : (Coord.new 200 95 (some 0) none).toFloat = [20, 85, 0] := by decide +kernel

/-! ## unit vector round trip (stretch) -/

section roundtrip
open Real

theorem deg_rad_cancel (x : ℝ) : x * (π / 180) * (180 / π) = x := by
  have := pi_ne_zero
  field_simp

theorem mk_polar (c θ : ℝ) :
    (⟨c * cos θ, c * sin θ⟩ : ℂ) = (c : ℂ) * (Complex.cos θ + Complex.sin θ * Complex.I) := by
  apply Complex.ext <;> simp [← Complex.ofReal_cos, ← Complex.ofReal_sin]

/-- **unit-vector round trip** on the open range: `_from_xyz(xyz)` before the constructor is the identity
    for longitude in `(-180, 180]` and latitude in `(-90, 90)` (at the poles `atan2(0, 0) = 0` loses the
    longitude — same point, different coordinate; see `fromXyz_pole`) -/
theorem fromXyz_xyz (lon lat : ℝ) (h1 : -180 < lon) (h2 : lon ≤ 180) (h3 : -90 < lat) (h4 : lat < 90) :
    fromXyzRaw (xyz lon lat) = (lon, lat) := by
  rw [fromXyzRaw_real, xyz_real]
  simp only
  have hpi := pi_pos
  have hlat1 : -(π / 2) < lat * (π / 180) := by nlinarith
  have hlat2 : lat * (π / 180) < π / 2 := by nlinarith
  have hlon1 : -π < lon * (π / 180) := by nlinarith
  have hlon2 : lon * (π / 180) ≤ π := by nlinarith
  have hcos : 0 < cos (lat * (π / 180)) := cos_pos_of_mem_Ioo ⟨hlat1, hlat2⟩
  have harg : Complex.arg ⟨cos (lat * (π / 180)) * cos (lon * (π / 180)),
      cos (lat * (π / 180)) * sin (lon * (π / 180))⟩ = lon * (π / 180) := by
    rw [mk_polar]
    exact Complex.arg_mul_cos_add_sin_mul_I hcos (θ := lon * (π / 180)) ⟨hlon1, hlon2⟩
  rw [harg, arcsin_sin (le_of_lt hlat1) (le_of_lt hlat2), deg_rad_cancel, deg_rad_cancel]

example : fromXyzRaw (xyz (10 : ℝ) 20) = (10, 20) :=
  fromXyz_xyz 10 20 (by norm_num) (by norm_num) (by norm_num) (by norm_num)

/-- the stored longitude −180 comes back as +180, which the constructor rewrites to −180 again -/
theorem fromXyz_xyz_antimeridian (lat : ℝ) (h3 : -90 < lat) (h4 : lat < 90) :
    fromXyzRaw (xyz (-180) lat) = (180, lat) := by
  rw [xyz_180]; exact fromXyz_xyz 180 lat (by norm_num) (le_refl _) h3 h4

/-- at a pole the latitude comes back and the longitude becomes 0 (the same point) -/
theorem fromXyz_pole (lon : ℝ) :
    fromXyzRaw (xyz lon 90) = (0, 90) ∧ fromXyzRaw (xyz lon (-90)) = (0, -90) := by
  have h1 : (90 : ℝ) * (π / 180) = π / 2 := by ring
  have h2 : (-90 : ℝ) * (π / 180) = -(π / 2) := by ring
  have hz : (⟨0, 0⟩ : ℂ) = 0 := rfl
  have hpi := pi_ne_zero
  constructor
  · rw [fromXyzRaw_real, xyz_real]
    simp only [h1, cos_pi_div_two, sin_pi_div_two, zero_mul, hz, Complex.arg_zero, arcsin_one]
    simp only [Prod.mk.injEq]; constructor
    · simp
    · field_simp; norm_num
  · rw [fromXyzRaw_real, xyz_real]
    simp only [h2, cos_neg, sin_neg, cos_pi_div_two, sin_pi_div_two, zero_mul, hz, Complex.arg_zero,
      arcsin_neg, arcsin_one]
    simp only [Prod.mk.injEq]; constructor
    · simp
    · field_simp; norm_num

end roundtrip

/-- **round trip through the unit vector for stored coordinates** (ℚ-valued, in the canonical range, away
    from the poles): `_from_xyz(c.xyz)` read back through the constructor is `c` -/
theorem fromXyz_xyz_stored (lon lat : ℚ) (h1 : -180 ≤ lon) (h2 : lon < 180) (h3 : -90 < lat) (h4 : lat < 90) :
    ∃ lon' : ℚ, fromXyzRaw (xyz (lon : ℝ) (lat : ℝ)) = ((lon' : ℝ), (lat : ℝ)) ∧
      normalize true lon' lat = (lon, lat) := by
  have h3' : (-90 : ℝ) < lat := by exact_mod_cast h3
  have h4' : (lat : ℝ) < 90 := by exact_mod_cast h4
  by_cases h : lon = -180
  · refine ⟨180, ?_, ?_⟩
    · subst h; push_cast; exact fromXyz_xyz_antimeridian _ h3' h4'
    · subst h
      rw [normalize_true]
      simp only [latLoop_id _ (180:ℚ) lat ⟨le_of_lt h3, le_of_lt h4⟩,
        lonLoop_id _ (180:ℚ) ⟨by norm_num, le_refl _⟩, if_true]
  · refine ⟨lon, ?_, norm_id_in_range true lon lat h1 h2 (le_of_lt h3) (le_of_lt h4)⟩
    apply fromXyz_xyz _ _ _ _ h3' h4'
    · have : -180 < lon := lt_of_le_of_ne h1 (Ne.symm h)
      exact_mod_cast this
    · exact_mod_cast le_of_lt h2

end GV.C08
