import GeoVerif.Gen.SrcCoord
import GeoVerif.Props.C08
/-!
# Source tie for `Coordinate.__init__` (`coordinates.py`)

`GeoVerif/Gen/SrcCoord.lean` is regenerated from the current text of `coordinates.py` on every run: the two `while`
loops become fuelled recursions (the code after a loop is its continuation), the fuel handed in is the model's
computed bound.  The translated constructor is proved equal to the model's `normalize` for every input, and the C08
normal-form theorems are restated for it.
-/
namespace GV.C08Src
open GV

/-- the longitude loop, followed by the `lon == 180` fold -/
theorem loop2_eq (a b : Rat) (z m : Option Rat) (bd : Bool) (lat : Rat) :
    ∀ (n : Nat) (lon : Rat),
      Src.Coord.init.loop2 a b z m bd lat n lon = (if lonLoop n lon = 180 then -180 else lonLoop n lon, lat) := by
  intro n
  induction n with
  | zero =>
    intro lon
    simp only [Src.Coord.init.loop2, lonLoop]
    by_cases h : lon = 180 <;> simp [h]
  | succ n ih =>
    intro lon
    unfold Src.Coord.init.loop2 lonLoop
    by_cases hr : -180 ≤ lon ∧ lon ≤ 180
    · have h1 : (!(decide (((-(180 : Int)) : Rat) ≤ lon) && decide (lon ≤ ((180 : Int) : Rat)))) = false := by
        simp [hr.1, hr.2]
      simp only [h1, hr, if_true]
      by_cases h : lon = 180 <;> simp [h]
    · have h1 : (!(decide (((-(180 : Int)) : Rat) ≤ lon) && decide (lon ≤ ((180 : Int) : Rat)))) = true := by
        simp only [Bool.not_eq_true', Bool.and_eq_false_imp, decide_eq_true_eq, decide_eq_false_iff_not]
        intro h; push_cast at h ⊢; exact fun h2 => hr ⟨h, h2⟩
      simp only [h1, hr, if_true, if_false, ih]
      by_cases h : lon > 180 <;> simp [h]

/-- the latitude loop, followed by everything after it -/
theorem loop1_eq (a b : Rat) (z m : Option Rat) (bd : Bool) :
    ∀ (n : Nat) (lon lat : Rat),
      Src.Coord.init.loop1 a b z m bd n lon lat =
        (if lonLoop (fuelLon (latLoop n lon lat).1) (latLoop n lon lat).1 = 180 then -180
          else lonLoop (fuelLon (latLoop n lon lat).1) (latLoop n lon lat).1, (latLoop n lon lat).2) := by
  intro n
  induction n with
  | zero =>
    intro lon lat
    simp only [Src.Coord.init.loop1, latLoop, loop2_eq]
    first | rfl | (split_ifs <;> rfl)
  | succ n ih =>
    intro lon lat
    unfold Src.Coord.init.loop1 latLoop
    by_cases hr : -90 ≤ lat ∧ lat ≤ 90
    · have h1 : (!(decide (((-(90 : Int)) : Rat) ≤ lat) && decide (lat ≤ ((90 : Int) : Rat)))) = false := by
        simp [hr.1, hr.2]
      simp only [h1, hr, if_true, loop2_eq]
      simp
    · have h1 : (!(decide (((-(90 : Int)) : Rat) ≤ lat) && decide (lat ≤ ((90 : Int) : Rat)))) = true := by
        simp only [Bool.not_eq_true', Bool.and_eq_false_imp, decide_eq_true_eq, decide_eq_false_iff_not]
        intro h; push_cast at h ⊢; exact fun h2 => hr ⟨h, h2⟩
      simp only [h1, hr, if_true, if_false, ih, latStep]
      by_cases hl : lon < 0 <;> by_cases hg : lat > 90 <;> simp [hl, hg]

/-- **the translated constructor is the model's `normalize`** -/
theorem init_eq (lon lat : Rat) (z m : Option Rat) (b : Bool) :
    Src.Coord.init lon lat z m b = normalize b lon lat := by
  cases b
  · simp [Src.Coord.init, normalize]
  · simp only [Src.Coord.init, normalize, loop1_eq, if_true]

/-! ### the C08 normal-form theorems, restated for the translated source -/

/-- the stored pair of the source's constructor is in range -/
theorem src_norm_range (lon lat : ℚ) (z m : Option ℚ) :
    -180 ≤ (Src.Coord.init lon lat z m true).1 ∧ (Src.Coord.init lon lat z m true).1 < 180 ∧
      -90 ≤ (Src.Coord.init lon lat z m true).2 ∧ (Src.Coord.init lon lat z m true).2 ≤ 90 := by
  rw [init_eq]; exact C08.norm_range lon lat

/-- … and constructing again from the stored pair changes nothing -/
theorem src_norm_idem (b : Bool) (lon lat : ℚ) (z m : Option ℚ) :
    Src.Coord.init (Src.Coord.init lon lat z m b).1 (Src.Coord.init lon lat z m b).2 z m b = Src.Coord.init lon lat z m b := by
  simp only [init_eq]; exact C08.norm_idem b lon lat

end GV.C08Src
