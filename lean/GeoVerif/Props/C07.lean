import GeoVerif.Lemmas.SphereBridge
/-!
# C07 — geodesic calculator: distance, bearing and destination are mutually consistent

All theorems are about `Model/Sphere.lean` instantiated at `ℝ` (`Lemmas/NumReal.lean`), i.e. about
the real-number semantics of exactly the formulas the `Float` instance executes against `calc.py`.
A coordinate is `(lon, lat)` in degrees; `R` is the sphere radius (`earthR`, proved positive and equal
to 6 371 000 below).  Rounding (`round_half_up`) is an arbitrary function wherever it occurs.

Not proved (measured by the harness only): binary64 rounding error and the 2 cm figure.
-/
namespace GV.C07

open Real GV.Sphere GV.RealGeo GV.SphereBridge GV.NumReal

/-! ## the sphere -/

/-- the radius in `_const.py` is the 6 371 000 m of the property statement (re-checked against the
    regenerated `Gen/Const.lean` on every run) -/
theorem earth_radius_value : Gen.EARTH_RADIUS = 6371000 := by
  unfold Gen.EARTH_RADIUS; norm_num

theorem earthR_real : (earthR : ℝ) = 6371000 := by
  unfold earthR; rw [NumReal.ofRat_real, earth_radius_value]; norm_num

theorem earthR_pos : (0 : ℝ) < earthR := by rw [earthR_real]; norm_num

/-! ## distance -/

/-- shifting either longitude by whole turns does not change the haversine value -/
theorem havCore_lon_wrap (R : ℝ) (l1 φ1 l2 φ2 : ℝ) (k1 k2 : ℤ) :
    havCore R (l1 + 360 * k1, φ1) (l2 + 360 * k2, φ2) = havCore R (l1, φ1) (l2, φ2) := by
  simp only [havCore_real, radians_add_360]
  have h : havT (radians φ1) (radians φ2) (radians l2 + 2 * (k2 * π) - (radians l1 + 2 * (k1 * π)))
      = havT (radians φ1) (radians φ2) (radians l2 - radians l1) := by
    unfold havT
    have e : (radians l2 + 2 * (k2 * π) - (radians l1 + 2 * (k1 * π))) / 2
        = (radians l2 - radians l1) / 2 + ((k2 - k1 : ℤ) : ℝ) * π := by push_cast; ring
    rw [e, sin_sq_add_int_mul_pi]
  rw [h]

/-- **antimeridian un-wrapping is immaterial**: `ensure_edge_bounds` only moves the second longitude
    by whole turns, which the haversine formula cannot see -/
theorem hav_ensure_irrelevant (R : ℝ) (c1 c2 : RC) : haversine R c1 c2 = havCore R c1 c2 := by
  unfold haversine
  obtain ⟨h1, h2, k, hk⟩ := ensureEdge_spec c1 c2
  have e : (ensureEdge c1 c2).2 = (c2.1 + 360 * k, c2.2) := Prod.ext hk h2
  simp only [h1, e]
  have := havCore_lon_wrap R c1.1 c1.2 c2.1 c2.2 0 k
  simpa using this

/-- **symmetric** -/
theorem hav_symm (R : ℝ) (c1 c2 : RC) : haversine R c1 c2 = haversine R c2 c1 := by
  rw [hav_ensure_irrelevant, hav_ensure_irrelevant, havCore_real, havCore_real]
  have : havT (radians c1.2) (radians c2.2) (radians c2.1 - radians c1.1)
      = havT (radians c2.2) (radians c1.2) (radians c1.1 - radians c2.1) := by
    unfold havT
    have h1 : sin ((radians c1.2 - radians c2.2) / 2) = - sin ((radians c2.2 - radians c1.2) / 2) := by
      rw [← sin_neg]; congr 1; ring
    have h2 : sin ((radians c1.1 - radians c2.1) / 2) = - sin ((radians c2.1 - radians c1.1) / 2) := by
      rw [← sin_neg]; congr 1; ring
    rw [h1, h2]; ring
  rw [this]

/-- **zero for identical points** -/
theorem hav_self (R : ℝ) (c : RC) : haversine R c c = 0 := by
  rw [hav_ensure_irrelevant, havCore_real]
  have : havT (radians c.2) (radians c.2) (radians c.1 - radians c.1) = 0 := by
    unfold havT; simp
  rw [this]
  norm_num [atan2_zero_one]

theorem hav_nonneg {R : ℝ} (hR : 0 ≤ R) (c1 c2 : RC) : 0 ≤ haversine R c1 c2 := by
  rw [hav_ensure_irrelevant, havCore_real]
  have := atan2_nonneg
    (√(1 - min (havT (radians c1.2) (radians c2.2) (radians c2.1 - radians c1.1)) 1))
    (sqrt_nonneg (min (havT (radians c1.2) (radians c2.2) (radians c2.1 - radians c1.1)) 1))
  positivity

/-- **never more than half the circumference** -/
theorem hav_le_half_circumference {R : ℝ} (hR : 0 ≤ R) (c1 c2 : RC) : haversine R c1 c2 ≤ π * R := by
  rw [hav_ensure_irrelevant, havCore_real]
  have := atan2_le_pi_div_two
    (√(min (havT (radians c1.2) (radians c2.2) (radians c2.1 - radians c1.1)) 1))
    (sqrt_nonneg (1 - min (havT (radians c1.2) (radians c2.2) (radians c2.1 - radians c1.1)) 1))
  nlinarith

/-- whole-turn changes of either longitude (what the normalising `Coordinate` constructor does when a
    point moves across the antimeridian) leave the distance unchanged -/
theorem hav_lon_wrap (R : ℝ) (l1 φ1 l2 φ2 : ℝ) (k1 k2 : ℤ) :
    haversine R (l1 + 360 * k1, φ1) (l2 + 360 * k2, φ2) = haversine R (l1, φ1) (l2, φ2) := by
  rw [hav_ensure_irrelevant, hav_ensure_irrelevant, havCore_lon_wrap]

/-- **unchanged when both points are shifted by the same longitude, including across the
    antimeridian** (`k1`, `k2`: the turns by which the constructor re-wraps each shifted point) -/
theorem hav_lon_shift (R : ℝ) (l1 φ1 l2 φ2 s : ℝ) (k1 k2 : ℤ) :
    haversine R (l1 + s + 360 * k1, φ1) (l2 + s + 360 * k2, φ2) = haversine R (l1, φ1) (l2, φ2) := by
  rw [hav_lon_wrap, hav_ensure_irrelevant, hav_ensure_irrelevant, havCore_real, havCore_real]
  simp only [radians_add]
  have : radians l2 + radians s - (radians l1 + radians s) = radians l2 - radians l1 := by ring
  rw [this]

/-- cosine of the latitude is non-negative inside the coordinate range -/
theorem cos_lat_nonneg {lat : ℝ} (h : |lat| ≤ 90) : 0 ≤ cos (radians lat) := by
  rw [radians_real]
  have := abs_le.mp h
  apply cos_nonneg_of_neg_pi_div_two_le_of_le <;> nlinarith [pi_pos]

/-- **the distance is the central angle of the two position vectors times `R`**: with `u`, `v` the
    unit vectors of `Coordinate.xyz`, `haversine = R · arccos (u · v)` -/
theorem hav_eq_central_angle (R : ℝ) (c1 c2 : RC) (h1 : |c1.2| ≤ 90) (h2 : |c2.2| ≤ 90) :
    haversine R c1 c2 = R * arccos (dot3 (xyz c1) (xyz c2)) := by
  rw [hav_ensure_irrelevant, havCore_real, dot3_xyz]
  set D := sin (radians c1.2) * sin (radians c2.2) +
    cos (radians c1.2) * cos (radians c2.2) * cos (radians c2.1 - radians c1.1) with hD
  obtain ⟨hl, hu⟩ := dot_mem (radians c1.2) (radians c2.2) (radians c2.1 - radians c1.1)
    (cos_lat_nonneg h1) (cos_lat_nonneg h2)
  have hT : havT (radians c1.2) (radians c2.2) (radians c2.1 - radians c1.1) = sin (arccos D / 2) ^ 2 := by
    rw [havT_eq_dot, sin_sq_half', cos_arccos hl hu]
  rw [hT, min_eq_left (by nlinarith [sin_sq_le_one (arccos D / 2)] : sin (arccos D / 2) ^ 2 ≤ 1)]
  have := two_atan2_sqrt (arccos_nonneg D) (arccos_le_pi D)
  rw [mul_assoc, this]

/-- **the haversine distance and the unit-vector distance `dist_xyz_meters` are the same function**
    on the coordinate range -/
theorem hav_eq_distXyz (R : ℝ) (c1 c2 : RC) (h1 : |c1.2| ≤ 90) (h2 : |c2.2| ≤ 90) :
    haversine R c1 c2 = distXyz R c1 c2 := by
  rw [hav_eq_central_angle R c1 c2 h1 h2, distXyz_real, dot3_xyz]
  obtain ⟨hl, hu⟩ := dot_mem (radians c1.2) (radians c2.2) (radians c2.1 - radians c1.1)
    (cos_lat_nonneg h1) (cos_lat_nonneg h2)
  rw [clampUnit_of_mem hl hu]; ring

/-! ## `dist_xyz_meters` -/

theorem clampUnit_range (d : ℝ) : -1 ≤ clampUnit d ∧ clampUnit d ≤ 1 := by
  rw [clampUnit_real]
  exact ⟨le_max_left _ _, max_le (by norm_num) (min_le_right _ _)⟩

/-- the argument handed to `acos` is always inside its domain and the result is a distance in
    `[0, πR]` (F07b: the un-clamped code raised for ≈10 % of `dist_xyz_meters(c, c)`) -/
theorem distXyz_range {R : ℝ} (hR : 0 ≤ R) (c1 c2 : RC) :
    0 ≤ distXyz R c1 c2 ∧ distXyz R c1 c2 ≤ π * R := by
  rw [distXyz_real]
  exact ⟨mul_nonneg (arccos_nonneg _) hR, mul_le_mul_of_nonneg_right (arccos_le_pi _) hR⟩

theorem distXyz_self (R : ℝ) (c : RC) : distXyz R c c = 0 := by
  rw [distXyz_real, dot3_xyz]
  have : sin (radians c.2) * sin (radians c.2) +
      cos (radians c.2) * cos (radians c.2) * cos (radians c.1 - radians c.1) = 1 := by
    rw [sub_self, cos_zero]; nlinarith [sin_sq_add_cos_sq (radians c.2)]
  rw [this, clampUnit_of_mem (by norm_num) (by norm_num), arccos_one, zero_mul]

theorem distXyz_symm (R : ℝ) (c1 c2 : RC) : distXyz R c1 c2 = distXyz R c2 c1 := by
  rw [distXyz_real, distXyz_real, dot3_xyz, dot3_xyz]
  have : cos (radians c2.1 - radians c1.1) = cos (radians c1.1 - radians c2.1) := by
    rw [← cos_neg]; congr 1; ring
  rw [this]; congr 3; ring

/-! ## bearing -/

/-- **the bearing is in `[0, 360)`** whatever `round_half_up` returns (the `% 360` after the rounding
    is the F07a repair; without it a value of `359.999995…` came back as `360.0`) -/
theorem bearing_range (rnd : ℝ → ℝ) (c1 c2 : RC) :
    0 ≤ bearing rnd c1 c2 ∧ bearing rnd c1 c2 < 360 := by
  unfold bearing
  have := pymod_range (rnd (bearingUnrounded c1 c2)) (m := 360) (by norm_num)
  simpa [NumReal.ofI_real] using this

theorem bearingUnrounded_range (c1 c2 : RC) :
    0 ≤ bearingUnrounded c1 c2 ∧ bearingUnrounded c1 c2 < 360 := by
  unfold bearingUnrounded
  have := pymod_range (bearingRaw c1 c2 + 360) (m := 360) (by norm_num)
  simpa [NumReal.ofI_real, NumReal.add_real] using this

/-- the un-rounded bearing is the raw azimuth `degrees (atan2 x y)` up to whole turns -/
theorem bearingUnrounded_congr (c1 c2 : RC) :
    ∃ k : ℤ, bearingUnrounded c1 c2 = bearingRaw c1 c2 + 360 * k := by
  unfold bearingUnrounded
  rw [pymod_real]
  refine ⟨1 - ⌊(bearingRaw c1 c2 + 360) / 360⌋, ?_⟩
  simp only [NumReal.ofI_real, NumReal.add_real]
  push_cast; ring

/-! ## destination -/

theorem dest_deg_eq_rad (rnd : ℝ → ℝ) (R : ℝ) (s : RC) (a d : ℝ) :
    destinationDeg rnd R s a d = destination rnd R s (radians a) d := rfl

/-- the un-rounded final latitude is a latitude -/
theorem dest_lat_range (R : ℝ) (s : RC) (θ d : ℝ) : |(destRaw R s θ d).2| ≤ 90 := by
  simp only [destRaw_real, degrees_real]
  obtain ⟨h1, h2⟩ := dLat_mem (radians s.2) θ (d / R)
  rw [abs_le]
  have hp := pi_pos
  constructor
  · rw [show (-90 : ℝ) = -(π / 2) * (180 / π) by field_simp; norm_num]
    exact mul_le_mul_of_nonneg_right h1 (div_nonneg (by norm_num) hp.le)
  · rw [show (90 : ℝ) = (π / 2) * (180 / π) by field_simp; norm_num]
    exact mul_le_mul_of_nonneg_right h2 (div_nonneg (by norm_num) hp.le)

/-- **travelling `d` on any bearing ends at haversine distance exactly `d`** (before the 1e-7°
    rounding), for every start inside the coordinate range (poles included) and `0 ≤ d ≤ πR`;
    `k` is the number of turns by which the normalising constructor re-wraps the longitude -/
theorem dest_dist_wrapped {R : ℝ} (hR : 0 < R) (s : RC) (θ d : ℝ) (hlat : |s.2| ≤ 90)
    (h0 : 0 ≤ d) (h1 : d ≤ π * R) (k : ℤ) :
    haversine R s ((destRaw R s θ d).1 + 360 * k, (destRaw R s θ d).2) = d := by
  have hw := hav_lon_wrap R s.1 s.2 (destRaw R s θ d).1 (destRaw R s θ d).2 0 k
  simp only [Int.cast_zero, mul_zero, add_zero] at hw
  rw [hw, hav_ensure_irrelevant, havCore_real, destRaw_real]
  simp only [radians_degrees]
  have e : radians s.1 + dDLon (radians s.2) θ (d / R) - radians s.1 = dDLon (radians s.2) θ (d / R) := by
    ring
  rw [e, havT_dest _ _ _ (cos_lat_nonneg hlat),
    min_eq_left (by nlinarith [sin_sq_le_one (d / R / 2)] : sin (d / R / 2) ^ 2 ≤ 1)]
  have hδ0 : 0 ≤ d / R := div_nonneg h0 hR.le
  have hδ1 : d / R ≤ π := by rw [div_le_iff₀ hR]; exact h1
  rw [mul_assoc, two_atan2_sqrt hδ0 hδ1]
  field_simp

theorem dest_dist {R : ℝ} (hR : 0 < R) (s : RC) (θ d : ℝ) (hlat : |s.2| ≤ 90)
    (h0 : 0 ≤ d) (h1 : d ≤ π * R) : haversine R s (destRaw R s θ d) = d := by
  have := dest_dist_wrapped hR s θ d hlat h0 h1 0
  simpa using this

/-- the two arguments `bearing_degrees` hands to `atan2` for a start and its (un-rounded) destination
    are `sin δ · sin θ` and `sin δ · cos θ` (δ = d / R), for a start off the poles -/
theorem dest_bearing_xy (R : ℝ) (s : RC) (θ d : ℝ) (hlat : |s.2| < 90) :
    bearingX s (destRaw R s θ d) = sin (d / R) * sin θ ∧
    bearingY s (destRaw R s θ d) = sin (d / R) * cos θ := by
  obtain ⟨hx, hy⟩ := bearingXY_real s (destRaw R s θ d)
  rw [hx, hy, destRaw_real]
  simp only [radians_sub, radians_degrees]
  have e : radians s.1 + dDLon (radians s.2) θ (d / R) - radians s.1 = dDLon (radians s.2) θ (d / R) := by
    ring
  rw [e]
  set φ := radians s.2 with hφ
  set δ := d / R with hδ
  -- cos φ > 0 off the poles
  have hc : 0 < cos φ := by
    rw [hφ, radians_real]
    have := abs_lt.mp hlat
    apply cos_pos_of_mem_Ioo; constructor <;> nlinarith [pi_pos]
  have hC := dest_cos_dlon φ θ δ hc.le
  have hS := dest_sin_dlon φ θ δ hc.le
  rw [dX_eq] at hC
  constructor
  · have : cos φ * (cos (dLat φ θ δ) * sin (dDLon φ θ δ)) = cos φ * (sin δ * sin θ) := by
      rw [← mul_assoc, hS]; unfold dY; ring
    exact mul_left_cancel₀ hc.ne' this
  · have hs := sin_sq_add_cos_sq φ
    have : cos φ * (cos φ * sin (dLat φ θ δ) - sin φ * cos (dLat φ θ δ) * cos (dDLon φ θ δ))
        = cos φ * (sin δ * cos θ) := by
      rw [sin_dLat]
      have hC' : cos φ * cos (dLat φ θ δ) * cos (dDLon φ θ δ) = cos δ - sin φ * dS2 φ θ δ := hC
      calc cos φ * (cos φ * dS2 φ θ δ - sin φ * cos (dLat φ θ δ) * cos (dDLon φ θ δ))
          = cos φ ^ 2 * dS2 φ θ δ - sin φ * (cos φ * cos (dLat φ θ δ) * cos (dDLon φ θ δ)) := by ring
        _ = cos φ ^ 2 * dS2 φ θ δ - sin φ * (cos δ - sin φ * dS2 φ θ δ) := by rw [hC']
        _ = (sin φ ^ 2 + cos φ ^ 2) * dS2 φ θ δ - sin φ * cos δ := by ring
        _ = cos φ * (sin δ * cos θ) := by rw [hs]; unfold dS2; ring
    exact mul_left_cancel₀ hc.ne' this

theorem sin_ratio_pos {R d : ℝ} (hR : 0 < R) (h0 : 0 < d) (h1 : d < π * R) : 0 < sin (d / R) :=
  sin_pos_of_pos_of_lt_pi (div_pos h0 hR) (by rw [div_lt_iff₀ hR]; exact h1)

/-- **the initial bearing towards the destination is the requested bearing**: for a start off the
    poles, `0 < d < πR` and a heading `θ ∈ (-π, π]`, the raw azimuth `degrees (atan2 x y)` computed by
    `bearing_degrees` towards the un-rounded destination is `θ` (in degrees) -/
theorem dest_bearing {R : ℝ} (hR : 0 < R) (s : RC) (θ d : ℝ) (hlat : |s.2| < 90)
    (h0 : 0 < d) (h1 : d < π * R) (hθ0 : -π < θ) (hθ1 : θ ≤ π) :
    bearingRaw s (destRaw R s θ d) = degrees θ := by
  unfold bearingRaw
  obtain ⟨hx, hy⟩ := dest_bearing_xy R s θ d hlat
  rw [hx, hy, NumReal.atan2_real, atan2_smul (sin_ratio_pos hR h0 h1), atan2_sin_cos hθ0 hθ1]

theorem pymod_add_turns (x : ℝ) (n : ℤ) : pymod (x + 360 * n) 360 = pymod x 360 := by
  rw [pymod_real, pymod_real]
  have : (x + 360 * (n : ℝ)) / 360 = x / 360 + n := by ring
  rw [this, Int.floor_add_intCast]; push_cast; ring

/-- … and for **any** heading `θ` (the ring generators use `0 … 2π` and `angle + rotation`): the
    un-rounded bearing `(degrees (atan2 x y) + 360) % 360` towards the destination is the requested
    heading reduced to `[0, 360)` -/
theorem dest_bearing_mod {R : ℝ} (hR : 0 < R) (s : RC) (θ d : ℝ) (hlat : |s.2| < 90)
    (h0 : 0 < d) (h1 : d < π * R) :
    bearingUnrounded s (destRaw R s θ d) = pymod (degrees θ) 360 := by
  unfold bearingUnrounded bearingRaw
  obtain ⟨hx, hy⟩ := dest_bearing_xy R s θ d hlat
  rw [hx, hy, NumReal.atan2_real, atan2_smul (sin_ratio_pos hR h0 h1)]
  obtain ⟨n, hn⟩ := atan2_sin_cos_int θ
  rw [hn]
  have : degrees (θ + 2 * π * n) + Num.ofI 360 = degrees θ + 360 * ((n + 1 : ℤ) : ℝ) := by
    rw [degrees_real, degrees_real, NumReal.ofI_real]; push_cast; field_simp; ring
  rw [NumReal.add_real, this]
  have h360 : (Num.ofI 360 : ℝ) = 360 := by rw [NumReal.ofI_real]; norm_num
  rw [h360, pymod_add_turns]

/-! ## rotation -/

/-- **rotation preserves the planar distance to the origin** (before the result is re-normalised by
    the `Coordinate` constructor; interpretation I5) -/
theorem rotPlain_preserves_dist (o : RC) (deg : ℝ) (q : RC) :
    ((rotPlain o deg q).1 - o.1) ^ 2 + ((rotPlain o deg q).2 - o.2) ^ 2
      = (q.1 - o.1) ^ 2 + (q.2 - o.2) ^ 2 := by
  rw [rotPlain_real]
  simp only
  have := sin_sq_add_cos_sq (radians deg)
  linear_combination ((q.1 - o.1) ^ 2 + (q.2 - o.2) ^ 2) * this

/-- `rotate_coordinates` rotates the antimeridian-un-wrapped copy `q` of each point (`q = p` whenever
    the point is within 180° of longitude of the origin) and keeps its planar distance to the origin -/
theorem rotate_preserves_planar_dist (o : RC) (deg : ℝ) (p : RC) :
    ((rotateRaw o deg p).1 - o.1) ^ 2 + ((rotateRaw o deg p).2 - o.2) ^ 2
      = ((ensureEdge o p).2.1 - o.1) ^ 2 + ((ensureEdge o p).2.2 - o.2) ^ 2 ∧
    (|o.1 - p.1| ≤ 180 → (ensureEdge o p).2 = p) := by
  refine ⟨rotPlain_preserves_dist o deg _, fun h => ?_⟩
  rw [ensureEdge_near o p h]

/-- **rotations compose additively** -/
theorem rotate_add (o : RC) (a b : ℝ) (q : RC) :
    rotPlain o (a + b) q = rotPlain o a (rotPlain o b q) := by
  simp only [rotPlain_real, radians_add, cos_add, sin_add]
  refine Prod.ext ?_ ?_ <;> (simp only; ring)

theorem rotate_zero (o : RC) (q : RC) : rotPlain o 0 q = q := by
  rw [rotPlain_real, radians_zero, cos_zero, sin_zero]
  refine Prod.ext ?_ ?_ <;> (simp only; ring)

/-! ## non-vacuity: the hypotheses of the main theorems are satisfiable by non-trivial values -/

example : haversine (earthR : ℝ) (10, 45) (destRaw earthR (10, 45) 1 100000) = 100000 :=
  dest_dist earthR_pos (10, 45) 1 100000 (by norm_num [abs_le]) (by norm_num)
    (by rw [earthR_real]; nlinarith [two_le_pi])

example : bearingRaw (10, 45) (destRaw (earthR : ℝ) (10, 45) 1 100000) = degrees 1 :=
  dest_bearing earthR_pos (10, 45) 1 100000 (by norm_num [abs_lt]) (by norm_num)
    (by rw [earthR_real]; nlinarith [two_le_pi]) (by linarith [pi_pos]) (by linarith [two_le_pi])

example : haversine (earthR : ℝ) (179, 10) (-179, -20) = distXyz earthR (179, 10) (-179, -20) :=
  hav_eq_distXyz _ _ _ (by norm_num [abs_le]) (by norm_num [abs_le])

end GV.C07
