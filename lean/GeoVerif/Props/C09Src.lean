import GeoVerif.Gen.SrcBounds
import GeoVerif.Props.C09
/-!
# Source tie for `bounds` and `circumscribing_rectangle` (`structures.py`, `_base.py`, `collections.py`)

`GeoVerif/Gen/SrcBounds.lean` is regenerated from the current text of the three files on every run.  The source
computes bounds *column-wise* (`zip(*rows)`, then `min` / `max` of each column, or four generator expressions), the
model (`bboxOf`, `unionBounds`) is one fold over the rows that carries all four extremes: the two are proved equal for
every list, the empty one included (`ValueError` ↔ `none`).  The headline enclosure theorems of `Props/C09.lean` are
restated for the translated definitions.
-/
namespace GV.C09Src
open GV GV.Bounds

/-- the model's `none` is Python's `ValueError` (`min()` of an empty iterable / unpacking of no columns) -/
def ofOpt {α : Type} : Option α → Except String α
  | none => .error "ERR:Value"
  | some b => .ok b

@[simp] theorem ofOpt_some {α : Type} (b : α) : ofOpt (some b) = .ok b := rfl
@[simp] theorem ofOpt_none {α : Type} : (ofOpt (none : Option α)) = .error "ERR:Value" := rfl

theorem ofOpt_ok_iff {α : Type} (o : Option α) (b : α) : ofOpt o = .ok b ↔ o = some b := by
  cases o <;> simp [ofOpt]

/-! ## folds: one fold over the rows = one fold per column -/

/-- the fold of `bboxOf`, column by column -/
theorem foldl_bstep (ps : List Pt) : ∀ b : BBox, ps.foldl C09.bstep b =
    ((ps.map (·.1)).foldl minR b.1, (ps.map (·.2)).foldl minR b.2.1,
      (ps.map (·.1)).foldl maxR b.2.2.1, (ps.map (·.2)).foldl maxR b.2.2.2) := by
  induction ps with
  | nil => intro b; rfl
  | cons q qs ih => intro b; simp only [List.foldl_cons, List.map_cons, ih, C09.bstep]

/-- the fold of `unionBounds`, column by column -/
theorem foldl_ustep (cs : List BBox) : ∀ u : BBox, cs.foldl C09.ustep u =
    ((cs.map (·.1)).foldl minR u.1, (cs.map (·.2.1)).foldl minR u.2.1,
      (cs.map (·.2.2.1)).foldl maxR u.2.2.1, (cs.map (·.2.2.2)).foldl maxR u.2.2.2) := by
  induction cs with
  | nil => intro u; rfl
  | cons c cs ih => intro u; simp only [List.foldl_cons, List.map_cons, ih, C09.ustep]

theorem bboxOf_cols (p : Pt) (ps : List Pt) : bboxOf (p :: ps) =
    some ((ps.map (·.1)).foldl minR p.1, (ps.map (·.2)).foldl minR p.2,
      (ps.map (·.1)).foldl maxR p.1, (ps.map (·.2)).foldl maxR p.2) := by
  rw [C09.bboxOf_cons, foldl_bstep]

theorem unionBounds_cols (b : BBox) (bs : List BBox) : unionBounds (b :: bs) =
    some ((bs.map (·.1)).foldl minR b.1, (bs.map (·.2.1)).foldl minR b.2.1,
      (bs.map (·.2.2.1)).foldl maxR b.2.2.1, (bs.map (·.2.2.2)).foldl maxR b.2.2.2) := by
  rw [C09.unionBounds_cons, foldl_ustep]

/-! ## the translated definitions are the model's -/

/-- **`GeoBox.bounds`** -/
theorem boxBounds_eq (nw se : Pt) : Src.Bounds.boxBounds (nw, se) = boxBounds nw se := rfl

/-- **`GeoPoint.bounds`** -/
theorem pointBounds_eq (p : Pt) : Src.Bounds.pointBounds p = pointBounds p := rfl

/-- … which is the bounding box of the single vertex -/
theorem pointBounds_bbox (p : Pt) : bboxOf [p] = some (Src.Bounds.pointBounds p) := rfl

/-- **`GeoPolygon.bounds`** is `bboxOf` of the outline (`ValueError` on an empty outline) -/
theorem polygonBounds_eq (outline : List Pt) : Src.Bounds.polygonBounds outline = ofOpt (bboxOf outline) := by
  cases outline with
  | nil => rfl
  | cons p ps =>
    rw [bboxOf_cols]
    simp [Src.Bounds.polygonBounds]

/-- **`GeoLineString.bounds`** is `bboxOf` of the vertices -/
theorem lineBounds_eq (vs : List Pt) : Src.Bounds.lineBounds vs = ofOpt (bboxOf vs) := by
  cases vs with
  | nil => rfl
  | cons p ps =>
    rw [bboxOf_cols]
    simp [Src.Bounds.lineBounds]

/-- **`MultiShapeBase.bounds`** is `unionBounds` of the members' bounds (`ValueError` for no members) -/
theorem multiBounds_eq (bs : List BBox) : Src.Bounds.multiBounds bs = ofOpt (unionBounds bs) := by
  cases bs with
  | nil => rfl
  | cons b bs =>
    rw [unionBounds_cols]
    simp [Src.Bounds.multiBounds]

/-- **`CollectionBase.bounds`** is `unionBounds` of the members' bounds (`ValueError` for an empty collection) -/
theorem collBounds_eq (bs : List BBox) : Src.Bounds.collBounds bs = ofOpt (unionBounds bs) := by
  cases bs with
  | nil => rfl
  | cons b bs =>
    rw [unionBounds_cols]
    simp [Src.Bounds.collBounds]

/-- **`PolygonLikeMixin.circumscribing_rectangle`**: the model's `rectFromBounds` of the shape's bounds -/
theorem polyLikeRect_eq (b : BBox) : Src.Bounds.polyLikeRect b = rectFromBounds b := by
  simp only [Src.Bounds.polyLikeRect, rectFromBounds]

/-- **`LineLikeMixin.circumscribing_rectangle`** -/
theorem lineLikeRect_eq (b : BBox) : Src.Bounds.lineLikeRect b = rectFromBounds b := by
  simp only [Src.Bounds.lineLikeRect, rectFromBounds]

/-- **`GeoLineString.circumscribing_rectangle`** (its own override, which recomputes the extremes): `rectFromBounds` of
    the bounding box of the vertices -/
theorem lineRect_eq (vs : List Pt) : Src.Bounds.lineRect vs = ofOpt ((bboxOf vs).map rectFromBounds) := by
  cases vs with
  | nil => rfl
  | cons p ps =>
    rw [bboxOf_cols]
    simp [Src.Bounds.lineRect, rectFromBounds]

/-- **`GeoBox.circumscribing_rectangle`** is the box itself -/
theorem boxRect_eq (nw se : Pt) : Src.Bounds.boxRect (nw, se) = (nw, se) := rfl

/-! ## the assumption of `Props/C01Src.lean` (`polyContainsCoordinate_model`), discharged

SrcMember takes `self.bounds` of a polygon as a parameter `bnd` with `bboxOf outline = some bnd`: that is what the
translated `GeoPolygon.bounds` returns. -/

theorem polygonBounds_is_bbox {outline : List Pt} {bnd : BBox} (h : Src.Bounds.polygonBounds outline = .ok bnd) :
    bboxOf outline = some bnd := by
  rw [polygonBounds_eq] at h; exact (ofOpt_ok_iff _ _).mp h

/-- on a non-empty outline the source's `bounds` does not raise -/
theorem polygonBounds_ok (v : Pt) (vs : List Pt) : ∃ bnd, Src.Bounds.polygonBounds (v :: vs) = .ok bnd ∧
    bboxOf (v :: vs) = some bnd := by
  obtain ⟨b, hb⟩ := C09.bboxOf_isSome (l := v :: vs) (by simp)
  exact ⟨b, by rw [polygonBounds_eq, hb]; rfl, hb⟩

/-! ## the C09 enclosure theorems, restated for the translated source -/

/-- **every vertex of a polygon lies within the source's `bounds`** … -/
theorem src_polygon_bounds_enclose {outline : List Pt} {b : BBox} (h : Src.Bounds.polygonBounds outline = .ok b) :
    ∀ p ∈ outline, b.1 ≤ p.1 ∧ p.1 ≤ b.2.2.1 ∧ b.2.1 ≤ p.2 ∧ p.2 ≤ b.2.2.2 :=
  C09.vertex_bounds_minmax (polygonBounds_is_bbox h)

/-- … **and each side is attained by a vertex** -/
theorem src_polygon_bounds_attained {outline : List Pt} {b : BBox} (h : Src.Bounds.polygonBounds outline = .ok b) :
    (∃ p ∈ outline, p.1 = b.1) ∧ (∃ p ∈ outline, p.2 = b.2.1) ∧ (∃ p ∈ outline, p.1 = b.2.2.1) ∧
      (∃ p ∈ outline, p.2 = b.2.2.2) :=
  C09.vertex_bounds_attained (polygonBounds_is_bbox h)

/-- the same for a linestring -/
theorem src_line_bounds_enclose {vs : List Pt} {b : BBox} (h : Src.Bounds.lineBounds vs = .ok b) :
    (∀ p ∈ vs, b.1 ≤ p.1 ∧ p.1 ≤ b.2.2.1 ∧ b.2.1 ≤ p.2 ∧ p.2 ≤ b.2.2.2) ∧
      ((∃ p ∈ vs, p.1 = b.1) ∧ (∃ p ∈ vs, p.2 = b.2.1) ∧ (∃ p ∈ vs, p.1 = b.2.2.1) ∧ (∃ p ∈ vs, p.2 = b.2.2.2)) := by
  rw [lineBounds_eq] at h
  have h' := (ofOpt_ok_iff _ _).mp h
  exact ⟨C09.vertex_bounds_minmax h', C09.vertex_bounds_attained h'⟩

/-- the source's `GeoBox.bounds` is the min / max box of the box's five outline vertices (well-formed box) -/
theorem src_box_bounds_def (nw se : Pt) (hx : nw.1 ≤ se.1) (hy : se.2 ≤ nw.2) :
    C09.IsBBox [nw, (nw.1, se.2), se, (se.1, nw.2), nw] (Src.Bounds.boxBounds (nw, se)) :=
  C09.box_bounds_def nw se hx hy

/-- **the source's bounds of a multi-shape enclose every member's bounds** (and each side is a member's) -/
theorem src_multi_bounds_contains {bs : List BBox} {u : BBox} (h : Src.Bounds.multiBounds bs = .ok u) :
    (∀ b ∈ bs, u.1 ≤ b.1 ∧ u.2.1 ≤ b.2.1 ∧ b.2.2.1 ≤ u.2.2.1 ∧ b.2.2.2 ≤ u.2.2.2) ∧
      ((∃ b ∈ bs, b.1 = u.1) ∧ (∃ b ∈ bs, b.2.1 = u.2.1) ∧ (∃ b ∈ bs, b.2.2.1 = u.2.2.1) ∧ (∃ b ∈ bs, b.2.2.2 = u.2.2.2)) := by
  rw [multiBounds_eq] at h
  have h' := (ofOpt_ok_iff _ _).mp h
  exact ⟨C09.union_bounds_contains h', C09.union_bounds_attained h'⟩

/-- **the source's bounds of a collection enclose every member's bounds** (and each side is a member's) -/
theorem src_coll_bounds_contains {bs : List BBox} {u : BBox} (h : Src.Bounds.collBounds bs = .ok u) :
    (∀ b ∈ bs, u.1 ≤ b.1 ∧ u.2.1 ≤ b.2.1 ∧ b.2.2.1 ≤ u.2.2.1 ∧ b.2.2.2 ≤ u.2.2.2) ∧
      ((∃ b ∈ bs, b.1 = u.1) ∧ (∃ b ∈ bs, b.2.1 = u.2.1) ∧ (∃ b ∈ bs, b.2.2.1 = u.2.2.1) ∧ (∃ b ∈ bs, b.2.2.2 = u.2.2.2)) := by
  rw [collBounds_eq] at h
  have h' := (ofOpt_ok_iff _ _).mp h
  exact ⟨C09.union_bounds_contains h', C09.union_bounds_attained h'⟩

/-- **a multi-polygon's / multi-linestring's source bounds are the min / max box of all member vertices together**:
    members given by their vertex lists, each member's bounds computed by the source's `GeoPolygon.bounds` -/
theorem src_multi_bounds_eq_bbox_join (ls : List (List Pt)) (bs : List BBox) (u : BBox)
    (hb : ls.map Src.Bounds.polygonBounds = bs.map .ok) (hu : Src.Bounds.multiBounds bs = .ok u) :
    bboxOf ls.flatten = some u := by
  rw [multiBounds_eq] at hu
  refine C09.union_bounds_eq_bbox_join ls bs u ?_ ((ofOpt_ok_iff _ _).mp hu)
  apply List.ext_getElem
  · simpa using congrArg List.length hb
  · intro i h1 h2
    have hi : i < ls.length := by simpa using h1
    have hj : i < bs.length := by simpa using h2
    have := congrArg (fun l => l[i]?) hb
    simp only [List.getElem?_map, List.getElem?_eq_getElem hi, List.getElem?_eq_getElem hj, Option.map_some,
      Option.some.injEq] at this
    simp only [List.getElem_map]
    exact polygonBounds_is_bbox this

/-- **the source's circumscribing rectangle has exactly the shape's bounds** (bounds inside the coordinate range) -/
theorem src_rect_has_bounds (b : BBox) (h1 : -180 ≤ b.1) (h2 : b.1 < 180) (h3 : -180 ≤ b.2.2.1)
    (h4 : b.2.2.1 < 180) (h5 : -90 ≤ b.2.1) (h6 : b.2.1 ≤ 90) (h7 : -90 ≤ b.2.2.2) (h8 : b.2.2.2 ≤ 90) :
    Src.Bounds.boxBounds (Src.Bounds.polyLikeRect b) = b ∧ Src.Bounds.boxBounds (Src.Bounds.lineLikeRect b) = b := by
  have := C09.rect_from_bounds_has_bounds b h1 h2 h3 h4 h5 h6 h7 h8
  exact ⟨this, this⟩

/-- the linestring's own rectangle is the mixin's rectangle of the linestring's own bounds -/
theorem src_lineRect_consistent (vs : List Pt) (b : BBox) (h : Src.Bounds.lineBounds vs = .ok b) :
    Src.Bounds.lineRect vs = .ok (Src.Bounds.lineLikeRect b) := by
  rw [lineBounds_eq] at h
  rw [lineRect_eq, (ofOpt_ok_iff _ _).mp h]; rfl

example : Src.Bounds.polygonBounds [(1, 5), (-3, 2), (4, -1)] = .ok (-3, -1, 4, 5) := by decide +kernel
example : Src.Bounds.polygonBounds [] = .error "ERR:Value" := rfl
example : Src.Bounds.collBounds [] = .error "ERR:Value" := rfl
example : Src.Bounds.multiBounds [(0, 0, 1, 1), (-2, 1, 0, 3)] = .ok (-2, 0, 1, 3) := by decide +kernel

end GV.C09Src
