import GeoVerif.Lemmas.IoGpdKml

/-!
# C20 — collections survive a round trip through shapefile, GeoPandas and KML  (**partial claim**)

The three serialisers (pyshp, pandas/geopandas/shapely, fastkml) are outside Lean.  They enter the
three composed theorems as **channel contracts**: an arbitrary function `ch` from what our writers
hand to the library to what our readers get back, with the *hypothesis* `∀ w, ch w = ideal… w`.
`idealShp`, `idealGpd`, `idealKml` (`Model/Io.lean`) are the executable statement of what the libraries
are assumed to do; the streams `np-contract-*` / `chan-*` test the real libraries against them, nothing
proves them.  Everything else — grouping into layers, writer-method choice, ring reversal, hole
handling, Z/M consumption, field typing, the two time columns, key union, placemark assembly,
`parse_fastkml` — is this repository's code, is modelled, and is what the theorems are about.

Reading of the hypotheses (`ShapeWF`, `GpdShapeWF`, `KmlShapeWF`):
* `RingsOK`   outline and holes are *stored rings*: closed, longitudes in [-180, 180], strictly
              counter-clockwise (`GeoPolygon.__init__` normalises to that for every ring of positive area);
* `Uniform`   every coordinate of a shape agrees with the shape's `has_z` / `has_m` (pyshp demands it);
* `MultiOK`   a multi-line / multi-polygon does not have exactly one member (shapefile only);
* `NoM`       no M values (GeoPandas / KML: neither WKT-through-shapely nor KML carries M);
* `DtWF`      start ≤ end; `PropsOK` keys are ≤ 10 characters, not `ID`, not a time-column name;
* `UniformTypes` one Python type per key ("uniform type per key" in the statement).

What is **not** covered and why the theorems are `_partial`: the libraries themselves; absent keys
(they come back as nulls: known findings); the `ID` column and `sub_folder_0` (visible in `BackRel` only
as "every original property is still there", resp. exactly in `KmlBackRel`); floats that a 15-decimal
field cannot hold; layers mixing Z and non-Z shapes; degenerate (zero-area) rings, for which only
`ring_reverse_restored` (equal *or reversed* outline, which `GeoPolygon.__eq__` identifies) holds.
-/
namespace GV.Io

/-! ## order within each geometry family -/

/-- each layer is the order-preserving sub-list of its family -/
theorem groupByFamily_stable {coll : List Shape} {g : Groups} (h : groupByFamily coll = .ok g) :
    g.points = coll.filter (isFam .points) ∧ g.multipoints = coll.filter (isFam .multipoints) ∧
    g.lines = coll.filter (isFam .lines) ∧ g.shapes = coll.filter (isFam .shapes) := by
  unfold groupByFamily at h
  rw [groupLoop_eq] at h
  split_ifs at h
  simp only [List.nil_append, Except.ok.injEq] at h
  subst h
  exact ⟨rfl, rfl, rfl, rfl⟩

theorem perm_four (coll : List Shape) (h : ∀ s ∈ coll, (family s.geom).isSome = true) :
    (coll.filter (isFam .points) ++ coll.filter (isFam .multipoints) ++ coll.filter (isFam .lines) ++
      coll.filter (isFam .shapes)).Perm coll := by
  induction coll with
  | nil => simp
  | cons s rest ih =>
    have ih' := ih (fun x hx => h x (List.mem_cons_of_mem _ hx))
    have hs := h s List.mem_cons_self
    rw [List.perm_iff_count]
    intro a
    have hc := List.perm_iff_count.mp ih' a
    cases hf : family s.geom with
    | none => simp [hf] at hs
    | some f =>
      cases f <;> simp only [List.filter_cons, isFam, hf] <;>
        simp only [show (some Family.points == some Family.points) = true from rfl,
          show (some Family.multipoints == some Family.multipoints) = true from rfl,
          show (some Family.lines == some Family.lines) = true from rfl,
          show (some Family.shapes == some Family.shapes) = true from rfl,
          show (some Family.points == some Family.multipoints) = false from rfl,
          show (some Family.points == some Family.lines) = false from rfl,
          show (some Family.points == some Family.shapes) = false from rfl,
          show (some Family.multipoints == some Family.points) = false from rfl,
          show (some Family.multipoints == some Family.lines) = false from rfl,
          show (some Family.multipoints == some Family.shapes) = false from rfl,
          show (some Family.lines == some Family.points) = false from rfl,
          show (some Family.lines == some Family.multipoints) = false from rfl,
          show (some Family.lines == some Family.shapes) = false from rfl,
          show (some Family.shapes == some Family.points) = false from rfl,
          show (some Family.shapes == some Family.multipoints) = false from rfl,
          show (some Family.shapes == some Family.lines) = false from rfl,
          Bool.false_eq_true, if_false, if_true] <;>
        simp only [List.count_append, List.count_cons] at hc ⊢ <;> omega

/-- the layers together are a permutation of the collection: nothing lost, nothing duplicated -/
theorem groupByFamily_perm {coll : List Shape} {g : Groups} (h : groupByFamily coll = .ok g) :
    (g.points ++ g.multipoints ++ g.lines ++ g.shapes).Perm coll := by
  obtain ⟨h1, h2, h3, h4⟩ := groupByFamily_stable h
  rw [h1, h2, h3, h4]
  apply perm_four
  unfold groupByFamily at h
  rw [groupLoop_eq] at h
  split_ifs at h with hall
  exact fun s hs => List.all_eq_true.mp hall s hs

/-- the writer raises `ValueError` exactly when the collection holds something that is no geoshape -/
theorem groupByFamily_error_iff (coll : List Shape) :
    (∃ e, groupByFamily coll = .error e) ↔ ∃ s ∈ coll, family s.geom = none := by
  unfold groupByFamily
  rw [groupLoop_eq]
  by_cases hall : coll.all (fun s => (family s.geom).isSome) = true
  · simp only [hall, if_true]
    constructor
    · rintro ⟨e, he⟩; cases he
    · rintro ⟨s, hs, hn⟩
      have := List.all_eq_true.mp hall s hs
      simp [hn] at this
  · simp only [hall, Bool.false_eq_true, if_false]
    constructor
    · intro _
      have : ∃ s ∈ coll, ¬ (family s.geom).isSome = true := by
        by_contra hc
        push Not at hc
        exact hall (List.all_eq_true.mpr hc)
      obtain ⟨s, hs, hn⟩ := this
      exact ⟨s, hs, by simpa using hn⟩
    · intro _; exact ⟨_, rfl⟩

/-! ## ring orientation -/

/-- `isCCW_reverse`: the sum inside `is_counter_clockwise` changes sign when the ring is traversed
    the other way (longitudes in range, so the antimeridian un-wrapping is antisymmetric) -/
theorem shoelace_reverse (ring : List Pt) (h : InRange ring) : shoelace ring.reverse = - shoelace ring :=
  shoelace_reverse' ring h

theorem isCCW_reverse_of_strict (ring : List Pt) (h : InRange ring) (hs : shoelace ring < 0) :
    isCCW ring = true ∧ isCCW ring.reverse = false := by
  unfold isCCW
  rw [shoelace_reverse ring h]
  constructor
  · exact decide_eq_true (le_of_lt hs)
  · apply decide_eq_false
    intro hle
    linarith

/-- **write-reversal followed by the constructor's normalisation**, any closed ring (also a
    degenerate one): the outline comes back as it was or reversed — the two outlines `GeoPolygon.__eq__`
    identifies (C15 `outlineEq_iff`) -/
theorem ring_reverse_restored (o : List Coord) (h : Closed o) :
    mkOutlineC o.reverse = o ∨ mkOutlineC o.reverse = o.reverse := by
  rw [mkOutlineC_closed (closed_reverse h)]
  split_ifs
  · exact Or.inr rfl
  · exact Or.inl (List.reverse_reverse o)

/-- … and exactly as it was for a ring of positive area -/
theorem ring_reverse_restored_exact (o : List Coord) (h : StoredRing o) : mkOutlineC o.reverse = o :=
  mkOutlineC_stored_reverse h

/-- a hole: `linear_rings()` reverses it, `to_pyshp` reverses it again, the reader's `GeoPolygon(ring)`
    keeps it -/
theorem hole_ring_restored (hole : List Coord) (h : StoredRing hole) :
    mkOutlineC (hole.reverse.reverse) = hole := by
  rw [List.reverse_reverse]
  exact mkOutlineC_stored h

/-- shell and holes together, as the shapefile reader gets them and as the geo-interface readers do -/
theorem polygon_rings_restored (o : List Coord) (hs : List (List Coord)) (ho : StoredRing o)
    (hh : ∀ h ∈ hs, StoredRing h) :
    mkPoly (o.reverse :: hs) = .ok (o, hs) ∧ mkPoly (linearRings o hs) = .ok (o, hs) :=
  ⟨mkPoly_written ho hh, mkPoly_linearRings ho hh⟩

/-! ## Z / M alignment -/

/-- the Z (and M) list read front to back lands on the vertices it was written from, for any number
    of polygons, rings and vertices; what is left of the lists is handed on untouched -/
theorem zm_alignment (parts : List (List (List Coord))) (zrest mrest : List (Option Rat)) :
    readPolys (parts.map (·.map (·.map Coord.pt))) (some (zOf parts.flatten.flatten ++ zrest))
        (some (mOf parts.flatten.flatten ++ mrest)) = (parts, some zrest, some mrest) :=
  readPolys_aligned parts zrest mrest

/-- a shape object without `z` / `m` attributes gives coordinates without Z / M -/
theorem zm_alignment_absent (pts : List (List (List Pt))) :
    readPolys pts none none = (pts.map (·.map (·.map Coord.flat)), none, none) :=
  readPolys_absent pts

/-! ## time bounds -/

/-- shapefile: `_convert_dt` → text column → `_get_dt`: none / instant / interval come back -/
theorem dt_fields_roundtrip (dt : Dt) (h : DtWF dt) :
    (do let s ← isoField (some (chanVal .C (convertDt (match dt with | some (a, _) => .dt a | none => .null))))
        let e ← isoField (some (chanVal .C (convertDt (match dt with | some (_, b) => .dt b | none => .null))))
        mkDt s e) = .ok dt := by
  cases dt with
  | none => rfl
  | some ab =>
    obtain ⟨a, b⟩ := ab
    simp only [convertDt, chanVal, isoField, bind, Except.bind]
    exact mkDt_wf h

/-- GeoPandas: the two datetime cells → `_get_dt` -/
theorem dt_cells_roundtrip (dt : Dt) (h : DtWF dt) (others : Dict PVal)
    (ho : dictGet others "datetime_start" = none ∧ dictGet others "datetime_end" = none) :
    getDtGpd (match dt with
        | some (a, b) => ("datetime_start", .dt a) :: ("datetime_end", .dt b) :: others
        | none => ("datetime_start", .null) :: ("datetime_end", .null) :: others)
      "datetime_start" "datetime_end" = .ok dt := by
  cases dt with
  | none => simp [getDtGpd, dictGet_cons, isDtVal]
  | some ab =>
    obtain ⟨a, b⟩ := ab
    simp only [getDtGpd, dictGet_cons, if_true, isDtVal]
    exact mkDt_wf h

/-- KML: `TimeStamp` for an instant, `TimeSpan` otherwise, and back -/
theorem dt_kml_roundtrip (dt : Dt) (h : DtWF dt) :
    fromKTime (toKTime dt) = .ok dt ∧
      (∀ a b, dt = some (a, b) → (a = b ↔ toKTime dt = .stamp a)) := by
  refine ⟨fromKTime_toKTime h, ?_⟩
  intro a b hd
  subst hd
  unfold toKTime
  by_cases e : a = b <;> simp [e]

/-! ## field typing -/

/-- every Python type gets a field kind, `bool` before `int` -/
theorem field_typing_total (t : PTag) :
    fieldType t = .L ∨ fieldType t = .N 15 ∨ fieldType t = .N 0 ∨ fieldType t = .C := by
  cases t <;> simp [fieldType]

/-- the field kind chosen for a value's type carries that value (and a datetime as its ISO text, an
    absent value as '' in a text column): the writer's typing is compatible with the record contract -/
theorem field_typing_compatible (v : PVal) :
    (Storable v → chanVal (fieldType v.tag) (convertDt v) = v) ∧
    (∀ t, v = .dt t → chanVal (fieldType v.tag) (convertDt v) = .iso t) ∧
    (fieldType (PVal.bool true).tag = .L ∧ fieldType (PVal.int 1).tag = .N 0) := by
  refine ⟨chanVal_storable, ?_, rfl, rfl⟩
  intro t ht
  subst ht
  rfl

/-! ## geometry of one shape through the channels -/

/-- pyshp's grouping of the written rings gives back exactly the written polygons -/
theorem organize_written (ps : List (List Coord × List (List Coord)))
    (h : ∀ p ∈ ps, StoredRing p.1 ∧ ∀ x ∈ p.2, StoredRing x) :
    organize ((ps.map writtenRings).flatten.map (·.map Coord.pt)) []
      = (ps.map writtenRings).map (·.map (·.map Coord.pt)) :=
  organize_written_aux ps h

/-- shapefile: writer method, ring reversal, flattening, channel, `conv_map`, `from_pyshp` -/
theorem shp_geom_roundtrip (g : Geom) (hu : Uniform g) (hr : RingsOK g) (hm : MultiOK g) :
    ∃ call k, toPyshp g = some call ∧ kindOf g = some k ∧ convMap (chanGeo call).gtype = some k ∧
      fromPyshp k (chanGeo call) = .ok g :=
  shp_geom_roundtrip' g hu hr hm

/-- geo interface / WKT content: `linear_rings`, reader of the same type, constructor normalisation -/
theorem gi_geom_roundtrip (g : Geom) (hn : NoM g) (hr : RingsOK g) :
    ∃ gi k, toGI g = some gi ∧ kindOf g = some k ∧ gi.gtype = k.gtype ∧ fromGI k gi = .ok g :=
  gi_geom_roundtrip' g hn hr

/-! ## the composed round trips, under the channel contracts -/

theorem mapExcept_map {α β γ} (f : β → Except String γ) (g : α → β) : ∀ (l : List α),
    mapExcept f (l.map g) = mapExcept (fun a => f (g a)) l
  | [] => rfl
  | a :: as => by simp only [List.map_cons, mapExcept, mapExcept_map f g as]

/--
**Shapefile.**  For any channel `ch` that satisfies the contract: writing a collection of well-formed
shapes and reading the archive back gives, layer after layer (points, multipoints, lines, shapes — each
in collection order, see `groupByFamily_stable`), shapes with the same stored geometry, the same time
bounds and every type-compatible property.

Full statement of C20 for shapefiles = this + the contract being true of pyshp (tested only) +
"no property *added*" (false: `ID`, absent keys — known findings).
-/
theorem shp_roundtrip_partial (ch : ShpFileW → ShpFileR) (hch : ∀ f, ch f = idealShp f)
    (coll : List Shape) (hwf : ∀ s ∈ coll, ShapeWF s) (hu : UniformTypes coll) :
    ∃ g files back, groupByFamily coll = .ok g ∧ writeShp none coll = .ok files ∧
      readShp (files.map ch) = .ok back ∧
      List.Forall₂ BackRel (g.points ++ g.multipoints ++ g.lines ++ g.shapes) back := by
  have hall : coll.all (fun s => (family s.geom).isSome) = true := by
    apply List.all_eq_true.mpr
    intro s hs
    have := (hwf s hs).rings
    cases hg : s.geom <;> simp [family] <;> rw [hg] at this <;> exact this
  have hg : groupByFamily coll = .ok (Groups.mk (coll.filter (isFam .points))
      (coll.filter (isFam .multipoints)) (coll.filter (isFam .lines)) (coll.filter (isFam .shapes))) := by
    unfold groupByFamily
    rw [groupLoop_eq, if_pos hall]
    simp
  have hsub : ∀ f, (∀ s ∈ coll.filter (isFam f), ShapeWF s) ∧ UniformTypes (coll.filter (isFam f)) := by
    intro f
    refine ⟨fun s hs => hwf s (List.mem_filter.mp hs).1, ?_⟩
    intro s hs s' hs' k v v' h1 h2
    exact hu s (List.mem_filter.mp hs).1 s' (List.mem_filter.mp hs').1 k v v' h1 h2
  obtain ⟨files, bss, hw, hr, hrel⟩ := groups_roundtrip
    [("points", coll.filter (isFam .points)), ("multipoints", coll.filter (isFam .multipoints)),
     ("lines", coll.filter (isFam .lines)), ("shapes", coll.filter (isFam .shapes))] (by
      intro ng hng
      simp only [List.mem_cons, List.not_mem_nil, or_false] at hng
      rcases hng with rfl | rfl | rfl | rfl <;> exact hsub _)
  refine ⟨_, files, bss.flatten, hg, ?_, ?_, ?_⟩
  · unfold writeShp
    rw [hg]
    exact hw
  · have : files.map ch = files.map idealShp := List.map_congr_left (fun f _ => hch f)
    rw [this]
    unfold readShp
    rw [hr]
    rfl
  · simpa [List.append_assoc] using hrel

/--
**GeoPandas.**  Under the frame contract: same order, same stored geometry, same time bounds; a
property the shape has comes back with its value — as a float when it was an integer in a column that
also holds a null (`promoteCell`; with every key on every shape nothing is promoted).
Not covered: keys the shape did *not* have come back as nulls (known finding).
-/
theorem gpd_roundtrip_partial (ch : GpdFrameW → GpdFrameR) (hch : ∀ w, ch w = idealGpd w)
    (coll : List Shape) (hwf : ∀ s ∈ coll, GpdShapeWF s) :
    ∃ w back, toGeopandas none coll = .ok w ∧ fromGeopandas (ch w) = .ok back ∧
      List.Forall₂ (GpdBackRel w.rows) coll back := by
  have hsome : ∀ s ∈ coll, (toGI s.geom).isSome = true := fun s hs => (gpd_row_back hwf hs []).1
  refine ⟨GpdFrameW.mk (coll.map (gpdCells coll)) (coll.map fun s => giOf s.geom), ?_⟩
  rw [toGeopandas_ok coll hsome]
  obtain ⟨bs, hbs, hrel⟩ := mapExcept_forall2
    (f := fun (s : Shape) => fromGpdRow (keyUnion coll) "datetime_start" "datetime_end"
        { cells := (gpdCells coll s).map fun kv => (kv.1, promoteCell (promoted (coll.map (gpdCells coll)) kv.1) kv.2),
          geomType := (giOf s.geom).gtype, wkt := giOf s.geom })
    (R := GpdBackRel (coll.map (gpdCells coll))) coll
    (fun s hs => (gpd_row_back hwf hs (coll.map (gpdCells coll))).2)
  refine ⟨bs, rfl, ?_, hrel⟩
  rw [hch]
  unfold fromGeopandas idealGpd
  simp only []
  rw [List.zip_map', mapExcept_map, mapExcept_map]
  simp only []
  cases coll with
  | nil => simpa [mapExcept] using hbs
  | cons s0 rest =>
    have hcols : ((List.map (gpdCells (s0 :: rest)) (s0 :: rest)).head?.getD []).map (·.1) = keyUnion (s0 :: rest) := by
      simp [gpdCells, List.map_map, Function.comp_def]
    rw [hcols]
    exact hbs

/--
**KML.**  Under the object-tree contract: same order, same stored geometry, same time bounds, and the
properties exactly as they were **plus `sub_folder_0` = folder name (`'Unnamed Folder'` for an empty
name) on every shape that had at least one property** (the known finding
`parse_fastkml/sub_folder-property-added`, stated exactly).
The contract covers string values only (fastkml's `Data` takes strings: known finding for the rest).
-/
theorem kml_roundtrip_partial (ch : KNode → KNode) (hch : ∀ n, ch n = idealKml n)
    (name : String) (coll : List Shape) (hwf : ∀ s ∈ coll, KmlShapeWF s) :
    ∃ folder back, toFolder name coll = .ok folder ∧ fromFolder (ch folder) = .ok back ∧
      List.Forall₂ (KmlBackRel (folderLabel (some name))) coll back := by
  have hpm : mapExcept toPlacemark coll = .ok (coll.map pmOf) :=
    mapExcept_ok toPlacemark pmOf coll (fun s hs => toPlacemark_ok (fromPlacemark_back name (hwf s hs)).1)
  obtain ⟨bs, hbs, hrel⟩ := parseKids_pms (folderLabel (some name)) coll [] hwf
  refine ⟨.folder (some name) ((coll.map pmOf).map .pm), bs, ?_, ?_, hrel⟩
  · unfold toFolder
    rw [hpm]
    rfl
  · rw [hch]
    unfold fromFolder idealKml parseNode
    have hkey : (s!"sub_folder_{(0 : Nat)}" : String) = "sub_folder_0" := by decide +kernel
    simp only [hkey, dictSet, List.map_map]
    have : (coll.map (KNode.pm ∘ pmOf)) = coll.map fun s => KNode.pm (pmOf s) := rfl
    rw [this, hbs]
    rfl

/-! ## non-vacuity: the hypotheses are satisfiable by a non-trivial collection -/

def unitSquare : List Coord :=
  [⟨0, 0, none, none⟩, ⟨4, 0, none, none⟩, ⟨4, 4, none, none⟩, ⟨0, 4, none, none⟩, ⟨0, 0, none, none⟩]

def smallHole : List Coord :=
  [⟨1, 1, none, none⟩, ⟨2, 1, none, none⟩, ⟨2, 2, none, none⟩, ⟨1, 1, none, none⟩]

theorem unitSquare_stored : StoredRing unitSquare :=
  ⟨by unfold Closed; decide +kernel, by unfold InRange; decide +kernel, by decide +kernel⟩

theorem smallHole_stored : StoredRing smallHole :=
  ⟨by unfold Closed; decide +kernel, by unfold InRange; decide +kernel, by decide +kernel⟩

def sampleColl : List Shape :=
  [{ geom := .poly unitSquare [smallHole], dt := some (5, 9), props := [("name", .str "a"), ("n", .int 3)] },
   { geom := .point ⟨1, 2, none, none⟩, dt := none, props := [("name", .str "b")] },
   { geom := .point ⟨3, 4, none, none⟩, dt := some (7, 7), props := [("name", .str "c")] }]

example : ∀ s ∈ sampleColl, ShapeWF s := by
  intro s hs
  simp only [sampleColl, List.mem_cons, List.not_mem_nil, or_false] at hs
  rcases hs with rfl | rfl | rfl
  · refine ⟨?_, ⟨unitSquare_stored, ?_⟩, trivial, by simp [DtWF], ?_⟩
    · intro c hc
      simp only [coordsOf, unitSquare, smallHole, List.flatten_cons, List.flatten_nil, List.append_nil,
        List.cons_append, List.nil_append, List.mem_cons, List.not_mem_nil, or_false] at hc
      rcases hc with rfl | rfl | rfl | rfl | rfl | rfl | rfl | rfl | rfl <;> decide
    · intro h hh
      simp only [List.mem_singleton] at hh
      subst hh
      exact smallHole_stored
    · intro kv hkv
      simp only [List.mem_cons, List.not_mem_nil, or_false] at hkv
      rcases hkv with rfl | rfl <;> exact ⟨by decide, by decide, by decide, by decide⟩
  · refine ⟨?_, trivial, trivial, trivial, ?_⟩
    · intro c hc
      simp only [coordsOf, List.mem_singleton] at hc
      subst hc
      decide
    · intro kv hkv
      simp only [List.mem_singleton] at hkv
      subst hkv
      exact ⟨by decide, by decide, by decide, by decide⟩
  · refine ⟨?_, trivial, trivial, by simp [DtWF], ?_⟩
    · intro c hc
      simp only [coordsOf, List.mem_singleton] at hc
      subst hc
      decide
    · intro kv hkv
      simp only [List.mem_singleton] at hkv
      subst hkv
      exact ⟨by decide, by decide, by decide, by decide⟩

theorem sample_tags : ∀ s ∈ sampleColl, ∀ k v, (k, v) ∈ s.props → v.tag = if k = "n" then PTag.int else PTag.str := by
  intro s hs k v h
  simp only [sampleColl, List.mem_cons, List.not_mem_nil, or_false] at hs
  rcases hs with rfl | rfl | rfl <;> simp only [List.mem_cons, List.not_mem_nil, or_false, Prod.mk.injEq] at h
  · rcases h with ⟨rfl, rfl⟩ | ⟨rfl, rfl⟩ <;> decide
  · obtain ⟨rfl, rfl⟩ := h; decide
  · obtain ⟨rfl, rfl⟩ := h; decide

example : UniformTypes sampleColl := by
  intro s hs s' hs' k v v' h1 h2
  rw [sample_tags s hs k v h1, sample_tags s' hs' k v' h2]

/-- and the model really computes the round trip the theorem speaks of (here: the layers come back
    points first, the polygon keeps its hole and orientation, `ID` is added) -/
example : (Except.toOption (do let w ← writeShp none sampleColl; readShp (w.map idealShp))).map
      (fun (l : List Shape) => l.map (·.geom))
    = some [Geom.point ⟨1, 2, none, none⟩, Geom.point ⟨3, 4, none, none⟩, Geom.poly unitSquare [smallHole]] := by
  decide +kernel

end GV.Io
