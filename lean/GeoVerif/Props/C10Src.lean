import GeoVerif.Gen.SrcHull
import GeoVerif.Gen.SrcHullPoly
import GeoVerif.Gen.SrcHullMulti
import GeoVerif.Props.C10
/-!
# Source tie for `convex_hull` (`_geometry.py`)

`GeoVerif/Gen/SrcHull.lean` is regenerated from the current text of `_geometry.py` on every run:
`coordinate_vector_cross_product` and `convex_hull` (Andrew's monotone chain).  A Python list is the Lean list in the
same order (`append` at the end, `xs[-1]` the top of the stack); the model (`Model/Hull.lean`) keeps its stacks
top-first, so every statement below relates a source list `st.reverse` to a model stack `st`.

* the two `for` loops are structural recursions over the sorted (reversed) list, their state is the stack;
* the `while len(st) >= 2 and cross(st[-2], st[-1], coord) <= 0: st.pop()` inside each of them is a fuelled recursion
  that returns the stack (fuel = the stack's length; running out of fuel while the test still holds is `ERR:Fuel`);
* `st[-2]`, `st[-1]`, `st.pop()` raise `IndexError` on a short list, so the translation lives in `Except`.

`convexHull_eq` says: for **every** input the translated function returns `Except.ok (hull pts)` — the model's value, no
exception, fuel never exhausted.  Not translated (declared intrinsic of the unit): `sorted(set(xs), key=(lon, lat))` is
read as the model's `sortedSet`.
-/
namespace GV.C10Src
open GV GV.Hull

/-- the translated cross product is the model's -/
theorem cross_eq (o a b : Pt) : Src.Hull.cross o a b = GV.cross o a b := by
  unfold Src.Hull.cross GV.cross; ring

/-- the inner `while` of the lower pass: started on the source list `st.reverse` with fuel ≥ its length it returns
    (no exception, fuel not exhausted) the list to which appending `p` gives the model's `push st p` -/
theorem lowerWhile_eq (cs : List Pt) (p : Pt) :
    ∀ (fuel : Nat) (st : List Pt), st.length ≤ fuel →
      ∃ r, Src.Hull.convexHull.loop4 cs p fuel st.reverse = .ok r ∧ r ++ [p] = (push st p).reverse := by
  intro fuel
  induction fuel with
  | zero =>
    intro st h
    have : st = [] := by cases st <;> simp_all
    subst this
    exact ⟨[], by simp [Src.Hull.convexHull.loop4], by simp [push]⟩
  | succ n ih =>
    intro st h
    match st, h with
    | [], _ => exact ⟨[], by simp [Src.Hull.convexHull.loop4], by simp [push]⟩
    | [a], _ => exact ⟨[a], by simp [Src.Hull.convexHull.loop4], by simp [push]⟩
    | a :: b :: rest, h =>
      have hlen : (b :: rest).length ≤ n := by simp at h ⊢; omega
      have hpop : GV.Py.popLast ((a :: b :: rest).reverse) = .ok (b :: rest).reverse := by
        rw [List.reverse_cons]; exact GV.Py.popLast_append_one _ _
      have h1 : GV.Py.negIdx ((a :: b :: rest).reverse) 1 = .ok a := by simp [GV.Py.negIdx]
      have h2 : GV.Py.negIdx ((a :: b :: rest).reverse) 2 = .ok b := by simp [GV.Py.negIdx]
      have hL : ((a :: b :: rest).reverse).length = rest.length + 2 := by simp
      by_cases hc : GV.cross b a p ≤ 0
      · obtain ⟨r, hr, hp⟩ := ih (b :: rest) hlen
        refine ⟨r, ?_, ?_⟩
        · rw [Src.Hull.convexHull.loop4]
          simp only [h1, h2, hpop, cross_eq, hL]
          grind
        · rw [hp, push.eq_def (a :: b :: rest)]; simp [hc]
      · refine ⟨(a :: b :: rest).reverse, ?_, ?_⟩
        · rw [Src.Hull.convexHull.loop4]
          simp only [h1, h2, hpop, cross_eq, hL]
          grind
        · rw [push.eq_def (a :: b :: rest)]; simp [hc]

/-- the inner `while` of the upper pass: started on the source list `st.reverse` with fuel ≥ its length it returns
    (no exception, fuel not exhausted) the list to which appending `p` gives the model's `push st p` -/
theorem upperWhile_eq (cs lower : List Pt) (p : Pt) :
    ∀ (fuel : Nat) (st : List Pt), st.length ≤ fuel →
      ∃ r, Src.Hull.convexHull.loop3 cs lower p fuel st.reverse = .ok r ∧ r ++ [p] = (push st p).reverse := by
  intro fuel
  induction fuel with
  | zero =>
    intro st h
    have : st = [] := by cases st <;> simp_all
    subst this
    exact ⟨[], by simp [Src.Hull.convexHull.loop3], by simp [push]⟩
  | succ n ih =>
    intro st h
    match st, h with
    | [], _ => exact ⟨[], by simp [Src.Hull.convexHull.loop3], by simp [push]⟩
    | [a], _ => exact ⟨[a], by simp [Src.Hull.convexHull.loop3], by simp [push]⟩
    | a :: b :: rest, h =>
      have hlen : (b :: rest).length ≤ n := by simp at h ⊢; omega
      have hpop : GV.Py.popLast ((a :: b :: rest).reverse) = .ok (b :: rest).reverse := by
        rw [List.reverse_cons]; exact GV.Py.popLast_append_one _ _
      have h1 : GV.Py.negIdx ((a :: b :: rest).reverse) 1 = .ok a := by simp [GV.Py.negIdx]
      have h2 : GV.Py.negIdx ((a :: b :: rest).reverse) 2 = .ok b := by simp [GV.Py.negIdx]
      have hL : ((a :: b :: rest).reverse).length = rest.length + 2 := by simp
      by_cases hc : GV.cross b a p ≤ 0
      · obtain ⟨r, hr, hp⟩ := ih (b :: rest) hlen
        refine ⟨r, ?_, ?_⟩
        · rw [Src.Hull.convexHull.loop3]
          simp only [h1, h2, hpop, cross_eq, hL]
          grind
        · rw [hp, push.eq_def (a :: b :: rest)]; simp [hc]
      · refine ⟨(a :: b :: rest).reverse, ?_, ?_⟩
        · rw [Src.Hull.convexHull.loop3]
          simp only [h1, h2, hpop, cross_eq, hL]
          grind
        · rw [push.eq_def (a :: b :: rest)]; simp [hc]

/-- the `for` loop of the upper pass, followed by `return lower[:-1] + upper` -/
theorem upperLoop_eq (cs lower : List Pt) :
    ∀ (items st : List Pt),
      Src.Hull.convexHull.loop2 cs lower items st.reverse =
        .ok (lower.dropLast ++ (items.foldl push st).reverse) := by
  intro items
  induction items with
  | nil => intro st; simp [Src.Hull.convexHull.loop2, List.dropLast_eq_take]
  | cons x xs ih =>
    intro st
    obtain ⟨r, hr, hp⟩ := upperWhile_eq cs lower x st.length st (Nat.le_refl _)
    rw [Src.Hull.convexHull.loop2]
    simp only [List.length_reverse, hr, hp]
    exact ih (push st x)

/-- the `for` loop of the lower pass, followed by everything after it -/
theorem lowerLoop_eq (cs : List Pt) :
    ∀ (items st : List Pt),
      Src.Hull.convexHull.loop1 cs items st.reverse =
        .ok ((items.foldl push st).reverse.dropLast ++ (chain cs.reverse).reverse) := by
  intro items
  induction items with
  | nil =>
    intro st
    have := upperLoop_eq cs st.reverse cs.reverse []
    simpa [Src.Hull.convexHull.loop1, chain] using this
  | cons x xs ih =>
    intro st
    obtain ⟨r, hr, hp⟩ := lowerWhile_eq cs x st.length st (Nat.le_refl _)
    rw [Src.Hull.convexHull.loop1]
    simp only [List.length_reverse, hr, hp]
    exact ih (push st x)

/-- **the translated `convex_hull` is the model's `hull`** — and never raises (no `IndexError` from `xs[-2]`, `xs[-1]`,
    `pop()`; the inner loops never run out of fuel) -/
theorem convexHull_eq (pts : List Pt) : Src.Hull.convexHull pts = .ok (hull pts) := by
  have key := lowerLoop_eq (sortedSet pts) (sortedSet pts) []
  simp only [List.reverse_nil, chain] at key
  unfold Src.Hull.convexHull hull chain
  simp only [key]
  grind

/-! ### the wrappers: `GeoPolygon(ring)` (`structures.py`) and `Multi*.convex_hull()` (`multistructures.py`) -/

/-- **the translated constructor `GeoPolygon(outline)`** (all optional parameters at their defaults) stores the model's
    `mkOutline outline`; on an empty outline `outline[0]` raises `IndexError` -/
theorem polyInit_eq (o : List Pt) :
    Src.HullPoly.init o = match o with
      | [] => .error "ERR:Index"
      | _ :: _ => .ok (mkOutline o) := by
  cases o with
  | nil => simp [Src.HullPoly.init, GV.Py.getIdx]
  | cons x xs =>
    have h0 : GV.Py.getIdx (x :: xs) 0 = .ok x := rfl
    have hl : GV.Py.negIdx (x :: xs) 1 = .ok ((x :: xs).getLast (by simp)) := by
      have : (x :: xs).reverse[1 - 1]? = some ((x :: xs).getLast (by simp)) := by
        rw [show (1 - 1 : Nat) = 0 from rfl, ← List.head?_eq_getElem?, List.head?_reverse]
        exact List.getLast?_eq_some_getLast _
      unfold GV.Py.negIdx; rw [this]
    have hh : (x :: xs).head? = some x := rfl
    have hg : (x :: xs).getLast? = some ((x :: xs).getLast (by simp)) := List.getLast?_eq_some_getLast _
    unfold Src.HullPoly.init mkOutline closeRing
    simp only [h0, hl, hh, hg]
    grind

/-- the model's `hullPoly` is the constructor applied to the hull -/
theorem hullPoly_eq_init (v : List Pt) :
    (match Src.Hull.convexHull v with
      | .error e => .error e
      | .ok r => Src.HullPoly.init r) = hullPoly v := by
  rw [convexHull_eq]
  simp only [polyInit_eq, hullPoly]
  cases hull v <;> rfl

section wrappers
variable {μ : Type} (cen : μ → Pt) (verts bc : μ → List Pt)

/-- `MultiGeoPoint.convex_hull()`: the polygon over the hull of the members' centroids -/
theorem multiPointHull_eq (ms : List μ) :
    Src.HullMulti.multiPointHull cen verts bc ms = hullPoly (ms.map cen) := by
  unfold Src.HullMulti.multiPointHull; exact hullPoly_eq_init _

/-- `MultiGeoLineString.convex_hull()`: … of all members' vertices -/
theorem multiLineHull_eq (ms : List μ) :
    Src.HullMulti.multiLineHull cen verts bc ms = hullPoly (ms.flatMap verts) := by
  unfold Src.HullMulti.multiLineHull; exact hullPoly_eq_init _

/-- `MultiGeoPolygon.convex_hull(**kwargs)`: … of all members' `bounding_coords(**kwargs)` -/
theorem multiPolyHull_eq (ms : List μ) :
    Src.HullMulti.multiPolyHull cen verts bc ms = hullPoly (ms.flatMap bc) := by
  unfold Src.HullMulti.multiPolyHull; exact hullPoly_eq_init _

end wrappers

/-- with the model's vertex collection of the simple shapes, the three translated wrappers are the model's `multiHull` -/
theorem src_multiHull (ms : List Simple) (cen : Simple → Pt) (verts bc : Simple → List Pt) :
    Src.HullMulti.multiPolyHull cen verts Simple.vertices ms = multiHull ms ∧
    Src.HullMulti.multiLineHull cen Simple.vertices bc ms = multiHull ms ∧
    (∀ ps : List Pt, Src.HullMulti.multiPointHull (fun p : Pt => p) (fun _ => []) (fun _ => []) ps =
      multiHull (ps.map Simple.point)) := by
  refine ⟨multiPolyHull_eq _ _ _ ms, multiLineHull_eq _ _ _ ms, fun ps => ?_⟩
  rw [multiPointHull_eq, multiHull]
  congr 1
  induction ps with
  | nil => rfl
  | cons p ps ih => simp [Simple.vertices, List.flatMap_cons] at ih ⊢; exact ih

/-- the wrapper's polygon *is* the hull ring (the constructor changes nothing) for inputs within 180° of longitude -/
theorem src_multi_hull_ring {μ : Type} (cen : μ → Pt) (verts bc : μ → List Pt) (ms : List μ)
    (hne : ms.flatMap bc ≠ []) (hspan : LonSpan (ms.flatMap bc)) :
    Src.HullMulti.multiPolyHull cen verts bc ms = .ok (hull (ms.flatMap bc)) := by
  rw [multiPolyHull_eq, hullPoly_eq hne hspan]

/-! ### headline theorems of `Props/C10.lean`, restated for the translated source -/

/-- the source's result contains every input point, and its vertices are input points -/
theorem src_hull_contains_all (pts : List Pt) :
    ∃ ring, Src.Hull.convexHull pts = .ok ring ∧ (∀ q ∈ pts, Contains ring q) ∧ (∀ x ∈ ring, x ∈ pts) ∧
      ring.head? = ring.getLast? :=
  ⟨hull pts, convexHull_eq pts, hull_contains_all pts, hull_subset pts, hull_closed pts⟩

/-- any ring that satisfies the laws of the statement (`IsHullRing`, `Spec/Hull.lean`) is what the source returns -/
theorem src_hull_unique {pts ring : List Pt} (hnc : ¬ Collinear pts) (h : IsHullRing pts ring) :
    Src.Hull.convexHull pts = .ok ring := by
  rw [convexHull_eq, hull_unique hnc h]

/-- the source's result depends only on the set of inputs -/
theorem src_hull_dup_invariant {xs ys : List Pt} (h : ∀ x, x ∈ xs ↔ x ∈ ys) :
    Src.Hull.convexHull xs = Src.Hull.convexHull ys := by
  rw [convexHull_eq, convexHull_eq, hull_dup_invariant h]

/-- non-vacuity: two distinct points, given in descending order -/
example : Src.Hull.convexHull [((1:Rat),(1:Rat)),(0,0)] = .ok [(0,0),(1,1),(0,0)] := by
  rw [convexHull_eq, (hull_two (Or.inl (by norm_num))).2]

end GV.C10Src
