import GeoVerif.Model.Obj
import GeoVerif.Lemmas.Rot
import GeoVerif.Lemmas.PySet
import GeoVerif.Lemmas.ObjEq
import GeoVerif.Lemmas.ObjRing
import GeoVerif.Lemmas.ObjOrient

/-!
# C15 — shapes have value semantics (part 1: `__eq__` and `__hash__`)

Property theorems over the model `GeoVerif/Model/Obj.lean`; every theorem quantifies over all shapes,
all outlines/hole lists/member lists of any length, and over every environment `env` (the generated
vertices of curved holes and the centroid of a wedge, which the model does not compute).

`WF` is what the constructors guarantee: a polygon's stored outline is non-empty and self-closing
(`GeoPolygon.__init__` appends the first vertex when needed).  It is needed for eq ⇒ hash only: the hash
uses the *closed* outline, `__eq__` the open one.

Copy / pickle are in part 2 (`Props/C15b.lean`, heap model).
-/
set_option linter.unusedSectionVars false
namespace GV.Obj
variable (env : Env)

/-! ## Coordinate and TimeInterval -/

theorem Coord.eq_refl (a : Coord) : a.eq a = true := coord_bequiv.refl a
theorem Coord.eq_symm {a b : Coord} (h : a.eq b = true) : b.eq a = true := coord_bequiv.symm h
theorem Coord.eq_trans {a b c : Coord} (h1 : a.eq b = true) (h2 : b.eq c = true) : a.eq c = true :=
  coord_bequiv.trans h1 h2
/-- F08a: equal coordinates hash equally (M is in neither) -/
theorem Coord.eq_imp_hashKey {a b : Coord} (h : a.eq b = true) : a.key = b.key := (Coord.eq_iff_key a b).mp h
/-- … and conversely the key determines equality: nothing coarser is hashed -/
theorem Coord.hashKey_imp_eq {a b : Coord} (h : a.key = b.key) : a.eq b = true := (Coord.eq_iff_key a b).mpr h
theorem Coord.differs_lon_ne {a b : Coord} (h : a.lon ≠ b.lon) : a.eq b = false := by
  simp [Coord.eq, h]
theorem Coord.differs_lat_ne {a b : Coord} (h : a.lat ≠ b.lat) : a.eq b = false := by
  simp [Coord.eq, h]
theorem Coord.differs_z_ne {a b : Coord} (h : a.z ≠ b.z) : a.eq b = false := by
  simp [Coord.eq, h]
theorem Coord.m_irrelevant (a : Coord) (m' : Option Rat) : a.eq { a with m := m' } = true := by
  simp [Coord.eq]

theorem dt_eq_iff (a b : Dt) : dtEq a b = true ↔ a = b := dtEq_iff a b
theorem dt_eq_imp_hashKey {a b : Dt} (h : dtEq a b = true) : dtKey a = dtKey b := by
  rw [(dtEq_iff a b).mp h]

/-! ## single shapes: `__eq__` is an equivalence relation -/

def Shape.WF : Shape → Prop
  | .pl (.poly o) _ _ => Closed o
  | _ => True

theorem Shape.eq_refl (s : Shape) : s.eq env s = true := by
  cases s with
  | pl g hs dt =>
    by_cases hp : g.isPoly = true
    · obtain ⟨o, rfl⟩ := (Geom.isPoly_iff g).mp hp
      rw [Shape.eq_poly]
      simp [dtEq_bequiv.refl, outlineEq_bequiv.refl, (pySetEq_bequiv edgeSet_bequiv).refl]
    · rw [Shape.eq_pl_other env (Or.inl (by simpa using hp))]
      simp [geom_bequiv.refl, dtEq_bequiv.refl, (listEqBy_bequiv hole_bequiv).refl]
  | line vs dt => simp [Shape.eq, dtEq_bequiv.refl]
  | point c dt => simp [Shape.eq, dtEq_bequiv.refl, coord_bequiv.refl]

theorem Shape.eq_symm {s t : Shape} (h : s.eq env t = true) : t.eq env s = true := by
  cases s with
  | pl g hs dt =>
    cases t with
    | pl g' hs' dt' =>
      by_cases hp : g.isPoly = true
      · by_cases hp' : g'.isPoly = true
        · obtain ⟨o, rfl⟩ := (Geom.isPoly_iff g).mp hp
          obtain ⟨o', rfl⟩ := (Geom.isPoly_iff g').mp hp'
          rw [Shape.eq_poly] at h ⊢
          simp only [Bool.and_eq_true, decide_eq_true_eq] at h ⊢
          exact ⟨⟨⟨dtEq_bequiv.symm h.1.1.1, outlineEq_bequiv.symm h.1.1.2⟩, h.1.2.symm⟩,
            (pySetEq_bequiv edgeSet_bequiv).symm h.2⟩
        · rw [Shape.eq_pl_other env (Or.inr (by simpa using hp'))] at h
          simp only [Bool.and_eq_true] at h
          have := Geom.eq_isPoly h.1.1
          simp_all
      · have hp0 : g.isPoly = false := by simpa using hp
        rw [Shape.eq_pl_other env (Or.inl hp0)] at h
        rw [Shape.eq_pl_other env (Or.inr hp0)]
        simp only [Bool.and_eq_true] at h ⊢
        exact ⟨⟨geom_bequiv.symm h.1.1, dtEq_bequiv.symm h.1.2⟩, (listEqBy_bequiv hole_bequiv).symm h.2⟩
    | line _ _ => cases g <;> simp [Shape.eq] at h
    | point _ _ => cases g <;> simp [Shape.eq] at h
  | line vs dt =>
    cases t with
    | line vs' dt' =>
      simp only [Shape.eq, Bool.and_eq_true, beq_iff_eq] at h ⊢
      exact ⟨h.1.symm, dtEq_bequiv.symm h.2⟩
    | pl _ _ _ => simp [Shape.eq] at h
    | point _ _ => simp [Shape.eq] at h
  | point c dt =>
    cases t with
    | point c' dt' =>
      simp only [Shape.eq, Bool.and_eq_true] at h ⊢
      exact ⟨coord_bequiv.symm h.1, dtEq_bequiv.symm h.2⟩
    | pl _ _ _ => simp [Shape.eq] at h
    | line _ _ => simp [Shape.eq] at h

theorem Shape.eq_trans {s t u : Shape} (h1 : s.eq env t = true) (h2 : t.eq env u = true) :
    s.eq env u = true := by
  cases s with
  | pl g hs dt =>
    cases t with
    | pl g' hs' dt' =>
      cases u with
      | pl g'' hs'' dt'' =>
        by_cases hp : g.isPoly = true
        · have hp' : g'.isPoly = true := by
            by_contra hn
            rw [Shape.eq_pl_other env (Or.inr (by simpa using hn))] at h1
            simp only [Bool.and_eq_true] at h1
            have := Geom.eq_isPoly h1.1.1
            simp_all
          have hp'' : g''.isPoly = true := by
            by_contra hn
            rw [Shape.eq_pl_other env (Or.inr (by simpa using hn))] at h2
            simp only [Bool.and_eq_true] at h2
            have := Geom.eq_isPoly h2.1.1
            simp_all
          obtain ⟨o, rfl⟩ := (Geom.isPoly_iff g).mp hp
          obtain ⟨o', rfl⟩ := (Geom.isPoly_iff g').mp hp'
          obtain ⟨o'', rfl⟩ := (Geom.isPoly_iff g'').mp hp''
          rw [Shape.eq_poly] at h1 h2 ⊢
          simp only [Bool.and_eq_true, decide_eq_true_eq] at h1 h2 ⊢
          exact ⟨⟨⟨dtEq_bequiv.trans h1.1.1.1 h2.1.1.1, outlineEq_bequiv.trans h1.1.1.2 h2.1.1.2⟩,
            h1.1.2.trans h2.1.2⟩, (pySetEq_bequiv edgeSet_bequiv).trans h1.2 h2.2⟩
        · have hp0 : g.isPoly = false := by simpa using hp
          rw [Shape.eq_pl_other env (Or.inl hp0)] at h1
          simp only [Bool.and_eq_true] at h1
          have hp0' : g'.isPoly = false := by rw [← Geom.eq_isPoly h1.1.1]; exact hp0
          rw [Shape.eq_pl_other env (Or.inl hp0')] at h2
          rw [Shape.eq_pl_other env (Or.inl hp0)]
          simp only [Bool.and_eq_true] at h2 ⊢
          exact ⟨⟨geom_bequiv.trans h1.1.1 h2.1.1, dtEq_bequiv.trans h1.1.2 h2.1.2⟩,
            (listEqBy_bequiv hole_bequiv).trans h1.2 h2.2⟩
      | line _ _ => cases g' <;> simp [Shape.eq] at h2
      | point _ _ => cases g' <;> simp [Shape.eq] at h2
    | line _ _ => cases g <;> simp [Shape.eq] at h1
    | point _ _ => cases g <;> simp [Shape.eq] at h1
  | line vs dt =>
    cases t with
    | line vs' dt' =>
      cases u with
      | line vs'' dt'' =>
        simp only [Shape.eq, Bool.and_eq_true, beq_iff_eq] at h1 h2 ⊢
        exact ⟨h1.1.trans h2.1, dtEq_bequiv.trans h1.2 h2.2⟩
      | pl _ _ _ => simp [Shape.eq] at h2
      | point _ _ => simp [Shape.eq] at h2
    | pl _ _ _ => simp [Shape.eq] at h1
    | point _ _ => simp [Shape.eq] at h1
  | point c dt =>
    cases t with
    | point c' dt' =>
      cases u with
      | point c'' dt'' =>
        simp only [Shape.eq, Bool.and_eq_true] at h1 h2 ⊢
        exact ⟨coord_bequiv.trans h1.1 h2.1, dtEq_bequiv.trans h1.2 h2.2⟩
      | pl _ _ _ => simp [Shape.eq] at h2
      | line _ _ => simp [Shape.eq] at h2
    | pl _ _ _ => simp [Shape.eq] at h1
    | line _ _ => simp [Shape.eq] at h1

theorem shape_bequiv : BEquiv (Shape.eq env) :=
  ⟨Shape.eq_refl env, fun h => Shape.eq_symm env h, fun h1 h2 => Shape.eq_trans env h1 h2⟩

/-- a hole compared as the hole-free shape it is (`holes == holes` of the box-like kinds) -/
theorem Hole.eq_as_shape (h h' : Hole) :
    Hole.eq h h' = Shape.eq env (.pl h.g [] h.dt) (.pl h'.g [] h'.dt) := by
  by_cases hp : h.g.isPoly = true ∧ h'.g.isPoly = true
  · obtain ⟨o, ho⟩ := (Geom.isPoly_iff _).mp hp.1
    obtain ⟨o', ho'⟩ := (Geom.isPoly_iff _).mp hp.2
    rw [ho, ho', Shape.eq_poly]
    simp [Hole.eq, ho, ho', Geom.eq, pySetEq, dedupBy, subsetBy, Bool.and_comm]
  · have : h.g.isPoly = false ∨ h'.g.isPoly = false := by
      by_cases h1 : h.g.isPoly = true
      · right; simpa using fun h2 => hp ⟨h1, h2⟩
      · left; simpa using h1
    rw [Shape.eq_pl_other env this]
    simp [Hole.eq, listEqBy]

/-! ## equal shapes hash equally -/

theorem Shape.eq_imp_hashKey {s t : Shape} (hs : s.WF) (ht : t.WF) (h : s.eq env t = true) :
    (s.hashKey env).equiv (t.hashKey env) = true := by
  cases s with
  | pl g hs' dt =>
    cases t with
    | pl g' ht' dt' =>
      by_cases hp : g.isPoly = true ∧ g'.isPoly = true
      · obtain ⟨o, rfl⟩ := (Geom.isPoly_iff _).mp hp.1
        obtain ⟨o', rfl⟩ := (Geom.isPoly_iff _).mp hp.2
        rw [Shape.eq_poly] at h
        simp only [Bool.and_eq_true, decide_eq_true_eq] at h
        simp only [Shape.hashKey, SKey.equiv, Bool.and_eq_true, beq_iff_eq]
        exact ⟨fsKeys_of_outlineEq hs ht h.1.1.2, dt_eq_imp_hashKey h.1.1.1⟩
      · have hor : g.isPoly = false ∨ g'.isPoly = false := by
          by_cases h1 : g.isPoly = true
          · right; simpa using fun h2 => hp ⟨h1, h2⟩
          · left; simpa using h1
        rw [Shape.eq_pl_other env hor] at h
        simp only [Bool.and_eq_true] at h
        have hdt := dt_eq_imp_hashKey h.1.2
        have hg := h.1.1
        cases g <;> cases g' <;>
          simp only [Geom.eq, Bool.and_eq_true, beq_iff_eq, Coord.eq_iff_key, Bool.false_eq_true] at hg <;>
          simp_all [Shape.hashKey, SKey.equiv, ringCentroid, Geom.isPoly]
    | line _ _ => cases g <;> simp [Shape.eq] at h
    | point _ _ => cases g <;> simp [Shape.eq] at h
  | line vs dt =>
    cases t with
    | line vs' dt' =>
      simp only [Shape.eq, Bool.and_eq_true, beq_iff_eq] at h
      simp [Shape.hashKey, SKey.equiv, h.1, dt_eq_imp_hashKey h.2]
    | pl _ _ _ => simp [Shape.eq] at h
    | point _ _ => simp [Shape.eq] at h
  | point c dt =>
    cases t with
    | point c' dt' =>
      simp only [Shape.eq, Bool.and_eq_true, Coord.eq_iff_key] at h
      simp [Shape.hashKey, SKey.equiv, h.1, dt_eq_imp_hashKey h.2]
    | pl _ _ _ => simp [Shape.eq] at h
    | line _ _ => simp [Shape.eq] at h

/-! ## a polygon re-written from another start vertex or in the opposite winding -/

/-- Two constructor calls whose (explicitly closed) outlines agree up to start vertex and direction
    give equal polygons — whatever orientation the normalisation of `__init__` picks on either side. -/
theorem poly_eq_rewrite (o o' : List Coord) (ho : o ≠ []) (ho' : o' ≠ [])
    (hr : RotRev (keys o') (keys o)) (f f' : Bool) (hs : List Hole) (dt : Dt) :
    Shape.eq env (.pl (.poly (mkOutlineC (closeOpen o') f')) hs dt)
                 (.pl (.poly (mkOutlineC (closeOpen o) f)) hs dt) = true := by
  rw [Shape.eq_poly]
  simp only [dtEq_bequiv.refl, (pySetEq_bequiv edgeSet_bequiv).refl, decide_true, Bool.and_true, Bool.true_and]
  rw [outlineEq_iff]
  refine ⟨?_, ?_⟩
  · rw [mkOutlineC_closeOpen_length o f ho, mkOutlineC_closeOpen_length o' f' ho']
    have := hr.length_eq; simp [keys] at this; omega
  · exact ((mkOutlineC_closeOpen_rotRev o' f' ho').trans hr).trans (mkOutlineC_closeOpen_rotRev o f ho).symm

/-- **any starting vertex** -/
theorem poly_eq_rotate (o : List Coord) (ho : o ≠ []) (k : Nat) (f : Bool) (hs : List Hole) (dt : Dt) :
    Shape.eq env (.pl (.poly (mkOutlineC (closeOpen (o.rotate k)) f)) hs dt)
                 (.pl (.poly (mkOutlineC (closeOpen o) f)) hs dt) = true :=
  poly_eq_rewrite env o (o.rotate k) ho (by simpa using ho) (keys_rotate_rotRev o k) f f hs dt

/-- **opposite winding** -/
theorem poly_eq_reverse (o : List Coord) (ho : o ≠ []) (f : Bool) (hs : List Hole) (dt : Dt) :
    Shape.eq env (.pl (.poly (mkOutlineC (closeOpen o.reverse) f)) hs dt)
                 (.pl (.poly (mkOutlineC (closeOpen o) f)) hs dt) = true :=
  poly_eq_rewrite env o o.reverse ho (by simpa using ho) (keys_reverse_rotRev o) f f hs dt

/-- … and the rewritten polygon hashes equally -/
theorem poly_rewrite_hashKey (o o' : List Coord) (ho : o ≠ []) (ho' : o' ≠ [])
    (hr : RotRev (keys o') (keys o)) (f f' : Bool) (hs : List Hole) (dt : Dt) :
    ((Shape.pl (.poly (mkOutlineC (closeOpen o') f')) hs dt).hashKey env).equiv
      ((Shape.pl (.poly (mkOutlineC (closeOpen o) f)) hs dt).hashKey env) = true := by
  apply Shape.eq_imp_hashKey env _ _ (poly_eq_rewrite env o o' ho ho' hr f f' hs dt)
  · exact closed_mkOutlineC _ _ (by cases o' <;> simp_all [closeOpen])
  · exact closed_mkOutlineC _ _ (by cases o <;> simp_all [closeOpen])

/-! ## hole outlines -/

theorem pySetEq_of_forall2 {α : Type} [DecidableEq α] {r : α → α → Bool} (hr : BEquiv r) {a b : List α}
    (h : List.Forall₂ (fun x y => r x y = true) a b) : pySetEq r a b = true := by
  rw [pySetEq_iff hr]
  refine ⟨?_, forall2_subR_symm hr h⟩
  have h' : List.Forall₂ (fun x y => r x y = true) b a := by
    have := h.flip
    exact this.imp (fun _ _ hxy => hr.symm hxy)
  exact forall2_subR_symm hr h'

theorem hole_edges_closeOpen (o : List Coord) (ho : o ≠ []) (hdt : Dt) :
    Hole.edges env ⟨.poly (closeOpen o), hdt⟩ = (keys o).zip ((keys o).rotate 1) := by
  obtain ⟨a, t, rfl⟩ := List.exists_cons_of_ne_nil ho
  simp only [Hole.edges, Geom.bcKeys, closeOpen, keys, List.map_append, List.map_cons, List.map_nil]
  exact edges_closeOpen _ a.key (t.map Coord.key) rfl

/-- the directed edge set of a hole ring does not depend on the vertex it is written from -/
theorem hole_edges_rotate (o : List Coord) (ho : o ≠ []) (k : Nat) (d d' : Dt) :
    edgeSetEq (Hole.edges env ⟨.poly (closeOpen (o.rotate k)), d'⟩) (Hole.edges env ⟨.poly (closeOpen o), d⟩) = true := by
  rw [hole_edges_closeOpen env o ho, hole_edges_closeOpen env _ (by simpa using ho)]
  apply pySetEq_of_perm beq_bequiv
  have e : keys (o.rotate k) = (keys o).rotate k := by simp [keys, List.map_rotate]
  rw [e, List.rotate_rotate, Nat.add_comm, ← List.rotate_rotate, List.zip_eq_zipWith, List.zip_eq_zipWith,
    ← List.zipWith_rotate_distrib _ _ _ _ (by simp)]
  exact List.rotate_perm _ _

/-- **a hole outline written from any starting vertex** (and with any time bounds on the hole
    object: a polygon compares the geometry of its holes only) — F15c -/
theorem hole_rotation_eq (outline : List Coord) (hs1 hs2 : List Hole) (o : List Coord) (ho : o ≠ [])
    (k : Nat) (d d' dt : Dt) :
    Shape.eq env (.pl (.poly outline) (hs1 ++ ⟨.poly (closeOpen (o.rotate k)), d'⟩ :: hs2) dt)
                 (.pl (.poly outline) (hs1 ++ ⟨.poly (closeOpen o), d⟩ :: hs2) dt) = true := by
  rw [Shape.eq_poly]
  simp only [dtEq_bequiv.refl, outlineEq_bequiv.refl, List.length_append, List.length_cons, decide_true,
    Bool.true_and]
  apply pySetEq_of_forall2 edgeSet_bequiv
  simp only [List.map_append, List.map_cons]
  refine List.rel_append (List.forall₂_same.mpr fun x _ => edgeSet_bequiv.refl x) ?_
  exact List.Forall₂.cons (hole_edges_rotate env o ho k d d') (List.forall₂_same.mpr fun x _ => edgeSet_bequiv.refl x)

/-- replacing one hole by a hole with the same directed edge set gives an equal polygon -/
theorem poly_eq_of_hole_edges (outline : List Coord) (hs1 hs2 : List Hole) (x y : Hole) (dt : Dt)
    (h : edgeSetEq (x.edges env) (y.edges env) = true) :
    Shape.eq env (.pl (.poly outline) (hs1 ++ x :: hs2) dt) (.pl (.poly outline) (hs1 ++ y :: hs2) dt) = true := by
  rw [Shape.eq_poly]
  simp only [dtEq_bequiv.refl, outlineEq_bequiv.refl, List.length_append, List.length_cons, decide_true,
    Bool.true_and]
  apply pySetEq_of_forall2 edgeSet_bequiv
  simp only [List.map_append, List.map_cons]
  refine List.rel_append (List.forall₂_same.mpr fun x _ => edgeSet_bequiv.refl x) ?_
  exact List.Forall₂.cons h (List.forall₂_same.mpr fun x _ => edgeSet_bequiv.refl x)

theorem hole_edges_isRotated {x y : List Coord} (hx : x ≠ []) (h : x ~r y) (d d' : Dt) :
    edgeSetEq (Hole.edges env ⟨.poly (closeOpen x), d⟩) (Hole.edges env ⟨.poly (closeOpen y), d'⟩) = true := by
  obtain ⟨k, rfl⟩ := h
  exact edgeSet_bequiv.symm (hole_edges_rotate env x hx k d d')

/-- **a hole ring written from any starting vertex and in either direction, through the public
    constructor** (`GeoPolygon(ring)` normalises the orientation): the polygon is the same.
    Hypotheses: the ring does not wrap around the antimeridian (all longitudes within 180° of each
    other) and is not degenerate (non-zero signed area; for a zero-area ring both directions count as
    counter-clockwise and are stored as written). -/
theorem hole_rewrite_eq (outline : List Coord) (hs1 hs2 : List Hole) (o o' : List Coord) (ho : o ≠ [])
    (k : Nat) (hrr : o' = o.rotate k ∨ o' = (o.rotate k).reverse) (hnw : NoWrap o)
    (hnd : shoelaceOpen (o.map Coord.pt) ≠ 0) (d d' dt : Dt) :
    Shape.eq env (.pl (.poly outline) (hs1 ++ ⟨.poly (mkOutlineC (closeOpen o')), d'⟩ :: hs2) dt)
                 (.pl (.poly outline) (hs1 ++ ⟨.poly (mkOutlineC (closeOpen o)), d⟩ :: hs2) dt) = true := by
  apply poly_eq_of_hole_edges
  have hrot : o.rotate k ~r o := List.IsRotated.symm ⟨k, rfl⟩
  have ho' : o' ≠ [] := by rcases hrr with rfl | rfl <;> simpa using ho
  have hperm : o'.Perm o := by
    rcases hrr with rfl | rfl
    · exact List.rotate_perm _ _
    · exact (List.reverse_perm _).trans (List.rotate_perm _ _)
  have hnw' : NoWrap o' := noWrap_of_perm hperm hnw
  have hS : shoelaceOpen (o'.map Coord.pt) = shoelaceOpen (o.map Coord.pt) ∧ o' ~r o ∨
      shoelaceOpen (o'.map Coord.pt) = - shoelaceOpen (o.map Coord.pt) ∧ o' ~r o.reverse := by
    rcases hrr with rfl | rfl
    · left; exact ⟨by rw [List.map_rotate, shoelaceOpen_rotate], hrot⟩
    · right
      refine ⟨by rw [List.map_reverse, shoelaceOpen_reverse, List.map_rotate, shoelaceOpen_rotate], ?_⟩
      exact hrot.reverse
  rw [mkOutlineC_closeOpen o hnw, mkOutlineC_closeOpen o' hnw']
  rcases hS with ⟨hs, hr⟩ | ⟨hs, hr⟩
  · rw [hs]
    split
    · exact hole_edges_isRotated env ho' hr d' d
    · rw [closeOpen_reverse, closeOpen_reverse]
      apply hole_edges_isRotated env (revFrom_ne_nil ho')
      exact ((revFrom_isRotated o').trans hr.reverse).trans (revFrom_isRotated o).symm
  · rw [hs]
    by_cases hle : shoelaceOpen (o.map Coord.pt) ≤ 0
    · have hlt : shoelaceOpen (o.map Coord.pt) < 0 := lt_of_le_of_ne hle hnd
      have hn : ¬ (- shoelaceOpen (o.map Coord.pt) ≤ 0) := by linarith
      simp only [hle, hn, if_true, if_false]
      rw [closeOpen_reverse]
      apply hole_edges_isRotated env (revFrom_ne_nil ho')
      have := hr.reverse
      rw [List.reverse_reverse] at this
      exact (revFrom_isRotated o').trans this
    · have hn : - shoelaceOpen (o.map Coord.pt) ≤ 0 := by linarith [not_le.mp hle]
      simp only [hle, hn, if_true, if_false]
      rw [closeOpen_reverse]
      apply hole_edges_isRotated env ho'
      exact hr.trans (revFrom_isRotated o).symm

/-- the order of the holes is irrelevant for a polygon -/
theorem poly_holes_perm (outline : List Coord) {hs hs' : List Hole} (hp : hs.Perm hs') (dt : Dt) :
    Shape.eq env (.pl (.poly outline) hs dt) (.pl (.poly outline) hs' dt) = true := by
  rw [Shape.eq_poly]
  simp only [dtEq_bequiv.refl, outlineEq_bequiv.refl, hp.length_eq, decide_true, Bool.true_and]
  exact pySetEq_of_perm edgeSet_bequiv (hp.map _)

/-! ## multi-shapes -/

theorem skey_bequiv : BEquiv SKey.equiv where
  refl a := by
    cases a <;> simp [SKey.equiv, (msEqBy_bequiv beq_bequiv).refl]
  symm {a b} h := by
    cases a <;> cases b <;> simp only [SKey.equiv, Bool.and_eq_true, beq_iff_eq] at h ⊢ <;>
      first
        | exact ⟨(msEqBy_bequiv beq_bequiv).symm h.1, h.2.symm⟩
        | exact h.symm
  trans {a b c} h1 h2 := by
    cases a <;> cases b <;> simp only [SKey.equiv, Bool.and_eq_true, beq_iff_eq, reduceCtorEq] at h1 <;>
      cases c <;> simp only [SKey.equiv, Bool.and_eq_true, beq_iff_eq, reduceCtorEq] at h2 ⊢ <;>
      first
        | exact ⟨(msEqBy_bequiv beq_bequiv).trans h1.1 h2.1, h1.2.trans h2.2⟩
        | exact h1.trans h2

theorem memR_bequiv : BEquiv (Shape.memR env) where
  refl x := by simp [Shape.memR, skey_bequiv.refl, Shape.eq_refl]
  symm h := by
    simp only [Shape.memR, Bool.and_eq_true] at h ⊢
    exact ⟨skey_bequiv.symm h.1, Shape.eq_symm env h.2⟩
  trans h1 h2 := by
    simp only [Shape.memR, Bool.and_eq_true] at h1 h2 ⊢
    exact ⟨skey_bequiv.trans h1.1 h2.1, Shape.eq_trans env h1.2 h2.2⟩

/-- on well-formed shapes the hash test of a set look-up is redundant: membership is `==` -/
theorem Shape.memR_eq_eq {s t : Shape} (hs : s.WF) (ht : t.WF) : Shape.memR env s t = Shape.eq env s t := by
  unfold Shape.memR
  cases h : Shape.eq env s t
  · simp
  · simp [Shape.eq_imp_hashKey env hs ht h]

theorem Multi.eq_def (a b : Multi) :
    Multi.eq env a b = (decide (a.kind = b.kind) && pySetEq (Shape.memR env) a.members b.members && dtEq a.dt b.dt) := by
  unfold Multi.eq Multi.eq?
  by_cases h : a.kind = b.kind <;> simp [h]

theorem Multi.eq_refl (a : Multi) : Multi.eq env a a = true := by
  rw [Multi.eq_def]; simp [(pySetEq_bequiv (memR_bequiv env)).refl, dtEq_bequiv.refl]

theorem Multi.eq_symm {a b : Multi} (h : Multi.eq env a b = true) : Multi.eq env b a = true := by
  rw [Multi.eq_def] at h ⊢
  simp only [Bool.and_eq_true, decide_eq_true_eq] at h ⊢
  exact ⟨⟨h.1.1.symm, (pySetEq_bequiv (memR_bequiv env)).symm h.1.2⟩, dtEq_bequiv.symm h.2⟩

theorem Multi.eq_trans {a b c : Multi} (h1 : Multi.eq env a b = true) (h2 : Multi.eq env b c = true) :
    Multi.eq env a c = true := by
  rw [Multi.eq_def] at h1 h2 ⊢
  simp only [Bool.and_eq_true, decide_eq_true_eq] at h1 h2 ⊢
  exact ⟨⟨h1.1.1.trans h2.1.1, (pySetEq_bequiv (memR_bequiv env)).trans h1.1.2 h2.1.2⟩,
    dtEq_bequiv.trans h1.2 h2.2⟩

/-- **members reordered** -/
theorem multi_eq_perm (k : MKind) {l l' : List Shape} (hp : l.Perm l') (dt : Dt) :
    Multi.eq env ⟨k, l, dt⟩ ⟨k, l', dt⟩ = true := by
  rw [Multi.eq_def]
  simp [pySetEq_of_perm (memR_bequiv env) hp, dtEq_bequiv.refl]

/-- members replaced by equal ones (e.g. polygons re-written from another vertex): because set
    membership goes through the member hashes this needs eq ⇒ hash of the members (F15a) -/
theorem multi_eq_of_members_eq (k : MKind) {l l' : List Shape} (dt : Dt)
    (hl : ∀ x ∈ l, x.WF) (hl' : ∀ x ∈ l', x.WF)
    (h : List.Forall₂ (fun x y => Shape.eq env x y = true) l l') :
    Multi.eq env ⟨k, l, dt⟩ ⟨k, l', dt⟩ = true := by
  rw [Multi.eq_def]
  simp only [decide_true, dtEq_bequiv.refl, Bool.and_true, Bool.true_and]
  apply pySetEq_of_forall2 (memR_bequiv env)
  have : ∀ {a b : List Shape}, (∀ x ∈ a, x.WF) → (∀ x ∈ b, x.WF) →
      List.Forall₂ (fun x y => Shape.eq env x y = true) a b →
      List.Forall₂ (fun x y => Shape.memR env x y = true) a b := by
    intro a b ha hb hf
    induction hf with
    | nil => exact List.Forall₂.nil
    | cons hxy _ ih =>
      refine List.Forall₂.cons ?_ (ih (fun x hx => ha x (List.mem_cons_of_mem _ hx))
        (fun x hx => hb x (List.mem_cons_of_mem _ hx)))
      rw [Shape.memR_eq_eq env (ha _ List.mem_cons_self) (hb _ List.mem_cons_self)]; exact hxy
  exact this hl hl' h

/-- F15b: equal multi-shapes hash equally (member order does not enter the key) -/
theorem Multi.eq_imp_hashKey {a b : Multi} (h : Multi.eq env a b = true) :
    (a.hashKey env).equiv (b.hashKey env) = true := by
  rw [Multi.eq_def] at h
  simp only [Bool.and_eq_true, decide_eq_true_eq] at h
  obtain ⟨⟨hk, hset⟩, hdt⟩ := h
  obtain ⟨c, hc, hf⟩ := dedup_matching (memR_bequiv env) hset
  simp only [MKey.equiv, Multi.hashKey, Bool.and_eq_true, beq_iff_eq]
  refine ⟨?_, ?_⟩
  · apply msEqBy_of_matching skey_bequiv (hc.map (Shape.hashKey env))
    rw [List.forall₂_map_left_iff, List.forall₂_map_right_iff]
    refine hf.imp ?_
    intro x y hxy
    simp only [Shape.memR, Bool.and_eq_true] at hxy
    exact hxy.1
  · rw [hk, dt_eq_imp_hashKey hdt]

/-! ## `==`, `hash`, sets and dicts over arbitrary shapes -/

def Any.WF : Any → Prop
  | .single s => s.WF
  | .multi m => ∀ x ∈ m.members, x.WF

theorem Any.eq_multi (a b : Multi) : Any.eq env (.multi a) (.multi b) = Multi.eq env a b := by
  simp only [Any.eq, Multi.eq, Multi.eq?]
  by_cases h : a.kind = b.kind <;> simp [h]

theorem Any.eq_refl (a : Any) : Any.eq env a a = true := by
  cases a with
  | single s => simp [Any.eq, Shape.eq_refl]
  | multi m => rw [Any.eq_multi]; exact Multi.eq_refl env m

theorem Any.eq_symm {a b : Any} (h : Any.eq env a b = true) : Any.eq env b a = true := by
  cases a with
  | single s =>
    cases b with
    | single t => simp only [Any.eq] at h ⊢; exact Shape.eq_symm env h
    | multi m => simp [Any.eq] at h
  | multi m =>
    cases b with
    | single t => simp [Any.eq, Multi.eq?] at h
    | multi m' => rw [Any.eq_multi] at h ⊢; exact Multi.eq_symm env h

theorem Any.eq_trans {a b c : Any} (h1 : Any.eq env a b = true) (h2 : Any.eq env b c = true) :
    Any.eq env a c = true := by
  cases a with
  | single s =>
    cases b with
    | single t =>
      cases c with
      | single u => simp only [Any.eq] at h1 h2 ⊢; exact Shape.eq_trans env h1 h2
      | multi m => simp [Any.eq] at h2
    | multi m => simp [Any.eq] at h1
  | multi m =>
    cases b with
    | single t => simp [Any.eq, Multi.eq?] at h1
    | multi m' =>
      cases c with
      | single u => simp [Any.eq, Multi.eq?] at h2
      | multi m'' => rw [Any.eq_multi] at h1 h2 ⊢; exact Multi.eq_trans env h1 h2

/-- a single shape never equals a multi-shape, in either operand order (the `NotImplemented`
    fall-through of `MultiShapeBase.__eq__` ends in the reflected `isinstance` test) -/
theorem Any.single_ne_multi (s : Shape) (m : Multi) :
    Any.eq env (.single s) (.multi m) = false ∧ Any.eq env (.multi m) (.single s) = false := by
  simp [Any.eq, Multi.eq?]

/-- **equal shapes hash equally** — every kind -/
theorem Any.eq_imp_hashKey {a b : Any} (ha : a.WF) (hb : b.WF) (h : Any.eq env a b = true) :
    (a.hashKey env).equiv (b.hashKey env) = true := by
  cases a with
  | single s =>
    cases b with
    | single t => simp only [Any.eq] at h; exact Shape.eq_imp_hashKey env ha hb h
    | multi m => simp [Any.eq] at h
  | multi m =>
    cases b with
    | single t => simp [Any.eq, Multi.eq?] at h
    | multi m' => rw [Any.eq_multi] at h; exact Multi.eq_imp_hashKey env h

/-- … so equal shapes collapse in a set and find each other as dictionary keys, unequal ones do not -/
theorem set_collapse {a b : Any} (ha : a.WF) (hb : b.WF) :
    setLen2 env a b = if Any.eq env a b = true then 1 else 2 := by
  unfold setLen2
  simp only [dedupBy, List.filter]
  cases h : Any.eq env a b
  · simp [Any.memR, h]
  · simp [Any.memR, h, Any.eq_imp_hashKey env ha hb h]

theorem dict_lookup {a b : Any} (ha : a.WF) (hb : b.WF) : dictHas env a b = Any.eq env a b := by
  unfold dictHas memBy
  simp only [List.any_cons, List.any_nil, Bool.or_false, Any.memR]
  cases h : Any.eq env a b
  · simp
  · simp [Any.eq_imp_hashKey env ha hb h]

/-! ## what `==` means, kind by kind — and hence: shapes differing in one defining field are unequal -/

theorem poly_eq_iff (s o : List Coord) (hs hs' : List Hole) (dt dt' : Dt) :
    Shape.eq env (.pl (.poly s) hs dt) (.pl (.poly o) hs' dt') = true ↔
      dt = dt' ∧ s.length = o.length ∧ RotRev (keys (openOutline s)) (keys (openOutline o)) ∧
      hs.length = hs'.length ∧
      SubR edgeSetEq (hs.map (Hole.edges env)) (hs'.map (Hole.edges env)) ∧
      SubR edgeSetEq (hs'.map (Hole.edges env)) (hs.map (Hole.edges env)) := by
  rw [Shape.eq_poly]
  simp only [Bool.and_eq_true, decide_eq_true_eq, dtEq_iff, outlineEq_iff, pySetEq_iff edgeSet_bequiv]
  tauto

theorem box_eq_iff (a b c d : Coord) (hs hs' : List Hole) (dt dt' : Dt) :
    Shape.eq env (.pl (.box a b) hs dt) (.pl (.box c d) hs' dt') = true ↔
      a.key = c.key ∧ b.key = d.key ∧ dt = dt' ∧ listEqBy Hole.eq hs hs' = true := by
  rw [Shape.eq_pl_other env (Or.inl rfl)]
  simp only [Geom.eq, Bool.and_eq_true, dtEq_iff, Coord.eq_iff_key]; tauto

theorem circle_eq_iff (c c' : Coord) (r r' : Rat) (hs hs' : List Hole) (dt dt' : Dt) :
    Shape.eq env (.pl (.circle c r) hs dt) (.pl (.circle c' r') hs' dt') = true ↔
      c.key = c'.key ∧ r = r' ∧ dt = dt' ∧ listEqBy Hole.eq hs hs' = true := by
  rw [Shape.eq_pl_other env (Or.inl rfl)]
  simp only [Geom.eq, Bool.and_eq_true, dtEq_iff, Coord.eq_iff_key, beq_iff_eq]; tauto

theorem ellipse_eq_iff (c c' : Coord) (a b rot a' b' rot' : Rat) (hs hs' : List Hole) (dt dt' : Dt) :
    Shape.eq env (.pl (.ellipse c a b rot) hs dt) (.pl (.ellipse c' a' b' rot') hs' dt') = true ↔
      c.key = c'.key ∧ a = a' ∧ b = b' ∧ rot = rot' ∧ dt = dt' ∧ listEqBy Hole.eq hs hs' = true := by
  rw [Shape.eq_pl_other env (Or.inl rfl)]
  simp only [Geom.eq, Bool.and_eq_true, dtEq_iff, Coord.eq_iff_key, beq_iff_eq]; tauto

theorem ring_eq_iff (c c' : Coord) (ri ro a1 a2 ri' ro' a1' a2' : Rat) (hs hs' : List Hole) (dt dt' : Dt) :
    Shape.eq env (.pl (.ring c ri ro a1 a2) hs dt) (.pl (.ring c' ri' ro' a1' a2') hs' dt') = true ↔
      c.key = c'.key ∧ ri = ri' ∧ ro = ro' ∧ a1 = a1' ∧ a2 = a2' ∧ dt = dt' ∧
      listEqBy Hole.eq hs hs' = true := by
  rw [Shape.eq_pl_other env (Or.inl rfl)]
  simp only [Geom.eq, Bool.and_eq_true, dtEq_iff, Coord.eq_iff_key, beq_iff_eq]; tauto

theorem line_eq_iff (vs vs' : List Coord) (dt dt' : Dt) :
    Shape.eq env (.line vs dt) (.line vs' dt') = true ↔ keys vs = keys vs' ∧ dt = dt' := by
  simp only [Shape.eq, Bool.and_eq_true, dtEq_iff, beq_iff_eq]

theorem point_eq_iff (c c' : Coord) (dt dt' : Dt) :
    Shape.eq env (.point c dt) (.point c' dt') = true ↔ c.key = c'.key ∧ dt = dt' := by
  simp only [Shape.eq, Bool.and_eq_true, dtEq_iff, Coord.eq_iff_key]

theorem multi_eq_iff (a b : Multi) :
    Multi.eq env a b = true ↔ a.kind = b.kind ∧ SubR (Shape.memR env) a.members b.members ∧
      SubR (Shape.memR env) b.members a.members ∧ a.dt = b.dt := by
  rw [Multi.eq_def]
  simp only [Bool.and_eq_true, decide_eq_true_eq, dtEq_iff, pySetEq_iff (memR_bequiv env)]; tauto

/-- the kind tag of a single shape -/
def Shape.kindTag : Shape → Nat
  | .pl (.poly _) _ _ => 0 | .pl (.box _ _) _ _ => 1 | .pl (.circle _ _) _ _ => 2
  | .pl (.ellipse _ _ _ _) _ _ => 3 | .pl (.ring _ _ _ _ _) _ _ => 4 | .line _ _ => 5 | .point _ _ => 6

def Shape.dt : Shape → Dt
  | .pl _ _ dt => dt | .line _ dt => dt | .point _ dt => dt

def Shape.holes : Shape → List Hole
  | .pl _ hs _ => hs | _ => []

/-- shapes of different kinds are never equal -/
theorem differs_kind_ne {s t : Shape} (h : s.kindTag ≠ t.kindTag) : Shape.eq env s t = false := by
  cases s with
  | pl g hs dt =>
    cases t with
    | pl g' hs' dt' => cases g <;> cases g' <;> simp_all [Shape.eq, Shape.kindTag, Geom.eq]
    | line _ _ => cases g <;> simp [Shape.eq]
    | point _ _ => cases g <;> simp [Shape.eq]
  | line _ _ => cases t <;> simp_all [Shape.eq, Shape.kindTag]
  | point _ _ => cases t <;> simp_all [Shape.eq, Shape.kindTag]

theorem multi_differs_kind_ne {a b : Multi} (h : a.kind ≠ b.kind) : Multi.eq env a b = false := by
  rw [Multi.eq_def]; simp [h]

/-- **time bounds differ ⇒ unequal**, every single kind … -/
theorem differs_dt_ne {s t : Shape} (h : s.dt ≠ t.dt) : Shape.eq env s t = false := by
  by_contra hne
  have he : Shape.eq env s t = true := by simpa using hne
  apply h
  cases s with
  | pl g hs dt =>
    cases t with
    | pl g' hs' dt' =>
      by_cases hp : g.isPoly = true ∧ g'.isPoly = true
      · obtain ⟨o, rfl⟩ := (Geom.isPoly_iff _).mp hp.1
        obtain ⟨o', rfl⟩ := (Geom.isPoly_iff _).mp hp.2
        exact ((poly_eq_iff env _ _ _ _ _ _).mp he).1
      · have hor : g.isPoly = false ∨ g'.isPoly = false := by
          by_cases h1 : g.isPoly = true
          · right; simpa using fun h2 => hp ⟨h1, h2⟩
          · left; simpa using h1
        rw [Shape.eq_pl_other env hor] at he
        simp only [Bool.and_eq_true, dtEq_iff] at he
        exact he.1.2
    | line _ _ => cases g <;> simp [Shape.eq] at he
    | point _ _ => cases g <;> simp [Shape.eq] at he
  | line vs dt =>
    cases t with
    | line vs' dt' => exact ((line_eq_iff env _ _ _ _).mp he).2
    | pl _ _ _ => simp [Shape.eq] at he
    | point _ _ => simp [Shape.eq] at he
  | point c dt =>
    cases t with
    | point c' dt' => exact ((point_eq_iff env _ _ _ _).mp he).2
    | pl _ _ _ => simp [Shape.eq] at he
    | line _ _ => simp [Shape.eq] at he

/-- … and multi-shapes -/
theorem multi_differs_dt_ne {a b : Multi} (h : a.dt ≠ b.dt) : Multi.eq env a b = false := by
  by_contra hne
  exact h ((multi_eq_iff env a b).mp (by simpa using hne)).2.2.2

/-- F15d: box / circle / ellipse / ring whose hole lists differ are unequal -/
theorem differs_holes_ne {g g' : Geom} (hg : g.isPoly = false) {hs hs' : List Hole} {dt dt' : Dt}
    (h : listEqBy Hole.eq hs hs' = false) : Shape.eq env (.pl g hs dt) (.pl g' hs' dt') = false := by
  rw [Shape.eq_pl_other env (Or.inl hg)]; simp [h]

/-- polygons with a different number of holes, or a hole ring of one that matches no hole ring of the
    other, are unequal -/
theorem poly_differs_hole_count_ne (s o : List Coord) {hs hs' : List Hole} (dt dt' : Dt)
    (h : hs.length ≠ hs'.length) : Shape.eq env (.pl (.poly s) hs dt) (.pl (.poly o) hs' dt') = false := by
  by_contra hne
  exact h ((poly_eq_iff env _ _ _ _ _ _).mp (by simpa using hne)).2.2.2.1

theorem poly_differs_hole_ne (s o : List Coord) {hs hs' : List Hole} (dt dt' : Dt) (x : Hole) (hx : x ∈ hs)
    (h : ∀ y ∈ hs', edgeSetEq (x.edges env) (y.edges env) = false) :
    Shape.eq env (.pl (.poly s) hs dt) (.pl (.poly o) hs' dt') = false := by
  by_contra hne
  have := ((poly_eq_iff env _ _ _ _ _ _).mp (by simpa using hne)).2.2.2.2.1
  obtain ⟨e, he, hxe⟩ := this (x.edges env) (List.mem_map_of_mem hx)
  obtain ⟨y, hy, rfl⟩ := List.mem_map.mp he
  simp [h y hy] at hxe

/-- polygons whose outlines are not the same vertex cycle are unequal -/
theorem poly_differs_outline_ne (s o : List Coord) (hs hs' : List Hole) (dt dt' : Dt)
    (h : ¬ RotRev (keys (openOutline s)) (keys (openOutline o))) :
    Shape.eq env (.pl (.poly s) hs dt) (.pl (.poly o) hs' dt') = false := by
  by_contra hne
  exact h ((poly_eq_iff env _ _ _ _ _ _).mp (by simpa using hne)).2.2.1

/-- the remaining defining fields, one at a time (all other fields equal or not) -/
theorem differs_one_field_ne :
    (∀ (a b c d : Coord) hs hs' dt dt', (a.key ≠ c.key ∨ b.key ≠ d.key) →
        Shape.eq env (.pl (.box a b) hs dt) (.pl (.box c d) hs' dt') = false) ∧
    (∀ (c c' : Coord) (r r' : Rat) hs hs' dt dt', (c.key ≠ c'.key ∨ r ≠ r') →
        Shape.eq env (.pl (.circle c r) hs dt) (.pl (.circle c' r') hs' dt') = false) ∧
    (∀ (c c' : Coord) (a b rot a' b' rot' : Rat) hs hs' dt dt',
        (c.key ≠ c'.key ∨ a ≠ a' ∨ b ≠ b' ∨ rot ≠ rot') →
        Shape.eq env (.pl (.ellipse c a b rot) hs dt) (.pl (.ellipse c' a' b' rot') hs' dt') = false) ∧
    (∀ (c c' : Coord) (ri ro a1 a2 ri' ro' a1' a2' : Rat) hs hs' dt dt',
        (c.key ≠ c'.key ∨ ri ≠ ri' ∨ ro ≠ ro' ∨ a1 ≠ a1' ∨ a2 ≠ a2') →
        Shape.eq env (.pl (.ring c ri ro a1 a2) hs dt) (.pl (.ring c' ri' ro' a1' a2') hs' dt') = false) ∧
    (∀ (vs vs' : List Coord) dt dt', keys vs ≠ keys vs' →
        Shape.eq env (.line vs dt) (.line vs' dt') = false) ∧
    (∀ (c c' : Coord) dt dt', c.key ≠ c'.key → Shape.eq env (.point c dt) (.point c' dt') = false) := by
  refine ⟨?_, ?_, ?_, ?_, ?_, ?_⟩
  · intro a b c d hs hs' dt dt' h
    by_contra hne
    have := (box_eq_iff env a b c d hs hs' dt dt').mp (by simpa using hne)
    tauto
  · intro c c' r r' hs hs' dt dt' h
    by_contra hne
    have := (circle_eq_iff env c c' r r' hs hs' dt dt').mp (by simpa using hne)
    tauto
  · intro c c' a b rot a' b' rot' hs hs' dt dt' h
    by_contra hne
    have := (ellipse_eq_iff env c c' a b rot a' b' rot' hs hs' dt dt').mp (by simpa using hne)
    tauto
  · intro c c' ri ro a1 a2 ri' ro' a1' a2' hs hs' dt dt' h
    by_contra hne
    have := (ring_eq_iff env c c' ri ro a1 a2 ri' ro' a1' a2' hs hs' dt dt').mp (by simpa using hne)
    tauto
  · intro vs vs' dt dt' h
    by_contra hne
    exact h ((line_eq_iff env vs vs' dt dt').mp (by simpa using hne)).1
  · intro c c' dt dt' h
    by_contra hne
    exact h ((point_eq_iff env c c' dt dt').mp (by simpa using hne)).1

/-- multi-shapes: a member of one that equals no member of the other makes them unequal -/
theorem multi_differs_member_ne {a b : Multi} (x : Shape) (hx : x ∈ a.members)
    (h : ∀ y ∈ b.members, Shape.eq env x y = false) : Multi.eq env a b = false := by
  by_contra hne
  obtain ⟨y, hy, hxy⟩ := ((multi_eq_iff env a b).mp (by simpa using hne)).2.1 x hx
  simp [Shape.memR, h y hy] at hxy

/-! ## non-vacuity: the hypotheses are satisfiable by non-trivial values, and the equalities are not
    trivially true -/

private def envZ : Env := ⟨fun _ => [], fun c _ _ _ _ => c⟩
private def cA : Coord := ⟨0, 0, none, none⟩
private def cB : Coord := ⟨2, 0, none, some 5⟩
private def cC : Coord := ⟨2, 2, none, none⟩
private def cD : Coord := ⟨0, 2, some 1, none⟩

example : Closed (mkOutlineC (closeOpen [cA, cB, cC, cD])) := closed_mkOutlineC _ _ (by simp [closeOpen])
example : Shape.eq envZ (.pl (.poly (mkOutlineC (closeOpen ([cA, cB, cC, cD].rotate 3)))) [] none)
    (.pl (.poly (mkOutlineC (closeOpen [cA, cB, cC, cD]))) [] none) = true :=
  poly_eq_rotate envZ _ (by simp) 3 false [] none
example : Shape.eq envZ (.pl (.poly (closeOpen [cA, cB, cC, cD])) [] none)
    (.pl (.poly (closeOpen [cA, cC, cB, cD])) [] none) = false := by decide
example : Multi.eq envZ ⟨.mpoint, [.point cA none, .point cB none], none⟩
    ⟨.mpoint, [.point cB none, .point cA none, .point cA none], none⟩ = true := by decide
example : Multi.eq envZ ⟨.mpoint, [.point cA none], none⟩ ⟨.mpoint, [.point cB none], none⟩ = false := by decide
example : NoWrap [cA, cB, cC, cD] ∧ shoelaceOpen ([cA, cB, cC, cD].map Coord.pt) ≠ 0 := by
  refine ⟨?_, by decide +kernel⟩
  intro a ha b hb
  simp only [List.mem_cons, List.not_mem_nil, or_false] at ha hb
  rcases ha with rfl | rfl | rfl | rfl <;> rcases hb with rfl | rfl | rfl | rfl <;> decide +kernel
/-- F15e/F15g: a one-vertex polygon equals itself and nothing else -/
example : Shape.eq envZ (.pl (.poly [cA]) [] none) (.pl (.poly [cA]) [] none) = true ∧
    Shape.eq envZ (.pl (.poly [cA]) [] none) (.pl (.poly [cB]) [] none) = false := by decide

end GV.Obj
