import GeoVerif.Model.Obj
import GeoVerif.Model.ObjState
import GeoVerif.Lemmas.ObjState
import GeoVerif.Props.C15

/-!
# C15 — value semantics, part 2: `copy()` and the pickle round-trip

Heap model `GeoVerif/Model/ObjState.lean`.  `WF h o` says the object's cells are allocated (true of every
object built by `construct`/`copy`/`pickle`, see `construct_wf`).  "Mutators" are the four API mutators
(`set_dt`, `buffer_dt`, `strip_dt`, `set_property`) **and** direct manipulation of the containers
reachable from the object (`.holes.append/pop`, `del _properties[k]`, appending to a nested list value).

Interpretation I8: isolation is behavioural.  A `GeoLineString` copy shares the *vertex list object*
with its original (`copy_linestring_shares_vertices`) and a multi-shape copy shares the immutable
`TimeInterval` (`copy_multi_shares_dt`); no mutator writes either.
-/
set_option linter.unusedSectionVars false
namespace GV.OS
variable {G H W : Type}

/-- a constructed object is well-formed -/
theorem construct_wf (h : Heap H W) (f : Fields G H W) (hk : f.OK) : WF (construct h f).1 (construct h f).2 :=
  (construct_spec h f hk).1.wf

/-- **`copy()` produces a shape with the same defining fields** … -/
theorem copy_fields (h : Heap H W) (o : Obj G H W) (w : WF h o) :
    fields (copy h o).1 (copy h o).2 = fields h o := by
  have c := copy_spec h o w
  simp only [fields, c.kind, c.geom, c.dtV, c.props, c.holesV, c.seqV]

/-- … **and so does a pickle round-trip** -/
theorem pickle_fields (h : Heap H W) (o : Obj G H W) (w : WF h o) :
    fields (pickle h o).1 (pickle h o).2 = fields h o := by
  have c := pickle_spec h o w
  simp only [fields, c.kind, c.geom, c.dtV, c.props, c.holesV, c.seqV]

/-- hence the copy compares equal to (and hashes like) the original, whatever function reads the value
    of a shape off its fields -/
theorem copy_eq (env : Obj.Env) (val : Fields G H W → Obj.Any) (h : Heap H W) (o : Obj G H W) (w : WF h o) :
    Obj.Any.eq env (val (fields (copy h o).1 (copy h o).2)) (val (fields h o)) = true := by
  rw [copy_fields h o w]; exact Obj.Any.eq_refl env _

theorem pickle_eq (env : Obj.Env) (val : Fields G H W → Obj.Any) (h : Heap H W) (o : Obj G H W) (w : WF h o) :
    Obj.Any.eq env (val (fields (pickle h o).1 (pickle h o).2)) (val (fields h o)) = true := by
  rw [pickle_fields h o w]; exact Obj.Any.eq_refl env _

/-- copying does not disturb the original -/
theorem copy_keeps_original (h : Heap H W) (o : Obj G H W) (w : WF h o) : observe (copy h o).1 o = observe h o :=
  ((copy_spec h o w).ext.frame w).observe

theorem pickle_keeps_original (h : Heap H W) (o : Obj G H W) (w : WF h o) :
    observe (pickle h o).1 o = observe h o :=
  ((pickle_spec h o w).ext.frame w).observe

/-- **isolation**: whatever sequence of mutators runs on the copy, every observation of the original
    stays what it was … -/
theorem copy_isolated (h : Heap H W) (o : Obj G H W) (w : WF h o) (ms : List (Mut H)) :
    observe (runMuts (copy h o).1 (copy h o).2 ms).1 o = observe h o := by
  have c := copy_spec h o w
  have f1 := c.ext.frame w
  have f2 := runMuts_frame ms (f1.wf c.ext.next w) c.wf (c.new.sep w)
  exact (f1.trans f2).observe

/-- … **and vice versa**: mutating the original never shows in the copy -/
theorem copy_isolated' (h : Heap H W) (o : Obj G H W) (w : WF h o) (ms : List (Mut H)) :
    observe (runMuts (copy h o).1 o ms).1 (copy h o).2 = observe (copy h o).1 (copy h o).2 := by
  have c := copy_spec h o w
  have f1 := c.ext.frame w
  exact (runMuts_frame ms c.wf (f1.wf c.ext.next w) (c.new.sep w).symm).observe

theorem pickle_isolated (h : Heap H W) (o : Obj G H W) (w : WF h o) (ms : List (Mut H)) :
    observe (runMuts (pickle h o).1 (pickle h o).2 ms).1 o = observe h o := by
  have c := pickle_spec h o w
  have f1 := c.ext.frame w
  have f2 := runMuts_frame ms (f1.wf c.ext.next w) c.wf (c.new.sep w)
  exact (f1.trans f2).observe

theorem pickle_isolated' (h : Heap H W) (o : Obj G H W) (w : WF h o) (ms : List (Mut H)) :
    observe (runMuts (pickle h o).1 o ms).1 (pickle h o).2 = observe (pickle h o).1 (pickle h o).2 := by
  have c := pickle_spec h o w
  have f1 := c.ext.frame w
  exact (runMuts_frame ms c.wf (f1.wf c.ext.next w) (c.new.sep w).symm).observe

/-! ## which cells a copy shares -/

/-- the mutable containers of a copy are new objects -/
theorem copy_new_containers (h : Heap H W) (o : Obj G H W) (w : WF h o) :
    (copy h o).2.props ≠ o.props ∧ (∀ l, (copy h o).2.holes = some l → o.holes ≠ some l) := by
  have c := copy_spec h o w
  refine ⟨(Nat.ne_of_lt (Nat.lt_of_lt_of_le w.props c.propsNew)).symm, ?_⟩
  intro l hl ho
  exact absurd (w.holes l ho) (Nat.not_lt.mpr (c.holesNew l hl))

/-- `GeoLineString.copy()` hands the *same* vertex list to the new object -/
theorem copy_linestring_shares_vertices (h : Heap H W) (o : Obj G H W) (hk : o.kind = .linestring) :
    (copy h o).2.seq = o.seq := by
  simp [copy, clone, hk, Kind.seqMode, copySeq]

/-- `GeoPolygon.copy()` and the multi-shapes build a new list -/
theorem copy_new_seq (h : Heap H W) (o : Obj G H W) (w : WF h o) (hk : o.kind.seqMode = .copyList ∨ o.kind.seqMode = .copyItems)
    (l : Nat) (hs : o.seq = some l) : (copy h o).2.seq ≠ some l := by
  have hlt := w.seq l hs
  have e1 := (deepcopy_spec (h.dicts o.props) h (fun k l hm => w.lists l ⟨k, hm⟩)).1
  have e2 := ext_allocDict (deepcopyEntries h (h.dicts o.props)).1 (deepcopyEntries h (h.dicts o.props)).2
  have e3 := (copyHoles_spec ((deepcopyEntries h (h.dicts o.props)).1.allocDict (deepcopyEntries h (h.dicts o.props)).2).1
    o.holes (fun l hl => Nat.lt_of_lt_of_le (w.holes l hl) (e1.trans e2).next)).1
  have hn := ((e1.trans e2).trans e3).next
  rcases hk with hk | hk <;>
    · simp only [copy, clone, hk, hs, copySeq, Heap.allocSeq, Heap.bump, ne_eq, Option.some.injEq]
      omega

/-- a multi-shape copy keeps the very same `TimeInterval` object (it is immutable) -/
theorem copy_multi_shares_dt (h : Heap H W) (o : Obj G H W) (hk : o.kind.dtShared = true) :
    (copy h o).2.dt = o.dt := by
  simp only [copy, clone, hk, copyDt]
  cases o.dt with
  | none => rfl
  | some p => rfl

/-- a new object starts with empty memo slots; pickling keeps the memoised attributes except `to_shapely` -/
theorem copy_cache (h : Heap H W) (o : Obj G H W) : (copy h o).2.cache = noCache := rfl
theorem pickle_cache (h : Heap H W) (o : Obj G H W) (s : Slot) :
    (pickle h o).2.cache s = if s = .shapely then none else o.cache s := rfl

/-! ## non-vacuity -/

private def f0 : Fields Nat Nat Nat :=
  ⟨.polygon, 7, some ⟨0, 10⟩, [("a", .atom 1), ("b", .list [1, 2])], some [5], some [1, 2, 3, 1]⟩

example : WF (fresh f0).1 (fresh f0).2 := construct_wf _ _ (by simp [Fields.OK, f0, Kind.seqMode])
/-- the isolation theorem is not about an empty set of mutations: this one does change the copy -/
example : propsOf (runMuts (copy (fresh f0).1 (fresh f0).2).1 (copy (fresh f0).1 (fresh f0).2).2
      [.nestedPush "b" 9, .setProp "c" (.atom 4), .holesPop]).1 (copy (fresh f0).1 (fresh f0).2).2
    = [("a", .atom 1), ("b", .list [1, 2, 9]), ("c", .atom 4)] := by decide

end GV.OS
