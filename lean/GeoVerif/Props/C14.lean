import GeoVerif.Lemmas.GeoJsonDoc
import GeoVerif.Lemmas.GeoJsonRing
/-!
# C14 — GeoJSON export is RFC 7946-shaped and round-trips without touching the input

Property theorems over the model `GeoVerif/Model/GeoJson.lean`.  Vocabulary (`Rt.Lawful`, `PosOK`, `ShellOK`,
`HoleOK`, `PropsOK`, `GeomOK`, `area2`, `NoWrap`) is in `GeoVerif/Spec/GeoJson.lean`.

Every theorem quantifies over all runtimes `rt` satisfying `Rt.Lawful` (isoformat/fromisoformat round trip,
`str.upper` on the eight type names), all shapes, all `k`, all keyword arguments.
-/
namespace GV.GeoJson

/-! ## 1. export → import returns the polygon form, the same time bounds and the same properties -/

theorem typeName_eq (g : Geom) : g.typeName = g.kind.name := by cases g <;> rfl

/-- one member of a MultiPolygon read back -/
theorem mpolyMember_roundtrip (p : PolySrc) (k : Option Nat) (hp : PolyOK p k false) (hr : p.isRing = false) :
    ∃ g, p.polyForm k = .ok g ∧ mpolyMember (.arr ((p.linearRings k).map ringToJ)) = .ok g := by
  have hlr := linearRings_nonring p k hr
  obtain ⟨o0, ho0⟩ := mkOutlineP_ok_of_ne _ (hp.shell hr)
  have hholes : mapE (fun r => mkOutlineP r.reverse) (p.holes.map (fun h => (h.bounding none).reverse))
      = .ok (p.holes.map (fun h => h.bounding none)) :=
    mapE_map_ok _ _ _ _ (fun h hh => by
      have := hp.holes hr h hh
      simp only [Bool.false_eq_true, if_false] at this
      rw [List.reverse_reverse]
      exact mkOutlineP_shell this)
  refine ⟨⟨o0, p.holes.map (fun h => h.bounding none)⟩, ?_, ?_⟩
  · cases p with
    | polygon o hs => simp only [PolySrc.polyForm]; rw [ho0]; rfl
    | box nw se hs => simp only [PolySrc.polyForm]; rw [ho0]; rfl
    | curved b bb hs => simp only [PolySrc.polyForm]; rw [ho0]; rfl
    | ring o i f b hs => simp [PolySrc.isRing] at hr
  · have hrings : ringsOfJ (.arr ((p.linearRings k).map ringToJ)) = .ok (p.linearRings k) := by
      simp only [ringsOfJ]
      exact ringsOfJ_ringsToJ _ hp.pos
    simp only [mpolyMember]
    rw [hrings, hlr]
    simp only [ok_bind]
    rw [hholes, ho0]
    rfl

theorem mpoly_members_roundtrip (ps : List PolySrc) (k : Option Nat)
    (h : ∀ p ∈ ps, PolyOK p k false ∧ p.isRing = false) :
    ∃ gs, mapE (fun p => p.polyForm k) ps = .ok gs ∧
      mapE mpolyMember (ps.map fun p => .arr ((p.linearRings k).map ringToJ)) = .ok gs := by
  induction ps with
  | nil => exact ⟨[], rfl, rfl⟩
  | cons p t ih =>
    obtain ⟨gs, h1, h2⟩ := ih (fun q hq => h q (by simp [hq]))
    obtain ⟨hp, hr⟩ := h p (by simp)
    obtain ⟨g, hg1, hg2⟩ := mpolyMember_roundtrip p k hp hr
    refine ⟨g :: gs, ?_, ?_⟩
    · simp only [mapE]; rw [hg1, h1]; rfl
    · simp only [List.map_cons, mapE]; rw [hg2, h2]; rfl

/-- the geometry member read back by the importer of the matching type is the polygon form -/
theorem geom_roundtrip (g : Geom) (k : Option Nat) (hg : GeomOK g k) (geo : Obj)
    (hc : oget geo "coordinates" = some (g.coordinates k)) :
    ∃ g0 sg, geomEarly g.kind geo = .ok g0 ∧ geomLate g0 = .ok sg ∧ g.polyForm k = .ok sg := by
  cases g with
  | poly p =>
    obtain ⟨pg, h1, h2, h3⟩ := polygon_rings_import p k hg
    have hr := listOfJ_rings (p.linearRings k) hg.pos
    refine ⟨.polygon ⟨(p.linearRings k).headD [], pg.holes⟩, .polygon pg, ?_, ?_, ?_⟩
    · simp only [Geom.kind, geomEarly, hc, Geom.coordinates]
      rw [hr]; simp only [ok_bind]; rw [h2]; rfl
    · simp only [geomLate]; rw [h3]; rfl
    · simp only [Geom.polyForm]; rw [h1]; rfl
  | line vs =>
    refine ⟨.line vs, .line vs, ?_, rfl, rfl⟩
    simp only [Geom.kind, geomEarly, hc, Geom.coordinates]
    rw [listOfJ_ringToJ vs hg]; rfl
  | point p =>
    refine ⟨.point p, .point p, ?_, rfl, rfl⟩
    simp only [Geom.kind, geomEarly, hc, Geom.coordinates]
    rw [posOfJ_posToJ p hg]; rfl
  | mpoly ps =>
    obtain ⟨gs, h1, h2⟩ := mpoly_members_roundtrip ps k hg
    refine ⟨.mpoly gs, .mpoly gs, ?_, rfl, ?_⟩
    · simp only [Geom.kind, geomEarly, hc, Geom.coordinates, listOfJ]
      rw [h2]; rfl
    · simp only [Geom.polyForm]; rw [h1]; rfl
  | mline ls =>
    refine ⟨.mline ls, .mline ls, ?_, rfl, rfl⟩
    simp only [Geom.kind, geomEarly, hc, Geom.coordinates]
    rw [listOfJ_rings ls hg]; rfl
  | mpoint ps =>
    refine ⟨.mpoint ps, .mpoint ps, ?_, rfl, rfl⟩
    simp only [Geom.kind, geomEarly, hc, Geom.coordinates]
    rw [listOfJ_ringToJ ps hg]; rfl

/-- **round trip** — for every kind of shape, every `k`, with or without `include_bbox` and extra
    members such as `id`: importing the exported Feature with the importer of its type returns the
    polygon form of the shape (`to_polygon(k=k)` for polygon-likes, the shape itself otherwise), the same
    time bounds and the same user properties — and leaves the document as it was. -/
theorem roundtrip (rt : Rt) (hrt : rt.Lawful) (s : Src) (o : Opts) (doc : J)
    (hg : GeomOK s.geom o.k) (hP : PropsOK s.props) (hdt : DtOK s.dt)
    (hov : o.props.getD [] = []) (hx : ExtraOK o.extra)
    (hexp : toGeoJson rt s o = .ok doc) :
    ∃ sg, s.geom.polyForm o.k = .ok sg ∧
      fromGeoJson rt s.geom.kind doc = .ok (⟨sg, s.dt, s.props⟩, doc) := by
  obtain ⟨geo, hgeo, hdoc⟩ := toGeoJson_ok hexp
  obtain ⟨ht, hc⟩ := toGeoInterface_ok hgeo
  have hprops : exportedProps rt s o = sanKvs rt (properties ⟨s.geom, s.dt, s.props⟩) := by
    simp [exportedProps, hov]
  rw [hprops] at hdoc
  obtain ⟨_, m2, m3, m4⟩ := exported_members (geo := geo)
    (props := sanKvs rt (properties ⟨s.geom, s.dt, s.props⟩)) hx
  obtain ⟨g0, sg, he, hl, hpf⟩ := geom_roundtrip s.geom o.k hg geo hc
  rw [typeName_eq] at ht
  have hp := propsAndDt_exported hrt _ s.geom s.dt s.props hP hdt m3
  refine ⟨sg, hpf, ?_⟩
  rw [hdoc]
  exact fromGeoJson_feature rt s.geom.kind _ geo g0 sg s.dt s.props m4 m2 ht he hp hl

/-- without `include_bbox` the export cannot fail, so the round trip is unconditional -/
theorem roundtrip_total (rt : Rt) (hrt : rt.Lawful) (s : Src) (o : Opts)
    (hg : GeomOK s.geom o.k) (hP : PropsOK s.props) (hdt : DtOK s.dt)
    (hov : o.props.getD [] = []) (hx : ExtraOK o.extra) (hb : o.bbox = false) :
    ∃ doc sg, toGeoJson rt s o = .ok doc ∧ s.geom.polyForm o.k = .ok sg ∧
      fromGeoJson rt s.geom.kind doc = .ok (⟨sg, s.dt, s.props⟩, doc) := by
  obtain ⟨doc, hdoc⟩ := toGeoJson_total rt s o hb
  obtain ⟨sg, h1, h2⟩ := roundtrip rt hrt s o doc hg hP hdt hov hx hdoc
  exact ⟨doc, sg, hdoc, h1, h2⟩

/-- a `GeoPolygon` whose outline and holes are as its constructor leaves them comes back as itself -/
theorem roundtrip_polygon (rt : Rt) (hrt : rt.Lawful) (outline : List Pos) (holes : List (List Pos))
    (dt : Option TI) (props : Obj) (o : Opts) (doc : J)
    (ho : ShellOK outline) (hh : ∀ h ∈ holes, HoleOK h)
    (hpos : ∀ q ∈ outline, PosOK q) (hposh : ∀ h ∈ holes, ∀ q ∈ h, PosOK q)
    (hP : PropsOK props) (hdt : DtOK dt) (hov : o.props.getD [] = []) (hx : ExtraOK o.extra)
    (hexp : toGeoJson rt ⟨.poly (.polygon outline (holes.map fun h => ⟨fun _ => h⟩)), dt, props⟩ o = .ok doc) :
    fromGeoJson rt .polygon doc = .ok (⟨.polygon ⟨outline, holes⟩, dt, props⟩, doc) := by
  have hg : GeomOK (.poly (.polygon outline (holes.map fun h => ⟨fun _ => h⟩))) o.k := by
    refine ⟨?_, ?_, ?_, ?_⟩
    · intro r hr q hq
      simp only [PolySrc.linearRings, PolySrc.bounding, PolySrc.holes, List.map_map, List.mem_cons,
        List.mem_map, Function.comp] at hr
      rcases hr with rfl | ⟨h, hh', rfl⟩
      · exact hpos q hq
      · exact hposh h hh' q (by simpa using hq)
    · intro h; simp [PolySrc.isRing] at h
    · intro _; exact ho.1
    · intro _ h hmem
      simp only [PolySrc.holes, List.mem_map] at hmem
      obtain ⟨h0, hh0, rfl⟩ := hmem
      simpa using hh h0 hh0
  obtain ⟨sg, h1, h2⟩ := roundtrip rt hrt _ o doc hg hP hdt hov hx hexp
  have : sg = .polygon ⟨outline, holes⟩ := by
    simp only [Geom.polyForm, PolySrc.polyForm, PolySrc.bounding, PolySrc.holes, mkOutlineP_shell ho] at h1
    simpa [List.map_map, Function.comp_def] using h1.symm
  rw [this] at h2
  exact h2

/-- line strings, points and their multi forms are their own polygon form: they come back as themselves -/
theorem polyForm_vertex_kinds (k : Option Nat) :
    (∀ vs, (Geom.line vs).polyForm k = .ok (.line vs)) ∧ (∀ p, (Geom.point p).polyForm k = .ok (.point p)) ∧
    (∀ ls, (Geom.mline ls).polyForm k = .ok (.mline ls)) ∧ (∀ ps, (Geom.mpoint ps).polyForm k = .ok (.mpoint ps)) :=
  ⟨fun _ => rfl, fun _ => rfl, fun _ => rfl, fun _ => rfl⟩

/-! ## 2. importing never modifies the caller's document -/

theorem propsAndDt_doc {rt : Rt} {d : Obj} {ks ke : String} {r : Option TI × Obj × Obj}
    (h : propsAndDt rt d ks ke true = .ok r) : r.2.2 = d := by
  unfold propsAndDt at h
  obtain ⟨src, _, h⟩ := bind_eq_ok h
  cases src with
  | none =>
    simp only at h
    obtain ⟨x, _, h⟩ := bind_eq_ok h
    simp at h
    rw [← h]
  | some p =>
    simp only at h
    obtain ⟨x, _, h⟩ := bind_eq_ok h
    simp at h
    rw [← h]

/-- **import_pure** — whatever the document and whichever importer: if the import succeeds, the document
    after the call is the document before the call (the time fields are popped from a copy).
    On failure nothing is returned, and the model has no other way to write to the document. -/
theorem import_pure (rt : Rt) (k : Kind) (d : J) (ks ke : String) (r : Shape × J)
    (h : fromGeoJson rt k d ks ke = .ok r) : r.2 = d := by
  cases d with
  | obj o =>
    unfold fromGeoJson at h
    simp only at h
    obtain ⟨geom, _, h⟩ := bind_eq_ok h
    obtain ⟨_, _, h⟩ := bind_eq_ok h
    obtain ⟨g0, _, h⟩ := bind_eq_ok h
    obtain ⟨⟨dt, props, o'⟩, hp, h⟩ := bind_eq_ok h
    obtain ⟨g, _, h⟩ := bind_eq_ok h
    have := propsAndDt_doc hp
    simp at h this
    rw [← h, this]
  | null => simp [fromGeoJson] at h
  | bool b => simp [fromGeoJson] at h
  | num q => simp [fromGeoJson] at h
  | str s => simp [fromGeoJson] at h
  | dt us => simp [fromGeoJson] at h
  | arr xs => simp [fromGeoJson] at h

/-- **import_twice_equal** — importing the document that the first import left behind gives the same
    result again (same shape, same time bounds, same properties) -/
theorem import_twice_equal (rt : Rt) (k : Kind) (d : J) (ks ke : String) (r : Shape × J)
    (h : fromGeoJson rt k d ks ke = .ok r) : fromGeoJson rt k r.2 ks ke = .ok r := by
  rw [import_pure rt k d ks ke r h]; exact h

/-- **later_mutation_isolated** — `set_property` on the imported shape does not reach the document: the
    shape's property dict is a fresh copy, never the caller's dict -/
theorem later_mutation_isolated (rt : Rt) (k : Kind) (d : J) (ks ke : String) (r : Shape × J)
    (key : String) (v : J) (h : fromGeoJson rt k d ks ke = .ok r) :
    (setPropertyAfter r (sharesProps d) key v).2 = d ∧
    (setPropertyAfter r (sharesProps d) key v).1.props = oset r.1.props key v := by
  have hs : sharesProps d = false := by simp [sharesProps]
  simp [setPropertyAfter, hs, import_pure rt k d ks ke r h]

/-- the document component is not vacuous: with the earlier code (`copy := false`: no `dict(…)` around the
    caller's properties) the same model reports a changed document, and the second import of that
    document loses the time bounds (finding F14a, repaired) -/
theorem pinned_import_not_pure (rt : Rt) (hrt : rt.Lawful) :
    ∃ d r r2, fromGeoJson rt .point d "datetime_start" "datetime_end" false = .ok r ∧ r.2 ≠ d ∧
      fromGeoJson rt .point r.2 "datetime_start" "datetime_end" false = .ok r2 ∧
      r.1.dt = some ⟨0, 0⟩ ∧ r2.1.dt = none := by
  have hn : normalize true 1 2 = (1, 2) := normalize_id (by norm_num) (by norm_num) (by norm_num) (by norm_num)
  refine ⟨.obj [("type", .str "Feature"),
      ("geometry", .obj [("type", .str "Point"), ("coordinates", .arr [.num 1, .num 2])]),
      ("properties", .obj [("datetime_start", .str (rt.iso 0))])],
    (⟨.point ⟨1, 2, none⟩, some ⟨0, 0⟩, []⟩, .obj [("type", .str "Feature"),
      ("geometry", .obj [("type", .str "Point"), ("coordinates", .arr [.num 1, .num 2])]),
      ("properties", .obj [])]),
    (⟨.point ⟨1, 2, none⟩, none, []⟩, .obj [("type", .str "Feature"),
      ("geometry", .obj [("type", .str "Point"), ("coordinates", .arr [.num 1, .num 2])]),
      ("properties", .obj [])]), ?_, ?_, ?_, rfl, rfl⟩
  · simp [fromGeoJson, selectGeom, ohas, oget, checkType, Kind.name, geomEarly, posOfJ, toFloat, hn,
      propsAndDt, getDt, oerase, convertTs, J.truthy, hrt.iso_ne, hrt.parse_iso, TI.mk?, geomLate, oset]
  · simp
  · simp [fromGeoJson, selectGeom, ohas, oget, checkType, Kind.name, geomEarly, posOfJ, toFloat, hn,
      propsAndDt, getDt, oerase, convertTs, geomLate]

/-! ## 3. RFC 7946 shape: ring orientation, closure, positions -/

theorem mapE_mem {α β : Type} {f : α → Except String β} {l : List α} {l' : List β}
    (h : mapE f l = .ok l') : ∀ y ∈ l', ∃ x ∈ l, f x = .ok y := by
  induction l generalizing l' with
  | nil => simp [mapE] at h; subst h; simp
  | cons a t ih =>
    obtain ⟨y0, ys, h1, h2, rfl⟩ := mapE_cons_ok h
    intro y hy
    simp only [List.mem_cons] at hy
    rcases hy with rfl | hy
    · exact ⟨a, by simp, h1⟩
    · obtain ⟨x, hx, hfx⟩ := ih h2 y hy
      exact ⟨x, by simp [hx], hfx⟩

/-- off the antimeridian, what `GeoPolygon.__init__` leaves is closed, non-empty and counter-clockwise for
    the library's own test — the well-formedness the round trip assumes is what the constructor delivers -/
theorem constructor_leaves_shellOK {raw o : List Pos} (h : mkOutlineP raw = .ok o)
    (hw : NoWrap ((closeRingP raw).map Pos.pt)) : ShellOK o ∧ NoWrap (o.map Pos.pt) := by
  have hne := mkOutlineP_ne_nil h
  have hcl := mkOutlineP_closed h
  have hcc := closed_map Pos.pt (closeRingP_closed raw)
  unfold mkOutlineP at h
  by_cases he : raw.isEmpty
  · simp [he] at h
  · simp only [he, Bool.false_eq_true, if_false] at h
    cases hccw : isCCW ((closeRingP raw).map Pos.pt) with
    | true =>
      simp [hccw] at h
      subst h
      exact ⟨⟨hne, hcl, hccw⟩, hw⟩
    | false =>
      simp [hccw] at h
      subst h
      have ha : area2 ((closeRingP raw).map Pos.pt) ≠ 0 :=
        ne_of_lt ((isCCW_false_iff_area _ hcc hw).mp hccw)
      have hrev := isCCW_reverse _ hcc hw ha
      rw [hccw] at hrev
      refine ⟨⟨hne, hcl, ?_⟩, ?_⟩
      · rw [List.map_reverse]; simpa using hrev
      · rw [List.map_reverse]; exact (noWrap_reverse _).mpr hw

/-- a hole with non-zero area is not degenerate in the sense the round trip needs -/
theorem hole_nondegenerate {h : List Pos} (hs : ShellOK h) (hw : NoWrap (h.map Pos.pt))
    (ha : area2 (h.map Pos.pt) ≠ 0) : HoleOK h := by
  refine ⟨hs, ?_⟩
  have := isCCW_reverse _ (closed_map Pos.pt hs.2.1) hw ha
  rw [hs.2.2] at this
  rw [List.map_reverse]
  simpa using this

theorem mkPolygon_ok {raw : List Pos} {holes : List (List Pos)} {p : PolySrc}
    (h : mkPolygon raw holes = .ok p) :
    ∃ o hs, mkOutlineP raw = .ok o ∧ mapE (fun r => mkOutlineP r) holes = .ok hs ∧
      p = .polygon o (hs.map fun r => ⟨fun _ => r⟩) := by
  unfold mkPolygon at h
  obtain ⟨hs, h1, h⟩ := bind_eq_ok h
  obtain ⟨o, h2, h⟩ := bind_eq_ok h
  simp at h
  exact ⟨o, hs, h2, h1, h.symm⟩

theorem mkPolygon_linearRings {o : List Pos} {hs : List (List Pos)} (k : Option Nat) :
    (PolySrc.polygon o (hs.map fun r => ⟨fun _ => r⟩)).linearRings k = o :: hs.map List.reverse := by
  simp [PolySrc.linearRings, PolySrc.bounding, PolySrc.holes, List.map_map, Function.comp_def]

/-- **exterior_ccw_holes_cw** — for a polygon built from arbitrary vertex lists (either orientation, open
    or closed, with or without Z) whose rings do not cross the antimeridian: in the exported coordinates the
    exterior ring is counter-clockwise and every hole clockwise, in the RFC's sense (sign of the plain
    shoelace area), for every `k`. -/
theorem exterior_ccw_holes_cw (raw : List Pos) (holes : List (List Pos)) (p : PolySrc) (k : Option Nat)
    (h : mkPolygon raw holes = .ok p)
    (hw : NoWrap ((closeRingP raw).map Pos.pt))
    (hwh : ∀ r ∈ holes, NoWrap ((closeRingP r).map Pos.pt)) :
    ∃ shell hs, p.linearRings k = shell :: hs ∧ 0 ≤ area2 (shell.map Pos.pt) ∧
      ∀ r ∈ hs, area2 (r.map Pos.pt) ≤ 0 := by
  obtain ⟨o, hs, h1, h2, rfl⟩ := mkPolygon_ok h
  refine ⟨o, hs.map List.reverse, mkPolygon_linearRings k, ?_, ?_⟩
  · obtain ⟨hso, hwo⟩ := constructor_leaves_shellOK h1 hw
    exact (isCCW_iff_area _ (closed_map Pos.pt hso.2.1) hwo).mp hso.2.2
  · intro r hr
    simp only [List.mem_map] at hr
    obtain ⟨h0, hh0, rfl⟩ := hr
    obtain ⟨x, hx, hfx⟩ := mapE_mem h2 h0 hh0
    obtain ⟨hso, hwo⟩ := constructor_leaves_shellOK hfx (hwh x hx)
    have := (isCCW_iff_area _ (closed_map Pos.pt hso.2.1) hwo).mp hso.2.2
    rw [List.map_reverse, area2_reverse]
    linarith

/-- a box (west ≤ east, south ≤ north) is drawn counter-clockwise -/
theorem box_exterior_ccw (nw se : Pos) (holes : List HoleSrc) (k : Option Nat)
    (hlon : nw.lon ≤ se.lon) (hlat : se.lat ≤ nw.lat) :
    0 ≤ area2 (((PolySrc.box nw se holes).bounding k).map Pos.pt) := by
  simp only [PolySrc.bounding, List.map, Pos.pt, area2, chain]
  nlinarith [mul_nonneg (sub_nonneg.mpr hlon) (sub_nonneg.mpr hlat)]

theorem getLast?_snoc {α : Type} (l : List α) (a : α) : (l ++ [a]).getLast? = some a := by
  simp

theorem closed_append_head {α : Type} (l : List α) : Closed (l ++ l.head?.toList) := by
  cases l with
  | nil => simp [Closed]
  | cons a t =>
    have : (a :: t) ++ (a :: t).head?.toList = (a :: t) ++ [a] := rfl
    rw [this]
    unfold Closed
    rw [getLast?_snoc]
    rfl

/-- **rings_closed** (vertex-defined) — every ring exported for a polygon built from arbitrary vertex lists
    is closed, for every `k` -/
theorem rings_closed (raw : List Pos) (holes : List (List Pos)) (p : PolySrc) (k : Option Nat)
    (h : mkPolygon raw holes = .ok p) : ∀ r ∈ p.linearRings k, Closed r := by
  obtain ⟨o, hs, h1, h2, rfl⟩ := mkPolygon_ok h
  rw [mkPolygon_linearRings k]
  intro r hr
  simp only [List.mem_cons, List.mem_map] at hr
  rcases hr with rfl | ⟨h0, hh0, rfl⟩
  · exact mkOutlineP_closed h1
  · obtain ⟨x, _, hfx⟩ := mapE_mem h2 h0 hh0
    exact closed_reverse (mkOutlineP_closed hfx)

/-- **rings_closed** (every polygon-like kind) — boxes, full rings and wedges close their rings by
    construction; for circles/ellipses the drawn outline's closure is the hypothesis `hshell` (their first and
    last vertex are computed at angles 2π and 0: numerically equal, checked by the harness), and holes are
    closed if their own outlines are -/
theorem rings_closed_general (p : PolySrc) (k : Option Nat)
    (hshell : match p with
      | .polygon o _ => Closed o
      | .curved b _ _ => Closed (b k)
      | .ring outer _ false _ _ => outer k ≠ []
      | _ => True)
    (hholes : ∀ h ∈ p.holes, Closed (h.bounding none) ∧ Closed (h.bounding k)) :
    ∀ r ∈ p.linearRings k, Closed r := by
  intro r hr
  cases p with
  | polygon o hs =>
    simp only [PolySrc.linearRings, PolySrc.bounding, PolySrc.holes, List.mem_cons, List.mem_map] at hr
    rcases hr with rfl | ⟨h0, hh0, rfl⟩
    · exact hshell
    · exact closed_reverse (hholes h0 hh0).1
  | box nw se hs =>
    simp only [PolySrc.linearRings, PolySrc.bounding, PolySrc.holes, List.mem_cons, List.mem_map] at hr
    rcases hr with rfl | ⟨h0, hh0, rfl⟩
    · simp [Closed]
    · exact closed_reverse (hholes h0 hh0).1
  | curved b bb hs =>
    simp only [PolySrc.linearRings, PolySrc.bounding, PolySrc.holes, List.mem_cons, List.mem_map] at hr
    rcases hr with rfl | ⟨h0, hh0, rfl⟩
    · exact hshell
    · exact closed_reverse (hholes h0 hh0).1
  | ring outer inner full b hs =>
    cases full with
    | true =>
      simp only [PolySrc.linearRings, List.cons_append, List.nil_append, List.mem_cons, List.mem_map] at hr
      rcases hr with rfl | rfl | ⟨h0, hh0, rfl⟩
      · exact closed_append_head _
      · exact closed_reverse (closed_append_head _)
      · exact closed_reverse (hholes h0 hh0).2
    | false =>
      simp only [PolySrc.linearRings, PolySrc.bounding, List.cons_append, List.nil_append, List.mem_cons,
        List.mem_map, Bool.false_eq_true, if_false] at hr
      rcases hr with rfl | ⟨h0, hh0, rfl⟩
      · simp only at hshell
        cases ho : outer k with
        | nil => exact absurd ho hshell
        | cons a t =>
          have : (a :: t) ++ (inner k).reverse ++ (a :: t).head?.toList = ((a :: t) ++ (inner k).reverse) ++ [a] := rfl
          rw [this]
          unfold Closed
          rw [getLast?_snoc]
          rfl
      · exact closed_reverse (hholes h0 hh0).2

/-- **positions_lon_lat_z** — a position is `[lon, lat]`, followed by Z exactly when the coordinate has one
    (a Z of 0 is a Z) -/
theorem positions_lon_lat_z (p : Pos) :
    posToJ p = .arr (.num p.lon :: .num p.lat :: (match p.z with | some z => [.num z] | none => [])) := by
  cases hz : p.z <;> simp [posToJ, hz]

/-- and it is read back to the same coordinate, Z included -/
theorem position_roundtrip (p : Pos) (h : PosOK p) : posOfJ (posToJ p) = .ok p := posOfJ_posToJ p h

/-! ## 4. the `properties` member: user properties, time bounds, caller override; extra members -/

theorem exported_propsOf {rt : Rt} {s : Src} {o : Opts} {doc : J} (hexp : toGeoJson rt s o = .ok doc)
    (hx : oget o.extra "properties" = none) : doc.propsOf = some (exportedProps rt s o) := by
  obtain ⟨geo, _, hdoc⟩ := toGeoJson_ok hexp
  subst hdoc
  simp only [J.propsOf, J.member]
  rw [oget_oupdate_absent _ _ _ hx]
  simp [oget]

/-- **override_wins** — a key of the caller's `properties` argument carries the caller's value in the
    exported `properties`, whatever the shape's own properties or time bounds say -/
theorem override_wins (rt : Rt) (s : Src) (o : Opts) (doc : J) (ov : Obj) (key : String) (v : J)
    (hexp : toGeoJson rt s o = .ok doc) (hx : oget o.extra "properties" = none)
    (hov : o.props = some ov) (hnd : KeysNodup ov) (hk : oget ov key = some v) :
    ∃ props, doc.propsOf = some props ∧ oget props key = some v := by
  refine ⟨_, exported_propsOf hexp hx, ?_⟩
  simp only [exportedProps, hov, Option.getD_some]
  exact oget_oupdate_present _ _ _ _ hnd hk

/-- every other key keeps the shape's own (sanitised) value -/
theorem override_keeps_others (rt : Rt) (s : Src) (o : Opts) (doc : J) (key : String)
    (hexp : toGeoJson rt s o = .ok doc) (hx : oget o.extra "properties" = none)
    (hk : oget (o.props.getD []) key = none) :
    ∃ props, doc.propsOf = some props ∧ oget props key = (oget (properties s) key).map (sanitize rt) := by
  refine ⟨_, exported_propsOf hexp hx, ?_⟩
  simp only [exportedProps]
  rw [oget_oupdate_absent _ _ _ hk, oget_sanKvs]

/-- **time bounds under `properties`** — a shape with time bounds exports them as the ISO text of its start
    and end under `datetime_start` / `datetime_end` (an instant exports both, equal), unless the caller
    overrides those keys -/
theorem time_bounds_exported (rt : Rt) (s : Src) (o : Opts) (doc : J) (t : TI)
    (hexp : toGeoJson rt s o = .ok doc) (hx : oget o.extra "properties" = none) (ht : s.dt = some t)
    (h1 : oget (o.props.getD []) "datetime_start" = none) (h2 : oget (o.props.getD []) "datetime_end" = none) :
    ∃ props, doc.propsOf = some props ∧
      oget props "datetime_start" = some (.str (rt.iso t.start)) ∧
      oget props "datetime_end" = some (.str (rt.iso t.stop)) := by
  obtain ⟨p1, hp1, hs⟩ := override_keeps_others rt s o doc "datetime_start" hexp hx h1
  obtain ⟨p2, hp2, he⟩ := override_keeps_others rt s o doc "datetime_end" hexp hx h2
  rw [hp1] at hp2
  cases hp2
  refine ⟨p1, hp1, ?_, ?_⟩
  · rw [hs]
    simp only [properties, ht]
    rw [oget_oset_ne _ _ _ _ (by decide +kernel), oget_oset_self]
    rfl
  · rw [he]
    simp only [properties, ht]
    rw [oget_oset_self]
    rfl

/-- user properties of JSON-native type are exported unchanged (unless overridden / shadowed by the time bounds) -/
theorem user_property_exported (rt : Rt) (s : Src) (o : Opts) (doc : J) (key : String) (v : J)
    (hexp : toGeoJson rt s o = .ok doc) (hx : oget o.extra "properties" = none)
    (hk : oget (o.props.getD []) key = none) (hv : oget s.props key = some v) (hn : v.native = true)
    (hks : key ≠ "datetime_start") (hke : key ≠ "datetime_end") :
    ∃ props, doc.propsOf = some props ∧ oget props key = some v := by
  obtain ⟨p, hp, h⟩ := override_keeps_others rt s o doc key hexp hx hk
  refine ⟨p, hp, ?_⟩
  rw [h]
  have : oget (properties s) key = some v := by
    simp only [properties]
    cases s.dt with
    | none => exact hv
    | some t => simp only; rw [oget_oset_ne _ _ _ _ (Ne.symm hke), oget_oset_ne _ _ _ _ (Ne.symm hks)]; exact hv
  rw [this]
  simp [sanitize_of_native rt v hn]

theorem nativeList_map {α : Type} (f : α → J) (l : List α) (hf : ∀ x, (f x).native = true) :
    nativeList (l.map f) = true := by
  induction l with
  | nil => rfl
  | cons a t ih => simp [nativeList, hf a, ih]

theorem native_posToJ (p : Pos) : (posToJ p).native = true := by
  cases hz : p.z <;> simp [posToJ, hz, J.native, nativeList]

theorem native_ringToJ (r : List Pos) : (ringToJ r).native = true := by
  simp only [ringToJ, J.native]; exact nativeList_map _ _ native_posToJ

theorem native_ringsToJ (rs : List (List Pos)) : (J.arr (rs.map ringToJ)).native = true := by
  simp only [J.native]; exact nativeList_map _ _ native_ringToJ

theorem native_coordinates (g : Geom) (k : Option Nat) : (g.coordinates k).native = true := by
  cases g with
  | poly p => exact native_ringsToJ _
  | line vs => exact native_ringToJ _
  | point p => exact native_posToJ _
  | mpoly ps =>
    simp only [Geom.coordinates, J.native]
    exact nativeList_map _ _ (fun p => native_ringsToJ _)
  | mline ls => exact native_ringsToJ _
  | mpoint ps => exact native_ringToJ _

/-- **JSON-serialisable** — whatever the shape's own properties contain (even `datetime` objects, which
    `sanitize_json` turns into text), the exported document contains only JSON-native values, provided the
    caller's own arguments (override properties, extra members) are JSON-native -/
theorem export_serialisable (rt : Rt) (s : Src) (o : Opts) (doc : J)
    (hexp : toGeoJson rt s o = .ok doc)
    (hov : nativeKvs (o.props.getD []) = true) (hx : nativeKvs o.extra = true) : doc.native = true := by
  obtain ⟨geo, hgeo, hdoc⟩ := toGeoJson_ok hexp
  subst hdoc
  have hg : nativeKvs geo = true := by
    unfold toGeoInterface at hgeo
    cases hb : o.bbox with
    | false =>
      simp [hb] at hgeo
      subst hgeo
      simp [nativeKvs, J.native, native_coordinates]
    | true =>
      simp [hb] at hgeo
      obtain ⟨b, _, hgeo⟩ := bind_eq_ok hgeo
      simp at hgeo
      subst hgeo
      simp [nativeKvs, J.native, native_coordinates, bboxToJ, nativeList]
  have hp : nativeKvs (exportedProps rt s o) = true := nativeKvs_oupdate (native_sanKvs rt _) hov
  simp only [J.native]
  apply nativeKvs_oupdate _ hx
  simp [nativeKvs, J.native, hg, hp]

/-- **extra members** — any other keyword argument (e.g. `id`) becomes a top-level member of the Feature -/
theorem extra_members (rt : Rt) (s : Src) (o : Opts) (doc : J) (key : String) (v : J)
    (hexp : toGeoJson rt s o = .ok doc) (hnd : KeysNodup o.extra) (hk : oget o.extra key = some v) :
    doc.member key = some v := by
  obtain ⟨geo, _, hdoc⟩ := toGeoJson_ok hexp
  subst hdoc
  exact oget_oupdate_present _ _ _ _ hnd hk

/-- the exported document is a Feature whose geometry has the type of the shape -/
theorem export_is_feature (rt : Rt) (s : Src) (o : Opts) (doc : J)
    (hexp : toGeoJson rt s o = .ok doc) (hx : ExtraOK o.extra) :
    doc.member "type" = some (.str "Feature") ∧
    ∃ geo, doc.member "geometry" = some (.obj geo) ∧ oget geo "type" = some (.str s.geom.typeName) ∧
      oget geo "coordinates" = some (s.geom.coordinates o.k) := by
  obtain ⟨geo, hgeo, hdoc⟩ := toGeoJson_ok hexp
  subst hdoc
  obtain ⟨m1, m2, _, _⟩ := exported_members (geo := geo) (props := exportedProps rt s o) hx
  obtain ⟨ht, hc⟩ := toGeoInterface_ok hgeo
  exact ⟨m1, geo, m2, ht, hc⟩

/-! ## 5. `parse_geojson` dispatch and malformed documents -/

theorem parserMap_upperName (k : Kind) : parserMap k.upperName = some (.kind k) := by
  cases k <;> simp [parserMap, Kind.upperName]

/-- **parse_feature** — a Feature is handed to the importer of its geometry's type -/
theorem parse_feature (rt : Rt) (hrt : rt.Lawful) (k : Kind) (d geo : Obj)
    (ht : oget d "type" = some (.str "Feature")) (hg : oget d "geometry" = some (.obj geo))
    (hgt : oget geo "type" = some (.str k.name)) : dispatch rt (.obj d) = .ok (.kind k) := by
  have hF : parserMap "FEATURE" = none := by simp [parserMap]
  simp [dispatch, ht, hg, hgt, hrt.upper_feature, hrt.upper_kind, parserMap_upperName, hF]

/-- **parse_bare** — a bare geometry is handed to the importer of its own type -/
theorem parse_bare (rt : Rt) (hrt : rt.Lawful) (k : Kind) (d : Obj)
    (ht : oget d "type" = some (.str k.name)) : dispatch rt (.obj d) = .ok (.kind k) := by
  simp [dispatch, ht, hrt.upper_kind, parserMap_upperName]

/-- **parse_unknown** — a document whose (upper-cased) type is not one of the seven known names and that has
    no geometry member is rejected with ValueError -/
theorem parse_unknown (rt : Rt) (d : Obj) (t : String) (n : Nat) (ks ke : String)
    (ht : oget d "type" = some (.str t)) (hu : parserMap (rt.upper t) = none)
    (hg : oget d "geometry" = none) : parseFuel rt ks ke n (.obj d) = .error "ERR:Value" := by
  cases n <;> simp [parseFuel, dispatch, ht, hu, hg]

/-- what `parse_geojson` does with a document whose importer is `k`: exactly that importer -/
theorem parse_eq_import (rt : Rt) (k : Kind) (d : J) (n : Nat) (ks ke : String)
    (hd : dispatch rt d = .ok (.kind k)) :
    parseFuel rt ks ke n d = (fromGeoJson rt k d ks ke).map (fun r => (.shape r.1, r.2)) := by
  cases n <;> (simp only [parseFuel, hd, ok_bind]; cases fromGeoJson rt k d ks ke <;> rfl)

/-- **wrong_type_rejected** — an importer given a geometry of another type (or a Feature of another type)
    raises ValueError -/
theorem wrong_type_rejected (rt : Rt) (k : Kind) (d geo : Obj) (ks ke : String)
    (hg : selectGeom d = .ok geo) (ht : oget geo "type" ≠ some (.str k.name)) :
    fromGeoJson rt k (.obj d) ks ke = .error "ERR:Value" := by
  have hc : checkType geo k.name = .error "ERR:Value" := by
    unfold checkType
    cases h : oget geo "type" with
    | none => rfl
    | some j =>
      cases j with
      | str t =>
        have : t ≠ k.name := fun e => ht (by rw [h, e])
        simp [this]
      | _ => rfl
  simp [fromGeoJson, hg, hc]

/-- **missing_geometry_rejected** — a document with neither `coordinates` nor `geometry` raises ValueError -/
theorem missing_geometry_rejected (rt : Rt) (k : Kind) (d : Obj) (ks ke : String)
    (hc : oget d "coordinates" = none) (hg : oget d "geometry" = none) :
    fromGeoJson rt k (.obj d) ks ke = .error "ERR:Value" := by
  apply wrong_type_rejected rt k d [] ks ke
  · simp [selectGeom, ohas, hc, hg]
  · simp

/-! ## 6. collections -/

theorem mapIdxE_cons_ok {α β : Type} {f : Nat → α → Except String β} {i : Nat} {x : α} {xs : List α}
    {r : List β} (h : mapIdxE f i (x :: xs) = .ok r) :
    ∃ y ys, f i x = .ok y ∧ mapIdxE f (i + 1) xs = .ok ys ∧ r = y :: ys := by
  simp only [mapIdxE] at h
  obtain ⟨y, hy, h⟩ := bind_eq_ok h
  obtain ⟨ys, hys, h⟩ := bind_eq_ok h
  simp at h
  exact ⟨y, ys, hy, hys, h.symm⟩

theorem collToGeoJson_ok {rt : Rt} {shapes : List Src} {o : Opts} {doc : J}
    (h : collToGeoJson rt shapes o = .ok doc) :
    ∃ feats, mapIdxE (fun idx s =>
        if ohas o.extra "id" then .error "ERR:Type"
        else toGeoJson rt s { o with extra := ("id", .num idx) :: o.extra }) 0 shapes = .ok feats ∧
      doc = .obj [("type", .str "FeatureCollection"), ("features", .arr feats)] := by
  unfold collToGeoJson at h
  obtain ⟨feats, hf, h⟩ := bind_eq_ok h
  simp at h
  exact ⟨feats, hf, h.symm⟩

theorem mapIdxE_length {α β : Type} {f : Nat → α → Except String β} {i : Nat} {xs : List α} {r : List β}
    (h : mapIdxE f i xs = .ok r) : r.length = xs.length := by
  induction xs generalizing i r with
  | nil => simp [mapIdxE] at h; subst h; rfl
  | cons x t ih =>
    obtain ⟨y, ys, _, h2, rfl⟩ := mapIdxE_cons_ok h
    simp [ih h2]

/-- **collection_export_shape** — a collection exports a FeatureCollection with one Feature per member, in
    member order, the i-th carrying `id = i` -/
theorem collection_export_shape (rt : Rt) (shapes : List Src) (o : Opts) (doc : J)
    (h : collToGeoJson rt shapes o = .ok doc) :
    ∃ feats, doc = .obj [("type", .str "FeatureCollection"), ("features", .arr feats)] ∧
      feats.length = shapes.length ∧
      ∀ i (hi : i < shapes.length) (hi' : i < feats.length),
        toGeoJson rt shapes[i] { o with extra := ("id", .num i) :: o.extra } = .ok feats[i] := by
  obtain ⟨feats, hf, hdoc⟩ := collToGeoJson_ok h
  refine ⟨feats, hdoc, mapIdxE_length hf, ?_⟩
  have key : ∀ (xs : List Src) (j : Nat) (fs : List J),
      mapIdxE (fun idx s =>
        if ohas o.extra "id" then .error "ERR:Type"
        else toGeoJson rt s { o with extra := ("id", .num idx) :: o.extra }) j xs = .ok fs →
      ∀ i (hi : i < xs.length) (hi' : i < fs.length),
        toGeoJson rt xs[i] { o with extra := ("id", .num ((j + i : Nat) : Rat)) :: o.extra } = .ok fs[i] := by
    intro xs
    induction xs with
    | nil => intro j fs _ i hi; simp at hi
    | cons x t ih =>
      intro j fs hfs i hi hi'
      obtain ⟨y, ys, h1, h2, rfl⟩ := mapIdxE_cons_ok hfs
      cases i with
      | zero =>
        by_cases hid : ohas o.extra "id" = true
        · simp [hid] at h1
        · simpa [hid] using h1
      | succ i' =>
        have := ih (j + 1) ys h2 i' (by simpa using hi) (by simpa using hi')
        simp only [List.getElem_cons_succ]
        have e : ((j + 1 + i' : Nat) : Rat) = ((j + (i' + 1) : Nat) : Rat) := by
          congr 1; omega
        rw [e] at this
        exact this
  intro i hi hi'
  have := key shapes 0 feats hf i hi hi'
  simpa using this

/-- one exported member comes back from `parse_geojson` (any fuel) as its polygon form, document untouched -/
theorem feature_parse_roundtrip (rt : Rt) (hrt : rt.Lawful) (s : Src) (o : Opts) (doc : J) (n : Nat)
    (hg : GeomOK s.geom o.k) (hP : PropsOK s.props) (hdt : DtOK s.dt)
    (hov : o.props.getD [] = []) (hx : ExtraOK o.extra)
    (hexp : toGeoJson rt s o = .ok doc) :
    ∃ sg, s.geom.polyForm o.k = .ok sg ∧
      parseFuel rt "datetime_start" "datetime_end" n doc = .ok (.shape ⟨sg, s.dt, s.props⟩, doc) := by
  obtain ⟨sg, h1, h2⟩ := roundtrip rt hrt s o doc hg hP hdt hov hx hexp
  refine ⟨sg, h1, ?_⟩
  obtain ⟨m1, geo, m2, m3, _⟩ := export_is_feature rt s o doc hexp hx
  obtain ⟨geo', _, hdoc⟩ := toGeoJson_ok hexp
  subst hdoc
  simp only [J.member] at m1 m2
  rw [typeName_eq] at m3
  have hd := parse_feature rt hrt s.geom.kind _ geo m1 m2 m3
  rw [parse_eq_import rt s.geom.kind _ n _ _ hd, h2]
  rfl

theorem extraOK_id {extra : Obj} (hx : ExtraOK extra) (v : J) : ExtraOK (("id", v) :: extra) := by
  obtain ⟨h1, h2, h3, h4⟩ := hx
  refine ⟨?_, ?_, ?_, ?_⟩ <;> simp [oget, *]

/-- the members of an exported collection, parsed one by one -/
theorem features_roundtrip (rt : Rt) (hrt : rt.Lawful) (o : Opts) (n : Nat)
    (hov : o.props.getD [] = []) (hx : ExtraOK o.extra) :
    ∀ (shapes : List Src) (i : Nat) (feats : List J),
      (∀ s ∈ shapes, GeomOK s.geom o.k ∧ PropsOK s.props ∧ DtOK s.dt) →
      mapIdxE (fun idx s =>
        if ohas o.extra "id" then .error "ERR:Type"
        else toGeoJson rt s { o with extra := ("id", .num idx) :: o.extra }) i shapes = .ok feats →
      ∃ gs rs, mapE (fun s => s.geom.polyForm o.k) shapes = .ok gs ∧
        mapE (fun f => parseFuel rt "datetime_start" "datetime_end" n f) feats = .ok rs ∧
        rs.map (·.1) = List.zipWith (fun s g => Parsed.shape ⟨g, s.dt, s.props⟩) shapes gs ∧
        rs.map (·.2) = feats := by
  intro shapes
  induction shapes with
  | nil =>
    intro i feats _ h
    simp [mapIdxE] at h
    subst h
    exact ⟨[], [], rfl, rfl, rfl, rfl⟩
  | cons s t ih =>
    intro i feats hs h
    obtain ⟨f, fs, h1, h2, rfl⟩ := mapIdxE_cons_ok h
    obtain ⟨gs, rs, g1, g2, g3, g4⟩ := ih (i + 1) fs (fun x hx' => hs x (by simp [hx'])) h2
    obtain ⟨hg, hP, hdt⟩ := hs s (by simp)
    by_cases hid : ohas o.extra "id" = true
    · simp [hid] at h1
    · simp only [hid, Bool.false_eq_true, if_false] at h1
      obtain ⟨sg, p1, p2⟩ := feature_parse_roundtrip rt hrt s
        { o with extra := ("id", .num i) :: o.extra } f n hg hP hdt hov (extraOK_id hx _) h1
      refine ⟨sg :: gs, (.shape ⟨sg, s.dt, s.props⟩, f) :: rs, ?_, ?_, ?_, ?_⟩
      · simp only [mapE]; rw [p1, g1]; rfl
      · simp only [mapE]; rw [p2, g2]; rfl
      · simp [g3]
      · simp [g4]

/-- **collection_roundtrip** — exporting a FeatureCollection and importing the result returns, member by
    member and in order, the polygon form of each member with its time bounds and properties; the document
    is untouched -/
theorem collection_roundtrip (rt : Rt) (hrt : rt.Lawful) (shapes : List Src) (o : Opts) (doc : J)
    (hs : ∀ s ∈ shapes, GeomOK s.geom o.k ∧ PropsOK s.props ∧ DtOK s.dt)
    (hov : o.props.getD [] = []) (hx : ExtraOK o.extra)
    (hexp : collToGeoJson rt shapes o = .ok doc) :
    ∃ gs, mapE (fun s => s.geom.polyForm o.k) shapes = .ok gs ∧
      fcFromGeoJson rt doc =
        .ok (List.zipWith (fun s g => Parsed.shape ⟨g, s.dt, s.props⟩) shapes gs, doc) := by
  obtain ⟨feats, hf, hdoc⟩ := collToGeoJson_ok hexp
  obtain ⟨gs, rs, g1, g2, g3, g4⟩ := features_roundtrip rt hrt o doc.depth hov hx shapes 0 feats hs hf
  refine ⟨gs, g1, ?_⟩
  subst hdoc
  simp only [fcFromGeoJson, collFromGeoJson, oget]
  simp [g2, g3, g4, oset]

theorem mapE_snd_eq {α : Type} {parse : J → Except String (α × J)} (hp : ∀ f r, parse f = .ok r → r.2 = f) :
    ∀ {fs : List J} {rs : List (α × J)}, mapE parse fs = .ok rs → rs.map (·.2) = fs := by
  intro fs
  induction fs with
  | nil => intro rs h; simp [mapE] at h; subst h; rfl
  | cons f t ih =>
    intro rs h
    obtain ⟨y, ys, h1, h2, rfl⟩ := mapE_cons_ok h
    simp [hp f y h1, ih h2]

theorem collFromGeoJson_pure {parse : J → Except String (Parsed × J)}
    (hp : ∀ f r, parse f = .ok r → r.2 = f) (d : J) (r : List Parsed × J)
    (h : collFromGeoJson parse d = .ok r) : r.2 = d := by
  cases d with
  | obj o =>
    unfold collFromGeoJson at h
    simp only at h
    cases ht : oget o "type" with
    | none => simp [ht] at h
    | some tj =>
      cases tj with
      | str t =>
        simp only [ht] at h
        by_cases hfc : t = "FeatureCollection"
        · simp only [hfc, if_true] at h
          cases hf : oget o "features" with
          | none => simp [hf] at h; rw [← h]
          | some fj =>
            cases fj with
            | arr fs =>
              simp only [hf] at h
              obtain ⟨rs, hrs, h⟩ := bind_eq_ok h
              simp at h
              rw [← h, mapE_snd_eq hp hrs, oset_oget_self _ _ _ hf]
            | null => simp [hf] at h
            | bool b => simp [hf] at h
            | num q => simp [hf] at h
            | str s => simp [hf] at h
            | dt us => simp [hf] at h
            | obj kv => simp [hf] at h
        · simp [hfc] at h
      | null => simp [ht] at h
      | bool b => simp [ht] at h
      | num q => simp [ht] at h
      | dt us => simp [ht] at h
      | arr xs => simp [ht] at h
      | obj kv => simp [ht] at h
  | null => simp [collFromGeoJson] at h
  | bool b => simp [collFromGeoJson] at h
  | num q => simp [collFromGeoJson] at h
  | str s => simp [collFromGeoJson] at h
  | dt us => simp [collFromGeoJson] at h
  | arr xs => simp [collFromGeoJson] at h

theorem parseFuel_pure (rt : Rt) (ks ke : String) :
    ∀ (n : Nat) (d : J) (r : Parsed × J), parseFuel rt ks ke n d = .ok r → r.2 = d := by
  intro n
  induction n with
  | zero =>
    intro d r h
    simp only [parseFuel] at h
    obtain ⟨p, _, h⟩ := bind_eq_ok h
    cases p with
    | kind k =>
      simp only at h
      obtain ⟨x, hx, h⟩ := bind_eq_ok h
      simp at h
      rw [← h]
      exact import_pure rt k d ks ke x hx
    | fc => simp at h
  | succ m ih =>
    intro d r h
    simp only [parseFuel] at h
    obtain ⟨p, _, h⟩ := bind_eq_ok h
    cases p with
    | kind k =>
      simp only at h
      obtain ⟨x, hx, h⟩ := bind_eq_ok h
      simp at h
      rw [← h]
      exact import_pure rt k d ks ke x hx
    | fc =>
      simp only at h
      obtain ⟨x, hx, h⟩ := bind_eq_ok h
      simp at h
      rw [← h]
      exact collFromGeoJson_pure (fun f r hr => ih f r hr) d x hx

/-- **collection_import_pure** — importing a FeatureCollection (through `FeatureCollection.from_geojson`,
    `Track.from_geojson` or `parse_geojson`, nested collections included) leaves the document as it was -/
theorem collection_import_pure (rt : Rt) (d : J) (ks ke : String) :
    (∀ r, fcFromGeoJson rt d ks ke = .ok r → r.2 = d) ∧
    (∀ r, trackFromGeoJson rt d ks ke = .ok r → r.2 = d) ∧
    (∀ r, parseGeoJson rt d ks ke = .ok r → r.2 = d) := by
  have h1 : ∀ r, fcFromGeoJson rt d ks ke = .ok r → r.2 = d := fun r h =>
    collFromGeoJson_pure (fun f r hr => parseFuel_pure rt ks ke _ f r hr) d r h
  refine ⟨h1, ?_, fun r h => parseFuel_pure rt ks ke _ d r h⟩
  intro r h
  unfold trackFromGeoJson at h
  obtain ⟨x, hx, h⟩ := bind_eq_ok h
  obtain ⟨y, _, h⟩ := bind_eq_ok h
  simp at h
  rw [← h]
  exact h1 x hx

/-! ### Track: the members are sorted by start at construction; export → import keeps that order -/

theorem mem_insertByStart {α : Type} (key : α → Int) (x z : α) (l : List α) :
    z ∈ insertByStart key x l ↔ z = x ∨ z ∈ l := by
  induction l with
  | nil => simp [insertByStart]
  | cons y ys ih =>
    by_cases h : key x ≤ key y
    · simp [insertByStart, h]
    · simp only [insertByStart, h, if_false, List.mem_cons, ih]
      constructor
      · rintro (h1 | h1 | h1) <;> simp [h1]
      · rintro (h1 | h1 | h1) <;> simp [h1]

theorem mem_sortByStart {α : Type} (key : α → Int) (z : α) (l : List α) :
    z ∈ sortByStart key l ↔ z ∈ l := by
  induction l with
  | nil => simp [sortByStart]
  | cons x t ih =>
    have : sortByStart key (x :: t) = insertByStart key x (sortByStart key t) := rfl
    rw [this, mem_insertByStart, ih]
    simp

theorem pairwise_insertByStart {α : Type} (key : α → Int) (x : α) (l : List α)
    (h : l.Pairwise (fun a b => key a ≤ key b)) :
    (insertByStart key x l).Pairwise (fun a b => key a ≤ key b) := by
  induction l with
  | nil => simp [insertByStart]
  | cons y ys ih =>
    rw [List.pairwise_cons] at h
    by_cases hxy : key x ≤ key y
    · simp only [insertByStart, hxy, if_true]
      rw [List.pairwise_cons]
      refine ⟨?_, List.pairwise_cons.mpr h⟩
      intro z hz
      simp only [List.mem_cons] at hz
      rcases hz with rfl | hz
      · exact hxy
      · exact le_trans hxy (h.1 z hz)
    · simp only [insertByStart, hxy, if_false]
      rw [List.pairwise_cons]
      refine ⟨?_, ih h.2⟩
      intro z hz
      rw [mem_insertByStart] at hz
      rcases hz with rfl | hz
      · exact le_of_lt (not_le.mp hxy)
      · exact h.1 z hz

theorem pairwise_sortByStart {α : Type} (key : α → Int) (l : List α) :
    (sortByStart key l).Pairwise (fun a b => key a ≤ key b) := by
  induction l with
  | nil => simp [sortByStart]
  | cons x t ih => exact pairwise_insertByStart key x _ ih

/-- the key `Track.__init__` sorts by -/
def startOf (s : Src) : Int := match s.dt with | some t => t.start | none => 0

def mkParsed (s : Src) (g : SGeom) : Parsed := .shape ⟨g, s.dt, s.props⟩

theorem trackKeys_zipWith (L : List Src) (gs : List SGeom) (hdt : ∀ s ∈ L, s.dt.isSome = true) :
    trackKeys (List.zipWith mkParsed L gs) = .ok (List.zipWith (fun s g => (startOf s, mkParsed s g)) L gs) := by
  induction L generalizing gs with
  | nil => simp [trackKeys]
  | cons s t ih =>
    cases gs with
    | nil => simp [trackKeys]
    | cons g gs' =>
      have hs := hdt s (by simp)
      cases hd : s.dt with
      | none => rw [hd] at hs; simp at hs
      | some ti =>
        simp only [List.zipWith_cons_cons, mkParsed, trackKeys, hd]
        have := ih gs' (fun x hx => hdt x (by simp [hx]))
        simp only [mkParsed] at this
        rw [this]
        simp [startOf, hd]

theorem sort_keyed_id (L : List Src) (gs : List SGeom)
    (hp : L.Pairwise (fun a b => startOf a ≤ startOf b)) :
    sortByStart (fun (kp : Int × Parsed) => kp.1) (List.zipWith (fun s g => (startOf s, mkParsed s g)) L gs)
      = List.zipWith (fun s g => (startOf s, mkParsed s g)) L gs := by
  induction L generalizing gs with
  | nil => simp [sortByStart]
  | cons s t ih =>
    cases gs with
    | nil => simp [sortByStart]
    | cons g gs' =>
      rw [List.pairwise_cons] at hp
      have hrec := ih gs' hp.2
      have hstep : sortByStart (fun (kp : Int × Parsed) => kp.1)
          (List.zipWith (fun s g => (startOf s, mkParsed s g)) (s :: t) (g :: gs'))
          = insertByStart (fun (kp : Int × Parsed) => kp.1) (startOf s, mkParsed s g)
              (sortByStart (fun (kp : Int × Parsed) => kp.1)
                (List.zipWith (fun s g => (startOf s, mkParsed s g)) t gs')) := rfl
      rw [hstep, hrec]
      cases t with
      | nil => simp [insertByStart]
      | cons s' t' =>
        cases gs' with
        | nil => simp [insertByStart]
        | cons g' gs'' =>
          have hle : startOf s ≤ startOf s' := hp.1 s' (by simp)
          simp [insertByStart, hle]

theorem map_snd_zipWith (L : List Src) (gs : List SGeom) :
    (List.zipWith (fun s g => (startOf s, mkParsed s g)) L gs).map (·.2) = List.zipWith mkParsed L gs := by
  induction L generalizing gs with
  | nil => simp
  | cons s t ih => cases gs with
    | nil => simp
    | cons g gs' => simp [ih]

theorem mkTrack_ok {shapes sorted : List Src} (h : mkTrack shapes = .ok sorted) :
    sorted = sortByStart startOf shapes ∧ ∀ s ∈ shapes, s.dt.isSome = true := by
  unfold mkTrack at h
  by_cases ha : shapes.all (fun s => s.dt.isSome) = true
  · simp only [ha, if_true] at h
    injection h with h
    refine ⟨h.symm, ?_⟩
    simpa using ha
  · simp [ha] at h

/-- **track_roundtrip** — a Track (members sorted by start at construction, ties kept in their given order)
    exports its members in that order, and `Track.from_geojson` of the exported document returns them in
    the same order, each as its polygon form with the same time bounds and properties; the document is
    untouched -/
theorem track_roundtrip (rt : Rt) (hrt : rt.Lawful) (shapes sorted : List Src) (o : Opts) (doc : J)
    (hs : ∀ s ∈ shapes, GeomOK s.geom o.k ∧ PropsOK s.props ∧ DtOK s.dt)
    (hov : o.props.getD [] = []) (hx : ExtraOK o.extra)
    (ht : mkTrack shapes = .ok sorted)
    (hexp : collToGeoJson rt sorted o = .ok doc) :
    ∃ gs, mapE (fun s => s.geom.polyForm o.k) sorted = .ok gs ∧
      trackFromGeoJson rt doc = .ok (List.zipWith mkParsed sorted gs, doc) := by
  obtain ⟨hsorted, hdt⟩ := mkTrack_ok ht
  have hmem : ∀ s ∈ sorted, s ∈ shapes := fun s h => by
    rw [hsorted] at h; exact (mem_sortByStart _ _ _).mp h
  obtain ⟨gs, g1, g2⟩ := collection_roundtrip rt hrt sorted o doc (fun s h => hs s (hmem s h)) hov hx hexp
  refine ⟨gs, g1, ?_⟩
  have hpw : sorted.Pairwise (fun a b => startOf a ≤ startOf b) := by
    rw [hsorted]; exact pairwise_sortByStart startOf shapes
  have hk := trackKeys_zipWith sorted gs (fun s h => hdt s (hmem s h))
  have hsort := sort_keyed_id sorted gs hpw
  have hz : List.zipWith (fun s g => Parsed.shape ⟨g, s.dt, s.props⟩) sorted gs = List.zipWith mkParsed sorted gs := rfl
  rw [hz] at g2
  simp only [trackFromGeoJson, g2, ok_bind, trackOfParsed, hk, hsort, map_snd_zipWith]
  rfl

/-! ## 7. the hypotheses are satisfiable (non-vacuity) -/

/-- an injective text for every instant (unary, so that injectivity is provable without `String` internals) -/
def tsEnc (x : Int) : List Char := List.replicate x.toNat 'p' ++ 'z' :: List.replicate (-x).toNat 'n'

theorem tsEnc_inj {x y : Int} (h : tsEnc x = tsEnc y) : x = y := by
  have h1 : (tsEnc x).count 'p' = (tsEnc y).count 'p' := by rw [h]
  have h2 : (tsEnc x).count 'n' = (tsEnc y).count 'n' := by rw [h]
  simp [tsEnc, List.count_append, List.count_replicate] at h1 h2
  omega

open Classical in
/-- a runtime satisfying `Rt.Lawful` — only to show that the assumption is consistent (the driver's runtime
    uses opaque tokens of the same kind and Lean's `String.toUpper`) -/
noncomputable def demoRt : Rt where
  iso x := String.ofList (tsEnc x)
  parse s := if h : ∃ x : Int, String.ofList (tsEnc x) = s then .ok (Classical.choose h) else .error "ERR:Value"
  upper s :=
    if s = "Point" then "POINT" else if s = "LineString" then "LINESTRING"
    else if s = "Polygon" then "POLYGON" else if s = "MultiPoint" then "MULTIPOINT"
    else if s = "MultiLineString" then "MULTILINESTRING" else if s = "MultiPolygon" then "MULTIPOLYGON"
    else if s = "Feature" then "FEATURE" else if s = "FeatureCollection" then "FEATURECOLLECTION" else s

/-- `Rt.Lawful` is satisfiable -/
theorem demoRt_lawful : demoRt.Lawful where
  parse_iso x := by
    have h : ∃ y : Int, String.ofList (tsEnc y) = String.ofList (tsEnc x) := ⟨x, rfl⟩
    simp only [demoRt, h, dite_true]
    congr 1
    exact tsEnc_inj (String.ofList_injective (Classical.choose_spec h))
  iso_ne x := by
    intro h
    have : (String.ofList (tsEnc x)).toList = ("" : String).toList := by rw [← h]; rfl
    rw [String.toList_ofList] at this
    simp [tsEnc] at this
  upper_kind k := by cases k <;> simp [demoRt, Kind.name, Kind.upperName]
  upper_feature := by simp [demoRt]
  upper_fc := by simp [demoRt]

/-- the unit square with a triangular hole, Z = 0 on the shell, an instant, nested properties: all the
    hypotheses of `roundtrip_polygon` hold -/
example :
    let sq : List Pos := [⟨0, 0, some 0⟩, ⟨4, 0, some 0⟩, ⟨4, 4, some 0⟩, ⟨0, 4, some 0⟩, ⟨0, 0, some 0⟩]
    let hole : List Pos := [⟨1, 1, none⟩, ⟨2, 1, none⟩, ⟨1, 2, none⟩, ⟨1, 1, none⟩]
    let props : Obj := [("name", .str "a"), ("tags", .arr [.num 1, .obj [("k", .null)]])]
    ShellOK sq ∧ HoleOK hole ∧ (∀ q ∈ sq, PosOK q) ∧ (∀ q ∈ hole, PosOK q) ∧ PropsOK props ∧
      DtOK (some ⟨5, 5⟩) ∧ ExtraOK [("id", .num 7)] := by
  refine ⟨⟨by decide +kernel, rfl, by decide +kernel⟩, ⟨⟨by decide +kernel, rfl, by decide +kernel⟩, by decide +kernel⟩, ?_, ?_,
    ⟨by decide +kernel, by decide +kernel, by decide +kernel⟩, by simp [DtOK],
    ⟨by decide +kernel, by decide +kernel, by decide +kernel, by decide +kernel⟩⟩
  · intro q hq; simp at hq; rcases hq with rfl | rfl | rfl | rfl | rfl <;> (unfold PosOK; norm_num)
  · intro q hq; simp at hq; rcases hq with rfl | rfl | rfl | rfl <;> (unfold PosOK; norm_num)

/-- the constructor really normalises: a clockwise open triangle is closed and reversed -/
example : mkOutlineP [⟨0, 0, none⟩, ⟨0, 3, none⟩, ⟨4, 0, none⟩] =
    .ok [⟨0, 0, none⟩, ⟨4, 0, none⟩, ⟨0, 3, none⟩, ⟨0, 0, none⟩] := by decide +kernel

/-- a zero-area hole is the excluded class of the polygon round trip: it is "counter-clockwise" in both
    directions, so `GeoPolygon.from_geojson` does not restore its direction -/
example :
    let flat : List Pos := [⟨1, 1, none⟩, ⟨2, 1, none⟩, ⟨3, 1, none⟩, ⟨1, 1, none⟩]
    ShellOK flat ∧ ¬ HoleOK flat ∧ mkOutlineP flat.reverse = .ok flat.reverse := by
  refine ⟨⟨by decide +kernel, rfl, by decide +kernel⟩, ?_, by decide +kernel⟩
  intro h; exact absurd h.2 (by decide +kernel)

/-! ## 8. export histories: a re-export describes the shape as it is now

In the model an in-place update is a new record and `toGeoJson` is a function of the record, so "export,
update, export again" is the export of the updated record; the three corollaries below say what the second
document must contain.  The `history` streams of the harness compare every export of a live object (after
`set_dt`, `strip_dt`, `buffer_dt`, `set_property`, on copies, pickles, imported shapes and collection members)
with the model applied to the updated fields. -/

/-- after `set_dt(t)` the next export carries `t`, whatever was exported before -/
theorem reexport_set_dt (rt : Rt) (s : Src) (o : Opts) (doc : J) (t : TI)
    (hexp : toGeoJson rt (s.setDt (some t)) o = .ok doc) (hx : oget o.extra "properties" = none)
    (h1 : oget (o.props.getD []) "datetime_start" = none) (h2 : oget (o.props.getD []) "datetime_end" = none) :
    ∃ props, doc.propsOf = some props ∧
      oget props "datetime_start" = some (.str (rt.iso t.start)) ∧
      oget props "datetime_end" = some (.str (rt.iso t.stop)) :=
  time_bounds_exported rt _ o doc t hexp hx rfl h1 h2

/-- after `strip_dt()` the next export's `properties` are the user properties only (no stale time bounds) -/
theorem reexport_strip_dt (rt : Rt) (s : Src) (o : Opts) (doc : J) (key : String)
    (hexp : toGeoJson rt s.stripDt o = .ok doc) (hx : oget o.extra "properties" = none)
    (hk : oget (o.props.getD []) key = none) :
    ∃ props, doc.propsOf = some props ∧ oget props key = (oget s.props key).map (sanitize rt) := by
  obtain ⟨p, hp, h⟩ := override_keeps_others rt s.stripDt o doc key hexp hx hk
  exact ⟨p, hp, by rw [h]; rfl⟩

/-- after `set_property(key, v)` the next export carries `v` under `key` (unless the key is shadowed by the
    time bounds or overridden by the caller) -/
theorem reexport_set_property (rt : Rt) (s : Src) (o : Opts) (doc : J) (key : String) (v : J)
    (hexp : toGeoJson rt (s.setProperty key v) o = .ok doc) (hx : oget o.extra "properties" = none)
    (hk : oget (o.props.getD []) key = none)
    (hks : key ≠ "datetime_start") (hke : key ≠ "datetime_end") :
    ∃ props, doc.propsOf = some props ∧ oget props key = some (sanitize rt v) := by
  obtain ⟨p, hp, h⟩ := override_keeps_others rt (s.setProperty key v) o doc key hexp hx hk
  refine ⟨p, hp, ?_⟩
  rw [h]
  have : oget (properties (s.setProperty key v)) key = some v := by
    simp only [properties, Src.setProperty]
    cases s.dt with
    | none => exact oget_oset_self _ _ _
    | some t =>
      simp only
      rw [oget_oset_ne _ _ _ _ (Ne.symm hke), oget_oset_ne _ _ _ _ (Ne.symm hks)]
      exact oget_oset_self _ _ _
  rw [this]; rfl

/-! ## 9. ring orientation across the antimeridian

`exterior_ccw_holes_cw` is stated for rings off the antimeridian (`NoWrap`).  The same holds for rings with edges
across ±180°, with "counter-clockwise" read on the un-wrapped ring (`unwrap`, `winding` in the Spec file): the
hypotheses are that stored longitudes are in `[-180, 180]` (what `Coordinate.__init__` leaves) and that the ring
does not run around a pole (`turn = 0`). -/

theorem lonOK_closeRingP_reverse {c : List Pos} (h : LonOK (c.map Pos.pt)) : LonOK (c.reverse.map Pos.pt) := by
  rw [List.map_reverse]; exact lonOK_reverse h

/-- with stored longitudes in range — on either side of, or across, the antimeridian — what
    `GeoPolygon.__init__` leaves is closed, non-empty and counter-clockwise for the library's own test -/
theorem constructor_leaves_shellOK_lon {raw o : List Pos} (h : mkOutlineP raw = .ok o)
    (hl : LonOK ((closeRingP raw).map Pos.pt)) :
    ShellOK o ∧ LonOK (o.map Pos.pt) ∧ (turn ((closeRingP raw).map Pos.pt) = 0 → turn (o.map Pos.pt) = 0) := by
  have hne := mkOutlineP_ne_nil h
  have hcl := mkOutlineP_closed h
  have hcc := closed_map Pos.pt (closeRingP_closed raw)
  unfold mkOutlineP at h
  by_cases he : raw.isEmpty
  · simp [he] at h
  · simp only [he, Bool.false_eq_true, if_false] at h
    cases hccw : isCCW ((closeRingP raw).map Pos.pt) with
    | true =>
      simp [hccw] at h
      subst h
      exact ⟨⟨hne, hcl, hccw⟩, hl, id⟩
    | false =>
      simp [hccw] at h
      subst h
      have ha : shoelace ((closeRingP raw).map Pos.pt) ≠ 0 := by
        intro h0
        simp [isCCW, h0] at hccw
      have hrev := isCCW_reverse_lon _ hcc hl ha
      rw [hccw] at hrev
      refine ⟨⟨hne, hcl, ?_⟩, lonOK_closeRingP_reverse hl, ?_⟩
      · rw [List.map_reverse]; simpa using hrev
      · intro ht; rw [List.map_reverse, turn_reverse, ht]; simp

/-- **exterior_ccw_holes_cw, antimeridian included** — for a polygon built from arbitrary vertex lists whose
    stored longitudes are in range and whose rings do not run around a pole: in the exported coordinates the
    exterior ring is counter-clockwise and every hole clockwise on the un-wrapped longitudes, for every `k` -/
theorem exterior_ccw_holes_cw_antimeridian (raw : List Pos) (holes : List (List Pos)) (p : PolySrc)
    (k : Option Nat) (h : mkPolygon raw holes = .ok p)
    (hl : LonOK ((closeRingP raw).map Pos.pt)) (ht : turn ((closeRingP raw).map Pos.pt) = 0)
    (hlh : ∀ r ∈ holes, LonOK ((closeRingP r).map Pos.pt))
    (hth : ∀ r ∈ holes, turn ((closeRingP r).map Pos.pt) = 0) :
    ∃ shell hs, p.linearRings k = shell :: hs ∧ 0 ≤ area2 (unwrap (shell.map Pos.pt)) ∧
      ∀ r ∈ hs, area2 (unwrap (r.map Pos.pt)) ≤ 0 := by
  obtain ⟨o, hs, h1, h2, rfl⟩ := mkPolygon_ok h
  refine ⟨o, hs.map List.reverse, mkPolygon_linearRings k, ?_, ?_⟩
  · obtain ⟨hso, hlo, hto⟩ := constructor_leaves_shellOK_lon h1 hl
    exact (isCCW_iff_winding _ (closed_map Pos.pt hso.2.1) hlo (hto ht)).mp hso.2.2
  · intro r hr
    simp only [List.mem_map] at hr
    obtain ⟨h0, hh0, rfl⟩ := hr
    obtain ⟨x, hx, hfx⟩ := mapE_mem h2 h0 hh0
    obtain ⟨hso, hlo, hto⟩ := constructor_leaves_shellOK_lon hfx (hlh x hx)
    have hc0 := closed_map Pos.pt hso.2.1
    have hneg : shoelace (h0.map Pos.pt) ≤ 0 := by
      have := hso.2.2
      simpa [isCCW] using this
    have hrev := shoelace_eq_neg_area2_unwrap _ (closed_reverse hc0) (lonOK_reverse hlo)
      (by rw [turn_reverse, hto (hth x hx)]; simp)
    rw [shoelace_reverse _ hc0 hlo] at hrev
    rw [List.map_reverse]
    linarith

/-- off the antimeridian un-wrapping changes nothing: the two readings of "counter-clockwise" agree -/
theorem isCCW_iff_winding_and_area (r : List Pt) (hc : Closed r) (hl : LonOK r) (ht : turn r = 0) :
    (isCCW r = true ↔ 0 ≤ area2 (unwrap r)) ∧ (isCCW r.reverse = true ↔ area2 (unwrap r) ≤ 0) := by
  refine ⟨isCCW_iff_winding r hc hl ht, ?_⟩
  have h1 := shoelace_eq_neg_area2_unwrap r hc hl ht
  have h2 := shoelace_reverse r hc hl
  unfold isCCW
  rw [h2, h1]
  simp

end GV.GeoJson
