import GeoVerif.Gen.SrcFlood
import GeoVerif.Props.C12
/-!
# Source tie for the shape hashing of `NiemeyerHasher` (`geohash.py`)

`GeoVerif/Gen/SrcFlood.lean` is regenerated from the current text of `geohash.py` on every run: `_hash_point`,
`_hash_linestring`, `_hash_polygon` (each at a single shape and at a multi-shape), `hash_shape` (one instance per kind of
shape: the `isinstance` chain is decided per instance), `hash_coordinates` and `hash_collection`.  The geometry is abstract
exactly as in `Model/Flood.lean` (`nbrs` = `_get_surrounding`, `touches s c` = `niemeyer_to_geobox(c).intersects_shape(s)`,
`cellOf` = `_coord_to_niemeyer`), `queue.pop()` returns `pick queue`; what is translated is the work-list discipline:

* the inner `for near_gh in …` loop becomes a structural recursion returning the three local sets — proved equal, for every
  state, to the model's `visit` (`lineLoop2_eq`, `polyLoop2_eq`);
* the `while queue:` loop becomes a fuelled recursion that *reports* running out of fuel (and a `pop()` the schedule
  refuses) as an exception — proved equal, for every fuel and state, to the model's `floodGo`, whose `none` is exactly
  that (`lineLoop1_eq`, `polyLoop1_eq`; `Except.toOption` forgets which exception it was);
* results are compared as **lists**: the translated sets are the model's duplicate-free lists with the same insertion
  order (`set.add` is `addSet`), so every statement below is an equality, not merely a set-equality.

`vertices[0]` / `bounding_coords()[0]` raise `IndexError` on an empty list; `startOf` is `none` there and the equalities
cover that case too (the model's `ShapeDesc` is then not defined: `descSingle` / `descMulti` are `none`).
-/
set_option linter.unusedSimpArgs false
set_option linter.unusedVariables false

namespace GV.C12Src
open GV.Flood

variable {C K S G A : Type} [DecidableEq C]
variable (nbrs : C → List C) (touches : S → C → Bool) (pick : List C → Option C) (fuel : Nat)
  (cellOf : K → C) (cen : S → K) (verts : S → List K) (bcoords : S → List K) (hashOf : G → List C)
  (aggK : List K → A) (aggG : List G → A)

/-! ## generic facts about the prelude -/

theorem toOption_eq_some {α : Type} {x : Except String α} {v : α} : x.toOption = some v ↔ x = .ok v := by
  cases x <;> simp [Except.toOption]

theorem toOption_map {α β : Type} (g : α → β) (x : Except String α) : (x.map g).toOption = x.toOption.map g := by
  cases x <;> rfl

theorem mapE_toOption {α β : Type} (f : α → Except String β) : ∀ l : List α,
    (GV.FloodPy.mapE f l).toOption = allSome (l.map fun x => (f x).toOption)
  | [] => rfl
  | x :: xs => by
    have ih := mapE_toOption f xs
    simp only [GV.FloodPy.mapE, List.map_cons]
    cases hx : f x with
    | error e => simp [Except.toOption, allSome]
    | ok y =>
      show _ = allSome (some y :: xs.map fun x => (f x).toOption)
      simp only [allSome]
      rw [← ih]
      cases GV.FloodPy.mapE f xs <;> rfl

theorem allSome_bind {α β γ : Type} (a : α → Option β) (h : β → Option γ) : ∀ l : List α,
    allSome (l.map fun x => (a x).bind h) = (allSome (l.map a)).bind (fun bs => allSome (bs.map h))
  | [] => rfl
  | x :: xs => by
    have ih := allSome_bind a h xs
    simp only [List.map_cons]
    cases hx : a x with
    | none => simp [allSome]
    | some b =>
      cases hxs : allSome (xs.map a) with
      | none =>
        rw [hxs] at ih
        cases hb : h b <;> simp_all [allSome]
      | some bs =>
        rw [hxs] at ih
        cases hb : h b <;> simp_all [allSome]

/-! ## the two loops of `_hash_polygon` and `_hash_linestring` are the model's `visit` and `floodGo` -/

/-- the inner loop of `_hash_polygon`: one pass over the neighbours of the popped cell, for every state -/
theorem polyLoop2_eq (u : Unit) (p : S) : ∀ (ns checked queue valid : List C),
    Src.Flood.hashPolyS.loop2 nbrs touches pick fuel cellOf cen verts bcoords hashOf aggK aggG u p ns checked queue valid =
      ((visit (touches p) ns ⟨valid, checked, queue⟩).checked, (visit (touches p) ns ⟨valid, checked, queue⟩).queue,
        (visit (touches p) ns ⟨valid, checked, queue⟩).valid) := by
  intro ns
  induction ns with
  | nil => intros; rfl
  | cons n ns ih =>
    intro checked queue valid
    unfold Src.Flood.hashPolyS.loop2 visit
    by_cases hc : n ∈ checked
    · simp [hc, ih]
    · cases ht : touches p n <;> simp [hc, ht, ih, addSet]

/-- the `while queue:` loop of `_hash_polygon`, for every fuel and state (`none` = out of fuel / refused pop) -/
theorem polyLoop1_eq (u : Unit) (p : S) : ∀ (n : Nat) (checked queue valid : List C),
    (Src.Flood.hashPolyS.loop1 nbrs touches pick fuel cellOf cen verts bcoords hashOf aggK aggG u p n checked queue valid).toOption =
      floodGo nbrs (touches p) pick n ⟨valid, checked, queue⟩ := by
  intro n
  induction n with
  | zero =>
    intro checked queue valid
    cases queue <;> simp [Src.Flood.hashPolyS.loop1, floodGo, Except.toOption]
  | succ n ih =>
    intro checked queue valid
    unfold Src.Flood.hashPolyS.loop1 floodGo
    cases queue with
    | nil => simp [Except.toOption]
    | cons a as =>
      cases hp : pick (a :: as) with
      | none => simp [Except.toOption, hp]
      | some gh => simp [hp, polyLoop2_eq, ih]

theorem lineLoop2_eq (u : Unit) (p : S) : ∀ (ns checked queue valid : List C),
    Src.Flood.hashLineS.loop2 nbrs touches pick fuel cellOf cen verts bcoords hashOf aggK aggG u p ns checked queue valid =
      ((visit (touches p) ns ⟨valid, checked, queue⟩).checked, (visit (touches p) ns ⟨valid, checked, queue⟩).queue,
        (visit (touches p) ns ⟨valid, checked, queue⟩).valid) := by
  intro ns
  induction ns with
  | nil => intros; rfl
  | cons n ns ih =>
    intro checked queue valid
    unfold Src.Flood.hashLineS.loop2 visit
    by_cases hc : n ∈ checked
    · simp [hc, ih]
    · cases ht : touches p n <;> simp [hc, ht, ih, addSet]

theorem lineLoop1_eq (u : Unit) (p : S) : ∀ (n : Nat) (checked queue valid : List C),
    (Src.Flood.hashLineS.loop1 nbrs touches pick fuel cellOf cen verts bcoords hashOf aggK aggG u p n checked queue valid).toOption =
      floodGo nbrs (touches p) pick n ⟨valid, checked, queue⟩ := by
  intro n
  induction n with
  | zero =>
    intro checked queue valid
    cases queue <;> simp [Src.Flood.hashLineS.loop1, floodGo, Except.toOption]
  | succ n ih =>
    intro checked queue valid
    unfold Src.Flood.hashLineS.loop1 floodGo
    cases queue with
    | nil => simp [Except.toOption]
    | cons a as =>
      cases hp : pick (a :: as) with
      | none => simp [Except.toOption, hp]
      | some gh => simp [hp, lineLoop2_eq, ih]

/-! ## the hashers of one kind of shape -/

/-- the start cell: the cell of the first of `coords s` (`none`: the list is empty, Python raises `IndexError`) -/
def startOf (coords : S → List K) (s : S) : Option C := (coords s).head?.map cellOf

/-- **`_hash_polygon` of a single polygon is the model's `flood`** from the cell of `bounding_coords()[0]` -/
theorem hashPolyS_eq (u : Unit) (p : S) :
    (Src.Flood.hashPolyS nbrs touches pick fuel cellOf cen verts bcoords hashOf aggK aggG u p).toOption =
      (startOf cellOf bcoords p).bind (flood nbrs (touches p) pick fuel) := by
  unfold Src.Flood.hashPolyS startOf
  cases h : bcoords p with
  | nil => simp [GV.Py.getIdx, Except.toOption]
  | cons k r => simp [GV.Py.getIdx, polyLoop1_eq, flood, addSet]

/-- **`_hash_linestring` of a single linestring is the model's `flood`** from the cell of `vertices[0]` -/
theorem hashLineS_eq (u : Unit) (p : S) :
    (Src.Flood.hashLineS nbrs touches pick fuel cellOf cen verts bcoords hashOf aggK aggG u p).toOption =
      (startOf cellOf verts p).bind (flood nbrs (touches p) pick fuel) := by
  unfold Src.Flood.hashLineS startOf
  cases h : verts p with
  | nil => simp [GV.Py.getIdx, Except.toOption]
  | cons k r => simp [GV.Py.getIdx, lineLoop1_eq, flood, addSet]

/-- `_hash_polygon` of a multi-polygon: the members' floods, united in member order -/
theorem hashPolyM_eq (u : Unit) (ms : List S) :
    (Src.Flood.hashPolyM nbrs touches pick fuel cellOf cen verts bcoords hashOf aggK aggG u ms).toOption =
      (allSome (ms.map fun p => (startOf cellOf bcoords p).bind (flood nbrs (touches p) pick fuel))).map unionAll := by
  unfold Src.Flood.hashPolyM
  rw [toOption_map, mapE_toOption]
  simp only [hashPolyS_eq]

theorem hashLineM_eq (u : Unit) (ms : List S) :
    (Src.Flood.hashLineM nbrs touches pick fuel cellOf cen verts bcoords hashOf aggK aggG u ms).toOption =
      (allSome (ms.map fun p => (startOf cellOf verts p).bind (flood nbrs (touches p) pick fuel))).map unionAll := by
  unfold Src.Flood.hashLineM
  rw [toOption_map, mapE_toOption]
  simp only [hashLineS_eq]

/-- `_hash_point` of a point: the cell of its centroid -/
theorem hashPointS_eq (u : Unit) (p : S) :
    Src.Flood.hashPointS nbrs touches pick fuel cellOf cen verts bcoords hashOf aggK aggG u p = [cellOf (cen p)] := by
  simp [Src.Flood.hashPointS, addSet]

/-- `_hash_point` of a multi-point: the cells of the members, each once, in member order -/
theorem hashPointM_eq (u : Unit) (ps : List S) :
    Src.Flood.hashPointM nbrs touches pick fuel cellOf cen verts bcoords hashOf aggK aggG u ps =
      unionAll ((ps.map fun p => cellOf (cen p)).map fun c => [c]) := by
  simp [Src.Flood.hashPointM, hashPointS_eq, List.map_map, Function.comp_def]

/-! ## `hash_shape`: the dispatch on the kind of shape is the model's `hashShape` on the shape's description -/

/-- what the model needs to know about a single line / polygon (`none`: it has no first coordinate) -/
def descSingle (coords : S → List K) (s : S) : Option (ShapeDesc C) :=
  (startOf cellOf coords s).map fun c => .single c (touches s)

/-- … and about a multi-line / multi-polygon -/
def descMulti (coords : S → List K) (ms : List S) : Option (ShapeDesc C) :=
  (allSome (ms.map fun s => (startOf cellOf coords s).map fun c => (c, touches s))).map .multi

theorem hashShapePoint_eq (u : Unit) (p : S) :
    some (Src.Flood.hashShapePoint nbrs touches pick fuel cellOf cen verts bcoords hashOf aggK aggG u p) =
      hashShape nbrs pick fuel (.point (cellOf (cen p))) := by
  simp [Src.Flood.hashShapePoint, hashPointS_eq, hashShape]

theorem hashShapeMPoint_eq (u : Unit) (ps : List S) :
    some (Src.Flood.hashShapeMPoint nbrs touches pick fuel cellOf cen verts bcoords hashOf aggK aggG u ps) =
      hashShape nbrs pick fuel (.multiPoint (ps.map fun p => cellOf (cen p))) := by
  simp only [Src.Flood.hashShapeMPoint, hashPointM_eq, hashShape]

theorem hashShapeLine_eq (u : Unit) (p : S) :
    (Src.Flood.hashShapeLine nbrs touches pick fuel cellOf cen verts bcoords hashOf aggK aggG u p).toOption =
      (descSingle touches cellOf verts p).bind (hashShape nbrs pick fuel) := by
  simp only [Src.Flood.hashShapeLine, hashLineS_eq, descSingle]
  cases startOf cellOf verts p <;> simp [hashShape]

theorem hashShapePoly_eq (u : Unit) (p : S) :
    (Src.Flood.hashShapePoly nbrs touches pick fuel cellOf cen verts bcoords hashOf aggK aggG u p).toOption =
      (descSingle touches cellOf bcoords p).bind (hashShape nbrs pick fuel) := by
  simp only [Src.Flood.hashShapePoly, hashPolyS_eq, descSingle]
  cases startOf cellOf bcoords p <;> simp [hashShape]

theorem multi_aux (coords : S → List K) (ms : List S) :
    (allSome (ms.map fun p => (startOf cellOf coords p).bind (flood nbrs (touches p) pick fuel))).map unionAll =
      (descMulti touches cellOf coords ms).bind (hashShape nbrs pick fuel) := by
  have h := allSome_bind (fun s => (startOf cellOf coords s).map fun c => (c, touches s))
    (fun m : C × (C → Bool) => flood nbrs m.2 pick fuel m.1) ms
  have e : (fun s => ((startOf cellOf coords s).map fun c => (c, touches s)).bind
        (fun m : C × (C → Bool) => flood nbrs m.2 pick fuel m.1)) =
      fun p => (startOf cellOf coords p).bind (flood nbrs (touches p) pick fuel) := by
    funext s; cases startOf cellOf coords s <;> rfl
  rw [e] at h
  rw [h, descMulti]
  cases allSome (ms.map fun s => (startOf cellOf coords s).map fun c => (c, touches s)) <;> simp [hashShape]

theorem hashShapeMLine_eq (u : Unit) (ms : List S) :
    (Src.Flood.hashShapeMLine nbrs touches pick fuel cellOf cen verts bcoords hashOf aggK aggG u ms).toOption =
      (descMulti touches cellOf verts ms).bind (hashShape nbrs pick fuel) := by
  simp only [Src.Flood.hashShapeMLine, hashLineM_eq, multi_aux]

theorem hashShapeMPoly_eq (u : Unit) (ms : List S) :
    (Src.Flood.hashShapeMPoly nbrs touches pick fuel cellOf cen verts bcoords hashOf aggK aggG u ms).toOption =
      (descMulti touches cellOf bcoords ms).bind (hashShape nbrs pick fuel) := by
  simp only [Src.Flood.hashShapeMPoly, hashPolyM_eq, multi_aux]

/-! ## `hash_coordinates` and `hash_collection`: the group-by and the aggregation -/

theorem collLoop2_eq (s : G) : ∀ (cells : List C) (d : List (C × List G)),
    Src.Flood.hashCollection.loop2 nbrs touches pick fuel cellOf cen verts bcoords hashOf aggK aggG s cells d =
      cells.foldl (fun d c => dictAppend d c s) d := by
  intro cells
  induction cells with
  | nil => intro d; rfl
  | cons c cs ih => intro d; simp [Src.Flood.hashCollection.loop2, ih]

theorem collLoop1_eq (u : Unit) : ∀ (shapes : List G) (d : List (C × List G)),
    Src.Flood.hashCollection.loop1 nbrs touches pick fuel cellOf cen verts bcoords hashOf aggK aggG u shapes d =
      shapes.foldl (fun d s => (hashOf s).foldl (fun d c => dictAppend d c s) d) d := by
  intro shapes
  induction shapes with
  | nil => intro d; rfl
  | cons s ss ih => intro d; simp [Src.Flood.hashCollection.loop1, ih, collLoop2_eq]

/-- **`hash_collection` is the model's `hashCollection`** (with `hashOf` the hash set of each member) -/
theorem hashCollection_eq (u : Unit) (shapes : List G) :
    Src.Flood.hashCollection nbrs touches pick fuel cellOf cen verts bcoords hashOf aggK aggG u shapes =
      hashCollection hashOf aggG shapes := by
  simp [Src.Flood.hashCollection, collLoop1_eq, hashCollection, groupBy]

theorem coordLoop1_eq (u : Unit) : ∀ (ks : List K) (d : List (C × List K)),
    Src.Flood.hashCoordinates.loop1 nbrs touches pick fuel cellOf cen verts bcoords hashOf aggK aggG u ks d =
      ks.foldl (fun d k => [cellOf k].foldl (fun d c => dictAppend d c k) d) d := by
  intro ks
  induction ks with
  | nil => intro d; rfl
  | cons k ks ih => intro d; simp [Src.Flood.hashCoordinates.loop1, ih]

/-- **`hash_coordinates` is the model's `hashCollection`** of the coordinates, each hashing to its one cell -/
theorem hashCoordinates_eq (u : Unit) (ks : List K) :
    Src.Flood.hashCoordinates nbrs touches pick fuel cellOf cen verts bcoords hashOf aggK aggG u ks =
      hashCollection (fun k => [cellOf k]) aggK ks := by
  simp [Src.Flood.hashCoordinates, coordLoop1_eq, hashCollection, groupBy]

/-! ## the C12 theorems, restated for the translated source -/

/-- **exactness / order independence for the source's `_hash_polygon`**: whatever member `queue.pop()` returns at each
    step, a completed run returns exactly the cells reachable from the cell of `bounding_coords()[0]` through touching
    neighbours -/
theorem src_hashPoly_eq_reach (hpick : PickSound pick) (u : Unit) (p : S) (k : K) (r : List K) (hb : bcoords p = k :: r)
    (v : List C) (h : Src.Flood.hashPolyS nbrs touches pick fuel cellOf cen verts bcoords hashOf aggK aggG u p = .ok v) :
    ∀ c, c ∈ v ↔ Reach nbrs (touches p) (cellOf k) c := by
  have e := hashPolyS_eq nbrs touches pick fuel cellOf cen verts bcoords hashOf aggK aggG u p
  rw [h] at e
  simp only [Except.toOption, startOf, hb, List.head?_cons, Option.map_some, Option.bind_some] at e
  exact flood_eq_reach (cellOf k) pick hpick fuel v e.symm

/-- the same for `_hash_linestring`, from the cell of `vertices[0]` -/
theorem src_hashLine_eq_reach (hpick : PickSound pick) (u : Unit) (p : S) (k : K) (r : List K) (hb : verts p = k :: r)
    (v : List C) (h : Src.Flood.hashLineS nbrs touches pick fuel cellOf cen verts bcoords hashOf aggK aggG u p = .ok v) :
    ∀ c, c ∈ v ↔ Reach nbrs (touches p) (cellOf k) c := by
  have e := hashLineS_eq nbrs touches pick fuel cellOf cen verts bcoords hashOf aggK aggG u p
  rw [h] at e
  simp only [Except.toOption, startOf, hb, List.head?_cons, Option.map_some, Option.bind_some] at e
  exact flood_eq_reach (cellOf k) pick hpick fuel v e.symm

/-- **soundness**: every cell the source's `_hash_polygon` returns, other than the start cell, touches the polygon -/
theorem src_hashPoly_sound (hpick : PickSound pick) (u : Unit) (p : S) (k : K) (r : List K) (hb : bcoords p = k :: r)
    (v : List C) (h : Src.Flood.hashPolyS nbrs touches pick fuel cellOf cen verts bcoords hashOf aggK aggG u p = .ok v) :
    ∀ c ∈ v, c = cellOf k ∨ touches p c = true := fun c hc =>
  reach_touches ((src_hashPoly_eq_reach nbrs touches pick fuel cellOf cen verts bcoords hashOf aggK aggG hpick u p k r hb v h c).mp hc)

/-- **completeness under connectedness**: if every cell of `T` is the start cell or lies on a neighbour path from it
    through touching cells, the source's `_hash_polygon` returns all of `T` -/
theorem src_hashPoly_complete_of_connected (hpick : PickSound pick) (u : Unit) (p : S) (k : K) (r : List K)
    (hb : bcoords p = k :: r) (v : List C)
    (h : Src.Flood.hashPolyS nbrs touches pick fuel cellOf cen verts bcoords hashOf aggK aggG u p = .ok v) (T : List C)
    (hconn : ∀ c ∈ T, c = cellOf k ∨ ∃ path, TouchPath nbrs (touches p) (cellOf k) path ∧ c ∈ path) :
    ∀ c ∈ T, c ∈ v := by
  intro c hc
  rw [src_hashPoly_eq_reach nbrs touches pick fuel cellOf cen verts bcoords hashOf aggK aggG hpick u p k r hb v h c]
  rcases hconn c hc with rfl | ⟨path, hp, hmem⟩
  · exact Reach.base
  · exact reach_of_path path (cellOf k) Reach.base hp c hmem

/-- **the fuel suffices (total correctness)**: on a finite set of cells `U` closed under `nbrs` that contains the start
    cell, the source's loop handed `|U| + 1` fuel neither runs out of fuel nor pops from an empty set, under every legal
    schedule, and returns exactly the reachable cells -/
theorem src_hashPoly_total (U : List C) (hU : ∀ c ∈ U, ∀ n ∈ nbrs c, n ∈ U) (hp1 : PickSound pick) (hp2 : PickTotal pick)
    (u : Unit) (p : S) (k : K) (r : List K) (hb : bcoords p = k :: r) (hs : cellOf k ∈ U) :
    ∃ v, Src.Flood.hashPolyS nbrs touches pick (U.length + 1) cellOf cen verts bcoords hashOf aggK aggG u p = .ok v ∧
      ∀ c, c ∈ v ↔ Reach nbrs (touches p) (cellOf k) c := by
  obtain ⟨v, hv, hr⟩ := flood_total (touches := touches p) U hU (cellOf k) hs pick hp1 hp2
  refine ⟨v, ?_, hr⟩
  rw [← toOption_eq_some, hashPolyS_eq]
  simpa [startOf, hb] using hv

theorem src_hashLine_total (U : List C) (hU : ∀ c ∈ U, ∀ n ∈ nbrs c, n ∈ U) (hp1 : PickSound pick) (hp2 : PickTotal pick)
    (u : Unit) (p : S) (k : K) (r : List K) (hb : verts p = k :: r) (hs : cellOf k ∈ U) :
    ∃ v, Src.Flood.hashLineS nbrs touches pick (U.length + 1) cellOf cen verts bcoords hashOf aggK aggG u p = .ok v ∧
      ∀ c, c ∈ v ↔ Reach nbrs (touches p) (cellOf k) c := by
  obtain ⟨v, hv, hr⟩ := flood_total (touches := touches p) U hU (cellOf k) hs pick hp1 hp2
  refine ⟨v, ?_, hr⟩
  rw [← toOption_eq_some, hashLineS_eq]
  simpa [startOf, hb] using hv

/-- **`hash_shape` of a multi-polygon is the union over its members**: a cell is returned iff it is reachable for some
    member from that member's start cell — for every schedule -/
theorem src_hashShape_multi (hpick : PickSound pick) (u : Unit) (ms : List S) (v : List C)
    (h : Src.Flood.hashShapeMPoly nbrs touches pick fuel cellOf cen verts bcoords hashOf aggK aggG u ms = .ok v) :
    ∀ c, c ∈ v ↔ ∃ p ∈ ms, ∃ st, startOf cellOf bcoords p = some st ∧ Reach nbrs (touches p) st c := by
  have e := hashShapeMPoly_eq nbrs touches pick fuel cellOf cen verts bcoords hashOf aggK aggG u ms
  rw [h] at e
  simp only [Except.toOption, descMulti] at e
  cases hl : allSome (ms.map fun s => (startOf cellOf bcoords s).map fun c => (c, touches s)) with
  | none => rw [hl] at e; simp at e
  | some l =>
    rw [hl] at e
    simp only [Option.map_some, Option.bind_some] at e
    have hm := allSome_eq_some hl
    intro c
    rw [hashShape_multi pick hpick fuel l v e.symm c]
    constructor
    · rintro ⟨m, hml, hr⟩
      have : some m ∈ ms.map fun s => (startOf cellOf bcoords s).map fun c => (c, touches s) := by
        rw [hm]; exact List.mem_map.mpr ⟨m, hml, rfl⟩
      obtain ⟨p, hp, hpm⟩ := List.mem_map.mp this
      cases hst : startOf cellOf bcoords p with
      | none => rw [hst] at hpm; simp at hpm
      | some st =>
        rw [hst] at hpm
        simp only [Option.map_some, Option.some.injEq] at hpm
        subst hpm
        exact ⟨p, hp, st, hst, hr⟩
    · rintro ⟨p, hp, st, hst, hr⟩
      have : some (st, touches p) ∈ ms.map fun s => (startOf cellOf bcoords s).map fun c => (c, touches s) :=
        List.mem_map.mpr ⟨p, hp, by simp [hst]⟩
      rw [hm] at this
      obtain ⟨m, hml, hmm⟩ := List.mem_map.mp this
      simp only [Option.some.injEq] at hmm
      subst hmm
      exact ⟨_, hml, hr⟩

/-- **collections**: the source's `hash_collection` maps each cell to the aggregate of exactly those members whose hash
    set contains it, in collection order; its keys are the cells of some member, each once -/
theorem src_hashCollection_spec (hnd : ∀ s, (hashOf s).Nodup) (u : Unit) (shapes : List G) :
    ((Src.Flood.hashCollection nbrs touches pick fuel cellOf cen verts bcoords hashOf aggK aggG u shapes).map (·.1)).Nodup ∧
    (∀ c, c ∈ (Src.Flood.hashCollection nbrs touches pick fuel cellOf cen verts bcoords hashOf aggK aggG u shapes).map (·.1) ↔
        ∃ s ∈ shapes, c ∈ hashOf s) ∧
    (∀ c a, (c, a) ∈ Src.Flood.hashCollection nbrs touches pick fuel cellOf cen verts bcoords hashOf aggK aggG u shapes →
        a = aggG (shapes.filter fun s => decide (c ∈ hashOf s))) := by
  rw [hashCollection_eq]; exact hashCollection_spec hashOf hnd aggG shapes

/-- the source's `hash_coordinates` maps each cell to the aggregate of exactly the coordinates that fall in it, in the
    order given -/
theorem src_hashCoordinates_spec (u : Unit) (ks : List K) (c : C) (a : A)
    (h : (c, a) ∈ Src.Flood.hashCoordinates nbrs touches pick fuel cellOf cen verts bcoords hashOf aggK aggG u ks) :
    a = aggK (ks.filter fun k => decide (cellOf k = c)) := by
  rw [hashCoordinates_eq] at h
  have := (hashCollection_spec (fun k => [cellOf k]) (fun _ => by simp) aggK ks).2.2 c a h
  simpa [eq_comm] using this

/-! ## non-vacuity: the translated `_hash_polygon` on the strip of `Props/C12` (cells `0..`, touching `1..3`) -/

example : Src.Flood.hashPolyS (K := Nat) (S := Unit) (G := Unit) (A := Nat) lineNbrs (fun _ => lineTouch)
    (fun q => q.head?) 10 id (fun _ => 0) (fun _ => []) (fun _ => [2]) (fun _ => []) List.length List.length () () =
    .ok [1, 3, 2] := by decide
example : Src.Flood.hashPolyS (K := Nat) (S := Unit) (G := Unit) (A := Nat) lineNbrs (fun _ => lineTouch)
    (fun q => q.head?) 2 id (fun _ => 0) (fun _ => []) (fun _ => [2]) (fun _ => []) List.length List.length () () =
    .error "ERR:Fuel" := by decide
example : Src.Flood.hashPolyS (K := Nat) (S := Unit) (G := Unit) (A := Nat) lineNbrs (fun _ => lineTouch)
    (fun q => q.head?) 10 id (fun _ => 0) (fun _ => []) (fun _ => []) (fun _ => []) List.length List.length () () =
    .error "ERR:Index" := by decide
example : Src.Flood.hashCollection (C := Nat) (K := Nat) (S := Unit) (G := Nat) (A := Nat) lineNbrs (fun _ => lineTouch)
    (fun q => q.head?) 0 id (fun _ => 0) (fun _ => []) (fun _ => []) (fun s => [s, s + 1]) List.length List.length ()
    [1, 2, 2] = [(1, 1), (2, 3), (3, 2)] := by decide

end GV.C12Src
