import GeoVerif.Gen.SrcPip
import GeoVerif.Gen.SrcMember
import GeoVerif.Props.C01
/-!
# Source tie for `GeoPolygon._point_in_polygon` (`structures.py`)

`GeoVerif/Gen/SrcPip.lean` is regenerated from the current text of `structures.py` on every run: the `for` loop with
its `inside` flag and early `return include_boundary` becomes a structural recursion over the edge list.  The recursion
is proved equal to the model's `pipGo` for every edge list and every flag value, the function to `pointInRing` for every
non-empty ring (on an empty ring `polygon[0]` raises `IndexError`), and the C01 ring theorems are restated for the
translated source.
-/
namespace GV.C01Src
open GV

/-- one iteration of the source loop is one step of `pipGo`, for every remaining edge list and every flag value -/
theorem loop_eq (p : Pt) (ring : List Pt) (b : Bool) :
    ∀ (es : List Edge) (ins : Bool),
      Src.Pip.pointInPolygon.loop1 p ring b p.1 p.2 es ins = .ok (pipGo p b es ins) := by
  intro es
  induction es with
  | nil => intro ins; rfl
  | cons e es ih =>
    intro ins
    unfold Src.Pip.pointInPolygon.loop1 pipGo
    simp only [ih]
    have hon : (((e.2.1 - e.1.1) * (p.2 - e.1.2) - (e.2.2 - e.1.2) * (p.1 - e.1.1) == ((0 : Int) : Rat)) &&
        (decide (minR e.1.1 e.2.1 ≤ p.1) && decide (p.1 ≤ maxR e.1.1 e.2.1)) &&
        (decide (minR e.1.2 e.2.2 ≤ p.2) && decide (p.2 ≤ maxR e.1.2 e.2.2))) = onEdge p e := by
      unfold onEdge pcross
      rw [Bool.eq_iff_iff]
      simp [Bool.and_assoc]
    have hcr : ((decide (e.1.2 > p.2) != decide (e.2.2 > p.2)) &&
        (decide ((e.2.1 - e.1.1) * (p.2 - e.1.2) - (e.2.2 - e.1.2) * (p.1 - e.1.1) > ((0 : Int) : Rat)) ==
          decide (e.2.2 > e.1.2))) = crossesRay p e := by
      unfold crossesRay pcross
      simp
    first
      | (simp only [hon, hcr]; split <;> [rfl; (split <;> rfl)])
      | (simp only [hon, hcr]; grind)
      | grind [onEdge, crossesRay, pcross]

/-- **the translated `_point_in_polygon` is the model's `pointInRing`** on every non-empty ring; on the empty ring the
    source raises `IndexError` (`polygon[0]`), which the model's caller never reaches -/
theorem pointInPolygon_eq (p : Pt) (ring : List Pt) (b : Bool) :
    Src.Pip.pointInPolygon p ring b =
      match ring with
      | [] => .error "ERR:Index"
      | _ :: _ => .ok (pointInRing p ring b) := by
  cases ring with
  | nil => rfl
  | cons v vs =>
    simp only [Src.Pip.pointInPolygon, Py.getIdx, loop_eq, pointInRing, ringEdges, List.drop_succ_cons, List.drop_zero]

/-- the two-argument instance (what `contains_coordinate` calls): `include_boundary` at its default `False` -/
theorem pointInPolygonDefault_eq (p : Pt) (ring : List Pt) :
    Src.Pip.pointInPolygonDefault p ring = Src.Pip.pointInPolygon p ring false := by
  have h : ∀ (es : List Edge) (ins : Bool),
      Src.Pip.pointInPolygonDefault.loop1 p ring false p.1 p.2 es ins =
        Src.Pip.pointInPolygon.loop1 p ring false p.1 p.2 es ins := by
    intro es
    induction es with
    | nil => intro ins; rfl
    | cons e es ih =>
      intro ins
      unfold Src.Pip.pointInPolygonDefault.loop1 Src.Pip.pointInPolygon.loop1
      simp only [ih]
  simp only [Src.Pip.pointInPolygonDefault, Src.Pip.pointInPolygon, h]

/-- **`GeoBox.contains_coordinate`** of the source is the model's `boxContains`, whatever `coord in hole` answers -/
theorem boxContainsCoordinate_eq (hc : List Pt → Pt → Bool) (nw se : Pt) (outline : List Pt) (holes : List (List Pt))
    (bnd : Rat × Rat × Rat × Rat) (p : Pt) :
    Src.Member.boxContainsCoordinate hc nw se outline holes bnd () p =
      ((decide (nw.1 ≤ p.1) && decide (p.1 ≤ se.1) && decide (se.2 ≤ p.2) && decide (p.2 ≤ nw.2)) &&
        !(holes.any fun h => hc h p)) := by
  simp only [Src.Member.boxContainsCoordinate]
  rw [Bool.eq_iff_iff]
  cases holes.any (fun h => hc h p) <;> simp [Bool.and_assoc]

/-- … and with `coord in hole` read as the polygon test of the hole, it is `boxContains` -/
theorem boxContainsCoordinate_model (nw se : Pt) (outline : List Pt) (holes : List (List Pt))
    (bnd : Rat × Rat × Rat × Rat) (p : Pt) :
    Src.Member.boxContainsCoordinate ringContains nw se outline holes bnd () p = boxContains nw se holes p := by
  rw [boxContainsCoordinate_eq]; rfl

/-- **`GeoPolygon.contains_coordinate`** of the source is the model's `polyContains`, for a non-empty outline whose cached
    `bounds` is its bounding box, with `coord in hole` read as the polygon test of the hole -/
theorem polyContainsCoordinate_model (nw se : Pt) (v : Pt) (vs : List Pt) (holes : List (List Pt))
    (bnd : Rat × Rat × Rat × Rat) (hb : bboxOf (v :: vs) = some bnd) (p : Pt) :
    Src.Member.polyContainsCoordinate ringContains nw se (v :: vs) holes bnd () p =
      .ok (polyContains (v :: vs) holes p) := by
  obtain ⟨x0, y0, x1, y1⟩ := bnd
  have hin : inBBox p (v :: vs) =
      (decide (x0 ≤ p.1) && decide (p.1 ≤ x1) && decide (y0 ≤ p.2) && decide (p.2 ≤ y1)) := by
    simp only [inBBox, hb]
  simp only [Src.Member.polyContainsCoordinate, pointInPolygonDefault_eq, pointInPolygon_eq, polyContains]
  rw [show ringContains (v :: vs) p = (inBBox p (v :: vs) && pointInRing p (v :: vs)) from rfl, hin]
  generalize (holes.any fun h => ringContains h p) = H
  generalize pointInRing p (v :: vs) = R
  cases H <;> cases R <;> by_cases a : x0 ≤ p.1 <;> by_cases b : p.1 ≤ x1 <;> by_cases c : y0 ≤ p.2 <;>
    by_cases d : p.2 ≤ y1 <;> simp [a, b, c, d]

/-! ### the C01 ring theorems, restated for the translated source -/

/-- the source's ring test is exactly "not on the boundary and an odd number of crossings" -/
theorem src_pointInRing_eq_spec (p : Pt) (v : Pt) (vs : List Pt) :
    Src.Pip.pointInPolygon p (v :: vs) false = .ok (insideEO p (ringEdges (v :: vs))) := by
  rw [pointInPolygon_eq]; simp only; rw [C01.pointInRing_eq_spec]

/-- a coordinate on the boundary is not contained -/
theorem src_boundary_false (p : Pt) (v : Pt) (vs : List Pt) (e : Edge) (he : e ∈ ringEdges (v :: vs))
    (hon : onEdge p e = true) : Src.Pip.pointInPolygon p (v :: vs) false = .ok false := by
  rw [pointInPolygon_eq]; simp only; rw [C01.pointInRing_boundary_false p (v :: vs) e he hon]

/-- `include_boundary=True` adds exactly the boundary -/
theorem src_inclB (p : Pt) (v : Pt) (vs : List Pt) :
    Src.Pip.pointInPolygon p (v :: vs) true =
      .ok (C01.onBoundary p (ringEdges (v :: vs)) || insideEO p (ringEdges (v :: vs))) := by
  rw [pointInPolygon_eq]; simp only; rw [C01.pointInRing_inclB]

end GV.C01Src
