import GeoVerif.Model.Multi
import GeoVerif.Lemmas.Multi
import Mathlib.Algebra.Order.Field.Rat
/-!
# C04 — multi-shapes relate as the union of their members

Every theorem quantifies over **all** member lists (any length, any order, duplicates allowed) and
**all** member-level relations `rc`, `ri`, `rs` (nothing is assumed about what a single shape answers).

* a multi-shape contains a coordinate iff some member does            — `containsCoord_eq_any`
* it intersects a shape iff some member intersects some part of it    — `intersectsShape_iff`
* … equally when the multi-shape is the argument                      — `singleIntersectsMulti_eq_any`,
                                                                         `pointIntersectsMulti_eq_any`, `intersects_mirror`
* it contains a shape iff every part is contained by some member      — `containsShape_iff`
* a single shape contains a multi-shape iff it contains every member  — `singleContainsMulti_eq_all`
* bounds are the union (smallest enclosing box) of the member boxes   — `bounds_is_union`, `bounds_least`
* split: members in order, parent's dt, a *copy* of its properties    — `split_spec`, `split_isolated`
* none of the answers depends on the member order                     — `*_perm`
-/
namespace GV.Multi

section predicates
variable {μ ν σ κ : Type}

/-- **coordinate membership**: some member contains the coordinate -/
theorem containsCoord_eq_any (rc : μ → κ → Bool) (ms : List μ) (c : κ) :
    containsCoord rc ms c = ms.any (fun m => rc m c) := by
  induction ms with
  | nil => rfl
  | cons m ms ih => simp only [containsCoord, List.any_cons, ih]; cases rc m c <;> simp

theorem containsCoord_iff (rc : μ → κ → Bool) (ms : List μ) (c : κ) :
    containsCoord rc ms c = true ↔ ∃ m ∈ ms, rc m c = true := by
  rw [containsCoord_eq_any, List.any_eq_true]

/-- **multi ∩ single**: some member intersects the shape (every member is consulted — the pinned
    commit stopped after the first one, F04) -/
theorem intersectsSingle_eq_any (ri : μ → σ → Bool) (ms : List μ) (x : σ) :
    intersectsSingle ri ms x = ms.any (fun m => ri m x) := by
  induction ms with
  | nil => rfl
  | cons m ms ih => simp only [intersectsSingle, List.any_cons, ih]; cases ri m x <;> simp

/-- **multi ∩ multi**: some member intersects some member of the argument -/
theorem intersectsMulti_eq_any_any (ri : μ → ν → Bool) (ms : List μ) (ys : List ν) :
    intersectsMulti ri ms ys = ys.any (fun y => ms.any (fun m => ri m y)) := by
  induction ys with
  | nil => rfl
  | cons y ys ih =>
    simp only [intersectsMulti, List.any_cons, ih, intersectsSingle_eq_any]
    cases ms.any (fun m => ri m y) <;> simp

/-- the same, read member-first -/
theorem intersectsMulti_eq_any_any' (ri : μ → ν → Bool) (ms : List μ) (ys : List ν) :
    intersectsMulti ri ms ys = ms.any (fun m => ys.any (fun y => ri m y)) := by
  rw [intersectsMulti_eq_any_any, Bool.eq_iff_iff]
  simp only [List.any_eq_true]
  constructor
  · rintro ⟨y, hy, m, hm, h⟩; exact ⟨m, hm, y, hy, h⟩
  · rintro ⟨m, hm, y, hy, h⟩; exact ⟨y, hy, m, hm, h⟩

/-- **`multi.intersects_shape(x)`** for either kind of argument:
    some member intersects some part of the argument -/
theorem intersectsShape_iff (ri : μ → σ → Bool) (ms : List μ) (a : Arg σ) :
    intersectsShape ri ms a = true ↔ ∃ m ∈ ms, ∃ p ∈ a.parts, ri m p = true := by
  cases a with
  | single x =>
    simp only [intersectsShape, intersectsSingle_eq_any, List.any_eq_true, Arg.parts,
      List.mem_singleton, exists_eq_left]
  | multi ys =>
    simp only [intersectsShape, intersectsMulti_eq_any_any', List.any_eq_true, Arg.parts]

/-- **single ∩ multi** (polygon-like and linestring receivers): the receiver intersects some member -/
theorem singleIntersectsMulti_eq_any (ri : σ → ν → Bool) (s : σ) (ys : List ν) :
    singleIntersectsMulti ri s ys = ys.any (fun y => ri s y) := by
  induction ys with
  | nil => rfl
  | cons y ys ih => simp only [singleIntersectsMulti, List.any_cons, ih]; cases ri s y <;> simp

/-- **point ∩ multi**: `GeoPoint.intersects_shape` hands over to the multi-shape: some member
    (as receiver) intersects the point -/
theorem pointIntersectsMulti_eq_any (ri' : ν → σ → Bool) (p : σ) (ys : List ν) :
    pointIntersectsMulti ri' p ys = ys.any (fun y => ri' y p) :=
  intersectsSingle_eq_any ri' ys p

/-- **mirrored forms agree**: if the member-level relation does not care which side is the receiver
    (C02 `intersects_symm`), neither does the multi-level one -/
theorem intersects_mirror (ri : μ → σ → Bool) (ri' : σ → μ → Bool) (hsym : ∀ m x, ri m x = ri' x m)
    (ms : List μ) (x : σ) :
    intersectsSingle ri ms x = singleIntersectsMulti ri' x ms ∧
    intersectsSingle ri ms x = pointIntersectsMulti ri x ms := by
  refine ⟨?_, ?_⟩
  · rw [intersectsSingle_eq_any, singleIntersectsMulti_eq_any]; simp only [hsym]
  · rw [pointIntersectsMulti_eq_any, intersectsSingle_eq_any]

theorem intersectsMulti_mirror (ri : μ → ν → Bool) (ri' : ν → μ → Bool) (hsym : ∀ m y, ri m y = ri' y m)
    (ms : List μ) (ys : List ν) : intersectsMulti ri ms ys = intersectsMulti ri' ys ms := by
  rw [intersectsMulti_eq_any_any, intersectsMulti_eq_any_any']; simp only [hsym]

/-- **multi ⊇ single**: some member contains the shape -/
theorem containsSingle_eq_any (rs : μ → σ → Bool) (ms : List μ) (x : σ) :
    containsSingle rs ms x = ms.any (fun m => rs m x) := by
  induction ms with
  | nil => rfl
  | cons m ms ih => simp only [containsSingle, List.any_cons, ih]; cases rs m x <;> simp

/-- **multi ⊇ multi**: every member of the argument is contained by some member -/
theorem containsMulti_eq_all_any (rs : μ → ν → Bool) (ms : List μ) (ys : List ν) :
    containsMulti rs ms ys = ys.all (fun y => ms.any (fun m => rs m y)) := by
  unfold containsMulti
  rw [pyAll_eq_all]
  simp only [containsSingle_eq_any]
  cases ys.all (fun y => ms.any (fun m => rs m y)) <;> simp

/-- **`multi.contains_shape(x)`** for either kind of argument:
    every part of the argument is contained by some member -/
theorem containsShape_iff (rs : μ → σ → Bool) (ms : List μ) (a : Arg σ) :
    containsShape rs ms a = true ↔ ∀ p ∈ a.parts, ∃ m ∈ ms, rs m p = true := by
  cases a with
  | single x =>
    simp only [containsShape, containsSingle_eq_any, List.any_eq_true, Arg.parts,
      List.mem_singleton, forall_eq]
  | multi ys =>
    simp only [containsShape, containsMulti_eq_all_any, List.all_eq_true, List.any_eq_true, Arg.parts]

/-- **single ⊇ multi**: the receiver contains every member -/
theorem singleContainsMulti_eq_all (rs : σ → ν → Bool) (s : σ) (ys : List ν) :
    singleContainsMulti rs s ys = ys.all (fun y => rs s y) := by
  induction ys with
  | nil => rfl
  | cons y ys ih => simp only [singleContainsMulti, List.all_cons, ih]; cases rs s y <;> simp

theorem singleContainsMulti_iff (rs : σ → ν → Bool) (s : σ) (ys : List ν) :
    singleContainsMulti rs s ys = true ↔ ∀ y ∈ ys, rs s y = true := by
  rw [singleContainsMulti_eq_all, List.all_eq_true]

/-! ### the answers do not depend on the member order (of the receiver or of the argument) -/

theorem containsCoord_perm (rc : μ → κ → Bool) {ms ms' : List μ} (h : ms.Perm ms') (c : κ) :
    containsCoord rc ms c = containsCoord rc ms' c := by
  rw [containsCoord_eq_any, containsCoord_eq_any, h.any_eq]

theorem intersectsSingle_perm (ri : μ → σ → Bool) {ms ms' : List μ} (h : ms.Perm ms') (x : σ) :
    intersectsSingle ri ms x = intersectsSingle ri ms' x := by
  rw [intersectsSingle_eq_any, intersectsSingle_eq_any, h.any_eq]

theorem intersectsMulti_perm (ri : μ → ν → Bool) {ms ms' : List μ} {ys ys' : List ν}
    (h : ms.Perm ms') (hy : ys.Perm ys') : intersectsMulti ri ms ys = intersectsMulti ri ms' ys' := by
  rw [intersectsMulti_eq_any_any, intersectsMulti_eq_any_any, hy.any_eq]
  congr 1; funext y; exact h.any_eq

theorem singleIntersectsMulti_perm (ri : σ → ν → Bool) (s : σ) {ys ys' : List ν} (hy : ys.Perm ys') :
    singleIntersectsMulti ri s ys = singleIntersectsMulti ri s ys' := by
  rw [singleIntersectsMulti_eq_any, singleIntersectsMulti_eq_any, hy.any_eq]

theorem pointIntersectsMulti_perm (ri' : ν → σ → Bool) (p : σ) {ys ys' : List ν} (hy : ys.Perm ys') :
    pointIntersectsMulti ri' p ys = pointIntersectsMulti ri' p ys' :=
  intersectsSingle_perm ri' hy p

theorem containsSingle_perm (rs : μ → σ → Bool) {ms ms' : List μ} (h : ms.Perm ms') (x : σ) :
    containsSingle rs ms x = containsSingle rs ms' x := by
  rw [containsSingle_eq_any, containsSingle_eq_any, h.any_eq]

theorem containsMulti_perm (rs : μ → ν → Bool) {ms ms' : List μ} {ys ys' : List ν}
    (h : ms.Perm ms') (hy : ys.Perm ys') : containsMulti rs ms ys = containsMulti rs ms' ys' := by
  rw [containsMulti_eq_all_any, containsMulti_eq_all_any, hy.all_eq]
  congr 1; funext y; exact h.any_eq

theorem singleContainsMulti_perm (rs : σ → ν → Bool) (s : σ) {ys ys' : List ν} (hy : ys.Perm ys') :
    singleContainsMulti rs s ys = singleContainsMulti rs s ys' := by
  rw [singleContainsMulti_eq_all, singleContainsMulti_eq_all, hy.all_eq]

end predicates

/-! ### member lists compose: `++` on members is `or` for membership/intersection, `and` over the argument for containment -/
section laws
variable {μ ν σ κ : Type}

/-- membership in a multi-shape assembled from two member lists is membership in either -/
theorem containsCoord_append (rc : μ → κ → Bool) (ms ms' : List μ) (c : κ) :
    containsCoord rc (ms ++ ms') c = (containsCoord rc ms c || containsCoord rc ms' c) := by
  simp only [containsCoord_eq_any, List.any_append]

/-- … likewise intersection with a single shape … -/
theorem intersectsSingle_append (ri : μ → σ → Bool) (ms ms' : List μ) (x : σ) :
    intersectsSingle ri (ms ++ ms') x = (intersectsSingle ri ms x || intersectsSingle ri ms' x) := by
  simp only [intersectsSingle_eq_any, List.any_append]

/-- … and intersection with a multi-shape distributes over either side's member list -/
theorem intersectsMulti_append_left (ri : μ → ν → Bool) (ms ms' : List μ) (ys : List ν) :
    intersectsMulti ri (ms ++ ms') ys = (intersectsMulti ri ms ys || intersectsMulti ri ms' ys) := by
  simp only [intersectsMulti_eq_any_any', List.any_append]

theorem intersectsMulti_append_right (ri : μ → ν → Bool) (ms : List μ) (ys ys' : List ν) :
    intersectsMulti ri ms (ys ++ ys') = (intersectsMulti ri ms ys || intersectsMulti ri ms ys') := by
  simp only [intersectsMulti_eq_any_any, List.any_append]

/-- containment of a multi-shape argument is a conjunction over the argument's members … -/
theorem containsMulti_append_right (rs : μ → ν → Bool) (ms : List μ) (ys ys' : List ν) :
    containsMulti rs ms (ys ++ ys') = (containsMulti rs ms ys && containsMulti rs ms ys') := by
  simp only [containsMulti_eq_all_any, List.all_append]

/-- … and adding members to the receiver never loses a containment or an intersection -/
theorem containsMulti_mono (rs : μ → ν → Bool) (ms ms' : List μ) (ys : List ν)
    (h : containsMulti rs ms ys = true) : containsMulti rs (ms ++ ms') ys = true := by
  rw [containsMulti_eq_all_any, List.all_eq_true] at *
  intro y hy
  rw [List.any_append, h y hy]; rfl

theorem intersectsMulti_mono (ri : μ → ν → Bool) (ms ms' : List μ) (ys : List ν)
    (h : intersectsMulti ri ms ys = true) : intersectsMulti ri (ms ++ ms') ys = true := by
  rw [intersectsMulti_append_left, h]; rfl

/-- the empty argument is contained by everything and intersects nothing (Python's `all([])` / `any([])`) -/
theorem multi_empty_arg (r : μ → ν → Bool) (ms : List μ) :
    containsMulti r ms [] = true ∧ intersectsMulti r ms [] = false := by
  simp [containsMulti_eq_all_any, intersectsMulti_eq_any_any]

end laws

/-! ### bounds -/

/-- box `B` encloses box `m` -/
def Box.encloses (B m : Box) : Prop := B.1 ≤ m.1 ∧ B.2.1 ≤ m.2.1 ∧ m.2.2.1 ≤ B.2.2.1 ∧ m.2.2.2 ≤ B.2.2.2

/-- "is the union of the member boxes": encloses every member box and each of its four sides is the
    corresponding side of some member -/
def IsUnion (B : Box) (bs : List Box) : Prop :=
  (∀ m ∈ bs, Box.encloses B m) ∧
  (∃ m ∈ bs, B.1 = m.1) ∧ (∃ m ∈ bs, B.2.1 = m.2.1) ∧ (∃ m ∈ bs, B.2.2.1 = m.2.2.1) ∧ (∃ m ∈ bs, B.2.2.2 = m.2.2.2)

/-- **bounds**: a multi-shape with at least one member has bounds, and they are the union of the
    members' bounds -/
theorem bounds_is_union (bs : List Box) (hne : bs ≠ []) : ∃ B, bounds bs = .ok B ∧ IsUnion B bs := by
  cases bs with
  | nil => exact absurd rfl hne
  | cons b bs =>
    refine ⟨_, rfl, ?_⟩
    have h1 := pyMin_proj (fun m : Box => m.1) b bs
    have h2 := pyMin_proj (fun m : Box => m.2.1) b bs
    have h3 := pyMax_proj (fun m : Box => m.2.2.1) b bs
    have h4 := pyMax_proj (fun m : Box => m.2.2.2) b bs
    exact ⟨fun m hm => ⟨h1.1 m hm, h2.1 m hm, h3.1 m hm, h4.1 m hm⟩, h1.2, h2.2, h3.2, h4.2⟩

/-- a multi-shape without members has no bounds (`ValueError`) -/
theorem bounds_empty : bounds [] = .error "ERR:Value" := rfl

/-- the union is the *smallest* enclosing box … -/
theorem bounds_least (B B' : Box) (bs : List Box) (hB : IsUnion B bs)
    (hB' : ∀ m ∈ bs, Box.encloses B' m) : Box.encloses B' B := by
  obtain ⟨_, ⟨m1, hm1, e1⟩, ⟨m2, hm2, e2⟩, ⟨m3, hm3, e3⟩, ⟨m4, hm4, e4⟩⟩ := hB
  refine ⟨?_, ?_, ?_, ?_⟩
  · rw [e1]; exact (hB' m1 hm1).1
  · rw [e2]; exact (hB' m2 hm2).2.1
  · rw [e3]; exact (hB' m3 hm3).2.2.1
  · rw [e4]; exact (hB' m4 hm4).2.2.2

/-- … hence unique … -/
theorem isUnion_unique (B B' : Box) (bs : List Box) (hB : IsUnion B bs) (hB' : IsUnion B' bs) : B = B' := by
  have h1 := bounds_least B B' bs hB hB'.1
  have h2 := bounds_least B' B bs hB' hB.1
  obtain ⟨a1, a2, a3, a4⟩ := h1
  obtain ⟨b1, b2, b3, b4⟩ := h2
  obtain ⟨x1, x2, x3, x4⟩ := B
  obtain ⟨y1, y2, y3, y4⟩ := B'
  simp only at a1 a2 a3 a4 b1 b2 b3 b4
  rw [le_antisymm b1 a1, le_antisymm b2 a2, le_antisymm a3 b3, le_antisymm a4 b4]

/-- … and independent of the member order -/
theorem bounds_perm {bs bs' : List Box} (h : bs.Perm bs') : bounds bs = bounds bs' := by
  by_cases hne : bs = []
  · subst hne; rw [List.nil_perm.mp h]
  · have hne' : bs' ≠ [] := fun e => hne (by subst e; exact List.perm_nil.mp h)
    obtain ⟨B, hB, hU⟩ := bounds_is_union bs hne
    obtain ⟨B', hB', hU'⟩ := bounds_is_union bs' hne'
    have hU2 : IsUnion B bs' := by
      obtain ⟨u0, ⟨m1, hm1, e1⟩, ⟨m2, hm2, e2⟩, ⟨m3, hm3, e3⟩, ⟨m4, hm4, e4⟩⟩ := hU
      exact ⟨fun m hm => u0 m (h.mem_iff.mpr hm), ⟨m1, h.mem_iff.mp hm1, e1⟩, ⟨m2, h.mem_iff.mp hm2, e2⟩,
        ⟨m3, h.mem_iff.mp hm3, e3⟩, ⟨m4, h.mem_iff.mp hm4, e4⟩⟩
    rw [hB, hB', isUnion_unique B B' bs' hU2 hU']

/-! ### split -/

/-- **split**: for a parent whose property dictionary lives at a valid address `pa`,
    the result lists the members' geometries in member order, every returned shape carries the
    parent's `dt`, its property dictionary has the parent's content but is a **new object** (its
    address did not exist before, so it is neither the parent's dictionary nor a member's nor any
    other object the caller holds), no two returned shapes share a dictionary, and nothing that
    existed before was modified. -/
theorem split_spec {γ : Type} (h : Heap) (pdt : Option TI) (pa : Nat) (ms : List (Shp γ))
    (hpa : pa < h.length) :
    let r := split h pdt pa ms
    r.2.map (·.geom) = ms.map (·.geom) ∧
    (∀ s ∈ r.2, s.dt = pdt) ∧
    (∀ s ∈ r.2, r.1.read s.props = h.read pa) ∧
    (∀ s ∈ r.2, h.length ≤ s.props ∧ s.props < r.1.length) ∧
    (r.2.map (·.props)).Nodup ∧
    (∀ a, a < h.length → r.1.read a = h.read a) := by
  intro r
  obtain ⟨g, hg, hgl⟩ := copyAll_heap h ms
  have hcl := copyAll_length h ms
  have hpa1 : pa < (copyAll h ms).1.length := by rw [hg]; simp; omega
  have hrd : Heap.read (copyAll h ms).1 pa = Heap.read h pa := by
    rw [hg]; exact read_append_left _ _ _ hpa
  have hr : r = ((copyAll h ms).1 ++ List.replicate (copyAll h ms).2.length (h.read pa),
      relabel pdt (copyAll h ms).1.length (copyAll h ms).2) := by
    show split h pdt pa ms = _
    unfold split
    rw [assignAll_eq pdt pa _ _ hpa1, hrd]
  have hprops : r.2.map (·.props) = List.range' (h.length + ms.length) ms.length := by
    rw [hr]; simp only
    rw [relabel_props, hg, hcl]; simp [hgl]
  have hheap : r.1 = h ++ (g ++ List.replicate ms.length (h.read pa)) := by
    rw [hr]; simp only; rw [hg, hcl, List.append_assoc]
  have hmem : ∀ s ∈ r.2, ∃ i, i < ms.length ∧ s.props = h.length + ms.length + i := by
    intro s hs
    have : s.props ∈ r.2.map (·.props) := List.mem_map_of_mem hs
    rw [hprops, List.mem_range'] at this
    obtain ⟨i, hi, e⟩ := this
    exact ⟨i, hi, by omega⟩
  refine ⟨?_, ?_, ?_, ?_, ?_, ?_⟩
  · rw [hr]; simp only; rw [relabel_geom, copyAll_geom]
  · rw [hr]; exact relabel_dt _ _ _
  · intro s hs
    obtain ⟨i, hi, e⟩ := hmem s hs
    rw [hheap, e, Nat.add_assoc, read_append_right, ← hgl, read_append_right, read_replicate _ _ _ (by omega)]
  · intro s hs
    obtain ⟨i, hi, e⟩ := hmem s hs
    rw [hheap]; simp [hgl]; omega
  · rw [hprops]; exact List.nodup_range' 1
  · intro a ha
    rw [hheap]; exact read_append_left _ _ _ ha

/-- **no shared mutable state after split**: `set_property` on one of the returned shapes changes that
    shape's dictionary and leaves the parent's, the other returned shapes' and the original members'
    dictionaries as they were; `set_property` on the parent afterwards does not reach the returned shapes. -/
theorem split_isolated {γ : Type} (h : Heap) (pdt : Option TI) (pa : Nat) (ms : List (Shp γ))
    (hpa : pa < h.length) (k v : String) :
    let r := split h pdt pa ms
    (∀ s ∈ r.2,
      let h2 := setProperty r.1 s k v
      h2.read s.props = dictSet (h.read pa) k v ∧
      h2.read pa = h.read pa ∧
      (∀ m ∈ ms, m.props < h.length → h2.read m.props = h.read m.props) ∧
      (∀ s' ∈ r.2, s'.props ≠ s.props → h2.read s'.props = h.read pa)) ∧
    (∀ s ∈ r.2, (Heap.write r.1 pa (dictSet (r.1.read pa) k v)).read s.props = h.read pa) := by
  intro r
  obtain ⟨_, _, hcont, hfresh, _, hold⟩ := split_spec h pdt pa ms hpa
  refine ⟨?_, ?_⟩
  · intro s hs h2
    have hf := hfresh s hs
    refine ⟨?_, ?_, ?_, ?_⟩
    · show Heap.read (Heap.write r.1 s.props _) s.props = _
      rw [read_write_eq _ _ _ hf.2, hcont s hs]
    · show Heap.read (Heap.write r.1 s.props _) pa = _
      rw [read_write_ne _ _ _ _ (by omega), hold pa hpa]
    · intro m _ hm
      show Heap.read (Heap.write r.1 s.props _) m.props = _
      rw [read_write_ne _ _ _ _ (by omega), hold _ hm]
    · intro s' hs' hne
      show Heap.read (Heap.write r.1 s.props _) s'.props = _
      rw [read_write_ne _ _ _ _ (Ne.symm hne), hcont s' hs']
  · intro s hs
    have hf := hfresh s hs
    rw [read_write_ne _ _ _ _ (by omega), hcont s hs]

/-! ### the repaired defect F04, for the record

At the pinned commit the trailing loop of `MultiShapeBase.intersects_shape` had a `return False`
inside its body (repaired by `fix: a multi-shape receiver consults every member in intersects_shape`).
That loop does **not** satisfy `intersectsSingle_eq_any`: two members, the second related. -/

/-- the loop as it stood at the pinned commit -/
def intersectsSinglePinned {μ σ : Type} (ri : μ → σ → Bool) : List μ → σ → Bool
  | [], _ => false
  | m :: _, x => if ri m x then true else false

theorem f04_counterexample :
    ∃ (ri : Nat → Nat → Bool) (ms : List Nat) (x : Nat),
      intersectsSinglePinned ri ms x ≠ ms.any (fun m => ri m x) :=
  ⟨fun m x => m == x, [1, 2], 2, by decide⟩

/-! ### non-vacuity -/

/-- the F04 witness (two members, only the second related) is answered `true`; a permutation and a
    mirrored call agree; "contains" distinguishes ∀∃ from ∃∀ -/
example :
    intersectsSingle (fun (m x : Nat) => m == x) [1, 2] 2 = true ∧
    singleIntersectsMulti (fun (x m : Nat) => x == m) 2 [1, 2] = true ∧
    containsMulti (fun (m y : Nat) => m == y) [1, 2] [2, 1] = true ∧
    containsMulti (fun (m y : Nat) => m == y) [1, 2] [2, 3] = false ∧
    singleContainsMulti (fun (s y : Nat) => s == y) 1 [1, 2] = false := by decide

example : bounds [(0, 0, 1, 1), (2, -1, 3, 0)] = .ok (0, -1, 3, 1) := by decide

/-- splitting a two-member parent whose dictionary sits at address 0 of a three-object heap -/
example :
    let r := split (γ := Nat) [[("a", "1")], [("m", "x")], []] (some ⟨5, 5⟩) 0 [⟨10, none, 1⟩, ⟨11, some ⟨1, 2⟩, 2⟩]
    r.2.map (·.geom) = [10, 11] ∧ r.2.map (·.props) = [5, 6] ∧ r.2.map (·.dt) = [some ⟨5, 5⟩, some ⟨5, 5⟩] ∧
    r.1.read 5 = [("a", "1")] ∧ (setProperty r.1 ⟨10, none, 5⟩ "a" "2").read 0 = [("a", "1")] := by decide

end GV.Multi
