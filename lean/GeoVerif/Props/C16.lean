import GeoVerif.Model.ObjState
import GeoVerif.Lemmas.ObjState

/-!
# C16 — queries are pure; observations stay coherent under in-place updates

State machine `GeoVerif/Model/ObjState.lean`: a live shape and an argument shape in one heap; a history
is a list of `Op`: read-only calls on the shape (`read`), read-only calls with the second shape as
argument (`read2`), and the four API mutators in both `inplace` modes (`Op.api`).

`fills : FillTable` (`Kind → has-dt → Read →` memoised observations the call goes through) — which memo slots (`cached_property bounds/centroid/area`,
`lru_cache to_shapely`) a read leaves filled — is *arbitrary* in every theorem: coherence does not
depend on which reads memoise, only on **what** may be memoised: values computed from the hole list and
the vertex/member list, which no API call changes.  `volume` reads `dt` and is therefore not a memo
slot (F16b); `to_polygon`/`centroid` of a ring are reads and hence leave the hole list alone (F16a).

Specification: `fresh f` — a newly constructed shape with fields `f` — and `Fields.apply`, the
meaning of the mutators on field values.
-/
set_option linter.unusedSectionVars false
namespace GV.OS
variable {G H W : Type}

/-! ## specification: what the mutators mean on the defining fields -/

def PArg.rval : PArg → RVal
  | .atom n => .atom n
  | .list xs => .list xs

/-- `set_dt` / `buffer_dt` / `strip_dt` / `set_property` as functions on field values -/
def Fields.apply (f : Fields G H W) : Mut H → Except String (Fields G H W)
  | .setDt v => .ok { f with dt := v }
  | .bufferDt d =>
      match f.dt with
      | none => .error "ERR:Value"
      | some t => if t.stop + d < t.start - d then .error "ERR:Value"
                  else .ok { f with dt := some ⟨t.start - d, t.stop + d⟩ }
  | .stripDt => .ok { f with dt := none }
  | .setProp k v => .ok { f with props := rdictSet f.props k v.rval }
  | _ => .error "not an API mutator"

def Op.api : Op H → Prop
  | .update m _ => m.isApi = true
  | _ => True

/-- invariant of a history -/
structure Inv (s : St G H W) : Prop where
  wfObj : WF s.heap s.obj
  wfArg : WF s.heap s.arg
  sep : Sep s.heap s.obj s.arg
  cohObj : Coherent s.heap s.obj
  cohArg : Coherent s.heap s.arg

/-! ## reads -/

theorem fill_fields (h : Heap H W) (o : Obj G H W) (sl : List Slot) : fields h (fill h o sl) = fields h o := rfl

theorem fill_curStamp (h : Heap H W) (o : Obj G H W) (sl : List Slot) : curStamp h (fill h o sl) = curStamp h o := rfl

theorem fill_coherent {h : Heap H W} {o : Obj G H W} (c : Coherent h o) (sl : List Slot) :
    Coherent h (fill h o sl) := by
  intro s st hs
  simp only [fill] at hs
  split at hs
  · simp only [Option.some.injEq] at hs; rw [← hs]; rfl
  · exact c s st hs

theorem fill_observe {h : Heap H W} {o : Obj G H W} (c : Coherent h o) (sl : List Slot) :
    observe h (fill h o sl) = observe h o := by
  have hd : derived h (fill h o sl) = derived h o := by
    funext s
    rw [(fill_coherent c sl).derived s, c.derived s, fill_curStamp]
  simp only [observe, fill_fields, hd]
  rfl

theorem fill_wf {h : Heap H W} {o : Obj G H W} (w : WF h o) (sl : List Slot) : WF h (fill h o sl) :=
  w.of_same rfl rfl rfl rfl

/-- **read-only calls change no defining field**, neither of the receiver nor of the argument -/
theorem reads_pure (fills : FillTable) (s : St G H W) (r : Read) :
    fields (opStep fills s (.read r)).heap (opStep fills s (.read r)).obj = fields s.heap s.obj ∧
    fields (opStep fills s (.read2 r)).heap (opStep fills s (.read2 r)).obj = fields s.heap s.obj ∧
    fields (opStep fills s (.read2 r)).heap (opStep fills s (.read2 r)).arg = fields s.heap s.arg ∧
    (opStep fills s (.read r)).arg = s.arg ∧
    (opStep fills s (.read r)).heap = s.heap ∧ (opStep fills s (.read2 r)).heap = s.heap :=
  ⟨rfl, rfl, rfl, rfl, rfl, rfl⟩

/-- … nor any observation (memoised ones included) -/
theorem reads_pure_obs (fills : FillTable) {s : St G H W} (i : Inv s) (r : Read) :
    observe (opStep fills s (.read r)).heap (opStep fills s (.read r)).obj = observe s.heap s.obj ∧
    observe (opStep fills s (.read2 r)).heap (opStep fills s (.read2 r)).obj = observe s.heap s.obj ∧
    observe (opStep fills s (.read2 r)).heap (opStep fills s (.read2 r)).arg = observe s.heap s.arg :=
  ⟨fill_observe i.cohObj _, fill_observe i.cohObj _, fill_observe i.cohArg _⟩

/-! ## the invariant along a history -/

theorem opStep_inv (fills : FillTable) {s : St G H W} (i : Inv s) (op : Op H) (hop : op.api) :
    Inv (opStep fills s op) := by
  cases op with
  | read r =>
    refine ⟨?_, ?_, ?_, ?_, ?_⟩ <;> simp only [opStep]
    · exact fill_wf i.wfObj _
    · exact i.wfArg
    · exact (i.sep.symm.of_same (b' := fill s.heap s.obj (s.obj.fillsOf fills r)) rfl rfl).symm
    · exact fill_coherent i.cohObj _
    · exact i.cohArg
  | read2 r =>
    refine ⟨?_, ?_, ?_, ?_, ?_⟩ <;> simp only [opStep]
    · exact fill_wf i.wfObj _
    · exact fill_wf i.wfArg _
    · exact ((i.sep.of_same (b' := fill s.heap s.arg (s.arg.fillsOf fills r)) rfl rfl).symm.of_same
        (b' := fill s.heap s.obj (s.obj.fillsOf fills r)) rfl rfl).symm
    · exact fill_coherent i.cohObj _
    · exact fill_coherent i.cohArg _
  | update m ip =>
    have hapi : m.isApi = true := hop
    obtain ⟨fa, hn, wb', sep'⟩ := step_frame m ip i.wfArg i.wfObj i.sep.symm
    obtain ⟨hc, hst, _, _⟩ := step_api_self m ip hapi i.wfObj
    refine ⟨wb', fa.wf hn i.wfArg, sep'.symm, ?_, ?_⟩
    · intro sl st hs
      simp only [opStep] at hs ⊢
      rw [hc] at hs
      rw [hst]
      exact i.cohObj sl st hs
    · intro sl st hs
      simp only [opStep] at hs ⊢
      rw [fa.curStamp]
      exact i.cohArg sl st hs

theorem run_inv (fills : FillTable) : ∀ (ops : List (Op H)) {s : St G H W}, Inv s →
    (∀ op ∈ ops, op.api) → Inv (run fills s ops)
  | [], _, i, _ => i
  | op :: ops, _, i, h =>
    run_inv fills ops (opStep_inv fills i op (h op List.mem_cons_self)) (fun o ho => h o (List.mem_cons_of_mem _ ho))

/-- the start of a history satisfies the invariant -/
theorem init_inv (f g : Fields G H W) (hf : f.OK) (hg : g.OK) : Inv (init f g) := by
  obtain ⟨n1, _, c1⟩ := construct_spec (Heap.empty : Heap H W) f hf
  obtain ⟨n2, _, c2⟩ := construct_spec (construct (Heap.empty : Heap H W) f).1 g hg
  have fr := n2.ext.frame n1.wf
  refine ⟨fr.wf n2.ext.next n1.wf, n2.wf, n2.sep n1.wf, ?_, ?_⟩
  · intro s st hs
    simp only [init] at hs
    rw [c1] at hs
    simp [noCache] at hs
  · intro s st hs
    simp only [init] at hs
    rw [c2] at hs
    simp [noCache] at hs

/-! ## coherence with a freshly constructed shape -/

theorem fields_ok {h : Heap H W} {o : Obj G H W} (w : WF h o) : (fields h o).OK := by
  intro hne
  apply w.seqKind
  intro hs
  apply hne
  simp [fields, seqOf, hs]

/-- a coherent object observes exactly like a newly constructed one with the same fields -/
theorem obs_coherent_of {h : Heap H W} {o : Obj G H W} (w : WF h o) (c : Coherent h o) :
    observe h o = observe (fresh (fields h o)).1 (fresh (fields h o)).2 := by
  obtain ⟨_, hf, hc⟩ := construct_spec (Heap.empty : Heap H W) (fields h o) (fields_ok w)
  have hfresh : fields (fresh (fields h o)).1 (fresh (fields h o)).2 = fields h o := hf
  have hcur : curStamp (fresh (fields h o)).1 (fresh (fields h o)).2 = curStamp h o := by
    have h1 : holesOf (fresh (fields h o)).1 (fresh (fields h o)).2 = holesOf h o := congrArg Fields.holes hfresh
    have h2 : seqOf (fresh (fields h o)).1 (fresh (fields h o)).2 = seqOf h o := congrArg Fields.seq hfresh
    simp [curStamp, h1, h2]
  have hd : derived (fresh (fields h o)).1 (fresh (fields h o)).2 = derived h o := by
    funext s
    have : (fresh (fields h o)).2.cache s = none := by
      have := congrFun hc s; simpa [fresh, noCache] using this
    rw [c.derived s]
    simp only [derived, this, Option.getD_none]
    exact hcur
  have hdt : dtOf (fresh (fields h o)).2 = dtOf o := congrArg Fields.dt hfresh
  simp only [observe, hfresh, hd, hdt]

/-- **after any history of reads and API updates (either `inplace` mode) every observation of the
    live shape — memoised ones and `volume` included — equals that of a freshly constructed shape with
    the same geometry, time and properties**, and the argument shape observes as it did at the start -/
theorem obs_coherent (fills : FillTable) (f g : Fields G H W) (hf : f.OK) (hg : g.OK)
    (ops : List (Op H)) (hops : ∀ op ∈ ops, op.api) :
    observe (run fills (init f g) ops).heap (run fills (init f g) ops).obj =
      observe (fresh (fields (run fills (init f g) ops).heap (run fills (init f g) ops).obj)).1
              (fresh (fields (run fills (init f g) ops).heap (run fills (init f g) ops).obj)).2 := by
  have i := run_inv fills ops (init_inv f g hf hg) hops
  exact obs_coherent_of i.wfObj i.cohObj

/-- the argument of predicates is never changed by a history on the receiver -/
theorem arg_untouched (fills : FillTable) : ∀ (ops : List (Op H)) {s : St G H W}, Inv s →
    (∀ op ∈ ops, op.api) → observe (run fills s ops).heap (run fills s ops).arg = observe s.heap s.arg
  | [], _, _, _ => rfl
  | op :: ops, s, i, h => by
    have i' := opStep_inv fills i op (h op List.mem_cons_self)
    have ih := arg_untouched fills ops i' (fun o ho => h o (List.mem_cons_of_mem _ ho))
    simp only [run]
    rw [ih]
    cases op with
    | read r => rfl
    | read2 r => exact fill_observe i.cohArg _
    | update m ip =>
      obtain ⟨fa, _, _, _⟩ := step_frame m ip i.wfArg i.wfObj i.sep.symm
      exact fa.observe

/-- **the same question gets the same answer**: whatever an answer is as a function of the
    observation, any number of reads in between does not change it -/
theorem repeat_same_answer {α : Type} (fills : FillTable) (ans : Obs G H W → α)
    (rs : List Read) {s : St G H W} (i : Inv s) :
    ans (observe (run fills s (rs.map Op.read)).heap (run fills s (rs.map Op.read)).obj) =
      ans (observe s.heap s.obj) := by
  induction rs generalizing s with
  | nil => rfl
  | cons r rs ih =>
    simp only [List.map_cons, run]
    rw [ih (opStep_inv fills i (.read r) trivial), (reads_pure_obs fills i r).1]

/-! ## the mutators refine their value-level meaning; `inplace=False` -/

theorem fields_of_eq {h h' : Heap H W} {b b' : Obj G H W} (hd : h'.dicts = h.dicts) (hl : h'.lists = h.lists)
    (hh : h'.holes = h.holes) (hs : h'.seqs = h.seqs) (hp : b'.props = b.props) (hho : b'.holes = b.holes)
    (hsq : b'.seq = b.seq) (hk : b'.kind = b.kind) (hg : b'.geom = b.geom) :
    fields h' b' = { fields h b with dt := dtOf b' } := by
  have h1 : propsOf h' b' = propsOf h b := by
    simp only [propsOf, hp, hd]
    exact resolveAll_congr _ (fun _ l _ => by rw [hl])
  simp only [fields, h1, holesOf, seqOf, hho, hsq, hh, hs, hk, hg]

/-- an API mutator applied in place does to the fields exactly what `Fields.apply` says -/
theorem applyMut_refines {h : Heap H W} {b : Obj G H W} {m : Mut H} (hapi : m.isApi = true) (wb : WF h b) :
    (match applyMut h b m with
     | .ok r => (fields h b).apply m = .ok (fields r.1 r.2)
     | .error e => (fields h b).apply m = .error e) := by
  cases m with
  | setDt v =>
    cases v with
    | none =>
      simp only [applyMut, Fields.apply]
      rw [fields_of_eq (b' := { b with dt := none }) (h' := h) rfl rfl rfl rfl rfl rfl rfl rfl rfl]; rfl
    | some t =>
      simp only [applyMut, Fields.apply]
      rw [fields_of_eq (b' := { b with dt := some (h.next, t) }) (h' := h.bump) rfl rfl rfl rfl rfl rfl rfl rfl rfl]
      rfl
  | bufferDt d =>
    simp only [applyMut, Fields.apply]
    cases hdt : b.dt with
    | none => simp [fields, dtOf, hdt]
    | some p =>
      obtain ⟨l, t⟩ := p
      have hdt' : (fields h b).dt = some t := by simp [fields, dtOf, hdt]
      simp only [hdt', TI.mk?]
      by_cases hlt : t.stop + d < t.start - d
      · simp [hlt]
      · simp only [hlt, if_false]
        rw [fields_of_eq (b' := { b with dt := some (h.next, ⟨t.start - d, t.stop + d⟩) }) (h' := h.bump)
          rfl rfl rfl rfl rfl rfl rfl rfl rfl]
        rfl
  | stripDt =>
    simp only [applyMut, Fields.apply]
    rw [fields_of_eq (b' := { b with dt := none }) (h' := h) rfl rfl rfl rfl rfl rfl rfl rfl rfl]; rfl
  | setProp k v =>
    cases v with
    | atom n =>
      simp only [applyMut, Fields.apply, fields, PArg.rval, Except.ok.injEq]
      simp only [propsOf, upd_same, holesOf, seqOf, dtOf]
      rw [resolveAll_dictSet]
      simp only [resolve]
      congr 2
    | list xs =>
      simp only [applyMut, Fields.apply, fields, PArg.rval, Except.ok.injEq]
      simp only [propsOf, upd_same, holesOf, seqOf, dtOf]
      rw [resolveAll_dictSet]
      have e := ext_allocList h xs
      have hr : resolveAll (h.allocList xs).1 (h.dicts b.props) = resolveAll h (h.dicts b.props) :=
        resolveAll_congr _ (fun k l hk => e.lists l (wb.lists l ⟨k, hk⟩))
      have hnew : resolve (H := H) (W := W) { (h.allocList xs).1 with dicts := (upd (h.allocList xs).1.dicts b.props
          (dictSet ((h.allocList xs).1.dicts b.props) k (.ref (h.allocList xs).2))) } (.ref (h.allocList xs).2) = .list xs := by
        simp [resolve, Heap.allocList]
      rw [hnew]
      congr 2
      exact (resolveAll_congr (h := (h.allocList xs).1) _ (fun _ _ _ => rfl)).trans hr |>.symm
  | holesPop => simp [Mut.isApi] at hapi
  | holesPush x => simp [Mut.isApi] at hapi
  | dictDel k => simp [Mut.isApi] at hapi
  | nestedPush k n => simp [Mut.isApi] at hapi

/-- **`inplace=False` leaves the original untouched** (the receiver record is the same and it observes
    the same in the new heap) … -/
theorem not_inplace_untouched {h : Heap H W} {o : Obj G H W} (m : Mut H) (hapi : m.isApi = true) (w : WF h o) :
    (step h o m false).self = o ∧ observe (step h o m false).heap o = observe h o := by
  have hs : (step h o m false).self = o := by
    simp only [step, hapi, Bool.not_true, Bool.or_self, Bool.false_eq_true, if_false]
    split <;> rfl
  refine ⟨hs, ?_⟩
  -- observe through a clone of `o` used as the (separated) observer of itself
  simp only [step, hapi, Bool.not_true, Bool.or_self, Bool.false_eq_true, if_false]
  have cs := copy_spec h o w
  have w1 : WF (copy h o).1 o := (cs.ext.frame w).wf cs.ext.next w
  cases hm : applyMut (copy h o).1 (copy h o).2 m with
  | error e => rfl
  | ok r =>
    obtain ⟨h', c'⟩ := r
    obtain ⟨fb, _, _, _⟩ := applyMut_frame w1 cs.wf (cs.new.sep w) hm
    exact ((cs.ext.frame w).trans fb).observe

/-- … and returns a shape with exactly the fields the in-place call would have produced -/
theorem not_inplace_returns {h : Heap H W} {o : Obj G H W} (m : Mut H) (hapi : m.isApi = true) (w : WF h o) :
    (match (step h o m false).returned with
     | some c => (fields h o).apply m = .ok (fields (step h o m false).heap c)
     | none => ∃ e, (fields h o).apply m = .error e) := by
  simp only [step, hapi, Bool.not_true, Bool.or_self, Bool.false_eq_true, if_false]
  have cs := copy_spec h o w
  have hf : fields (copy h o).1 (copy h o).2 = fields h o := by
    simp only [fields, cs.kind, cs.geom, cs.dtV, cs.props, cs.holesV, cs.seqV]
  have hr := applyMut_refines (m := m) hapi cs.wf
  cases hm : applyMut (copy h o).1 (copy h o).2 m with
  | error e => simp only [hm, hf] at hr; exact ⟨e, hr⟩
  | ok r => simp only [hm, hf] at hr; exact hr

/-- in place: same meaning, on the receiver itself -/
theorem inplace_refines {h : Heap H W} {o : Obj G H W} (m : Mut H) (hapi : m.isApi = true) (w : WF h o) :
    (match (fields h o).apply m with
     | .ok f' => fields (step h o m true).heap (step h o m true).self = f'
     | .error _ => fields (step h o m true).heap (step h o m true).self = fields h o) := by
  have hr := applyMut_refines (m := m) hapi w
  simp only [step, Bool.true_or, if_true]
  cases hm : applyMut h o m with
  | error e => simp only [hm] at hr; simp [hr]
  | ok r => simp only [hm] at hr; simp [hr]

/-! ## non-vacuity -/

private def fA : Fields Nat Nat Nat := ⟨.ring, 3, some ⟨0, 10⟩, [("k", .atom 1)], some [5, 6], none⟩
private def fB : Fields Nat Nat Nat := ⟨.polygon, 4, none, [], some [], some [1, 2, 3, 1]⟩
private def allFill : FillTable := fun _ _ _ => [(.bounds, []), (.centroid, []), (.area, [.shapely])]

example : Inv (init fA fB) := init_inv fA fB (by simp [Fields.OK, fA]) (by simp [Fields.OK, fB, Kind.seqMode])
/-- a history that really changes `dt` and the properties, with memoising reads in between -/
example : (fields (run allFill (init fA fB)
      [.read .area, .update (.bufferDt 5) true, .read2 .contains, .update (.setProp "k" (.list [2])) true,
       .update .stripDt false]).heap
    (run allFill (init fA fB)
      [.read .area, .update (.bufferDt 5) true, .read2 .contains, .update (.setProp "k" (.list [2])) true,
       .update .stripDt false]).obj).dt = some ⟨-5, 15⟩ := by decide

end GV.OS
