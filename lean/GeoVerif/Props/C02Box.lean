import GeoVerif.Props.C01
import GeoVerif.Props.C02
import GeoVerif.Lemmas.RelateBox

/-!
# C02 on the family of axis-parallel rectangles: the closed-set truth, proved outright

`Props/C02.lean` proves what the code computes (`intersects_iff_spec`, `contains_iff_spec`: proper edge
crossings + first-vertex membership); the step from there to the *set-theoretic* truth is the Jordan
argument and is assumed in general (DESIGN §4).  Here that step is **proved** for every pair of
axis-parallel rectangles `A = [a0,a1]×[b0,b1]`, `B = [c0,c1]×[d0,d1]` (`a0 < a1`, …), in both forms the
library has for such a shape:

* `rect true …`  — a hole-free `GeoBox` (`Shape.box nw se []`, membership = closed corner comparison),
* `rect false …` — the hole-free `GeoPolygon` with the same outline `GeoBox.bounding_coords()`
  (membership = the ray-casting ring test, strict: C01),

and for all four combinations of the two forms.

Results (all relative positions: corner touch, shared edge / part of an edge, strictly nested, identical,
plus-sign crossing, disjoint):

* `box_anyCross_iff` / `box_anyCross_iff_meet`: some edge pair properly crosses ⇔ a horizontal side of one
  meets a vertical side of the other ⇔ the closed rectangles meet and neither lies strictly inside the other.
  Parallel sides never count (`RelBox.properCross_hh/_vv`: collinear overlap is not a proper crossing).
* `box_intersects_iff`: `intersectsShape A B` ⇔ `max a0 c0 ≤ min a1 c1 ∧ max b0 d0 ≤ min b1 d1`
  ⇔ (`box_intersects_iff_exists`) some point lies in both closed rectangles.
* `box_contains_iff`: `containsShape A B` ⇔ `a0 < c0 ∧ c1 < a1 ∧ b0 < d0 ∧ d1 < b1`
  ⇔ (`box_contains_iff_forall`) every point of the closed `B` lies in the *open* `A`: containment is strict
  (DESIGN §6.0 I1) — a `B` that touches `A`'s boundary from inside is **not** contained, in either form,
  although `GeoBox.contains_coordinate` itself is closed: the touching side of `B` ends on (or its
  perpendicular neighbour runs into) a side of `A`, which is a proper crossing.
* `box_point_iff`: a point intersects a rectangle (both argument orders, both forms) iff it lies in the
  closed rectangle; `containsShape A P` is closed for the box form and open for the polygon form (C01).
* `box_relate_eq`: neither relation raises on the family, so both *values* are determined.
* `box_decided_by`: *which* disjunct of the code answers — nested: no crossing, the first vertex decides;
  otherwise a perpendicular edge pair.
-/
namespace GV.C02Box
open GV GV.C02 GV.RelBox

/-- `[a0,a1]×[b0,b1]` as a `GeoBox` (`asBox = true`, `nw = (a0,b1)`, `se = (a1,b0)`) or as the
    `GeoPolygon` over the box's `bounding_coords()` (`asBox = false`) -/
def rect (asBox : Bool) (a0 a1 b0 b1 : Rat) : Shape :=
  if asBox then .box (a0, b1) (a1, b0) [] else .poly (boxRing (a0, b1) (a1, b0)) []

/-- the closed rectangle as a point set -/
def inClosed (a0 a1 b0 b1 : Rat) (p : Pt) : Prop := a0 ≤ p.1 ∧ p.1 ≤ a1 ∧ b0 ≤ p.2 ∧ p.2 ≤ b1
/-- the open rectangle as a point set -/
def inOpen (a0 a1 b0 b1 : Rat) (p : Pt) : Prop := a0 < p.1 ∧ p.1 < a1 ∧ b0 < p.2 ∧ p.2 < b1

/-! ### the shape's parts -/

theorem rect_flatEdges (k : Bool) (a0 a1 b0 b1 : Rat) :
    (rect k a0 a1 b0 b1).flatEdges = rectEdges a0 a1 b0 b1 := by
  cases k <;> rfl

theorem rect_firstVertex (k : Bool) (a0 a1 b0 b1 : Rat) :
    (rect k a0 a1 b0 b1).firstVertex = .ok (a0, b1) := by
  cases k <;> rfl

theorem rect_not_point (k : Bool) (a0 a1 b0 b1 : Rat) : ∀ p, rect k a0 a1 b0 b1 ≠ .point p := by
  intro p; cases k <;> simp [rect]

theorem rect_polygonLike (k : Bool) (a0 a1 b0 b1 : Rat) : (rect k a0 a1 b0 b1).isPolygonLike = true := by
  cases k <;> rfl

theorem rect_holes (k : Bool) (a0 a1 b0 b1 : Rat) : (rect k a0 a1 b0 b1).holes = [] := by
  cases k <;> rfl

/-- `GeoBox.contains_coordinate`: the closed rectangle -/
theorem box_coord_iff (a0 a1 b0 b1 : Rat) (p : Pt) :
    (rect true a0 a1 b0 b1).containsCoord p = true ↔ inClosed a0 a1 b0 b1 p := by
  have h := C01.boxContains_iff (a0, b1) (a1, b0) [] p
  simp only [List.map_nil, List.not_mem_nil, false_implies, implies_true, and_true] at h
  exact h

/-- `GeoPolygon.contains_coordinate` of the same outline: the open rectangle (C01's `rect_pip_iff`) -/
theorem polyrect_coord_iff (a0 a1 b0 b1 : Rat) (ha : a0 < a1) (hb : b0 < b1) (p : Pt) :
    (rect false a0 a1 b0 b1).containsCoord p = true ↔ inOpen a0 a1 b0 b1 p := by
  have h := C01.polyContains_iff (a0, b1) [(a0, b0), (a1, b0), (a1, b1)] [] p
  simp only [List.map_nil, List.not_mem_nil, false_implies, implies_true, and_true] at h
  have e : (rect false a0 a1 b0 b1).containsCoord p =
      polyContains (closeUp [(a0, b1), (a0, b0), (a1, b0), (a1, b1)]) [] p := rfl
  rw [e, h, C01.rect_pip_iff a0 b0 a1 b1 ha hb p]; rfl

/-- membership of a coordinate, for either form -/
def inRect (k : Bool) (a0 a1 b0 b1 : Rat) (p : Pt) : Prop :=
  if k then inClosed a0 a1 b0 b1 p else inOpen a0 a1 b0 b1 p

theorem rect_coord_iff (k : Bool) (a0 a1 b0 b1 : Rat) (ha : a0 < a1) (hb : b0 < b1) (p : Pt) :
    (rect k a0 a1 b0 b1).containsCoord p = true ↔ inRect k a0 a1 b0 b1 p := by
  cases k
  · exact polyrect_coord_iff a0 a1 b0 b1 ha hb p
  · exact box_coord_iff a0 a1 b0 b1 p

/-! ### edge crossings -/

section
variable (k1 k2 : Bool) (a0 a1 b0 b1 c0 c1 d0 d1 : Rat)
  (ha : a0 < a1) (hb : b0 < b1) (hc : c0 < c1) (hd : d0 < d1)
include ha hb hc hd

/-- some edge of `A` properly crosses some edge of `B` ⇔ a horizontal side of one meets a vertical side of
    the other (the 8 parallel pairs contribute nothing) -/
theorem box_anyCross_iff :
    anyCross (rect k1 a0 a1 b0 b1).flatEdges (rect k2 c0 c1 d0 d1).flatEdges ↔
      perpCross a0 a1 b0 b1 c0 c1 d0 d1 := by
  rw [rect_flatEdges, rect_flatEdges]
  exact crossEdges_iff a0 a1 b0 b1 c0 c1 d0 d1 ha hb hc hd

/-- … ⇔ the closed rectangles meet and neither lies strictly inside the other -/
theorem box_anyCross_iff_meet :
    anyCross (rect k1 a0 a1 b0 b1).flatEdges (rect k2 c0 c1 d0 d1).flatEdges ↔
      meet a0 a1 b0 b1 c0 c1 d0 d1 ∧ ¬ nested a0 a1 b0 b1 c0 c1 d0 d1 ∧
        ¬ nested c0 c1 d0 d1 a0 a1 b0 b1 := by
  rw [box_anyCross_iff k1 k2 a0 a1 b0 b1 c0 c1 d0 d1 ha hb hc hd,
    perpCross_iff a0 a1 b0 b1 c0 c1 d0 d1 ha hb hc hd]

/-- the sweep itself, on the two 4-edge lists -/
theorem box_sweep_iff :
    doEdgesIntersect (rect k1 a0 a1 b0 b1).flatEdges (rect k2 c0 c1 d0 d1).flatEdges = true ↔
      meet a0 a1 b0 b1 c0 c1 d0 d1 ∧ ¬ nested a0 a1 b0 b1 c0 c1 d0 d1 ∧
        ¬ nested c0 c1 d0 d1 a0 a1 b0 b1 := by
  rw [sweep_eq_anyCross]
  exact box_anyCross_iff_meet k1 k2 a0 a1 b0 b1 c0 c1 d0 d1 ha hb hc hd

/-! ### intersection -/

/-- the code's three disjuncts, in interval terms -/
theorem box_intersects_spec :
    intersectsShape (rect k1 a0 a1 b0 b1) (rect k2 c0 c1 d0 d1) = .ok true ↔
      (meet a0 a1 b0 b1 c0 c1 d0 d1 ∧ ¬ nested a0 a1 b0 b1 c0 c1 d0 d1 ∧
          ¬ nested c0 c1 d0 d1 a0 a1 b0 b1) ∨
        inRect k1 a0 a1 b0 b1 (c0, d1) ∨ inRect k2 c0 c1 d0 d1 (a0, b1) := by
  rw [intersects_iff_spec (rect_firstVertex k1 a0 a1 b0 b1) (rect_firstVertex k2 c0 c1 d0 d1)
      (rect_not_point k1 a0 a1 b0 b1) (rect_not_point k2 c0 c1 d0 d1),
    box_anyCross_iff_meet k1 k2 a0 a1 b0 b1 c0 c1 d0 d1 ha hb hc hd,
    rect_coord_iff k1 a0 a1 b0 b1 ha hb, rect_coord_iff k2 c0 c1 d0 d1 hc hd]

/-- **1. `intersects_shape` of two rectangles is the closed-set truth**: the closed rectangles share a
    point, for every relative position and for both forms of either argument -/
theorem box_intersects_iff :
    intersectsShape (rect k1 a0 a1 b0 b1) (rect k2 c0 c1 d0 d1) = .ok true ↔
      max a0 c0 ≤ min a1 c1 ∧ max b0 d0 ≤ min b1 d1 := by
  rw [box_intersects_spec k1 k2 a0 a1 b0 b1 c0 c1 d0 d1 ha hb hc hd,
    ← meet_iff_max_min a0 a1 b0 b1 c0 c1 d0 d1 ha hb hc hd]
  unfold meet nested inRect inClosed inOpen
  cases k1 <;> cases k2 <;> simp only [Bool.false_eq_true, if_false, if_true] <;> grind

/-- the same as a statement about point sets: some point lies in both closed rectangles -/
theorem box_intersects_iff_exists :
    intersectsShape (rect k1 a0 a1 b0 b1) (rect k2 c0 c1 d0 d1) = .ok true ↔
      ∃ p : Pt, inClosed a0 a1 b0 b1 p ∧ inClosed c0 c1 d0 d1 p := by
  rw [box_intersects_iff k1 k2 a0 a1 b0 b1 c0 c1 d0 d1 ha hb hc hd,
    ← meet_iff_max_min a0 a1 b0 b1 c0 c1 d0 d1 ha hb hc hd]
  unfold meet inClosed
  constructor
  · rintro ⟨h1, h2, h3, h4⟩
    exact ⟨(max a0 c0, max b0 d0),
      ⟨le_max_left _ _, max_le ha.le h2, le_max_left _ _, max_le hb.le h4⟩,
      ⟨le_max_right _ _, max_le h1 hc.le, le_max_right _ _, max_le h3 hd.le⟩⟩
  · rintro ⟨⟨x, y⟩, ⟨p1, p2, p3, p4⟩, q1, q2, q3, q4⟩
    simp only at p1 p2 p3 p4 q1 q2 q3 q4
    exact ⟨by linarith, by linarith, by linarith, by linarith⟩

/-! ### containment -/

/-- **2. `contains_shape` of two rectangles is strict containment**: `B` lies in the open rectangle `A`.
    Identical rectangles and a `B` touching `A`'s boundary from inside are *not* contained (their sides
    properly cross a perpendicular side of `A`), for both forms of either argument. -/
theorem box_contains_iff :
    containsShape (rect k1 a0 a1 b0 b1) (rect k2 c0 c1 d0 d1) = .ok true ↔
      a0 < c0 ∧ c1 < a1 ∧ b0 < d0 ∧ d1 < b1 := by
  rw [contains_iff_spec (rect_polygonLike k1 a0 a1 b0 b1) (rect_firstVertex k2 c0 c1 d0 d1)
      (rect_not_point k2 c0 c1 d0 d1),
    box_anyCross_iff_meet k1 k2 a0 a1 b0 b1 c0 c1 d0 d1 ha hb hc hd,
    rect_coord_iff k1 a0 a1 b0 b1 ha hb, rect_holes]
  simp only [List.not_mem_nil, false_and, exists_false, and_false, not_false_eq_true, true_and]
  unfold meet nested inRect inClosed inOpen
  cases k1 <;> simp only [Bool.false_eq_true, if_false, if_true] <;> grind

/-- the same as a statement about point sets: every point of the closed `B` is in the open `A` -/
theorem box_contains_iff_forall :
    containsShape (rect k1 a0 a1 b0 b1) (rect k2 c0 c1 d0 d1) = .ok true ↔
      ∀ p : Pt, inClosed c0 c1 d0 d1 p → inOpen a0 a1 b0 b1 p := by
  rw [box_contains_iff k1 k2 a0 a1 b0 b1 c0 c1 d0 d1 ha hb hc hd]
  unfold inClosed inOpen
  constructor
  · rintro ⟨h1, h2, h3, h4⟩ ⟨x, y⟩ ⟨q1, q2, q3, q4⟩
    simp only at q1 q2 q3 q4 ⊢
    exact ⟨by linarith, by linarith, by linarith, by linarith⟩
  · intro h
    have e1 := h (c0, d0) ⟨le_refl _, hc.le, le_refl _, hd.le⟩
    have e2 := h (c1, d1) ⟨hc.le, le_refl _, hd.le, le_refl _⟩
    simp only at e1 e2
    exact ⟨e1.1, e2.2.1, e1.2.2.1, e2.2.2.2⟩

/-! ### which disjunct of the code decides -/

/-- * `B` strictly inside `A` (or `A` strictly inside `B`): **no** edge pair crosses; the answer comes from
      the first vertex of the inner rectangle, which is a member of the outer one (in either form);
    * in every other position where the closed rectangles meet (corner touch, shared edge or part of one,
      identical, plus sign, partial overlap) a horizontal side of one meets a vertical side of the other:
      the sweep answers, never a pair of parallel (collinear) sides. -/
theorem box_decided_by :
    (nested a0 a1 b0 b1 c0 c1 d0 d1 →
      ¬ anyCross (rect k1 a0 a1 b0 b1).flatEdges (rect k2 c0 c1 d0 d1).flatEdges ∧
        (rect k1 a0 a1 b0 b1).containsCoord (c0, d1) = true) ∧
    (nested c0 c1 d0 d1 a0 a1 b0 b1 →
      ¬ anyCross (rect k1 a0 a1 b0 b1).flatEdges (rect k2 c0 c1 d0 d1).flatEdges ∧
        (rect k1 a0 a1 b0 b1).containsCoord (c0, d1) = false ∧
        (rect k2 c0 c1 d0 d1).containsCoord (a0, b1) = true) ∧
    (meet a0 a1 b0 b1 c0 c1 d0 d1 → ¬ nested a0 a1 b0 b1 c0 c1 d0 d1 →
      ¬ nested c0 c1 d0 d1 a0 a1 b0 b1 →
      perpCross a0 a1 b0 b1 c0 c1 d0 d1 ∧
        doEdgesIntersect (rect k1 a0 a1 b0 b1).flatEdges (rect k2 c0 c1 d0 d1).flatEdges = true) := by
  have hcross := box_anyCross_iff_meet k1 k2 a0 a1 b0 b1 c0 c1 d0 d1 ha hb hc hd
  refine ⟨fun hn => ⟨fun h => (hcross.mp h).2.1 hn, ?_⟩, fun hn => ⟨fun h => (hcross.mp h).2.2 hn, ?_, ?_⟩,
    fun hm h1 h2 => ⟨(perpCross_iff a0 a1 b0 b1 c0 c1 d0 d1 ha hb hc hd).mpr ⟨hm, h1, h2⟩,
      (sweep_eq_anyCross _ _).mpr (hcross.mpr ⟨hm, h1, h2⟩)⟩⟩
  · rw [rect_coord_iff k1 a0 a1 b0 b1 ha hb]
    obtain ⟨h1, h2, h3, h4⟩ := hn
    cases k1 <;> simp only [inRect, inClosed, inOpen, Bool.false_eq_true, if_false, if_true] <;>
      refine ⟨?_, ?_, ?_, ?_⟩ <;> linarith
  · rw [← Bool.not_eq_true, rect_coord_iff k1 a0 a1 b0 b1 ha hb]
    obtain ⟨h1, h2, h3, h4⟩ := hn
    cases k1 <;> simp only [inRect, inClosed, inOpen, Bool.false_eq_true, if_false, if_true] <;>
      rintro ⟨g1, g2, g3, g4⟩ <;> linarith
  · rw [rect_coord_iff k2 c0 c1 d0 d1 hc hd]
    obtain ⟨h1, h2, h3, h4⟩ := hn
    cases k2 <;> simp only [inRect, inClosed, inOpen, Bool.false_eq_true, if_false, if_true] <;>
      refine ⟨?_, ?_, ?_, ?_⟩ <;> linarith

/-! ### corollaries: now consequences of the set truth -/

/-- **4a. symmetry**, from the characterisation (`max`/`min` are symmetric) -/
theorem box_intersects_symm :
    intersectsShape (rect k1 a0 a1 b0 b1) (rect k2 c0 c1 d0 d1) =
      intersectsShape (rect k2 c0 c1 d0 d1) (rect k1 a0 a1 b0 b1) := by
  obtain ⟨x, hx⟩ := (relate_total (rect k1 a0 a1 b0 b1) (rect k2 c0 c1 d0 d1)
    (by cases k1 <;> exact ⟨_, rfl⟩) (by cases k2 <;> exact ⟨_, rfl⟩)).1
  obtain ⟨y, hy⟩ := (relate_total (rect k2 c0 c1 d0 d1) (rect k1 a0 a1 b0 b1)
    (by cases k2 <;> exact ⟨_, rfl⟩) (by cases k1 <;> exact ⟨_, rfl⟩)).1
  have h1 := box_intersects_iff k1 k2 a0 a1 b0 b1 c0 c1 d0 d1 ha hb hc hd
  have h2 := box_intersects_iff k2 k1 c0 c1 d0 d1 a0 a1 b0 b1 hc hd ha hb
  rw [max_comm c0 a0, min_comm c1 a1, max_comm d0 b0, min_comm d1 b1, ← h1] at h2
  rw [hx, hy] at h2 ⊢
  simp only [Except.ok.injEq] at h2 ⊢
  cases x <;> cases y <;> simp_all

/-- **4b. containment implies intersection**, from the two characterisations -/
theorem box_contains_imp_intersects
    (h : containsShape (rect k1 a0 a1 b0 b1) (rect k2 c0 c1 d0 d1) = .ok true) :
    intersectsShape (rect k1 a0 a1 b0 b1) (rect k2 c0 c1 d0 d1) = .ok true := by
  obtain ⟨h1, h2, h3, h4⟩ := (box_contains_iff k1 k2 a0 a1 b0 b1 c0 c1 d0 d1 ha hb hc hd).mp h
  rw [box_intersects_iff k1 k2 a0 a1 b0 b1 c0 c1 d0 d1 ha hb hc hd]
  simp only [max_le_iff, le_min_iff]
  refine ⟨⟨⟨?_, ?_⟩, ?_, ?_⟩, ⟨?_, ?_⟩, ?_, ?_⟩ <;> linarith

/-- the relations never raise on the family, so the characterisations give the *value* -/
theorem box_relate_eq :
    intersectsShape (rect k1 a0 a1 b0 b1) (rect k2 c0 c1 d0 d1) =
        .ok (decide (max a0 c0 ≤ min a1 c1 ∧ max b0 d0 ≤ min b1 d1)) ∧
      containsShape (rect k1 a0 a1 b0 b1) (rect k2 c0 c1 d0 d1) =
        .ok (decide (a0 < c0 ∧ c1 < a1 ∧ b0 < d0 ∧ d1 < b1)) := by
  obtain ⟨⟨x, hx⟩, ⟨y, hy⟩⟩ := relate_total (rect k1 a0 a1 b0 b1) (rect k2 c0 c1 d0 d1)
    (by cases k1 <;> exact ⟨_, rfl⟩) (by cases k2 <;> exact ⟨_, rfl⟩)
  have h1 := box_intersects_iff k1 k2 a0 a1 b0 b1 c0 c1 d0 d1 ha hb hc hd
  have h2 := box_contains_iff k1 k2 a0 a1 b0 b1 c0 c1 d0 d1 ha hb hc hd
  rw [hx] at h1 ⊢; rw [hy] at h2 ⊢
  simp only [Except.ok.injEq] at h1 h2 ⊢
  constructor
  · cases x <;> simp_all
  · cases y <;> simp_all

/-- containment is antisymmetric-strict on the family: never both ways, never reflexive -/
theorem box_contains_asymm
    (h : containsShape (rect k1 a0 a1 b0 b1) (rect k2 c0 c1 d0 d1) = .ok true) :
    containsShape (rect k2 c0 c1 d0 d1) (rect k1 a0 a1 b0 b1) ≠ .ok true := by
  obtain ⟨h1, h2, h3, h4⟩ := (box_contains_iff k1 k2 a0 a1 b0 b1 c0 c1 d0 d1 ha hb hc hd).mp h
  rw [Ne, box_contains_iff k2 k1 c0 c1 d0 d1 a0 a1 b0 b1 hc hd ha hb]
  rintro ⟨g1, _, _, _⟩; linarith

end

/-! ### a point and a rectangle -/

/-- the exact on-edge test over the four sides: the boundary of the rectangle -/
theorem rect_onEdges_iff (k : Bool) (a0 a1 b0 b1 : Rat) (ha : a0 < a1) (hb : b0 < b1) (p : Pt) :
    (rect k a0 a1 b0 b1).flatEdges.any (onEdge p) = true ↔
      inClosed a0 a1 b0 b1 p ∧ ¬ inOpen a0 a1 b0 b1 p := by
  obtain ⟨x, y⟩ := p
  rw [rect_flatEdges]
  have hu : 0 < b1 - b0 := by linarith
  have hw : 0 < a1 - a0 := by linarith
  have z (c t : Rat) (hc : c ≠ 0) : (c * t = 0 ↔ t = 0) := by
    constructor
    · intro h; rcases mul_eq_zero.mp h with h | h
      · exact absurd h hc
      · exact h
    · rintro rfl; ring
  have e1 : (a0 - a0) * (y - b1) - (b0 - b1) * (x - a0) = (b1 - b0) * (x - a0) := by ring
  have e2 : (a1 - a0) * (y - b0) - (b0 - b0) * (x - a0) = (a1 - a0) * (y - b0) := by ring
  have e3 : (a1 - a1) * (y - b0) - (b1 - b0) * (x - a1) = (b1 - b0) * (a1 - x) := by ring
  have e4 : (a0 - a1) * (y - b1) - (b1 - b1) * (x - a1) = (a1 - a0) * (b1 - y) := by ring
  have m1 := ha.le; have m2 := hb.le; have m3 := not_le.mpr ha; have m4 := not_le.mpr hb
  simp only [rectEdges, List.any_cons, List.any_nil, onEdge, pcross, minR, maxR, e1, e2, e3, e4,
    z _ _ hu.ne', z _ _ hw.ne', inClosed, inOpen, Bool.or_false, Bool.or_eq_true, Bool.and_eq_true,
    decide_eq_true_eq, le_refl, if_true, m1, m2, m3, m4, if_false]
  constructor
  · rintro (h | h | h | h) <;> obtain ⟨⟨⟨⟨g0, g1⟩, g2⟩, g3⟩, g4⟩ := h <;>
      refine ⟨⟨?_, ?_, ?_, ?_⟩, ?_⟩ <;> first | linarith | (rintro ⟨q1, q2, q3, q4⟩; linarith)
  · rintro ⟨⟨h1, h2, h3, h4⟩, hn⟩
    rcases eq_or_lt_of_le h1 with e | e
    · exact Or.inl ⟨⟨⟨⟨by linarith, by linarith⟩, by linarith⟩, h3⟩, h4⟩
    rcases eq_or_lt_of_le h2 with e' | e'
    · exact Or.inr (Or.inr (Or.inl ⟨⟨⟨⟨by linarith, by linarith⟩, by linarith⟩, h3⟩, h4⟩))
    rcases eq_or_lt_of_le h3 with f | f
    · exact Or.inr (Or.inl ⟨⟨⟨⟨by linarith, h1⟩, h2⟩, by linarith⟩, by linarith⟩)
    rcases eq_or_lt_of_le h4 with f' | f'
    · exact Or.inr (Or.inr (Or.inr ⟨⟨⟨⟨by linarith, h1⟩, h2⟩, by linarith⟩, by linarith⟩))
    exact absurd ⟨e, e', f, f'⟩ hn

/-- **3. a point and a rectangle**: intersection (both argument orders, both forms) is membership in the
    *closed* rectangle; `contains_shape(A, P)` is closed for a `GeoBox` and strict for the polygon form (C01);
    a point never contains a rectangle. -/
theorem box_point_iff (k : Bool) (a0 a1 b0 b1 : Rat) (ha : a0 < a1) (hb : b0 < b1) (p : Pt) :
    (intersectsShape (rect k a0 a1 b0 b1) (.point p) = .ok true ↔
        a0 ≤ p.1 ∧ p.1 ≤ a1 ∧ b0 ≤ p.2 ∧ p.2 ≤ b1) ∧
    (intersectsShape (.point p) (rect k a0 a1 b0 b1) = .ok true ↔
        a0 ≤ p.1 ∧ p.1 ≤ a1 ∧ b0 ≤ p.2 ∧ p.2 ≤ b1) ∧
    (containsShape (rect true a0 a1 b0 b1) (.point p) = .ok true ↔
        a0 ≤ p.1 ∧ p.1 ≤ a1 ∧ b0 ≤ p.2 ∧ p.2 ≤ b1) ∧
    (containsShape (rect false a0 a1 b0 b1) (.point p) = .ok true ↔
        a0 < p.1 ∧ p.1 < a1 ∧ b0 < p.2 ∧ p.2 < b1) ∧
    containsShape (.point p) (rect k a0 a1 b0 b1) = .ok false := by
  obtain ⟨i1, i2⟩ := intersects_point_iff (rect k a0 a1 b0 b1) p (rect_not_point k a0 a1 b0 b1)
  have key : ((rect k a0 a1 b0 b1).containsCoord p ||
      (rect k a0 a1 b0 b1).flatEdges.any (onEdge p)) = true ↔ inClosed a0 a1 b0 b1 p := by
    rw [Bool.or_eq_true, rect_coord_iff k a0 a1 b0 b1 ha hb, rect_onEdges_iff k a0 a1 b0 b1 ha hb]
    have ho : inOpen a0 a1 b0 b1 p → inClosed a0 a1 b0 b1 p := by
      rintro ⟨h1, h2, h3, h4⟩; exact ⟨h1.le, h2.le, h3.le, h4.le⟩
    cases k <;> simp only [inRect, Bool.false_eq_true, if_false, if_true] <;> by_cases h : inOpen a0 a1 b0 b1 p <;>
      by_cases h' : inClosed a0 a1 b0 b1 p <;> simp_all
  refine ⟨?_, ?_, ?_, ?_, ?_⟩
  · rw [i1, Except.ok.injEq]; exact key
  · rw [i2, Except.ok.injEq]; exact key
  · have e : containsShape (rect true a0 a1 b0 b1) (.point p) =
        .ok ((rect true a0 a1 b0 b1).containsCoord p) := rfl
    rw [e, Except.ok.injEq]; exact box_coord_iff a0 a1 b0 b1 p
  · have e : containsShape (rect false a0 a1 b0 b1) (.point p) =
        .ok ((rect false a0 a1 b0 b1).containsCoord p) := rfl
    rw [e, Except.ok.injEq]; exact polyrect_coord_iff a0 a1 b0 b1 ha hb p
  · cases k <;> rfl

/-! ### non-vacuity on concrete rationals

(the relations themselves cannot be evaluated by `decide`: the sweep sorts with `List.mergeSort`; they are
reached through the theorems, whose right-hand sides are decided by the kernel) -/

/-- the polygon form is a normalised `GeoPolygon` outline (closed, counter-clockwise) -/
example : mkOutline (boxRing (0, 1) (2, 0)) = boxRing (0, 1) (2, 0) := by decide +kernel

-- corner touch: only the corner is shared; not contained
example : intersectsShape (rect true 0 1 0 1) (rect true 1 2 1 2) = .ok true ∧
    intersectsShape (rect false 0 1 0 1) (rect true 1 2 1 2) = .ok true ∧
    containsShape (rect true 0 1 0 1) (rect true 1 2 1 2) ≠ .ok true :=
  ⟨(box_intersects_iff true true 0 1 0 1 1 2 1 2 (by decide +kernel) (by decide +kernel) (by decide +kernel)
      (by decide +kernel)).mpr (by decide +kernel),
   (box_intersects_iff false true 0 1 0 1 1 2 1 2 (by decide +kernel) (by decide +kernel) (by decide +kernel)
      (by decide +kernel)).mpr (by decide +kernel),
   fun h => absurd ((box_contains_iff true true 0 1 0 1 1 2 1 2 (by decide +kernel) (by decide +kernel)
      (by decide +kernel) (by decide +kernel)).mp h) (by decide +kernel)⟩

-- shared edge, and part of an edge (collinear overlap of the two vertical sides `x = 1`): decided by a
-- horizontal side of `B` ending on the vertical side of `A`
example : intersectsShape (rect true 0 1 0 1) (rect true 1 2 0 1) = .ok true ∧
    intersectsShape (rect false 0 1 0 1) (rect false 1 2 (1/4) (3/4)) = .ok true ∧
    perpCross 0 1 0 1 1 2 (1/4) (3/4) ∧
    anyCross (rect false 0 1 0 1).flatEdges (rect false 1 2 (1/4) (3/4)).flatEdges :=
  ⟨(box_intersects_iff true true 0 1 0 1 1 2 0 1 (by decide +kernel) (by decide +kernel) (by decide +kernel)
      (by decide +kernel)).mpr (by decide +kernel),
   (box_intersects_iff false false 0 1 0 1 1 2 (1/4) (3/4) (by decide +kernel) (by decide +kernel)
      (by decide +kernel) (by decide +kernel)).mpr (by decide +kernel),
   by unfold perpCross; decide +kernel,
   (box_anyCross_iff false false 0 1 0 1 1 2 (1/4) (3/4) (by decide +kernel) (by decide +kernel)
      (by decide +kernel) (by decide +kernel)).mpr (by unfold perpCross; decide +kernel)⟩

-- nested: no edge crossing at all, the vertex decides; contained one way only
example : intersectsShape (rect true 0 4 0 4) (rect false 1 2 1 2) = .ok true ∧
    intersectsShape (rect false 1 2 1 2) (rect true 0 4 0 4) = .ok true ∧
    ¬ anyCross (rect true 0 4 0 4).flatEdges (rect false 1 2 1 2).flatEdges ∧
    containsShape (rect true 0 4 0 4) (rect false 1 2 1 2) = .ok true ∧
    containsShape (rect false 0 4 0 4) (rect true 1 2 1 2) = .ok true ∧
    containsShape (rect false 1 2 1 2) (rect true 0 4 0 4) ≠ .ok true := by
  have h : ∀ k1 k2, containsShape (rect k1 0 4 0 4) (rect k2 1 2 1 2) = .ok true := fun k1 k2 =>
    (box_contains_iff k1 k2 0 4 0 4 1 2 1 2 (by decide +kernel) (by decide +kernel) (by decide +kernel)
      (by decide +kernel)).mpr (by decide +kernel)
  refine ⟨?_, ?_, ?_, h _ _, h _ _, ?_⟩
  · exact (box_intersects_iff true false 0 4 0 4 1 2 1 2 (by decide +kernel) (by decide +kernel)
      (by decide +kernel) (by decide +kernel)).mpr (by decide +kernel)
  · exact (box_intersects_iff false true 1 2 1 2 0 4 0 4 (by decide +kernel) (by decide +kernel)
      (by decide +kernel) (by decide +kernel)).mpr (by decide +kernel)
  · exact ((box_decided_by true false 0 4 0 4 1 2 1 2 (by decide +kernel) (by decide +kernel)
      (by decide +kernel) (by decide +kernel)).1 (by unfold nested; decide +kernel)).1
  · exact box_contains_asymm true false 0 4 0 4 1 2 1 2 (by decide +kernel) (by decide +kernel)
      (by decide +kernel) (by decide +kernel) (h _ _)

-- touching the boundary from inside, and identical rectangles: intersect, NOT contained
example : containsShape (rect true 0 4 0 4) (rect true 0 2 1 3) ≠ .ok true ∧
    containsShape (rect true 0 4 0 4) (rect true 0 4 0 4) ≠ .ok true ∧
    intersectsShape (rect true 0 4 0 4) (rect true 0 4 0 4) = .ok true :=
  ⟨fun h => absurd ((box_contains_iff true true 0 4 0 4 0 2 1 3 (by decide +kernel) (by decide +kernel)
      (by decide +kernel) (by decide +kernel)).mp h) (by decide +kernel),
   fun h => absurd ((box_contains_iff true true 0 4 0 4 0 4 0 4 (by decide +kernel) (by decide +kernel)
      (by decide +kernel) (by decide +kernel)).mp h) (by decide +kernel),
   (box_intersects_iff true true 0 4 0 4 0 4 0 4 (by decide +kernel) (by decide +kernel) (by decide +kernel)
      (by decide +kernel)).mpr (by decide +kernel)⟩

-- plus sign: no vertex of either inside the other, the edges cross
example : intersectsShape (rect true 0 3 1 2) (rect false 1 2 0 3) = .ok true ∧
    (rect true 0 3 1 2).containsCoord (1, 3) = false ∧ (rect false 1 2 0 3).containsCoord (0, 2) = false ∧
    doEdgesIntersect (rect true 0 3 1 2).flatEdges (rect false 1 2 0 3).flatEdges = true := by
  refine ⟨?_, ?_, ?_, ?_⟩
  · exact (box_intersects_iff true false 0 3 1 2 1 2 0 3 (by decide +kernel) (by decide +kernel)
      (by decide +kernel) (by decide +kernel)).mpr (by decide +kernel)
  · rw [← Bool.not_eq_true, box_coord_iff]; unfold inClosed; decide +kernel
  · rw [← Bool.not_eq_true, polyrect_coord_iff _ _ _ _ (by decide +kernel) (by decide +kernel)]
    unfold inOpen; decide +kernel
  · exact ((box_decided_by true false 0 3 1 2 1 2 0 3 (by decide +kernel) (by decide +kernel)
      (by decide +kernel) (by decide +kernel)).2.2 (by unfold meet; decide +kernel)
      (by unfold nested; decide +kernel) (by unfold nested; decide +kernel)).2

-- disjoint (side by side, and diagonal)
example : intersectsShape (rect true 0 1 0 1) (rect true 2 3 0 1) ≠ .ok true ∧
    intersectsShape (rect false 0 1 0 1) (rect true 2 3 2 3) ≠ .ok true ∧
    intersectsShape (rect true 0 1 0 1) (rect true 2 3 0 1) = intersectsShape (rect true 2 3 0 1) (rect true 0 1 0 1) :=
  ⟨fun h => absurd ((box_intersects_iff true true 0 1 0 1 2 3 0 1 (by decide +kernel) (by decide +kernel)
      (by decide +kernel) (by decide +kernel)).mp h) (by decide +kernel),
   fun h => absurd ((box_intersects_iff false true 0 1 0 1 2 3 2 3 (by decide +kernel) (by decide +kernel)
      (by decide +kernel) (by decide +kernel)).mp h) (by decide +kernel),
   box_intersects_symm true true 0 1 0 1 2 3 0 1 (by decide +kernel) (by decide +kernel) (by decide +kernel)
      (by decide +kernel)⟩

-- the point-set forms and the corollaries, on the nested and the disjoint pair
example : (∃ p : Pt, inClosed 0 4 0 4 p ∧ inClosed 1 2 1 2 p) ∧
    (∀ p : Pt, inClosed 1 2 1 2 p → inOpen 0 4 0 4 p) ∧
    ¬ (∃ p : Pt, inClosed 0 1 0 1 p ∧ inClosed 2 3 0 1 p) ∧
    ¬ (∀ p : Pt, inClosed 0 2 1 3 p → inOpen 0 4 0 4 p) ∧
    containsShape (rect true 0 4 0 4) (rect true 1 2 1 2) = .ok true ∧
    containsShape (rect true 0 4 0 4) (rect true 0 2 1 3) = .ok false ∧
    intersectsShape (rect true 0 1 0 1) (rect false 2 3 0 1) = .ok false := by
  have hc : containsShape (rect true 0 4 0 4) (rect true 1 2 1 2) = .ok true :=
    (box_contains_iff true true 0 4 0 4 1 2 1 2 (by decide +kernel) (by decide +kernel) (by decide +kernel)
      (by decide +kernel)).mpr (by decide +kernel)
  refine ⟨?_, ?_, ?_, ?_, hc, ?_, ?_⟩
  · exact (box_intersects_iff_exists true true 0 4 0 4 1 2 1 2 (by decide +kernel) (by decide +kernel)
      (by decide +kernel) (by decide +kernel)).mp (box_contains_imp_intersects true true 0 4 0 4 1 2 1 2
        (by decide +kernel) (by decide +kernel) (by decide +kernel) (by decide +kernel) hc)
  · exact (box_contains_iff_forall true true 0 4 0 4 1 2 1 2 (by decide +kernel) (by decide +kernel)
      (by decide +kernel) (by decide +kernel)).mp hc
  · rw [← box_intersects_iff_exists true true 0 1 0 1 2 3 0 1 (by decide +kernel) (by decide +kernel)
      (by decide +kernel) (by decide +kernel), box_intersects_iff true true 0 1 0 1 2 3 0 1 (by decide +kernel)
      (by decide +kernel) (by decide +kernel) (by decide +kernel)]
    decide +kernel
  · rw [← box_contains_iff_forall true true 0 4 0 4 0 2 1 3 (by decide +kernel) (by decide +kernel)
      (by decide +kernel) (by decide +kernel), box_contains_iff true true 0 4 0 4 0 2 1 3 (by decide +kernel)
      (by decide +kernel) (by decide +kernel) (by decide +kernel)]
    decide +kernel
  · rw [(box_relate_eq true true 0 4 0 4 0 2 1 3 (by decide +kernel) (by decide +kernel) (by decide +kernel)
      (by decide +kernel)).2]
    decide +kernel
  · rw [(box_relate_eq true false 0 1 0 1 2 3 0 1 (by decide +kernel) (by decide +kernel) (by decide +kernel)
      (by decide +kernel)).1]
    decide +kernel

-- points: on a side, at a corner, inside, outside
example : intersectsShape (rect false 0 1 0 1) (.point (0, 1/2)) = .ok true ∧
    intersectsShape (.point (1, 1)) (rect true 0 1 0 1) = .ok true ∧
    containsShape (rect true 0 1 0 1) (.point (0, 1/2)) = .ok true ∧
    containsShape (rect false 0 1 0 1) (.point (0, 1/2)) ≠ .ok true ∧
    containsShape (rect false 0 1 0 1) (.point (1/2, 1/2)) = .ok true ∧
    intersectsShape (rect true 0 1 0 1) (.point (2, 2)) ≠ .ok true := by
  have hb := fun k p => box_point_iff k 0 1 0 1 (by decide +kernel) (by decide +kernel) p
  refine ⟨(hb false _).1.mpr (by decide +kernel), (hb true _).2.1.mpr (by decide +kernel),
    (hb true _).2.2.1.mpr (by decide +kernel), fun h => absurd ((hb true _).2.2.2.1.mp h) (by decide +kernel),
    (hb true _).2.2.2.1.mpr (by decide +kernel), fun h => absurd ((hb true _).1.mp h) (by decide +kernel)⟩

end GV.C02Box
