import GeoVerif.Gen.SrcSweep
import GeoVerif.Props.C02
/-!
# Source tie for `_geometry.py`: `do_bounds_overlap`, `ensure_edge_bounds`, `find_line_intersection`, `do_edges_intersect`

`GeoVerif/Gen/SrcSweep.lean` is regenerated from the current text of `_geometry.py` on every run (nested functions
lifted, the local class `_Event` a structure, `events.sort()` the stable merge sort that asks only `b < a`, the active
`set` a list without `__eq__`-duplicates).  Here every translated definition is proved equal to the hand-written model:

* `do_bounds_overlap` = `overlap`, `ensure_edge_bounds` = `ensureEdge`, for all inputs;
* `find_line_intersection l1 l2` = `findIntersection` of the two *un-wrapped* segments (point and `is_boundary` flag), for
  all inputs: the x-ordering flip is `orderX`, `get_line_bounds` is `lo`/`hi`, `div` is `segDiv`, and the local-frame
  determinants `o + det(d, ·)/div` are the model's absolute-coordinate `segX`/`segY` (any origin gives the same point);
* `_create_events` = `mkEvents`, `not (b < a)` = `evLe a b`, `__eq__` ⇔ equal `__hash__` keys, the inner loop = `hit`, the
  outer loop = `go` (by induction over the event list, for every active set), hence
  `do_edges_intersect A B` = `Sweep.sweep` over the un-wrapped edges with the source's segment test, for all inputs;
* the model drops `ensure_edge_bounds` (its idealisation: no edge spans more than 180° of longitude, `NoWrap`); for such
  edges the source functions *are* `findIntersection` and `doEdgesIntersect`, and C02's deciding theorems are restated
  for the source (`src_findLineIntersection_isSome_iff`, `src_sweep_eq_anyCross`).

What the translation reads without proof is declared in `harness/srcunits.py` (`sweep_unit`): `round_half_up(x, 10)` = `x`
on exact rationals, `Coordinate(x, y)` = the pair handed to the constructor, `to_float()` = (lon, lat) (pinned), the group
labels `'a'`/`'b'` = `false`/`true`.
-/
namespace GV.C02SrcSweep
open GV GV.Sweep

-- the proofs carry fallbacks for other spellings of the source; on the current text some of them are not reached
set_option linter.unusedTactic false
set_option linter.unreachableTactic false
set_option linter.unusedSimpArgs false

theorem maxR_eq_hi (a b : Rat) : maxR a b = hi a b := rfl
theorem minR_eq_lo (a b : Rat) : minR a b = lo a b := rfl

theorem doBoundsOverlap_eq (a b : Rat × Rat) :
    Src.Sweep.doBoundsOverlap a b = overlap a.1 a.2 b.1 b.2 := by
  rw [Bool.eq_iff_iff]
  simp only [Src.Sweep.doBoundsOverlap, overlap, decide_eq_true_eq]
  exact Iff.rfl

theorem ensureEdgeBounds_eq (a b : Pt) : Src.Sweep.ensureEdgeBounds a b = ensureEdge a b := by
  have habs : ∀ x y : Rat, absR (x - y) = absR (y - x) := by
    intro x y; unfold absR; split_ifs <;> linarith
  simp only [Src.Sweep.ensureEdgeBounds, ensureEdge]
  split_ifs <;> first
    | rfl
    | (exfalso; simp only [decide_eq_true_eq, gt_iff_lt, not_lt, Int.cast_ofNat, Int.cast_zero, habs b.1 a.1] at *; linarith)
    | simp_all

theorem sort2_fst (a b : Rat) : (Py.sort2 a b).1 = lo a b := by
  unfold Py.sort2 lo; split_ifs <;> first | rfl | (exfalso; linarith)
theorem sort2_snd (a b : Rat) : (Py.sort2 a b).2 = hi a b := by
  unfold Py.sort2 hi; split_ifs <;> first | rfl | (exfalso; linarith)

theorem det_eq (a b : Rat × Rat) : Src.Sweep.findLineIntersection.det a b = det2 a b := by
  simp only [Src.Sweep.findLineIntersection.det, det2] <;> ring

theorem glb_eq (l : Seg) : Src.Sweep.findLineIntersection.get_line_bounds l =
    ((lo l.1.1 l.2.1, hi l.1.1 l.2.1), (lo l.1.2 l.2.2, hi l.1.2 l.2.2)) := by
  simp only [Src.Sweep.findLineIntersection.get_line_bounds, sort2_fst, sort2_snd]

/-- "in range → the point and its boundary flag", the innermost decision of both programs -/
def mk3 (C : Bool) (p : P2) (f : Bool) : Option (P2 × Bool) := if C then some (p, f) else none

theorem ite_mk3 (C : Bool) (p : P2) (f : Bool) : (if C = true then some (p, f) else none) = mk3 C p f := rfl
theorem ite_mk3' (C : Bool) (p : P2) (f : Bool) : (if C = true then none else some (p, f)) = mk3 (!C) p f := by
  cases C <;> rfl

theorem mk3_congr {C C' : Bool} {p p' : P2} {f f' : Bool} (hp : p = p') (hC : p = p' → C = C')
    (hf : p = p' → f = f') : mk3 C p f = mk3 C' p' f' := by
  rw [hC hp, hf hp, hp]

theorem orderX_ite (m : Seg) : orderX m = if m.2.1 < m.1.1 then (m.2, m.1) else (m.1, m.2) := rfl

theorem findLineIntersection_eq (l1 l2 : Seg) :
    Src.Sweep.findLineIntersection l1 l2 = findIntersection (ensureEdge l1.1 l1.2) (ensureEdge l2.1 l2.2) := by
  unfold Src.Sweep.findLineIntersection findIntersection
  simp only [ensureEdgeBounds_eq]
  generalize ensureEdge l1.1 l1.2 = m1
  generalize ensureEdge l2.1 l2.2 = m2
  rw [orderX_ite m1, orderX_ite m2]
  by_cases hc1 : m1.2.1 < m1.1.1 <;> by_cases hc2 : m2.2.1 < m2.1.1 <;>
    simp only [hc1, hc2, decide_true, decide_false, if_true, if_false, Bool.false_eq_true] <;>
    ( simp only [findCore, glb_eq, doBoundsOverlap_eq, det_eq, Py.map2, ite_mk3, ite_mk3']
      split_ifs <;> first
        | rfl
        | (exfalso; simp_all [segDiv]; done)
        | (refine mk3_congr ?_ ?_ ?_
           · simp only [segX, segY, segDiv, det2] at *
             ext <;> (simp only []; first | grind | (field_simp; ring))
           · intro hp
             obtain ⟨hx, hy⟩ := Prod.mk.inj hp
             simp only [hx, hy, inBox]
             rw [Bool.eq_iff_iff]
             simp only [Bool.and_eq_true, decide_eq_true_eq]
             tauto
           · intro hp
             rw [hp]
             simp))


/-! ### `do_edges_intersect` -/

abbrev Event := Src.Sweep.doEdgesIntersect.Event

/-- the model's event record of a source `_Event` -/
def toEv (e : Event) : Ev := ⟨e.x, e.is_start, e.segment, e.group⟩
/-- the set key of a source `_Event`: what `__eq__` compares and `__hash__` hashes -/
def key (e : Event) : Act := (e.segment, e.group)

theorem event_eq_iff (a b : Event) : Src.Sweep.doEdgesIntersect.Event.eq a b = true ↔ key a = key b := by
  simp only [Src.Sweep.doEdgesIntersect.Event.eq, key, Bool.and_eq_true, beq_iff_eq, Prod.mk.injEq] <;> tauto

/-- `__hash__` is consistent with `__eq__` (what reading the `set` as a duplicate-free list needs) -/
theorem event_hash_iff (a b : Event) :
    Src.Sweep.doEdgesIntersect.Event.eq a b = true ↔
      Src.Sweep.doEdgesIntersect.Event.hash a = Src.Sweep.doEdgesIntersect.Event.hash b := by
  rw [event_eq_iff]; rfl

/-- `events.sort()` asks `b < a`; "not `b < a`" is the model's `evLe a b` -/
theorem lt_eq (a b : Event) : (!Src.Sweep.doEdgesIntersect.Event.lt b a) = evLe (toEv a) (toEv b) := by
  simp only [Src.Sweep.doEdgesIntersect.Event.lt, evLe, toEv]
  rcases lt_trichotomy a.x b.x with h | h | h
  · have h1 : ¬ b.x = a.x := fun e => by rw [e] at h; exact lt_irrefl _ h
    have h2 : ¬ b.x < a.x := not_lt.mpr (le_of_lt h)
    simp [h, h1, h2]
  · cases a.is_start <;> cases b.is_start <;> simp [h]
  · have h1 : ¬ b.x = a.x := fun e => by rw [e] at h; exact lt_irrefl _ h
    have h2 : ¬ a.x < b.x := not_lt.mpr (le_of_lt h)
    have h3 : ¬ a.x = b.x := fun e => h1 e.symm
    simp [h, h1, h2, h3]

/-- the `for edge in edges` loop of `_create_events` appends the model's events -/
theorem create_loop_eq (E : List Edge) (g : Bool) :
    ∀ (es : List Edge) (acc : List Event),
      (Src.Sweep.doEdgesIntersect.create_events.loop1 E g es acc).map toEv = acc.map toEv ++ mkEvents g es := by
  intro es
  induction es with
  | nil => intro acc; simp [Src.Sweep.doEdgesIntersect.create_events.loop1, mkEvents]
  | cons e es ih =>
    intro acc
    have hn : (if decide (e.1.2 > e.2.2) = true then (e.2, e.1) else e) = normEdge e := by
      unfold normEdge; simp
    simp only [Src.Sweep.doEdgesIntersect.create_events.loop1, ih]
    simp only [mkEvents, List.flatMap_cons, List.map_append, List.map_cons, List.map_nil, toEv, List.append_assoc,
      normEdge, gt_iff_lt, decide_eq_true_eq, List.cons_append, List.nil_append]

theorem create_events_eq (es : List Edge) (g : Bool) :
    (Src.Sweep.doEdgesIntersect.create_events es g).map toEv = mkEvents g es := by
  simp only [Src.Sweep.doEdgesIntersect.create_events, create_loop_eq, List.map_nil, List.nil_append]

/-! #### the active set -/

theorem map_setAdd (x : Event) (l : List Event) :
    (Py.setAdd Src.Sweep.doEdgesIntersect.Event.eq x l).map key = ins (key x) (l.map key) := by
  unfold Py.setAdd ins
  have h : (l.any fun y => Src.Sweep.doEdgesIntersect.Event.eq y x) = true ↔ key x ∈ l.map key := by
    simp only [List.any_eq_true, event_eq_iff, List.mem_map]
  by_cases hc : key x ∈ l.map key
  · simp [h.mpr hc, hc]
  · have : ¬ (l.any fun y => Src.Sweep.doEdgesIntersect.Event.eq y x) = true := fun e => hc (h.mp e)
    simp [this, hc]

theorem map_setDiscard (x : Event) (l : List Event) :
    (Py.setDiscard Src.Sweep.doEdgesIntersect.Event.eq x l).map key = (l.map key).erase (key x) := by
  unfold Py.setDiscard
  induction l with
  | nil => rfl
  | cons y ys ih =>
    by_cases hy : key y = key x
    · have : Src.Sweep.doEdgesIntersect.Event.eq y x = true := (event_eq_iff y x).mpr hy
      simp [List.eraseP_cons, this, hy]
    · have : ¬ Src.Sweep.doEdgesIntersect.Event.eq y x = true := fun e => hy ((event_eq_iff y x).mp e)
      simp only [List.eraseP_cons, this, List.map_cons, cond_false]
      rw [List.erase_cons_tail (by simpa using hy), ih]

/-! #### `len(set(groups)) <= 1`: all the same -/

section MkSet
variable {α : Type} [BEq α] [LawfulBEq α]

theorem mem_setAdd (x y : α) (l : List α) : x ∈ Py.setAdd (fun a b => a == b) y l ↔ x = y ∨ x ∈ l := by
  unfold Py.setAdd
  by_cases h : (l.any fun z => z == y) = true
  · simp only [h, if_true]
    constructor
    · exact Or.inr
    · rintro (rfl | h') <;> [skip; exact h']
      simpa using h
  · simp [h]

theorem nodup_setAdd (y : α) (l : List α) (h : l.Nodup) : (Py.setAdd (fun a b => a == b) y l).Nodup := by
  unfold Py.setAdd
  by_cases hc : (l.any fun z => z == y) = true
  · simp [hc, h]
  · simp only [hc, Bool.false_eq_true, if_false, List.nodup_cons]
    refine ⟨?_, h⟩
    intro hy; apply hc; simp [hy]

theorem mem_addAll (x : α) (l acc : List α) :
    x ∈ l.foldl (fun acc x => Py.setAdd (fun a b => a == b) x acc) acc ↔ x ∈ acc ∨ x ∈ l := by
  induction l generalizing acc with
  | nil => simp
  | cons y ys ih => simp only [List.foldl_cons, ih, mem_setAdd, List.mem_cons]; tauto

theorem nodup_addAll (l acc : List α) (h : acc.Nodup) :
    (l.foldl (fun acc x => Py.setAdd (fun a b => a == b) x acc) acc).Nodup := by
  induction l generalizing acc with
  | nil => simpa
  | cons y ys ih => exact ih _ (nodup_setAdd y acc h)

theorem nodup_length_le_one (l : List α) (h : l.Nodup) : l.length ≤ 1 ↔ ∀ x ∈ l, ∀ y ∈ l, x = y := by
  match l, h with
  | [], _ => simp
  | [a], _ => simp
  | a :: b :: r, h =>
    simp only [List.length_cons]
    constructor
    · intro h'; omega
    · intro h'
      have hab : a = b := h' a (by simp) b (by simp)
      simp [hab] at h

/-- a set built from a list has at most one element iff the list's elements are all equal -/
theorem mkSet_length_le_one (l : List α) :
    (Py.mkSet (fun a b => a == b) l).length ≤ 1 ↔ ∀ x ∈ l, ∀ y ∈ l, x = y := by
  unfold Py.mkSet
  rw [nodup_length_le_one _ (nodup_addAll l [] List.nodup_nil)]
  simp only [mem_addAll, List.not_mem_nil, false_or]
end MkSet

theorem groups_test (act : List Event) (ev : Event) (l : List Event)
    (hl : ∀ e, e ∈ l ↔ e ∈ act ∨ e = ev) :
    decide (((Py.mkSet (fun a b => a == b) (l.map fun e => e.group)).length : Int) ≤ (1 : Int)) =
      (act.map key).all (fun a => a.2 == (toEv ev).grp) := by
  rw [Bool.eq_iff_iff, decide_eq_true_eq]
  have : (((Py.mkSet (fun a b => a == b) (l.map fun e => e.group)).length : Int) ≤ (1 : Int)) ↔
      (Py.mkSet (fun a b => a == b) (l.map fun e => e.group)).length ≤ 1 := by omega
  rw [this, mkSet_length_le_one]
  simp only [List.mem_map, List.all_eq_true, beq_iff_eq, key, toEv, forall_exists_index, and_imp,
    forall_apply_eq_imp_iff₂, hl]
  constructor
  · intro h a ha; exact h a (Or.inl ha) ev (Or.inr rfl)
  · intro h a ha b hb
    have ga : a.group = ev.group := by rcases ha with ha | rfl <;> [exact h a ha; rfl]
    have gb : b.group = ev.group := by rcases hb with hb | rfl <;> [exact h b hb; rfl]
    rw [ga, gb]

/-! #### the two loops -/

attribute [local irreducible] Src.Sweep.findLineIntersection

/-- the segment test the source's sweep calls -/
def srcInter (a b : Edge) : Bool := (Src.Sweep.findLineIntersection a b).isSome

/-- the inner loop: "some active edge of the other group intersects" (`some true`), else exhausted (`none`) -/
theorem loop2_eq (ea eb : List Edge) (evs act : List Event) (ev : Event) :
    ∀ l : List Event, Src.Sweep.doEdgesIntersect.loop2 ea eb evs act ev l =
      if hit srcInter (l.map key) (toEv ev) then some true else none := by
  intro l
  induction l with
  | nil => simp [Src.Sweep.doEdgesIntersect.loop2, hit]
  | cons a l ih =>
    simp only [Src.Sweep.doEdgesIntersect.loop2, ih, hit, List.map_cons, List.any_cons, key, toEv, srcInter]
    by_cases hg : ev.group = a.group
    · have hg' : a.group = ev.group := hg.symm
      simp [hg']
    · have hg' : ¬ a.group = ev.group := fun e => hg e.symm
      cases hf : (Src.Sweep.findLineIntersection a.segment ev.segment).isSome <;> simp [hg, hg', hf]

theorem step_map (act : List Event) (ev : Event) :
    step (act.map key) (toEv ev) =
      if ev.is_start then (Py.setAdd Src.Sweep.doEdgesIntersect.Event.eq ev act).map key
      else (Py.setDiscard Src.Sweep.doEdgesIntersect.Event.eq ev act).map key := by
  unfold step
  cases h : ev.is_start <;> simp [toEv, h, map_setAdd, map_setDiscard, key]

/-- the outer loop is the model's `go` over the model's events and active keys -/
theorem loop1_eq (ea eb : List Edge) (evs0 : List Event) :
    ∀ (evs act : List Event), Src.Sweep.doEdgesIntersect.loop1 ea eb evs0 evs act =
      go srcInter (evs.map toEv) (act.map key) := by
  intro evs
  induction evs with
  | nil => intro act; simp [Src.Sweep.doEdgesIntersect.loop1, go]
  | cons ev evs ih =>
    intro act
    rw [List.map_cons, go, step_map]
    have hs : (toEv ev).isStart = ev.is_start := rfl
    rw [hs]
    cases hst : ev.is_start
    · simp [Src.Sweep.doEdgesIntersect.loop1, hst, ih]
    · simp only [Src.Sweep.doEdgesIntersect.loop1, hst, ih, loop2_eq, if_true, Bool.not_true, Bool.false_eq_true, if_false]
      rw [groups_test act ev _ (by
        intro e
        simp only [List.mem_append, List.mem_cons, List.mem_singleton, List.not_mem_nil, or_false] <;> tauto)]
      by_cases hall : ((act.map key).all fun a => a.2 == (toEv ev).grp) = true
      · simp [hall]
      · simp only [hall, Bool.false_eq_true, if_false]
        cases hit srcInter (act.map key) (toEv ev) <;> simp

/-- every edge is first passed through `ensure_edge_bounds` -/
def ens (e : Edge) : Edge := ensureEdge e.1 e.2

/-- **`do_edges_intersect` is the model's sweep** over the un-wrapped edges with the source's segment test, for all inputs -/
theorem doEdgesIntersect_eq_sweep (A B : List Edge) :
    Src.Sweep.doEdgesIntersect A B = Sweep.sweep srcInter (A.map ens) (B.map ens) := by
  simp only [Src.Sweep.doEdgesIntersect, loop1_eq, ensureEdgeBounds_eq, Sweep.sweep, List.map_nil]
  congr 1
  rw [List.map_mergeSort (s := evLe) (fun a _ b _ => lt_eq a b)]
  simp only [List.map_append, create_events_eq]
  rfl

/-! ### the model's idealisation: no edge spans more than 180° of longitude (`ensure_edge_bounds` is inert) -/

/-- `ensure_edge_bounds` leaves the edge alone -/
def NoWrap (e : Edge) : Prop := absR (e.1.1 - e.2.1) ≤ 180
instance (e : Edge) : Decidable (NoWrap e) := by unfold NoWrap; infer_instance

example : NoWrap ((-170, 10), (9.5, -20)) := by decide +kernel
example : ¬ NoWrap ((-170, 10), (170, -20)) := by decide +kernel

theorem ens_of_noWrap {e : Edge} (h : NoWrap e) : ens e = e := by
  unfold NoWrap at h
  simp only [ens, ensureEdge, gt_iff_lt, not_lt.mpr h, if_false]

theorem ensureEdge_of_noWrap {e : Edge} (h : NoWrap e) : ensureEdge e.1 e.2 = e := ens_of_noWrap h

theorem noWrap_normEdge {e : Edge} (h : NoWrap e) : NoWrap (normEdge e) := by
  unfold normEdge; split
  · unfold NoWrap absR at *
    simp only at *
    split_ifs at * <;> linarith
  · exact h

/-- **`find_line_intersection` is the model's `findIntersection`** (point and boundary flag) on edges that do not wrap -/
theorem findLineIntersection_eq_model (l1 l2 : Seg) (h1 : NoWrap l1) (h2 : NoWrap l2) :
    Src.Sweep.findLineIntersection l1 l2 = findIntersection l1 l2 := by
  rw [findLineIntersection_eq, ensureEdge_of_noWrap h1, ensureEdge_of_noWrap h2]

theorem go_congr (i1 i2 : Edge → Edge → Bool) (P : Edge → Prop)
    (h : ∀ a b, P a → P b → i1 a b = i2 a b) :
    ∀ (evs : List Ev) (act : List Act), (∀ ev ∈ evs, P ev.edge) → (∀ a ∈ act, P a.1) →
      go i1 evs act = go i2 evs act := by
  intro evs
  induction evs with
  | nil => intros; rfl
  | cons ev evs ih =>
    intro act hev hact
    have hstep : ∀ a ∈ step act ev, P a.1 := by
      intro a ha
      unfold step at ha
      split at ha
      · rcases mem_ins.mp ha with rfl | ha
        · exact hev ev (by simp)
        · exact hact a ha
      · exact hact a (List.mem_of_mem_erase ha)
    have hhit : hit i1 act ev = hit i2 act ev := by
      rw [Bool.eq_iff_iff]
      simp only [hit, List.any_eq_true]
      constructor
      · rintro ⟨a, ha, hh⟩
        refine ⟨a, ha, ?_⟩
        rw [← h a.1 ev.edge (hact a ha) (hev ev (by simp))]; exact hh
      · rintro ⟨a, ha, hh⟩
        refine ⟨a, ha, ?_⟩
        rw [h a.1 ev.edge (hact a ha) (hev ev (by simp))]; exact hh
    have ih' := ih (step act ev) (fun e he => hev e (by simp [he])) hstep
    simp only [go, ih', hhit]

/-- **`do_edges_intersect` is the model's `doEdgesIntersect`** for edge lists that do not wrap -/
theorem doEdgesIntersect_eq_model (A B : List Edge) (hA : ∀ e ∈ A, NoWrap e) (hB : ∀ e ∈ B, NoWrap e) :
    Src.Sweep.doEdgesIntersect A B = GV.doEdgesIntersect A B := by
  have mA : A.map ens = A := by
    conv_rhs => rw [← List.map_id A]
    exact List.map_congr_left (fun e he => ens_of_noWrap (hA e he))
  have mB : B.map ens = B := by
    conv_rhs => rw [← List.map_id B]
    exact List.map_congr_left (fun e he => ens_of_noWrap (hB e he))
  rw [doEdgesIntersect_eq_sweep, mA, mB]
  unfold GV.doEdgesIntersect Sweep.sweep
  apply go_congr srcInter segInter NoWrap
  · intro a b ha hb
    simp only [srcInter, segInter, findLineIntersection_eq_model a b ha hb]
  · intro ev hev
    rw [List.mem_mergeSort, List.mem_append] at hev
    rcases hev with hev | hev
    · obtain ⟨_, ⟨e, he, hee⟩, _⟩ := mem_mkEvents hev
      rw [hee]; exact noWrap_normEdge (hA e he)
    · obtain ⟨_, ⟨e, he, hee⟩, _⟩ := mem_mkEvents hev
      rw [hee]; exact noWrap_normEdge (hB e he)
  · intro a ha; simp at ha

/-! ### C02's deciding theorems, restated for the translated source -/

/-- the source's segment test decides exact proper crossing -/
theorem src_findLineIntersection_isSome_iff (l1 l2 : Seg) (h1 : NoWrap l1) (h2 : NoWrap l2) :
    (Src.Sweep.findLineIntersection l1 l2).isSome = true ↔ properCross l1 l2 := by
  rw [findLineIntersection_eq_model l1 l2 h1 h2]; exact C02.findIntersection_isSome_iff l1 l2

/-- the source's sweep finds exactly the proper crossings -/
theorem src_sweep_eq_anyCross (A B : List Edge) (hA : ∀ e ∈ A, NoWrap e) (hB : ∀ e ∈ B, NoWrap e) :
    Src.Sweep.doEdgesIntersect A B = true ↔ C02.anyCross A B := by
  rw [doEdgesIntersect_eq_model A B hA hB]; exact C02.sweep_eq_anyCross A B

end GV.C02SrcSweep
