import GeoVerif.Lemmas.PipRing
import GeoVerif.Model.Relate

/-!
# C01 — polygon and box point-membership is exact

Specification (`insideEO`, defined in `Lemmas/Pip.lean`): a query is inside a ring iff it lies on no edge
and the number of edges crossed by the half-open ray rule is odd.  For simple rings this is topological
insideness (Jordan; assumed, see DESIGN §4).  All theorems hold for rings of any length and all queries.
-/
namespace GV.C01
open GV

/-- on some edge of the ring -/
def onBoundary (p : Pt) (es : List Edge) : Bool := es.any (onEdge p)

/-- **the ring test is exactly "not on the boundary and odd crossing count"** -/
theorem pointInRing_eq_spec (p : Pt) (ring : List Pt) :
    pointInRing p ring = insideEO p (ringEdges ring) := GV.pointInRing_eq_spec p ring

/-- a coordinate on the outer boundary is not contained -/
theorem pointInRing_boundary_false (p : Pt) (ring : List Pt) (e : Edge) (he : e ∈ ringEdges ring)
    (hon : onEdge p e = true) : pointInRing p ring = false :=
  GV.pointInRing_boundary_false p ring e he hon

/-- `include_boundary=True` adds exactly the boundary -/
theorem pointInRing_inclB (p : Pt) (ring : List Pt) :
    pointInRing p ring true = (onBoundary p (ringEdges ring) || insideEO p (ringEdges ring)) := by
  unfold pointInRing onBoundary insideEO
  rw [pipGo_spec]
  by_cases h : (ringEdges ring).any (onEdge p) = true <;> simp [h]

/-- the answer depends only on the multiset of edges … -/
theorem insideEO_perm (p : Pt) {es es' : List Edge} (h : es.Perm es') :
    insideEO p es = insideEO p es' := GV.insideEO_perm p h

/-- … and not on their direction -/
theorem insideEO_flip (p : Pt) (es : List Edge) : insideEO p (es.map flipE) = insideEO p es :=
  GV.insideEO_flip p es

/-- **start-vertex independence**: re-writing a closed outline from its `k`-th vertex -/
theorem pointInRing_rotate (p v : Pt) (r : List Pt) (k : Nat) :
    pointInRing p (closeUp ((v :: r).rotate k)) = pointInRing p (closeUp (v :: r)) := by
  have hne : (v :: r).rotate k ≠ [] := by simp
  obtain ⟨w, t, hw⟩ := List.exists_cons_of_ne_nil hne
  rw [hw, pointInRing_closeUp, pointInRing_closeUp, ← hw]
  exact GV.insideEO_perm p (ringEdges_rotate_perm k (v :: r))

/-- **winding-direction independence**: the reversed closed outline -/
theorem pointInRing_reverse (p v : Pt) (r : List Pt) :
    pointInRing p (closeUp (v :: r)).reverse = pointInRing p (closeUp (v :: r)) := by
  rw [closeUp_reverse, pointInRing_closeUp, pointInRing_closeUp,
    ringEdges_eq_pathEdges_closeUp, ← closeUp_reverse, pathEdges_reverse,
    GV.insideEO_flip, ← ringEdges_eq_pathEdges_closeUp]
  exact GV.insideEO_perm p (List.reverse_perm _)

/-- membership in a hole-free polygon, as coded: prefilter and ring test -/
theorem ringContains_eq_spec (ring : List Pt) (p : Pt) :
    ringContains ring p = (inBBox p ring && insideEO p (ringEdges ring)) := by
  unfold ringContains; rw [GV.pointInRing_eq_spec]

/-- **the bounding-box shortcut never changes the answer** -/
theorem bbox_prefilter_sound (p v : Pt) (r : List Pt) :
    ringContains (closeUp (v :: r)) p = insideEO p (ringEdges (v :: r)) := by
  unfold ringContains
  rw [pointInRing_closeUp]
  by_cases h : inBBox p (closeUp (v :: r)) = true
  · simp [h]
  · have h' : inBBox p (closeUp (v :: r)) = false := by simpa using h
    rw [h', insideEO_of_not_inBBox p v r h']; rfl

/-- **polygon with holes**: strictly inside the outline and not strictly inside any hole -/
theorem polyContains_iff (v : Pt) (r : List Pt) (holes : List (Pt × List Pt)) (p : Pt) :
    polyContains (closeUp (v :: r)) (holes.map fun h => closeUp (h.1 :: h.2)) p = true ↔
      insideEO p (ringEdges (v :: r)) = true ∧
        ∀ h ∈ holes, insideEO p (ringEdges (h.1 :: h.2)) = false := by
  unfold polyContains
  rw [bbox_prefilter_sound]
  simp only [Bool.and_eq_true, Bool.not_eq_true', List.any_eq_false, List.mem_map,
    forall_exists_index, and_imp, forall_apply_eq_imp_iff₂, bbox_prefilter_sound]
  simp

/-- a coordinate on a hole's boundary (and inside the outline, in no other hole) is contained -/
theorem poly_hole_boundary_true (v : Pt) (r : List Pt) (h : Pt × List Pt) (p : Pt) (e : Edge)
    (hin : insideEO p (ringEdges (v :: r)) = true) (he : e ∈ ringEdges (h.1 :: h.2))
    (hon : onEdge p e = true) :
    polyContains (closeUp (v :: r)) [closeUp (h.1 :: h.2)] p = true := by
  have := (polyContains_iff v r [h] p).mpr
  simp only [List.map_cons, List.map_nil, List.mem_singleton, forall_eq] at this
  apply this
  refine ⟨hin, ?_⟩
  unfold insideEO
  have : (ringEdges (h.1 :: h.2)).any (onEdge p) = true := List.any_eq_true.mpr ⟨e, he, hon⟩
  simp [this]

/-- a coordinate on the polygon's outer boundary is not contained, whatever the holes -/
theorem poly_outer_boundary_false (v : Pt) (r : List Pt) (holes : List (List Pt)) (p : Pt) (e : Edge)
    (he : e ∈ ringEdges (v :: r)) (hon : onEdge p e = true) :
    polyContains (closeUp (v :: r)) holes p = false := by
  unfold polyContains
  rw [bbox_prefilter_sound]
  have : insideEO p (ringEdges (v :: r)) = false := by
    unfold insideEO
    have : (ringEdges (v :: r)).any (onEdge p) = true := List.any_eq_true.mpr ⟨e, he, hon⟩
    simp [this]
  simp [this]

/-- **box**: the closed rectangle minus the strict interiors of its holes -/
theorem boxContains_iff (nw se : Pt) (holes : List (Pt × List Pt)) (p : Pt) :
    boxContains nw se (holes.map fun h => closeUp (h.1 :: h.2)) p = true ↔
      (nw.1 ≤ p.1 ∧ p.1 ≤ se.1 ∧ se.2 ≤ p.2 ∧ p.2 ≤ nw.2) ∧
        ∀ h ∈ holes, insideEO p (ringEdges (h.1 :: h.2)) = false := by
  unfold boxContains
  simp only [Bool.and_eq_true, decide_eq_true_eq, Bool.not_eq_true', List.any_eq_false, List.mem_map,
    forall_exists_index, and_imp, forall_apply_eq_imp_iff₂, bbox_prefilter_sound]
  constructor
  · rintro ⟨⟨⟨⟨a, b⟩, c⟩, d⟩, e⟩; exact ⟨⟨a, b, c, d⟩, by simpa using e⟩
  · rintro ⟨⟨a, b, c, d⟩, e⟩; exact ⟨⟨⟨⟨a, b⟩, c⟩, d⟩, by simpa using e⟩

/-- a box includes its own edges -/
theorem box_edge_contained (nw se p : Pt) (hx : nw.1 ≤ se.1) (hy : se.2 ≤ nw.2) (e : Edge)
    (he : e ∈ ringEdges (boxRing nw se)) (hon : onEdge p e = true) :
    boxContains nw se [] p = true := by
  have hb := (boxContains_iff nw se [] p).mpr
  simp only [List.map_nil, List.not_mem_nil, false_implies, implies_true, and_true] at hb
  apply hb
  unfold onEdge minR maxR at hon
  simp only [boxRing, ringEdges, List.zip_cons_cons, List.cons_append, List.nil_append, List.zip_nil_right,
    List.mem_cons, List.not_mem_nil, or_false] at he
  simp only [Bool.and_eq_true, decide_eq_true_eq] at hon
  obtain ⟨⟨⟨⟨_, h1⟩, h2⟩, h3⟩, h4⟩ := hon
  rcases he with rfl | rfl | rfl | rfl | rfl <;> simp only at h1 h2 h3 h4 <;>
    (split at h1 <;> split at h2 <;> split at h3 <;> split at h4 <;>
      refine ⟨?_, ?_, ?_, ?_⟩ <;> linarith)

/-! ### the answer survives the constructor's closing / orientation normalisation -/

theorem closeRing_closeUp (v : Pt) (r : List Pt) : closeRing (closeUp (v :: r)) = closeUp (v :: r) := by
  have h1 : (closeUp (v :: r)).head? = some v := by simp [closeUp]
  have h2 : (closeUp (v :: r)).getLast? = some v := by
    show (v :: (r ++ [v])).getLast? = some v
    rw [← List.cons_append, List.getLast?_concat]
  unfold closeRing
  rw [h1, h2]; simp

theorem mkOutline_closeUp (v : Pt) (r : List Pt) (isHole : Bool) :
    mkOutline (closeUp (v :: r)) isHole = closeUp (v :: r) ∨
      mkOutline (closeUp (v :: r)) isHole = (closeUp (v :: r)).reverse := by
  have : mkOutline (closeUp (v :: r)) isHole =
      if (!(xor (isCCW (closeRing (closeUp (v :: r)))) isHole)) = true
      then (closeRing (closeUp (v :: r))).reverse else closeRing (closeUp (v :: r)) := rfl
  rw [this, closeRing_closeUp]
  split <;> simp

theorem mem_closeUp (q a : Pt) (l : List Pt) : q ∈ closeUp (a :: l) ↔ q ∈ a :: l := by
  simp only [closeUp, List.cons_append, List.mem_cons, List.mem_append, List.mem_singleton]
  tauto

theorem ringContains_reverse (p v : Pt) (r : List Pt) :
    ringContains (closeUp (v :: r)).reverse p = ringContains (closeUp (v :: r)) p := by
  unfold ringContains
  rw [pointInRing_reverse, inBBox_congr p (r := (closeUp (v :: r)).reverse) (s := closeUp (v :: r))
    (fun q => List.mem_reverse)]

theorem ringContains_rotate (p v : Pt) (r : List Pt) (k : Nat) :
    ringContains (closeUp ((v :: r).rotate k)) p = ringContains (closeUp (v :: r)) p := by
  unfold ringContains
  rw [pointInRing_rotate]
  congr 1
  apply inBBox_congr
  intro q
  have hne : (v :: r).rotate k ≠ [] := by simp
  obtain ⟨w, t, hw⟩ := List.exists_cons_of_ne_nil hne
  have hwm : w ∈ v :: r := by
    have : w ∈ (v :: r).rotate k := by rw [hw]; simp
    exact List.mem_rotate.mp this
  have ht : ∀ x, x ∈ w :: t ↔ x ∈ v :: r := by
    intro x; rw [← hw]; exact List.mem_rotate
  rw [hw, mem_closeUp, mem_closeUp]
  exact ht q

/-- **whichever vertex the outline starts from and whichever way it winds, the constructed polygon
    answers the same** -/
theorem polyContains_mk_invariant (p v : Pt) (r : List Pt) (k : Nat) (rev : Bool) :
    ringContains (mkOutline (closeUp (if rev then ((v :: r).rotate k).reverse else (v :: r).rotate k))) p =
      ringContains (closeUp (v :: r)) p := by
  have hne : (v :: r).rotate k ≠ [] := by simp
  obtain ⟨w, t, hw⟩ := List.exists_cons_of_ne_nil hne
  have key : ∀ (a : Pt) (l : List Pt), ringContains (mkOutline (closeUp (a :: l))) p =
      ringContains (closeUp (a :: l)) p := by
    intro a l
    rcases mkOutline_closeUp a l false with h | h
    · rw [h]
    · rw [h, ringContains_reverse]
  cases rev with
  | false =>
    simp only [Bool.false_eq_true, if_false]
    rw [hw, key, ← hw, ringContains_rotate]
  | true =>
    simp only [if_true]
    rw [hw]
    -- the reversed open outline `(w :: t).reverse` is a rotation of `w :: t.reverse`
    have hrev : (w :: t).reverse = (w :: t.reverse).rotate 1 := by
      simp [List.rotate_cons_succ]
    have hne2 : (w :: t).reverse ≠ [] := by simp
    obtain ⟨a, l, hal⟩ := List.exists_cons_of_ne_nil hne2
    rw [hal, key, ← hal, hrev, ringContains_rotate, ← closeUp_reverse, ringContains_reverse, ← hw,
      ringContains_rotate]

/-- link to elementary insideness on one family: the polygon form of a box is the open rectangle -/
theorem rect_pip_iff (x0 y0 x1 y1 : Rat) (hx : x0 < x1) (hy : y0 < y1) (p : Pt) :
    insideEO p (ringEdges [(x0, y1), (x0, y0), (x1, y0), (x1, y1)]) = true ↔
      (x0 < p.1 ∧ p.1 < x1 ∧ y0 < p.2 ∧ p.2 < y1) := by
  obtain ⟨px, py⟩ := p
  have hu : 0 < y1 - y0 := by linarith
  have hw : 0 < x1 - x0 := by linarith
  have e1 : (x0 - x0) * (py - y1) - (y0 - y1) * (px - x0) = (y1 - y0) * (px - x0) := by ring
  have e2 : (x1 - x0) * (py - y0) - (y0 - y0) * (px - x0) = (x1 - x0) * (py - y0) := by ring
  have e3 : (x1 - x1) * (py - y0) - (y1 - y0) * (px - x1) = (y1 - y0) * (x1 - px) := by ring
  have e4 : (x0 - x1) * (py - y1) - (y1 - y1) * (px - x1) = (x1 - x0) * (y1 - py) := by ring
  have z (c t : Rat) (hc : 0 < c) : (c * t = 0 ↔ t = 0) := by
    constructor
    · intro h; rcases mul_eq_zero.mp h with h | h; · linarith
      · exact h
    · rintro rfl; ring
  have g (c t : Rat) (hc : 0 < c) : (c * t > 0 ↔ t > 0) := by
    constructor
    · intro h; by_contra hn; rw [not_lt] at hn; nlinarith
    · intro h; exact mul_pos hc h
  simp only [insideEO, ringEdges, List.zip_cons_cons, List.cons_append, List.nil_append,
    List.zip_nil_right, List.any_cons, List.any_nil, List.countP_cons, List.countP_nil,
    onEdge, crossesRay, pcross, minR, maxR, e1, e2, e3, e4, z _ _ hu, z _ _ hw, g _ _ hu, g _ _ hw]
  rcases lt_trichotomy px x0 with a | a | a <;> rcases lt_trichotomy px x1 with b | b | b <;>
  rcases lt_trichotomy py y0 with c | c | c <;> rcases lt_trichotomy py y1 with d | d | d <;>
    first
    | (exfalso; linarith)
    | grind

/-- **ray-direction independence**: off the boundary the east-going and the west-going ray agree on the
    crossing parity, so "inside" does not depend on the direction the ray is cast in -/
theorem parity_ray_independent (p v : Pt) (r : List Pt)
    (hoff : onBoundary p (ringEdges (v :: r)) = false) :
    (ringEdges (v :: r)).countP (crossesRay p) % 2 = (ringEdges (v :: r)).countP (crossesRayW p) % 2 :=
  GV.parity_ray_independent p v r hoff

/-! ### non-vacuity -/
example : pointInRing (0, 0) (closeUp [(0, 1), (-1, 0), (0, -1), (1, 0)]) = true ∧
    pointInRing (3, 2) (closeUp [(0, 0), (4, 0), (4, 4), (2, 2), (0, 4)]) = true ∧
    pointInRing (1, 3) (closeUp [(0, 0), (4, 0), (4, 4), (2, 2), (0, 4)]) = false := by
  refine ⟨by decide +kernel, by decide +kernel, by decide +kernel⟩

end GV.C01
