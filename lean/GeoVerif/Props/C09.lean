import GeoVerif.Props.C03
import GeoVerif.Model.Bounds
import GeoVerif.Model.Welzl
/-!
# C09 — bounds and circumscribing shapes enclose the shape

* exact part (`ℚ`): `bboxOf` is the min / max box of the vertex list (every vertex inside, each side
  attained), multi-shape / collection bounds are the min / max box of all members' vertices, the rectangle
  built from in-range bounds has exactly those bounds;
* circles (`ℝ` instance of the geodesy model): "centroid + farthest vertex" circles enclose every listed
  vertex for *any* distance function and *any* centroid; ellipse / ring / circle circles enclose every
  generated vertex; the box circle passes through the NW and NE corners (`box_circle_partial`; the SE/SW
  corners are the known finding F09a);
* Welzl: for every sequence of random draws the result is the trivial circle of at most three of the
  points; *assuming* Welzl's lemma for an abstract `mb` (not proved: spherical geometry) the result is
  `mb pts []`, hence independent of the draws, and encloses every point.
-/
namespace GV.C09

open GV GV.Bounds

/-! ## exact bounds -/

theorem minR_le_left (a b : Rat) : minR a b ≤ a := by unfold minR; split <;> [exact le_refl _; exact le_of_lt (not_le.mp ‹_›)]
theorem minR_le_right (a b : Rat) : minR a b ≤ b := by unfold minR; split <;> [assumption; exact le_refl _]
theorem le_maxR_left (a b : Rat) : a ≤ maxR a b := by unfold maxR; split <;> [assumption; exact le_refl _]
theorem le_maxR_right (a b : Rat) : b ≤ maxR a b := by unfold maxR; split <;> [exact le_refl _; exact le_of_lt (not_le.mp ‹_›)]
theorem minR_eq (a b : Rat) : minR a b = a ∨ minR a b = b := by unfold minR; split <;> simp
theorem maxR_eq (a b : Rat) : maxR a b = a ∨ maxR a b = b := by unfold maxR; split <;> simp

/-- `b` is *the* min / max box of the vertex list `S`: every vertex inside, each side attained -/
def IsBBox (S : List Pt) (b : BBox) : Prop :=
  (∀ p ∈ S, b.1 ≤ p.1 ∧ p.1 ≤ b.2.2.1 ∧ b.2.1 ≤ p.2 ∧ p.2 ≤ b.2.2.2) ∧
  (∃ p ∈ S, p.1 = b.1) ∧ (∃ p ∈ S, p.2 = b.2.1) ∧ (∃ p ∈ S, p.1 = b.2.2.1) ∧ (∃ p ∈ S, p.2 = b.2.2.2)

theorem isBBox_unique {S : List Pt} {b c : BBox} (hb : IsBBox S b) (hc : IsBBox S c) : b = c := by
  obtain ⟨hb1, ⟨p1, hp1, e1⟩, ⟨p2, hp2, e2⟩, ⟨p3, hp3, e3⟩, ⟨p4, hp4, e4⟩⟩ := hb
  obtain ⟨hc1, ⟨q1, hq1, f1⟩, ⟨q2, hq2, f2⟩, ⟨q3, hq3, f3⟩, ⟨q4, hq4, f4⟩⟩ := hc
  have a1 : b.1 = c.1 := le_antisymm (by rw [← f1]; exact (hb1 q1 hq1).1) (by rw [← e1]; exact (hc1 p1 hp1).1)
  have a2 : b.2.1 = c.2.1 :=
    le_antisymm (by rw [← f2]; exact (hb1 q2 hq2).2.2.1) (by rw [← e2]; exact (hc1 p2 hp2).2.2.1)
  have a3 : b.2.2.1 = c.2.2.1 :=
    le_antisymm (by rw [← e3]; exact (hc1 p3 hp3).2.1) (by rw [← f3]; exact (hb1 q3 hq3).2.1)
  have a4 : b.2.2.2 = c.2.2.2 :=
    le_antisymm (by rw [← e4]; exact (hc1 p4 hp4).2.2.2) (by rw [← f4]; exact (hb1 q4 hq4).2.2.2)
  exact Prod.ext a1 (Prod.ext a2 (Prod.ext a3 a4))

/-- one step of the fold in `bboxOf` -/
def bstep (b : BBox) (q : Pt) : BBox := (minR b.1 q.1, minR b.2.1 q.2, maxR b.2.2.1 q.1, maxR b.2.2.2 q.2)

theorem bboxOf_cons (p : Pt) (ps : List Pt) : bboxOf (p :: ps) = some (ps.foldl bstep (p.1, p.2, p.1, p.2)) := rfl

theorem isBBox_foldl (ps : List Pt) : ∀ (S : List Pt) (b : BBox), IsBBox S b → IsBBox (S ++ ps) (ps.foldl bstep b) := by
  induction ps with
  | nil => intro S b h; simpa using h
  | cons q qs ih =>
    intro S b h
    have hstep : IsBBox (S ++ [q]) (bstep b q) := by
      obtain ⟨h1, ⟨p1, hp1, e1⟩, ⟨p2, hp2, e2⟩, ⟨p3, hp3, e3⟩, ⟨p4, hp4, e4⟩⟩ := h
      refine ⟨?_, ?_, ?_, ?_, ?_⟩
      · intro p hp
        rcases List.mem_append.mp hp with hp | hp
        · obtain ⟨a, b', c, d⟩ := h1 p hp
          exact ⟨le_trans (minR_le_left _ _) a, le_trans b' (le_maxR_left _ _),
            le_trans (minR_le_left _ _) c, le_trans d (le_maxR_left _ _)⟩
        · have : p = q := by simpa using hp
          subst this
          exact ⟨minR_le_right _ _, le_maxR_right _ _, minR_le_right _ _, le_maxR_right _ _⟩
      · rcases minR_eq b.1 q.1 with h | h
        · exact ⟨p1, List.mem_append_left _ hp1, by simp only [bstep]; rw [h, e1]⟩
        · exact ⟨q, by simp, by simp only [bstep]; rw [h]⟩
      · rcases minR_eq b.2.1 q.2 with h | h
        · exact ⟨p2, List.mem_append_left _ hp2, by simp only [bstep]; rw [h, e2]⟩
        · exact ⟨q, by simp, by simp only [bstep]; rw [h]⟩
      · rcases maxR_eq b.2.2.1 q.1 with h | h
        · exact ⟨p3, List.mem_append_left _ hp3, by simp only [bstep]; rw [h, e3]⟩
        · exact ⟨q, by simp, by simp only [bstep]; rw [h]⟩
      · rcases maxR_eq b.2.2.2 q.2 with h | h
        · exact ⟨p4, List.mem_append_left _ hp4, by simp only [bstep]; rw [h, e4]⟩
        · exact ⟨q, by simp, by simp only [bstep]; rw [h]⟩
    have := ih (S ++ [q]) (bstep b q) hstep
    simpa [List.append_assoc] using this

theorem bboxOf_isBBox {l : List Pt} {b : BBox} (h : bboxOf l = some b) : IsBBox l b := by
  cases l with
  | nil => simp [bboxOf] at h
  | cons p ps =>
    rw [bboxOf_cons] at h
    have h0 : IsBBox [p] (p.1, p.2, p.1, p.2) :=
      ⟨fun q hq => by have : q = p := by simpa using hq
                      subst this; exact ⟨le_refl _, le_refl _, le_refl _, le_refl _⟩,
       ⟨p, by simp, rfl⟩, ⟨p, by simp, rfl⟩, ⟨p, by simp, rfl⟩, ⟨p, by simp, rfl⟩⟩
    have := isBBox_foldl ps [p] _ h0
    rw [Option.some.inj h] at this
    simpa using this

theorem bboxOf_isSome {l : List Pt} (h : l ≠ []) : ∃ b, bboxOf l = some b := by
  cases l with
  | nil => exact absurd rfl h
  | cons p ps => exact ⟨_, bboxOf_cons p ps⟩

/-- **the bounds of a vertex-defined shape contain every vertex** (polygon outline, linestring, point) -/
theorem vertex_bounds_minmax {l : List Pt} {b : BBox} (h : bboxOf l = some b) :
    ∀ p ∈ l, b.1 ≤ p.1 ∧ p.1 ≤ b.2.2.1 ∧ b.2.1 ≤ p.2 ∧ p.2 ≤ b.2.2.2 := (bboxOf_isBBox h).1

/-- … **and are exactly the minimum and maximum**: each of the four sides is attained by a vertex -/
theorem vertex_bounds_attained {l : List Pt} {b : BBox} (h : bboxOf l = some b) :
    (∃ p ∈ l, p.1 = b.1) ∧ (∃ p ∈ l, p.2 = b.2.1) ∧ (∃ p ∈ l, p.1 = b.2.2.1) ∧ (∃ p ∈ l, p.2 = b.2.2.2) :=
  (bboxOf_isBBox h).2

theorem point_bounds_minmax (p : Pt) : bboxOf [p] = some (pointBounds p) := rfl

/-- `GeoBox.bounds` is the min / max box of the box's five outline vertices (for a well-formed box) -/
theorem box_bounds_def (nw se : Pt) (hx : nw.1 ≤ se.1) (hy : se.2 ≤ nw.2) :
    IsBBox [nw, (nw.1, se.2), se, (se.1, nw.2), nw] (boxBounds nw se) := by
  refine ⟨?_, ⟨nw, by simp, rfl⟩, ⟨se, by simp, rfl⟩, ⟨se, by simp, rfl⟩, ⟨nw, by simp, rfl⟩⟩
  intro p hp
  simp only [List.mem_cons, List.not_mem_nil, or_false] at hp
  rcases hp with rfl | rfl | rfl | rfl | rfl <;> simp [boxBounds, hx, hy]

/-! ### union of member bounds -/

def ustep (u c : BBox) : BBox := (minR u.1 c.1, minR u.2.1 c.2.1, maxR u.2.2.1 c.2.2.1, maxR u.2.2.2 c.2.2.2)

theorem unionBounds_cons (b : BBox) (bs : List BBox) : unionBounds (b :: bs) = some (bs.foldl ustep b) := rfl

/-- `u` is the union (smallest enclosing box) of the boxes `bs` -/
def IsUnion (bs : List BBox) (u : BBox) : Prop :=
  (∀ b ∈ bs, u.1 ≤ b.1 ∧ u.2.1 ≤ b.2.1 ∧ b.2.2.1 ≤ u.2.2.1 ∧ b.2.2.2 ≤ u.2.2.2) ∧
  (∃ b ∈ bs, b.1 = u.1) ∧ (∃ b ∈ bs, b.2.1 = u.2.1) ∧ (∃ b ∈ bs, b.2.2.1 = u.2.2.1) ∧ (∃ b ∈ bs, b.2.2.2 = u.2.2.2)

theorem isUnion_foldl (cs : List BBox) : ∀ (bs : List BBox) (u : BBox), IsUnion bs u → IsUnion (bs ++ cs) (cs.foldl ustep u) := by
  induction cs with
  | nil => intro bs u h; simpa using h
  | cons c cs ih =>
    intro bs u h
    have hstep : IsUnion (bs ++ [c]) (ustep u c) := by
      obtain ⟨h1, ⟨p1, hp1, e1⟩, ⟨p2, hp2, e2⟩, ⟨p3, hp3, e3⟩, ⟨p4, hp4, e4⟩⟩ := h
      refine ⟨?_, ?_, ?_, ?_, ?_⟩
      · intro b hb
        rcases List.mem_append.mp hb with hb | hb
        · obtain ⟨a, b', c', d⟩ := h1 b hb
          exact ⟨le_trans (minR_le_left _ _) a, le_trans (minR_le_left _ _) b',
            le_trans c' (le_maxR_left _ _), le_trans d (le_maxR_left _ _)⟩
        · have : b = c := by simpa using hb
          subst this
          exact ⟨minR_le_right _ _, minR_le_right _ _, le_maxR_right _ _, le_maxR_right _ _⟩
      · rcases minR_eq u.1 c.1 with h | h
        · exact ⟨p1, List.mem_append_left _ hp1, by simp only [ustep]; rw [h, e1]⟩
        · exact ⟨c, by simp, by simp only [ustep]; rw [h]⟩
      · rcases minR_eq u.2.1 c.2.1 with h | h
        · exact ⟨p2, List.mem_append_left _ hp2, by simp only [ustep]; rw [h, e2]⟩
        · exact ⟨c, by simp, by simp only [ustep]; rw [h]⟩
      · rcases maxR_eq u.2.2.1 c.2.2.1 with h | h
        · exact ⟨p3, List.mem_append_left _ hp3, by simp only [ustep]; rw [h, e3]⟩
        · exact ⟨c, by simp, by simp only [ustep]; rw [h]⟩
      · rcases maxR_eq u.2.2.2 c.2.2.2 with h | h
        · exact ⟨p4, List.mem_append_left _ hp4, by simp only [ustep]; rw [h, e4]⟩
        · exact ⟨c, by simp, by simp only [ustep]; rw [h]⟩
    have := ih (bs ++ [c]) (ustep u c) hstep
    simpa [List.append_assoc] using this

theorem unionBounds_isUnion {bs : List BBox} {u : BBox} (h : unionBounds bs = some u) : IsUnion bs u := by
  cases bs with
  | nil => simp [unionBounds] at h
  | cons b bs =>
    rw [unionBounds_cons] at h
    have h0 : IsUnion [b] b :=
      ⟨fun c hc => by have : c = b := by simpa using hc
                      subst this; exact ⟨le_refl _, le_refl _, le_refl _, le_refl _⟩,
       ⟨b, by simp, rfl⟩, ⟨b, by simp, rfl⟩, ⟨b, by simp, rfl⟩, ⟨b, by simp, rfl⟩⟩
    have := isUnion_foldl bs [b] b h0
    rw [Option.some.inj h] at this
    simpa using this

/-- **the bounds of a multi-shape / collection contain every member's bounds** … -/
theorem union_bounds_contains {bs : List BBox} {u : BBox} (h : unionBounds bs = some u) :
    ∀ b ∈ bs, u.1 ≤ b.1 ∧ u.2.1 ≤ b.2.1 ∧ b.2.2.1 ≤ u.2.2.1 ∧ b.2.2.2 ≤ u.2.2.2 := (unionBounds_isUnion h).1

/-- … **and nothing more**: each side is a side of some member -/
theorem union_bounds_attained {bs : List BBox} {u : BBox} (h : unionBounds bs = some u) :
    (∃ b ∈ bs, b.1 = u.1) ∧ (∃ b ∈ bs, b.2.1 = u.2.1) ∧ (∃ b ∈ bs, b.2.2.1 = u.2.2.1) ∧ (∃ b ∈ bs, b.2.2.2 = u.2.2.2) :=
  (unionBounds_isUnion h).2

/-- **the union of the members' vertex bounds is the min / max box of all their vertices together** -/
theorem union_bounds_eq_bbox_join (ls : List (List Pt)) (bs : List BBox) (u : BBox)
    (hb : ls.map bboxOf = bs.map some) (hu : unionBounds bs = some u) : bboxOf ls.flatten = some u := by
  have hU := unionBounds_isUnion hu
  -- every member box is the box of its vertex list
  have hmem : ∀ b ∈ bs, ∃ l ∈ ls, bboxOf l = some b := by
    intro b hb'
    have : some b ∈ ls.map bboxOf := by rw [hb]; exact List.mem_map_of_mem hb'
    obtain ⟨l, hl, e⟩ := List.mem_map.mp this
    exact ⟨l, hl, e⟩
  have hmem' : ∀ l ∈ ls, ∃ b ∈ bs, bboxOf l = some b := by
    intro l hl
    have : bboxOf l ∈ bs.map some := by rw [← hb]; exact List.mem_map_of_mem hl
    obtain ⟨b, hb', e⟩ := List.mem_map.mp this
    exact ⟨b, hb', e.symm⟩
  have hI : IsBBox ls.flatten u := by
    obtain ⟨h1, ⟨b1, hb1, e1⟩, ⟨b2, hb2, e2⟩, ⟨b3, hb3, e3⟩, ⟨b4, hb4, e4⟩⟩ := hU
    refine ⟨?_, ?_, ?_, ?_, ?_⟩
    · intro p hp
      obtain ⟨l, hl, hpl⟩ := List.mem_flatten.mp hp
      obtain ⟨b, hbb, e⟩ := hmem' l hl
      obtain ⟨a1, a2, a3, a4⟩ := vertex_bounds_minmax e p hpl
      obtain ⟨c1, c2, c3, c4⟩ := h1 b hbb
      exact ⟨le_trans c1 a1, le_trans a2 c3, le_trans c2 a3, le_trans a4 c4⟩
    · obtain ⟨l, hl, e⟩ := hmem b1 hb1
      obtain ⟨⟨p, hp, ep⟩, _⟩ := vertex_bounds_attained e
      exact ⟨p, List.mem_flatten.mpr ⟨l, hl, hp⟩, by rw [ep, e1]⟩
    · obtain ⟨l, hl, e⟩ := hmem b2 hb2
      obtain ⟨_, ⟨p, hp, ep⟩, _⟩ := vertex_bounds_attained e
      exact ⟨p, List.mem_flatten.mpr ⟨l, hl, hp⟩, by rw [ep, e2]⟩
    · obtain ⟨l, hl, e⟩ := hmem b3 hb3
      obtain ⟨_, _, ⟨p, hp, ep⟩, _⟩ := vertex_bounds_attained e
      exact ⟨p, List.mem_flatten.mpr ⟨l, hl, hp⟩, by rw [ep, e3]⟩
    · obtain ⟨l, hl, e⟩ := hmem b4 hb4
      obtain ⟨_, _, _, ⟨p, hp, ep⟩⟩ := vertex_bounds_attained e
      exact ⟨p, List.mem_flatten.mpr ⟨l, hl, hp⟩, by rw [ep, e4]⟩
  have hne : ls.flatten ≠ [] := by
    obtain ⟨_, ⟨p, hp, _⟩, _⟩ := hI
    exact List.ne_nil_of_mem hp
  obtain ⟨c, hc⟩ := bboxOf_isSome hne
  rw [hc, isBBox_unique (bboxOf_isBBox hc) hI]

/-! ### rectangle from bounds -/

/-- the normalising constructor is the identity on canonical coordinates -/
theorem normalize_id_in_range {lon lat : Rat} (h1 : -180 ≤ lon) (h2 : lon < 180) (h3 : -90 ≤ lat) (h4 : lat ≤ 90) :
    normalize true lon lat = (lon, lat) := by
  unfold normalize
  have hl : latLoop (fuelLat lat) lon lat = (lon, lat) := by
    unfold fuelLat; rw [latLoop]; simp [h3, h4]
  simp only [if_true, hl]
  have hl2 : lonLoop (fuelLon lon) lon = lon := by
    unfold fuelLon; rw [lonLoop]; simp [h1, le_of_lt h2]
  rw [hl2, if_neg (ne_of_lt h2)]

/-- **the circumscribing rectangle has exactly the shape's bounds** (bounds inside the coordinate range, as
    the bounds of stored coordinates always are: longitudes in `[-180, 180)`) -/
theorem rect_from_bounds_has_bounds (b : BBox) (h1 : -180 ≤ b.1) (h2 : b.1 < 180) (h3 : -180 ≤ b.2.2.1)
    (h4 : b.2.2.1 < 180) (h5 : -90 ≤ b.2.1) (h6 : b.2.1 ≤ 90) (h7 : -90 ≤ b.2.2.2) (h8 : b.2.2.2 ≤ 90) :
    rectBounds b = b := by
  unfold rectBounds rectFromBounds boxBounds
  rw [normalize_id_in_range h1 h2 h7 h8, normalize_id_in_range h3 h4 h5 h6]

example : rectBounds (179, -10, -179, 10) = (179, -10, -179, 10) :=
  rect_from_bounds_has_bounds _ (by norm_num) (by norm_num) (by norm_num) (by norm_num) (by norm_num)
    (by norm_num) (by norm_num) (by norm_num)

example : bboxOf [(1, 5), (-3, 2), (4, -1)] = some (-3, -1, 4, 5) := by decide +kernel

/-! ## circumscribing circles (geodesy model at `ℝ`) -/

section circles
open Real GV.Sphere GV.RealGeo GV.SphereBridge GV.NumReal GV.C07 GV.C03 GV.Welzl

theorem pyMax_step_real (m y : ℝ) : (if Num.lt m y then y else m) = max m y := by
  num_simp
  by_cases h : m < y
  · rw [if_pos h, max_eq_right h.le]
  · rw [if_neg h, max_eq_left (not_lt.mp h)]

theorem foldl_max_ge (xs : List ℝ) : ∀ m : ℝ,
    m ≤ xs.foldl (fun m y => if Num.lt m y then y else m) m ∧
    (∀ x ∈ xs, x ≤ xs.foldl (fun m y => if Num.lt m y then y else m) m) ∧
    (xs.foldl (fun m y => if Num.lt m y then y else m) m = m ∨
      xs.foldl (fun m y => if Num.lt m y then y else m) m ∈ xs) := by
  induction xs with
  | nil => intro m; simp
  | cons x xs ih =>
    intro m
    simp only [List.foldl_cons, pyMax_step_real]
    obtain ⟨h1, h2, h3⟩ := ih (max m x)
    simp only [pyMax_step_real] at h1 h2 h3
    refine ⟨le_trans (le_max_left _ _) h1, ?_, ?_⟩
    · intro y hy
      rcases List.mem_cons.mp hy with rfl | hy
      · exact le_trans (le_max_right _ _) h1
      · exact h2 y hy
    · rcases h3 with h3 | h3
      · rcases max_choice m x with hm | hm
        · left; rw [h3, hm]
        · right; rw [h3, hm]; exact List.mem_cons_self
      · right; exact List.mem_cons_of_mem _ h3

/-- Python's `max` over a list returns an upper bound of the list … -/
theorem pyMax_ge {l : List ℝ} {m : ℝ} (h : pyMax l = some m) : ∀ x ∈ l, x ≤ m := by
  cases l with
  | nil => simp [pyMax] at h
  | cons a as =>
    simp only [pyMax, Option.some.injEq] at h
    obtain ⟨h1, h2, _⟩ := foldl_max_ge as a
    intro x hx
    rcases List.mem_cons.mp hx with rfl | hx
    · rw [← h]; exact h1
    · rw [← h]; exact h2 x hx

/-- … that is one of its elements -/
theorem pyMax_mem {l : List ℝ} {m : ℝ} (h : pyMax l = some m) : m ∈ l := by
  cases l with
  | nil => simp [pyMax] at h
  | cons a as =>
    simp only [pyMax, Option.some.injEq] at h
    obtain ⟨_, _, h3⟩ := foldl_max_ge as a
    rw [← h]
    rcases h3 with h3 | h3
    · rw [h3]; exact List.mem_cons_self
    · exact List.mem_cons_of_mem _ h3

/-- **"centroid + farthest vertex" circles enclose every listed vertex** — for *any* distance function and
    *any* centroid (`GeoLineString`, the three multi-shapes, the wedge) -/
theorem centroid_max_circle_encloses (dist : RC → RC → ℝ) (c : RC) (vs : List RC) (r : ℝ)
    (h : maxDistRadius dist c vs = some r) : ∀ v ∈ vs, dist v c ≤ r := by
  intro v hv
  unfold maxDistRadius at h
  exact pyMax_ge h _ (List.mem_map_of_mem (f := fun v => dist v c) hv)

/-- … and the radius is attained: the circle is the smallest one about that centroid -/
theorem centroid_max_circle_tight (dist : RC → RC → ℝ) (c : RC) (vs : List RC) (r : ℝ)
    (h : maxDistRadius dist c vs = some r) : ∃ v ∈ vs, dist v c = r := by
  unfold maxDistRadius at h
  obtain ⟨v, hv, e⟩ := List.mem_map.mp (pyMax_mem h)
  exact ⟨v, hv, e⟩

/-- **the circle `(centre, semi_major)` encloses every generated vertex of the ellipse** -/
theorem ellipse_circle_encloses {R : ℝ} (hR : 0 < R) (c : RC) (a b rot : ℝ) (k : Nat) (hlat : |c.2| ≤ 90)
    (hb : 0 < b) (hab : b ≤ a) (ha : a ≤ π * R) :
    ∀ p ∈ ellipseRingRaw R c a b rot k, haversine R (ellipseCircle c a b).1 p ≤ (ellipseCircle c a b).2 := by
  intro p hp
  obtain ⟨i, _, e⟩ := ellipseRing_on_curve hR c a b rot k hlat hb hab ha p hp
  show haversine R c p ≤ a
  rw [e]; exact radiusAtAngle_le_major hb hab _

/-- **the circle `(centre, outer_radius)` encloses every generated vertex of a ring / wedge** -/
theorem ring_circle_encloses {R : ℝ} (hR : 0 < R) (c : RC) (inner outer amin amax : ℝ) (k : Nat)
    (hlat : |c.2| ≤ 90) (hi : 0 ≤ inner) (hio : inner ≤ outer) (ho : outer ≤ π * R) :
    ∀ p ∈ wedgeRingRaw R c inner outer amin amax k,
      haversine R (ringCircle c inner outer).1 p ≤ (ringCircle c inner outer).2 := by
  obtain ⟨h1, h2⟩ := ringArcs_on_radii hR c inner outer amin amax k hlat hi hio ho
  intro p hp
  show haversine R c p ≤ outer
  rw [wedgeRing_shape] at hp
  split at hp
  · rw [h1 p hp]
  · simp only [List.mem_append, List.mem_reverse] at hp
    rcases hp with (hp | hp) | hp
    · rw [h1 p hp]
    · rw [h2 p hp]; exact hio
    · rw [h1 p (List.mem_of_mem_take hp)]

/-- a circle is its own circumscribing circle: every generated vertex is at distance `radius` -/
theorem circle_circle_encloses {R : ℝ} (hR : 0 < R) (c : RC) (r : ℝ) (k : Nat) (hlat : |c.2| ≤ 90)
    (h0 : 0 ≤ r) (h1 : r ≤ π * R) : ∀ p ∈ circleRingRaw R c r k, haversine R c p ≤ r := by
  intro p hp; rw [circleRing_on_circle hR c r k hlat h0 h1 p hp]

theorem normCoord_id {lon lat : ℝ} (h1 : -180 ≤ lon) (h2 : lon < 180) (h3 : -90 ≤ lat) (h4 : lat ≤ 90) :
    normCoord 4 ((lon, lat) : RC) = (lon, lat) := by
  unfold normCoord
  have hl : Sphere.latLoop 4 lon lat = (lon, lat) := by
    rw [Sphere.latLoop]; num_simp; simp [h3, h4]
  simp only [hl]
  have hl2 : Sphere.lonLoop 4 lon = lon := by
    rw [Sphere.lonLoop]; num_simp; simp [h1, h2.le]
  rw [hl2]; num_simp
  rw [if_neg]; intro h; linarith [h.1]

/-- **the box circle passes through both northern corners** (un-rounded centroid): the radius is the distance
    to the NW corner and the NE corner is exactly as far.

    The full statement "all four corners are within the radius" is *false* off the equator in the northern
    hemisphere (F09a, known finding `GeoBox.circumscribing_circle/vertex-outside`): the southern corners lie
    on a longer parallel and are farther from the centroid; the harness reports them. -/
theorem box_circle_partial (R : ℝ) (w e s n : ℝ) (h1 : -180 ≤ w) (h2 : w ≤ e) (h3 : e < 180)
    (h4 : -90 ≤ s) (h5 : s ≤ n) (h6 : n ≤ 90) :
    (boxCircle id R (w, n) (e, s)).1 = ((w + e) / 2, (n + s) / 2) ∧
    haversine R (w, n) (boxCircle id R (w, n) (e, s)).1 = (boxCircle id R (w, n) (e, s)).2 ∧
    haversine R (e, n) (boxCircle id R (w, n) (e, s)).1 = (boxCircle id R (w, n) (e, s)).2 := by
  have hc : (boxCircle id R (w, n) (e, s)).1 = ((w + e) / 2, (n + s) / 2) := by
    unfold boxCircle
    simp only [id]
    num_simp
    exact normCoord_id (by linarith) (by linarith) (by linarith) (by linarith)
  refine ⟨hc, ?_, ?_⟩
  · unfold boxCircle; rfl
  · have hr : (boxCircle id R (w, n) (e, s)).2 = haversine R (w, n) (boxCircle id R (w, n) (e, s)).1 := by
      unfold boxCircle; rfl
    rw [hr, hc, hav_ensure_irrelevant, hav_ensure_irrelevant, havCore_real, havCore_real]
    have : havT (radians n) (radians ((n + s) / 2)) (radians ((w + e) / 2) - radians e)
        = havT (radians n) (radians ((n + s) / 2)) (radians ((w + e) / 2) - radians w) := by
      unfold havT
      have hs : sin ((radians ((w + e) / 2) - radians e) / 2) = - sin ((radians ((w + e) / 2) - radians w) / 2) := by
        rw [← sin_neg]; congr 1; simp only [radians_real]; ring
      rw [hs]; ring
    simp only [this]

end circles

/-! ## Welzl's algorithm with an explicit sequence of random draws -/

section welzl
open GV.Welzl
variable {P C : Type} (triv : List P → Option C) (covers : C → P → Bool)

theorem mem_eraseIdx_or {l : List P} {i : Nat} {p : P} (h : p ∈ l.eraseIdx i) : p ∈ l :=
  List.mem_of_mem_eraseIdx h

/-- **whatever the random draws, the result is the trivial circle of a support list `S`** that extends the
    known points by points of the input, with at most three elements -/
theorem welzl_support : ∀ (n : Nat) (pts known : List P) (cs : List Nat) (D : Option C) (rest : List Nat),
    pts.length = n → known.length ≤ 3 → welzl triv covers pts known cs = .ok (D, rest) →
    ∃ S : List P, D = triv S ∧ known <+: S ∧ S.length ≤ 3 ∧ ∀ p ∈ S, p ∈ known ∨ p ∈ pts := by
  intro n
  induction n with
  | zero =>
    intro pts known cs D rest hn hk h
    rw [welzl.eq_def] at h
    by_cases h3 : known.length = 3
    · simp only [h3, if_true, Except.ok.injEq, Prod.mk.injEq] at h
      exact ⟨known, h.1.symm, List.prefix_refl _, hk, fun p hp => Or.inl hp⟩
    · simp only [h3, if_false, hn, dite_true, Except.ok.injEq, Prod.mk.injEq] at h
      exact ⟨known, h.1.symm, List.prefix_refl _, hk, fun p hp => Or.inl hp⟩
  | succ n ih =>
    intro pts known cs D rest hn hk h
    rw [welzl.eq_def] at h
    by_cases h3 : known.length = 3
    · simp only [h3, if_true, Except.ok.injEq, Prod.mk.injEq] at h
      exact ⟨known, h.1.symm, List.prefix_refl _, hk, fun p hp => Or.inl hp⟩
    · have hp0 : ¬ pts.length = 0 := by omega
      simp only [h3, if_false, hp0, dite_false] at h
      cases cs with
      | nil => simp at h
      | cons i cs' =>
        simp only at h
        by_cases hi : i < pts.length
        · simp only [hi, dite_true] at h
          have hlen : (pts.eraseIdx i).length = n := by rw [List.length_eraseIdx, if_pos hi]; omega
          have hk' : (known ++ [pts[i]]).length ≤ 3 := by simp; omega
          -- the second recursive call, common to two branches
          have second : ∀ cs2, welzl triv covers (pts.eraseIdx i) (known ++ [pts[i]]) cs2 = .ok (D, rest) →
              ∃ S : List P, D = triv S ∧ known <+: S ∧ S.length ≤ 3 ∧ ∀ p ∈ S, p ∈ known ∨ p ∈ pts := by
            intro cs2 h2
            obtain ⟨S, e, hpre, hl, hm⟩ := ih _ _ _ _ _ hlen hk' h2
            refine ⟨S, e, (List.prefix_append _ _).trans hpre, hl, fun p hp => ?_⟩
            rcases hm p hp with hm | hm
            · rcases List.mem_append.mp hm with hm | hm
              · exact Or.inl hm
              · right; have : p = pts[i] := by simpa using hm
                rw [this]; exact List.getElem_mem hi
            · exact Or.inr (List.mem_of_mem_eraseIdx hm)
          cases hrec : welzl triv covers (pts.eraseIdx i) known cs' with
          | error e => rw [hrec] at h; simp at h
          | ok r =>
            obtain ⟨D1, cs2⟩ := r
            rw [hrec] at h
            cases D1 with
            | none => simp only at h; exact second cs2 h
            | some d =>
              simp only at h
              by_cases hc : covers d pts[i] = true
              · simp only [hc, if_true, Except.ok.injEq, Prod.mk.injEq] at h
                obtain ⟨S, e, hpre, hl, hm⟩ := ih _ _ _ _ _ hlen hk hrec
                refine ⟨S, by rw [← h.1]; exact e, hpre, hl, fun p hp => ?_⟩
                rcases hm p hp with hm | hm
                · exact Or.inl hm
                · exact Or.inr (List.mem_of_mem_eraseIdx hm)
              · simp only [hc] at h; exact second cs2 h
        · simp [hi] at h

/-- **Welzl's lemma, stated abstractly** for a pair `mb` ("the smallest circle enclosing `Ps` with `R` on its
    boundary") and `Inv` ("such a circle exists").  This is the geometric content that is **not proved** here
    (on the sphere, with the implementation's `circumscribing_circle_for_triangle` as `triv`). -/
structure WelzlLemma (Inv : List P → List P → Prop) (mb : List P → List P → Option C) : Prop where
  base : ∀ R, Inv [] R → mb [] R = triv R
  full : ∀ Ps R, Inv Ps R → R.length = 3 → mb Ps R = triv R
  inv_erase : ∀ (Ps R : List P) (i : Nat), i < Ps.length → Inv Ps R → Inv (Ps.eraseIdx i) R
  keep : ∀ (Ps R : List P) (i : Nat) (h : i < Ps.length) (d : C), Inv Ps R → R.length < 3 →
    mb (Ps.eraseIdx i) R = some d → covers d Ps[i] = true → mb Ps R = some d
  push : ∀ (Ps R : List P) (i : Nat) (h : i < Ps.length), Inv Ps R → R.length < 3 →
    (mb (Ps.eraseIdx i) R = none ∨ ∃ d, mb (Ps.eraseIdx i) R = some d ∧ covers d Ps[i] = false) →
    Inv (Ps.eraseIdx i) (R ++ [Ps[i]]) ∧ mb Ps R = mb (Ps.eraseIdx i) (R ++ [Ps[i]])

variable {triv covers}

/-- **assuming Welzl's lemma, every run that completes returns `mb pts known`** -/
theorem welzl_eq_spec_of_lemma {Inv : List P → List P → Prop} {mb : List P → List P → Option C}
    (L : WelzlLemma triv covers Inv mb) : ∀ (n : Nat) (pts known : List P) (cs : List Nat) (D : Option C)
    (rest : List Nat), pts.length = n → known.length ≤ 3 → Inv pts known →
    welzl triv covers pts known cs = .ok (D, rest) → D = mb pts known := by
  intro n
  induction n with
  | zero =>
    intro pts known cs D rest hn hk hI h
    have hnil : pts = [] := List.length_eq_zero_iff.mp hn
    subst hnil
    rw [welzl.eq_def] at h
    by_cases h3 : known.length = 3
    · simp only [h3, if_true, Except.ok.injEq, Prod.mk.injEq] at h
      rw [← h.1, L.full _ _ hI h3]
    · simp only [h3, if_false, List.length_nil, dite_true, Except.ok.injEq, Prod.mk.injEq] at h
      rw [← h.1, L.base _ hI]
  | succ n ih =>
    intro pts known cs D rest hn hk hI h
    rw [welzl.eq_def] at h
    by_cases h3 : known.length = 3
    · simp only [h3, if_true, Except.ok.injEq, Prod.mk.injEq] at h
      rw [← h.1, L.full _ _ hI h3]
    · have hp0 : ¬ pts.length = 0 := by omega
      have hlt : known.length < 3 := by omega
      simp only [h3, if_false, hp0, dite_false] at h
      cases cs with
      | nil => simp at h
      | cons i cs' =>
        simp only at h
        by_cases hi : i < pts.length
        · simp only [hi, dite_true] at h
          have hlen : (pts.eraseIdx i).length = n := by rw [List.length_eraseIdx, if_pos hi]; omega
          have hk' : (known ++ [pts[i]]).length ≤ 3 := by simp; omega
          have hI' := L.inv_erase pts known i hi hI
          cases hrec : welzl triv covers (pts.eraseIdx i) known cs' with
          | error e => rw [hrec] at h; simp at h
          | ok r =>
            obtain ⟨D1, cs2⟩ := r
            rw [hrec] at h
            have hD1 := ih _ _ _ _ _ hlen hk hI' hrec
            cases D1 with
            | none =>
              simp only at h
              obtain ⟨hI2, e2⟩ := L.push pts known i hi hI hlt (Or.inl hD1.symm)
              rw [e2]; exact ih _ _ _ _ _ hlen hk' hI2 h
            | some d =>
              simp only at h
              by_cases hc : covers d pts[i] = true
              · simp only [hc, if_true, Except.ok.injEq, Prod.mk.injEq] at h
                rw [← h.1, L.keep pts known i hi d hI hlt hD1.symm hc]
              · simp only [hc] at h
                have hcf : covers d pts[i] = false := by simpa using hc
                obtain ⟨hI2, e2⟩ := L.push pts known i hi hI hlt (Or.inr ⟨d, hD1.symm, hcf⟩)
                rw [e2]; exact ih _ _ _ _ _ hlen hk' hI2 h
        · simp [hi] at h

/-- **… hence the circle does not depend on the random draws** (seed independence, conditional on the lemma) -/
theorem welzl_seed_independent_of_lemma {Inv : List P → List P → Prop} {mb : List P → List P → Option C}
    (L : WelzlLemma triv covers Inv mb) (pts : List P) (hI : Inv pts []) (cs1 cs2 : List Nat)
    (D1 D2 : Option C) (r1 r2 : List Nat)
    (h1 : welzl triv covers pts [] cs1 = .ok (D1, r1)) (h2 : welzl triv covers pts [] cs2 = .ok (D2, r2)) :
    D1 = D2 := by
  rw [welzl_eq_spec_of_lemma L _ pts [] cs1 D1 r1 rfl (by simp) hI h1,
    welzl_eq_spec_of_lemma L _ pts [] cs2 D2 r2 rfl (by simp) hI h2]

/-- **… and encloses every point**, given that `mb` does (the defining property of "smallest enclosing circle") -/
theorem welzl_encloses_of_lemma {Inv : List P → List P → Prop} {mb : List P → List P → Option C}
    (L : WelzlLemma triv covers Inv mb)
    (hencl : ∀ Ps R d, Inv Ps R → mb Ps R = some d → ∀ p ∈ Ps, covers d p = true)
    (pts : List P) (hI : Inv pts []) (cs : List Nat) (d : C) (rest : List Nat)
    (h : welzl triv covers pts [] cs = .ok (some d, rest)) : ∀ p ∈ pts, covers d p = true :=
  hencl pts [] d hI (welzl_eq_spec_of_lemma L _ pts [] cs (some d) rest rfl (by simp) hI h).symm

/-- the hypotheses of the conditional theorems are consistent (a degenerate instance: one circle that covers
    everything); a geometric instance is exactly Welzl's lemma and is not proved -/
example : WelzlLemma (P := Nat) (C := Nat) (fun R => some R.length) (fun _ _ => true) (fun _ _ => True)
    (fun _ R => some R.length) where
  base := fun _ _ => rfl
  full := fun _ _ _ _ => rfl
  inv_erase := fun _ _ _ _ _ => trivial
  keep := fun _ _ _ _ _ _ _ h _ => h
  push := fun _ _ _ _ _ _ h => by rcases h with h | ⟨d, _, h⟩ <;> simp at h

/-- a concrete run (no points left: the trivial circle of the known points) -/
example : welzl (P := Nat) (C := List Nat) (fun R => some R) (fun d p => d.contains p) [] [10, 20] [5]
    = .ok (some [10, 20], [5]) := by
  rw [welzl.eq_def]; simp

end welzl

end GV.C09
