import GeoVerif.Props.C04Src
import GeoVerif.Props.C05Src
/-!
# The public relations of a multi-shape: the translated gates of `BaseShapeProtocol` over the translated member loops

`multi.contains(x)`, `x in multi`, `multi.intersects(x)` are `BaseShapeProtocol.contains` / `__contains__` / `intersects`
(`Gen/SrcBase.lean`, C05) calling `MultiShapeBase.contains_coordinate` / `contains_shape` / `intersects_shape`
(`Gen/SrcMulti.lean`).  Here the two translated units are composed — the world handed to the gates answers the three
spatial methods of a multi-shape receiver with the *translated* loops — and the C04 laws are stated for the composition:
the public relation is the time gate and the union over the members.
-/
namespace GV.C04Src
open GV GV.Multi GV.ST

variable {τ κ : Type}

/-- single shapes and multi-shapes over one member type; the member-level relations `rc rs ri` and the time bounds `dt`
    are arbitrary.  A multi-shape receiver answers with the translated loops of `MultiShapeBase`, a single receiver with
    the member-level relation (against a multi-shape argument: the loops of `structures.py`, `Props/C02Src.lean`). -/
def multiWorld (dt : Arg τ → Option TI) (rc : τ → κ → Bool) (rs ri : τ → τ → Bool) (bnd : τ → Box) : World (Arg τ) κ where
  dt := dt
  containsCoord s c :=
    match s with
    | .single x => rc x c
    | .multi ms => Src.Multi.containsCoord rc rs ri bnd ms c
  containsShape s t :=
    match s, t with
    | .multi ms, .single x => Src.Multi.containsSingle rc rs ri bnd ms x
    | .multi ms, .multi ys => Src.Multi.containsMulti rc rs ri bnd ms ys
    | .single x, .single y => rs x y
    | .single x, .multi ys => singleContainsMulti rs x ys
  intersectsShape s t :=
    match s, t with
    | .multi ms, .single x => Src.Multi.intersectsSingle rc rs ri bnd ms x
    | .multi ms, .multi ys => Src.Multi.intersectsMulti rc rs ri bnd ms ys
    | .single x, .single y => ri x y
    | .single x, .multi ys => singleIntersectsMulti ri x ys

/-- the time gate of `intersects`: only two time-bounded shapes are compared in time -/
def gateI (a b : Option TI) : Prop :=
  match a, b with
  | some da, some db => da.intersects db = true
  | _, _ => True

/-- the time gate of `contains` -/
def gateC (a b : Option TI) : Prop :=
  match a, b with
  | some da, some db => da.containsTI db = true
  | _, _ => True

variable (dt : Arg τ → Option TI) (rc : τ → κ → Bool) (rs ri : τ → τ → Bool) (bnd : τ → Box)

/-- **`multi.intersects(x)`** (source of the gate ∘ source of the loops): the time bounds intersect (when both shapes have
    some) and some member intersects some part of `x` -/
theorem src_multi_intersects (ms : List τ) (t : Arg τ) :
    Src.Base.intersects (multiWorld dt rc rs ri bnd) (.multi ms) t = true ↔
      gateI (dt (.multi ms)) (dt t) ∧ ∃ m ∈ ms, ∃ p ∈ t.parts, ri m p = true := by
  rw [GV.C05Src.src_intersects_eq, ← src_intersects_iff rc rs ri bnd ms t]
  unfold gateI
  cases t <;> simp only [multiWorld] <;> cases dt (.multi ms) <;> (try cases dt _) <;> simp

/-- **`multi.contains(x)`**: the receiver's time bounds include the argument's and every part of `x` is contained by some
    member -/
theorem src_multi_contains (ms : List τ) (t : Arg τ) :
    Src.Base.containsShape (multiWorld dt rc rs ri bnd) (.multi ms) t = true ↔
      gateC (dt (.multi ms)) (dt t) ∧ ∀ p ∈ t.parts, ∃ m ∈ ms, rs m p = true := by
  rw [GV.C05Src.src_contains_eq, ← src_contains_iff rc rs ri bnd ms t]
  unfold gateC
  cases t <;> simp only [multiWorld] <;> cases dt (.multi ms) <;> (try cases dt _) <;> simp

/-- **`x in multi`** is `multi.contains(x)` -/
theorem src_multi_dunder_contains (ms : List τ) (t : Arg τ) :
    Src.Base.dunderContainsShape (multiWorld dt rc rs ri bnd) (.multi ms) t = true ↔
      gateC (dt (.multi ms)) (dt t) ∧ ∀ p ∈ t.parts, ∃ m ∈ ms, rs m p = true := by
  rw [GV.C05Src.dunderContainsShape_eq, World.dunderContains, ← GV.C05Src.containsShape_eq]
  exact src_multi_contains dt rc rs ri bnd ms t

/-- **`multi.contains(coordinate)`** / `coordinate in multi`: no time gate; some member contains the coordinate -/
theorem src_multi_contains_coord (ms : List τ) (c : κ) :
    (Src.Base.containsCoord (multiWorld dt rc rs ri bnd) (.multi ms) c = true ↔ ∃ m ∈ ms, rc m c = true) ∧
    (Src.Base.dunderContainsCoord (multiWorld dt rc rs ri bnd) (.multi ms) c = true ↔ ∃ m ∈ ms, rc m c = true) := by
  rw [GV.C05Src.dunderContainsCoord_eq, World.dunderContains, GV.C05Src.containsCoord_eq]
  simp only [World.contains, multiWorld, and_self]
  exact src_containsCoord_iff rc rs ri bnd ms c

/-- non-vacuity: two time-bounded shapes whose bounds do not meet are unrelated although a member intersects; without time
    bounds the same shapes intersect -/
example :
    let dtA : Arg Nat → Option TI := fun s => match s with | .multi _ => some ⟨0, 1⟩ | .single _ => some ⟨5, 6⟩
    let dtN : Arg Nat → Option TI := fun _ => none
    let ri : Nat → Nat → Bool := fun m x => m == x
    Src.Base.intersects (multiWorld (κ := Nat) dtA (fun _ _ => false) (fun _ _ => false) ri (fun _ => (0, 0, 0, 0)))
        (.multi [1, 2]) (.single 2) = false ∧
      Src.Base.intersects (multiWorld (κ := Nat) dtN (fun _ _ => false) (fun _ _ => false) ri (fun _ => (0, 0, 0, 0)))
        (.multi [1, 2]) (.single 2) = true := by
  decide

end GV.C04Src
