import GeoVerif.Lemmas.Wkt
import GeoVerif.Lemmas.WktText
import GeoVerif.Gen.WktMap
/-!
# C13 — WKT round-trips

All theorems are about the model `GeoVerif/Model/Wkt.lean` and hold for **every** float type `F` with
`rd (shw x) = some x` (CPython's `float(str(x)) == x`, trusted), every shape and every list length.

Well-formedness `Geo.wf` (decidable, evaluated by the driver on every generated shape): every coordinate is
in range (it went through `Coordinate.__init__`), has no M without a Z, all coordinates have the same
dimension, rings are closed, shells and holes are counter-clockwise as the `GeoPolygon` constructor leaves
them, every hole has a non-zero shoelace sum, linestrings have two points, multi-shapes one part.

* `point/linestring/polygon/multipoint/multilinestring/multipolygon_roundtrip`, `roundtrip`:
  `fromWkt (toWkt g) = ok g` — the reader gives back the *identical* shape …
* `roundtrip_libEq`, `libEq_refl`: … which is therefore equal under the library's `__eq__`
* `nonsimple_writes_polygon_form`: box / circle / ellipse / wedge write the WKT of their polygon form
* `ringfull_reads_same_rings`: the full ring's override and its polygon form have the same rings, the
  polygon form repeating each circle's closing vertex
* `dispatch_total`, `dispatch_unknown`, `dispatch_lowercase`, `parserMap_standard`: `parse_wkt`
* `z_preserved`: Z values (0.0 included) come back
* `isCCW_reverse`: the lemma behind the hole reversal
* `zero_area_hole_counterexample`, `m_only_counterexample`: why the two exclusions are needed
* text level: `text_roundtrip` (`lenientParse (render w) = some w`), `emitted_toWkt`, and the end-to-end
  statements `readAs_render`, `parseWkt_render` (`parse_wkt(shape.to_wkt())` gives the shape back)
-/
namespace GV.Wkt
open GV

section Main
variable {F : Type} (io : NumIO F)

/-- `isCCW r.reverse = !isCCW r` for a ring of non-zero shoelace sum with longitudes in [-180, 180] -/
theorem isCCW_reverse (r : List (Coord F)) (hwf : ∀ c ∈ r, c.wf io = true)
    (hz : GV.shoelace (r.map (Coord.pt io)) ≠ 0) :
    GV.isCCW (r.reverse.map (Coord.pt io)) = !GV.isCCW (r.map (Coord.pt io)) := by
  rw [List.map_reverse]
  refine isCCW_reverse_pts _ ?_ hz
  intro p hp
  obtain ⟨c, hc, rfl⟩ := List.mem_map.1 hp
  exact Coord.lonOk io (hwf c hc)

/-- the dimension every coordinate of a well-formed shape has -/
def dimOf (g : Geo F) : Nat :=
  match g.coords with
  | c :: _ => c.dim
  | [] => 2

theorem uniform_dim {g : Geo F} (h : g.uniform = true) : ∀ c ∈ g.coords, c.dim = dimOf g := by
  unfold Geo.uniform at h
  unfold dimOf
  cases hc : g.coords with
  | nil => simp [hc] at h
  | cons a t =>
    simp only [hc, List.all_eq_true, beq_iff_eq] at h
    intro c hm
    rcases List.mem_cons.1 hm with rfl | hm
    · rfl
    · exact h c hm

theorem wf_iff (g : Geo F) : g.wf io = true ↔ g.wfParts io = true ∧ g.uniform = true := by
  simp [Geo.wf]

theorem dims_ring (r : List (Coord F)) :
    ((ringToks io r).head?.map List.length) = r.head?.map Coord.dim := by
  cases r with
  | nil => rfl
  | cons a t => simp [ringToks, toks_length]

variable (hio : ∀ x, io.rd (io.shw x) = some x)
include hio

/-! ## round trips (assembly level) -/

theorem point_roundtrip (c : Coord F) (h : (Geo.point c).wf io = true) :
    fromWkt io (toWkt io (.point c)) = .ok (.point c) := by
  obtain ⟨hp, _⟩ := (wf_iff io _).1 h
  have hc : c.wf io = true := hp
  have := parseRing_toks io hio (toWkt io (.point c)) [c] 1 false c.dim rfl
    (by simp [toWkt, Body.dims, Body.firstCoord, toks_length])
    (by simpa using hc) (by simp) (by simp) (by simp)
  simp only [ringToks, List.map_cons, List.map_nil] at this
  simp only [fromWkt, toWkt]
  rw [show parseRing io ⟨[], Body.point (Coord.toks io c)⟩ [Coord.toks io c] =
    parseRing io ⟨[], Body.point (Coord.toks io c)⟩ [Coord.toks io c] 1 false from rfl]
  simp only [toWkt] at this
  rw [this]

theorem linestring_roundtrip (vs : List (Coord F)) (h : (Geo.linestring vs).wf io = true) :
    fromWkt io (toWkt io (.linestring vs)) = .ok (.linestring vs) := by
  obtain ⟨hp, hu⟩ := (wf_iff io _).1 h
  simp only [Geo.wfParts, Bool.and_eq_true, List.all_eq_true, decide_eq_true_eq] at hp
  obtain ⟨hwf, hlen⟩ := hp
  have hd := uniform_dim hu
  have hfirst : (toWkt io (.linestring vs)).body.dims = dimOf (.linestring vs) := by
    cases vs with
    | nil => simp at hlen
    | cons a t => simp [toWkt, Body.dims, Body.firstCoord, ringToks, toks_length, dimOf, Geo.coords]
  have := parseRing_toks io hio (toWkt io (.linestring vs)) vs 2 false _ rfl hfirst hwf hd hlen (by simp)
  simp only [fromWkt, toWkt] at this ⊢
  rw [this]; rfl

theorem multipoint_roundtrip (cs : List (Coord F)) (h : (Geo.multipoint cs).wf io = true) :
    fromWkt io (toWkt io (.multipoint cs)) = .ok (.multipoint cs) := by
  obtain ⟨hp, hu⟩ := (wf_iff io _).1 h
  simp only [Geo.wfParts, Bool.and_eq_true, List.all_eq_true] at hp
  obtain ⟨hwf, hne⟩ := hp
  have hd := uniform_dim hu
  have hfirst : (toWkt io (.multipoint cs)).body.dims = dimOf (.multipoint cs) := by
    cases cs with
    | nil => simp at hne
    | cons a t => simp [toWkt, Body.dims, Body.firstCoord, ringToks, toks_length, dimOf, Geo.coords]
  have hlen : 1 ≤ cs.length := by
    cases cs with
    | nil => simp at hne
    | cons a t => simp
  have := parseRing_toks io hio (toWkt io (.multipoint cs)) cs 1 false _ rfl hfirst hwf hd hlen (by simp)
  simp only [fromWkt, toWkt] at this ⊢
  rw [show parseRing io ⟨[], Body.multipoint (ringToks io cs)⟩ (ringToks io cs) =
    parseRing io ⟨[], Body.multipoint (ringToks io cs)⟩ (ringToks io cs) 1 false from rfl, this]
  rfl

theorem multilinestring_roundtrip (ls : List (List (Coord F)))
    (h : (Geo.multilinestring ls).wf io = true) :
    fromWkt io (toWkt io (.multilinestring ls)) = .ok (.multilinestring ls) := by
  obtain ⟨hp, hu⟩ := (wf_iff io _).1 h
  simp only [Geo.wfParts, Bool.and_eq_true, List.all_eq_true, decide_eq_true_eq] at hp
  obtain ⟨hall, hne⟩ := hp
  have hd := uniform_dim hu
  have hfirst : (toWkt io (.multilinestring ls)).body.dims = dimOf (.multilinestring ls) := by
    cases ls with
    | nil => simp at hne
    | cons l t =>
      have hl := (hall l (by simp)).2
      cases l with
      | nil => simp at hl
      | cons a u => simp [toWkt, Body.dims, Body.firstCoord, ringToks, toks_length, dimOf, Geo.coords]
  have := mapE_map (fun l => parseRing io (toWkt io (.multilinestring ls)) l 2) (ringToks io) ls (by
    intro l hl
    refine parseRing_toks io hio _ l 2 false _ rfl hfirst (hall l hl).1 ?_ (hall l hl).2 (by simp)
    intro c hc
    exact hd c (by simp only [Geo.coords, List.mem_flatten]; exact ⟨l, hl, hc⟩))
  simp only [fromWkt, toWkt] at this ⊢
  rw [this]; rfl

theorem polygon_roundtrip (p : Poly F) (h : (Geo.polygon p).wf io = true) :
    fromWkt io (toWkt io (.polygon p)) = .ok (.polygon p) := by
  obtain ⟨hp, hu⟩ := (wf_iff io _).1 h
  have hpw : p.wf io = true := hp
  have hd := uniform_dim hu
  obtain ⟨hshell, _⟩ := (Poly.wf_iff io p).1 hpw
  obtain ⟨_, hsc, _⟩ := (shellWf_iff io p.outline).1 hshell
  have hne := closedRing_ne_nil io hsc
  have hfirst : (toWkt io (.polygon p)).body.dims = dimOf (.polygon p) := by
    cases ho : p.outline with
    | nil => exact absurd ho hne
    | cons a t =>
      simp [toWkt, Body.dims, Body.firstCoord, Poly.linearRings, ringToks, toks_length, dimOf,
        Geo.coords, Poly.coords, ho]
  have := polyFromRings_linearRings io hio (toWkt io (.polygon p)) p _ rfl hfirst hpw hd
  simp only [fromWkt, toWkt] at this ⊢
  rw [this]; rfl

theorem multipolygon_roundtrip (ps : List (Poly F)) (h : (Geo.multipolygon ps).wf io = true) :
    fromWkt io (toWkt io (.multipolygon ps)) = .ok (.multipolygon ps) := by
  obtain ⟨hp, hu⟩ := (wf_iff io _).1 h
  simp only [Geo.wfParts, Bool.and_eq_true, List.all_eq_true] at hp
  obtain ⟨hall, hne⟩ := hp
  have hd := uniform_dim hu
  have hfirst : (toWkt io (.multipolygon ps)).body.dims = dimOf (.multipolygon ps) := by
    cases ps with
    | nil => simp at hne
    | cons p t =>
      obtain ⟨hshell, _⟩ := (Poly.wf_iff io p).1 (hall p (by simp))
      obtain ⟨_, hsc, _⟩ := (shellWf_iff io p.outline).1 hshell
      have hne' := closedRing_ne_nil io hsc
      cases ho : p.outline with
      | nil => exact absurd ho hne'
      | cons a u =>
        simp [toWkt, Body.dims, Body.firstCoord, Poly.linearRings, ringToks, toks_length, dimOf,
          Geo.coords, Poly.coords, ho]
  have := mapE_map (polyFromRings io (toWkt io (.multipolygon ps)))
    (fun p : Poly F => p.linearRings.map (ringToks io)) ps (by
      intro p hpm
      refine polyFromRings_linearRings io hio _ p _ rfl hfirst (hall p hpm) ?_
      intro c hc
      refine hd c ?_
      simp only [Geo.coords, List.mem_flatten, List.mem_map]
      exact ⟨p.coords, ⟨p, hpm, rfl⟩, hc⟩)
  simp only [fromWkt, toWkt] at this ⊢
  rw [this]; rfl

/-- **round trip**: reading what was written gives the shape itself -/
theorem roundtrip (g : Geo F) (h : g.wf io = true) : fromWkt io (toWkt io g) = .ok g := by
  cases g with
  | point c => exact point_roundtrip io hio c h
  | linestring vs => exact linestring_roundtrip io hio vs h
  | polygon p => exact polygon_roundtrip io hio p h
  | multipoint cs => exact multipoint_roundtrip io hio cs h
  | multilinestring ls => exact multilinestring_roundtrip io hio ls h
  | multipolygon ps => exact multipolygon_roundtrip io hio ps h

/-- Z values come back, `0.0` included (F08b) -/
theorem z_preserved (g g' : Geo F) (h : g.wf io = true) (hr : fromWkt io (toWkt io g) = .ok g') :
    g'.coords.map (·.z) = g.coords.map (·.z) := by
  rw [roundtrip io hio g h] at hr
  cases hr; rfl

end Main

end GV.Wkt

namespace GV.Wkt
open GV

section Eq
variable {F : Type} (io : NumIO F)

theorem listEqv_refl (l : List (Coord F)) : listEqv io l l = true := by
  induction l with
  | nil => rfl
  | cons a t ih => simp [listEqv, eqv_refl, ih]

theorem all_any_refl {α : Type} (eq : α → α → Bool) (hr : ∀ x, eq x x = true) (l : List α) :
    l.all (fun x => l.any (eq x)) = true := by
  rw [List.all_eq_true]
  intro x hx
  rw [List.any_eq_true]
  exact ⟨x, hx, hr x⟩

theorem setEq_refl {α : Type} (eq : α → α → Bool) (hr : ∀ x, eq x x = true) (l : List α) :
    setEq eq l l = true := by
  simp [setEq, all_any_refl eq hr l]

theorem edgeSetEq_refl (e : List (Coord F × Coord F)) : edgeSetEq io e e = true := by
  have := all_any_refl (edgeEqv io) (fun x => by simp [edgeEqv, eqv_refl]) e
  simp [edgeSetEq, this]

theorem holeSetsEq_refl (hs : List (List (Coord F))) : holeSetsEq io hs hs = true := by
  have := all_any_refl (fun x y : List (Coord F) => edgeSetEq io (edgesOf x) (edgesOf y))
    (fun x => edgeSetEq_refl io _) hs
  simp [holeSetsEq, this]

theorem polyEq_refl (p : Poly F) : polyEq io p p = true := by
  have hloop : outlineLoop io (max (openOutline p.outline).length 1) (openOutline p.outline)
      (openOutline p.outline) = true := by
    obtain ⟨k, hk⟩ : ∃ k, max (openOutline p.outline).length 1 = k + 1 :=
      ⟨max (openOutline p.outline).length 1 - 1, by omega⟩
    rw [hk]
    simp [outlineLoop, listEqv_refl]
  unfold polyEq
  rw [hloop, holeSetsEq_refl]
  simp

/-- the library's `__eq__` is reflexive on every shape -/
theorem libEq_refl (g : Geo F) : libEq io g g = true := by
  cases g with
  | point c => exact eqv_refl io c
  | linestring vs => exact listEqv_refl io vs
  | polygon p => exact polyEq_refl io p
  | multipoint cs => exact setEq_refl _ (eqv_refl io) cs
  | multilinestring ls => exact setEq_refl _ (listEqv_refl io) ls
  | multipolygon ps => exact setEq_refl _ (polyEq_refl io) ps

/-- **round trip under the library's equality**: `Type.from_wkt(shape.to_wkt()) == shape` -/
theorem roundtrip_libEq (hio : ∀ x, io.rd (io.shw x) = some x) (g : Geo F) (h : g.wf io = true) :
    ∃ g', fromWkt io (toWkt io g) = .ok g' ∧ libEq io g' g = true :=
  ⟨g, roundtrip io hio g h, libEq_refl io g⟩

/-! ## shapes without a WKT type of their own -/

/-- box, circle, ellipse and wedge write exactly the WKT of their polygon form (their bounding
    coordinates are closed and counter-clockwise: the `GeoPolygon` constructor keeps them) -/
theorem nonsimple_writes_polygon_form (bc : List (Coord F)) (holes : List (List (Coord F)))
    (h : shellWf io bc = true) :
    toWktBounding io bc holes = toWkt io (.polygon (toPolygonBounding io bc holes)) := by
  simp [toWktBounding, toWkt, toPolygonBounding, mkOutline_shell io h]

end Eq

/-! ## `parse_wkt` -/

/-- the keyword table of `parsers.py` as regenerated from the source on this run -/
theorem parserMap_standard : GV.Wkt.Gen.parserMap =
    [("POINT", "GeoPoint"), ("LINESTRING", "GeoLineString"), ("POLYGON", "GeoPolygon"),
     ("MULTIPOINT", "MultiGeoPoint"), ("MULTILINESTRING", "MultiGeoLineString"),
     ("MULTIPOLYGON", "MultiGeoPolygon")] := by decide

/-- the same table with the classes replaced by the kind of shape their `from_wkt` builds -/
def stdMap : List (String × Kind) :=
  [("POINT", .point), ("LINESTRING", .linestring), ("POLYGON", .polygon),
   ("MULTIPOINT", .multipoint), ("MULTILINESTRING", .multilinestring), ("MULTIPOLYGON", .multipolygon)]

section Dispatch
variable {F : Type} (io : NumIO F)

/-- a known leading word selects that type's reader, anything else is a `ValueError` -/
theorem dispatch_total (map : List (String × Kind)) (text : String) :
    parseWkt io map text =
      match map.lookup (leadWord text) with
      | some k => readAs io k text
      | none => .error "ERR:Value" := by
  unfold parseWkt; rfl

theorem dispatch_unknown (map : List (String × Kind)) (text : String)
    (h : ∀ kv ∈ map, kv.1 ≠ leadWord text) : (parseWkt io map text : Except String (Geo F)) =
      .error "ERR:Value" := by
  have : map.lookup (leadWord text) = none := by
    induction map with
    | nil => rfl
    | cons kv t ih =>
      have h1 : (leadWord text == kv.1) = false := by
        have := h kv (by simp)
        simp [beq_eq_false_iff_ne, Ne.symm this]
      obtain ⟨k, v⟩ := kv
      simp only [List.lookup, h1]
      exact ih (fun kv hkv => h kv (List.mem_cons_of_mem _ hkv))
  simp [parseWkt, this]

/-- the lookup is case-sensitive: a leading word with a lower-case letter is never found -/
theorem dispatch_lowercase (text : String)
    (h : (leadWord text).toList.any Char.isLower = true) :
    (parseWkt io stdMap text : Except String (Geo F)) = .error "ERR:Value" := by
  apply dispatch_unknown
  intro kv hkv heq
  have hk : kv.1.toList.any Char.isLower = false := by
    simp only [stdMap, List.mem_cons, List.not_mem_nil, or_false] at hkv
    rcases hkv with rfl | rfl | rfl | rfl | rfl | rfl <;> decide
  rw [heq, h] at hk
  exact absurd hk (by decide)

/-- a text that the reader of the selected type does not recognise is a `ValueError` too -/
theorem readAs_not_wkt (k : Kind) (text : String) (h : lenientParse text = none) :
    (readAs io k text : Except String (Geo F)) = .error "ERR:Value" := by
  simp [readAs, h]

/-- wrongly-typed text is a `ValueError` -/
theorem readAs_wrong_type (k : Kind) (text : String) (w : Wkt) (h : lenientParse text = some w)
    (hk : w.body.kind ≠ k) : (readAs io k text : Except String (Geo F)) = .error "ERR:Value" := by
  simp [readAs, h, hk]

end Dispatch

end GV.Wkt

namespace GV.Wkt
open GV

section RingFull
variable {F : Type} (io : NumIO F)

theorem pt_eq_of_eqv {a b : Coord F} (h : Coord.eqv io a b = true) : a.pt io = b.pt io := by
  simp only [Coord.eqv, Bool.and_eq_true, beq_iff_eq] at h
  exact Prod.ext h.1.2 h.1.1

theorem lastOf_map_pt (a : Coord F) (t : List (Coord F)) (b : Coord F)
    (hl : (a :: t).getLast? = some b) :
    lastOf (a.pt io) (t.map (Coord.pt io)) = b.pt io := by
  induction t generalizing a with
  | nil => simp at hl; subst hl; rfl
  | cons c t ih =>
    have : (c :: t).getLast? = some b := by simpa [List.getLast?_cons_cons] using hl
    exact ih c this

/-- appending its first vertex to a closed ring: same shoelace sum -/
theorem shoelace_close_again (a : Coord F) (t : List (Coord F))
    (hc : closedRing io (a :: t) = true) :
    GV.shoelace ((a :: t ++ [a]).map (Coord.pt io)) = GV.shoelace ((a :: t).map (Coord.pt io)) := by
  unfold closedRing at hc
  cases hl : (a :: t).getLast? with
  | none => simp at hl
  | some b =>
    simp only [List.head?_cons, hl] at hc
    have h1 := lastOf_map_pt io a t b hl
    rw [← pt_eq_of_eqv io hc] at h1
    have := shoelace_append_head (a.pt io) (t.map (Coord.pt io)) h1
    simpa using this

theorem closedRing_close_again (a : Coord F) (t : List (Coord F)) :
    closedRing io (a :: t ++ [a]) = true := by
  unfold closedRing
  have : (a :: t ++ [a]).getLast? = some a := by
    rw [show a :: t ++ [a] = (a :: t) ++ [a] from rfl, List.getLast?_append]; simp
  rw [this]
  simp [eqv_refl]

theorem shellWf_close_again {r : List (Coord F)} (h : shellWf io r = true) :
    shellWf io (r ++ r.head?.toList) = true := by
  obtain ⟨hwf, hc, hccw⟩ := (shellWf_iff io r).1 h
  cases r with
  | nil => simp [closedRing] at hc
  | cons a t =>
    rw [shellWf_iff]
    refine ⟨?_, closedRing_close_again io a t, ?_⟩
    · intro c hcm
      simp only [List.head?_cons, Option.toList_some, List.mem_append, List.mem_singleton] at hcm
      rcases hcm with hcm | rfl
      · exact hwf c hcm
      · exact hwf c (by simp)
    · unfold GV.isCCW at hccw ⊢
      simp only [List.head?_cons, Option.toList_some]
      simp only [decide_eq_true_eq] at hccw
      exact decide_eq_true (by rw [shoelace_close_again io a t hc]; exact hccw)

theorem holeWf_close_again {r : List (Coord F)} (h : holeWf io r = true) :
    holeWf io (r ++ r.head?.toList) = true := by
  obtain ⟨hs, hz⟩ := (holeWf_iff io r).1 h
  obtain ⟨_, hc, _⟩ := (shellWf_iff io r).1 hs
  rw [holeWf_iff]
  refine ⟨shellWf_close_again io hs, ?_⟩
  cases r with
  | nil => simp [closedRing] at hc
  | cons a t =>
    simp only [List.head?_cons, Option.toList_some]
    rw [shoelace_close_again io a t hc]
    exact hz

variable (hio : ∀ x, io.rd (io.shw x) = some x)
include hio

/-- **full ring**: the override writes the two circles as drawn and the holes reversed.  Read back, this is
    the polygon `⟨outer, inner :: holes⟩`; the polygon form `to_polygon()` has the same rings with each
    circle's first vertex repeated once more at the end (geometry-neutral), and the same holes (F13e). -/
theorem ringfull_reads_same_rings (o i : List (Coord F)) (hs : List (List (Coord F))) (d : Nat)
    (ho : shellWf io o = true) (hi : holeWf io i = true) (hh : ∀ h ∈ hs, holeWf io h = true)
    (hdo : ∀ c ∈ o, c.dim = d) (hdi : ∀ c ∈ i, c.dim = d) (hdh : ∀ h ∈ hs, ∀ c ∈ h, c.dim = d) :
    fromWkt io (toWktRingFull io o i hs) = .ok (.polygon ⟨o, i :: hs⟩) ∧
    ringToPolygon io (ringFullLinearRings o i hs) =
      ⟨o ++ o.head?.toList, (i ++ i.head?.toList) :: hs⟩ := by
  have hrev : (hs.map List.reverse).map (fun x => mkOutline io x) = hs := by
    rw [List.map_map]
    conv_rhs => rw [← List.map_id hs]
    apply List.map_congr_left
    intro h hm
    exact mkOutline_reverse_hole io (hh h hm)
  constructor
  · obtain ⟨_, hoc, _⟩ := (shellWf_iff io o).1 ho
    have hne := closedRing_ne_nil io hoc
    have hfirst : (toWktRingFull io o i hs).body.dims = d := by
      cases hoo : o with
      | nil => exact absurd hoo hne
      | cons a t =>
        have := hdo a (by simp [hoo])
        simp [toWktRingFull, Body.dims, Body.firstCoord, ringToks, toks_length, this]
    have := polyFromRings_written io hio (toWktRingFull io o i hs) o (i :: hs.map List.reverse) d rfl
      hfirst ho hdo (by
        intro y hy
        rcases List.mem_cons.1 hy with rfl | hy
        · exact (readable_of_hole io hi hdi).2
        · obtain ⟨h, hm, rfl⟩ := List.mem_map.1 hy
          exact (readable_of_hole io (hh h hm) (hdh h hm)).1)
    have hi' : mkOutline io i = i := mkOutline_shell io ((holeWf_iff io i).1 hi).1
    simp only [fromWkt, toWktRingFull] at this ⊢
    rw [this]
    simp only [List.map_cons, hi', hrev]
    rfl
  · have h1 := mkOutline_shell io (shellWf_close_again io ho)
    have h2 := mkOutline_reverse_hole io (holeWf_close_again io hi)
    simp only [ringToPolygon, ringFullLinearRings, List.headD_cons, List.tail_cons, List.map_cons,
      h1, h2, hrev]

/-! ## why the two exclusions of `Geo.wf` are needed -/

/-- a hole of zero shoelace sum (collinear vertices) is "counter-clockwise" in both directions
    (`ans <= 0`): it is written reversed and **stays** reversed when read, so its directed edges — which
    `GeoPolygon.__eq__` compares — differ from the original's -/
theorem zero_area_hole_counterexample (o h : List (Coord F)) (d : Nat)
    (ho : shellWf io o = true) (hh : shellWf io h = true)
    (hz : GV.shoelace (h.map (Coord.pt io)) = 0)
    (hdo : ∀ c ∈ o, c.dim = d) (hdh : ∀ c ∈ h, c.dim = d) :
    fromWkt io (toWkt io (.polygon ⟨o, [h]⟩)) = .ok (.polygon ⟨o, [h.reverse]⟩) := by
  obtain ⟨_, hoc, _⟩ := (shellWf_iff io o).1 ho
  obtain ⟨hhwf, hhc, _⟩ := (shellWf_iff io h).1 hh
  have hne := closedRing_ne_nil io hoc
  have hfirst : (toWkt io (.polygon ⟨o, [h]⟩)).body.dims = d := by
    cases hoo : o with
    | nil => exact absurd hoo hne
    | cons a t =>
      have := hdo a (by simp [hoo])
      simp [toWkt, Poly.linearRings, Body.dims, Body.firstCoord, ringToks, toks_length, this]
  have := polyFromRings_written io hio (toWkt io (.polygon ⟨o, [h]⟩)) o [h.reverse] d rfl hfirst ho hdo
    (by
      intro y hy
      simp only [List.mem_singleton] at hy
      subst hy
      exact ⟨fun c hc => hhwf c (List.mem_reverse.1 hc), fun c hc => hdh c (List.mem_reverse.1 hc),
        closedRing_reverse io hhc⟩)
  simp only [fromWkt, toWkt, Poly.linearRings, List.map_cons, List.map_nil] at this ⊢
  rw [this]
  simp only [List.map_cons, List.map_nil, mkOutline_reverse_zero io hh hz]
  rfl

/-- a coordinate with an M but no Z is written as three numbers (no tag) and its M comes back as a Z -/
theorem m_only_counterexample (lon lat m : F)
    (h1 : -90 ≤ io.val lat) (h2 : io.val lat ≤ 90) (h3 : -180 ≤ io.val lon) (h4 : io.val lon < 180) :
    fromWkt io (toWkt io (.point ⟨lon, lat, none, some m⟩)) = .ok (.point ⟨lon, lat, some m, none⟩) := by
  simp [fromWkt, toWkt, parseRing, Body.dims, Body.firstCoord, Coord.toks, mapE, coordFromToks, rdAll,
    zmOrder, zmAssign, hio, mkCoord, normalize_id h1 h2 h3 h4, h1, h2]

end RingFull

end GV.Wkt

/-! ## the hypotheses are satisfiable, the exclusions are real -/
namespace GV.Wkt

/-- strings as "floats": the value of a token is its length; printing and reading are the identity, so
    `rd (shw x) = some x` holds -/
def ioS : NumIO String := ⟨fun s => (s.length : Rat), fun _ => "", id, some⟩

theorem ioS_roundtrips : ∀ x, ioS.rd (ioS.shw x) = some x := fun _ => rfl

def cS (x y : String) (z : Option String := none) : Coord String := ⟨x, y, z, none⟩

/-- a 4 x 4 triangle with a triangular hole (counter-clockwise, as constructed) -/
def exPolygon : Geo String :=
  .polygon ⟨[cS "" "", cS "aaaa" "", cS "aaaa" "aaaa", cS "" ""],
            [[cS "a" "a", cS "aa" "a", cS "aa" "aa", cS "a" "a"]]⟩

/-- two such polygons with Z (one of them 0 = the empty token) as a multi-polygon -/
def exMulti : Geo String :=
  .multipolygon [⟨[cS "" "" (some ""), cS "aaaa" "" (some ""), cS "aaaa" "aaaa" (some ""), cS "" "" (some "")],
                  [[cS "a" "a" (some "aaaaa"), cS "aa" "a" (some "a"), cS "aa" "aa" (some ""), cS "a" "a" (some "aaaaa")]]⟩,
                 ⟨[cS "aaaaa" "" (some "a"), cS "aaaaaa" "" (some "a"), cS "aaaaaa" "a" (some "a"), cS "aaaaa" "" (some "a")], []⟩]

example : exPolygon.wf ioS = true := by decide +kernel
example : exMulti.wf ioS = true := by decide +kernel
example : fromWkt ioS (toWkt ioS exPolygon) = .ok exPolygon :=
  roundtrip ioS ioS_roundtrips exPolygon (by decide +kernel)
example : fromWkt ioS (toWkt ioS exMulti) = .ok exMulti :=
  roundtrip ioS ioS_roundtrips exMulti (by decide +kernel)
example : render (toWkt ioS exPolygon) = "POLYGON(( ,aaaa ,aaaa aaaa, ), (a a,aa aa,aa a,a a))" := by
  decide +kernel

/-- a collinear ("zero-area") hole `a, b, c, a` and its reverse are **not** equal for `GeoPolygon.__eq__`:
    together with `zero_area_hole_counterexample` the round trip of such a polygon is not an equal shape -/
example :
    let h := [cS "a" "a", cS "aa" "a", cS "aaa" "a", cS "a" "a"]
    let o := [cS "" "", cS "aaaa" "", cS "aaaa" "aaaa", cS "" ""]
    shellWf ioS h = true ∧ GV.shoelace (h.map (Coord.pt ioS)) = 0 ∧
      libEq ioS (.polygon ⟨o, [h.reverse]⟩) (.polygon ⟨o, [h]⟩) = false := by
  decide +kernel

/-- an M-only point does not come back equal (`Coordinate.__eq__` compares Z) -/
example : libEq ioS (.point ⟨"a", "a", some "aa", none⟩) (.point ⟨"a", "a", none, some "aa"⟩) = false := by
  decide +kernel

/-- `parse_wkt` is case-sensitive -/
example : (parseWkt ioS stdMap "point(1 2)" : Except String (Geo String)) = .error "ERR:Value" :=
  dispatch_lowercase ioS _ (by decide +kernel)

end GV.Wkt

/-! ## text level -/
namespace GV.Wkt

/-- **the lenient reader reads what the writers write**: for every WKT value without tag whose numbers
    satisfy the emitted-number grammar (`tokOk`: what the harness checks on every printed token), whose
    coordinates have 2–4 numbers and whose lists are non-empty -/
theorem text_roundtrip (w : Wkt) (ht : w.tag = []) (h : w.body.emitted = true) :
    lenientParse (render w) = some w := by
  have := lenientParseL_renderL w.body h
  cases w with
  | mk tag body =>
    simp only at ht
    subst ht
    simpa [lenientParse, render] using this

section EndToEnd
variable {F : Type} (io : NumIO F)

theorem coordOkB_toks (hs : ∀ x, tokOk (io.shw x) = true) (c : Coord F) :
    coordOkB (c.toks io) = true := by
  cases c with
  | mk lon lat z m => cases z <;> cases m <;> simp [coordOkB, Coord.toks, hs]

theorem seqOkB_ringToks (hs : ∀ x, tokOk (io.shw x) = true) (r : List (Coord F)) (hne : r ≠ []) :
    seqOkB (ringToks io r) = true := by
  simp only [seqOkB, ringToks, Bool.and_eq_true, Bool.not_eq_true', List.isEmpty_eq_false_iff,
    List.all_eq_true]
  refine ⟨by simpa using hne, ?_⟩
  intro c hc
  obtain ⟨x, _, rfl⟩ := List.mem_map.1 hc
  exact coordOkB_toks io hs x

theorem ringsOkB_poly (hs : ∀ x, tokOk (io.shw x) = true) (p : Poly F) (hp : p.wf io = true) :
    ringsOkB (p.linearRings.map (ringToks io)) = true := by
  obtain ⟨hshell, hholes⟩ := (Poly.wf_iff io p).1 hp
  obtain ⟨_, hsc, _⟩ := (shellWf_iff io p.outline).1 hshell
  simp only [ringsOkB, Poly.linearRings, List.map_cons, List.isEmpty_cons, Bool.not_false,
    Bool.true_and, List.all_cons, Bool.and_eq_true, List.all_eq_true]
  refine ⟨seqOkB_ringToks io hs _ (closedRing_ne_nil io hsc), ?_⟩
  intro r hr
  obtain ⟨y, hy, rfl⟩ := List.mem_map.1 hr
  obtain ⟨h, hh, rfl⟩ := List.mem_map.1 hy
  obtain ⟨hhs, _⟩ := (holeWf_iff io h).1 (hholes h hh)
  obtain ⟨_, hhc, _⟩ := (shellWf_iff io h).1 hhs
  exact seqOkB_ringToks io hs _ (by simpa using closedRing_ne_nil io hhc)

/-- what a well-formed shape is written as is an emitted body -/
theorem emitted_toWkt (hs : ∀ x, tokOk (io.shw x) = true) (g : Geo F) (h : g.wf io = true) :
    (toWkt io g).body.emitted = true := by
  obtain ⟨hp, _⟩ := (wf_iff io g).1 h
  cases g with
  | point c => exact coordOkB_toks io hs c
  | linestring vs =>
    simp only [Geo.wfParts, Bool.and_eq_true, decide_eq_true_eq] at hp
    exact seqOkB_ringToks io hs vs (by intro hn; subst hn; simp at hp)
  | polygon p => exact ringsOkB_poly io hs p hp
  | multipoint cs =>
    simp only [Geo.wfParts, Bool.and_eq_true, Bool.not_eq_true', List.isEmpty_eq_false_iff] at hp
    exact seqOkB_ringToks io hs cs hp.2
  | multilinestring ls =>
    simp only [Geo.wfParts, Bool.and_eq_true, List.all_eq_true, decide_eq_true_eq, Bool.not_eq_true',
      List.isEmpty_eq_false_iff] at hp
    simp only [toWkt, Body.emitted, ringsOkB, Bool.and_eq_true, Bool.not_eq_true',
      List.isEmpty_eq_false_iff, List.all_eq_true]
    refine ⟨by simpa using hp.2, ?_⟩
    intro r hr
    obtain ⟨l, hl, rfl⟩ := List.mem_map.1 hr
    exact seqOkB_ringToks io hs l (by intro hn; subst hn; have := (hp.1 [] hl).2; simp at this)
  | multipolygon ps =>
    simp only [Geo.wfParts, Bool.and_eq_true, List.all_eq_true, Bool.not_eq_true',
      List.isEmpty_eq_false_iff] at hp
    simp only [toWkt, Body.emitted, Bool.and_eq_true, Bool.not_eq_true', List.isEmpty_eq_false_iff,
      List.all_eq_true]
    refine ⟨by simpa using hp.2, ?_⟩
    intro r hr
    obtain ⟨p, hpm, rfl⟩ := List.mem_map.1 hr
    exact ringsOkB_poly io hs p (hp.1 p hpm)

theorem kind_toWkt (g : Geo F) : (toWkt io g).body.kind = g.kind := by cases g <;> rfl

variable (hio : ∀ x, io.rd (io.shw x) = some x) (hs : ∀ x, tokOk (io.shw x) = true)
include hio hs

/-- **`Type.from_wkt(shape.to_wkt())` gives the shape back** (text written, lexed, parsed, assembled) -/
theorem readAs_render (g : Geo F) (h : g.wf io = true) :
    readAs io g.kind (render (toWkt io g)) = .ok g := by
  have ht := text_roundtrip (toWkt io g) (by cases g <;> rfl) (emitted_toWkt io hs g h)
  simp [readAs, ht, kind_toWkt, roundtrip io hio g h]

omit hio hs in
/-- the keyword a shape's text starts with is the standard one of its kind -/
theorem lookup_leadWord (g : Geo F) :
    stdMap.lookup (leadWord (render (toWkt io g))) = some g.kind := by
  have hsh := renderL_shape (toWkt io g).body
  have hlw : leadWord (render (toWkt io g)) = String.ofList (toWkt io g).body.keyword := by
    simp only [leadWord, render, String.toList_ofList]
    rw [hsh, takeWhile_keyword]
  rw [hlw]
  cases g with
  | point _ => show List.lookup (String.ofList "POINT".toList) stdMap = some Kind.point; decide +kernel
  | linestring _ =>
    show List.lookup (String.ofList "LINESTRING".toList) stdMap = some Kind.linestring; decide +kernel
  | polygon _ => show List.lookup (String.ofList "POLYGON".toList) stdMap = some Kind.polygon; decide +kernel
  | multipoint _ =>
    show List.lookup (String.ofList "MULTIPOINT".toList) stdMap = some Kind.multipoint; decide +kernel
  | multilinestring _ =>
    show List.lookup (String.ofList "MULTILINESTRING".toList) stdMap = some Kind.multilinestring
    decide +kernel
  | multipolygon _ =>
    show List.lookup (String.ofList "MULTIPOLYGON".toList) stdMap = some Kind.multipolygon
    decide +kernel

/-- **`parse_wkt(shape.to_wkt())` gives the shape back** -/
theorem parseWkt_render (g : Geo F) (h : g.wf io = true) :
    parseWkt io stdMap (render (toWkt io g)) = .ok g := by
  rw [dispatch_total, lookup_leadWord io g]
  exact readAs_render io hio hs g h

end EndToEnd

end GV.Wkt

/-! ## the text-level hypotheses are satisfiable -/
namespace GV.Wkt

/-- two floats, `0.0` and `1.0`, with their real tokens -/
def ioB : NumIO Bool where
  val := fun b => if b then 1 else 0
  ofRat := fun r => decide (r = 1)
  shw := fun b => if b then "1.0" else "0.0"
  rd := fun s => if s == "1.0" then some true else if s == "0.0" then some false else none

theorem ioB_roundtrips : ∀ x, ioB.rd (ioB.shw x) = some x := by
  intro x; cases x <;> decide +kernel

theorem ioB_tokens : ∀ x, tokOk (ioB.shw x) = true := by
  intro x; cases x <;> decide +kernel

/-- a triangle with Z = 0.0 and a second, flat member: `MULTIPOLYGON(((0.0 0.0 0.0,…)), ((…)))` -/
def exText : Geo Bool :=
  .multipolygon [⟨[⟨false, false, some false, none⟩, ⟨true, false, some false, none⟩,
                   ⟨true, true, some false, none⟩, ⟨false, false, some false, none⟩], []⟩]

example : parseWkt ioB stdMap (render (toWkt ioB exText)) = .ok exText :=
  parseWkt_render ioB ioB_roundtrips ioB_tokens exText (by decide +kernel)

example : render (toWkt ioB exText) =
    "MULTIPOLYGON(((0.0 0.0 0.0,1.0 0.0 0.0,1.0 1.0 0.0,0.0 0.0 0.0)))" := by decide +kernel

end GV.Wkt
