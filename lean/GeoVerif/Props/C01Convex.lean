import GeoVerif.Lemmas.PipConvex
import GeoVerif.Props.C01

/-!
# C01 (continued) — the even-odd rule *is* geometric insideness for convex rings and triangles

`Props/C01.lean` proves that `_point_in_polygon` computes "on no edge and an odd number of crossed edges".
That this parity means *inside* is the Jordan curve theorem, assumed in general.  Here the assumption is
discharged, machine-checked, for

* every strictly convex counter-clockwise ring of any length (`convex_pip_iff`, `convex_pip_inclB_iff`):
  the test answers `true` exactly for the queries strictly left of every edge (weakly left with
  `include_boundary`), i.e. for the intersection of the open (closed) half-planes of the edges;
* every non-degenerate triangle in either orientation (`triangle_pip_iff`, `triangle_pip_inclB_iff`,
  `triangle_edge_false`);
* and, for arbitrary rings, the "outside" half of Jordan for queries that a line separates from the ring
  (`separated_pip_false`).
-/
namespace GV.C01
open GV GV.PipConvex

/-- **separating line (any ring, convex or not)**: if all vertices are weakly left of the line through
    `l.1`, `l.2` and the query is strictly right of it, the ring test answers `false`, with and without
    `include_boundary` -/
theorem separated_pip_false (p v : Pt) (r : List Pt) (l : Edge) (inclB : Bool)
    (hall : ∀ q ∈ v :: r, 0 ≤ pcross l q) (hp : pcross l p < 0) :
    pointInRing p (v :: r) inclB = false := by
  have hin := insideEO_of_halfplane p v r l hall hp
  cases inclB with
  | false => rw [GV.pointInRing_eq_spec]; exact hin
  | true =>
    rw [pointInRing_inclB, hin, Bool.or_false]
    -- not on the boundary either: a point of an edge is a convex combination of its end points
    unfold onBoundary
    rw [List.any_eq_false]
    intro e he hon
    have hm := mem_ringEdges he
    obtain ⟨u, w⟩ := e
    by_cases hne : u = w
    · subst hne
      have := (onEdge_degenerate p u).mp hon
      subst this
      linarith [hall _ hm.1]
    · have h0 : pcross (u, w) p = 0 := by
        unfold onEdge at hon
        simp only [Bool.and_eq_true, decide_eq_true_eq] at hon
        exact hon.1.1.1.1
      obtain ⟨t, rfl⟩ := exists_lineAt hne h0
      have ht := (onEdge_lineAt hne t).mp hon
      rw [pcross_lineAt] at hp
      have := mul_nonneg (by linarith [ht.2] : (0 : Rat) ≤ 1 - t) (hall _ hm.1)
      have := mul_nonneg ht.1 (hall _ hm.2)
      linarith

/-- the convexity predicate is the conjunction the informal definition asks for: every vertex weakly left
    of every edge, consecutive edges turning strictly left -/
theorem strictConvexCCW_weak_and_turns {ring : List Pt} (h : StrictConvexCCW ring) :
    (∀ e ∈ ringEdges ring, ∀ q ∈ ring, 0 ≤ pcross e q) ∧
    (∀ u w w', (u, w) ∈ ringEdges ring → (w, w') ∈ ringEdges ring → 0 < pcross (u, w) w') :=
  ⟨h.weakly_left, fun _ _ _ he he' => h.turn_left he he'⟩

/-- **convex rings: the ray-crossing test is exactly "strictly left of every edge"** (any number of
    vertices, every query) -/
theorem convex_pip_iff (ring : List Pt) (h : StrictConvexCCW ring) (p : Pt) :
    pointInRing p ring = true ↔ ∀ e ∈ ringEdges ring, 0 < pcross e p := by
  obtain ⟨v, r, rfl⟩ : ∃ v r, ring = v :: r := by
    obtain ⟨hlen, _⟩ := h
    cases ring with
    | nil => simp at hlen
    | cons v r => exact ⟨v, r, rfl⟩
  rw [GV.pointInRing_eq_spec]
  constructor
  · intro hin e he
    by_contra hc
    have := insideEO_false_of_not_left h p he (not_lt.mp hc)
    rw [hin] at this; exact absurd this (by simp)
  · intro hL
    have hoff : (ringEdges (v :: r)).any (onEdge p) = false := by
      rw [List.any_eq_false]
      intro e he hon
      unfold onEdge at hon
      simp only [Bool.and_eq_true, decide_eq_true_eq] at hon
      linarith [hL e he, hon.1.1.1.1]
    have hcount : (ringEdges (v :: r)).countP (crossesRay p) = (ringEdges (v :: r)).countP (rising p) :=
      List.countP_congr (fun e he => by rw [crossesRay_eq_rising p e (hL e he)])
    have hle : (ringEdges (v :: r)).countP (rising p) ≤ 1 := by
      apply countP_le_one_of_pairwise
      apply (ringEdges_pairwise_fst h.2.1).imp_of_mem
      intro e f he hf hne hboth
      exact rising_unique h p he hf hne hboth.1 hboth.2
    have hge : 0 < (ringEdges (v :: r)).countP (rising p) := by
      rw [List.countP_pos_iff]
      have hF : ∃ q ∈ v :: r, decide (p.2 < q.2) = false := by
        by_contra hc
        apply not_all_above p v r hL
        intro q hq
        by_contra hlt
        exact hc ⟨q, hq, decide_eq_false (not_lt.mpr (le_of_lt (not_le.mp hlt)))⟩
      have hT : ∃ q ∈ v :: r, decide (p.2 < q.2) = true := by
        by_contra hc
        apply not_all_below p v r hL
        intro q hq
        by_contra hlt
        exact hc ⟨q, hq, decide_eq_true (not_le.mp hlt)⟩
      obtain ⟨e, he, h1, h2⟩ := exists_rising_edge (fun q => decide (p.2 < q.2)) v r hF hT
      refine ⟨e, he, ?_⟩
      simp only [decide_eq_false_iff_not, not_lt, decide_eq_true_eq] at h1 h2
      simp [rising, h1, h2]
    have h1 : (ringEdges (v :: r)).countP (crossesRay p) = 1 := by omega
    unfold insideEO
    simp [hoff, h1]

/-- **convex rings with `include_boundary=True`: exactly the closed polygon** (weakly left of every edge) -/
theorem convex_pip_inclB_iff (ring : List Pt) (h : StrictConvexCCW ring) (p : Pt) :
    pointInRing p ring true = true ↔ ∀ e ∈ ringEdges ring, 0 ≤ pcross e p := by
  have hstrict := convex_pip_iff ring h p
  rw [GV.pointInRing_eq_spec] at hstrict
  obtain ⟨v, r, rfl⟩ : ∃ v r, ring = v :: r := by
    obtain ⟨hlen, _⟩ := h
    cases ring with
    | nil => simp at hlen
    | cons v r => exact ⟨v, r, rfl⟩
  rw [pointInRing_inclB, Bool.or_eq_true]
  constructor
  · rintro (hb | hin)
    · unfold onBoundary at hb
      obtain ⟨e0, he0, hon⟩ := List.any_eq_true.mp hb
      obtain ⟨u, w⟩ := e0
      have hne := h.edge_ne he0
      have h0 : pcross (u, w) p = 0 := by
        unfold onEdge at hon
        simp only [Bool.and_eq_true, decide_eq_true_eq] at hon
        exact hon.1.1.1.1
      obtain ⟨t, rfl⟩ := exists_lineAt hne h0
      have ht := (onEdge_lineAt hne t).mp hon
      have hm := mem_ringEdges he0
      intro e he
      rw [pcross_lineAt]
      have := mul_nonneg (by linarith [ht.2] : (0 : Rat) ≤ 1 - t) (h.weakly_left e he u hm.1)
      have := mul_nonneg ht.1 (h.weakly_left e he w hm.2)
      linarith
    · exact fun e he => le_of_lt (hstrict.mp hin e he)
  · intro hW
    by_cases hall : ∀ e ∈ ringEdges (v :: r), 0 < pcross e p
    · exact Or.inr (hstrict.mpr hall)
    · left
      push Not at hall
      obtain ⟨e0, he0, hle⟩ := hall
      have h0 : pcross e0 p = 0 := le_antisymm hle (hW e0 he0)
      obtain ⟨u, w⟩ := e0
      have hne := h.edge_ne he0
      obtain ⟨t, rfl⟩ := exists_lineAt hne h0
      have hm := mem_ringEdges he0
      obtain ⟨⟨w1, w'⟩, he1, hw1⟩ := exists_edge_from hm.2
      simp only at hw1; subst hw1
      obtain ⟨⟨u', u1⟩, he2, hu1⟩ := exists_edge_to hm.1
      simp only at hu1; subst hu1
      have n1 := hW _ he1
      have n2 := hW _ he2
      rw [pcross_next_lineAt] at n1
      rw [pcross_prev_lineAt] at n2
      have p1 := h.turn_left he0 he1
      have p2 := h.turn_left he2 he0
      have ht1 : t ≤ 1 := by
        by_contra hc; rw [not_le] at hc
        have := mul_neg_of_neg_of_pos (by linarith : 1 - t < 0) p1
        linarith
      have ht0 : 0 ≤ t := by
        by_contra hc; rw [not_le] at hc
        have := mul_neg_of_neg_of_pos hc p2
        linarith
      unfold onBoundary
      exact List.any_eq_true.mpr ⟨_, he0, (onEdge_lineAt hne t).mpr ⟨ht0, ht1⟩⟩

/-! ### triangles, either orientation -/

/-- a positively oriented non-degenerate triangle is a strictly convex counter-clockwise ring -/
theorem triangle_convex (a b c : Pt) (h : 0 < pcross (a, b) c) : StrictConvexCCW [a, b, c] := by
  have c1 : pcross (b, c) a = pcross (a, b) c := by unfold pcross; ring
  have c2 : pcross (c, a) b = pcross (a, b) c := by unfold pcross; ring
  have hab : a ≠ b := by rintro rfl; unfold pcross at h; simp at h
  have hac : a ≠ c := by rintro rfl; rw [pcross_left_end] at h; exact lt_irrefl _ h
  have hbc : b ≠ c := by rintro rfl; rw [pcross_right_end (a, b)] at h; exact lt_irrefl _ h
  refine ⟨by simp, by simp [hab, hac, hbc], ?_⟩
  intro e he q hq h1 h2
  simp only [ringEdges, List.zip_cons_cons, List.cons_append, List.nil_append, List.zip_nil_right,
    List.mem_cons, List.not_mem_nil, or_false] at he hq
  rcases he with rfl | rfl | rfl <;> rcases hq with rfl | rfl | rfl <;>
    first
    | exact absurd rfl h1
    | exact absurd rfl h2
    | exact h
    | (rw [c1]; exact h)
    | (rw [c2]; exact h)

/-- walking the triangle the other way round gives the same answer -/
theorem triangle_swap (a b c p : Pt) (inclB : Bool) :
    pointInRing p [a, b, c] inclB = pointInRing p [a, c, b] inclB := by
  have hperm : (ringEdges [a, c, b]).Perm ((ringEdges [a, b, c]).map flipE) := by
    simp only [ringEdges, List.zip_cons_cons, List.cons_append, List.nil_append, List.zip_nil_right,
      List.map_cons, List.map_nil, flipE]
    exact (List.reverse_perm [(b, a), (c, b), (a, c)] :)
  have hEO : insideEO p (ringEdges [a, c, b]) = insideEO p (ringEdges [a, b, c]) := by
    rw [GV.insideEO_perm p hperm, GV.insideEO_flip]
  have hB : onBoundary p (ringEdges [a, c, b]) = onBoundary p (ringEdges [a, b, c]) := by
    unfold onBoundary
    rw [Bool.eq_iff_iff, List.any_eq_true, List.any_eq_true]
    constructor
    · rintro ⟨e, he, hon⟩
      obtain ⟨e', he', rfl⟩ := List.mem_map.mp (hperm.mem_iff.mp he)
      exact ⟨e', he', by rwa [onEdge_flip] at hon⟩
    · rintro ⟨e, he, hon⟩
      exact ⟨flipE e, hperm.mem_iff.mpr (List.mem_map.mpr ⟨e, he, rfl⟩), by rwa [onEdge_flip]⟩
  cases inclB with
  | false => rw [GV.pointInRing_eq_spec, GV.pointInRing_eq_spec, hEO]
  | true => rw [pointInRing_inclB, pointInRing_inclB, hEO, hB]

theorem forall_triangle_edges (a b c : Pt) (P : Edge → Prop) :
    (∀ e ∈ ringEdges [a, b, c], P e) ↔ P (a, b) ∧ P (b, c) ∧ P (c, a) := by
  simp [ringEdges]

/-- **triangles: the ray-crossing test is exactly "strictly inside"** — all three edge cross products have
    the strict sign of the orientation; any non-degenerate triangle, either orientation, every query -/
theorem triangle_pip_iff (a b c p : Pt) (hnd : pcross (a, b) c ≠ 0) :
    pointInRing p [a, b, c] = true ↔
      (0 < pcross (a, b) c ∧ 0 < pcross (a, b) p ∧ 0 < pcross (b, c) p ∧ 0 < pcross (c, a) p) ∨
      (pcross (a, b) c < 0 ∧ pcross (a, b) p < 0 ∧ pcross (b, c) p < 0 ∧ pcross (c, a) p < 0) := by
  rcases lt_or_gt_of_ne hnd with hneg | hpos
  · have hor : 0 < pcross (a, c) b := by
      have : pcross (a, c) b = - pcross (a, b) c := by unfold pcross; ring
      linarith
    rw [triangle_swap, convex_pip_iff _ (triangle_convex a c b hor), forall_triangle_edges,
      pcross_swap c a, pcross_swap b c, pcross_swap a b]
    constructor
    · rintro ⟨h1, h2, h3⟩; right; exact ⟨hneg, by linarith, by linarith, by linarith⟩
    · rintro (⟨h0, _⟩ | ⟨_, h1, h2, h3⟩)
      · linarith
      · exact ⟨by linarith, by linarith, by linarith⟩
  · rw [convex_pip_iff _ (triangle_convex a b c hpos), forall_triangle_edges]
    constructor
    · rintro ⟨h1, h2, h3⟩; left; exact ⟨hpos, h1, h2, h3⟩
    · rintro (⟨_, h⟩ | ⟨h0, _⟩)
      · exact h
      · linarith

/-- **triangles with `include_boundary=True`: exactly the closed triangle** (all three weakly signed) -/
theorem triangle_pip_inclB_iff (a b c p : Pt) (hnd : pcross (a, b) c ≠ 0) :
    pointInRing p [a, b, c] true = true ↔
      (0 < pcross (a, b) c ∧ 0 ≤ pcross (a, b) p ∧ 0 ≤ pcross (b, c) p ∧ 0 ≤ pcross (c, a) p) ∨
      (pcross (a, b) c < 0 ∧ pcross (a, b) p ≤ 0 ∧ pcross (b, c) p ≤ 0 ∧ pcross (c, a) p ≤ 0) := by
  rcases lt_or_gt_of_ne hnd with hneg | hpos
  · have hor : 0 < pcross (a, c) b := by
      have : pcross (a, c) b = - pcross (a, b) c := by unfold pcross; ring
      linarith
    rw [triangle_swap, convex_pip_inclB_iff _ (triangle_convex a c b hor), forall_triangle_edges,
      pcross_swap c a, pcross_swap b c, pcross_swap a b]
    constructor
    · rintro ⟨h1, h2, h3⟩; right; exact ⟨hneg, by linarith, by linarith, by linarith⟩
    · rintro (⟨h0, _⟩ | ⟨_, h1, h2, h3⟩)
      · linarith
      · exact ⟨by linarith, by linarith, by linarith⟩
  · rw [convex_pip_inclB_iff _ (triangle_convex a b c hpos), forall_triangle_edges]
    constructor
    · rintro ⟨h1, h2, h3⟩; left; exact ⟨hpos, h1, h2, h3⟩
    · rintro (⟨_, h⟩ | ⟨h0, _⟩)
      · exact h
      · linarith

/-- a query on an edge of the triangle is not contained (default `include_boundary=False`) … -/
theorem triangle_edge_false (a b c p : Pt) (e : Edge) (he : e ∈ [(a, b), (b, c), (c, a)])
    (hon : onEdge p e = true) : pointInRing p [a, b, c] false = false :=
  GV.pointInRing_boundary_false p [a, b, c] e (by simpa [ringEdges] using he) hon

/-- … and the boundary is exactly what `include_boundary=True` adds -/
theorem triangle_boundary_iff (a b c p : Pt) :
    onBoundary p (ringEdges [a, b, c]) = true ↔
      (pointInRing p [a, b, c] true = true ∧ pointInRing p [a, b, c] false = false) := by
  rw [pointInRing_inclB, GV.pointInRing_eq_spec]
  unfold insideEO onBoundary
  cases (ringEdges [a, b, c]).any (onEdge p) <;> simp

/-! ### non-vacuity -/

/-- a concrete strictly convex pentagon -/
example : StrictConvexCCW [(0, 0), (4, 0), (6, 3), (3, 6), (-1, 3)] := by decide +kernel

/-- a square with a redundant (collinear) vertex, a clockwise ring and a doubled triangle are rejected -/
example : ¬ StrictConvexCCW [(0, 0), (2, 0), (4, 0), (4, 4), (0, 4)] ∧
    ¬ StrictConvexCCW [(0, 0), (0, 4), (4, 4), (4, 0)] ∧
    ¬ StrictConvexCCW [(0, 0), (4, 0), (0, 4), (0, 0), (4, 0), (0, 4)] := by
  refine ⟨by decide +kernel, by decide +kernel, by decide +kernel⟩

/-- `convex_pip_iff` on the pentagon: the model and the half-plane description agree, on an interior point,
    an exterior point, a point on an edge and a vertex -/
example : pointInRing (2, 2) [(0, 0), (4, 0), (6, 3), (3, 6), (-1, 3)] = true ∧
    (∀ e ∈ ringEdges [(0, 0), (4, 0), (6, 3), (3, 6), (-1, 3)], 0 < pcross e ((2, 2) : Pt)) ∧
    pointInRing (6, 0) [(0, 0), (4, 0), (6, 3), (3, 6), (-1, 3)] = false ∧
    pointInRing (5, 3/2) [(0, 0), (4, 0), (6, 3), (3, 6), (-1, 3)] = false ∧
    pointInRing (5, 3/2) [(0, 0), (4, 0), (6, 3), (3, 6), (-1, 3)] true = true ∧
    pointInRing (6, 3) [(0, 0), (4, 0), (6, 3), (3, 6), (-1, 3)] true = true := by
  refine ⟨by decide +kernel, by decide +kernel, by decide +kernel, by decide +kernel, by decide +kernel,
    by decide +kernel⟩

/-- the theorems applied (not just the model evaluated): interior of the pentagon through `convex_pip_iff` -/
example : pointInRing (2, 2) [(0, 0), (4, 0), (6, 3), (3, 6), (-1, 3)] = true :=
  (convex_pip_iff _ (by decide +kernel) (2, 2)).mpr (by decide +kernel)

example : pointInRing (5, 3/2) [(0, 0), (4, 0), (6, 3), (3, 6), (-1, 3)] true = true :=
  (convex_pip_inclB_iff _ (by decide +kernel) (5, 3/2)).mpr (by decide +kernel)

/-- `triangle_pip_iff`, both orientations, hypotheses satisfiable and both sides true / both false -/
example : pointInRing (1, 1) [(0, 0), (4, 0), (0, 4)] = true ∧ pointInRing (1, 1) [(0, 0), (0, 4), (4, 0)] = true ∧
    pointInRing (3, 3) [(0, 0), (4, 0), (0, 4)] = false ∧ pointInRing (2, 2) [(0, 0), (0, 4), (4, 0)] = false ∧
    pointInRing (2, 2) [(0, 0), (0, 4), (4, 0)] true = true := by
  refine ⟨?_, ?_, ?_, ?_, ?_⟩
  · exact (triangle_pip_iff (0, 0) (4, 0) (0, 4) (1, 1) (by decide +kernel)).mpr (Or.inl (by decide +kernel))
  · exact (triangle_pip_iff (0, 0) (0, 4) (4, 0) (1, 1) (by decide +kernel)).mpr (Or.inr (by decide +kernel))
  · have := (triangle_pip_iff (0, 0) (4, 0) (0, 4) (3, 3) (by decide +kernel)).not.mpr (by decide +kernel)
    simpa using this
  · exact triangle_edge_false (0, 0) (0, 4) (4, 0) (2, 2) ((0, 4), (4, 0)) (by simp) (by decide +kernel)
  · exact (triangle_pip_inclB_iff (0, 0) (0, 4) (4, 0) (2, 2) (by decide +kernel)).mpr
      (Or.inr (by decide +kernel))

/-- `separated_pip_false` on a non-convex ring: the line `x = 5` separates the query from the "M" -/
example : pointInRing (6, 1) [(0, 0), (4, 0), (4, 4), (2, 2), (0, 4)] = false :=
  separated_pip_false (6, 1) (0, 0) [(4, 0), (4, 4), (2, 2), (0, 4)] ((5, 0), (5, 1)) false
    (by decide +kernel) (by decide +kernel)

end GV.C01
