import GeoVerif.Gen.SrcWkt
import GeoVerif.Props.C13
/-!
# Source tie for the WKT writers (`coordinates.py`, `_base.py`, `structures.py`, `multistructures.py`)

`GeoVerif/Gen/SrcWkt.lean` is regenerated from the current text of the four files on every run: `Coordinate.to_str /
to_float`, `_linear_ring_to_wkt`, `linear_rings` and `to_wkt` of every shape class (each class's writer is the definition
that class *inherits*, found through the class hierarchy), `has_z / has_m` of points and linestrings.  Python strings are
Lean strings (`f'…'` and `+` are `++`, `sep.join` is `String.intercalate`), `str(float)` is the model's `io.shw`.

Every translated writer is proved equal — as a **string** — to `render (toWkt …)`, the text of the model's writer of that
kind, for every shape (`*_eq`), the translated `linear_rings` to the model's; the headline theorems of `Props/C13.lean`
(`Type.from_wkt(shape.to_wkt())` and `parse_wkt(shape.to_wkt())` give the shape back) are restated for the translated
writers (`src_readAs_roundtrip`, `src_parseWkt_roundtrip`).

Readers: the regular expressions are not modelled (as in `Model/Wkt.lean`); what is translated is the hand-written logic
behind them — `Coordinate.__eq__`, `Coordinate.from_wkt` (fewer than two parts is a `ValueError`, the extras go to the
letters of the order, lazily: `map(float, …)` under `zip`), `_parse_wkt_linear_ring` (tag / dimension agreement, minimum
number of points, ring closure) — proved equal to the model's `Coord.eqv`, `coordFromToks`, `parseRing`
(`coordEq_eq`, `coordFromWkt_eq`, `parseLinearRing_eq`); `src_parse_rejects`, `src_parse_open_ring` read the F13 checks
off the translated source.  The `from_wkt` methods of the shape classes (which regex feeds which ring) are not translated.
-/
set_option linter.unusedSimpArgs false

namespace GV.C13Src
open GV GV.Wkt

/-! ## strings -/

theorem intercalate_eq (sep : List Char) : ∀ xs : List (List Char), sep.intercalate xs = intercalateL sep xs
  | [] => rfl
  | [x] => by simp [List.intercalate, intercalateL]
  | x :: y :: rest => by
    have ih := intercalate_eq sep (y :: rest)
    simp only [List.intercalate] at ih ⊢
    simp [intercalateL, ← ih]

/-- `sep.join(xs)` as a character list -/
theorem toList_join (sep : String) (xs : List String) :
    (String.intercalate sep xs).toList = intercalateL sep.toList (xs.map String.toList) := by
  rw [String.toList_intercalate, intercalate_eq]

/-- a string is the text of a character list when its characters are that list -/
theorem eq_ofList {s : String} {l : List Char} (h : s.toList = l) : s = String.ofList l := by
  rw [← h, String.ofList_toList]

/-- `''.join(', ' + x for x in xs)` -/
theorem intercalateL_nil_prefix (p : List Char) : ∀ xs : List (List Char),
    intercalateL [] (xs.map (p ++ ·)) = (xs.map (p ++ ·)).flatten
  | [] => rfl
  | [x] => by simp [intercalateL]
  | x :: y :: rest => by
    have ih := intercalateL_nil_prefix p (y :: rest)
    simp only [List.map_cons] at ih
    simp [intercalateL, ih]

/-- `', '.join(x :: xs)` is `x` followed by every further element with `', '` in front -/
theorem intercalateL_cons (sep x : List Char) : ∀ xs : List (List Char),
    intercalateL sep (x :: xs) = x ++ (xs.map (sep ++ ·)).flatten
  | [] => by simp [intercalateL]
  | y :: rest => by
    have ih := intercalateL_cons sep y rest
    simp [intercalateL, ih]

section Writers
variable {F : Type} (io : NumIO F)

/-! ## `Coordinate` -/

/-- **`Coordinate.to_str()`** is the model's token list -/
theorem toStr_eq (c : Coord F) : Src.Wkt.toStr io c = c.toks io := by
  unfold Src.Wkt.toStr Coord.toks
  cases c.z <;> cases c.m <;> simp

/-- with `reverse` given: `False` is the default -/
theorem toStrRev_false (c : Coord F) : Src.Wkt.toStrRev io c false = c.toks io := by
  unfold Src.Wkt.toStrRev Coord.toks
  cases c.z <;> cases c.m <;> simp

/-- `reverse=True` swaps longitude and latitude only (Z and M stay behind them) -/
theorem toStrRev_true (c : Coord F) :
    Src.Wkt.toStrRev io c true = [io.shw c.lat, io.shw c.lon] ++ ((c.toks io).drop 2) := by
  unfold Src.Wkt.toStrRev Coord.toks
  cases c.z <;> cases c.m <;> simp

/-- **`Coordinate.to_float()`** holds the numbers `to_str()` prints, in the same order -/
theorem toFloat_toks (c : Coord F) : (Src.Wkt.toFloat io c).map io.shw = c.toks io := by
  unfold Src.Wkt.toFloat Coord.toks
  cases c.z <;> cases c.m <;> simp

/-- a coordinate is written with as many numbers as its dimension: 2, +1 with a Z, +1 with an M -/
theorem toStr_length (c : Coord F) : (Src.Wkt.toStr io c).length = c.dim := by
  rw [toStr_eq]
  unfold Coord.toks Coord.dim
  cases c.z <;> cases c.m <;> simp

theorem pointCentroid_eq (c : Coord F) : Src.Wkt.pointCentroid io c = c := rfl

/-- `GeoPoint.has_z / has_m`, `GeoLineString.has_z / has_m` -/
theorem pointHasZ_eq (c : Coord F) : Src.Wkt.pointHasZ io c = c.z.isSome := by
  simp [Src.Wkt.pointHasZ, pointCentroid_eq]

theorem pointHasM_eq (c : Coord F) : Src.Wkt.pointHasM io c = c.m.isSome := by
  simp [Src.Wkt.pointHasM, pointCentroid_eq]

theorem lineHasZ_eq (vs : List (Coord F)) : Src.Wkt.lineHasZ io vs = vs.any (·.z.isSome) := by
  simp [Src.Wkt.lineHasZ]

theorem lineHasM_eq (vs : List (Coord F)) : Src.Wkt.lineHasM io vs = vs.any (·.m.isSome) := by
  simp [Src.Wkt.lineHasM]

/-- the dimension of a point is read off `has_z` / `has_m` -/
theorem dim_hasZM (c : Coord F) :
    c.dim = 2 + (if Src.Wkt.pointHasZ io c then 1 else 0) + (if Src.Wkt.pointHasM io c then 1 else 0) := by
  rw [pointHasZ_eq, pointHasM_eq]; rfl

/-! ## rings -/

/-- `" ".join(coord.to_str())` -/
theorem joinCoord_toList (c : Coord F) :
    (String.intercalate " " (Src.Wkt.toStr io c)).toList = renderCoord (c.toks io) := by
  rw [toList_join, toStr_eq]; rfl

theorem map_joinCoord (r : List (Coord F)) :
    (r.map fun c => String.intercalate " " (Src.Wkt.toStr io c)).map String.toList
      = (ringToks io r).map renderCoord := by
  rw [List.map_map, ringToks, List.map_map]
  apply List.map_congr_left
  intro c _
  exact joinCoord_toList io c

/-- **`_linear_ring_to_wkt(ring)`** -/
theorem linearRingToWkt_toList (r : List (Coord F)) :
    (Src.Wkt.linearRingToWkt io r).toList = renderRing (ringToks io r) := by
  unfold Src.Wkt.linearRingToWkt renderRing
  simp only [String.toList_append, toList_join, map_joinCoord]
  rfl

theorem linearRingToWkt_eq (r : List (Coord F)) :
    Src.Wkt.linearRingToWkt io r = String.ofList (renderRing (ringToks io r)) :=
  eq_ofList (linearRingToWkt_toList io r)

theorem map_linearRing (rs : List (List (Coord F))) :
    (rs.map fun r => Src.Wkt.linearRingToWkt io r).map String.toList = (rs.map (ringToks io)).map renderRing := by
  rw [List.map_map, List.map_map]
  apply List.map_congr_left
  intro r _
  exact linearRingToWkt_toList io r

/-- `'(' + ', '.join([_linear_ring_to_wkt(ring) for ring in rings]) + ')'` -/
theorem rings_toList (rs : List (List (Coord F))) :
    ("(" ++ String.intercalate ", " (rs.map fun r => Src.Wkt.linearRingToWkt io r) ++ ")").toList
      = renderRings (rs.map (ringToks io)) := by
  unfold renderRings
  simp only [String.toList_append, toList_join, map_linearRing]
  rfl

/-! ## the six simple types -/

/-- **`GeoPoint.to_wkt()`** -/
theorem pointToWkt_eq (c : Coord F) : Src.Wkt.pointToWkt io c = render (toWkt io (.point c)) := by
  apply eq_ofList
  unfold Src.Wkt.pointToWkt
  simp only [String.toList_append, joinCoord_toList]
  rfl

/-- **`GeoLineString.to_wkt()`** -/
theorem lineToWkt_eq (vs : List (Coord F)) : Src.Wkt.lineToWkt io vs = render (toWkt io (.linestring vs)) := by
  apply eq_ofList
  unfold Src.Wkt.lineToWkt
  simp only [String.toList_append, linearRingToWkt_toList]
  rfl

/-- `PolygonBase.linear_rings()` as `GeoPolygon`, `GeoBox`, `GeoCircle`, `GeoEllipse` inherit it -/
theorem polygonLinearRings_eq (p : Poly F) : Src.Wkt.polygonLinearRings io p = p.linearRings := by
  simp [Src.Wkt.polygonLinearRings, Poly.linearRings]

theorem boxLinearRings_eq (p : Poly F) : Src.Wkt.boxLinearRings io p = p.linearRings := by
  simp [Src.Wkt.boxLinearRings, Poly.linearRings]

theorem circleLinearRings_eq (p : Poly F) : Src.Wkt.circleLinearRings io p = p.linearRings := by
  simp [Src.Wkt.circleLinearRings, Poly.linearRings]

theorem ellipseLinearRings_eq (p : Poly F) : Src.Wkt.ellipseLinearRings io p = p.linearRings := by
  simp [Src.Wkt.ellipseLinearRings, Poly.linearRings]

/-- `f'POLYGON({", ".join(…)})'` over the rings `rs` -/
theorem polygonText (rs : List (List (Coord F))) :
    ("POLYGON(" ++ String.intercalate ", " (rs.map fun r => Src.Wkt.linearRingToWkt io r) ++ ")")
      = String.ofList (renderL (.polygon (rs.map (ringToks io)))) := by
  apply eq_ofList
  have h := rings_toList io rs
  simp only [String.toList_append] at h ⊢
  show "POLYGON(".toList ++ _ ++ _ = "POLYGON".toList ++ renderRings _
  rw [← h]
  simp

/-- **`GeoPolygon.to_wkt()`** -/
theorem polygonToWkt_eq (p : Poly F) : Src.Wkt.polygonToWkt io p = render (toWkt io (.polygon p)) := by
  unfold Src.Wkt.polygonToWkt
  simp only [polygonLinearRings_eq, polygonText]
  rfl

/-- **`to_wkt()` of a box / circle / ellipse**: the WKT of `bounding_coords()` and the reversed holes -/
theorem boxToWkt_eq (p : Poly F) : Src.Wkt.boxToWkt io p = render (toWktBounding io p.outline p.holes) := by
  unfold Src.Wkt.boxToWkt
  simp only [boxLinearRings_eq, polygonText]
  rfl

theorem circleToWkt_eq (p : Poly F) : Src.Wkt.circleToWkt io p = render (toWktBounding io p.outline p.holes) := by
  unfold Src.Wkt.circleToWkt
  simp only [circleLinearRings_eq, polygonText]
  rfl

theorem ellipseToWkt_eq (p : Poly F) : Src.Wkt.ellipseToWkt io p = render (toWktBounding io p.outline p.holes) := by
  unfold Src.Wkt.ellipseToWkt
  simp only [ellipseLinearRings_eq, polygonText]
  rfl

/-- **`MultiGeoPoint.to_wkt()`** -/
theorem multiPointToWkt_eq (cs : List (Coord F)) :
    Src.Wkt.multiPointToWkt io cs = render (toWkt io (.multipoint cs)) := by
  apply eq_ofList
  unfold Src.Wkt.multiPointToWkt
  simp only [String.toList_append, toList_join, pointCentroid_eq, map_joinCoord]
  rfl

/-- **`MultiGeoLineString.to_wkt()`** -/
theorem multiLineToWkt_eq (ls : List (List (Coord F))) :
    Src.Wkt.multiLineToWkt io ls = render (toWkt io (.multilinestring ls)) := by
  apply eq_ofList
  have h := rings_toList io ls
  unfold Src.Wkt.multiLineToWkt
  simp only [String.toList_append] at h ⊢
  show "MULTILINESTRING(".toList ++ _ ++ _ = "MULTILINESTRING".toList ++ renderRings _
  rw [← h]
  simp

/-- `MultiGeoPolygon.linear_rings()` -/
theorem multiPolyLinearRings_eq (ps : List (Poly F)) :
    Src.Wkt.multiPolyLinearRings io ps = ps.map Poly.linearRings := by
  simp [Src.Wkt.multiPolyLinearRings, polygonLinearRings_eq]

/-- the loop of `MultiGeoPolygon.to_wkt`, for every list of members still to come and every list of texts collected -/
theorem multiPolyLoop_eq (ps : List (Poly F)) :
    ∀ (l : List (List (List (Coord F)))) (acc : List String),
      Src.Wkt.multiPolyToWkt.loop1 io ps l acc
        = "MULTIPOLYGON(" ++ String.intercalate ", "
            (acc ++ l.map fun rs => String.ofList (renderRings (rs.map (ringToks io)))) ++ ")" := by
  intro l
  induction l with
  | nil => intro acc; simp [Src.Wkt.multiPolyToWkt.loop1]
  | cons rs rest ih =>
    intro acc
    unfold Src.Wkt.multiPolyToWkt.loop1
    simp only [ih]
    have h : ("(" ++ String.intercalate ", " (rs.map fun r => Src.Wkt.linearRingToWkt io r) ++ ")")
        = String.ofList (renderRings (rs.map (ringToks io))) := eq_ofList (rings_toList io rs)
    simp only [h, List.map_cons, List.append_assoc, List.cons_append, List.nil_append]

/-- **`MultiGeoPolygon.to_wkt()`** -/
theorem multiPolyToWkt_eq (ps : List (Poly F)) :
    Src.Wkt.multiPolyToWkt io ps = render (toWkt io (.multipolygon ps)) := by
  unfold Src.Wkt.multiPolyToWkt
  rw [multiPolyLoop_eq, multiPolyLinearRings_eq]
  apply eq_ofList
  simp only [String.toList_append, toList_join, List.nil_append, List.map_map, Function.comp_def,
    String.toList_ofList]
  show _ = "MULTIPOLYGON(".toList
      ++ intercalateL [',', ' '] ((ps.map fun p => p.linearRings.map (ringToks io)).map renderRings) ++ [')']
  rw [List.map_map]
  rfl

/-! ## `GeoRing` -/

/-- `xs[0]` of a non-empty list -/
theorem getIdx_zero {α : Type} (l : List α) (h : l ≠ []) : ∃ a, l.head? = some a ∧ GV.Py.getIdx l 0 = .ok a := by
  cases l with
  | nil => exact absurd rfl h
  | cons a t => exact ⟨a, rfl, rfl⟩

/-- `",".join(" ".join(x.to_str()) for x in ring)`: the inside of `renderRing` -/
theorem ringInside_toList (r : List (Coord F)) :
    (String.intercalate "," (r.map fun x => String.intercalate " " (Src.Wkt.toStr io x))).toList
      = intercalateL [','] ((ringToks io r).map renderCoord) := by
  rw [toList_join, map_joinCoord]; rfl

/-- `''.join(', ' + _linear_ring_to_wkt(list(reversed(h))) for h in holes)` -/
theorem holeStrs_toList (hs : List (List (Coord F))) :
    (String.intercalate "" (hs.map fun h => ", " ++ Src.Wkt.linearRingToWkt io h.reverse)).toList
      = ((hs.map fun h => renderRing (ringToks io h.reverse)).map ([',', ' '] ++ ·)).flatten := by
  rw [toList_join, ← intercalateL_nil_prefix, List.map_map, List.map_map]
  congr 1
  apply List.map_congr_left
  intro h _
  simp only [Function.comp_def, String.toList_append, linearRingToWkt_toList]
  rfl

/-- **full ring, `GeoRing.to_wkt()`**: the two circles as drawn, then the reversed holes -/
theorem ringToWkt_full (v : Src.Wkt.RingView F) (h0 : v.amin = 0) (h360 : v.amax = 360) :
    Src.Wkt.ringToWkt io v = .ok (render (toWktRingFull io v.outerC v.innerC v.holes)) := by
  unfold Src.Wkt.ringToWkt
  simp only [h0, h360]
  rw [if_pos (by decide +kernel)]
  congr 1
  apply eq_ofList
  simp only [String.toList_append, ringInside_toList, holeStrs_toList]
  show _ = "POLYGON".toList ++ renderRings ((v.outerC :: v.innerC :: v.holes.map List.reverse).map (ringToks io))
  simp only [renderRings, List.map_cons, intercalateL_cons, List.map_map, Function.comp_def, renderRing]
  simp [List.append_assoc]

/-- **full ring, `GeoRing.linear_rings()`** (`_draw_bounds()` draws at least one point on each circle) -/
theorem ringLinearRings_full (v : Src.Wkt.RingView F) (h0 : v.amin = 0) (h360 : v.amax = 360)
    (ho : v.outerB ≠ []) (hi : v.innerB ≠ []) :
    Src.Wkt.ringLinearRings io v = .ok (ringFullLinearRings v.outerB v.innerB v.holes) := by
  obtain ⟨a, ha, hga⟩ := getIdx_zero v.outerB ho
  obtain ⟨b, hb, hgb⟩ := getIdx_zero v.innerB hi
  unfold Src.Wkt.ringLinearRings
  simp only [h0, h360, hga, hgb]
  rw [if_pos (by decide +kernel)]
  simp [ringFullLinearRings, ha, hb]

/-- the drawn outline of a wedge: outer arc, inner arc backwards, first point again -/
def wedgeOutline (v : Src.Wkt.RingView F) : List (Coord F) :=
  v.outerB ++ v.innerB.reverse ++ v.outerB.head?.toList

/-- **wedge, `GeoRing.bounding_coords()`** -/
theorem ringBoundingCoords_wedge (v : Src.Wkt.RingView F) (hw : ¬ (v.amin = 0 ∧ v.amax = 360)) (ho : v.outerB ≠ []) :
    Src.Wkt.ringBoundingCoords io v = .ok (wedgeOutline v) := by
  obtain ⟨a, ha, hga⟩ := getIdx_zero v.outerB ho
  have e1 : ((0 : Rat) = v.amin) = (v.amin = 0) := propext eq_comm
  have e2 : ((360 : Rat) = v.amax) = (v.amax = 360) := propext eq_comm
  unfold Src.Wkt.ringBoundingCoords
  by_cases h1 : v.amin = 0 <;> by_cases h2 : v.amax = 360
  · exact absurd ⟨h1, h2⟩ hw
  all_goals simp [e1, e2, h1, h2, hga, wedgeOutline, ha]

theorem ringBoundingCoords_full (v : Src.Wkt.RingView F) (h0 : v.amin = 0) (h360 : v.amax = 360) :
    Src.Wkt.ringBoundingCoords io v = .ok v.outerB := by
  unfold Src.Wkt.ringBoundingCoords
  simp only [h0, h360]
  rw [if_pos (by decide +kernel)]

/-- **wedge, `GeoRing.to_wkt()`**: falls through to `PolygonBase.to_wkt` — the WKT of its `bounding_coords()` and the
    reversed holes, like a box / circle / ellipse -/
theorem ringToWkt_wedge (v : Src.Wkt.RingView F) (hw : ¬ (v.amin = 0 ∧ v.amax = 360)) (ho : v.outerB ≠ []) :
    Src.Wkt.ringToWkt io v = .ok (render (toWktBounding io (wedgeOutline v) v.holes)) := by
  obtain ⟨a, ha, hga⟩ := getIdx_zero v.outerB ho
  have e1 : ((0 : Rat) = v.amin) = (v.amin = 0) := propext eq_comm
  have e2 : ((360 : Rat) = v.amax) = (v.amax = 360) := propext eq_comm
  have hsuper : Src.Wkt.ringSuperToWkt io v = .ok (render (toWktBounding io (wedgeOutline v) v.holes)) := by
    have hlr : Src.Wkt.ringLinearRings io v = .ok ((Poly.mk (wedgeOutline v) v.holes).linearRings) := by
      unfold Src.Wkt.ringLinearRings
      by_cases h1 : v.amin = 0 <;> by_cases h2 : v.amax = 360
      · exact absurd ⟨h1, h2⟩ hw
      all_goals simp [e1, e2, h1, h2, hga, wedgeOutline, ha, Poly.linearRings]
    unfold Src.Wkt.ringSuperToWkt
    simp only [hlr, polygonText]
    rfl
  unfold Src.Wkt.ringToWkt
  by_cases h1 : v.amin = 0 <;> by_cases h2 : v.amax = 360
  · exact absurd ⟨h1, h2⟩ hw
  all_goals simp [e1, e2, h1, h2, hsuper]

end Writers

/-! ## readers: the hand-written logic behind the regular expressions -/

section Readers
variable {F : Type} (io : NumIO F)

/-- **`Coordinate.__eq__`**: latitude, longitude and Z (M is not compared) -/
theorem coordEq_eq (a b : Coord F) : Src.Wkt.coordEq io a b = Coord.eqv io a b := by
  simp [Src.Wkt.coordEq, Coord.eqv, Bool.and_assoc]

/-- the translator's comprehension-with-exceptions is the model's -/
theorem mapE_eq {α β : Type} (f : α → Except String β) : ∀ l : List α, GV.Py.mapE f l = GV.Wkt.mapE f l
  | [] => rfl
  | x :: xs => by
    have ih := mapE_eq f xs
    cases hfx : f x with
    | error e => simp [GV.Py.mapE, GV.Wkt.mapE, hfx]
    | ok y => cases hm : GV.Wkt.mapE f xs <;> simp [GV.Py.mapE, GV.Wkt.mapE, hfx, ih, hm]

/-- `dict(zip(keys, map(float, tokens)))`: the tokens `zip` reaches are converted, the first failure is a `ValueError` -/
theorem dictFloat_eq : ∀ (ks : List Char) (ts : List String),
    Src.Wkt.dictFloat io (ks.zip ts) =
      match rdAll io (ts.take ks.length) with
      | some xs => .ok (ks.zip xs)
      | none => .error "ERR:Value"
  | [], ts => by simp [Src.Wkt.dictFloat, rdAll]
  | k :: ks, [] => by simp [Src.Wkt.dictFloat, rdAll]
  | k :: ks, t :: ts => by
    have ih := dictFloat_eq ks ts
    simp only [List.zip_cons_cons, Src.Wkt.dictFloat, List.length_cons, List.take_succ_cons, rdAll, ih]
    cases io.rd t <;> cases rdAll io (ts.take ks.length) <;> simp

theorem dictGet_cons (kv : Char × F) (d : List (Char × F)) (k : Char) :
    Src.Wkt.dictGet (kv :: d) k = (Src.Wkt.dictGet d k).or (if kv.1 == k then some kv.2 else none) := by
  simp only [Src.Wkt.dictGet, List.reverse_cons, List.find?_append, List.find?_cons, List.find?_nil]
  cases d.reverse.find? (fun x => x.1 == k) <;> cases kv.1 == k <;> simp

/-- the model's fold over the pairs, from any start: a later pair wins over an earlier one and over the start -/
theorem zmFold_eq (d : List (Char × F)) : ∀ acc : Option F × Option F,
    d.foldl (fun (acc : Option F × Option F) kv =>
        if kv.1 = 'z' then (some kv.2, acc.2) else if kv.1 = 'm' then (acc.1, some kv.2) else acc) acc
      = ((Src.Wkt.dictGet d 'z').or acc.1, (Src.Wkt.dictGet d 'm').or acc.2) := by
  induction d with
  | nil => intro acc; simp [Src.Wkt.dictGet]
  | cons kv r ih =>
    intro acc
    rw [List.foldl_cons, ih, dictGet_cons, dictGet_cons]
    by_cases hz : kv.1 = 'z'
    · have hm : ¬ kv.1 = 'm' := by rw [hz]; decide
      cases Src.Wkt.dictGet r 'z' <;> cases Src.Wkt.dictGet r 'm' <;> simp [hz]
    · by_cases hm : kv.1 = 'm'
      · cases Src.Wkt.dictGet r 'z' <;> cases Src.Wkt.dictGet r 'm' <;> simp [hm]
      · cases Src.Wkt.dictGet r 'z' <;> cases Src.Wkt.dictGet r 'm' <;> simp [hz, hm]

/-- `zm.get('z')`, `zm.get('m')` of the dict built from the pairs: what the model's fold assigns -/
theorem zmAssign_eq (order : List Char) (ex : List F) :
    zmAssign order ex = (Src.Wkt.dictGet (order.zip ex) 'z', Src.Wkt.dictGet (order.zip ex) 'm') := by
  unfold zmAssign
  rw [zmFold_eq]
  simp

/-- **`Coordinate.from_wkt(text, zm_order)`** on the split text: fewer than two parts is a `ValueError`, the extras go to
    the letters of the (lower-cased) order, longitude and latitude through the constructor -/
theorem coordFromWkt_eq (toks : CoordT) (order : String) :
    Src.Wkt.coordFromWkt io () toks order = coordFromToks io order.toLower.toList toks := by
  unfold Src.Wkt.coordFromWkt
  match toks with
  | [] => simp [coordFromToks]
  | [a] => simp [coordFromToks]
  | [a, b] =>
    have h0 : zmAssign order.toLower.toList ([] : List F) = (none, none) := by
      rw [zmAssign_eq]; simp [Src.Wkt.dictGet]
    simp only [coordFromToks, List.take_nil, rdAll, h0]
    cases ha : io.rd a <;> cases hb : io.rd b <;> simp [Src.Wkt.coordOfStrs, Src.Wkt.dictGet, ha, hb, h0]
  | a :: b :: c :: rest =>
    -- the number of parts is some `L ≥ 3`: every spelling of the two length tests is decided by these facts
    simp only [List.drop_succ_cons, List.drop_zero, List.take_succ_cons, List.take_zero]
    generalize hL : (((a :: b :: c :: rest).length : Nat) : Int) = L
    have hL3 : 3 ≤ L := by rw [← hL]; simp only [List.length_cons]; omega
    have f1 : ¬ L < 2 := by omega
    have f2 : ¬ L ≤ 2 := by omega
    have f3 : 2 < L := by omega
    have f4 : 2 ≤ L := by omega
    have f5 : ¬ L = 2 := by omega
    have f6 : ¬ 2 = L := by omega
    simp only [dictFloat_eq, coordFromToks]
    cases hr : rdAll io ((c :: rest).take order.toLower.toList.length) with
    | none => simp [f1, f2, f3, f4, f5, f6]
    | some ex =>
      cases ha : io.rd a <;> cases hb : io.rd b <;>
        simp [zmAssign_eq, Src.Wkt.coordOfStrs, ha, hb, f1, f2, f3, f4, f5, f6]

/-- the same as an equation between functions (the element function of the comprehension in `_parse_wkt_linear_ring`) -/
theorem coordFromWkt_fun (order : String) :
    (fun toks => Src.Wkt.coordFromWkt io () toks order) = coordFromToks io order.toLower.toList := by
  funext toks; exact coordFromWkt_eq io toks order

/-! ### `_parse_wkt_linear_ring` -/

theorem bne_cast (a b : Nat) : ((a : Int) != (b : Int)) = (a != b) := by
  by_cases h : a = b
  · subst h; simp
  · have h' : ¬ ((a : Int) = (b : Int)) := by omega
    rw [bne_iff_ne.2 h, bne_iff_ne.2 h']

theorem bne_cast_add (a c b : Nat) : ((a : Int) != (c : Int) + (b : Int)) = (a != c + b) := by
  rw [← Int.natCast_add, bne_cast]

theorem ite_or_split {α : Type} (a b : Bool) (x y : α) :
    (if a then x else if b then x else y) = if (a || b) then x else y := by
  cases a <;> cases b <;> rfl

theorem zm_lower : "ZM".toLower.toList = ['z', 'm'] := by
  simp [String.toLower, String.toList_map]

theorem toLower_ofList (t : List Char) : (String.ofList t).toLower.toList = t.map Char.toLower := by
  simp [String.toLower, String.toList_map]

/-- `len(tag) + 2` for `2 + len(tag)` -/
theorem len_add_two {α : Type} (l : List α) : l.length + 2 = 2 + l.length := Nat.add_comm _ _

/-- **`_parse_wkt_linear_ring(wkt_str, wkt_coords, min_points, closed)`**: the agreement of tag and dimensions, the
    conversion of every coordinate (first exception wins), the minimum number of points and the ring closure are the
    model's `parseRing`.  (`_RE_COORD.findall(wkt_coords)` = the coordinate texts of the ring, `_RE_ZM.findall(wkt_str)` =
    the tag if there is one, `_RE_COORD.search(wkt_str)` = the first coordinate of the text: `Gen/SrcWkt.lean`.) -/
theorem parseLinearRing_eq (w : Wkt) (ring : List CoordT) (n : Nat) (closed : Bool) :
    Src.Wkt.parseLinearRing io w ring (n : Int) closed = parseRing io w ring n closed := by
  have h2 : (2 : Int) = ((2 : Nat) : Int) := rfl
  unfold Src.Wkt.parseLinearRing parseRing Body.dims Src.Wkt.tagList
  cases hfc : w.body.firstCoord <;> cases ht : w.tag
  all_goals simp only [mapE_eq, List.isEmpty_nil, List.isEmpty_cons, if_true, Bool.not_true, Bool.not_false,
    Bool.false_eq_true, if_false, Bool.false_and, Bool.false_or, Bool.true_and, GV.Py.getIdx, coordFromWkt_fun,
    toLower_ofList, zm_lower, String.length_ofList]
  all_goals
    (try rw [h2])
    simp only [bne_cast, bne_cast_add, len_add_two, ite_or_split, zmOrder, List.isEmpty_nil, List.isEmpty_cons, if_true,
      if_false, Bool.false_eq_true]
    split
    · rfl
    · split
      · rename_i heq; try rw [heq]
      · rename_i cs heq
        try rw [heq]
        -- the closing checks, by cases on what the model tests
        by_cases hlt : cs.length < n <;> cases closed <;> rcases cs with _ | ⟨a, t⟩
        all_goals try (simp [GV.Py.getIdx, GV.Py.getLast, coordEq_eq, hlt]; done)
        all_goals
          have hlti : ((t.length : Int) + 1 < (n : Int)) ↔ ((a :: t).length < n) := by
            simp only [List.length_cons]; omega
          cases hl : (a :: t).getLast? with
          | none => simp at hl
          | some b =>
            cases he : Coord.eqv io a b <;> simp [GV.Py.getIdx, GV.Py.getLast, coordEq_eq, hlti, hlt, hl, he]

/-- with `min_points` and `closed` left at their defaults (`GeoPoint`, `MultiGeoPoint`) -/
theorem parseLinearRingDefault_eq (w : Wkt) (ring : List CoordT) :
    Src.Wkt.parseLinearRingDefault io w ring = parseRing io w ring := by
  have h : Src.Wkt.parseLinearRingDefault io w ring = Src.Wkt.parseLinearRing io w ring ((1 : Nat) : Int) false := by
    unfold Src.Wkt.parseLinearRingDefault Src.Wkt.parseLinearRing
    simp
  rw [h]; exact parseLinearRing_eq io w ring 1 false

/-- the checks of the F13 repairs, read off the translated source: a tag that disagrees with the first coordinate's
    dimension, a coordinate of another dimension, too few points, an open polygon ring are `ValueError`s -/
theorem src_parse_rejects (w : Wkt) (ring : List CoordT) (n : Nat) (closed : Bool)
    (h : (w.tag ≠ [] ∧ w.body.dims ≠ 2 + w.tag.length) ∨ (∃ c ∈ ring, c.length ≠ w.body.dims)) :
    Src.Wkt.parseLinearRing io w ring (n : Int) closed = .error "ERR:Value" := by
  rw [parseLinearRing_eq]
  unfold parseRing
  have : ((!w.tag.isEmpty && w.body.dims != 2 + w.tag.length) || ring.any fun c => c.length != w.body.dims) = true := by
    rcases h with ⟨h1, h2⟩ | ⟨c, hc, hne⟩
    · cases ht : w.tag with
      | nil => exact absurd ht h1
      | cons a t =>
        rw [ht] at h2
        have h2' : ¬ w.body.dims = 2 + (t.length + 1) := by simpa using h2
        simp [h2']
    · simp only [Bool.or_eq_true, List.any_eq_true]
      exact Or.inr ⟨c, hc, by simp [hne]⟩
  simp [this]

/-- an open ring read with `closed=True` is a `ValueError` (F13: polygon rings must be closed) -/
theorem src_parse_open_ring (w : Wkt) (ring : List CoordT) (n : Nat) (cs : List (Coord F)) (a b : Coord F)
    (hok : Src.Wkt.parseLinearRing io w ring (n : Int) false = .ok cs)
    (ha : cs.head? = some a) (hb : cs.getLast? = some b) (hne : Coord.eqv io a b = false) :
    Src.Wkt.parseLinearRing io w ring (n : Int) true = .error "ERR:Value" := by
  rw [parseLinearRing_eq] at hok ⊢
  unfold parseRing at hok ⊢
  simp only [] at hok ⊢
  split at hok
  · simp at hok
  · rename_i hc
    rw [if_neg hc]
    split at hok
    · simp at hok
    · rename_i cs' hm
      simp only [Bool.false_eq_true, if_false] at hok
      split at hok
      · simp at hok
      · rename_i hl
        simp only [Except.ok.injEq] at hok
        subst hok
        simp [hl, ha, hb, hne]

end Readers

/-! ## the C13 headline theorems, restated for the translated writers -/

section Headline
variable {F : Type} (io : NumIO F)

/-- what the **source** writes for a shape of each of the six simple types -/
def srcWrite : Geo F → String
  | .point c => Src.Wkt.pointToWkt io c
  | .linestring vs => Src.Wkt.lineToWkt io vs
  | .polygon p => Src.Wkt.polygonToWkt io p
  | .multipoint cs => Src.Wkt.multiPointToWkt io cs
  | .multilinestring ls => Src.Wkt.multiLineToWkt io ls
  | .multipolygon ps => Src.Wkt.multiPolyToWkt io ps

/-- the source's writers write the text of the model's WKT value (no Z/M tag, `str(float)` tokens, `", "` between
    rings / members and `","` between coordinates) -/
theorem srcWrite_eq (g : Geo F) : srcWrite io g = render (toWkt io g) := by
  cases g with
  | point c => exact pointToWkt_eq io c
  | linestring vs => exact lineToWkt_eq io vs
  | polygon p => exact polygonToWkt_eq io p
  | multipoint cs => exact multiPointToWkt_eq io cs
  | multilinestring ls => exact multiLineToWkt_eq io ls
  | multipolygon ps => exact multiPolyToWkt_eq io ps

variable (hio : ∀ x, io.rd (io.shw x) = some x) (hs : ∀ x, tokOk (io.shw x) = true)
include hio hs

/-- **`Type.from_wkt(shape.to_wkt())` gives the shape back**, for the text the translated `to_wkt` produces -/
theorem src_readAs_roundtrip (g : Geo F) (h : g.wf io = true) : readAs io g.kind (srcWrite io g) = .ok g := by
  rw [srcWrite_eq]; exact readAs_render io hio hs g h

/-- **`parse_wkt(shape.to_wkt())` gives the shape back**, for the text the translated `to_wkt` produces -/
theorem src_parseWkt_roundtrip (g : Geo F) (h : g.wf io = true) : parseWkt io stdMap (srcWrite io g) = .ok g := by
  rw [srcWrite_eq]; exact parseWkt_render io hio hs g h

/-- … and equal under the library's `__eq__` -/
theorem src_roundtrip_libEq (g : Geo F) (h : g.wf io = true) :
    ∃ g', parseWkt io stdMap (srcWrite io g) = .ok g' ∧ libEq io g' g = true :=
  ⟨g, src_parseWkt_roundtrip io hio hs g h, libEq_refl io g⟩

/-- a box / circle / ellipse is written as its polygon form and read back as that polygon -/
theorem src_nonsimple_roundtrip (p : Poly F) (hsh : shellWf io p.outline = true)
    (h : (Geo.polygon (toPolygonBounding io p.outline p.holes)).wf io = true) :
    Src.Wkt.boxToWkt io p = Src.Wkt.polygonToWkt io (toPolygonBounding io p.outline p.holes) ∧
    Src.Wkt.circleToWkt io p = Src.Wkt.boxToWkt io p ∧ Src.Wkt.ellipseToWkt io p = Src.Wkt.boxToWkt io p ∧
    parseWkt io stdMap (Src.Wkt.boxToWkt io p) = .ok (.polygon (toPolygonBounding io p.outline p.holes)) := by
  have hb : Src.Wkt.boxToWkt io p = Src.Wkt.polygonToWkt io (toPolygonBounding io p.outline p.holes) := by
    rw [boxToWkt_eq, polygonToWkt_eq, nonsimple_writes_polygon_form io p.outline p.holes hsh]
  refine ⟨hb, by rw [circleToWkt_eq, boxToWkt_eq], by rw [ellipseToWkt_eq, boxToWkt_eq], ?_⟩
  rw [hb]
  exact src_parseWkt_roundtrip io hio hs (.polygon (toPolygonBounding io p.outline p.holes)) h

end Headline

/-- the hypotheses are satisfiable: the two-float instance of `Props/C13.lean` and its example multi-polygon -/
example : parseWkt ioB stdMap (srcWrite ioB exText) = .ok exText :=
  src_parseWkt_roundtrip ioB ioB_roundtrips ioB_tokens exText (by decide +kernel)

end GV.C13Src
