import GeoVerif.Lemmas.PipParity
/-!
# C01 — the crossing parity only changes across the boundary (any ring, any direction)

`Props/C01` proves that the loop of `GeoPolygon._point_in_polygon` computes the even–odd crossing parity
(`pointInRing_eq_spec`).  What links that parity to *topological* insideness is the Jordan-type fact that
the parity is locally constant off the boundary and False far away.  This file proves the half of that
link that exactness needs, for EVERY ring (non-convex, self-intersecting, repeated vertices):

* `parityConst_all : ∀ ring, ParityConst ring` — along every straight segment (any direction) that meets
  no edge of the ring the answer of `pointInRing` is constant.  Proof: a horizontal segment is the axis
  case `axis_parityConst`; an oblique one is mapped to a vertical one by the horizontal shear
  `x ↦ x − (Δx/Δy)·y`, which maps rings to rings, keeps `SegAvoids` and keeps the answer of the loop
  (`pointInRing_shear`: the loop only compares y's and the sign of `pcross`).
* `pip_const_on_paths` — two queries joined by a polyline that avoids the ring get the same answer;
  `pip_false_of_path_to_far` — a query joined by an avoiding polyline to a point outside the ring's bounding
  box is answered False; `pip_true_separated` — a query answered True cannot be joined to any point outside
  the bounding box by an avoiding polyline: the ring separates it from infinity.
* the same for polygons with holes at the level of `polyContains` (`polyContains_const_seg`,
  `polyContains_const_on_paths`, `polyContains_false_of_path_to_far`, `polyContains_true_separated`); the
  bounding-box prefilters inside `ringContains` are redundant for every ring (`ringContains_eq_pointInRing`).
* contrapositive `seg_meets_of_pip_ne`: if two queries get different answers, the straight segment between
  them meets the ring — *not* classically-only: stated as `¬ SegAvoids`.

Not covered (the other half of Jordan, still assumed for non-convex rings): two points with the same
parity and off the boundary of a *simple* ring can be joined by an avoiding polyline.
-/
namespace GV.C01
open GV GV.PipConvex GV.FloodLat GV.PipParity

/-! ## 1. every direction, every ring -/

/-- the loop's answer is invariant under a horizontal shear of ring and query -/
theorem pointInRing_shear (m : Rat) (p : Pt) (ring : List Pt) (inclB : Bool) :
    pointInRing (shear m p) (ring.map (shear m)) inclB = pointInRing p ring inclB :=
  GV.PipParity.pointInRing_shear m p ring inclB

/-- **crossing parity is constant along EVERY straight segment that avoids the ring** — any direction,
    any ring (non-convex, self-intersecting, repeated vertices, degenerate edges) -/
theorem parityConst_all : ∀ ring : List Pt, ParityConst ring := by
  intro ring p q hav
  by_cases hy : p.2 = q.2
  · exact axis_parityConst ring p q (Or.inr hy) hav
  · rw [← GV.PipParity.pointInRing_shear ((q.1 - p.1) / (q.2 - p.2)) p ring false,
      ← GV.PipParity.pointInRing_shear ((q.1 - p.1) / (q.2 - p.2)) q ring false]
    exact axis_parityConst _ _ _ (Or.inl (shear_vertical hy)) (segAvoids_shear _ hav)

/-- the same with `include_boundary=True` (off the boundary the flag is irrelevant) -/
theorem parityConst_all_inclB (ring : List Pt) (p q : Pt) (hav : SegAvoids ring p q) :
    pointInRing p ring true = pointInRing q ring true := by
  have hp : (ringEdges ring).any (onEdge p) = false := by
    apply any_onEdge_false
    intro e he
    have := hav e he 0 (le_refl _) (by norm_num)
    have h0 : lineAt p q 0 = p := by simp [lineAt]
    rwa [h0] at this
  have hq : (ringEdges ring).any (onEdge q) = false := by
    apply any_onEdge_false
    intro e he
    have := hav e he 1 (by norm_num) (le_refl _)
    have h1 : lineAt p q 1 = q := by simp [lineAt]
    rwa [h1] at this
  rw [pointInRing_inclB, pointInRing_inclB, onBoundary, onBoundary, hp, hq, ← pointInRing_eq_spec,
    ← pointInRing_eq_spec, parityConst_all ring p q hav]

/-- contrapositive: two queries with different answers — the segment between them meets the ring -/
theorem seg_meets_of_pip_ne (ring : List Pt) (p q : Pt) (h : pointInRing p ring ≠ pointInRing q ring) :
    ¬ SegAvoids ring p q := fun hav => h (parityConst_all ring p q hav)

/-! ## 2. polylines: the ring separates True answers from infinity -/

/-- every leg of the polyline `p :: path` avoids the ring -/
def pathAvoids (ring : List Pt) : Pt → List Pt → Prop
  | _, [] => True
  | p, q :: rest => SegAvoids ring p q ∧ pathAvoids ring q rest

/-- the end point of the polyline `p :: path` -/
def pathEnd : Pt → List Pt → Pt
  | p, [] => p
  | _, q :: rest => pathEnd q rest

theorem pathEnd_nil (p : Pt) : pathEnd p [] = p := rfl
theorem pathEnd_cons (p q : Pt) (rest : List Pt) : pathEnd p (q :: rest) = pathEnd q rest := rfl

/-- it is the last point of the list `p :: path` -/
theorem pathEnd_eq_getLast : ∀ (p : Pt) (path : List Pt),
    pathEnd p path = (p :: path).getLast (List.cons_ne_nil _ _)
  | _, [] => rfl
  | p, q :: rest => by
    rw [pathEnd_cons, pathEnd_eq_getLast q rest, List.getLast_cons (List.cons_ne_nil q rest)]

/-- **two queries joined by a polyline that avoids the ring get the same answer** -/
theorem pip_const_on_paths (ring : List Pt) : ∀ (p : Pt) (path : List Pt), pathAvoids ring p path →
    pointInRing p ring = pointInRing (pathEnd p path) ring
  | _, [], _ => rfl
  | p, q :: rest, h => by
    rw [pathEnd_cons, parityConst_all ring p q h.1]
    exact pip_const_on_paths ring q rest h.2

/-- the bare loop answers False outside the bounding box of the ring's vertices (`bbox_prefilter_sound`
    is the `ringContains` form for closed rings) -/
theorem pip_false_of_not_inBBox (p : Pt) (ring : List Pt) (h : inBBox p ring = false) :
    pointInRing p ring = false := GV.PipParity.pip_false_of_not_inBBox p ring h

/-- **a query joined by an avoiding polyline to a point outside the bounding box is answered False** -/
theorem pip_false_of_path_to_far (ring : List Pt) (p : Pt) (path : List Pt) (hav : pathAvoids ring p path)
    (hfar : inBBox (pathEnd p path) ring = false) : pointInRing p ring = false := by
  rw [pip_const_on_paths ring p path hav]
  exact pip_false_of_not_inBBox _ ring hfar

/-- **the ring separates a query answered True from infinity**: no avoiding polyline joins it to a point
    outside the bounding box -/
theorem pip_true_separated (ring : List Pt) (p : Pt) (hp : pointInRing p ring = true) (path : List Pt)
    (hfar : inBBox (pathEnd p path) ring = false) : ¬ pathAvoids ring p path := by
  intro hav
  rw [pip_false_of_path_to_far ring p path hav hfar] at hp
  exact absurd hp (by simp)

/-- … equivalently every avoiding polyline from a True query ends inside the bounding box -/
theorem pip_true_path_end_inBBox (ring : List Pt) (p : Pt) (hp : pointInRing p ring = true) (path : List Pt)
    (hav : pathAvoids ring p path) : inBBox (pathEnd p path) ring = true := by
  by_contra hc
  exact pip_true_separated ring p hp path (by simpa using hc) hav

/-! ## 3. polygons with holes (`polyContains`) -/

/-- the bounding-box prefilter of `contains_coordinate` is redundant for every ring, closed or not -/
theorem ringContains_eq_pointInRing (ring : List Pt) (p : Pt) : ringContains ring p = pointInRing p ring :=
  ringContains_eq_pip ring p

/-- `polyContains` is the conjunction of the bare ring tests -/
theorem polyContains_eq_rings (outline : List Pt) (holes : List (List Pt)) (p : Pt) :
    polyContains outline holes p = (pointInRing p outline && !(holes.any fun h => pointInRing p h)) := by
  unfold polyContains
  simp only [ringContains_eq_pip]

theorem any_congr_mem {α : Type} (f g : α → Bool) : ∀ l : List α, (∀ a ∈ l, f a = g a) → l.any f = l.any g
  | [], _ => rfl
  | a :: l, h => by
    rw [List.any_cons, List.any_cons, h a (List.mem_cons_self ..),
      any_congr_mem f g l (fun b hb => h b (List.mem_cons_of_mem _ hb))]

/-- the segment avoids the outline and every hole ring -/
def PolySegAvoids (outline : List Pt) (holes : List (List Pt)) (p q : Pt) : Prop :=
  SegAvoids outline p q ∧ ∀ h ∈ holes, SegAvoids h p q

/-- **`polyContains` is constant along every segment that avoids the outline and every hole** -/
theorem polyContains_const_seg (outline : List Pt) (holes : List (List Pt)) (p q : Pt)
    (hav : PolySegAvoids outline holes p q) : polyContains outline holes p = polyContains outline holes q := by
  rw [polyContains_eq_rings, polyContains_eq_rings, parityConst_all outline p q hav.1,
    any_congr_mem (fun h => pointInRing p h) (fun h => pointInRing q h) holes
      (fun h hh => parityConst_all h p q (hav.2 h hh))]

def polyPathAvoids (outline : List Pt) (holes : List (List Pt)) : Pt → List Pt → Prop
  | _, [] => True
  | p, q :: rest => PolySegAvoids outline holes p q ∧ polyPathAvoids outline holes q rest

theorem polyPathAvoids_outline {outline : List Pt} {holes : List (List Pt)} : ∀ {p : Pt} {path : List Pt},
    polyPathAvoids outline holes p path → pathAvoids outline p path
  | _, [], _ => trivial
  | _, _ :: _, h => ⟨h.1.1, polyPathAvoids_outline h.2⟩

/-- **two queries joined by a polyline avoiding outline and holes get the same `polyContains` answer** -/
theorem polyContains_const_on_paths (outline : List Pt) (holes : List (List Pt)) :
    ∀ (p : Pt) (path : List Pt), polyPathAvoids outline holes p path →
      polyContains outline holes p = polyContains outline holes (pathEnd p path)
  | _, [], _ => rfl
  | p, q :: rest, h => by
    rw [pathEnd_cons, polyContains_const_seg outline holes p q h.1]
    exact polyContains_const_on_paths outline holes q rest h.2

/-- a query joined to a point outside the outline's bounding box by a polyline avoiding the *outline* is
    not contained (whatever the holes) -/
theorem polyContains_false_of_path_to_far (outline : List Pt) (holes : List (List Pt)) (p : Pt) (path : List Pt)
    (hav : pathAvoids outline p path) (hfar : inBBox (pathEnd p path) outline = false) :
    polyContains outline holes p = false := by
  rw [polyContains_eq_rings, pip_false_of_path_to_far outline p path hav hfar]
  rfl

/-- a contained query is separated from infinity by the outline -/
theorem polyContains_true_separated (outline : List Pt) (holes : List (List Pt)) (p : Pt)
    (hp : polyContains outline holes p = true) (path : List Pt)
    (hfar : inBBox (pathEnd p path) outline = false) : ¬ pathAvoids outline p path := by
  intro hav
  rw [polyContains_false_of_path_to_far outline holes p path hav hfar] at hp
  exact absurd hp (by simp)

/-- a query joined to a point strictly inside a hole by a polyline avoiding that hole ring is not
    contained: the hole ring separates its inside from the polygon -/
theorem polyContains_false_of_path_into_hole (outline : List Pt) (holes : List (List Pt)) (h : List Pt)
    (hh : h ∈ holes) (p : Pt) (path : List Pt) (hav : pathAvoids h p path)
    (hin : pointInRing (pathEnd p path) h = true) : polyContains outline holes p = false := by
  rw [polyContains_eq_rings]
  have : (holes.any fun h => pointInRing p h) = true :=
    List.any_eq_true.mpr ⟨h, hh, by rw [pip_const_on_paths h p path hav]; exact hin⟩
  rw [this]
  simp

/-! ## 4. non-vacuity on concrete rationals -/

/-- an L-shaped (non-convex) ring: `[0,4]×[0,2] ∪ [0,2]×[0,4]`, reflex vertex `(2, 2)` -/
def lRing : List Pt := [(0, 0), (4, 0), (4, 2), (2, 2), (2, 4), (0, 4)]

example : ¬ StrictConvexCCW lRing := by decide +kernel

/-- an oblique segment inside the L, passing below the reflex vertex from one arm into the other -/
example : SegAvoids lRing (1/2, 3) (3, 1/2) := segAvoidsC_sound (by decide +kernel)
example : pointInRing (1/2, 3) lRing = true ∧ pointInRing (3, 1/2) lRing = true := by
  refine ⟨by decide +kernel, by decide +kernel⟩
/-- … the theorem transports the answer from one end to the other -/
example : pointInRing (3, 1/2) lRing = true := by
  rw [← parityConst_all lRing (1/2, 3) (3, 1/2) (segAvoidsC_sound (by decide +kernel))]
  decide +kernel

/-- an oblique segment outside, in the notch of the L and leaving the bounding box -/
example : SegAvoids lRing (3, 3) (5, 5/2) := segAvoidsC_sound (by decide +kernel)
example : pointInRing (3, 3) lRing = false ∧ pointInRing (5, 5/2) lRing = false := by
  refine ⟨by decide +kernel, by decide +kernel⟩

/-- the hypothesis is not vacuous the other way: the segment from the inside point `(1/2, 3)` to the notch
    point `(3, 3)` cannot avoid the ring -/
example : ¬ SegAvoids lRing (1/2, 3) (3, 3) :=
  seg_meets_of_pip_ne lRing _ _ (by decide +kernel)
/-- … and it indeed meets the edge `(2, 2)–(2, 4)` at parameter `3/5` -/
example : onEdge (lineAt ((1/2, 3) : Pt) (3, 3) (3/5)) ((2, 2), (2, 4)) = true := by decide +kernel

/-- a two-leg avoiding path from the notch query `(3, 3)` (inside the bounding box `[0,4]²`, outside the
    ring) to `(6, 5)` beyond the bounding box -/
theorem lRing_path : pathAvoids lRing (3, 3) [(5, 5/2), (6, 5)] :=
  ⟨segAvoidsC_sound (by decide +kernel), segAvoidsC_sound (by decide +kernel), trivial⟩

example : inBBox (3, 3) lRing = true ∧ inBBox (pathEnd (3, 3) [(5, 5/2), (6, 5)]) lRing = false := by
  refine ⟨by decide +kernel, by decide +kernel⟩

/-- the theorem gives the answer False for the notch query — and the loop computes False -/
example : pointInRing (3, 3) lRing = false :=
  pip_false_of_path_to_far lRing (3, 3) _ lRing_path (by decide +kernel)

/-- the inside query `(1/2, 3)` is separated from `(6, 5)`: e.g. the straight two-leg polyline through
    `(3, 3)` is not an avoiding path -/
example : ¬ pathAvoids lRing (1/2, 3) [(3, 3), (6, 5)] :=
  pip_true_separated lRing _ (by decide +kernel) _ (by decide +kernel)

/-- a self-intersecting ring (bow-tie) and an oblique segment inside one lobe -/
example : SegAvoids [(0, 0), (4, 4), (4, 0), (0, 4)] (1/2, 1) (1/2 + 1/4, 3) ∧
    pointInRing (1/2, 1) [(0, 0), (4, 4), (4, 0), (0, 4)] = true :=
  ⟨segAvoidsC_sound (by decide +kernel), by decide +kernel⟩

/-- a polygon with a hole: the L with a small square hole in its lower arm; an oblique segment that
    avoids outline and hole, a path from inside the hole that cannot be continued to the polygon -/
def lHole : List Pt := [(1, 1/2), (1, 3/2), (3/2, 3/2), (3/2, 1/2)]

example : PolySegAvoids lRing [lHole] (1/2, 3) (3, 1/2) :=
  ⟨segAvoidsC_sound (by decide +kernel), fun h hh => by
    rw [List.mem_singleton.mp hh]; exact segAvoidsC_sound (by decide +kernel)⟩
example : polyContains lRing [lHole] (1/2, 3) = true ∧ polyContains lRing [lHole] (3, 1/2) = true ∧
    polyContains lRing [lHole] (5/4, 1) = false := by
  refine ⟨by decide +kernel, by decide +kernel, by decide +kernel⟩
example : polyContains lRing [lHole] (9/8, 3/4) = false :=
  polyContains_false_of_path_into_hole lRing [lHole] lHole (List.mem_singleton.mpr rfl) (9/8, 3/4) [(5/4, 1)]
    ⟨segAvoidsC_sound (by decide +kernel), trivial⟩ (by decide +kernel)

end GV.C01
