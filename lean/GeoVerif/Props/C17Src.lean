import GeoVerif.Gen.SrcTrack
import GeoVerif.Props.C17
/-!
# Source tie for `Track.__getitem__` (slice by datetime) and `Track.has_duplicate_timestamps` (`collections.py`)

`GeoVerif/Gen/SrcTrack.lean` is regenerated from the current text of `collections.py` on every run.  The translated
slice is proved equal to the model's `getitem` for every pair of (optional) bounds, the translated duplicate scan — a loop
whose state is the local set `_ts` — to the model's `hasDupLoop` for every member list and every set, and the C17 laws
about them are restated for the translated source.
-/
namespace GV.C17Src
open GV GV.Coll GV.Coll.Track

variable (a b : Option Int)

/-- **the translated `Track.__init__`** (refuse time-less shapes, stable sort by start, hand the list to
    `CollectionBase.__init__`) is the model's `mkTrack` -/
theorem init_eq (l : List Shape) : Src.Track.init a b l = mkTrack l := by
  simp only [Src.Track.init, mkTrack]
  first
    | rfl
    | (have h : (l.all fun x => x.dt.isSome) = l.all Shape.timed := rfl
       rw [h]; cases l.all Shape.timed <;> rfl)

theorem getitem_eq (c : Coll) :
    Src.Track.getitem a b c () = getitem c a b := by
  simp only [Src.Track.getitem, getitem]
  congr 1
  apply List.filter_congr
  intro x _
  unfold sliceKeep
  cases a <;> cases b <;> simp <;> grind

theorem hasDupLoop_eq (c : Coll) :
    ∀ (l : List Shape) (seen : List (Option TI)), Src.Track.hasDup.loop1 a b c l seen = hasDupLoop l seen := by
  intro l
  induction l with
  | nil => intro seen; rfl
  | cons p ps ih =>
    intro seen
    unfold Src.Track.hasDup.loop1 hasDupLoop
    simp only [ih]

theorem hasDup_eq (c : Coll) : Src.Track.hasDup a b c = hasDup c := by
  simp only [Src.Track.hasDup, hasDup, hasDupLoop_eq]

/-! ### the C17 laws, restated for the translated source -/

/-- the source's duplicate scan answers "some time bound occurs twice" -/
theorem src_hasDup_iff (c : Coll) :
    Src.Track.hasDup a b c = true ↔ ¬ (c.shapes.map (·.dt)).Nodup := by
  rw [hasDup_eq]; exact hasDup_iff c

/-- the source's unbounded slice is the whole track -/
theorem src_slice_unbounded {c : Coll} (hc : TrackWF c) :
    Src.Track.getitem none none c () = .ok ⟨.track, c.shapes⟩ := by
  rw [getitem_eq]; exact slice_unbounded hc

end GV.C17Src
