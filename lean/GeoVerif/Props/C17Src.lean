import GeoVerif.Gen.SrcTrack
import GeoVerif.Props.C17
/-!
# Source tie for `Track.__getitem__` (slice by datetime) and `Track.has_duplicate_timestamps` (`collections.py`)

`GeoVerif/Gen/SrcTrack.lean` is regenerated from the current text of `collections.py` on every run.  The translated
slice is proved equal to the model's `getitem` for every pair of (optional) bounds, the translated duplicate scan — a loop
whose state is the local set `_ts` — to the model's `hasDupLoop` for every member list and every set, and the C17 laws
about them are restated for the translated source.

Round 2 extends the unit to the rest of the class: the views `first` / `last` / `start` / `end`, the pairwise
differences, `copy`, `__eq__`, `convolve_duplicate_timestamps` (two loops, a `defaultdict`, `continue`, a dict
comprehension), `filter_by_time` and `filter_impossible_journeys` (an index loop whose every list lookup may raise: the
proof carries the invariant that the indices stay inside the list).  Each is proved equal to the model function, and
`track_sorted` / `slice_exact` / `journeys_chain` / `convolve_nodup` are restated for the translated definitions.
-/
set_option linter.unusedSimpArgs false
set_option linter.unusedTactic false
set_option linter.unreachableTactic false

namespace GV.C17Src
open GV GV.Coll GV.Coll.Track

variable (a b : Option Int) (dist : Shape → Shape → Rat)

/-- **the translated `Track.__init__`** (refuse time-less shapes, stable sort by start, hand the list to
    `CollectionBase.__init__`) is the model's `mkTrack` -/
theorem init_eq (l : List Shape) : Src.Track.init a b dist l = mkTrack l := by
  simp only [Src.Track.init, mkTrack]
  first
    | rfl
    | (have h : (l.all fun x => x.dt.isSome) = l.all Shape.timed := rfl
       rw [h]; cases l.all Shape.timed <;> rfl)

theorem getitem_eq (c : Coll) :
    Src.Track.getitem a b dist c () = getitem c a b := by
  simp only [Src.Track.getitem, getitem]
  congr 1
  apply List.filter_congr
  intro x _
  unfold sliceKeep
  cases a <;> cases b <;> simp <;> grind

theorem hasDupLoop_eq (c : Coll) :
    ∀ (l : List Shape) (seen : List (Option TI)), Src.Track.hasDup.loop1 a b dist c l seen = hasDupLoop l seen := by
  intro l
  induction l with
  | nil => intro seen; rfl
  | cons p ps ih =>
    intro seen
    unfold Src.Track.hasDup.loop1 hasDupLoop
    simp only [ih] <;> cases seen.contains p.dt <;> simp

theorem hasDup_eq (c : Coll) : Src.Track.hasDup a b dist c = hasDup c := by
  simp only [Src.Track.hasDup, hasDup, hasDupLoop_eq]

/-! ### the C17 laws, restated for the translated source -/

/-- the source's duplicate scan answers "some time bound occurs twice" -/
theorem src_hasDup_iff (c : Coll) :
    Src.Track.hasDup a b dist c = true ↔ ¬ (c.shapes.map (·.dt)).Nodup := by
  rw [hasDup_eq]; exact hasDup_iff c

/-- the source's unbounded slice is the whole track -/
theorem src_slice_unbounded {c : Coll} (hc : TrackWF c) :
    Src.Track.getitem none none dist c () = .ok ⟨.track, c.shapes⟩ := by
  rw [getitem_eq]; exact slice_unbounded hc

/-! ## round 2: the rest of the class

`first`, `last`, `start`, `end`, `time_start_diffs`, `centroid_distances`, `copy`, `convolve_duplicate_timestamps`,
`filter_by_time`, `filter_impossible_journeys`.  The haversine distance of two centroids is the parameter `dist`. -/

/-- `len(xs)` against small literals, whichever way round the comparison is written -/
theorem len_nil {α : Type} : GV.Py.len ([] : List α) = 0 := rfl
theorem len_cons_ne {α : Type} (x : α) (xs : List α) : GV.Py.len (x :: xs) ≠ 0 := by
  unfold GV.Py.len; simp only [List.length_cons]; omega
theorem len_cons_ne' {α : Type} (x : α) (xs : List α) : (0 : Int) ≠ GV.Py.len (x :: xs) := (len_cons_ne x xs).symm
theorem len_cons_pos {α : Type} (x : α) (xs : List α) : (0 : Int) < GV.Py.len (x :: xs) := by
  unfold GV.Py.len; simp only [List.length_cons]; omega
theorem len_cons_not_le {α : Type} (x : α) (xs : List α) : ¬ GV.Py.len (x :: xs) ≤ (0 : Int) := by
  have := len_cons_pos x xs; omega

theorem copy_eq (c : Coll) : Src.Track.copy a b dist c = copy c := by
  simp only [Src.Track.copy, copy]

theorem first_eq (c : Coll) : Src.Track.first a b dist c = first c := by
  unfold Src.Track.first first
  cases c.shapes <;> simp [GV.Py.getIdx, len_nil, len_cons_ne, len_cons_ne', len_cons_pos, len_cons_not_le]

theorem last_eq (c : Coll) : Src.Track.last a b dist c = last c := by
  unfold Src.Track.last last
  first | rw [GV.Py.getIdxI_neg_one] | rw [GV.Py.getIdxI_len_pred]
  cases hl : c.shapes.getLast? with
  | none => simp [List.getLast?_eq_none_iff.mp hl, len_nil]
  | some x =>
    have hne : c.shapes ≠ [] := fun h => by rw [h] at hl; cases hl
    obtain ⟨y, ys, hys⟩ := List.exists_cons_of_ne_nil hne
    simp [hne, hys, len_cons_ne, len_cons_ne', len_cons_pos, len_cons_not_le]

theorem startT_eq (c : Coll) : Src.Track.startT a b dist c = startT c := by
  unfold Src.Track.startT startT first
  cases c.shapes <;> simp [GV.Py.getIdx, len_nil, len_cons_ne, len_cons_ne', len_cons_pos, len_cons_not_le]

theorem endT_eq (c : Coll) : Src.Track.endT a b dist c = endT c := by
  unfold Src.Track.endT endT last
  first | rw [GV.Py.getIdxI_neg_one] | rw [GV.Py.getIdxI_len_pred]
  cases hl : c.shapes.getLast? with
  | none => simp [List.getLast?_eq_none_iff.mp hl, len_nil]
  | some x =>
    have hne : c.shapes ≠ [] := fun h => by rw [h] at hl; cases hl
    obtain ⟨y, ys, hys⟩ := List.exists_cons_of_ne_nil hne
    simp [hne, hys, len_cons_ne, len_cons_ne', len_cons_pos, len_cons_not_le]

theorem len_lt_two {α : Type} (l : List α) : decide (GV.Py.len l < (2 : Int)) = decide (l.length < 2) := by
  unfold GV.Py.len
  congr 1
  apply propext
  omega

theorem timeStartDiffs_eq (c : Coll) : Src.Track.timeStartDiffs a b dist c = timeStartDiffs c := by
  unfold Src.Track.timeStartDiffs timeStartDiffs consecutive
  simp only [len_lt_two, List.drop_one, decide_eq_true_eq]

theorem centroidDistances_eq (c : Coll) : Src.Track.centroidDistances a b dist c = centroidDistances dist c := by
  unfold Src.Track.centroidDistances centroidDistances consecutive
  simp only [len_lt_two, List.drop_one, decide_eq_true_eq]

/-! ### `__eq__` -/

theorem listEq_eq : ∀ (xs ys : List Shape), GV.Py.listEq sameOrEq xs ys = sameShapes xs ys
  | [], [] => rfl
  | [], _ :: _ => rfl
  | _ :: _, [] => rfl
  | x :: xs, y :: ys => by simp only [GV.Py.listEq, sameShapes, listEq_eq xs ys]

/-- the translated `__eq__` at an operand of class `Track` … -/
theorem eqTrack_eq (c o : Coll) (ho : o.tag = .track) : Src.Track.eqTrack a b dist c o = eq c o := by
  unfold Src.Track.eqTrack eq
  rw [listEq_eq, ho]
  cases sameShapes c.shapes o.shapes <;> rfl

/-- … and at an operand of another class -/
theorem eqOther_eq (c o : Coll) (ho : o.tag ≠ .track) : Src.Track.eqOther a b dist c o = eq c o := by
  unfold Src.Track.eqOther eq
  cases ht : o.tag
  · rfl
  · exact absurd ht ho

/-- the `==` of member lists of `Model/Track.lean` is the one of `Model/Collection.lean` (C18's `listEq`) … -/
theorem sameShapes_eq_listEq : ∀ (xs ys : List Shape), sameShapes xs ys = GV.Coll.listEq xs ys
  | [], [] => rfl
  | [], _ :: _ => rfl
  | _ :: _, [] => rfl
  | x :: xs, y :: ys => by simp only [sameShapes, GV.Coll.listEq, sameShapes_eq_listEq xs ys]

/-- … so this unit's model of `Track.__eq__` is C18's `eqTrack` (tied to the code by the `list-eq` stream of C18) -/
theorem eq_eq_eqTrack (c o : Coll) : Track.eq c o = GV.Coll.eqTrack c o := by
  unfold Track.eq GV.Coll.eqTrack
  rw [sameShapes_eq_listEq]

theorem sameShapes_refl : ∀ l : List Shape, sameShapes l l = true
  | [] => rfl
  | x :: xs => by simp [sameShapes, sameOrEq, sameShapes_refl xs]

/-- the source's `==` is reflexive on tracks -/
theorem src_eq_refl (c : Coll) : Src.Track.eqTrack a b dist c c = true := by
  unfold Src.Track.eqTrack
  rw [listEq_eq, sameShapes_refl]
  rfl

/-! ### `filter_by_time` -/

theorem filterByTime_eq (c : Coll) (st et : Int) :
    Src.Track.filterByTime a b dist c st et = filterByTime c st et := by
  simp only [Src.Track.filterByTime, filterByTime]
  refine congrArg mkTrack (List.filter_congr ?_)
  intro x _
  unfold timeKeep
  grind

/-! ### `convolve_duplicate_timestamps` -/

/-- `d[p.dt].append(p)` on the `defaultdict(list)` is the model's `groupInsert` -/
theorem ddAppend_eq (g : List (Option TI × List Shape)) (p : Shape) :
    GV.Py.ddAppend g p.dt p = groupInsert g p := by
  induction g with
  | nil => rfl
  | cons kg rest ih =>
    obtain ⟨k, ps⟩ := kg
    simp only [GV.Py.ddAppend, groupInsert, ih]

theorem dictSet_eq (d : List (String × PVal)) (k : String) (v : PVal) : GV.Py.dictSet d k v = assocSet d k v := by
  induction d with
  | nil => rfl
  | cons kv rest ih =>
    obtain ⟨k', v'⟩ := kv
    simp only [GV.Py.dictSet, assocSet, ih]

/-- the dict comprehension over the members' properties is the model's `mergeProps` -/
theorem dictOf_eq (g : List Shape) : GV.Py.dictOf (g.flatMap (fun s => s.props)) = mergeProps g := by
  unfold GV.Py.dictOf mergeProps
  congr 1
  funext d kv
  exact dictSet_eq d kv.1 kv.2

theorem divR_len {α : Type} (x : Rat) (l : List α) (h : l ≠ []) :
    GV.Py.divR x ((GV.Py.len l : Int) : Rat) = .ok (x / (l.length : Rat)) := by
  unfold GV.Py.divR GV.Py.len
  have hl : (l.length : Rat) ≠ 0 := by
    have : l.length ≠ 0 := by simpa using h
    exact_mod_cast this
  have hc : (((l.length : Int) : Rat)) = (l.length : Rat) := by norm_cast
  rw [hc]
  simp [hl]

/-- one group of the second loop: what is appended is the model's `convolveGroup` -/
theorem convolveLoop2_eq (c : Coll) (g0 : List (Option TI × List Shape)) :
    ∀ (items : List (Option TI × List Shape)) (acc : List Shape), (∀ kg ∈ items, kg.2 ≠ []) →
      Src.Track.convolve.loop2 a b dist c g0 items acc = mkTrack (acc ++ items.map convolveGroup) := by
  intro items
  induction items with
  | nil => intro acc _; simp [Src.Track.convolve.loop2]
  | cons kg items ih =>
    intro acc h
    have hrest : ∀ kg ∈ items, kg.2 ≠ [] := fun x hx => h x (by simp [hx])
    have hne : kg.2 ≠ [] := h kg (by simp)
    obtain ⟨k, g⟩ := kg
    unfold Src.Track.convolve.loop2
    match g, hne with
    | [x], _ =>
      simp [GV.Py.len, GV.Py.getIdx, convolveGroup, ih _ hrest]
    | x :: y :: r, _ =>
      have hlen : ¬ (GV.Py.len (x :: y :: r) = 1) := by
        unfold GV.Py.len; simp only [List.length_cons]; omega
      have hlen' : ¬ ((1 : Int) = GV.Py.len (x :: y :: r)) := fun h => hlen h.symm
      have hu : GV.Py.unzip2 ((x :: y :: r).map (fun s : Shape => (s.lon, s.lat))) =
          .ok ((x :: y :: r).map (·.lon), (x :: y :: r).map (·.lat)) := by
        simp [GV.Py.unzip2, List.unzip_eq_map]
      simp only [beq_iff_eq, hlen, hlen', if_false, hu, dictOf_eq]
      rw [divR_len _ _ (by simp), divR_len _ _ (by simp)]
      simp only [ih _ hrest, convolveGroup, avg, GV.Py.sumR, List.map_cons, List.append_assoc,
        List.singleton_append]

theorem convolveLoop1_eq (c : Coll) :
    ∀ (l : List Shape) (g : List (Option TI × List Shape)),
      Src.Track.convolve.loop1 a b dist c l g =
        Src.Track.convolve.loop2 a b dist c (l.foldl groupInsert g) (l.foldl groupInsert g) [] := by
  intro l
  induction l with
  | nil => intro g; rfl
  | cons p ps ih =>
    intro g
    unfold Src.Track.convolve.loop1
    simp only [ddAppend_eq, ih, List.foldl_cons]

/-- **the translated `convolve_duplicate_timestamps`** (duplicate test, `copy`, the grouping `defaultdict`, the loop over its
    items with `continue`, means, merged properties, `GeoPoint`, `Track(…)`) is the model's `convolve` -/
theorem convolve_eq (c : Coll) : Src.Track.convolve a b dist c = convolve c := by
  unfold Src.Track.convolve convolve
  rw [hasDup_eq, copy_eq]
  cases hd : hasDup c
  · simp [copy]
  · have hm := (groupByDt_inv c.shapes).members
    unfold groupByDt at hm ⊢
    simp only [if_true, Bool.not_true, Bool.false_eq_true, if_false, convolveLoop1_eq]
    rw [convolveLoop2_eq a b dist c _ _ [] (fun kg hkg => (hm kg hkg).1)]
    rfl

/-! ### `filter_impossible_journeys` -/

/-- the `for j in range(1, n)` loop with its index arithmetic (every index stays inside the list) is the model's fold -/
theorem journeysLoop_eq (c : Coll) (v : Rat) :
    ∀ (js : List Nat) (i : Nat) (acc : List Shape), i < c.shapes.length → (∀ j ∈ js, j < c.shapes.length) →
      Src.Track.journeys.loop1 a b dist c v (c.shapes.map (fun s => s.startD)) (c.shapes.map (fun s => s))
        (js.map (fun k : Nat => (k : Int))) (i : Int) acc
      = mkTrack ((js.foldl (journeyStep dist v c.shapes) (i, acc)).2) := by
  intro js
  induction js with
  | nil => intro i acc _ _; rfl
  | cons j js ih =>
    intro i acc hi hj
    have hjn : j < c.shapes.length := hj j (by simp)
    have hrest : ∀ k ∈ js, k < c.shapes.length := fun k hk => hj k (by simp [hk])
    have e1 : GV.Py.getIdxI (c.shapes.map (fun s => s)) (i : Int) = .ok c.shapes[i] :=
      GV.Py.getIdxI_ofNat _ _ _ (by simp [hi])
    have e2 : GV.Py.getIdxI (c.shapes.map (fun s => s)) (j : Int) = .ok c.shapes[j] :=
      GV.Py.getIdxI_ofNat _ _ _ (by simp [hjn])
    have e3 : GV.Py.getIdxI (c.shapes.map (fun s => s.startD)) (i : Int) = .ok c.shapes[i].startD :=
      GV.Py.getIdxI_ofNat _ _ _ (by simp [hi])
    have e4 : GV.Py.getIdxI (c.shapes.map (fun s => s.startD)) (j : Int) = .ok c.shapes[j].startD :=
      GV.Py.getIdxI_ofNat _ _ _ (by simp [hjn])
    have e5 : GV.Py.getIdxI c.shapes (j : Int) = .ok c.shapes[j] :=
      GV.Py.getIdxI_ofNat _ _ _ (by simp [hjn])
    have hdt : GV.Py.totalSeconds (c.shapes[j].startD - c.shapes[i].startD) = dtSeconds c.shapes[i] c.shapes[j] := rfl
    simp only [List.map_cons, List.foldl_cons]
    rw [journeyStep_eq dist v c.shapes i j acc c.shapes[i] c.shapes[j] (by simp [hi]) (by simp [hjn])]
    unfold Src.Track.journeys.loop1
    simp only [e1, e2, e3, e4, e5, hdt]
    have ihi := ih i acc hi hrest
    have ihj := ih j (acc ++ [c.shapes[j]]) hjn hrest
    by_cases h0 : dtSeconds c.shapes[i] c.shapes[j] = 0
    · have hr : reach dist v c.shapes[i] c.shapes[j] = false := by simp [reach, h0]
      simpa [h0, hr] using ihi
    · have h0' : ¬ (0 = dtSeconds c.shapes[i] c.shapes[j]) := fun h => h0 h.symm
      by_cases hx : dist c.shapes[i] c.shapes[j] = 0
      · by_cases hv : (0 : Rat) ≤ v
        · have hr : reach dist v c.shapes[i] c.shapes[j] = true := by simp [reach, h0, hx, hv]
          simpa [h0, h0', hx, hv, hr] using ihj
        · have hr : reach dist v c.shapes[i] c.shapes[j] = false := by simp [reach, hx, hv]
          simpa [h0, h0', hx, hv, hr] using ihi
      · by_cases hv : dist c.shapes[i] c.shapes[j] / dtSeconds c.shapes[i] c.shapes[j] ≤ v
        · have hr : reach dist v c.shapes[i] c.shapes[j] = true := by simp [reach, h0, hx, hv]
          simpa [h0, h0', hx, hv, hr, GV.Py.divR] using ihj
        · have hr : reach dist v c.shapes[i] c.shapes[j] = false := by simp [reach, hx, hv]
          simpa [h0, h0', hx, hv, hr, GV.Py.divR] using ihi

/-- **the translated `filter_impossible_journeys`** is the model's `journeys` -/
theorem journeys_eq (c : Coll) (v : Rat) : Src.Track.journeys a b dist c v = journeys dist v c := by
  unfold Src.Track.journeys journeys
  cases hs : c.shapes with
  | nil => simp [GV.Py.getIdxI]
  | cons f r =>
    have h0 : GV.Py.getIdxI (f :: r) (0 : Int) = .ok f := GV.Py.getIdxI_ofNat (f :: r) 0 f (by simp)
    have hr : GV.Py.rangeI (1 : Int) (GV.Py.len (f :: r)) =
        (List.range' 1 ((f :: r).length - 1)).map (fun k : Nat => (k : Int)) := by
      have := GV.Py.rangeI_eq 1 (f :: r).length (by simp)
      simpa [GV.Py.len] using this
    simp only [h0, hr]
    have key := journeysLoop_eq a b dist c v (List.range' 1 ((f :: r).length - 1)) 0 [f]
      (by rw [hs]; simp) (by intro j hj; rw [hs]; simp only [List.mem_range'_1] at hj; omega)
    rw [hs] at key
    exact key

/-! ### the C17 laws, restated for the translated source (round 2) -/

/-- **time order is an invariant of every translated operation**: whatever a slice, a copy, a convolution, a time-of-day
    filter or a speed filter of the *source* returns for a well-formed track is a well-formed track (class `Track`,
    non-decreasing starts, no time-less shape).  (`Track.__add__` and the inherited filters: `Props/C18Src.lean`.) -/
theorem src_ops_keep_order {c c' : Coll} (hc : TrackWF c) (v : Rat) (st et : Int)
    (h : Src.Track.getitem a b dist c () = .ok c' ∨ Src.Track.copy a b dist c = .ok c' ∨
         Src.Track.convolve a b dist c = .ok c' ∨ Src.Track.filterByTime a b dist c st et = .ok c' ∨
         Src.Track.journeys a b dist c v = .ok c') : TrackWF c' := by
  rcases h with h | h | h | h | h
  · rw [getitem_eq] at h; exact step_wf hc (.slice a b) h
  · rw [copy_eq] at h; exact mkTrack_wf h
  · rw [convolve_eq] at h; exact step_wf hc .convolve h
  · rw [filterByTime_eq] at h; exact step_wf hc (.filterTime st et) h
  · rw [journeys_eq] at h; exact step_wf hc (.journeys dist v) h

/-- **the source's slice is exact**: `track[a:b]` succeeds and holds exactly the members that start at or after `a` and end
    before `b` (an omitted bound imposes nothing), in their order -/
theorem src_slice_exact {c : Coll} (hc : TrackWF c) :
    ∃ r, Src.Track.getitem a b dist c () = .ok r ∧ r.tag = .track ∧ r.shapes.Sublist c.shapes ∧
      ∀ x, x ∈ r.shapes ↔ x ∈ c.shapes ∧ (∀ s, a = some s → s ≤ x.startD) ∧ (∀ e, b = some e → x.endD < e) := by
  refine ⟨⟨.track, c.shapes.filter (sliceKeep a b)⟩, ?_, rfl, List.filter_sublist, ?_⟩
  · rw [getitem_eq]; exact slice_exact hc a b
  · intro x
    simp only [List.mem_filter, sliceKeep_iff]

/-- the source's speed filter: consecutive shapes of the result are reachable from one another within the limit -/
theorem src_journeys_chain (v : Rat) {c r : Coll} (hc : TrackWF c) (h : Src.Track.journeys a b dist c v = .ok r) :
    List.IsChain (fun x y => reach dist v x y = true) r.shapes ∧ r.shapes.Sublist c.shapes := by
  rw [journeys_eq] at h; exact journeys_chain dist v hc h

/-- the source's convolution leaves exactly one shape per distinct time stamp -/
theorem src_convolve_nodup {c : Coll} (hc : TrackWF c) :
    ∃ r, Src.Track.convolve a b dist c = .ok r ∧ TrackWF r ∧ (r.shapes.map (·.dt)).Nodup ∧
      ∀ d, d ∈ r.shapes.map (·.dt) ↔ d ∈ c.shapes.map (·.dt) := by
  rw [convolve_eq]; exact convolve_nodup hc

/-- the source's `start` is the earliest start of the track -/
theorem src_start_le {c : Coll} (hc : TrackWF c) {t : Int} (h : Src.Track.startT a b dist c = .ok t) :
    ∀ x ∈ c.shapes, t ≤ x.startD := by
  rw [startT_eq] at h
  unfold startT first at h
  have hs := hc.2.1
  unfold Sorted at hs
  cases hl : c.shapes with
  | nil => rw [hl] at h; cases h
  | cons f r =>
    rw [hl] at h hs
    cases h
    intro x hx
    rcases List.mem_cons.mp hx with rfl | hx
    · exact le_refl _
    · exact (List.pairwise_cons.mp hs).1 x hx

theorem zip_tail_le : ∀ (l : List Shape), l.Pairwise (fun x y => x.startD ≤ y.startD) →
    ∀ p ∈ l.zip l.tail, p.1.startD ≤ p.2.startD
  | [], _, p, hp => by simp at hp
  | [x], _, p, hp => by simp at hp
  | x :: y :: r, h, p, hp => by
    simp only [List.tail_cons, List.zip_cons_cons, List.mem_cons] at hp
    rcases hp with rfl | hp
    · exact (List.pairwise_cons.mp h).1 y (by simp)
    · exact zip_tail_le (y :: r) (List.pairwise_cons.mp h).2 p (by simpa using hp)

/-- the pairwise start differences of a well-formed track are non-negative -/
theorem src_timeStartDiffs_nonneg {c : Coll} (hc : TrackWF c) {ds : List Int}
    (h : Src.Track.timeStartDiffs a b dist c = .ok ds) : ∀ d ∈ ds, 0 ≤ d := by
  rw [timeStartDiffs_eq] at h
  unfold timeStartDiffs consecutive at h
  split at h
  · cases h
  · cases h
    intro d hd
    obtain ⟨p, hp, rfl⟩ := List.mem_map.mp hd
    have hs := hc.2.1
    unfold Sorted at hs
    have : p.1.startD ≤ p.2.startD := zip_tail_le c.shapes hs p hp
    omega

/-- non-vacuity: a track on which the translated views, differences, convolution and speed filter are all non-trivial -/
example :
    let s (i : Int) (x y : Int) (lon : Rat) : Shape := ⟨i, i, some ⟨x, y⟩, [], lon, 0⟩
    let c : Coll := ⟨.track, [s 0 0 9000000 0, s 1 1000000 1000000 1, s 2 1000000 1000000 0, s 3 3000000 3000000 1]⟩
    let dist : Shape → Shape → Rat := fun p q => if p.lon = q.lon then 0 else 10
    TrackWF c ∧ Src.Track.first none none dist c = .ok (s 0 0 9000000 0) ∧
      Src.Track.endT none none dist c = .ok 3000000 ∧
      Src.Track.timeStartDiffs none none dist c = .ok [1000000, 0, 2000000] ∧
      Src.Track.journeys none none dist c 5 = .ok ⟨.track, [s 0 0 9000000 0, s 2 1000000 1000000 0, s 3 3000000 3000000 1]⟩ := by
  intro s c dist
  have hc : TrackWF c := ⟨rfl, by unfold Sorted; decide, by decide⟩
  refine ⟨hc, by rw [first_eq]; rfl, by rw [endT_eq]; rfl, by rw [timeStartDiffs_eq]; decide, ?_⟩
  rw [journeys_eq, journeys_eq_kept dist 5 hc (by decide)]
  simp only [c, s, dist, kept, greedy, reach, dtSeconds, Shape.startD]
  norm_num

end GV.C17Src
