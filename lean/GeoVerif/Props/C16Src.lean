import GeoVerif.Gen.SrcMut
import GeoVerif.Props.C16
import GeoVerif.Props.C06Src

/-!
# C16 — the theorems hold of the *translated source* of the updating methods of `_base.py`

`GeoVerif/Gen/SrcMut.lean` is regenerated on every run by `harness/py2lean.py` from the current text of
`geostructures/_base.py`: `set_dt` (one instance per kind of argument: `None`, a `TimeInterval`, a `datetime`),
`buffer_dt`, `strip_dt`, `set_property` — each with `inplace` given and left at its default — and the observations
they feed: `start`, `end`, `properties`, `PolygonLikeMixin.volume`.  In the translation a shape is a reference into an
activation (`Model/ObjAct.lean`: heap + the shape records in scope, the receiver at reference 0);
`shape = self if inplace else self.copy()` binds `shape` to reference 0 or to a new reference holding the model's
`copy`, and the store `shape.dt = …` / `shape._properties[k] = …` rewrites whatever `shape` denotes.

Here every translated updater, run on the receiver `o` in heap `h`, is proved equal to the model's `step h o m inplace`
(heap afterwards, receiver afterwards, returned object, exception) — for both values of `inplace` and all arguments —
and the translated observations are proved to be the stated functions of `observe`.  The C16 theorems are then restated
for histories whose updates are the *translated* methods.
-/
set_option linter.unusedSectionVars false
set_option linter.unusedVariables false

namespace GV.C16Src
open GV GV.OS
variable {G H W α : Type} [Num α] (areaOf : Stamp H W → α) (secs : Int → α)

/-! ## two facts about the model used below -/

/-- `copy()` keeps the value of the time bounds -/
theorem copy_dtOf (h : Heap H W) (o : Obj G H W) : dtOf (copy h o).2 = dtOf o := by
  simp only [copy, clone, copyDt, dtOf]
  cases o.dt with
  | none => rfl
  | some p => obtain ⟨l, t⟩ := p; cases o.kind.dtShared <;> simp [TI.copy_eq]

/-- `buffer_dt` of the model reads only the *value* of `dt` -/
theorem applyMut_bufferDt (h : Heap H W) (o : Obj G H W) (d : Int) :
    applyMut h o (.bufferDt d) =
      match dtOf o with
      | none => .error "ERR:Value"
      | some t =>
        match TI.mk? (t.start - d) (t.stop + d) with
        | .error e => .error e
        | .ok t' => .ok (h.bump, { o with dt := some (h.next, t') }) := by
  simp only [applyMut, dtOf]
  cases o.dt with
  | none => rfl
  | some p => rfl

/-! ## the translated updaters are the model's `step` -/

/-- unfold a translated updater and the model's step, decide both `inplace` modes -/
macro "upd_eq" ip:ident "with" defs:Lean.Parser.Tactic.simpLemma,* : tactic =>
  `(tactic| (cases $ip:ident <;>
      simp [$defs,*, Act.result, Act.enter, Act.copyOf, Act.setDt, Act.setProp, Act.dt, step, applyMut, Mut.isApi, upd]))

/-- `shape.set_dt(None, inplace)` -/
theorem setDtNone_eq (h : Heap H W) (o : Obj G H W) (ip : Bool) :
    Act.result h o (Src.Mut.setDtNone (Act.enter h o) areaOf secs 0 ip) = step h o (.setDt none) ip := by
  upd_eq ip with Src.Mut.setDtNone

/-- `shape.set_dt(TimeInterval, inplace)` -/
theorem setDtTI_eq (h : Heap H W) (o : Obj G H W) (t : TI) (ip : Bool) :
    Act.result h o (Src.Mut.setDtTI (Act.enter h o) areaOf secs 0 t ip) = step h o (.setDt (some t)) ip := by
  upd_eq ip with Src.Mut.setDtTI

/-- `shape.set_dt(datetime, inplace)`: the instant becomes the zero-length interval; its constructor cannot fail -/
theorem setDtDt_eq (h : Heap H W) (o : Obj G H W) (d : Int) (ip : Bool) :
    Act.result h o (Src.Mut.setDtDt (Act.enter h o) areaOf secs 0 d ip) = step h o (.setDt (some ⟨d, d⟩)) ip := by
  have hmk : TI.mk? d d = .ok ⟨d, d⟩ := by simp [TI.mk?]
  upd_eq ip with Src.Mut.setDtDt, C06Src.init_eq, hmk

/-- `shape.buffer_dt(timedelta, inplace)`: the `dt` test comes before the copy, the constructor after it; an
    inverted interval raises and leaves the receiver alone in both modes -/
theorem bufferDt_eq (h : Heap H W) (o : Obj G H W) (d : Int) (ip : Bool) :
    Act.result h o (Src.Mut.bufferDt (Act.enter h o) areaOf secs 0 d ip) = step h o (.bufferDt d) ip := by
  cases hdt : dtOf o with
  | none =>
    cases ip <;> simp [Src.Mut.bufferDt, Act.result, Act.enter, Act.copyOf, Act.setDt, Act.dt, step, applyMut_bufferDt,
      copy_dtOf, C06Src.init_eq, Mut.isApi, upd, hdt]
  | some t =>
    cases hmk : TI.mk? (t.start - d) (t.stop + d) <;> cases ip <;>
      simp [Src.Mut.bufferDt, Act.result, Act.enter, Act.copyOf, Act.setDt, Act.dt, step, applyMut_bufferDt,
        copy_dtOf, C06Src.init_eq, Mut.isApi, upd, hdt, hmk]

/-- `shape.strip_dt(inplace)` -/
theorem stripDt_eq (h : Heap H W) (o : Obj G H W) (ip : Bool) :
    Act.result h o (Src.Mut.stripDt (Act.enter h o) areaOf secs 0 ip) = step h o .stripDt ip := by
  upd_eq ip with Src.Mut.stripDt

/-- `shape.set_property(key, value, inplace)` -/
theorem setProperty_eq (h : Heap H W) (o : Obj G H W) (k : String) (v : PArg) (ip : Bool) :
    Act.result h o (Src.Mut.setProperty (Act.enter h o) areaOf secs 0 k v ip) = step h o (.setProp k v) ip := by
  cases v <;> upd_eq ip with Src.Mut.setProperty

/-- `inplace` left at its default is `inplace=True`, for every updater -/
theorem defaults_eq (h : Heap H W) (o : Obj G H W) (t : TI) (d : Int) (k : String) (v : PArg) :
    Src.Mut.setDtNoneDefault (Act.enter h o) areaOf secs 0 = Src.Mut.setDtNone (Act.enter h o) areaOf secs 0 true ∧
    Src.Mut.setDtTIDefault (Act.enter h o) areaOf secs 0 t = Src.Mut.setDtTI (Act.enter h o) areaOf secs 0 t true ∧
    Src.Mut.setDtDtDefault (Act.enter h o) areaOf secs 0 d = Src.Mut.setDtDt (Act.enter h o) areaOf secs 0 d true ∧
    Src.Mut.bufferDtDefault (Act.enter h o) areaOf secs 0 d = Src.Mut.bufferDt (Act.enter h o) areaOf secs 0 d true ∧
    Src.Mut.stripDtDefault (Act.enter h o) areaOf secs 0 = Src.Mut.stripDt (Act.enter h o) areaOf secs 0 true ∧
    Src.Mut.setPropertyDefault (Act.enter h o) areaOf secs 0 k v =
      Src.Mut.setProperty (Act.enter h o) areaOf secs 0 k v true := by
  refine ⟨?_, ?_, ?_, ?_, ?_, ?_⟩ <;>
    simp [Src.Mut.setDtNoneDefault, Src.Mut.setDtNone, Src.Mut.setDtTIDefault, Src.Mut.setDtTI, Src.Mut.setDtDtDefault,
      Src.Mut.setDtDt, Src.Mut.bufferDtDefault, Src.Mut.bufferDt, Src.Mut.stripDtDefault, Src.Mut.stripDt,
      Src.Mut.setPropertyDefault, Src.Mut.setProperty]

/-! ## the translated observations are functions of what `observe` shows -/

theorem startDt_eq (a : Act G H W) (r : Nat) :
    Src.Mut.startDt a areaOf secs r = startOf (observe a.heap (a.objs r)).fields.dt := by
  simp only [Src.Mut.startDt, Act.dt, startOf, observe, fields]
  cases dtOf (a.objs r) <;> rfl

theorem endDt_eq (a : Act G H W) (r : Nat) :
    Src.Mut.endDt a areaOf secs r = endOf (observe a.heap (a.objs r)).fields.dt := by
  simp only [Src.Mut.endDt, Act.dt, endOf, observe, fields]
  cases dtOf (a.objs r) <;> rfl

/-- `shape.properties` never raises: the stored properties, plus the two ends of the time bounds if there are any -/
theorem properties_eq (a : Act G H W) (r : Nat) :
    Src.Mut.properties a areaOf secs r =
      .ok (propertiesOf (observe a.heap (a.objs r)).fields.props (observe a.heap (a.objs r)).fields.dt) := by
  simp only [Src.Mut.properties, Src.Mut.startDt, Src.Mut.endDt, Act.dt, Act.propsCopy, propertiesOf, observe, fields]
  cases dtOf (a.objs r) <;> rfl

/-- `shape.volume` is the stated function of the pair `observe` calls `volume` (the inputs of the memoised area, and
    the time bounds): it is not memoised itself -/
theorem volume_eq (a : Act G H W) (r : Nat) :
    Src.Mut.volume a areaOf secs r = volumeOf areaOf secs (observe a.heap (a.objs r)).volume := by
  simp only [Src.Mut.volume, Act.dt, Act.areaStamp, volumeOf, observe, C06Src.elapsed_eq]
  cases dtOf (a.objs r) <;> rfl

/-- two shapes that `observe` alike answer the four translated observations alike -/
theorem src_obs_congr {a a' : Act G H W} {r r' : Nat}
    (hobs : observe a.heap (a.objs r) = observe a'.heap (a'.objs r')) :
    Src.Mut.startDt a areaOf secs r = Src.Mut.startDt a' areaOf secs r' ∧
    Src.Mut.endDt a areaOf secs r = Src.Mut.endDt a' areaOf secs r' ∧
    Src.Mut.properties a areaOf secs r = Src.Mut.properties a' areaOf secs r' ∧
    Src.Mut.volume a areaOf secs r = Src.Mut.volume a' areaOf secs r' := by
  simp only [startDt_eq, endDt_eq, properties_eq, volume_eq, hobs, and_self]

/-! ## histories whose updates are the translated methods -/

/-- a call of one of the translated updating methods, as the caller writes it -/
inductive Call
  | setDtNone (inplace : Bool)
  | setDtTI (t : TI) (inplace : Bool)
  | setDtDt (d : Int) (inplace : Bool)
  | bufferDt (d : Int) (inplace : Bool)
  | stripDt (inplace : Bool)
  | setProperty (k : String) (v : PArg) (inplace : Bool)

/-- the translated source run on the receiver `o` in heap `h` -/
def Call.run (h : Heap H W) (o : Obj G H W) : Call → StepResult G H W
  | .setDtNone ip => Act.result h o (Src.Mut.setDtNone (Act.enter h o) areaOf secs 0 ip)
  | .setDtTI t ip => Act.result h o (Src.Mut.setDtTI (Act.enter h o) areaOf secs 0 t ip)
  | .setDtDt d ip => Act.result h o (Src.Mut.setDtDt (Act.enter h o) areaOf secs 0 d ip)
  | .bufferDt d ip => Act.result h o (Src.Mut.bufferDt (Act.enter h o) areaOf secs 0 d ip)
  | .stripDt ip => Act.result h o (Src.Mut.stripDt (Act.enter h o) areaOf secs 0 ip)
  | .setProperty k v ip => Act.result h o (Src.Mut.setProperty (Act.enter h o) areaOf secs 0 k v ip)

/-- the model's name for the call -/
def Call.mut : Call → Mut H
  | .setDtNone _ => .setDt none
  | .setDtTI t _ => .setDt (some t)
  | .setDtDt d _ => .setDt (some ⟨d, d⟩)
  | .bufferDt d _ => .bufferDt d
  | .stripDt _ => .stripDt
  | .setProperty k v _ => .setProp k v

def Call.inplace : Call → Bool
  | .setDtNone ip | .setDtTI _ ip | .setDtDt _ ip | .bufferDt _ ip | .stripDt ip | .setProperty _ _ ip => ip

theorem Call.isApi (c : Call) : (c.mut (H := H)).isApi = true := by cases c <;> rfl

/-- **every translated updater is the model's step function for that operation** -/
theorem call_eq_step (h : Heap H W) (o : Obj G H W) (c : Call) :
    c.run areaOf secs h o = step h o c.mut c.inplace := by
  cases c with
  | setDtNone ip => exact setDtNone_eq areaOf secs h o ip
  | setDtTI t ip => exact setDtTI_eq areaOf secs h o t ip
  | setDtDt d ip => exact setDtDt_eq areaOf secs h o d ip
  | bufferDt d ip => exact bufferDt_eq areaOf secs h o d ip
  | stripDt ip => exact stripDt_eq areaOf secs h o ip
  | setProperty k v ip => exact setProperty_eq areaOf secs h o k v ip

/-- one step of a history: a read, a read with the second shape as argument, or a translated update -/
inductive SOp
  | read (r : Read)
  | read2 (r : Read)
  | call (c : Call)

def SOp.op : SOp → Op H
  | .read r => .read r
  | .read2 r => .read2 r
  | .call c => .update c.mut c.inplace

def srcStep (fills : FillTable) (s : St G H W) : SOp → St G H W
  | .call c => let r := c.run areaOf secs s.heap s.obj; { s with heap := r.heap, obj := r.self }
  | op => opStep fills s op.op

def srcRun (fills : FillTable) (s : St G H W) : List SOp → St G H W
  | [] => s
  | op :: ops => srcRun fills (srcStep areaOf secs fills s op) ops

theorem srcStep_eq (fills : FillTable) (s : St G H W) (op : SOp) :
    srcStep areaOf secs fills s op = opStep fills s op.op := by
  cases op with
  | read r => rfl
  | read2 r => rfl
  | call c => simp only [srcStep, SOp.op, opStep, call_eq_step]

theorem srcRun_eq (fills : FillTable) : ∀ (ops : List SOp) (s : St G H W),
    srcRun areaOf secs fills s ops = run fills s (ops.map SOp.op)
  | [], _ => rfl
  | op :: ops, s => by simp only [srcRun, List.map_cons, run, srcStep_eq, srcRun_eq fills ops]

theorem sop_api (ops : List SOp) : ∀ op ∈ ops.map (SOp.op (H := H)), op.api := by
  intro op hop
  obtain ⟨so, _, rfl⟩ := List.mem_map.mp hop
  cases so with
  | read r => trivial
  | read2 r => trivial
  | call c => exact c.isApi

/-- **C16 headline for the translated source**: after any history of reads and calls of the translated `set_dt` /
    `buffer_dt` / `strip_dt` / `set_property` (either `inplace` mode, failing calls included) every observation of the
    live shape — the memoised ones and `volume` included — equals that of a freshly constructed shape with the same
    fields -/
theorem src_obs_coherent (fills : FillTable) (f g : Fields G H W) (hf : f.OK) (hg : g.OK) (ops : List SOp) :
    observe (srcRun areaOf secs fills (init f g) ops).heap (srcRun areaOf secs fills (init f g) ops).obj =
      observe (fresh (fields (srcRun areaOf secs fills (init f g) ops).heap (srcRun areaOf secs fills (init f g) ops).obj)).1
              (fresh (fields (srcRun areaOf secs fills (init f g) ops).heap (srcRun areaOf secs fills (init f g) ops).obj)).2 := by
  rw [srcRun_eq]
  exact obs_coherent fills f g hf hg _ (sop_api ops)

/-- … and the argument shape of the predicates observes as it did at the start -/
theorem src_arg_untouched (fills : FillTable) (f g : Fields G H W) (hf : f.OK) (hg : g.OK) (ops : List SOp) :
    observe (srcRun areaOf secs fills (init f g) ops).heap (srcRun areaOf secs fills (init f g) ops).arg =
      observe (init f g).heap (init f g).arg := by
  rw [srcRun_eq]
  exact arg_untouched fills _ (init_inv f g hf hg) (sop_api ops)

/-- one-step form: one translated update on a well-formed shape whose memo slots are coherent leaves every
    observation equal to that of a fresh shape with the fields the shape has now -/
theorem src_update_coherent (fills : FillTable) {s : St G H W} (i : Inv s) (c : Call) :
    observe (srcStep areaOf secs fills s (.call c)).heap (srcStep areaOf secs fills s (.call c)).obj =
      observe (fresh (fields (srcStep areaOf secs fills s (.call c)).heap (srcStep areaOf secs fills s (.call c)).obj)).1
              (fresh (fields (srcStep areaOf secs fills s (.call c)).heap (srcStep areaOf secs fills s (.call c)).obj)).2 := by
  have i' : Inv (srcStep areaOf secs fills s (.call c)) := by
    rw [srcStep_eq]; exact opStep_inv fills i _ c.isApi
  exact obs_coherent_of i'.wfObj i'.cohObj

/-- the translated observations of the live shape after any such history are those of the fresh shape -/
theorem src_observations_coherent (fills : FillTable) (f g : Fields G H W) (hf : f.OK) (hg : g.OK) (ops : List SOp)
    (a a' : Act G H W) (r r' : Nat)
    (ha : a.heap = (srcRun areaOf secs fills (init f g) ops).heap ∧ a.objs r = (srcRun areaOf secs fills (init f g) ops).obj)
    (ha' : a'.heap = (fresh (fields a.heap (a.objs r))).1 ∧ a'.objs r' = (fresh (fields a.heap (a.objs r))).2) :
    Src.Mut.startDt a areaOf secs r = Src.Mut.startDt a' areaOf secs r' ∧
    Src.Mut.endDt a areaOf secs r = Src.Mut.endDt a' areaOf secs r' ∧
    Src.Mut.properties a areaOf secs r = Src.Mut.properties a' areaOf secs r' ∧
    Src.Mut.volume a areaOf secs r = Src.Mut.volume a' areaOf secs r' := by
  apply src_obs_congr
  rw [ha'.1, ha'.2, ha.1, ha.2]
  exact src_obs_coherent areaOf secs fills f g hf hg ops

/-- **`inplace=False` in the translated source leaves the receiver untouched** and returns a shape with exactly the
    fields the in-place call would have produced -/
theorem src_not_inplace {h : Heap H W} {o : Obj G H W} (w : WF h o) (c : Call) (hip : c.inplace = false) :
    (c.run areaOf secs h o).self = o ∧ observe (c.run areaOf secs h o).heap o = observe h o ∧
    (match (c.run areaOf secs h o).returned with
     | some x => (fields h o).apply (c.mut (H := H)) = .ok (fields (c.run areaOf secs h o).heap x)
     | none => ∃ e, (fields h o).apply (c.mut (H := H)) = .error e) := by
  rw [call_eq_step, hip]
  exact ⟨(not_inplace_untouched _ c.isApi w).1, (not_inplace_untouched _ c.isApi w).2, not_inplace_returns _ c.isApi w⟩

/-- in place, the translated source does to the fields what `Fields.apply` says (a failing call changes nothing) -/
theorem src_inplace_refines {h : Heap H W} {o : Obj G H W} (w : WF h o) (c : Call) (hip : c.inplace = true) :
    (match (fields h o).apply (c.mut (H := H)) with
     | .ok f' => fields (c.run areaOf secs h o).heap (c.run areaOf secs h o).self = f'
     | .error _ => fields (c.run areaOf secs h o).heap (c.run areaOf secs h o).self = fields h o) := by
  rw [call_eq_step, hip]
  exact inplace_refines _ c.isApi w

/-! ## non-vacuity -/

private def fA : Fields Nat Nat Nat := ⟨.ring, 3, some ⟨0, 10⟩, [("k", .atom 1)], some [5, 6], none⟩
private def fB : Fields Nat Nat Nat := ⟨.polygon, 4, none, [], some [], some [1, 2, 3, 1]⟩
private def allFill : FillTable := fun _ _ _ => [(.bounds, []), (.centroid, []), (.area, [.shapely])]
private def hist : List SOp :=
  [.read .area, .call (.bufferDt 5 true), .read2 .contains, .call (.setProperty "k" (.list [2]) true),
   .call (.stripDt false), .call (.setDtDt 7 false), .call (.bufferDt (-11) true)]

/-- a history of translated calls that really changes `dt`; the inverted buffer at the end raises and is skipped -/
example : (fields (srcRun (fun (_ : Stamp Nat Nat) => (0 : Float)) (fun _ => 0) allFill (init fA fB) hist).heap
    (srcRun (fun (_ : Stamp Nat Nat) => (0 : Float)) (fun _ => 0) allFill (init fA fB) hist).obj).dt = some ⟨-5, 15⟩ := by
  decide

/-- the translated `properties` of a shape with time bounds shows both ends -/
example : Src.Mut.properties (Act.enter (fresh fA).1 (fresh fA).2) (fun (_ : Stamp Nat Nat) => (0 : Float)) (fun _ => 0) 0 =
    .ok [("k", .atom 1), ("datetime_start", .atom 0), ("datetime_end", .atom 10)] := by decide

end GV.C16Src
