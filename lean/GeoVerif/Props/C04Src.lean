import GeoVerif.Gen.SrcMulti
import GeoVerif.Props.C04
/-!
# Source tie for the member loops of `geostructures/_base.py` (`MultiShapeBase`)

`GeoVerif/Gen/SrcMulti.lean` is regenerated from the current text of `_base.py` on every run (early-exit `for` loops and
`any(...)`/`all(...)` become `List.any` / `List.all`).  Each translated loop is proved equal to the hand-written
structural recursion of `Model/Multi.lean`, for every member list and every member-level relation, and the C04 laws are
restated for the translated loops.
-/
namespace GV.C04Src
open GV GV.Multi

variable {μ σ κ : Type}

/-- unfold the translated loops; bring the model's recursions to their `any`/`all` normal forms; the rest is
    propositional -/
macro "loop_eq" : tactic =>
  `(tactic| (
    simp only [Src.Multi.containsCoord, Src.Multi.containsSingle, Src.Multi.containsMulti, Src.Multi.intersectsSingle,
      Src.Multi.intersectsMulti, containsCoord_eq_any, containsSingle_eq_any, containsMulti_eq_all_any,
      intersectsSingle_eq_any, intersectsMulti_eq_any_any]
    <;> first
      | rfl
      | (rw [Bool.eq_iff_iff]; simp [List.any_eq_true, List.all_eq_true]; done)
      | grind))

theorem containsCoord_eq (rc : μ → κ → Bool) (rs ri : μ → σ → Bool) (ms : List μ) (c : κ) :
    Src.Multi.containsCoord rc rs ri ms c = containsCoord rc ms c := by loop_eq

theorem containsSingle_eq (rc : μ → κ → Bool) (rs ri : μ → σ → Bool) (ms : List μ) (x : σ) :
    Src.Multi.containsSingle rc rs ri ms x = containsSingle rs ms x := by loop_eq

theorem containsMulti_eq (rc : μ → κ → Bool) (rs ri : μ → σ → Bool) (ms : List μ) (ys : List σ) :
    Src.Multi.containsMulti rc rs ri ms ys = containsMulti rs ms ys := by loop_eq

theorem intersectsSingle_eq (rc : μ → κ → Bool) (rs ri : μ → σ → Bool) (ms : List μ) (x : σ) :
    Src.Multi.intersectsSingle rc rs ri ms x = intersectsSingle ri ms x := by loop_eq

theorem intersectsMulti_eq (rc : μ → κ → Bool) (rs ri : μ → σ → Bool) (ms : List μ) (ys : List σ) :
    Src.Multi.intersectsMulti rc rs ri ms ys = intersectsMulti ri ms ys := by loop_eq

/-! ### the C04 laws, restated for the translated source -/

/-- the source's `contains_coordinate`: some member contains the coordinate -/
theorem src_containsCoord_iff (rc : μ → κ → Bool) (rs ri : μ → σ → Bool) (ms : List μ) (c : κ) :
    Src.Multi.containsCoord rc rs ri ms c = true ↔ ∃ m ∈ ms, rc m c = true := by
  rw [containsCoord_eq, containsCoord_eq_any, List.any_eq_true]

/-- the source's `intersects_shape`: some member intersects some part of the argument -/
theorem src_intersects_iff (rc : μ → κ → Bool) (rs ri : μ → σ → Bool) (ms : List μ) (a : Arg σ) :
    (match a with
      | .single x => Src.Multi.intersectsSingle rc rs ri ms x
      | .multi ys => Src.Multi.intersectsMulti rc rs ri ms ys) = true ↔ ∃ m ∈ ms, ∃ p ∈ a.parts, ri m p = true := by
  rw [← intersectsShape_iff]; cases a <;> simp only [intersectsSingle_eq, intersectsMulti_eq, intersectsShape]

/-- the source's `contains_shape`: every part of the argument is contained by some member -/
theorem src_contains_iff (rc : μ → κ → Bool) (rs ri : μ → σ → Bool) (ms : List μ) (a : Arg σ) :
    (match a with
      | .single x => Src.Multi.containsSingle rc rs ri ms x
      | .multi ys => Src.Multi.containsMulti rc rs ri ms ys) = true ↔ ∀ p ∈ a.parts, ∃ m ∈ ms, rs m p = true := by
  rw [← containsShape_iff]; cases a <;> simp only [containsSingle_eq, containsMulti_eq, containsShape]

end GV.C04Src
