import GeoVerif.Gen.SrcMulti
import GeoVerif.Props.C04
/-!
# Source tie for the member loops of `geostructures/_base.py` (`MultiShapeBase`)

`GeoVerif/Gen/SrcMulti.lean` is regenerated from the current text of `_base.py` on every run (early-exit `for` loops and
`any(...)`/`all(...)` become `List.any` / `List.all`).  Each translated loop is proved equal to the hand-written
structural recursion of `Model/Multi.lean`, for every member list and every member-level relation, and the C04 laws are
restated for the translated loops.

Round 2: `bounds` (the four columns through `list(zip(*…))`, `min` / `max`), `__iter__`, and `split`, translated on the heap
of property dictionaries (`GV.Py.mapH` threads the heap through the member copies and through the stores) and proved
equal to the model's `split` for every heap; `bounds_is_union`, `bounds_perm`, `split_spec`, `split_isolated` restated for
the source.  The public relations (`contains`, `in`, `intersects` with their time gates): `Props/C04SrcGate.lean`.
-/
set_option linter.unusedSimpArgs false
set_option linter.unusedTactic false
set_option linter.unreachableTactic false

namespace GV.C04Src
open GV GV.Multi

variable {μ σ κ : Type}

/-- unfold the translated loops; bring the model's recursions to their `any`/`all` normal forms; the rest is
    propositional -/
macro "loop_eq" : tactic =>
  `(tactic| (
    simp only [Src.Multi.containsCoord, Src.Multi.containsSingle, Src.Multi.containsMulti, Src.Multi.intersectsSingle,
      Src.Multi.intersectsMulti, containsCoord_eq_any, containsSingle_eq_any, containsMulti_eq_all_any,
      intersectsSingle_eq_any, intersectsMulti_eq_any_any]
    <;> first
      | rfl
      | (rw [Bool.eq_iff_iff]; simp [List.any_eq_true, List.all_eq_true]; done)
      | grind))

theorem containsCoord_eq (rc : μ → κ → Bool) (rs ri : μ → σ → Bool) (bnd : μ → Box) (ms : List μ) (c : κ) :
    Src.Multi.containsCoord rc rs ri bnd ms c = containsCoord rc ms c := by loop_eq

theorem containsSingle_eq (rc : μ → κ → Bool) (rs ri : μ → σ → Bool) (bnd : μ → Box) (ms : List μ) (x : σ) :
    Src.Multi.containsSingle rc rs ri bnd ms x = containsSingle rs ms x := by loop_eq

theorem containsMulti_eq (rc : μ → κ → Bool) (rs ri : μ → σ → Bool) (bnd : μ → Box) (ms : List μ) (ys : List σ) :
    Src.Multi.containsMulti rc rs ri bnd ms ys = containsMulti rs ms ys := by loop_eq

theorem intersectsSingle_eq (rc : μ → κ → Bool) (rs ri : μ → σ → Bool) (bnd : μ → Box) (ms : List μ) (x : σ) :
    Src.Multi.intersectsSingle rc rs ri bnd ms x = intersectsSingle ri ms x := by loop_eq

theorem intersectsMulti_eq (rc : μ → κ → Bool) (rs ri : μ → σ → Bool) (bnd : μ → Box) (ms : List μ) (ys : List σ) :
    Src.Multi.intersectsMulti rc rs ri bnd ms ys = intersectsMulti ri ms ys := by loop_eq

/-! ### the C04 laws, restated for the translated source -/

/-- the source's `contains_coordinate`: some member contains the coordinate -/
theorem src_containsCoord_iff (rc : μ → κ → Bool) (rs ri : μ → σ → Bool) (bnd : μ → Box) (ms : List μ) (c : κ) :
    Src.Multi.containsCoord rc rs ri bnd ms c = true ↔ ∃ m ∈ ms, rc m c = true := by
  rw [containsCoord_eq, containsCoord_eq_any, List.any_eq_true]

/-- the source's `intersects_shape`: some member intersects some part of the argument -/
theorem src_intersects_iff (rc : μ → κ → Bool) (rs ri : μ → σ → Bool) (bnd : μ → Box) (ms : List μ) (a : Arg σ) :
    (match a with
      | .single x => Src.Multi.intersectsSingle rc rs ri bnd ms x
      | .multi ys => Src.Multi.intersectsMulti rc rs ri bnd ms ys) = true ↔ ∃ m ∈ ms, ∃ p ∈ a.parts, ri m p = true := by
  rw [← intersectsShape_iff]; cases a <;> simp only [intersectsSingle_eq, intersectsMulti_eq, intersectsShape]

/-- the source's `contains_shape`: every part of the argument is contained by some member -/
theorem src_contains_iff (rc : μ → κ → Bool) (rs ri : μ → σ → Bool) (bnd : μ → Box) (ms : List μ) (a : Arg σ) :
    (match a with
      | .single x => Src.Multi.containsSingle rc rs ri bnd ms x
      | .multi ys => Src.Multi.containsMulti rc rs ri bnd ms ys) = true ↔ ∀ p ∈ a.parts, ∃ m ∈ ms, rs m p = true := by
  rw [← containsShape_iff]; cases a <;> simp only [containsSingle_eq, containsMulti_eq, containsShape]

/-! ## round 2: `bounds` -/

theorem foldl_min_eq (x : Rat) (ys : List Rat) :
    ys.foldl (fun m y => if y < m then y else m) x = pyMin x ys := by
  induction ys generalizing x with
  | nil => rfl
  | cons y ys ih => simp only [List.foldl_cons, pyMin, ih]

theorem foldl_max_eq (x : Rat) (ys : List Rat) :
    ys.foldl (fun m y => if y > m then y else m) x = pyMax x ys := by
  induction ys generalizing x with
  | nil => rfl
  | cons y ys ih => simp only [List.foldl_cons, pyMax, ih]

/-- **the translated `bounds`** (the four columns of the members' bounds through `list(zip(*…))`, `min` / `max` of each) is
    the model's `bounds` of the list of member bounds — including the `ValueError` of a multi-shape without members -/
theorem bounds_eq (rc : μ → κ → Bool) (rs ri : μ → σ → Bool) (bnd : μ → Box) (ms : List μ) :
    Src.Multi.bounds rc rs ri bnd ms = bounds (ms.map bnd) := by
  unfold Src.Multi.bounds
  cases ms with
  | nil => simp [GV.Py.unzip4, bounds]
  | cons m ms =>
    simp [GV.Py.unzip4, GV.Py.minL, GV.Py.maxL, bounds, foldl_min_eq, foldl_max_eq, List.map_map, Function.comp_def]

/-- the source's `bounds` of a multi-shape with at least one member: the union of the members' bounds -/
theorem src_bounds_is_union (rc : μ → κ → Bool) (rs ri : μ → σ → Bool) (bnd : μ → Box) (ms : List μ) (hne : ms ≠ []) :
    ∃ B, Src.Multi.bounds rc rs ri bnd ms = .ok B ∧ IsUnion B (ms.map bnd) := by
  rw [bounds_eq]; exact bounds_is_union _ (by simpa using hne)

/-- the source's `bounds` does not depend on the member order -/
theorem src_bounds_perm (rc : μ → κ → Bool) (rs ri : μ → σ → Bool) (bnd : μ → Box) {ms ms' : List μ} (h : ms.Perm ms') :
    Src.Multi.bounds rc rs ri bnd ms = Src.Multi.bounds rc rs ri bnd ms' := by
  rw [bounds_eq, bounds_eq]; exact bounds_perm (h.map bnd)

/-! ## round 2: `__iter__`, `split` -/

/-- iterating a multi-shape yields its members, in order -/
theorem iter_eq (rc : μ → κ → Bool) (rs ri : μ → σ → Bool) (bnd : μ → Box) (ms : List μ) :
    Src.Multi.iter rc rs ri bnd ms = ms := by
  simp only [Src.Multi.iter]

/-- two heap-threading maps with pointwise equal steps are equal -/
theorem mapH_congr {η α β : Type} (f g : η → α → η × β) (hfg : ∀ h x, f h x = g h x) :
    ∀ (h : η) (l : List α), GV.Py.mapH f h l = GV.Py.mapH g h l := by
  intro h l
  induction l generalizing h with
  | nil => rfl
  | cons x xs ih => simp only [GV.Py.mapH, hfg, ih]

/-- the model's `copyAll` threads the heap through the member copies -/
theorem copyAll_eq_mapH {γ : Type} (h : Heap) (ms : List (Shp γ)) :
    copyAll h ms = GV.Py.mapH copyMember h ms := by
  induction ms generalizing h with
  | nil => rfl
  | cons m ms ih => simp only [copyAll, GV.Py.mapH, ih]

/-- the model's `assignAll` threads the heap through the stores -/
theorem assignAll_eq_mapH {γ : Type} (pdt : Option TI) (pa : Nat) (h : Heap) (ss : List (Shp γ)) :
    assignAll pdt pa h ss =
      GV.Py.mapH (fun h s => ((h.alloc (h.read pa)).1, { geom := s.geom, dt := pdt, props := (h.alloc (h.read pa)).2 }))
        h ss := by
  induction ss generalizing h with
  | nil => rfl
  | cons s ss ih => simp only [assignAll, GV.Py.mapH, ih]

/-- **the translated `split`** — `[shape.copy() for shape in self.geoshapes]` (each copy allocates), then the loop that
    stores a *new* copy of the parent's dictionary and the parent's `dt` into every copy — is the model's `split`, on
    every heap -/
theorem split_eq {γ : Type} (rc : μ → κ → Bool) (rs ri : μ → σ → Bool) (bnd : μ → Box)
    (h : Heap) (pdt : Option TI) (pa : Nat) (ms : List (Shp γ)) :
    Src.Multi.split rc rs ri bnd h (ms, pdt, pa) = split h pdt pa ms := by
  have key : ∀ (f1 : Heap → Shp γ → Heap × Shp γ) (f2 : Heap → Shp γ → Heap × Shp γ),
      (∀ hh m, f1 hh m = copyMember hh m) →
      (∀ hh s, f2 hh s = ((hh.alloc (hh.read pa)).1, { geom := s.geom, dt := pdt, props := (hh.alloc (hh.read pa)).2 })) →
      ((GV.Py.mapH f2 (GV.Py.mapH f1 h ms).1 (GV.Py.mapH f1 h ms).2).1,
        (GV.Py.mapH f2 (GV.Py.mapH f1 h ms).1 (GV.Py.mapH f1 h ms).2).2) = split h pdt pa ms := by
    intro f1 f2 e1 e2
    unfold split
    rw [copyAll_eq_mapH, assignAll_eq_mapH, mapH_congr f1 copyMember e1, mapH_congr f2 _ e2]
  unfold Src.Multi.split
  exact key _ _ (fun _ _ => rfl) (fun _ _ => rfl)

/-- the source's `split`: member geometries in order, the parent's `dt`, the parent's properties in **new** dictionaries,
    no dictionary shared, nothing that existed modified -/
theorem src_split_spec {γ : Type} (rc : μ → κ → Bool) (rs ri : μ → σ → Bool) (bnd : μ → Box)
    (h : Heap) (pdt : Option TI) (pa : Nat) (ms : List (Shp γ)) (hpa : pa < h.length) :
    let r := Src.Multi.split rc rs ri bnd h (ms, pdt, pa)
    r.2.map (·.geom) = ms.map (·.geom) ∧
    (∀ s ∈ r.2, s.dt = pdt) ∧
    (∀ s ∈ r.2, r.1.read s.props = h.read pa) ∧
    (∀ s ∈ r.2, h.length ≤ s.props ∧ s.props < r.1.length) ∧
    (r.2.map (·.props)).Nodup ∧
    (∀ a, a < h.length → r.1.read a = h.read a) := by
  rw [split_eq]; exact split_spec h pdt pa ms hpa

/-- the source's `split` shares no mutable state: `set_property` on a returned shape reaches neither the parent nor the
    members nor the other returned shapes, and `set_property` on the parent afterwards does not reach the returned shapes -/
theorem src_split_isolated {γ : Type} (rc : μ → κ → Bool) (rs ri : μ → σ → Bool) (bnd : μ → Box)
    (h : Heap) (pdt : Option TI) (pa : Nat) (ms : List (Shp γ)) (hpa : pa < h.length) (k v : String) :
    let r := Src.Multi.split rc rs ri bnd h (ms, pdt, pa)
    (∀ s ∈ r.2,
      let h2 := setProperty r.1 s k v
      h2.read s.props = dictSet (h.read pa) k v ∧
      h2.read pa = h.read pa ∧
      (∀ m ∈ ms, m.props < h.length → h2.read m.props = h.read m.props) ∧
      (∀ s' ∈ r.2, s'.props ≠ s.props → h2.read s'.props = h.read pa)) ∧
    (∀ s ∈ r.2, (Heap.write r.1 pa (dictSet (r.1.read pa) k v)).read s.props = h.read pa) := by
  rw [split_eq]; exact split_isolated h pdt pa ms hpa k v

end GV.C04Src
