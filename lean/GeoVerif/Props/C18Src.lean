import GeoVerif.Gen.SrcColl
import GeoVerif.Props.C06Src
import GeoVerif.Props.C18
/-!
# Source tie for the collection filters of `geostructures/collections.py` (`CollectionBase`)

`GeoVerif/Gen/SrcColl.lean` is regenerated from the current text of `collections.py` on every run (list
comprehensions become `List.filter`, or `List.filterM` in `Except` when the test calls a constructor; `type(self)(…)`
is the model's `rewrap`).  Each translated filter is proved equal to the hand-written model of
`Model/Collection.lean`, for every collection, every query time bound and every per-shape predicate, and the C18
exactness laws are restated for the translated filters.
-/
namespace GV.C18Src
open GV GV.Coll

variable (qdt : Option TI) (xi xc qc : Shape → Bool)

theorem filterByDtIval_eq (c : Coll) (i : TI) :
    Src.Coll.filterByDtIval qdt xi xc qc c i = c.filterByDt (.ival i) := by
  simp only [Src.Coll.filterByDtIval, filterByDt, C06Src.intersects_eq]
  congr 1
  apply List.filter_congr
  intro x _
  unfold dtIntersects
  cases x.dt <;> simp

theorem filterByDtInst_eq (c : Coll) (t : Int) :
    Src.Coll.filterByDtInst qdt xi xc qc c t = c.filterByDt (.inst t) := by
  simp only [Src.Coll.filterByDtInst, filterByDt]
  rw [Py.filterE_ok _ (dtEquals t)]
  intro x
  unfold dtEquals
  cases x.dt with
  | none => rfl
  | some d =>
    have h : Src.Time.init t t = .ok ⟨t, t⟩ := by simp [Src.Time.init]
    simp only [h, C06Src.eq_eq]
    cases d.eq ⟨t, t⟩ <;> rfl

theorem filterByIntersection_eq (c : Coll) (q : Unit) :
    Src.Coll.filterByIntersection qdt xi xc qc c q = c.filterByIntersection xi qc := by
  simp only [Src.Coll.filterByIntersection, filterByIntersection]

theorem filterContainedBy_eq (c : Coll) (q : Unit) :
    Src.Coll.filterContainedBy qdt xi xc qc c q = c.filterContainedBy xc qc := by
  simp only [Src.Coll.filterContainedBy, filterContainedBy]

theorem filterContains_eq (c : Coll) (q : Unit) :
    Src.Coll.filterContains qdt xi xc qc c q = c.filterContains xc qc := by
  simp only [Src.Coll.filterContains, filterContains]

theorem intersects_eq (c : Coll) (q : Unit) :
    Src.Coll.intersects qdt xi xc qc c q = c.intersects qdt xi := by
  simp only [Src.Coll.intersects, Coll.intersects, filterByDtIval_eq]
  cases qdt with
  | none => cases c.shapes.any xi <;> rfl
  | some i =>
    simp only
    cases c.filterByDt (.ival i) with
    | error e => rfl
    | ok c' => simp only; cases c'.shapes.any xi <;> rfl

/-! ### the C18 exactness laws, restated for the translated source -/

theorem src_filterByDt_inst (c : Coll) (hc : WF c) (t : Int) :
    IsFilterOf (fun x => decide (x.dt = some ⟨t, t⟩)) c (Src.Coll.filterByDtInst qdt xi xc qc c t) := by
  rw [filterByDtInst_eq]; exact filterByDt_inst c hc t

theorem src_filterByDt_ival (c : Coll) (hc : WF c) (i : TI) :
    IsFilterOf (fun x => match x.dt with | none => false | some d => i.intersects d) c
      (Src.Coll.filterByDtIval qdt xi xc qc c i) := by
  rw [filterByDtIval_eq]; exact filterByDt_ival c hc i

theorem src_filterByIntersection_exact (c : Coll) (hc : WF c) :
    IsFilterOf xi c (Src.Coll.filterByIntersection qdt xi xc qc c ()) := by
  rw [filterByIntersection_eq]; exact filterByIntersection_exact c hc xi qc

theorem src_filterContains_exact (c : Coll) (hc : WF c) :
    IsFilterOf xc c (Src.Coll.filterContains qdt xi xc qc c ()) := by
  rw [filterContains_eq]; exact filterContains_exact c hc xc qc

theorem src_filterContainedBy_exact (c : Coll) (hc : WF c) :
    IsFilterOf qc c (Src.Coll.filterContainedBy qdt xi xc qc c ()) := by
  rw [filterContainedBy_eq]; exact filterContainedBy_exact c hc xc qc

end GV.C18Src
