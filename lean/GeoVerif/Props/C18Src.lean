import GeoVerif.Gen.SrcColl
import GeoVerif.Props.C06Src
import GeoVerif.Props.C18
/-!
# Source tie for the collection filters of `geostructures/collections.py` (`CollectionBase`)

`GeoVerif/Gen/SrcColl.lean` is regenerated from the current text of `collections.py` on every run (list
comprehensions become `List.filter`, or `List.filterM` in `Except` when the test calls a constructor; `type(self)(…)`
is the model's `rewrap`).  Each translated filter is proved equal to the hand-written model of
`Model/Collection.lean`, for every collection, every query time bound and every per-shape predicate, and the C18
exactness laws are restated for the translated filters.
-/
namespace GV.C18Src
open GV GV.Coll

variable (qdt : Option TI) (xi xc qc : Shape → Bool)

/-- `intersects` is symmetric on well-formed intervals (so the operand order in the source does not matter) -/
theorem ti_intersects_symm (a b : TI) (ha : TI.WF a) (hb : TI.WF b) : a.intersects b = b.intersects a := by
  rw [TI.intersects_eq_not_disjoint a b ha hb, TI.intersects_eq_not_disjoint b a hb ha, TI.isdisjoint_symm a b ha hb]

/-- what the constructors guarantee of every time bound in sight -/
def TimesWF (c : Coll) : Prop := ∀ x ∈ c.shapes, ∀ d, x.dt = some d → TI.WF d

theorem filterByDtIval_eq (c : Coll) (i : TI) (hc : TimesWF c) (hi : TI.WF i) :
    Src.Coll.filterByDtIval qdt xi xc qc c i = c.filterByDt (.ival i) := by
  simp only [Src.Coll.filterByDtIval, filterByDt, C06Src.intersects_eq]
  congr 1
  apply List.filter_congr
  intro x hx
  unfold dtIntersects
  cases hd : x.dt with
  | none => simp
  | some d =>
    have hdw := hc x hx d hd
    first
      | simp; done
      | (simp; exact ti_intersects_symm _ _ (by assumption) (by assumption))
      | grind [ti_intersects_symm]

theorem filterByDtInst_eq (c : Coll) (t : Int) :
    Src.Coll.filterByDtInst qdt xi xc qc c t = c.filterByDt (.inst t) := by
  simp only [Src.Coll.filterByDtInst, filterByDt]
  rw [Py.filterE_ok _ (dtEquals t)]
  intro x
  unfold dtEquals
  cases x.dt with
  | none => rfl
  | some d =>
    have h : Src.Time.init t t = .ok ⟨t, t⟩ := by simp [Src.Time.init]
    simp only [h, C06Src.eq_eq]
    cases d.eq ⟨t, t⟩ <;> rfl

theorem filterByIntersection_eq (c : Coll) (q : Unit) :
    Src.Coll.filterByIntersection qdt xi xc qc c q = c.filterByIntersection xi qc := by
  simp only [Src.Coll.filterByIntersection, filterByIntersection]

theorem filterContainedBy_eq (c : Coll) (q : Unit) :
    Src.Coll.filterContainedBy qdt xi xc qc c q = c.filterContainedBy xc qc := by
  simp only [Src.Coll.filterContainedBy, filterContainedBy]

theorem filterContains_eq (c : Coll) (q : Unit) :
    Src.Coll.filterContains qdt xi xc qc c q = c.filterContains xc qc := by
  simp only [Src.Coll.filterContains, filterContains]

theorem intersects_eq (c : Coll) (q : Unit) (hc : TimesWF c) (hq : ∀ i, qdt = some i → TI.WF i) :
    Src.Coll.intersects qdt xi xc qc c q = c.intersects qdt xi := by
  simp only [Src.Coll.intersects, Coll.intersects]
  cases qdt with
  | none => first | rfl | (cases c.shapes.any xi <;> rfl) | grind
  | some i =>
    simp only [filterByDtIval_eq _ xi xc qc c i hc (hq i rfl)]
    cases c.filterByDt (.ival i) with
    | error e => first | rfl | grind
    | ok c' => first | rfl | (simp only; cases c'.shapes.any xi <;> rfl) | grind

/-- the loop of the translated `filter_by_property` (KeyError at the first member without the key, `append` in order),
    followed by `type(self)(…)`, is the model's loop followed by `rewrap` -/
theorem filterProp_loop_eq (c : Coll) (key : String) (f : PVal → Bool) :
    ∀ (l acc : List Shape),
      Src.Coll.filterByProperty.loop1 qdt xi xc qc c key f l acc =
        (match filterPropLoop key f l acc with
          | .error e => .error e
          | .ok r => rewrap c.tag r) := by
  intro l
  induction l with
  | nil => intro acc; rfl
  | cons x xs ih =>
    intro acc
    unfold Src.Coll.filterByProperty.loop1 filterPropLoop
    cases hk : assocGet x.properties key with
    | none => simp
    | some v =>
      simp only [Option.isSome_some, Bool.not_true, Bool.false_eq_true, if_false, ih]
      cases f v <;> simp

theorem filterByProperty_eq (c : Coll) (key : String) (f : PVal → Bool) :
    Src.Coll.filterByProperty qdt xi xc qc c key f = c.filterByProperty key f := by
  simp only [Src.Coll.filterByProperty, Coll.filterByProperty, filterProp_loop_eq]
  cases filterPropLoop key f c.shapes [] <;> rfl

theorem bool_eq (c : Coll) : Src.Coll.bool qdt xi xc qc c = c.bool := by
  simp only [Src.Coll.bool, Coll.bool]

/-- `__add__` of the source, per class of the two operands, is the model's `add` -/
theorem add_eq (a b : Coll) :
    (a.tag = .fc → b.tag = .fc → Src.Coll.fcAddFc qdt xi xc qc a b = add a b) ∧
    (a.tag = .fc → b.tag = .track → Src.Coll.fcAddTrack qdt xi xc qc a b = add a b) ∧
    (a.tag = .track → b.tag = .track → Src.Coll.trackAddTrack qdt xi xc qc a b = add a b) ∧
    (a.tag = .track → b.tag = .fc → Src.Coll.trackAddFc qdt xi xc qc a b = add a b) := by
  refine ⟨?_, ?_, ?_, ?_⟩ <;> intro ha hb <;>
    simp only [Src.Coll.fcAddFc, Src.Coll.fcAddTrack, Src.Coll.trackAddTrack, Src.Coll.trackAddFc, add, ha, hb]

/-! ### the C18 exactness laws, restated for the translated source -/

theorem src_filterByDt_inst (c : Coll) (hc : WF c) (t : Int) :
    IsFilterOf (fun x => decide (x.dt = some ⟨t, t⟩)) c (Src.Coll.filterByDtInst qdt xi xc qc c t) := by
  rw [filterByDtInst_eq]; exact filterByDt_inst c hc t

theorem src_filterByDt_ival (c : Coll) (hc : WF c) (i : TI) (ht : TimesWF c) (hi : TI.WF i) :
    IsFilterOf (fun x => match x.dt with | none => false | some d => i.intersects d) c
      (Src.Coll.filterByDtIval qdt xi xc qc c i) := by
  rw [filterByDtIval_eq qdt xi xc qc c i ht hi]; exact filterByDt_ival c hc i

theorem src_filterByIntersection_exact (c : Coll) (hc : WF c) :
    IsFilterOf xi c (Src.Coll.filterByIntersection qdt xi xc qc c ()) := by
  rw [filterByIntersection_eq]; exact filterByIntersection_exact c hc xi qc

theorem src_filterContains_exact (c : Coll) (hc : WF c) :
    IsFilterOf xc c (Src.Coll.filterContains qdt xi xc qc c ()) := by
  rw [filterContains_eq]; exact filterContains_exact c hc xc qc

theorem src_filterContainedBy_exact (c : Coll) (hc : WF c) :
    IsFilterOf qc c (Src.Coll.filterContainedBy qdt xi xc qc c ()) := by
  rw [filterContainedBy_eq]; exact filterContainedBy_exact c hc xc qc

/-! ### the list protocol (`__contains__`, `__iter__`, `__len__`, `__getitem__`, `__eq__`)

Every method hands the question to the list `self.geoshapes`; the builtin list's dunder methods are read as the
model's list functions (`sameOrEq` membership, `getIdx`, `getSlice`, `listEq`), so what is proved is that the
collection delegates to *that* list, unchanged, and to the right operation. -/

theorem contains_eq (c : Coll) (item : Shape) : Src.Coll.contains qdt xi xc qc c item = c.contains item := by
  simp only [Src.Coll.contains, Coll.contains]

theorem iter_eq (c : Coll) :
    Src.Coll.iter qdt xi xc qc c = c.iter ∧ Src.Coll.fcIter qdt xi xc qc c = c.iter := by
  simp only [Src.Coll.iter, Src.Coll.fcIter, Coll.iter, and_self]

theorem len_eq (c : Coll) :
    Src.Coll.len qdt xi xc qc c = c.len ∧ Src.Coll.fcLen qdt xi xc qc c = c.len := by
  simp only [Src.Coll.len, Src.Coll.fcLen, Coll.len, and_self]

/-- `collection[i]` -/
theorem fcGetIdx_eq (c : Coll) (i : Int) : Src.Coll.fcGetIdx qdt xi xc qc c i = c.getIdx i := by
  simp only [Src.Coll.fcGetIdx]; rfl

/-- `collection[a:b:s]` -/
theorem fcGetSlice_eq (c : Coll) (a b s : Option Int) :
    Src.Coll.fcGetSlice qdt xi xc qc c (a, b, s) = c.getSlice a b s := by
  simp only [Src.Coll.fcGetSlice]; rfl

/-- `FeatureCollection.__eq__`, per class of the other operand (anything that is not a collection: `False`) -/
theorem fcEq_eq (a b : Coll) (u : Unit) :
    (b.tag = .fc → Src.Coll.fcEqFc qdt xi xc qc a b = a.eqFC b) ∧
    (b.tag = .track → Src.Coll.fcEqTrack qdt xi xc qc a b = a.eqFC b) ∧
    Src.Coll.fcEqOther qdt xi xc qc a u = false := by
  refine ⟨?_, ?_, ?_⟩
  · intro hb; simp [Src.Coll.fcEqFc, eqFC, hb]
  · intro hb; simp [Src.Coll.fcEqTrack, eqFC, hb]
  · simp [Src.Coll.fcEqOther]

/-- `Track.__eq__`, per class of the other operand -/
theorem trackEq_eq (a b : Coll) (u : Unit) :
    (b.tag = .track → Src.Coll.trackEqTrack qdt xi xc qc a b = a.eqTrack b) ∧
    (b.tag = .fc → Src.Coll.trackEqFc qdt xi xc qc a b = a.eqTrack b) ∧
    Src.Coll.trackEqOther qdt xi xc qc a u = false := by
  refine ⟨?_, ?_, ?_⟩
  · intro hb; simp [Src.Coll.trackEqTrack, eqTrack, hb]
  · intro hb; simp [Src.Coll.trackEqFc, eqTrack, hb]
  · simp [Src.Coll.trackEqOther]

/-- `a == b` of the source, by the class of the left operand, is the model's `eqColl` (what the `list-eq` stream runs) -/
theorem eqColl_eq (a b : Coll) :
    (a.tag = .fc → b.tag = .fc → Src.Coll.fcEqFc qdt xi xc qc a b = eqColl a b) ∧
    (a.tag = .fc → b.tag = .track → Src.Coll.fcEqTrack qdt xi xc qc a b = eqColl a b) ∧
    (a.tag = .track → b.tag = .track → Src.Coll.trackEqTrack qdt xi xc qc a b = eqColl a b) ∧
    (a.tag = .track → b.tag = .fc → Src.Coll.trackEqFc qdt xi xc qc a b = eqColl a b) := by
  refine ⟨?_, ?_, ?_, ?_⟩ <;> intro ha hb <;>
    simp [Src.Coll.fcEqFc, Src.Coll.fcEqTrack, Src.Coll.trackEqTrack, Src.Coll.trackEqFc, eqColl, eqFC, eqTrack, ha, hb]

/-- `==` of the translated source is symmetric on FeatureCollections -/
theorem src_fcEq_symm (a b : Coll) (ha : a.tag = .fc) (hb : b.tag = .fc) :
    Src.Coll.fcEqFc qdt xi xc qc a b = Src.Coll.fcEqFc qdt xi xc qc b a := by
  rw [((fcEq_eq qdt xi xc qc a b ()).1 hb), ((fcEq_eq qdt xi xc qc b a ()).1 ha)]
  exact eqFC_symm a b ha hb

/-- the list-protocol laws of C18, restated for the translated source -/
theorem src_contains_iff (c : Coll) (item : Shape) :
    Src.Coll.contains qdt xi xc qc c item = true ↔ ∃ x ∈ c.shapes, x.id = item.id ∨ x.eqc = item.eqc := by
  rw [contains_eq]; exact contains_iff c item

theorem src_getIdx (c : Coll) :
    (∀ (i : Nat) (h : i < c.shapes.length), Src.Coll.fcGetIdx qdt xi xc qc c (i : Int) = .ok c.shapes[i]) ∧
    (∀ (k : Nat) (h1 : 1 ≤ k) (h : k ≤ c.shapes.length),
      Src.Coll.fcGetIdx qdt xi xc qc c (-(k : Int)) = .ok (c.shapes[c.shapes.length - k]'(by omega))) ∧
    (∀ i : Int, i ≥ c.shapes.length ∨ i < -(c.shapes.length : Int) →
      Src.Coll.fcGetIdx qdt xi xc qc c i = .error "ERR:Index") := by
  refine ⟨fun i h => ?_, fun k h1 h => ?_, fun i h => ?_⟩ <;> rw [fcGetIdx_eq]
  · exact getIdx_nonneg c i h
  · exact getIdx_neg c k h1 h
  · exact getIdx_out c i h

theorem src_getSlice (c : Coll) :
    Src.Coll.fcGetSlice qdt xi xc qc c (none, none, none) = .ok c.shapes ∧
    Src.Coll.fcGetSlice qdt xi xc qc c (none, none, some (-1)) = .ok c.shapes.reverse ∧
    (∀ a b, Src.Coll.fcGetSlice qdt xi xc qc c (a, b, some 0) = .error "ERR:Value") := by
  refine ⟨?_, ?_, fun a b => ?_⟩ <;> rw [fcGetSlice_eq]
  · exact getSlice_full c
  · exact getSlice_reverse c
  · exact getSlice_step0 c a b

/-- `==` of two feature collections holding the same shape objects in the same order is true; a Track is never equal -/
theorem src_fcEq_refl (a : Coll) : Src.Coll.fcEqFc qdt xi xc qc a a = true := by
  have h : ∀ l : List Shape, listEq l l = true := by
    intro l; induction l with
    | nil => rfl
    | cons x xs ih => simp [listEq, sameOrEq, ih]
  simp [Src.Coll.fcEqFc, h]

end GV.C18Src
