import GeoVerif.Props.C03SrcGen
import GeoVerif.Props.C09
/-!
# Source tie for the bounds and circumscribing circles of the curved shapes (`structures.py`, C09)

The translated `GeoCircle.bounds`, `GeoEllipse.bounds` (`Gen/SrcCurvedGen.lean`) are proved equal to the model's
`circleBounds` / `ellipseBounds` in `Props/C03SrcGen.lean` (`circleBounds_eq`, `ellipseBounds_eq`); here the translated
`GeoEllipse.circumscribing_circle` is proved equal to the model's `ellipseCircle`, and the C09 enclosure theorems are
restated for the *translated* vertex generators: the circumscribing circle the source builds encloses every vertex the
source generates.
-/
namespace GV.C09SrcCurved
open GV GV.Sphere Num

section generic
variable {α : Type} [Num α]
variable (dest destDeg : Coord α → α → α → Coord α) (center : Coord α)
  (radius a b rotDeg inner outer amin amax : α)

/-- `GeoEllipse.circumscribing_circle`: the circle as its (centre, radius) pair -/
theorem ellipseCircle_eq :
    Src.CurvedGen.ellipseCircle dest destDeg center radius a b rotDeg inner outer amin amax () =
      Welzl.ellipseCircle center a b := by
  first | rfl | simp [Src.CurvedGen.ellipseCircle, Welzl.ellipseCircle]

/-- `GeoRing.bounds`: the corner destinations of the circle `(centre, outer_radius)` for a full turn, else the min / max
    of the generated vertices (`zip(*…)`, `min`, `max`: none of the `ValueError`s is reachable — the generated ring is
    never empty —, so the result is always `.ok`) -/
theorem ringBounds_eq (rnd : α → α) (R : α) :
    Src.CurvedGen.ringBounds (destination rnd R) (destinationDeg rnd R) center radius a b rotDeg inner outer amin amax () =
      match ringBounds rnd R center inner outer amin amax with
      | some bb => .ok bb
      | none => .error "ERR:Value" := by
  simp only [Src.CurvedGen.ringBounds, C03SrcGen.wedgeRing_eq_model, ringBounds]
  rcases Bool.eq_false_or_eq_true (Num.le (ofI 360) (amax - amin)) with h | h
  · rw [if_pos h, if_pos h]; rfl
  · rw [if_neg (by simp [h]), if_neg (by simp [h])]
    generalize wedgeRing rnd R center inner outer amin amax 0 = l
    cases l with
    | nil => simp [vertexBounds, pyMin]
    | cons p ps => simp [vertexBounds, pyMin, pyMax]

/-- `GeoRing.bounds` never raises -/
theorem ringBounds_ok (rnd : α → α) (R : α) :
    ∃ bb, Src.CurvedGen.ringBounds (destination rnd R) (destinationDeg rnd R) center radius a b rotDeg inner outer amin amax ()
      = .ok bb ∧ ringBounds rnd R center inner outer amin amax = some bb := by
  have hsome : ∃ bb, ringBounds rnd R center inner outer amin amax = some bb := by
    unfold ringBounds
    split
    · exact ⟨_, rfl⟩
    · obtain ⟨t, ht⟩ := C03SrcGen.schedule_cons (kOr 0 (ringDefaultK amin amax))
      have hne : ∃ p ps, wedgeRing rnd R center inner outer amin amax 0 = p :: ps := by
        simp only [wedgeRing, wedgeRingOf, ringArcs, ringArcsWith, ht]
        split <;> simp
      obtain ⟨p, ps, hp⟩ := hne
      rw [hp]
      simp [vertexBounds, pyMin, pyMax]
  obtain ⟨bb, hb⟩ := hsome
  exact ⟨bb, by rw [ringBounds_eq, hb], hb⟩

end generic

section real
open Real GV.RealGeo GV.SphereBridge GV.NumReal GV.C07 GV.C03 GV.C09 GV.Welzl
variable (dest destDeg : RC → ℝ → ℝ → RC) (radius a b rotDeg inner outer amin amax : ℝ)

/-- **the circle the source builds for an ellipse encloses every vertex the source generates for it** -/
theorem src_ellipse_circle_encloses {R : ℝ} (hR : 0 < R) (c : RC) (k : Nat) (hlat : |c.2| ≤ 90)
    (hb : 0 < b) (hab : b ≤ a) (ha : a ≤ π * R) :
    ∀ p ∈ Src.CurvedGen.ellipseRing (destRaw R) destDeg c radius a b rotDeg inner outer amin amax () k,
      haversine R (Src.CurvedGen.ellipseCircle dest destDeg c radius a b rotDeg inner outer amin amax ()).1 p ≤
        (Src.CurvedGen.ellipseCircle dest destDeg c radius a b rotDeg inner outer amin amax ()).2 := by
  rw [C03SrcGen.ellipseRing_eq_raw, ellipseCircle_eq]
  exact ellipse_circle_encloses hR c a b rotDeg k hlat hb hab ha

/-- **the circle `(centre, outer_radius)` encloses every vertex the source generates for a ring / wedge** -/
theorem src_ring_circle_encloses {R : ℝ} (hR : 0 < R) (c : RC) (k : Nat)
    (hlat : |c.2| ≤ 90) (hi : 0 ≤ inner) (hio : inner ≤ outer) (ho : outer ≤ π * R) :
    ∃ ring, Src.CurvedGen.wedgeRing (destRaw R) destDeg c radius a b rotDeg inner outer amin amax () k = .ok ring ∧
      ∀ p ∈ ring, haversine R (ringCircle c inner outer).1 p ≤ (ringCircle c inner outer).2 :=
  ⟨_, C03SrcGen.wedgeRing_eq_raw _ _ _ _ _ _ _ _ _ _ _ _, ring_circle_encloses hR c inner outer amin amax k hlat hi hio ho⟩

/-- a circle is its own circumscribing circle: every vertex the source generates is within `radius` -/
theorem src_circle_circle_encloses {R : ℝ} (hR : 0 < R) (c : RC) (r : ℝ) (k : Nat) (hlat : |c.2| ≤ 90)
    (h0 : 0 ≤ r) (h1 : r ≤ π * R) :
    ∀ p ∈ Src.CurvedGen.circleRing (destRaw R) destDeg c r a b rotDeg inner outer amin amax () k,
      haversine R c p ≤ r := by
  rw [C03SrcGen.circleRing_eq_raw]; exact circle_circle_encloses hR c r k hlat h0 h1

end real

end GV.C09SrcCurved
