import GeoVerif.Lemmas.Track
import GeoVerif.Props.C18
import Mathlib.Tactic.NormNum
/-!
# C17 — a Track is always chronological; slicing and speed filtering are exact

All theorems quantify over every shape list (any length, any order, duplicates, instants and
intervals), every slice bound, every speed limit and distance function, every operation history.
The per-shape predicates of the inherited filters and the centroid distance are parameters.
Not modelled: the NaN branch of `filter_impossible_journeys` (there is no NaN in ℚ); `filter_by_time`
is only claimed to keep order and class (it is one of the operations of `track_sorted`).
-/
namespace GV.Coll.Track

/-! ### construction -/

/-- **the constructor refuses exactly the inputs holding a shape without time bounds** … -/
theorem mk_rejects_timeless (l : List Shape) :
    mkTrack l = .error "ERR:Value" ↔ ∃ x ∈ l, x.dt = none := by
  by_cases h : ∀ x ∈ l, x.dt ≠ none
  · rw [mkTrack_ok h]
    constructor
    · intro he; cases he
    · rintro ⟨x, hx, hn⟩; exact absurd hn (h x hx)
  · rw [mkTrack_error h]
    simp only [true_iff]
    by_contra hc
    exact h fun x hx hn => hc ⟨x, hx, hn⟩

/-- … and what it accepts is a chronological permutation of the input (same shapes, same multiplicity) -/
theorem mk_sorted {l : List Shape} {t : Coll} (h : mkTrack l = .ok t) :
    t.tag = .track ∧ Sorted t.shapes ∧ t.shapes.Perm l ∧ ∀ x ∈ t.shapes, x.dt ≠ none := by
  obtain ⟨ht, rfl⟩ := mkTrack_inv h
  exact ⟨rfl, sortByStart_sorted l, sortByStart_perm l, fun x hx => ht x (mem_sortByStart.mp hx)⟩

/-- **stability**: shapes whose starts are already in order (in particular: equal starts) keep their
    input order — every chronological sub-sequence of the input is a sub-sequence of the track -/
theorem mk_stable {l : List Shape} {t : Coll} (h : mkTrack l = .ok t) {ys : List Shape}
    (hy : Sorted ys) (hs : ys.Sublist l) : ys.Sublist t.shapes := by
  obtain ⟨_, rfl⟩ := mkTrack_inv h
  exact sortByStart_stable hy hs

/-- the pair form: `a` before `b` in the input and `a.start ≤ b.start` ⇒ `a` before `b` in the track -/
theorem mk_stable_pair {l : List Shape} {t : Coll} (h : mkTrack l = .ok t) {a b : Shape}
    (hab : a.startD ≤ b.startD) (hs : [a, b].Sublist l) : [a, b].Sublist t.shapes :=
  mk_stable h (by unfold Sorted; simp [hab]) hs

/-- a chronological, fully time-bounded list is taken as it is -/
theorem mk_of_sorted {l : List Shape} (ht : ∀ x ∈ l, x.dt ≠ none) (hs : Sorted l) :
    mkTrack l = .ok ⟨.track, l⟩ := mkTrack_sorted_id ht hs

theorem TrackWF.wf {c : Coll} (h : TrackWF c) : Coll.WF c := fun _ => ⟨h.2.1, h.2.2⟩

/-! ### the ordering invariant over operation histories -/

/-- every operation returns a well-formed track (when it returns) -/
theorem step_wf {c c' : Coll} (hc : TrackWF c) (op : Op) (h : step c op = .ok c') : TrackWF c' := by
  have htag := hc.1
  cases op with
  | add other =>
    simp only [step] at h
    cases ho : mkTrack other with
    | error e => rw [ho] at h; cases h
    | ok o =>
      rw [ho] at h
      have hot : o.tag = .track := (mkTrack_wf ho).1
      simp only [Coll.add, htag, hot] at h
      exact mkTrack_wf h
  | filterDt arg =>
    simp only [step, filterByDt] at h
    cases arg with
    | inst t => simp only [htag] at h; exact rewrap_track_wf h
    | ival i => simp only [htag] at h; exact rewrap_track_wf h
    | other => cases h
  | filterIsect xq qx =>
    simp only [step, filterByIntersection, htag] at h; exact rewrap_track_wf h
  | filterContains xq qx =>
    simp only [step, Coll.filterContains, htag] at h; exact rewrap_track_wf h
  | filterContainedBy xq qx =>
    simp only [step, Coll.filterContainedBy, htag] at h; exact rewrap_track_wf h
  | filterProp key f =>
    simp only [step, filterByProperty] at h
    cases hl : filterPropLoop key f c.shapes [] with
    | error e => rw [hl] at h; cases h
    | ok l => rw [hl] at h; simp only [htag] at h; exact rewrap_track_wf h
  | slice a b => exact mkTrack_wf h
  | convolve =>
    simp only [step, Track.convolve] at h
    split at h <;> exact mkTrack_wf h
  | journeys dist v =>
    simp only [step, Track.journeys] at h
    split at h
    · cases h
    · exact mkTrack_wf h
  | filterTime st et => exact mkTrack_wf h

theorem run_wf {c : Coll} (hc : TrackWF c) (ops : List Op) : TrackWF (run c ops) := by
  induction ops generalizing c with
  | nil => exact hc
  | cons op ops ih =>
    simp only [run]
    cases hs : step c op with
    | ok c' => exact ih (step_wf hc op hs)
    | error e => exact ih hc

/-- **`track_sorted`**: whatever list the track was built from and whatever sequence of operations
    (concatenation, the five inherited filters, datetime slicing, duplicate convolution, the speed
    filter, time-of-day filtering — failing operations included) follows, the current object is a
    Track, its shapes are in non-decreasing start order and none lacks time bounds -/
theorem track_sorted (l : List Shape) (t : Coll) (ops : List Op) (h : mkTrack l = .ok t) :
    (run t ops).tag = .track ∧
    (run t ops).shapes.Pairwise (fun a b => a.startD ≤ b.startD) ∧
    ∀ x ∈ (run t ops).shapes, x.dt ≠ none :=
  run_wf (mkTrack_wf h) ops

/-- concatenation is the chronological (stable) merge: it holds exactly the shapes of both operands -/
theorem add_perm {a b c : Coll} (ha : TrackWF a) (hb : TrackWF b) (h : Coll.add a b = .ok c) :
    TrackWF c ∧ c.shapes.Perm (a.shapes ++ b.shapes) := by
  rw [add_track a b ha.1 hb.1 ha.wf hb.wf] at h
  cases h
  refine ⟨⟨rfl, sortByStart_sorted _, fun x hx => ?_⟩, sortByStart_perm _⟩
  rcases List.mem_append.mp (mem_sortByStart.mp hx) with h | h
  · exact ha.2.2 x h
  · exact hb.2.2 x h

/-! ### slicing -/

/-- the slice predicate is the statement's: starts at or after the start bound and ends before the stop
    bound; an omitted bound imposes nothing -/
theorem sliceKeep_iff (a b : Option Int) (x : Shape) :
    sliceKeep a b x = true ↔ (∀ s, a = some s → s ≤ x.startD) ∧ (∀ e, b = some e → x.endD < e) := by
  unfold sliceKeep
  cases a <;> cases b <;> simp

/-- **`slice_exact`**: `track[a:b]` is a Track holding exactly the shapes that satisfy the slice
    predicate, in their order -/
theorem slice_exact {c : Coll} (hc : TrackWF c) (a b : Option Int) :
    getitem c a b = .ok ⟨.track, c.shapes.filter (sliceKeep a b)⟩ :=
  mkTrack_sublist hc List.filter_sublist

/-- in particular `track[:]` is the whole track (on the pinned commit it dropped early-starting,
    late-ending shapes and raised on an empty track: F17a) -/
theorem slice_unbounded {c : Coll} (hc : TrackWF c) : getitem c none none = .ok ⟨.track, c.shapes⟩ := by
  rw [slice_exact hc]
  congr 2
  exact List.filter_eq_self.mpr (fun x _ => by simp [sliceKeep])

/-! ### the speed filter -/

/-- on an empty track `self.geoshapes[0]` raises -/
theorem journeys_empty (dist : Shape → Shape → Rat) (v : Rat) (c : Coll) (h : c.shapes = []) :
    journeys dist v c = .error "ERR:Index" := by
  unfold journeys; rw [h]

/-- the index loop computes the structural recursion `kept`, and the result passes the constructor
    unchanged -/
theorem journeys_eq_kept (dist : Shape → Shape → Rat) (v : Rat) {c : Coll} (hc : TrackWF c)
    (hne : c.shapes ≠ []) : journeys dist v c = .ok ⟨.track, kept dist v c.shapes⟩ := by
  unfold journeys
  cases hs : c.shapes with
  | nil => exact absurd hs hne
  | cons first rest =>
    simp only
    have hfold := journeys_fold dist v rest [first] 0 [first] first (by simp)
    simp only [List.length_cons, List.length_nil, Nat.zero_add, List.singleton_append] at hfold
    have hlen : (first :: rest).length - 1 = rest.length := by simp
    rw [hlen, hfold]
    have hsub : (first :: greedy dist v first rest).Sublist c.shapes := by
      rw [hs]; exact (greedy_sublist dist v first rest).cons_cons first
    exact mkTrack_sublist hc hsub

/-- reachability spelled out -/
theorem reach_iff (dist : Shape → Shape → Rat) (v : Rat) (x y : Shape) :
    reach dist v x y = true ↔
      dtSeconds x y ≠ 0 ∧ (if dist x y = 0 then 0 else dist x y / dtSeconds x y) ≤ v := by
  unfold reach
  simp only [Bool.and_eq_true, Bool.not_eq_true', beq_eq_false_iff_ne, ne_eq, decide_eq_true_eq,
    beq_iff_eq]

/-- **`journeys_spec`**: the first shape is kept; thereafter a shape is kept exactly when it is
    reachable from the *previously kept* one (its time stamp differs and distance/Δt ≤ max speed).
    Stated as the unique left-to-right characterisation: for a chronological track `pre ++ [x]`
    with `pre` non-empty, the result is the result `k` for `pre`, extended by `x` iff `x` is reachable
    from the last element of `k`. -/
theorem journeys_spec (dist : Shape → Shape → Rat) (v : Rat) (pre : List Shape) (x : Shape)
    (hne : pre ≠ []) (hs : Sorted (pre ++ [x])) (ht : ∀ y ∈ pre ++ [x], y.dt ≠ none) :
    ∃ (k : List Shape) (hk : k ≠ []),
      journeys dist v ⟨.track, pre⟩ = .ok ⟨.track, k⟩ ∧
      k.head? = pre.head? ∧ k.Sublist pre ∧
      journeys dist v ⟨.track, pre ++ [x]⟩ =
        .ok ⟨.track, if reach dist v (k.getLast hk) x then k ++ [x] else k⟩ := by
  have wf1 : TrackWF ⟨.track, pre⟩ :=
    ⟨rfl, hs.sublist (List.sublist_append_left pre [x]), fun y hy => ht y (List.mem_append_left _ hy)⟩
  have wf2 : TrackWF ⟨.track, pre ++ [x]⟩ := ⟨rfl, hs, ht⟩
  cases hp : pre with
  | nil => exact absurd hp hne
  | cons f r =>
    subst hp
    refine ⟨kept dist v (f :: r), by simp [kept], journeys_eq_kept dist v wf1 hne, by simp [kept],
      kept_sublist dist v _, ?_⟩
    rw [journeys_eq_kept dist v wf2 (by simp)]
    congr 2
    simp only [kept, List.cons_append]
    rw [greedy_snoc]
    simp only [getLast_greedy]
    split <;> simp

/-- consecutive shapes of the result are reachable from one another: every hop of the filtered track
    respects the speed limit (and joins distinct time stamps) -/
theorem journeys_chain (dist : Shape → Shape → Rat) (v : Rat) {c r : Coll} (hc : TrackWF c)
    (h : journeys dist v c = .ok r) :
    List.IsChain (fun a b => reach dist v a b = true) r.shapes ∧ r.shapes.Sublist c.shapes := by
  by_cases hne : c.shapes = []
  · rw [journeys_empty dist v c hne] at h; cases h
  · rw [journeys_eq_kept dist v hc hne] at h
    cases h
    exact ⟨kept_chain dist v c.shapes, kept_sublist dist v c.shapes⟩

/-- a single shape is always kept -/
theorem journeys_singleton (dist : Shape → Shape → Rat) (v : Rat) (a : Shape) (h : a.dt ≠ none) :
    journeys dist v ⟨.track, [a]⟩ = .ok ⟨.track, [a]⟩ := by
  have wf : TrackWF ⟨.track, [a]⟩ := ⟨rfl, by unfold Sorted; simp, by simpa using h⟩
  rw [journeys_eq_kept dist v wf (by simp)]
  rfl

/-! ### duplicate time stamps -/

theorem hasDup_iff (c : Coll) : hasDup c = true ↔ ¬ (c.shapes.map (·.dt)).Nodup := by
  have := hasDupLoop_false_iff c.shapes []
  simp only [List.not_mem_nil, not_false_eq_true, implies_true, and_true] at this
  unfold hasDup
  rw [← this]; simp

/-- **`convolve_nodup`**: convolving always succeeds on a track and leaves a track with exactly one
    shape per distinct time stamp, over the same set of time stamps -/
theorem convolve_nodup {c : Coll} (hc : TrackWF c) :
    ∃ r, convolve c = .ok r ∧ TrackWF r ∧ (r.shapes.map (·.dt)).Nodup ∧
      ∀ d, d ∈ r.shapes.map (·.dt) ↔ d ∈ c.shapes.map (·.dt) := by
  unfold convolve
  by_cases hd : hasDup c = true
  · simp only [hd, Bool.not_true, Bool.false_eq_true, if_false]
    have inv := groupByDt_inv c.shapes
    have hdts : ((groupByDt c.shapes).map convolveGroup).map (·.dt) = (groupByDt c.shapes).map (·.1) := by
      rw [List.map_map]
      apply List.map_congr_left
      intro kg hkg
      exact convolveGroup_dt kg (inv.members kg hkg).1 (inv.members kg hkg).2
    have htimed : ∀ x ∈ (groupByDt c.shapes).map convolveGroup, x.dt ≠ none := by
      intro x hx
      have : x.dt ∈ ((groupByDt c.shapes).map convolveGroup).map (·.dt) := List.mem_map_of_mem hx
      rw [hdts, inv.keys] at this
      obtain ⟨y, hy, he⟩ := List.mem_map.mp this
      rw [← he]; exact hc.2.2 y hy
    refine ⟨_, mkTrack_ok htimed, mkTrack_wf (mkTrack_ok htimed), ?_, ?_⟩
    · have hp := (sortByStart_perm ((groupByDt c.shapes).map convolveGroup)).map (·.dt)
      simp only
      rw [hp.nodup_iff, hdts]
      exact inv.nodup
    · intro d
      have hp := (sortByStart_perm ((groupByDt c.shapes).map convolveGroup)).map (·.dt)
      simp only
      rw [hp.mem_iff, hdts]
      exact inv.keys d
  · simp only [hd, Bool.not_false, if_true]
    refine ⟨⟨.track, c.shapes⟩, mkTrack_sorted_id hc.2.2 hc.2.1, ⟨rfl, hc.2.1, hc.2.2⟩, ?_, fun d => Iff.rfl⟩
    by_contra hn
    exact hd ((hasDup_iff c).mpr hn)

/-- without duplicates convolution is a copy -/
theorem convolve_id {c : Coll} (hc : TrackWF c) (h : (c.shapes.map (·.dt)).Nodup) :
    convolve c = .ok ⟨.track, c.shapes⟩ := by
  unfold convolve
  have : hasDup c = false := by
    by_contra hn
    have : hasDup c = true := by simpa using hn
    exact (hasDup_iff c).mp this h
  simp only [this, Bool.not_false, if_true]
  exact mkTrack_sorted_id hc.2.2 hc.2.1

/-- the members of the convolved track, completely: for every time stamp `d` of the track the result holds
    `convolveGroup (d, g)` where `g` is the sub-sequence of shapes stamped `d` — the shape itself when it is
    alone, otherwise one new point at the mean position with the merged properties — and nothing else -/
theorem convolve_members {c : Coll} (hc : TrackWF c) (hd : hasDup c = true) :
    ∃ r, convolve c = .ok r ∧ ∀ y, y ∈ r.shapes ↔
      ∃ d ∈ c.shapes.map (·.dt), y = convolveGroup (d, c.shapes.filter (fun x => x.dt == d)) := by
  have inv := groupByDt_inv c.shapes
  have hdts : ((groupByDt c.shapes).map convolveGroup).map (·.dt) = (groupByDt c.shapes).map (·.1) := by
    rw [List.map_map]
    apply List.map_congr_left
    intro kg hkg
    exact convolveGroup_dt kg (inv.members kg hkg).1 (inv.members kg hkg).2
  have htimed : ∀ x ∈ (groupByDt c.shapes).map convolveGroup, x.dt ≠ none := by
    intro x hx
    have : x.dt ∈ ((groupByDt c.shapes).map convolveGroup).map (·.dt) := List.mem_map_of_mem hx
    rw [hdts, inv.keys] at this
    obtain ⟨y, hy, he⟩ := List.mem_map.mp this
    rw [← he]; exact hc.2.2 y hy
  refine ⟨_, by unfold convolve; simp only [hd, Bool.not_true, Bool.false_eq_true, if_false]; exact mkTrack_ok htimed, ?_⟩
  intro y
  simp only [mem_sortByStart, List.mem_map]
  constructor
  · rintro ⟨kg, hkg, rfl⟩
    refine ⟨kg.1, ?_, ?_⟩
    · have : kg.1 ∈ (groupByDt c.shapes).map (·.1) := List.mem_map_of_mem hkg
      rw [inv.keys] at this
      simpa using this
    · rw [← inv.groups kg hkg]
  · rintro ⟨d, ⟨x, hx, rfl⟩, rfl⟩
    have : x.dt ∈ (groupByDt c.shapes).map (·.1) := by
      rw [inv.keys]; exact List.mem_map_of_mem hx
    obtain ⟨kg, hkg, he⟩ := List.mem_map.mp this
    refine ⟨kg, hkg, ?_⟩
    rw [← he, ← inv.groups kg hkg]

/-- in particular a shape that is alone on its time stamp survives convolution unchanged -/
theorem convolve_keeps_unique {c : Coll} (hc : TrackWF c) (x : Shape) (hx : x ∈ c.shapes)
    (hu : c.shapes.filter (fun y => y.dt == x.dt) = [x]) :
    ∃ r, convolve c = .ok r ∧ x ∈ r.shapes := by
  by_cases hd : hasDup c = true
  · obtain ⟨r, hr, hm⟩ := convolve_members hc hd
    refine ⟨r, hr, (hm x).mpr ⟨x.dt, List.mem_map_of_mem hx, ?_⟩⟩
    rw [hu]; rfl
  · have hn : (c.shapes.map (·.dt)).Nodup := by
      by_contra hn; exact hd ((hasDup_iff c).mpr hn)
    exact ⟨_, convolve_id hc hn, hx⟩

/-! ### inherited filters on a Track: C18's theorems apply (the re-sort of the constructor is the identity) -/

theorem filter_on_track {c : Coll} (hc : TrackWF c) (p : Shape → Bool) :
    rewrap c.tag (c.shapes.filter p) = .ok ⟨.track, c.shapes.filter p⟩ := by
  have := rewrap_filter c hc.wf p
  rw [this, hc.1]

/-- `filter_by_time` keeps order and class: it returns a sub-sequence of the track, as a Track -/
theorem filterByTime_sub {c : Coll} (hc : TrackWF c) (st et : Int) :
    filterByTime c st et = .ok ⟨.track, c.shapes.filter (timeKeep st et)⟩ :=
  mkTrack_sublist hc List.filter_sublist

/-! ### non-vacuity -/

/-- a chronological track with a long early interval, duplicate time stamps and two positions; the
    hypotheses are satisfiable and slices / journeys / convolution are non-trivial on it -/
example :
    let s (i : Int) (a b : Int) (x : Rat) : Shape := ⟨i, i, some ⟨a, b⟩, [], x, 0⟩
    let c : Coll := ⟨.track, [s 0 0 9000000 0, s 1 1000000 1000000 1, s 2 1000000 1000000 0, s 3 3000000 3000000 1]⟩
    let dist : Shape → Shape → Rat := fun p q => if p.lon = q.lon then 0 else 10
    TrackWF c ∧
      getitem c (some 1000000) none = .ok ⟨.track, [s 1 1000000 1000000 1, s 2 1000000 1000000 0, s 3 3000000 3000000 1]⟩ ∧
      getitem c none (some 3000000) = .ok ⟨.track, [s 1 1000000 1000000 1, s 2 1000000 1000000 0]⟩ ∧
      journeys dist 5 c = .ok ⟨.track, [s 0 0 9000000 0, s 2 1000000 1000000 0, s 3 3000000 3000000 1]⟩ ∧
      hasDup c = true := by
  intro s c dist
  have hc : TrackWF c := ⟨rfl, by unfold Sorted; decide, by decide⟩
  refine ⟨hc, ?_, ?_, ?_, by decide⟩
  · rw [slice_exact hc]; decide
  · rw [slice_exact hc]; decide
  · rw [journeys_eq_kept dist 5 hc (by decide)]
    simp only [c, s, dist, kept, greedy, reach, dtSeconds, Shape.startD]
    norm_num

end GV.Coll.Track
