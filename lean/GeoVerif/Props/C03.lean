import GeoVerif.Props.C07
import Mathlib.Data.List.Basic
/-!
# C03 — curved shapes follow their geodesic definition

Theorems about the ring generators and membership tests of `Model/Sphere.lean` at `ℝ`
(un-rounded vertices; `round_half_up` and float error are measured by the harness, see DESIGN C03).

* every generated vertex lies **on** the defined curve: at haversine (= great-circle, `C07.hav_eq_central_angle`)
  distance `radius` / `radius_at_angle(θ)` / `outer`, `inner` from the centre, and its bearing from the
  centre is the scheduled angle reduced to `[0, 360)`;
* the schedule `i = k … 0` makes the angles strictly decreasing from `2π` (resp. `angle_max`) to `0`
  (resp. `angle_min`), i.e. the ring runs counter-clockwise, and the ring is closed;
* `_radius_at_angle` is the polar form of the ellipse, between the semi-axes;
* the analytic membership tests are the stated inequalities with the holes removed.
-/
namespace GV.C03

open Real GV.Sphere GV.RealGeo GV.SphereBridge GV.NumReal GV.C07

/-! ## the schedule `range(k, -1, -1)` -/

theorem schedule_eq (k : Nat) : schedule k = (List.range (k + 1)).reverse := rfl

theorem schedule_length (k : Nat) : (schedule k).length = k + 1 := by simp [schedule]

theorem mem_schedule {k i : Nat} : i ∈ schedule k ↔ i ≤ k := by
  simp [schedule]

theorem schedule_succ (k : Nat) : schedule (k + 1) = (k + 1) :: schedule k := by
  simp [schedule, List.range_succ]

/-- the counters come in strictly decreasing order -/
theorem schedule_pairwise (k : Nat) : (schedule k).Pairwise (· > ·) := by
  induction k with
  | zero => simp [schedule]
  | succ k ih =>
    rw [schedule_succ, List.pairwise_cons]
    exact ⟨fun a ha => by have := mem_schedule.mp ha; omega, ih⟩

theorem schedule_head (k : Nat) : (schedule k).head? = some k := by
  cases k with
  | zero => rfl
  | succ k => rw [schedule_succ]; rfl

theorem schedule_getLast (k : Nat) : (schedule k).getLast? = some 0 := by
  simp [schedule, List.getLast?_reverse, List.range_succ_eq_map]

/-! ## angles -/

theorem circleAngle_real (k i : Nat) : (circleAngle k i : ℝ) = π * 2 / k * i := by
  unfold circleAngle; num_simp

theorem circleAngle_first {k : Nat} (hk : 0 < k) : (circleAngle k k : ℝ) = 2 * π := by
  rw [circleAngle_real]; have : (k : ℝ) ≠ 0 := by exact_mod_cast hk.ne'
  field_simp

theorem circleAngle_last (k : Nat) : (circleAngle k 0 : ℝ) = 0 := by
  rw [circleAngle_real]; simp

theorem ringAngle_real (amin amax : ℝ) (k i : Nat) :
    ringAngle amin amax k i = π * (amin + (amax - amin) / k * i) / 180 := by
  unfold ringAngle; num_simp

theorem ringAngle_first (amin amax : ℝ) {k : Nat} (hk : 0 < k) : ringAngle amin amax k k = radians amax := by
  rw [ringAngle_real, radians_real]; have : (k : ℝ) ≠ 0 := by exact_mod_cast hk.ne'
  field_simp; ring

theorem ringAngle_last (amin amax : ℝ) (k : Nat) : ringAngle amin amax k 0 = radians amin := by
  rw [ringAngle_real, radians_real]; simp; ring

/-- **angular order**: along the schedule the circle / ellipse angles strictly decrease (from `2π`
    down to `0`), so the ring is traversed counter-clockwise -/
theorem ring_angles_antitone {k : Nat} (hk : 0 < k) :
    ((schedule k).map fun i => (circleAngle k i : ℝ)).Pairwise (· > ·) := by
  rw [List.pairwise_map]
  refine (schedule_pairwise k).imp ?_
  intro a b hab
  simp only [circleAngle_real]
  have hpos : (0 : ℝ) < π * 2 / k := by have : (0 : ℝ) < k := by exact_mod_cast hk
                                        positivity
  have : (b : ℝ) < a := by exact_mod_cast hab
  nlinarith

/-- the wedge / ring angles strictly decrease from `angle_max` to `angle_min` -/
theorem ringAngles_antitone {k : Nat} (hk : 0 < k) {amin amax : ℝ} (h : amin < amax) :
    ((schedule k).map fun i => ringAngle amin amax k i).Pairwise (· > ·) := by
  rw [List.pairwise_map]
  refine (schedule_pairwise k).imp ?_
  intro a b hab
  simp only [ringAngle_real]
  have hk' : (0 : ℝ) < k := by exact_mod_cast hk
  have hstep : (0 : ℝ) < (amax - amin) / k := div_pos (by linarith) hk'
  have : (b : ℝ) < a := by exact_mod_cast hab
  have hp := pi_pos
  have : amin + (amax - amin) / k * b < amin + (amax - amin) / k * a := by nlinarith
  have : π * (amin + (amax - amin) / k * b) < π * (amin + (amax - amin) / k * a) :=
    mul_lt_mul_of_pos_left this hp
  linarith [div_lt_div_of_pos_right this (by norm_num : (0 : ℝ) < 180)]

/-! ## `_radius_at_angle` -/

theorem radiusAtAngle_den_pos {a b : ℝ} (ha : 0 < a) (hb : 0 < b) (t : ℝ) :
    0 < a ^ 2 * sin t ^ 2 + b ^ 2 * cos t ^ 2 := by
  have h := sin_sq_add_cos_sq t
  have hm : 0 < min (a ^ 2) (b ^ 2) := lt_min (by positivity) (by positivity)
  have h1 : min (a ^ 2) (b ^ 2) * sin t ^ 2 ≤ a ^ 2 * sin t ^ 2 :=
    mul_le_mul_of_nonneg_right (min_le_left _ _) (sq_nonneg _)
  have h2 : min (a ^ 2) (b ^ 2) * cos t ^ 2 ≤ b ^ 2 * cos t ^ 2 :=
    mul_le_mul_of_nonneg_right (min_le_right _ _) (sq_nonneg _)
  nlinarith

theorem radiusAtAngle_pos {a b : ℝ} (ha : 0 < a) (hb : 0 < b) (t : ℝ) : 0 < radiusAtAngle a b t := by
  rw [radiusAtAngle_real]
  exact div_pos (mul_pos ha hb) (sqrt_pos.mpr (radiusAtAngle_den_pos ha hb t))

/-- **polar form of the ellipse**: the point at distance `r(θ)` in direction `θ` from the major axis
    satisfies `x²/a² + y²/b² = 1` -/
theorem radiusAtAngle_polar {a b : ℝ} (ha : 0 < a) (hb : 0 < b) (t : ℝ) :
    (radiusAtAngle a b t * cos t) ^ 2 / a ^ 2 + (radiusAtAngle a b t * sin t) ^ 2 / b ^ 2 = 1 := by
  rw [radiusAtAngle_real]
  have hq := radiusAtAngle_den_pos ha hb t
  have hs : √(a ^ 2 * sin t ^ 2 + b ^ 2 * cos t ^ 2) ^ 2 = a ^ 2 * sin t ^ 2 + b ^ 2 * cos t ^ 2 :=
    sq_sqrt hq.le
  have hne : √(a ^ 2 * sin t ^ 2 + b ^ 2 * cos t ^ 2) ≠ 0 := (sqrt_pos.mpr hq).ne'
  field_simp
  rw [hs]; ring

/-- the radius never exceeds the semi-major axis … -/
theorem radiusAtAngle_le_major {a b : ℝ} (hb : 0 < b) (hab : b ≤ a) (t : ℝ) : radiusAtAngle a b t ≤ a := by
  have ha : 0 < a := lt_of_lt_of_le hb hab
  rw [radiusAtAngle_real]
  have hq := radiusAtAngle_den_pos ha hb t
  rw [div_le_iff₀ (sqrt_pos.mpr hq)]
  have h := sin_sq_add_cos_sq t
  have : b ^ 2 ≤ a ^ 2 * sin t ^ 2 + b ^ 2 * cos t ^ 2 := by
    have : b ^ 2 ≤ a ^ 2 := by nlinarith
    nlinarith [sq_nonneg (sin t), sq_nonneg (cos t)]
  have hsq : b ≤ √(a ^ 2 * sin t ^ 2 + b ^ 2 * cos t ^ 2) := (Real.le_sqrt' hb).mpr this
  nlinarith

/-- … and never falls below the semi-minor axis -/
theorem radiusAtAngle_ge_minor {a b : ℝ} (hb : 0 < b) (hab : b ≤ a) (t : ℝ) : b ≤ radiusAtAngle a b t := by
  have ha : 0 < a := lt_of_lt_of_le hb hab
  rw [radiusAtAngle_real]
  have hq := radiusAtAngle_den_pos ha hb t
  rw [le_div_iff₀ (sqrt_pos.mpr hq)]
  have h := sin_sq_add_cos_sq t
  have : a ^ 2 * sin t ^ 2 + b ^ 2 * cos t ^ 2 ≤ a ^ 2 := by
    have : b ^ 2 ≤ a ^ 2 := by nlinarith
    nlinarith [sq_nonneg (sin t), sq_nonneg (cos t)]
  have hsq : √(a ^ 2 * sin t ^ 2 + b ^ 2 * cos t ^ 2) ≤ a := Real.sqrt_le_iff.mpr ⟨ha.le, this⟩
  nlinarith

/-! ## circle -/

theorem kOr_pos {k d : Nat} (hd : 0 < d) : 0 < kOr k d := by
  unfold kOr; split <;> omega

theorem circleRing_length (R : ℝ) (c : RC) (r : ℝ) (k : Nat) :
    (circleRingRaw R c r k).length = kOr k 36 + 1 := by
  simp [circleRingRaw, schedule_length]

/-- **every generated vertex of a circle lies on the circle** (haversine = great-circle distance
    `radius` from the centre), whatever `k` -/
theorem circleRing_on_circle {R : ℝ} (hR : 0 < R) (c : RC) (r : ℝ) (k : Nat) (hlat : |c.2| ≤ 90)
    (h0 : 0 ≤ r) (h1 : r ≤ π * R) : ∀ p ∈ circleRingRaw R c r k, haversine R c p = r := by
  intro p hp
  simp only [circleRingRaw, List.mem_map] at hp
  obtain ⟨i, _, rfl⟩ := hp
  exact dest_dist hR c _ r hlat h0 h1

/-- … at the scheduled bearing: vertex `i` is seen from the centre under `360·i/k` degrees (mod 360) -/
theorem circleRing_bearing {R : ℝ} (hR : 0 < R) (c : RC) (r : ℝ) (k : Nat) (hlat : |c.2| < 90)
    (h0 : 0 < r) (h1 : r < π * R) (i : Nat) :
    bearingUnrounded c (destRaw R c (circleAngle (kOr k 36) i) r)
      = pymod (degrees (circleAngle (kOr k 36) i)) 360 :=
  dest_bearing_mod hR c _ r hlat h0 h1

/-- the destination only depends on sine and cosine of the heading -/
theorem destRaw_congr (R : ℝ) (c : RC) (t t' d : ℝ) (hs : sin t = sin t') (hc : cos t = cos t') :
    destRaw R c t d = destRaw R c t' d := by
  rw [destRaw_real, destRaw_real]
  unfold dDLon dX dY dLat dS2
  rw [hs, hc]

/-- **the ring is closed**: first vertex (angle `2π`) = last vertex (angle `0`) -/
theorem ring_closed (R : ℝ) (c : RC) (r : ℝ) (k : Nat) :
    (circleRingRaw R c r k).head? = (circleRingRaw R c r k).getLast? := by
  have hk : 0 < kOr k 36 := kOr_pos (by norm_num)
  simp only [circleRingRaw, List.head?_map, List.getLast?_map, schedule_head, schedule_getLast,
    Option.map_some]
  congr 1
  apply destRaw_congr
  · rw [circleAngle_first hk, circleAngle_last, sin_two_pi, sin_zero]
  · rw [circleAngle_first hk, circleAngle_last, cos_two_pi, cos_zero]

/-! ## ellipse -/

theorem radiusAtAngle_congr (a b t t' : ℝ) (hs : sin t = sin t') (hc : cos t = cos t') :
    radiusAtAngle a b t = radiusAtAngle a b t' := by
  rw [radiusAtAngle_real, radiusAtAngle_real, hs, hc]

theorem mem_ellipseRing {R : ℝ} {c : RC} {a b rot : ℝ} {k : Nat} {p : RC}
    (hp : p ∈ ellipseRingRaw R c a b rot k) :
    ∃ i ≤ kOr k (ellipseDefaultK a b),
      p = destRaw R c (circleAngle (kOr k (ellipseDefaultK a b)) i + radians rot)
            (radiusAtAngle a b (circleAngle (kOr k (ellipseDefaultK a b)) i)) := by
  simp only [ellipseRingRaw, ellipseRingWith, List.mem_map] at hp
  obtain ⟨i, hi, rfl⟩ := hp
  exact ⟨i, mem_schedule.mp hi, by num_simp⟩

/-- **every generated vertex of an ellipse lies on the curve**: vertex `i` is at distance
    `radius_at_angle(θᵢ)` from the centre, `θᵢ` the scheduled angle from the major axis -/
theorem ellipseRing_on_curve {R : ℝ} (hR : 0 < R) (c : RC) (a b rot : ℝ) (k : Nat) (hlat : |c.2| ≤ 90)
    (hb : 0 < b) (hab : b ≤ a) (ha : a ≤ π * R) :
    ∀ p ∈ ellipseRingRaw R c a b rot k, ∃ i ≤ kOr k (ellipseDefaultK a b),
      haversine R c p = radiusAtAngle a b (circleAngle (kOr k (ellipseDefaultK a b)) i) := by
  intro p hp
  obtain ⟨i, hi, rfl⟩ := mem_ellipseRing hp
  refine ⟨i, hi, dest_dist hR c _ _ hlat (radiusAtAngle_pos (lt_of_lt_of_le hb hab) hb _).le ?_⟩
  exact le_trans (radiusAtAngle_le_major hb hab _) ha

/-- … in the direction `θᵢ + rotation` (east of north, mod 360) -/
theorem ellipseRing_bearing {R : ℝ} (hR : 0 < R) (c : RC) (a b rot : ℝ) (k i : Nat) (hlat : |c.2| < 90)
    (hb : 0 < b) (hab : b ≤ a) (ha : a < π * R) :
    bearingUnrounded c (destRaw R c (circleAngle (kOr k (ellipseDefaultK a b)) i + radians rot)
        (radiusAtAngle a b (circleAngle (kOr k (ellipseDefaultK a b)) i)))
      = pymod (degrees (circleAngle (kOr k (ellipseDefaultK a b)) i) + rot) 360 := by
  rw [dest_bearing_mod hR c _ _ hlat (radiusAtAngle_pos (lt_of_lt_of_le hb hab) hb _)
    (lt_of_le_of_lt (radiusAtAngle_le_major hb hab _) ha)]
  congr 1
  rw [degrees_real, degrees_real, radians_real]; field_simp

theorem ellipseRing_closed (R : ℝ) (c : RC) (a b rot : ℝ) (k : Nat) (hk : 0 < kOr k (ellipseDefaultK a b)) :
    (ellipseRingRaw R c a b rot k).head? = (ellipseRingRaw R c a b rot k).getLast? := by
  simp only [ellipseRingRaw, ellipseRingWith, List.head?_map, List.getLast?_map, schedule_head,
    schedule_getLast, Option.map_some]
  congr 1
  have e1 := circleAngle_first hk
  have e0 := circleAngle_last (kOr k (ellipseDefaultK a b))
  have hr : radiusAtAngle a b (circleAngle (kOr k (ellipseDefaultK a b)) (kOr k (ellipseDefaultK a b)))
      = radiusAtAngle a b (circleAngle (kOr k (ellipseDefaultK a b)) 0) := by
    apply radiusAtAngle_congr
    · rw [e1, e0, sin_two_pi, sin_zero]
    · rw [e1, e0, cos_two_pi, cos_zero]
  rw [hr]
  apply destRaw_congr
  · rw [e1, e0]
    show sin (2 * π + radians rot) = sin (0 + radians rot)
    rw [zero_add, add_comm, sin_add_two_pi]
  · rw [e1, e0]
    show cos (2 * π + radians rot) = cos (0 + radians rot)
    rw [zero_add, add_comm, cos_add_two_pi]

/-! ## ring and wedge -/

/-- **the two arcs of a ring / wedge lie on the outer and the inner radius** -/
theorem ringArcs_on_radii {R : ℝ} (hR : 0 < R) (c : RC) (inner outer amin amax : ℝ) (k : Nat)
    (hlat : |c.2| ≤ 90) (hi : 0 ≤ inner) (hio : inner ≤ outer) (ho : outer ≤ π * R) :
    (∀ p ∈ (ringArcsRaw R c inner outer amin amax k).1, haversine R c p = outer) ∧
    (∀ p ∈ (ringArcsRaw R c inner outer amin amax k).2, haversine R c p = inner) := by
  constructor
  · intro p hp
    simp only [ringArcsRaw, ringArcsWith, List.mem_map] at hp
    obtain ⟨i, _, rfl⟩ := hp
    exact dest_dist hR c _ outer hlat (le_trans hi hio) ho
  · intro p hp
    simp only [ringArcsRaw, ringArcsWith, List.mem_map] at hp
    obtain ⟨i, _, rfl⟩ := hp
    exact dest_dist hR c _ inner hlat hi (le_trans hio ho)

/-- … at the scheduled bearing `angle_min + (angle_max - angle_min)·i/k` (mod 360) -/
theorem ringArcs_bearing {R : ℝ} (hR : 0 < R) (c : RC) (r amin amax : ℝ) (k i : Nat)
    (hlat : |c.2| < 90) (h0 : 0 < r) (h1 : r < π * R) :
    bearingUnrounded c (destRaw R c (ringAngle amin amax k i) r)
      = pymod (amin + (amax - amin) / k * i) 360 := by
  rw [dest_bearing_mod hR c _ r hlat h0 h1]
  congr 1
  rw [degrees_real, ringAngle_real]; field_simp

/-- what `bounding_coords` returns: the outer arc for a full ring; for a wedge the outer arc, the inner
    arc backwards, and the first vertex again -/
theorem wedgeRing_shape (R : ℝ) (c : RC) (inner outer amin amax : ℝ) (k : Nat) :
    wedgeRingRaw R c inner outer amin amax k =
      if amin = 0 ∧ amax = 360 then (ringArcsRaw R c inner outer amin amax k).1
      else (ringArcsRaw R c inner outer amin amax k).1 ++ (ringArcsRaw R c inner outer amin amax k).2.reverse
            ++ (ringArcsRaw R c inner outer amin amax k).1.take 1 := by
  unfold wedgeRingRaw wedgeRingOf isFullRing
  num_simp
  by_cases h : amin = 0 ∧ amax = 360
  · rw [if_pos h, if_pos]; obtain ⟨h1, h2⟩ := h; subst h1; subst h2; norm_num
  · rw [if_neg h, if_neg]
    intro h'; exact h ⟨le_antisymm h'.1.1 h'.1.2, le_antisymm h'.2.1 h'.2.2⟩

/-- a wedge's ring is closed by construction -/
theorem wedgeRing_closed (R : ℝ) (c : RC) (inner outer amin amax : ℝ) (k : Nat)
    (h : ¬(amin = 0 ∧ amax = 360)) :
    (wedgeRingRaw R c inner outer amin amax k).head? = (wedgeRingRaw R c inner outer amin amax k).getLast? := by
  rw [wedgeRing_shape, if_neg h]
  have hne : (ringArcsRaw R c inner outer amin amax k).1 ≠ [] := by
    simp [ringArcsRaw, ringArcsWith, schedule]
  obtain ⟨x, xs, hx⟩ := List.exists_cons_of_ne_nil hne
  rw [hx]
  have : x :: xs ++ (ringArcsRaw R c inner outer amin amax k).2.reverse ++ List.take 1 (x :: xs)
      = (x :: xs ++ (ringArcsRaw R c inner outer amin amax k).2.reverse) ++ [x] := by simp
  rw [this, List.getLast?_concat]; simp

/-! ## analytic membership -/

theorem notInHoles_iff (holes : List (RC → Bool)) (q : RC) :
    notInHoles holes q = true ↔ ∀ h ∈ holes, h q = false := by
  unfold notInHoles; simp

/-- **a circle contains exactly the coordinates within `radius` of its centre, holes removed** -/
theorem contains_circle_def (R : ℝ) (c : RC) (r : ℝ) (holes : List (RC → Bool)) (q : RC) :
    containsCircle R c r holes q = true ↔ haversine R q c ≤ r ∧ ∀ h ∈ holes, h q = false := by
  unfold containsCircle
  num_simp
  by_cases h : haversine R q c ≤ r
  · simp [h, notInHoles_iff]
  · simp [h]

/-- … where the distance is the central angle between the two position vectors times `R` -/
theorem contains_circle_central_angle (R : ℝ) (c : RC) (r : ℝ) (holes : List (RC → Bool)) (q : RC)
    (hc : |c.2| ≤ 90) (hq : |q.2| ≤ 90) :
    containsCircle R c r holes q = true ↔
      R * arccos (dot3 (xyz q) (xyz c)) ≤ r ∧ ∀ h ∈ holes, h q = false := by
  rw [contains_circle_def, hav_eq_central_angle R q c hq hc]

/-- **an ellipse contains exactly the coordinates no farther from the centre than the radius at their
    bearing measured from the major axis** (`rnd5`: the bearing's 1e-5° rounding, arbitrary), holes removed -/
theorem contains_ellipse_def (rnd5 : ℝ → ℝ) (R : ℝ) (c : RC) (a b rot : ℝ) (holes : List (RC → Bool)) (q : RC) :
    containsEllipse rnd5 R c a b rot holes q = true ↔
      haversine R c q ≤ radiusAtAngle a b (radians (bearing rnd5 c q - rot)) ∧ ∀ h ∈ holes, h q = false := by
  unfold containsEllipse
  num_simp
  by_cases h : haversine R c q ≤ radiusAtAngle a b (radians (bearing rnd5 c q - rot))
  · simp [h, notInHoles_iff]
  · simp [h]

/-- **a ring / wedge contains exactly the coordinates between the two radii whose bearing lies in the
    angle range** (the bearing test applies only when the range is narrower than 360°), holes removed -/
theorem contains_ring_def (rnd5 : ℝ → ℝ) (R : ℝ) (c : RC) (inner outer amin amax : ℝ)
    (holes : List (RC → Bool)) (q : RC) :
    containsRing rnd5 R c inner outer amin amax holes q = true ↔
      (amax - amin < 360 → amin ≤ bearing rnd5 c q ∧ bearing rnd5 c q ≤ amax) ∧
      (inner ≤ haversine R c q ∧ haversine R c q ≤ outer) ∧ ∀ h ∈ holes, h q = false := by
  unfold containsRing
  num_simp
  by_cases hw : amax - amin < 360
  · by_cases hb : amin ≤ bearing rnd5 c q ∧ bearing rnd5 c q ≤ amax
    · by_cases hr : inner ≤ haversine R c q ∧ haversine R c q ≤ outer
      · simp [hw, hb, hr, notInHoles_iff]
      · simp [hw, hb, hr]
    · simp [hw, hb]
  · by_cases hr : inner ≤ haversine R c q ∧ haversine R c q ≤ outer
    · simp [hw, hr, notInHoles_iff]
    · simp [hw, hr]

/-! ## non-vacuity -/

example : ∀ p ∈ circleRingRaw (earthR : ℝ) (179.9, 60) 5000 12, haversine earthR (179.9, 60) p = 5000 :=
  circleRing_on_circle earthR_pos _ _ _ (by norm_num [abs_le]) (by norm_num)
    (by rw [earthR_real]; nlinarith [two_le_pi])

example : radiusAtAngle (300 : ℝ) 100 (π / 2) = 100 := by
  rw [radiusAtAngle_real, sin_pi_div_two, cos_pi_div_two]
  have : √((300 : ℝ) ^ 2 * 1 ^ 2 + 100 ^ 2 * 0 ^ 2) = 300 := by
    rw [show (300 : ℝ) ^ 2 * 1 ^ 2 + 100 ^ 2 * 0 ^ 2 = 300 ^ 2 by norm_num]; exact sqrt_sq (by norm_num)
  rw [this]; norm_num

end GV.C03
