import GeoVerif.Lemmas.FloodFilled
/-!
# C12 on the lattice — the connectivity assumption discharged for a *filled* ring

`Props/C12Lattice` proves "the touched cells are connected through touched neighbours" (hence: the flood
of `NiemeyerHasher._hash_polygon` returns exactly the touched cells) for rectangles, segments and
polylines.  This file does it for a **filled polygon**: the closed region that the even–odd loop
`pointInRing … (include_boundary := true)` of `Model/Pip` accepts.

* `FilledMeets g ring cell` — the closed box of the cell contains a point of the closed polygon;
  `BoundaryMeets` — it contains a point of the closed boundary polyline (`polyTouches g (closeUp ring)`).
* `ParityConst ring` — the one geometric fact used: along a closed segment that meets no edge of the
  ring the answer of `pointInRing` does not change (crossing parity only changes across the boundary).
* `ParityConstAxis ring` — the same for axis-parallel segments only; this is all the flood argument uses,
  and it is **proved for every ring** (`axis_parityConst`): horizontal moves keep each edge's `crossesRay`
  value, vertical moves change it exactly when an end point lies in the swept band east of the segment, and
  those changes pair up around the closed walk.  Hence `ring_filled_connected`, `ring_filled_flood_exact`:
  **unconditional for arbitrary rings** (non-convex, self-intersecting, repeated vertices; the region is the
  even–odd one the code's loop accepts).
* `filled_connected` / `filled_flood_exact` — under `ParityConstAxis ring` (a fortiori `ParityConst ring`), every touched cell is reachable
  from the cell of the first vertex through touched (edge-)neighbours, and for every sound total pop
  schedule and fuel `≥ |ringBlock| + 1` the model's flood returns exactly `{cell | FilledMeets g ring cell}`.
  Proof: a touched cell either meets the boundary (`polyline_connected` links it to the start), or all
  its points are strictly inside (`ParityConst` + convexity of the box); then its west neighbour shares a
  side with it, so is touched too; walking west ends at a boundary cell because every touched cell lies in
  the ring's bounding block.
* `convex_parityConst` — `ParityConst` **proved** for every strictly convex counter-clockwise ring
  (`StrictConvexCCW`, any number of vertices), giving the unconditional `convex_filled_flood_exact`.
* a computable touch test `filledTouchesC` (boundary polyline clipped against the box, or the box's
  lower-left corner in the closed polygon), proved equivalent to `FilledMeets` under `ParityConst`.

`ParityConst` for segments of *arbitrary* direction and every ring is proved later, in `Props/C01Parity`
(`GV.C01.parityConst_all`, by a shear that reduces to `axis_parityConst`).  Here it is not needed
for C12 (the axis-parallel case suffices).
-/
namespace GV.FloodLat
open GV.Flood GV.PipConvex

/-! ## A. definitions -/

/-- the closed box of the cell contains a point of the closed polygon (boundary included) -/
def FilledMeets (g : Grid) (ring : List Pt) (cell : Cell) : Prop :=
  ∃ x y : Rat, InBox g cell x y ∧ pointInRing (x, y) ring true = true

/-- the closed box of the cell contains a point of the ring's closed boundary polyline -/
def BoundaryMeets (g : Grid) (ring : List Pt) (cell : Cell) : Prop :=
  polyTouches g (closeUp ring) cell = true

/-- no point of the closed segment `p q` lies on an edge of the ring -/
def SegAvoids (ring : List Pt) (p q : Pt) : Prop :=
  ∀ e ∈ ringEdges ring, ∀ s : Rat, 0 ≤ s → s ≤ 1 → onEdge (lineAt p q s) e = false

/-- **the geometric fact needed**: the even–odd answer is constant along a segment that avoids the
    boundary -/
def ParityConst (ring : List Pt) : Prop :=
  ∀ p q : Pt, SegAvoids ring p q → pointInRing p ring = pointInRing q ring

/-- the same fact restricted to axis-parallel segments — all that the flood argument needs (a closed
    cell box is convex, so two of its points are joined by a horizontal and a vertical segment inside
    it); **proved for every ring** below (`axis_parityConst`) -/
def ParityConstAxis (ring : List Pt) : Prop :=
  ∀ p q : Pt, (p.1 = q.1 ∨ p.2 = q.2) → SegAvoids ring p q → pointInRing p ring = pointInRing q ring

theorem ParityConst.axis {ring : List Pt} (h : ParityConst ring) : ParityConstAxis ring :=
  fun p q _ hav => h p q hav

/-- the touch predicate as a `Bool` function for the model (classical: the theorem is about the set) -/
noncomputable def filledTouches (g : Grid) (ring : List Pt) (cell : Cell) : Bool :=
  @decide (FilledMeets g ring cell) (Classical.propDecidable _)

theorem filledTouches_iff (g : Grid) (ring : List Pt) (cell : Cell) :
    filledTouches g ring cell = true ↔ FilledMeets g ring cell := by
  unfold filledTouches
  exact @decide_eq_true_iff _ (Classical.propDecidable _)

/-- a computable form: the boundary polyline meets the box, or the lower-left corner of the box is in
    the closed polygon -/
def filledTouchesC (g : Grid) (ring : List Pt) (cell : Cell) : Bool :=
  polyTouches g (closeUp ring) cell || pointInRing (xlo g cell.1, ylo g cell.2) ring true

theorem boundaryMeets_iff (g : Grid) (ring : List Pt) (cell : Cell) :
    BoundaryMeets g ring cell ↔ ∃ e ∈ ringEdges ring, SegMeets g e.1 e.2 cell := by
  unfold BoundaryMeets
  rw [polyTouches_iff, segsOf_closeUp]

/-! ## B. connectivity of the touched set under `ParityConst` -/

theorem pip_inclB_of_pip {p : Pt} {ring : List Pt} (h : pointInRing p ring = true) :
    pointInRing p ring true = true := by
  rw [C01.pointInRing_inclB, ← GV.pointInRing_eq_spec, h, Bool.or_true]

/-- a cell that meets the boundary holds a point of the closed polygon -/
theorem filled_of_boundary (g : Grid) (ring : List Pt) (cell : Cell) (h : BoundaryMeets g ring cell) :
    FilledMeets g ring cell := by
  obtain ⟨e, he, t, t0, t1, hb⟩ := (boundaryMeets_iff g ring cell).mp h
  refine ⟨_, _, hb, ?_⟩
  rw [seg_eq_lineAt, C01.pointInRing_inclB, Bool.or_eq_true]
  left
  exact List.any_eq_true.mpr ⟨e, he, onEdge_of_param e t0 t1⟩

/-- a cell that does not meet the boundary has no point on any edge -/
theorem off_of_not_boundary (g : Grid) (ring : List Pt) (cell : Cell) (h : ¬ BoundaryMeets g ring cell)
    (p : Pt) (hp : InBox g cell p.1 p.2) : ∀ e ∈ ringEdges ring, onEdge p e = false := by
  intro e he
  by_contra hc
  have hon : onEdge p e = true := by simpa using hc
  obtain ⟨t, t0, t1, rfl⟩ := onEdge_param hon
  exact h ((boundaryMeets_iff g ring cell).mpr ⟨e, he, t, t0, t1, hp⟩)

/-- **an interior cell is entirely inside**: a touched cell that does not meet the boundary has all the
    points of its closed box strictly inside the ring -/
theorem interior_all (g : Grid) (ring : List Pt) (hpc : ParityConstAxis ring) (cell : Cell)
    (hf : FilledMeets g ring cell) (hb : ¬ BoundaryMeets g ring cell) (q : Pt)
    (hq : InBox g cell q.1 q.2) : pointInRing q ring = true := by
  obtain ⟨x, y, hin, hpip⟩ := hf
  have hoff := off_of_not_boundary g ring cell hb
  have hp : pointInRing (x, y) ring = true := by
    rw [C01.pointInRing_inclB, Bool.or_eq_true] at hpip
    rcases hpip with h | h
    · obtain ⟨e, he, hon⟩ := List.any_eq_true.mp h
      rw [hoff (x, y) hin e he] at hon
      exact absurd hon (by simp)
    · rw [GV.pointInRing_eq_spec]; exact h
  have hm : InBox g cell q.1 y := ⟨hq.1, hq.2.1, hin.2.2.1, hin.2.2.2⟩
  have h1 : pointInRing (x, y) ring = pointInRing ((q.1, y) : Pt) ring := by
    apply hpc (x, y) (q.1, y) (Or.inr rfl)
    intro e he s s0 s1
    exact hoff _ (inBox_lineAt g cell (x, y) (q.1, y) hin hm s0 s1) e he
  have h2 : pointInRing ((q.1, y) : Pt) ring = pointInRing q ring := by
    apply hpc (q.1, y) q (Or.inl rfl)
    intro e he s s0 s1
    exact hoff _ (inBox_lineAt g cell (q.1, y) q hm hq s0 s1) e he
  rw [← h2, ← h1]
  exact hp

/-- the computable test decides `FilledMeets` -/
theorem filledTouchesC_iff (g : Grid) (ring : List Pt) (hpc : ParityConstAxis ring) (cell : Cell) :
    filledTouchesC g ring cell = true ↔ FilledMeets g ring cell := by
  unfold filledTouchesC
  rw [Bool.or_eq_true]
  have hcorner : InBox g cell (xlo g cell.1) (ylo g cell.2) :=
    ⟨le_refl _, lo1_le_hi1 g.hw _, le_refl _, lo1_le_hi1 g.hh _⟩
  constructor
  · rintro (h | h)
    · exact filled_of_boundary g ring cell h
    · exact ⟨_, _, hcorner, h⟩
  · intro hf
    by_cases hb : BoundaryMeets g ring cell
    · exact Or.inl hb
    · exact Or.inr (pip_inclB_of_pip (interior_all g ring hpc cell hf hb (xlo g cell.1, ylo g cell.2) hcorner))

/-- **one step west**: the west neighbour of a touched cell that does not meet the boundary is touched -/
theorem filled_west (g : Grid) (ring : List Pt) (hpc : ParityConstAxis ring) (i j : Int)
    (hf : FilledMeets g ring (i, j)) (hb : ¬ BoundaryMeets g ring (i, j)) :
    FilledMeets g ring (i - 1, j) := by
  have hcorner : InBox g (i, j) (xlo g i) (ylo g j) :=
    ⟨le_refl _, lo1_le_hi1 g.hw _, le_refl _, lo1_le_hi1 g.hh _⟩
  have hin := interior_all g ring hpc (i, j) hf hb (xlo g i, ylo g j) hcorner
  refine ⟨xlo g i, ylo g j, ⟨?_, ?_, le_refl _, lo1_le_hi1 g.hh _⟩, pip_inclB_of_pip hin⟩
  · exact lo1_mono g.hw (by omega)
  · show lo1 g.x0 g.w i ≤ hi1 g.x0 g.w (i - 1)
    rw [hi1_eq_lo1_succ]
    exact lo1_mono g.hw (by omega)

/-- every touched cell lies in the ring's bounding block -/
theorem mem_ringBlock (g : Grid) (v : Pt) (r : List Pt) (cell : Cell) (h : FilledMeets g (v :: r) cell) :
    cell ∈ ringBlock g (v :: r) := by
  obtain ⟨x, y, hin, hpip⟩ := h
  exact mem_ringBlock_of_inBBox g (v :: r) cell (x, y) (inBBox_of_pip_inclB (x, y) v r hpip) hin

/-- the cell of the first vertex meets the boundary -/
theorem start_boundary (g : Grid) (v : Pt) (r : List Pt) :
    BoundaryMeets g (v :: r) (cellOf g v.1 v.2) := by
  unfold BoundaryMeets
  cases r with
  | nil =>
    show polyTouches g [v, v] _ = true
    rw [polyTouches_cons, seg_first_touches]; rfl
  | cons b t =>
    show polyTouches g (v :: b :: (t ++ [v])) _ = true
    rw [polyTouches_cons, seg_first_touches]; rfl

/-- **connectivity of the cells touched by a filled ring** (under `ParityConst`): every touched cell is
    reachable from the cell of the first vertex through touched neighbours.  `touches` is any `Bool`
    function deciding `FilledMeets` (`filledTouches`, `filledTouchesC`). -/
theorem filled_connected (g : Grid) (v : Pt) (r : List Pt) (hpc : ParityConstAxis (v :: r))
    (touches : Cell → Bool) (ht : ∀ c, touches c = true ↔ FilledMeets g (v :: r) c) :
    ∀ cell, FilledMeets g (v :: r) cell → Reach nbrs8 touches (cellOf g v.1 v.2) cell := by
  have hbnd : ∀ cell, BoundaryMeets g (v :: r) cell → Reach nbrs8 touches (cellOf g v.1 v.2) cell := by
    intro cell hb
    exact reach_mono (fun c hc => (ht c).mpr (filled_of_boundary g (v :: r) c hc))
      (polyline_connected g (closeUp (v :: r)) _ cell (start_boundary g v r) hb)
  -- the leftmost column of the bounding block
  cases hbb : bboxOf (v :: r) with
  | none => simp [bboxOf] at hbb
  | some bb =>
    obtain ⟨x0, y0, x1, y1⟩ := bb
    have hcol : ∀ cell, FilledMeets g (v :: r) cell → ⌈(x0 - g.x0) / g.w⌉ - 1 ≤ cell.1 := by
      intro cell hf
      have := mem_ringBlock g v r cell hf
      unfold ringBlock at this
      rw [hbb] at this
      simp only [rectBlock, mem_block] at this
      exact this.1
    have key : ∀ (n : Nat) (i j : Int), i - (⌈(x0 - g.x0) / g.w⌉ - 1) ≤ n →
        FilledMeets g (v :: r) (i, j) → Reach nbrs8 touches (cellOf g v.1 v.2) (i, j) := by
      intro n
      induction n with
      | zero =>
        intro i j hn hf
        by_cases hb : BoundaryMeets g (v :: r) (i, j)
        · exact hbnd _ hb
        · have := hcol _ (filled_west g (v :: r) hpc i j hf hb)
          simp only at this
          omega
      | succ n ih =>
        intro i j hn hf
        by_cases hb : BoundaryMeets g (v :: r) (i, j)
        · exact hbnd _ hb
        · have hw := filled_west g (v :: r) hpc i j hf hb
          have hr := ih (i - 1) j (by omega) hw
          refine Reach.step hr ?_ ((ht _).mpr hf)
          rw [mem_nbrs8]
          refine ⟨?_, ?_, ?_⟩
          · intro e
            have := congrArg Prod.fst e
            simp only at this
            omega
          · simp only; omega
          · simp only; omega
    intro cell hf
    obtain ⟨i, j⟩ := cell
    exact key (i - (⌈(x0 - g.x0) / g.w⌉ - 1)).toNat i j (by omega) hf

/-- generic form of the exactness theorem: `touches` is any `Bool` function deciding `FilledMeets` -/
theorem filled_flood_exact_of (g : Grid) (v : Pt) (r : List Pt) (hpc : ParityConstAxis (v :: r))
    (touches : Cell → Bool) (ht : ∀ c, touches c = true ↔ FilledMeets g (v :: r) c)
    (pick : List Cell → Option Cell) (hp1 : PickSound pick) (hp2 : PickTotal pick)
    (fuel : Nat) (hf : (ringBlock g (v :: r)).length + 1 ≤ fuel) :
    ∃ out, flood nbrs8 touches pick fuel (cellOf g v.1 v.2) = some out ∧
      ∀ cell, cell ∈ out ↔ FilledMeets g (v :: r) cell := by
  obtain ⟨out, hout, hmem⟩ := flood_exact_of_conn (nbrs := nbrs8) (touches := touches)
    (ringBlock g (v :: r)) (fun c hc => mem_ringBlock g v r c ((ht c).mp hc)) (cellOf g v.1 v.2)
    ((ht _).mpr (filled_of_boundary g _ _ (start_boundary g v r)))
    (fun c hc => filled_connected g v r hpc touches ht c ((ht c).mp hc)) pick hp1 hp2 fuel hf
  exact ⟨out, hout, fun cell => (hmem cell).trans (ht cell)⟩

/-- **C12 for a filled ring, under `ParityConst`**: for every sound and total pop schedule and every
    fuel `≥ |ringBlock| + 1`, the model's flood started (as `_hash_polygon` does) from the cell of the
    first vertex terminates and returns exactly the cells whose closed box contains a point of the
    closed polygon — both inclusions, no connectivity hypothesis -/
theorem filled_flood_exact (g : Grid) (v : Pt) (r : List Pt) (hpc : ParityConstAxis (v :: r))
    (pick : List Cell → Option Cell) (hp1 : PickSound pick) (hp2 : PickTotal pick)
    (fuel : Nat) (hf : (ringBlock g (v :: r)).length + 1 ≤ fuel) :
    ∃ out, flood nbrs8 (filledTouches g (v :: r)) pick fuel (cellOf g v.1 v.2) = some out ∧
      ∀ cell, cell ∈ out ↔ FilledMeets g (v :: r) cell :=
  filled_flood_exact_of g v r hpc _ (filledTouches_iff g (v :: r)) pick hp1 hp2 fuel hf

/-- the same with the computable touch test -/
theorem filled_flood_exact_computable (g : Grid) (v : Pt) (r : List Pt) (hpc : ParityConstAxis (v :: r))
    (pick : List Cell → Option Cell) (hp1 : PickSound pick) (hp2 : PickTotal pick)
    (fuel : Nat) (hf : (ringBlock g (v :: r)).length + 1 ≤ fuel) :
    ∃ out, flood nbrs8 (filledTouchesC g (v :: r)) pick fuel (cellOf g v.1 v.2) = some out ∧
      ∀ cell, cell ∈ out ↔ FilledMeets g (v :: r) cell :=
  filled_flood_exact_of g v r hpc _ (filledTouchesC_iff g (v :: r) hpc) pick hp1 hp2 fuel hf

/-! ## C. `ParityConst` proved for strictly convex rings -/

/-- a segment from a strictly inside point to a not strictly inside point of a strictly convex ring
    has a point on an edge: the first parameter at which one of the edges' cross products vanishes
    (`first_exit`) gives a point weakly left of every edge and not strictly left of one — a boundary
    point by `convex_pip_inclB_iff` / `convex_pip_iff` -/
theorem convex_exit (ring : List Pt) (h : StrictConvexCCW ring) (p q : Pt)
    (hp : pointInRing p ring = true) (hq : pointInRing q ring = false) :
    ∃ e ∈ ringEdges ring, ∃ s : Rat, 0 ≤ s ∧ s ≤ 1 ∧ onEdge (lineAt p q s) e = true := by
  have hL := (C01.convex_pip_iff ring h p).mp hp
  obtain ⟨s, s0, s1, hall, hcase⟩ :=
    first_exit (fun e => pcross e p) (fun e => pcross e q) (ringEdges ring) hL
  have hval : ∀ e, pcross e (lineAt p q s) = pcross e p + s * (pcross e q - pcross e p) := by
    intro e; rw [pcross_lineAt]; ring
  rcases hcase with ⟨e0, he0, hz⟩ | ⟨rfl, hb⟩
  · have hin : pointInRing (lineAt p q s) ring true = true :=
      (C01.convex_pip_inclB_iff ring h _).mpr (fun e he => by rw [hval]; exact hall e he)
    have hnot : pointInRing (lineAt p q s) ring = false := by
      by_contra hc
      have hc' : pointInRing (lineAt p q s) ring = true := by simpa using hc
      have := (C01.convex_pip_iff ring h _).mp hc' e0 he0
      rw [hval, hz] at this
      exact lt_irrefl _ this
    rw [C01.pointInRing_inclB, ← GV.pointInRing_eq_spec, hnot, Bool.or_false] at hin
    obtain ⟨e, he, hon⟩ := List.any_eq_true.mp hin
    exact ⟨e, he, s, s0, s1, hon⟩
  · exfalso
    have := (C01.convex_pip_iff ring h q).mpr hb
    rw [hq] at this
    exact absurd this (by simp)

/-- **`ParityConst` holds for every strictly convex counter-clockwise ring** -/
theorem convex_parityConst (ring : List Pt) (h : StrictConvexCCW ring) : ParityConst ring := by
  intro p q hav
  cases hp : pointInRing p ring <;> cases hq : pointInRing q ring
  · rfl
  · exfalso
    obtain ⟨e, he, s, s0, s1, hon⟩ := convex_exit ring h q p hq hp
    rw [lineAt_rev] at hon
    rw [hav e he (1 - s) (by linarith) (by linarith)] at hon
    exact absurd hon (by simp)
  · exfalso
    obtain ⟨e, he, s, s0, s1, hon⟩ := convex_exit ring h p q hp hq
    rw [hav e he s s0 s1] at hon
    exact absurd hon (by simp)
  · rfl

/-- for a convex ring `FilledMeets` is "the box holds a point weakly left of every edge" -/
theorem convex_filledMeets_iff (g : Grid) (ring : List Pt) (h : StrictConvexCCW ring) (cell : Cell) :
    FilledMeets g ring cell ↔
      ∃ x y : Rat, InBox g cell x y ∧ ∀ e ∈ ringEdges ring, 0 ≤ pcross e ((x, y) : Pt) := by
  unfold FilledMeets
  simp only [C01.convex_pip_inclB_iff ring h]

/-- **C12 for a filled strictly convex ring, unconditional**: for every sound and total pop schedule
    and fuel `≥ |ringBlock| + 1` the flood from the first vertex's cell returns exactly the cells whose
    closed box contains a point of the closed convex polygon (the intersection of the closed half-planes
    of its edges) -/
theorem convex_filled_flood_exact (g : Grid) (v : Pt) (r : List Pt) (h : StrictConvexCCW (v :: r))
    (pick : List Cell → Option Cell) (hp1 : PickSound pick) (hp2 : PickTotal pick)
    (fuel : Nat) (hf : (ringBlock g (v :: r)).length + 1 ≤ fuel) :
    ∃ out, flood nbrs8 (filledTouchesC g (v :: r)) pick fuel (cellOf g v.1 v.2) = some out ∧
      ∀ cell, cell ∈ out ↔
        ∃ x y : Rat, InBox g cell x y ∧ ∀ e ∈ ringEdges (v :: r), 0 ≤ pcross e ((x, y) : Pt) := by
  obtain ⟨out, hout, hmem⟩ := filled_flood_exact_computable g v r (convex_parityConst _ h).axis pick hp1 hp2 fuel hf
  exact ⟨out, hout, fun cell => (hmem cell).trans (convex_filledMeets_iff g _ h cell)⟩

/-- … and with the classical set-level touch function -/
theorem convex_filled_flood_exact_set (g : Grid) (v : Pt) (r : List Pt) (h : StrictConvexCCW (v :: r))
    (pick : List Cell → Option Cell) (hp1 : PickSound pick) (hp2 : PickTotal pick)
    (fuel : Nat) (hf : (ringBlock g (v :: r)).length + 1 ≤ fuel) :
    ∃ out, flood nbrs8 (filledTouches g (v :: r)) pick fuel (cellOf g v.1 v.2) = some out ∧
      ∀ cell, cell ∈ out ↔ FilledMeets g (v :: r) cell :=
  filled_flood_exact g v r (convex_parityConst _ h).axis pick hp1 hp2 fuel hf

/-! ## C2. `ParityConstAxis` proved for EVERY ring — the flood theorems become unconditional -/

theorem segAvoids_symm {ring : List Pt} {p q : Pt} (h : SegAvoids ring p q) : SegAvoids ring q p := by
  intro e he s s0 s1
  rw [lineAt_rev]
  exact h e he (1 - s) (by linarith) (by linarith)

theorem vAvoid_of_seg {ring : List Pt} {x y y' : Rat}
    (h : SegAvoids ring (x, y) (x, y')) : ∀ e ∈ ringEdges ring, VAvoid x y y' e := by
  intro e he Y h1 h2
  obtain ⟨s, s0, s1, hs⟩ := exists_lambda h1 h2
  have := h e he s s0 s1
  have hpt : lineAt ((x, y) : Pt) (x, y') s = (x, Y) := by
    unfold lineAt
    refine Prod.ext ?_ ?_
    · simp
    · exact hs
  rwa [hpt] at this

/-- **crossing parity only changes across the boundary** (axis-parallel moves, ANY ring — no
    simplicity, no orientation, repeated vertices allowed): horizontal moves keep every edge's
    `crossesRay` value (`horiz_edge`); along a vertical move the value of an edge changes exactly when
    one of its end points lies in the swept band east of the segment (`vert_edge`), and these changes
    pair up around the closed walk (`parity_path`) -/
theorem axis_parityConst (ring : List Pt) : ParityConstAxis ring := by
  intro p q hax hav
  cases ring with
  | nil => rfl
  | cons v r =>
    obtain ⟨x, y⟩ := p
    obtain ⟨x', y'⟩ := q
    rw [GV.pointInRing_eq_spec, GV.pointInRing_eq_spec]
    rcases hax with hx | hy
    · simp only at hx
      subst hx
      rcases le_total y y' with hyy | hyy
      · exact insideEO_vert v r hyy (vAvoid_of_seg hav)
      · exact (insideEO_vert v r hyy (vAvoid_of_seg (segAvoids_symm hav))).symm
    · simp only at hy
      subst hy
      apply insideEO_horiz
      intro e he s s0 s1
      have := hav e he s s0 s1
      have hpt : lineAt ((x, y) : Pt) (x', y) s = (x + s * (x' - x), y) := by
        unfold lineAt
        refine Prod.ext rfl ?_
        simp
      rwa [hpt] at this

/-- the computable touch test decides `FilledMeets` for every ring -/
theorem ring_filledTouchesC_iff (g : Grid) (ring : List Pt) (cell : Cell) :
    filledTouchesC g ring cell = true ↔ FilledMeets g ring cell :=
  filledTouchesC_iff g ring (axis_parityConst ring) cell

/-- **connectivity of the cells touched by a filled ring, unconditional** (any ring, even–odd filling) -/
theorem ring_filled_connected (g : Grid) (v : Pt) (r : List Pt) (cell : Cell)
    (h : FilledMeets g (v :: r) cell) :
    Reach nbrs8 (filledTouchesC g (v :: r)) (cellOf g v.1 v.2) cell :=
  filled_connected g v r (axis_parityConst _) _ (ring_filledTouchesC_iff g (v :: r)) cell h

/-- **C12 for a filled ring, unconditional**: for EVERY ring (convex or not, simple or not; the region
    is the one the even–odd loop `pointInRing … true` accepts), every sound and total pop schedule and
    every fuel `≥ |ringBlock| + 1`, the model's flood from the first vertex's cell returns exactly the
    cells whose closed box contains a point of the closed region -/
theorem ring_filled_flood_exact (g : Grid) (v : Pt) (r : List Pt)
    (pick : List Cell → Option Cell) (hp1 : PickSound pick) (hp2 : PickTotal pick)
    (fuel : Nat) (hf : (ringBlock g (v :: r)).length + 1 ≤ fuel) :
    ∃ out, flood nbrs8 (filledTouchesC g (v :: r)) pick fuel (cellOf g v.1 v.2) = some out ∧
      ∀ cell, cell ∈ out ↔ FilledMeets g (v :: r) cell :=
  filled_flood_exact_computable g v r (axis_parityConst _) pick hp1 hp2 fuel hf

/-- … with the classical set-level touch function -/
theorem ring_filled_flood_exact_set (g : Grid) (v : Pt) (r : List Pt)
    (pick : List Cell → Option Cell) (hp1 : PickSound pick) (hp2 : PickTotal pick)
    (fuel : Nat) (hf : (ringBlock g (v :: r)).length + 1 ≤ fuel) :
    ∃ out, flood nbrs8 (filledTouches g (v :: r)) pick fuel (cellOf g v.1 v.2) = some out ∧
      ∀ cell, cell ∈ out ↔ FilledMeets g (v :: r) cell :=
  filled_flood_exact g v r (axis_parityConst _) pick hp1 hp2 fuel hf

/-! ## D. non-vacuity on concrete rationals -/

/-- a strictly convex pentagon with rational vertices, none of them a grid corner; one vertex on a grid
    line -/
def pentagon : List Pt := [(1/2, 1/4), (5/2, 1/4), (7/2, 7/4), (2, 13/4), (0, 7/4)]

example : StrictConvexCCW pentagon := by decide +kernel

/-- the bounding block has 5 × 4 = 20 cells -/
example : (ringBlock unitGrid pentagon).length = 20 := by decide +kernel

/-- the model's flood on the unit grid, two schedules: the 15 touched cells -/
example : flood nbrs8 (filledTouchesC unitGrid pentagon) popFirst 21 (cellOf unitGrid (1/2) (1/4))
    = some [(2, 0), (3, 0), (3, 1), (3, 2), (2, 1), (2, 2), (2, 3), (1, 2), (1, 3), (0, 2), (-1, 1), (1, 0),
        (1, 1), (0, 1), (0, 0)] := by decide +kernel
example : (flood nbrs8 (filledTouchesC unitGrid pentagon) popLast 21 (cellOf unitGrid (1/2) (1/4))).map
    (fun v => (v.length, (ringBlock unitGrid pentagon).filter (fun c => decide (c ∈ v)))) =
    some (15, [(-1, 1), (0, 0), (0, 1), (0, 2), (1, 0), (1, 1), (1, 2), (1, 3), (2, 0), (2, 1), (2, 2), (2, 3),
      (3, 0), (3, 1), (3, 2)]) := by decide +kernel

/-- cell (1, 1) is touched without meeting the boundary (an interior cell); the block cells (3, 3) and
    (-1, 0) are not touched -/
example : polyTouches unitGrid (closeUp pentagon) (1, 1) = false ∧
    filledTouchesC unitGrid pentagon (1, 1) = true ∧ filledTouchesC unitGrid pentagon (3, 3) = false ∧
    filledTouchesC unitGrid pentagon (-1, 0) = false := by
  refine ⟨by decide +kernel, by decide +kernel, by decide +kernel, by decide +kernel⟩

/-- the hypotheses of `convex_filled_flood_exact` are satisfiable, with the fuel bound computed: 20 + 1 -/
example : ∃ out, flood nbrs8 (filledTouchesC unitGrid pentagon) popLast 21 (cellOf unitGrid (1/2) (1/4)) = some out ∧
    ∀ cell, cell ∈ out ↔ ∃ x y : Rat, InBox unitGrid cell x y ∧
      ∀ e ∈ ringEdges pentagon, 0 ≤ pcross e ((x, y) : Pt) :=
  convex_filled_flood_exact unitGrid (1/2, 1/4) _ (by decide +kernel) popLast popLast_sound popLast_total 21
    (by decide +kernel)

/-- theorem + computed value: the 15 listed cells are exactly the cells whose closed box contains a point
    of the closed pentagon -/
example : ∀ cell, cell ∈ ([(2, 0), (3, 0), (3, 1), (3, 2), (2, 1), (2, 2), (2, 3), (1, 2), (1, 3), (0, 2), (-1, 1),
      (1, 0), (1, 1), (0, 1), (0, 0)] : List Cell) ↔ FilledMeets unitGrid pentagon cell := by
  obtain ⟨out, hout, hmem⟩ := filled_flood_exact_computable unitGrid (1/2, 1/4) _
    (convex_parityConst pentagon (by decide +kernel)).axis popFirst popFirst_sound popFirst_total 21 (by decide +kernel)
  have hval : flood nbrs8 (filledTouchesC unitGrid pentagon) popFirst 21 (cellOf unitGrid (1/2) (1/4))
    = some [(2, 0), (3, 0), (3, 1), (3, 2), (2, 1), (2, 2), (2, 3), (1, 2), (1, 3), (0, 2), (-1, 1), (1, 0),
        (1, 1), (0, 1), (0, 0)] := by decide +kernel
  have : out = _ := Option.some.inj (hout.symm.trans hval)
  rw [← this]
  exact hmem

/-- a geographic grid (origin (−180, −90), cells 45/8° × 45/16°) and a triangle -/
example : StrictConvexCCW [(-3, 50), (11, 48), (5, 56)] ∧
    (flood nbrs8 (filledTouchesC geoGrid [(-3, 50), (11, 48), (5, 56)]) popFirst 10 (cellOf geoGrid (-3) 50)).map
      List.length = some 8 ∧ (ringBlock geoGrid [(-3, 50), (11, 48), (5, 56)]).length = 9 := by
  refine ⟨by decide +kernel, by decide +kernel, by decide +kernel⟩

/-- a NON-convex ring (an "M" with the reflex vertex (2, 2)) through the unconditional theorem -/
def mRing : List Pt := [(1/2, 1/2), (7/2, 1/2), (7/2, 7/2), (2, 2), (1/2, 7/2)]

example : ¬ StrictConvexCCW mRing := by decide +kernel
example : flood nbrs8 (filledTouchesC unitGrid mRing) popFirst 17 (cellOf unitGrid (1/2) (1/2))
    = some [(0, 3), (0, 2), (1, 3), (1, 2), (3, 3), (2, 3), (2, 2), (3, 2), (3, 0), (3, 1), (2, 0), (2, 1), (1, 0),
        (1, 1), (0, 1), (0, 0)] := by decide +kernel
example : ∃ out, flood nbrs8 (filledTouchesC unitGrid mRing) popLast 17 (cellOf unitGrid (1/2) (1/2)) = some out ∧
    ∀ cell, cell ∈ out ↔ FilledMeets unitGrid mRing cell :=
  ring_filled_flood_exact unitGrid (1/2, 1/2) _ popLast popLast_sound popLast_total 17 (by decide +kernel)

/-- a self-intersecting ring (bow-tie): the theorem still applies — the region is the even–odd one -/
example : ∃ out, flood nbrs8 (filledTouchesC unitGrid [(1/2, 1/2), (5/2, 5/2), (5/2, 1/2), (1/2, 5/2)]) popFirst 10
      (cellOf unitGrid (1/2) (1/2)) = some out ∧
    ∀ cell, cell ∈ out ↔ FilledMeets unitGrid [(1/2, 1/2), (5/2, 5/2), (5/2, 1/2), (1/2, 5/2)] cell :=
  ring_filled_flood_exact unitGrid (1/2, 1/2) _ popFirst popFirst_sound popFirst_total 10 (by decide +kernel)

end GV.FloodLat
