import GeoVerif.Gen.SrcDms
import GeoVerif.Props.C19
import Mathlib.Data.List.TakeWhile

/-!
# Source tie for `Coordinate.to_dms` / `from_dms` / `to_qdms` / `from_qdms` (`coordinates.py`)

`GeoVerif/Gen/SrcDms.lean` is regenerated from the current text of `coordinates.py` on every run (unit `SrcDms` of
`harness/srcunits.py`): the four methods and their local functions (`convert` ×3, `zero_pad` at an `int` and at a `str`),
a `str` read as the list of its characters and a `float` as an exact rational.  Every translated definition is proved
equal to the hand-written model `GV.Dms` (`Model/Dms.lean`) the C19 theorems are about:

* `convert_eq`, `toDms_eq`            the `divmod` chain, `int(...)`, the rounding, the hemisphere letters
* `fromDms_convert_eq`, `fromDms_eq`  the sign factor and the sum
* `zeroPadStr_eq`, `zeroPadInt_eq`, `toQdms_eq`   `str`, `.replace('.', '')`, `'0' * (length - len(_)) + _`, the field list,
  `''.join`, the f-strings, the `reverse` switch
* `parseFloat_seconds`, `fromQdms_convert_eq`, `fromQdms_eq`   the slices, `lon[0]` (`IndexError`), the order of the
  `float(...)` calls (`ValueError`), the sign factor, the final rounding — on the texts whose degree and minute fields hold
  no `.` (`fieldsDotFree`): there the model's `float` (unsigned digits only) is narrower than Python's, see the report.

Declared, not translated (`Model/PyStr.lean`): `round_half_up` (pinned; the model's exact half-up rounding),
`float(text)`, `f'{x:.2f}'` (Python runtime), `Coordinate(x, y)` (`Coord.new`; the constructor is `SrcCoord`'s subject).
The proofs unfold both sides and decide what is left, so that harmless rewrites of the source go through.
-/
set_option linter.unusedTactic false
set_option linter.unreachableTactic false
set_option linter.unusedSimpArgs false

namespace GV.C19Src
open GV GV.CoordObj GV.Dms GV.PyStr

/-! ## the built-ins of the prelude (`Model/PyStr.lean`) -/

theorem truncR_intCast (n : ℤ) : truncR (n : ℚ) = n := by
  unfold truncR
  by_cases h : (n : ℚ) ≥ 0
  · simp only [h, if_true, rfloor_eq, Int.floor_intCast]
  · simp only [h, if_false, rfloor_eq]
    rw [← Int.cast_neg, Int.floor_intCast]; omega

/-- `divmod` of an integer-valued float by a positive integer literal is integer `//` and `%` -/
theorem divmodR_int (q k : ℤ) (hk : 0 < k) : divmodR (q : ℚ) (k : ℚ) = (((q / k : ℤ) : ℚ), ((q % k : ℤ) : ℚ)) := by
  have hfl : ((q : ℚ) / (k : ℚ)).floor = q / k := by
    obtain ⟨n, rfl⟩ := Int.eq_ofNat_of_zero_le (le_of_lt hk)
    rw [rfloor_eq]
    exact_mod_cast Rat.floor_intCast_div_natCast q n
  simp only [divmodR, hfl, Prod.mk.injEq, true_and]
  rw [Int.emod_def]; push_cast; ring

theorem divmodR_def (a b : ℚ) : divmodR a b = ((((a / b).floor : ℤ) : ℚ), a - b * ((a / b).floor : ℤ)) := rfl

/-- **`convert` of `to_dms`** is the model's divmod chain and rounding -/
theorem convert_eq (dd : ℚ) : Src.Dms.toDms.convert dd = Dms.convert dd := by
  simp only [Src.Dms.toDms.convert, Dms.convert, convertRaw]
  simp only [divmodR_int _ 60 (by norm_num), divmodR_def, truncR_intCast]
  push_cast
  first | rfl | ring_nf

/-- the tuple `to_dms` returns for one axis: int degrees and minutes, float seconds, the hemisphere letter as a `str` -/
def intTuple (x : DMS) : ℤ × ℤ × ℚ × List Char := (x.deg.floor, x.min.floor, x.sec, [x.hemi])

theorem intTuple_mkDMS (dd : ℚ) (pos neg : Char) :
    intTuple (mkDMS dd pos neg) =
      ((Dms.convert dd).1, (Dms.convert dd).2.1, (Dms.convert dd).2.2, if dd ≥ 0 then [pos] else [neg]) := by
  simp only [intTuple, mkDMS, rfloor_eq, Int.floor_intCast]
  split_ifs <;> rfl

/-- **`to_dms`** -/
theorem toDms_eq (c : Coord) : Src.Dms.toDms c = (intTuple (Dms.toDms c).1, intTuple (Dms.toDms c).2) := by
  simp only [Src.Dms.toDms, Dms.toDms, intTuple_mkDMS, convert_eq]
  have h0 : ((0 : ℤ) : ℚ) = 0 := by norm_num
  rcases le_or_gt 0 c.lon with h1 | h1 <;> rcases le_or_gt 0 c.lat with h2 | h2 <;>
    first
    | simp [h0, h1, h2, not_lt.mpr h1, not_lt.mpr h2]
    | simp [h0, h1, h2, not_lt.mpr h1, not_le.mpr h2]
    | simp [h0, h1, h2, not_le.mpr h1, not_lt.mpr h2]
    | simp [h0, h1, h2, not_le.mpr h1, not_le.mpr h2]

/-- the tuple `from_dms` reads for one axis (floats throughout) -/
def ratTuple (x : DMS) : ℚ × ℚ × ℚ × List Char := (x.deg, x.min, x.sec, [x.hemi])

/-- **`convert` of `from_dms`** -/
theorem fromDms_convert_eq (x : DMS) : Src.Dms.fromDms.convert (ratTuple x) = dmsValue x := by
  simp only [Src.Dms.fromDms.convert, ratTuple, dmsValue]
  by_cases h : x.hemi = 'S' ∨ x.hemi = 'W'
  · rcases h with h | h <;> simp [h] <;> ring
  · have h1 : x.hemi ≠ 'S' := fun e => h (Or.inl e)
    have h2 : x.hemi ≠ 'W' := fun e => h (Or.inr e)
    simp [h1, h2]

/-- **`from_dms`** -/
theorem fromDms_eq (lon lat : DMS) : Src.Dms.fromDms (ratTuple lon) (ratTuple lat) = Dms.fromDms lon lat := by
  simp only [Src.Dms.fromDms, Dms.fromDms, fromDms_convert_eq]


/-! ## `to_qdms` -/

theorem replace1_dot (s : List Char) : replace1 s '.' [] = s.filter (· ≠ '.') := by
  unfold replace1
  induction s with
  | nil => rfl
  | cons a t ih =>
    by_cases h : a = '.'
    · simp [h, List.flatMap_cons] at ih ⊢; exact ih
    · simp [h, List.flatMap_cons] at ih ⊢; exact ih

theorem rep_zero (n : ℤ) : rep ['0'] n = List.replicate n.toNat '0' := by
  unfold rep
  induction n.toNat with
  | zero => rfl
  | succ k ih => simp [List.replicate_succ, ih]

/-- **`zero_pad` at a `str`** -/
theorem zeroPadStr_eq (s : List Char) (len : ℤ) : Src.Dms.toQdms.zeroPadStr s len = Dms.zeroPad s len.toNat := by
  simp only [Src.Dms.toQdms.zeroPadStr, Dms.zeroPad, replace1_dot, rep_zero]
  congr 2
  omega

theorem strInt_nonneg (n : ℤ) (h : 0 ≤ n) : strInt n = natStr n.natAbs := by
  simp [strInt, not_lt.mpr h]

/-- **`zero_pad` at a non-negative `int`** -/
theorem zeroPadInt_eq (n : ℤ) (h : 0 ≤ n) (len : ℤ) :
    Src.Dms.toQdms.zeroPadInt n len = Dms.zeroPad (natStr n.natAbs) len.toNat := by
  simp only [Src.Dms.toQdms.zeroPadInt, Dms.zeroPad, replace1_dot, rep_zero, strInt_nonneg n h]
  congr 2
  omega

theorem zeroPadInt_abs (n : ℤ) (len : ℤ) :
    Src.Dms.toQdms.zeroPadInt (absI n) len = Dms.zeroPad (natStr n.natAbs) len.toNat := by
  rw [zeroPadInt_eq _ (by simp [absI])]; simp only [absI, Int.natAbs_natCast]

theorem join_nil (xs : List (List Char)) : PyStr.join [] xs = xs.flatten := by
  unfold PyStr.join List.intercalate
  induction xs with
  | nil => rfl
  | cons a t ih =>
    cases t with
    | nil => simp
    | cons b u => simp only [List.intersperse_cons_cons, List.flatten_cons, List.nil_append] at ih ⊢; rw [ih]

theorem minutes_nonneg (dd : ℚ) : 0 ≤ (Dms.convert dd).2.1 := (C19.dms_fields_range dd).2.2.1

/-- **`to_qdms`**: the same two texts, in the same order -/
theorem toQdms_eq (c : Coord) (reverse : Bool) : Src.Dms.toQdms c reverse = Dms.toQdms c reverse := by
  simp only [Src.Dms.toQdms, toDms_eq, Dms.toDms, intTuple_mkDMS, join_nil, zeroPadInt_abs,
    zeroPadInt_eq _ (minutes_nonneg c.lon), zeroPadInt_eq _ (minutes_nonneg c.lat), zeroPadStr_eq]
  simp only [Dms.toQdms, Dms.toDms, qdmsAxis, mkDMS, rfloor_eq, Int.floor_intCast, fmtF2, hundredths]
  cases reverse <;> simp <;> (split_ifs <;> simp)


/-! ## `from_qdms` -/

/-- no `.` in the text -/
def noDot (l : List Char) : Bool := l.all (· ≠ '.')

theorem noDot_iff (l : List Char) : noDot l = true ↔ ∀ c ∈ l, c ≠ '.' := by
  simp [noDot]

theorem allDigits_noDot (l : List Char) (h : allDigits l = true) : ∀ c ∈ l, c ≠ '.' := by
  intro c hc e
  subst e
  unfold allDigits at h
  rw [List.all_eq_true] at h
  exact absurd (h _ hc) (by decide)

theorem allDigits_dot (l : List Char) (h : '.' ∈ l) : allDigits l = false := by
  by_contra hne
  exact allDigits_noDot l (by simpa using hne) '.' h rfl

/-- `float(text)` of a text without `.` is the model's `parseDigits` -/
theorem parseFloat_noDot (l : List Char) (h : ∀ c ∈ l, c ≠ '.') : parseFloat l = parseDigits l := by
  have : l.dropWhile (· ≠ '.') = [] := by
    rw [List.dropWhile_eq_nil_iff]; intro c hc; simpa using h c hc
  simp only [parseFloat, this]

/-- `float(A + '.' + f)` for a dot-free `A` -/
theorem parseFloat_split (A f : List Char) (hA : ∀ c ∈ A, c ≠ '.') :
    parseFloat (A ++ '.' :: f) =
      if (A ++ f) ≠ [] ∧ allDigits A ∧ allDigits f then
        .ok ((digitsVal A : ℕ) + (digitsVal f : ℕ) / pow10 f.length) else .error "ERR:Value" := by
  have h1 : (A ++ '.' :: f).takeWhile (· ≠ '.') = A := by
    rw [List.takeWhile_append_of_pos (by intro c hc; simpa using hA c hc)]; simp
  have h2 : (A ++ '.' :: f).dropWhile (· ≠ '.') = '.' :: f := by
    rw [List.dropWhile_append_of_pos (by intro c hc; simpa using hA c hc)]; simp
  simp only [parseFloat, h1, h2]

/-- `float(A + '.' + f)` when `A` already contains a `.`: two dots, `ValueError` -/
theorem parseFloat_twoDots (A f : List Char) (hA : '.' ∈ A) : parseFloat (A ++ '.' :: f) = .error "ERR:Value" := by
  obtain ⟨A1, A2, rfl, hA1⟩ : ∃ A1 A2, A = A1 ++ '.' :: A2 ∧ ∀ c ∈ A1, c ≠ '.' := by
    refine ⟨A.takeWhile (· ≠ '.'), (A.dropWhile (· ≠ '.')).tail, ?_, ?_⟩
    · have hne : A.dropWhile (· ≠ '.') ≠ [] := by
        rw [Ne, List.dropWhile_eq_nil_iff]; push Not; exact ⟨'.', hA, by simp⟩
      have hhd := List.head_dropWhile_not (· ≠ '.') (l := A) hne
      have : A.dropWhile (· ≠ '.') = '.' :: (A.dropWhile (· ≠ '.')).tail := by
        conv_lhs => rw [← List.cons_head_tail hne]
        congr 1; simpa using hhd
      conv_lhs => rw [← List.takeWhile_append_dropWhile (p := (· ≠ '.')) (l := A), this]
    · intro c hc; simpa using List.mem_takeWhile_imp hc
  rw [List.append_assoc, List.cons_append, parseFloat_split _ _ hA1]
  have : allDigits (A2 ++ '.' :: f) = false := allDigits_dot _ (by simp)
  simp [this]

/-- **`float(s[:2] + '.' + s[2:])`** is the model's `parseSeconds` -/
theorem parseFloat_seconds (s : List Char) : parseFloat (s.take 2 ++ ['.'] ++ s.drop 2) = parseSeconds s := by
  rw [List.append_assoc, List.singleton_append]
  by_cases h : allDigits (s.take 2) = true
  · rw [parseFloat_split _ _ (allDigits_noDot _ h)]; rfl
  · by_cases hd : '.' ∈ s.take 2
    · rw [parseFloat_twoDots _ _ hd]; simp [parseSeconds, h]
    · rw [parseFloat_split _ _ (fun c hc e => hd (e ▸ hc))]; simp [parseSeconds, h]

/-- **`convert` of `from_qdms`**, for a one-letter quadrant and degree / minute fields without a `.` -/
theorem fromQdms_convert_eq (q : Char) (d m s : List Char) (hd : noDot d = true) (hm : noDot m = true) :
    Src.Dms.fromQdms.convert [q] d m s = qconvert q d m s := by
  have hs := parseFloat_seconds s
  simp only [List.append_assoc, List.singleton_append] at hs
  simp only [Src.Dms.fromQdms.convert, qconvert, parseFloat_noDot d ((noDot_iff d).mp hd),
    parseFloat_noDot m ((noDot_iff m).mp hm), List.append_assoc, List.singleton_append, hs,
    bind, Except.bind, pure, Except.pure]
  cases parseDigits d <;> cases parseDigits m <;> cases parseSeconds s <;> simp only []
  by_cases h : q = 'W' ∨ q = 'S'
  · rcases h with h | h <;> simp [h]
  · have h1 : q ≠ 'W' := fun e => h (Or.inl e)
    have h2 : q ≠ 'S' := fun e => h (Or.inr e)
    simp [h1, h2]

/-- the inputs on which the model's narrower reading of `float(text)` for the degree and minute fields (unsigned digits
    only) coincides with the prelude's (digits with at most one `.`): no `.` in `lon[1:6]`, `lat[1:5]` -/
def fieldsDotFree (lon lat : List Char) : Bool :=
  noDot ((lon.drop 1).take 3) && noDot ((lon.drop 4).take 2) && noDot ((lat.drop 1).take 2) && noDot ((lat.drop 3).take 2)

example : fieldsDotFree "W000070513".toList "N51303551".toList = true := by decide
example : fieldsDotFree "W0.5070513".toList "N51303551".toList = false := by decide

theorem charAt_zero_nil : charAt [] 0 = .error "ERR:Index" := rfl
theorem charAt_zero_cons (c : Char) (l : List Char) : charAt (c :: l) 0 = .ok [c] := rfl

/-- **`from_qdms`** -/
theorem fromQdms_eq (lon lat : List Char) (h : fieldsDotFree lon lat = true) :
    Src.Dms.fromQdms lon lat = Dms.fromQdms lon lat := by
  simp only [fieldsDotFree, Bool.and_eq_true] at h
  obtain ⟨⟨⟨h1, h2⟩, h3⟩, h4⟩ := h
  simp only [Src.Dms.fromQdms, Dms.fromQdms, qdmsValues, bind, Except.bind, pure, Except.pure, throw, throwThe,
    MonadExceptOf.throw]
  cases lon with
  | nil => rfl
  | cons q lon' =>
    simp only [charAt_zero_cons, List.head?_cons, fromQdms_convert_eq q _ _ _ h1 h2]
    cases qconvert q (List.take 3 (List.drop 1 (q :: lon'))) (List.take 2 (List.drop 4 (q :: lon'))) (List.drop 6 (q :: lon')) with
    | error e => rfl
    | ok x =>
      cases lat with
      | nil => rfl
      | cons q2 lat' =>
        simp only [charAt_zero_cons, List.head?_cons, fromQdms_convert_eq q2 _ _ _ h3 h4]
        cases qconvert q2 (List.take 2 (List.drop 1 (q2 :: lat'))) (List.take 2 (List.drop 3 (q2 :: lat'))) (List.drop 5 (q2 :: lat')) <;> rfl


/-! ## the C19 headline theorems, restated for the translated source -/

/-- Python hands the int degrees and minutes of `to_dms` to `from_dms` as they are (an `int` is promoted to a `float`
    by the arithmetic of `convert`) -/
def promote (t : ℤ × ℤ × ℚ × List Char) : ℚ × ℚ × ℚ × List Char := ((t.1 : ℚ), (t.2.1 : ℚ), t.2.2.1, t.2.2.2)

theorem promote_intTuple (dd : ℚ) (pos neg : Char) :
    promote (intTuple (mkDMS dd pos neg)) = ratTuple (mkDMS dd pos neg) := by
  simp only [promote, intTuple, ratTuple, mkDMS, rfloor_eq, Int.floor_intCast]

/-- **DMS round trip of the source**: `from_dms(*to_dms(c))` is within 0.000005″ of `c` on each axis -/
theorem src_dms_roundtrip (c : Coord) :
    ∃ x y, Src.Dms.fromDms (promote (Src.Dms.toDms c).1) (promote (Src.Dms.toDms c).2) = Coord.new x y ∧
      |x - c.lon| ≤ C19.dmsBound ∧ |y - c.lat| ≤ C19.dmsBound := by
  obtain ⟨x, y, h, hx, hy⟩ := C19.dms_roundtrip_coord c
  refine ⟨x, y, ?_, hx, hy⟩
  rw [← h, toDms_eq]
  simp only [Dms.toDms, promote_intTuple, fromDms_eq]

/-- **hemisphere letters of the source match the sign** -/
theorem src_dms_hemisphere (c : Coord) :
    ((Src.Dms.toDms c).1.2.2.2 = ['E'] ↔ 0 ≤ c.lon) ∧ ((Src.Dms.toDms c).1.2.2.2 = ['W'] ↔ c.lon < 0) ∧
    ((Src.Dms.toDms c).2.2.2.2 = ['N'] ↔ 0 ≤ c.lat) ∧ ((Src.Dms.toDms c).2.2.2.2 = ['S'] ↔ c.lat < 0) := by
  have h := C19.dms_hemisphere c
  rw [toDms_eq]
  simpa [intTuple] using h

theorem zeroPad_noDot (s : List Char) (len : ℕ) : ∀ c ∈ zeroPad s len, c ≠ '.' := by
  intro c hc
  simp only [zeroPad, List.mem_append, List.mem_replicate, List.mem_filter] at hc
  rcases hc with ⟨_, rfl⟩ | ⟨_, h⟩
  · decide
  · simpa using h

theorem noDot_slice (l : List Char) (h : ∀ c ∈ l.drop 1, c ≠ '.') (a b : ℕ) (ha : 1 ≤ a) :
    noDot ((l.drop a).take b) = true := by
  rw [noDot_iff]
  intro c hc
  have h1 := List.mem_of_mem_take hc
  have h2 : l.drop a = (l.drop 1).drop (a - 1) := by rw [List.drop_drop]; congr 1; omega
  rw [h2] at h1
  exact h c (List.mem_of_mem_drop h1)

theorem axis_tail_noDot (x : DMS) (w : ℕ) : ∀ c ∈ (qdmsAxis x w).drop 1, c ≠ '.' := by
  intro c hc
  simp only [qdmsAxis, List.drop_succ_cons, List.drop_zero, List.mem_append] at hc
  rcases hc with (hc | hc) | hc <;> exact zeroPad_noDot _ _ c hc

/-- the texts `to_qdms` writes have no `.` in their degree and minute fields -/
theorem toQdms_dotFree (c : Coord) : fieldsDotFree (Dms.toQdms c).1 (Dms.toQdms c).2 = true := by
  simp only [fieldsDotFree, Dms.toQdms, Bool.false_eq_true, if_false, Bool.and_eq_true]
  exact ⟨⟨⟨noDot_slice _ (axis_tail_noDot _ _) _ _ (by norm_num), noDot_slice _ (axis_tail_noDot _ _) _ _ (by norm_num)⟩,
    noDot_slice _ (axis_tail_noDot _ _) _ _ (by norm_num)⟩, noDot_slice _ (axis_tail_noDot _ _) _ _ (by norm_num)⟩

/-- **QDMS round trip of the source**: `from_qdms(*to_qdms(c))` succeeds and each axis (before the constructor) is within
    `qdmsWorst` = 0.006605″ of the stored coordinate -/
theorem src_qdms_roundtrip (c : Coord) (hlon : |c.lon| ≤ 180) (hlat : |c.lat| ≤ 90) :
    ∃ x y, Src.Dms.fromQdms (Src.Dms.toQdms c false).1 (Src.Dms.toQdms c false).2 = .ok (Coord.new x y) ∧
      |x - c.lon| ≤ C19.qdmsWorst ∧ |y - c.lat| ≤ C19.qdmsWorst := by
  obtain ⟨x, y, h, hx, hy⟩ := C19.qdms_roundtrip_coord c hlon hlat
  refine ⟨x, y, ?_, hx, hy⟩
  rw [toQdms_eq, fromQdms_eq _ _ (toQdms_dotFree c)]
  exact h

/-- **QDMS lengths of the source**: 10 and 9 characters for every stored coordinate, in either order -/
theorem src_qdms_lengths (c : Coord) (hlon : |c.lon| ≤ 180) (hlat : |c.lat| ≤ 90) :
    (Src.Dms.toQdms c false).1.length = 10 ∧ (Src.Dms.toQdms c false).2.length = 9 ∧
    (Src.Dms.toQdms c true).1.length = 9 ∧ (Src.Dms.toQdms c true).2.length = 10 := by
  simp only [toQdms_eq]; exact C19.qdms_lengths c hlon hlat

end GV.C19Src
