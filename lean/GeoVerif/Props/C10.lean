import GeoVerif.Lemmas.HullGlue
import GeoVerif.Lemmas.HullArea
import GeoVerif.Lemmas.HullUnique
import GeoVerif.Lemmas.HullRot
import Mathlib.Tactic.NormNum

/-!
# C10 — the convex hull is the exact hull of the input coordinates

Property theorems about `GV.Hull.hull` (model of `_geometry.convex_hull`, `Model/Hull.lean`) for
**every** finite list of rational points — any length, any order, any multiplicity.
Vocabulary (`Contains`, `Turns`, `cyc`, `Collinear`, `IsHullRing`) is in `Spec/Hull.lean`.
-/
namespace GV.Hull

/-! ## core theorems -/

/-- **vertices are inputs** -/
theorem hull_subset (pts : List Pt) : ∀ x ∈ hull pts, x ∈ pts := by
  intro x hx
  by_cases h : (sortedSet pts).length ≤ 1
  · rw [hull_small_eq h] at hx; exact mem_sortedSet.mp hx
  · rw [hull_ring_eq (by omega)] at hx
    exact mem_sortedSet.mp ((hullRing_correct _ (sortedSet_strict pts)).2 x hx)

/-- **contains every input**: every input point is on or to the left of every directed hull edge -/
theorem hull_contains_all (pts : List Pt) : ∀ q ∈ pts, Contains (hull pts) q := by
  intro q hq
  by_cases h : (sortedSet pts).length ≤ 1
  · rw [hull_small_eq h]
    unfold Contains
    match sortedSet pts, h with
    | [], _ => exact List.IsChain.nil
    | [_], _ => exact List.IsChain.singleton _
  · rw [hull_ring_eq (by omega)]
    exact (hullRing_correct _ (sortedSet_strict pts)).1 q (mem_sortedSet.mpr hq)

/-- **closed**: first vertex = last vertex (for 0 and 1 distinct points trivially so) -/
theorem hull_closed (pts : List Pt) : (hull pts).head? = (hull pts).getLast? := by
  by_cases h : (sortedSet pts).length ≤ 1
  · rw [hull_small_eq h]
    match sortedSet pts, h with
    | [], _ => rfl
    | [_], _ => rfl
  · obtain ⟨mn, mx, L, U, e, hc, _, _⟩ := chains_of_pts (pts := pts) (by omega)
    rw [e, (ring_closed hc).1, (ring_closed hc).2.1]

/-- with ≥ 2 distinct inputs the ring starts and ends at the lexicographic minimum of the inputs
    and has at least 3 entries -/
theorem hull_closed_at_min {pts : List Pt} (h : ∃ a ∈ pts, ∃ b ∈ pts, a ≠ b) :
    ∃ m, IsLexMin pts m ∧ (hull pts).head? = some m ∧ (hull pts).getLast? = some m ∧
      3 ≤ (hull pts).length := by
  obtain ⟨mn, mx, L, U, e, hc, hmn, _⟩ := chains_of_pts ((two_distinct_iff pts).mpr h)
  refine ⟨mn, ⟨mem_sortedSet.mp (List.mem_of_head? hmn), fun q hq => ?_⟩, ?_⟩
  · have hq' := mem_sortedSet.mpr hq
    have hs := sortedSet_strict pts
    match hS : sortedSet pts, hmn, hq', hs with
    | a :: rest, hmn, hq', hs =>
      simp only [List.head?_cons, Option.some.injEq] at hmn
      subst hmn
      rcases List.mem_cons.mp hq' with h | h
      · exact Or.inl h
      · exact Or.inr ((List.pairwise_cons.mp hs).1 q h)
  · rw [e]; exact ring_closed hc

/-- **multiplicity and order do not matter**: the hull depends only on the *set* of inputs -/
theorem hull_dup_invariant {xs ys : List Pt} (h : ∀ x, x ∈ xs ↔ x ∈ ys) : hull xs = hull ys := by
  unfold hull; rw [sortedSet_congr h]

/-- **permutation invariance** -/
theorem hull_perm {xs ys : List Pt} (h : xs.Perm ys) : hull xs = hull ys :=
  hull_dup_invariant (fun _ => h.mem_iff)

/-- `sorted(set(..))` is canonical: strictly increasing, same members, and independent of the order
    in which the Python `set` happens to be iterated (`d` = any duplicate-free enumeration) -/
theorem sorted_set_canonical (pts : List Pt) :
    (sortedSet pts).Pairwise lexLt ∧ (∀ x, x ∈ sortedSet pts ↔ x ∈ pts) ∧
      ∀ d : List Pt, d.Nodup → (∀ x, x ∈ d ↔ x ∈ pts) → d.mergeSort lexLe = sortedSet pts :=
  ⟨sortedSet_strict pts, fun _ => mem_sortedSet, sortedSet_canonical pts⟩

/-- **strict left turn at every vertex** (cyclically, i.e. including the two junctions of
    `lower[:-1] + upper` and the turn around the start vertex) unless all inputs are collinear.
    Hence no three consecutive vertices are collinear and the ring is counter-clockwise. -/
theorem chain_strict_left {pts : List Pt} (hnc : ¬ Collinear pts) : Turns (cyc (hull pts)) := by
  obtain ⟨mn, mx, L, U, e, hc, _, _⟩ := chains_of_pts (two_of_not_collinear hnc)
  rw [e]
  exact ring_cyc_turns hc (fun h => hnc ((collinear_congr (fun _ => mem_sortedSet)).mp h))

/-- **no repeated vertex**: the open ring (`hull[:-1]`) has no duplicates -/
theorem hull_nodup (pts : List Pt) : (hull pts).dropLast.Nodup := by
  by_cases h : (sortedSet pts).length ≤ 1
  · rw [hull_small_eq h]
    match sortedSet pts, h with
    | [], _ => simp
    | [_], _ => simp
  · obtain ⟨mn, mx, L, U, e, hc, _, _⟩ := chains_of_pts (pts := pts) (by omega)
    rw [e]; exact ring_nodup hc

/-! ## small and degenerate inputs -/

theorem hull_nil : hull [] = [] := by simp [hull, sortedSet]

/-- one distinct point, any multiplicity: `[p]` -/
theorem hull_single {pts : List Pt} {p : Pt} (hne : pts ≠ []) (h : ∀ x ∈ pts, x = p) :
    hull pts = [p] := by
  have hp : p ∈ pts := by
    match pts, hne with
    | x :: _, _ => have := h x (by simp); subst this; simp
  have : sortedSet pts = [p] :=
    strict_sorted_unique (sortedSet_strict pts) (List.pairwise_singleton _ _) (fun x => by
      rw [mem_sortedSet]; constructor
      · intro hx; rw [h x hx]; simp
      · intro hx; simp at hx; rw [hx]; exact hp)
  rw [hull_small_eq (by rw [this]; simp), this]

/-- all inputs on one line (this includes every input with exactly two distinct points):
    the ring is `[min, max, min]` -/
theorem hull_collinear {pts : List Pt} (hcol : Collinear pts) (h : ∃ a ∈ pts, ∃ b ∈ pts, a ≠ b) :
    ∃ mn mx, IsLexMin pts mn ∧ IsLexMax pts mx ∧ hull pts = [mn, mx, mn] := by
  obtain ⟨mn, mx, L, U, e, hc, hmn, hmx⟩ := chains_of_pts ((two_distinct_iff pts).mpr h)
  have hs := sortedSet_strict pts
  refine ⟨mn, mx, ⟨mem_sortedSet.mp (List.mem_of_head? hmn), fun q hq => ?_⟩,
    ⟨mem_sortedSet.mp (List.mem_of_getLast? hmx), fun q hq => ?_⟩, ?_⟩
  · have hq' := mem_sortedSet.mpr hq
    match hS : sortedSet pts, hmn, hq', hs with
    | a :: rest, hmn, hq', hs =>
      simp only [List.head?_cons, Option.some.injEq] at hmn
      subst hmn
      rcases List.mem_cons.mp hq' with h | h
      · exact Or.inl h
      · exact Or.inr ((List.pairwise_cons.mp hs).1 q h)
  · have hq' := mem_sortedSet.mpr hq
    obtain ⟨ys, hys⟩ := List.getLast?_eq_some_iff.mp hmx
    rw [hys] at hq' hs
    rw [List.pairwise_append] at hs
    rcases List.mem_append.mp hq' with h | h
    · exact Or.inr (hs.2.2 q h mx (by simp))
    · simp at h; exact Or.inl h
  · rw [e]
    exact ring_collinear hc ((collinear_congr (fun _ => mem_sortedSet)).mpr hcol)

/-- two distinct points -/
theorem hull_two {a b : Pt} (hab : lexLt a b) : hull [a, b] = [a, b, a] ∧ hull [b, a] = [a, b, a] := by
  have hcol : ∀ l : List Pt, (∀ x ∈ l, x = a ∨ x = b) → Collinear l := by
    intro l hl x hx y hy z hz
    rcases hl x hx with rfl | rfl <;> rcases hl y hy with rfl | rfl <;>
      rcases hl z hz with rfl | rfl <;> unfold cross <;> ring
  have hne : a ≠ b := fun e => lexLt_irrefl _ (e ▸ hab)
  have key : ∀ l : List Pt, (∀ x, x ∈ l ↔ x = a ∨ x = b) → hull l = [a, b, a] := by
    intro l hl
    obtain ⟨mn, mx, hmin, hmax, e⟩ := hull_collinear (hcol l (fun x hx => (hl x).mp hx))
      ⟨a, (hl a).mpr (Or.inl rfl), b, (hl b).mpr (Or.inr rfl), hne⟩
    have hmn : mn = a := by
      rcases (hl mn).mp hmin.1 with h | h
      · exact h
      · rcases hmin.2 a ((hl a).mpr (Or.inl rfl)) with h' | h'
        · exact h'.symm
        · exact absurd (lexLt_trans (h ▸ h') hab) (lexLt_irrefl _)
    have hmx : mx = b := by
      rcases (hl mx).mp hmax.1 with h | h
      · rcases hmax.2 b ((hl b).mpr (Or.inr rfl)) with h' | h'
        · exact h'.symm
        · exact absurd (lexLt_trans hab (h ▸ h')) (lexLt_irrefl _)
      · exact h
    rw [e, hmn, hmx]
  exact ⟨key _ (fun x => by simp), key _ (fun x => by simp [or_comm])⟩

/-- **small inputs** in one statement: no point, one distinct point, two distinct points, and any
    all-collinear input -/
theorem hull_small :
    hull [] = [] ∧
    (∀ (pts : List Pt) (p : Pt), pts ≠ [] → (∀ x ∈ pts, x = p) → hull pts = [p]) ∧
    (∀ a b : Pt, lexLt a b → hull [a, b] = [a, b, a] ∧ hull [b, a] = [a, b, a]) ∧
    (∀ pts : List Pt, Collinear pts → (∃ a ∈ pts, ∃ b ∈ pts, a ≠ b) →
      ∃ mn mx, IsLexMin pts mn ∧ IsLexMax pts mx ∧ hull pts = [mn, mx, mn]) :=
  ⟨hull_nil, fun _ _ hne h => hull_single hne h, fun _ _ h => hull_two h,
   fun _ hc h => hull_collinear hc h⟩

/-! ## orientation as the code measures it, and the `GeoPolygon` constructor of the wrappers -/

/-- **counter-clockwise** in the sense of `is_counter_clockwise` (shoelace sum ≤ 0), for inputs that
    span at most 180° of longitude (beyond that `ensure_edge_bounds` re-reads an edge as crossing the
    antimeridian and the planar statement does not apply) -/
theorem hull_ccw {pts : List Pt} (hspan : LonSpan pts) : isCCW (hull pts) = true := by
  match hp : pts with
  | [] => rw [hull_nil]; decide
  | o :: rest =>
    have ho : o ∈ pts := by rw [hp]; simp
    rw [← hp]
    refine isCCW_of_contains (o := o) (hull_closed pts) ?_ (hull_contains_all pts o ho)
    intro p hp' q hq'
    exact (hp ▸ hspan) p (hull_subset pts p hp') q (hull_subset pts q hq')

/-- the constructor `GeoPolygon(convex_hull(..))` used by every wrapper keeps the ring as it is
    (it is already closed and passes the orientation test) -/
theorem hullPoly_eq {pts : List Pt} (hne : pts ≠ []) (hspan : LonSpan pts) :
    hullPoly pts = .ok (hull pts) := by
  have hmk : mkOutline (hull pts) = hull pts := by
    unfold mkOutline closeRing
    have hc := hull_closed pts
    cases hh : (hull pts).head? with
    | none => rw [hh] at hc; simp [hull_ccw hspan]
    | some a => rw [hh] at hc; simp [← hc, hull_ccw hspan]
  unfold hullPoly
  match hh : hull pts with
  | [] =>
    exfalso
    match pts, hne with
    | o :: rest, _ =>
      have : sortedSet (o :: rest) ≠ [] := fun e => by
        have := (mem_sortedSet (x := o) (pts := o :: rest)).mpr (by simp)
        rw [e] at this; simp at this
      by_cases h : (sortedSet (o :: rest)).length ≤ 1
      · rw [hull_small_eq h] at hh; exact this hh
      · obtain ⟨_, _, _, _, e, hc, _, _⟩ := chains_of_pts (pts := o :: rest) (by omega)
        have := (ring_closed hc).2.2
        rw [← e, hh] at this; simp at this
  | x :: xs => simp only; rw [← hh, hmk]

/-! ## the wrappers: `Multi*.convex_hull()`, `FeatureCollection.convex_hull`, `Track.convex_hull` -/

theorem hullPoly_congr {xs ys : List Pt} (h : ∀ x, x ∈ xs ↔ x ∈ ys) : hullPoly xs = hullPoly ys := by
  unfold hullPoly; rw [hull_dup_invariant h]

/-- the wrapper result contains every vertex of every member (and consists of member vertices) -/
theorem wrapper_hull_contains_members {shapes : List Member} {ring : List Pt}
    (hspan : LonSpan (shapes.flatMap Member.vertices)) (h : collectionHull shapes = .ok ring) :
    (∀ m ∈ shapes, ∀ v ∈ m.vertices, Contains ring v) ∧
      (∀ x ∈ ring, ∃ m ∈ shapes, x ∈ m.vertices) ∧ ring = hull (shapes.flatMap Member.vertices) := by
  unfold collectionHull at h
  have hne : shapes.flatMap Member.vertices ≠ [] := by
    intro e; rw [e] at h; simp [hullPoly, hull_nil] at h
  rw [hullPoly_eq hne hspan] at h
  injection h with h
  subst h
  refine ⟨fun m hm v hv => hull_contains_all _ v (List.mem_flatMap.mpr ⟨m, hm, hv⟩),
    fun x hx => List.mem_flatMap.mp (hull_subset _ x hx), rfl⟩

/-- the result does not depend on the order of the members, nor (for a `Track`) on their times -/
theorem wrapper_hull_order_invariant {s₁ s₂ : List Member} (h : s₁.Perm s₂) :
    collectionHull s₁ = collectionHull s₂ := by
  unfold collectionHull
  apply hullPoly_congr
  intro x
  simp only [List.mem_flatMap]
  constructor
  · rintro ⟨m, hm, hx⟩; exact ⟨m, h.mem_iff.mp hm, hx⟩
  · rintro ⟨m, hm, hx⟩; exact ⟨m, h.mem_iff.mpr hm, hx⟩

theorem trackHull_eq (ts : List (Int × Member)) : trackHull ts = collectionHull (ts.map (·.2)) := by
  unfold trackHull
  exact wrapper_hull_order_invariant ((List.mergeSort_perm _ _).map _)

theorem multiHull_eq (ms : List Simple) : multiHull ms = collectionHull [Member.multi ms] := by
  unfold multiHull collectionHull; simp [Member.vertices]

/-! ## exactness: the result is *the* hull -/

/-- all laws of the statement at once: for non-collinear inputs the result is a hull ring in the
    sense of `IsHullRing` (`Spec/Hull.lean`) -/
theorem hull_isHullRing {pts : List Pt} (hnc : ¬ Collinear pts) : IsHullRing pts (hull pts) := by
  obtain ⟨m, hm, hh, _, hlen⟩ := hull_closed_at_min ((two_distinct_iff pts).mp (two_of_not_collinear hnc))
  exact ⟨⟨hull_closed pts, hlen, hull_subset pts, hull_contains_all pts,
    chain_strict_left hnc, hull_nodup pts⟩, ⟨m, hm, hh⟩⟩

/-- **uniqueness (stretch, proved)**: any closed ring over the inputs that starts at their
    lexicographic minimum, contains every input, turns strictly left at every vertex and repeats no
    vertex *is* the computed hull.  So the result equals what any exact reference algorithm returns
    (up to the choice of start vertex, which the laws leave free). -/
theorem hull_unique {pts ring : List Pt} (hnc : ¬ Collinear pts) (h : IsHullRing pts ring) :
    ring = hull pts :=
  ring_unique hnc h (hull_isHullRing hnc)

/-- **uniqueness up to the start vertex**: a ring that satisfies the laws but starts anywhere is the
    computed hull re-started there — its open ring `X ++ Y` is the rotation of `hull[:-1] = Y ++ X`.
    In particular every such ring has exactly the hull's vertices in the hull's cyclic order. -/
theorem hull_unique_rot {pts ring : List Pt} (hnc : ¬ Collinear pts) (h : IsConvexRing pts ring) :
    ∃ X Y, ring.dropLast = X ++ Y ∧ (hull pts).dropLast = Y ++ X :=
  ring_unique_rot hnc h (hull_isHullRing hnc)

/-- every hull vertex `v` (with ring neighbours `a`, `b`) is a strict extreme point of the inputs:
    the linear functional `q ↦ cross a v q + cross v b q` vanishes at `v` and is positive at every
    other input point -/
theorem hull_vertex_extreme {pts : List Pt} (hnc : ¬ Collinear pts) {X Y : List Pt} {a v b : Pt}
    (e : cyc (hull pts) = X ++ a :: v :: b :: Y) : ∀ q ∈ pts, q ≠ v → 0 < cross a v q + cross v b q :=
  (hull_isHullRing hnc).toIsConvexRing.vertex_extreme e

/-! ## non-vacuity: the hypotheses are satisfiable and the conclusions non-trivial -/

/-- the unit-test square with its centre, an edge point and a duplicate is not collinear, so the
    strict-turn theorem applies to it (and its hull has ≥ 3 entries, is closed, …) -/
example : ¬ Collinear [(0,0),(1,0),(2,0),(2,2),(0,2),(1,1),(0,0)] := by
  intro h
  have := h (0,0) (by simp) (1,0) (by simp) (2,2) (by simp)
  revert this; unfold cross; norm_num

example : Turns (cyc (hull [(0,0),(1,0),(2,0),(2,2),(0,2),(1,1),(0,0)])) :=
  chain_strict_left (by
    intro h
    have := h (0,0) (by simp) (1,0) (by simp) (2,2) (by simp)
    revert this; unfold cross; norm_num)

/-- `IsHullRing` (the hypothesis of `hull_unique`) is satisfiable: the computed hull of that input -/
example : IsHullRing [(0,0),(1,0),(2,0),(2,2),(0,2),(1,1),(0,0)]
    (hull [(0,0),(1,0),(2,0),(2,2),(0,2),(1,1),(0,0)]) :=
  hull_isHullRing (by
    intro h
    have := h (0,0) (by simp) (1,0) (by simp) (2,2) (by simp)
    revert this; unfold cross; norm_num)

/-- a collinear input with a duplicate: `hull_collinear` applies -/
example : Collinear [((0:Rat),(0:Rat)),(1,1),(3,3),(1,1)] := by
  intro a ha b hb c hc
  simp only [List.mem_cons, List.not_mem_nil, or_false] at ha hb hc
  rcases ha with rfl | rfl | rfl | rfl <;> rcases hb with rfl | rfl | rfl | rfl <;>
    rcases hc with rfl | rfl | rfl | rfl <;> (unfold cross; norm_num)

example : hull [((1:Rat),(1:Rat)),(0,0)] = [(0,0),(1,1),(0,0)] :=
  (hull_two (Or.inl (by norm_num))).2

end GV.Hull
