import GeoVerif.Gen.SrcEq
import GeoVerif.Props.C06Src
import GeoVerif.Props.C15
import GeoVerif.Lemmas.PySetSrc
/-!
# Source tie for `__eq__` / `__hash__` of every kind (C15)

`GeoVerif/Gen/SrcEq.lean` is regenerated from the current text of `coordinates.py`, `structures.py`, `_base.py` and
`multistructures.py` on every run: the `__eq__` and `__hash__` of `Coordinate`, `GeoPoint`, `GeoBox`, `GeoCircle`,
`GeoEllipse`, `GeoRing`, `GeoLineString`, `GeoPolygon`, `MultiShapeBase` and `MultiGeoPoint`, one definition per class of
`other` (the same class / anything else).  Here every translated `__eq__` is proved equal to the model's equality for that
kind (`Model/Obj.lean`: `Coord.eq`, `Shape.eq`, `Multi.eq?`) and every translated hash key to the model's key
(`Coord.key`, `Shape.hashKey`, `Multi.hashKey`), for all field values; then the C15 headlines (equal ⇒ equal hash keys;
reflexivity, symmetry, transitivity) are restated for the translated definitions.

What the unit leaves abstract is instantiated by the model's: `heq` (a hole compared with a hole) is `Hole.eq` — and
`srcHoleEq_eq` closes the knot: dispatching `hole == hole'` on the classes of the two holes to the translated `__eq__`
of this file (holes have no holes) *is* `Hole.eq`; `bc` (`hole.bounding_coords()`) is any function whose keys are the
model's `bcKeys`; `wedge` (the centroid of a wedge's polygon) any function whose key is the model's `wedgeCentroid`;
`meq`/`mheq`/`mkey` (members of a multi-shape) are `Shape.eq`, hash-key equivalence and `Shape.hashKey`, which the
single-shape theorems of this file show to be what the translated methods compute.
-/
set_option linter.unusedSectionVars false
set_option linter.unusedVariables false
set_option linter.unusedTactic false
set_option linter.unreachableTactic false
set_option linter.unusedSimpArgs false
set_option linter.unnecessarySeqFocus false
namespace GV.C15Src
open GV GV.Obj

variable (heq : Hole → Hole → Bool) (bc : Hole → List Coord) (wedge : RingR → Coord)
  (meq mheq : Shape → Shape → Bool) (mkey : Shape → SKey) (env : Env)

/-! ## Python's `==` on `Optional`, tuples, lists -/

theorem optEq_beq {α : Type} [BEq α] [LawfulBEq α] (x y : Option α) :
    Py.optEq (fun a b => a == b) x y = (x == y) := by
  cases x <;> cases y <;> simp [Py.optEq]

theorem optEq_dt (x y : Dt) : Py.optEq Src.Time.eq x y = dtEq x y := by
  cases x <;> cases y <;> simp [Py.optEq, dtEq, C06Src.eq_eq]

theorem dtKey_map (x : Dt) : x.map (fun k => Src.Time.hashKey k) = dtKey x := by
  cases x <;> simp [dtKey, C06Src.hashKey_eq]

/-- element-wise `==` of two coordinate lists is equality of their key lists -/
theorem listEqBy_coord : ∀ (a b : List Coord), listEqBy Coord.eq a b = (keys a == keys b)
  | [], [] => by simp [listEqBy, keys]
  | [], _ :: _ => by simp [listEqBy, keys]
  | _ :: _, [] => by simp [listEqBy, keys]
  | x :: a, y :: b => by
    have ih := listEqBy_coord a b
    have hxy : Coord.eq x y = (x.key == y.key) := by
      rw [Bool.eq_iff_iff, Coord.eq_iff_key]; simp
    simp only [listEqBy, ih, hxy, keys, List.map_cons]
    rw [Bool.eq_iff_iff]; simp

/-! ## `Coordinate` -/

theorem coordEq_eq (a b : Coord) : Src.Eq.coordEq heq bc wedge meq mheq mkey a b = Coord.eq a b := by
  simp only [Src.Eq.coordEq, Coord.eq, optEq_beq] <;> grind

theorem coordEqOther_eq (a : Coord) : Src.Eq.coordEqOther heq bc wedge meq mheq mkey a () = false := rfl

theorem coordHash_eq (a : Coord) : Src.Eq.coordHash heq bc wedge meq mheq mkey a = a.key := by
  simp only [Src.Eq.coordHash, Coord.key]

theorem coordEq_fn : Src.Eq.coordEq heq bc wedge meq mheq mkey = Coord.eq := by
  funext a b; exact coordEq_eq ..

theorem coordHash_fn : Src.Eq.coordHash heq bc wedge meq mheq mkey = Coord.key := by
  funext a; exact coordHash_eq ..

/-! ## `GeoPoint`, `GeoLineString` -/

theorem pointEq_eq (a b : PointR) :
    Src.Eq.pointEq heq bc wedge meq mheq mkey a b = Shape.eq env a.toShape b.toShape := by
  simp only [Src.Eq.pointEq, PointR.toShape, Shape.eq, coordEq_eq, optEq_dt]

theorem pointEqOther_eq (a : PointR) : Src.Eq.pointEqOther heq bc wedge meq mheq mkey a () = false := rfl

theorem pointHash_eq (a : PointR) :
    SKey.point (Src.Eq.pointHash heq bc wedge meq mheq mkey a).1 (Src.Eq.pointHash heq bc wedge meq mheq mkey a).2 =
      Shape.hashKey env a.toShape := by
  simp only [Src.Eq.pointHash, PointR.toShape, Shape.hashKey, coordHash_eq, dtKey_map]

theorem lineEq_eq (a b : LineR) :
    Src.Eq.lineEq heq bc wedge meq mheq mkey a b = Shape.eq env a.toShape b.toShape := by
  simp only [Src.Eq.lineEq, LineR.toShape, Shape.eq, coordEq_fn, optEq_dt, listEqBy_coord]

theorem lineEqOther_eq (a : LineR) : Src.Eq.lineEqOther heq bc wedge meq mheq mkey a () = false := rfl

theorem lineHash_eq (a : LineR) :
    SKey.line (Src.Eq.lineHash heq bc wedge meq mheq mkey a).1 (Src.Eq.lineHash heq bc wedge meq mheq mkey a).2 =
      Shape.hashKey env a.toShape := by
  simp only [Src.Eq.lineHash, LineR.toShape, Shape.hashKey, coordHash_eq, dtKey_map, keys]

/-! ## `GeoBox`, `GeoCircle`, `GeoEllipse`, `GeoRing`: the defining fields, the time bound, the hole lists -/

theorem boxEq_eq (a b : BoxR) :
    Src.Eq.boxEq Hole.eq bc wedge meq mheq mkey a b = Shape.eq env a.toShape b.toShape := by
  simp only [Src.Eq.boxEq, BoxR.toShape, Shape.eq, Geom.eq, coordEq_eq, optEq_dt] <;> grind

theorem boxEqOther_eq (a : BoxR) : Src.Eq.boxEqOther heq bc wedge meq mheq mkey a () = false := rfl

theorem boxHash_eq (a : BoxR) :
    (let k := Src.Eq.boxHash heq bc wedge meq mheq mkey a; SKey.box k.1 k.2.1 k.2.2) = Shape.hashKey env a.toShape := by
  simp only [Src.Eq.boxHash, BoxR.toShape, Shape.hashKey, coordHash_eq, dtKey_map]

theorem circleEq_eq (a b : CircleR) :
    Src.Eq.circleEq Hole.eq bc wedge meq mheq mkey a b = Shape.eq env a.toShape b.toShape := by
  simp only [Src.Eq.circleEq, CircleR.toShape, Shape.eq, Geom.eq, coordEq_eq, optEq_dt] <;> grind

theorem circleEqOther_eq (a : CircleR) : Src.Eq.circleEqOther heq bc wedge meq mheq mkey a () = false := rfl

theorem circleHash_eq (a : CircleR) :
    (let k := Src.Eq.circleHash heq bc wedge meq mheq mkey a; SKey.circle k.1 k.2.1 k.2.2) = Shape.hashKey env a.toShape := by
  simp only [Src.Eq.circleHash, Src.Eq.circleCentroid, CircleR.toShape, Shape.hashKey, coordHash_eq, dtKey_map]

theorem ellipseEq_eq (a b : EllipseR) :
    Src.Eq.ellipseEq Hole.eq bc wedge meq mheq mkey a b = Shape.eq env a.toShape b.toShape := by
  simp only [Src.Eq.ellipseEq, EllipseR.toShape, Shape.eq, Geom.eq, coordEq_eq, optEq_dt] <;> grind

theorem ellipseEqOther_eq (a : EllipseR) : Src.Eq.ellipseEqOther heq bc wedge meq mheq mkey a () = false := rfl

theorem ellipseHash_eq (a : EllipseR) :
    (let k := Src.Eq.ellipseHash heq bc wedge meq mheq mkey a; SKey.ellipse k.1 k.2.1 k.2.2.1 k.2.2.2.1 k.2.2.2.2) =
      Shape.hashKey env a.toShape := by
  simp only [Src.Eq.ellipseHash, Src.Eq.ellipseCentroid, EllipseR.toShape, Shape.hashKey, coordHash_eq, dtKey_map]

theorem ringEq_eq (a b : RingR) :
    Src.Eq.ringEq Hole.eq bc wedge meq mheq mkey a b = Shape.eq env a.toShape b.toShape := by
  simp only [Src.Eq.ringEq, RingR.toShape, Shape.eq, Geom.eq, coordEq_eq, optEq_dt] <;> grind

theorem ringEqOther_eq (a : RingR) : Src.Eq.ringEqOther heq bc wedge meq mheq mkey a () = false := rfl

/-- what the abstract `wedge` (`self.to_polygon().centroid` of a wedge) has to be: a coordinate whose key is the model's
    `wedgeCentroid` of the defining fields -/
def WedgeOK (env : Env) (wedge : RingR → Coord) : Prop :=
  ∀ r : RingR, (wedge r).key = env.wedgeCentroid r.center.key r.inner r.outer r.amin r.amax

theorem ringCentroid_eq (hw : WedgeOK env wedge) (a : RingR) :
    (Src.Eq.ringCentroid heq bc wedge meq mheq mkey a).key = Obj.ringCentroid env a.center a.inner a.outer a.amin a.amax := by
  unfold Src.Eq.ringCentroid Obj.ringCentroid
  by_cases h1 : a.amin = 0 <;> by_cases h2 : a.amax = 0 <;> simp [h1, h2, hw a]

theorem ringHash_eq (hw : WedgeOK env wedge) (a : RingR) :
    (let k := Src.Eq.ringHash heq bc wedge meq mheq mkey a; SKey.ring k.1 k.2.1 k.2.2.1 k.2.2.2.1 k.2.2.2.2.1 k.2.2.2.2.2) =
      Shape.hashKey env a.toShape := by
  simp only [Src.Eq.ringHash, RingR.toShape, Shape.hashKey, coordHash_eq, dtKey_map, ringCentroid_eq _ _ _ _ _ _ _ hw]

/-- non-vacuity of `WedgeOK`: for every environment there is such a function -/
example (env : Env) : ∃ wedge, WedgeOK env wedge :=
  ⟨fun r => let k := env.wedgeCentroid r.center.key r.inner r.outer r.amin r.amax; ⟨k.1, k.2.1, k.2.2, none⟩, fun _ => rfl⟩

/-! ## `GeoPolygon`: the rotation loop over the open outlines, the hole sets -/

/-- what the abstract `bc` (`hole.bounding_coords()`) has to be: a coordinate list whose keys are the model's
    `bcKeys` of the hole's geometry -/
def BcOK (env : Env) (bc : Hole → List Coord) : Prop := ∀ h : Hole, keys (bc h) = h.g.bcKeys env

/-- non-vacuity of `BcOK`: for every environment there is such a function -/
example (env : Env) : ∃ bc, BcOK env bc :=
  ⟨fun h => (h.g.bcKeys env).map (fun k => ⟨k.1, k.2.1, k.2.2, none⟩), fun h => by
    simp only [BcOK, keys, List.map_map]
    exact List.map_id'' (fun k => rfl) _⟩

/-- the key of an edge `(x, y)` -/
def kp (p : Coord × Coord) : CKey × CKey := (p.1.key, p.2.key)

/-- the model's hole part of `GeoPolygon.__eq__`, once the hole counts agree -/
def holeSetsEq (env : Env) (hs hs' : List Hole) : Bool :=
  pySetEq edgeSetEq (hs.map (Hole.edges env)) (hs'.map (Hole.edges env))

/-- `zip(bc, bc[1:])` of a hole, as keys, is the model's edge list (the items listed as they are, or re-paired by a
    comprehension `(x, y) for x, y in …`) -/
theorem edges_of_bc (hbc : BcOK env bc) (h : Hole) :
    ((bc h).zip ((bc h).drop 1)).map kp = Hole.edges env h := by
  simp only [Hole.edges, ← hbc h, keys]
  rw [← List.drop_one, ← List.map_drop, List.zip_map]
  apply List.map_congr_left
  intro p _; rfl

theorem edges_of_bc' (hbc : BcOK env bc) (h : Hole) :
    ((((bc h).zip ((bc h).drop 1))).map (fun p => (p.1, p.2))).map kp = Hole.edges env h := by
  rw [← edges_of_bc bc env hbc h, List.map_map]; rfl

/-- the code after the rotation loop reads neither our open outline nor the rotating one -/
theorem polyAfter_indep (a b : PolyR) (s s' o o' : List Coord) (oe : Bool) :
    Src.Eq.polyEq.loop1.after heq bc wedge meq mheq mkey a b s o oe =
      Src.Eq.polyEq.loop1.after heq bc wedge meq mheq mkey a b s' o' oe := rfl

/-- **the code after the rotation loop** (`if not outline_eq`, the two sets of frozensets of edges), for equal hole
    counts (the count may be tested here or before the loop) -/
theorem polyAfter_eq (hbc : BcOK env bc) (a b : PolyR) (s o : List Coord) (oe : Bool)
    (hh : a.holes.length = b.holes.length) :
    Src.Eq.polyEq.loop1.after heq bc wedge meq mheq mkey a b s o oe = .ok (oe && holeSetsEq env a.holes b.holes) := by
  unfold Src.Eq.polyEq.loop1.after holeSetsEq
  cases oe
  · simp
  · simp only [hh, bne_self_eq_false, Bool.false_eq_true, if_false, if_true, Bool.true_and, Bool.not_true, ↓reduceIte]
    congr 1
    refine setOfFrozensets_eq kp _ _ ?_ ?_ _ _ (Hole.edges env) ?_ ?_ a.holes b.holes
    rotate_left 2
    · intro h; first | exact edges_of_bc bc env hbc h | exact edges_of_bc' bc env hbc h
    · intro h; first | exact edges_of_bc bc env hbc h | exact edges_of_bc' bc env hbc h
    · intro x y
      simp only [Py.pairEq, coordHash_eq, kp]
      rw [Bool.eq_iff_iff]; simp [Prod.ext_iff]
    · intro x y
      simp only [Py.pairEq, coordHash_eq, coordEq_eq, kp]
      rw [Bool.eq_iff_iff]; simp [Prod.ext_iff, Coord.eq_iff_key]

/-- **the rotation loop**: for every iteration list and every current rotation of the other outline (of the same
    length as ours), the translated loop never indexes an empty list and reaches the code after it — exhausted or by
    `break` — with `outline_eq` the model's `eqLoop` on the key lists -/
theorem polyLoop_eq (a b : PolyR) (s : List Coord) :
    ∀ (l : List Int) (o : List Coord), s.length = o.length →
      Src.Eq.polyEq.loop1 heq bc wedge meq mheq mkey a b s l o false =
        Src.Eq.polyEq.loop1.after heq bc wedge meq mheq mkey a b s o (eqLoop (keys s) (keys o) l.length) := by
  intro l
  induction l with
  | nil => intro o _; simp [Src.Eq.polyEq.loop1, eqLoop]
  | cons i l ih =>
    intro o hlen
    unfold Src.Eq.polyEq.loop1
    simp only [coordEq_fn, listEqBy_coord, List.length_cons, eqLoop]
    by_cases ht : keys s = keys o ∨ keys s = (keys o).reverse
    · have : (keys s == keys o || keys s == keys o.reverse) = true := by
        simpa [keys, List.map_reverse] using ht
      simp [this, ht]
    · have : (keys s == keys o || keys s == keys o.reverse) = false := by
        rw [Bool.eq_false_iff]; simpa [keys, List.map_reverse] using ht
      simp only [this, ht, Bool.false_eq_true, if_false]
      cases o with
      | nil =>
        have : s = [] := List.length_eq_zero_iff.mp hlen
        subst this; simp at ht
      | cons x xs =>
        simp only [Py.getIdx, List.drop_succ_cons, List.drop_zero]
        rw [ih (xs ++ [x]) (by simpa using hlen)]
        have hk : keys (xs ++ [x]) = rotL (keys (x :: xs)) := by simp [keys, rotL]
        rw [hk]
        exact polyAfter_indep ..

theorem srcOpen (l : List Coord) : (if !(l.dropLast).isEmpty then l.dropLast else l) = openOutline l := by
  unfold openOutline; cases h : l.dropLast.isEmpty <;> simp [h]

theorem range_length (n : Int) : (Py.range 0 n).length = n.toNat := by
  simp [Py.range]

theorem toNat_max1 (n : Nat) : (max (n : Int) 1).toNat = max n 1 := by omega
theorem toNat_max1' (n : Nat) : (max 1 (n : Int)).toNat = max n 1 := by omega

/-- **the translated `GeoPolygon.__eq__`** never raises and answers the model's `Shape.eq` -/
theorem polyEq_eq (hbc : BcOK env bc) (a b : PolyR) :
    Src.Eq.polyEq heq bc wedge meq mheq mkey a b = .ok (Shape.eq env a.toShape b.toShape) := by
  unfold Src.Eq.polyEq
  simp only [PolyR.toShape, Shape.eq_poly, optEq_dt, srcOpen]
  cases hdt : dtEq a.dt b.dt
  · simp
  · by_cases hl : a.outline.length = b.outline.length
    · by_cases hh : a.holes.length = b.holes.length
      · simp only [hl, hh, bne_self_eq_false, Bool.false_eq_true, if_false, if_true, ↓reduceIte]
        rw [polyLoop_eq _ _ _ _ _ _ a b _ _ _ (openOutline_length hl), polyAfter_eq _ _ _ _ _ _ _ hbc _ _ _ _ _ hh]
        simp [outlineEq, hl, hh, holeSetsEq, range_length, toNat_max1, toNat_max1']
      · -- different hole counts: `False`, whether the count is tested after the loop or before it
        have hne : ((a.holes.length : Int) != (b.holes.length : Int)) = true := by simpa using hh
        first
          | (simp [hl, hne, hh]; done)
          | (simp only [hl, bne_self_eq_false, Bool.false_eq_true, if_false, ↓reduceIte]
             rw [polyLoop_eq _ _ _ _ _ _ a b _ _ _ (openOutline_length hl)]
             unfold Src.Eq.polyEq.loop1.after
             simp [hne, hh])
    · have hne : ((a.outline.length : Int) != (b.outline.length : Int)) = true := by simpa using hl
      simp [hne, outlineEq, hl]

theorem polyEqOther_eq (a : PolyR) : Src.Eq.polyEqOther heq bc wedge meq mheq mkey a () = false := rfl

/-- the membership relation of a set of coordinates (hash, then `==`) is "equal keys" -/
theorem coordMem (x y : Coord) :
    ((Src.Eq.coordHash heq bc wedge meq mheq mkey x == Src.Eq.coordHash heq bc wedge meq mheq mkey y) &&
      Src.Eq.coordEq heq bc wedge meq mheq mkey x y) = (x.key == y.key) := by
  simp only [coordHash_eq, coordEq_eq]
  rw [Bool.eq_iff_iff]; simp [Coord.eq_iff_key]

/-- a `frozenset` of coordinates, as the list of its members' keys -/
theorem dedup_keys (r : Coord → Coord → Bool) (hr : ∀ x y, r x y = (x.key == y.key)) (l : List Coord) :
    (dedupBy r l).map Coord.key = dedupBy (fun x y => x == y) (l.map Coord.key) := by
  rw [dedupBy_map, dedupBy_congr hr]

theorem polyHash_eq (a : PolyR) :
    (let k := Src.Eq.polyHash heq bc wedge meq mheq mkey a; SKey.poly k.1 k.2) = Shape.hashKey env a.toShape := by
  simp only [Src.Eq.polyHash, PolyR.toShape, Shape.hashKey, dtKey_map, fsKeys, keys]
  congr 1
  refine dedup_keys _ ?_ _
  intro x y
  exact coordMem heq bc wedge meq mheq mkey x y

/-! ## multi-shapes: `MultiShapeBase.__eq__` / `__hash__`, `MultiGeoPoint.__hash__` -/

/-- **the translated `MultiShapeBase.__eq__`** (`NotImplemented` is `none`), the members compared, hashed and keyed by the
    model's functions -/
theorem multiEq_eq (a b : Multi) :
    Src.Eq.multiEq heq bc wedge (Shape.eq env) (fun x y => (x.hashKey env).equiv (y.hashKey env)) (Shape.hashKey env) a b =
      Multi.eq? env a (.multi b) := by
  have hm : (fun x y => (Shape.hashKey env x).equiv (Shape.hashKey env y) && Shape.eq env x y) = Shape.memR env := rfl
  simp only [Src.Eq.multiEq, Multi.eq?, optEq_dt, setEq_dedup, hm] <;>
    (by_cases hk : a.kind = b.kind <;> simp [hk] <;> grind)

theorem multiEqOther_eq (a : Multi) (s : Shape) :
    Src.Eq.multiEqOther heq bc wedge meq mheq mkey a () = Multi.eq? env a (.single s) := rfl

theorem multiHash_eq (a : Multi) (hk : a.kind ≠ .mpoint) :
    (let k := Src.Eq.multiHash heq bc wedge (Shape.eq env) (fun x y => (x.hashKey env).equiv (y.hashKey env))
        (Shape.hashKey env) a
     (⟨k.1, some k.2⟩ : MKey)) = Multi.hashKey env a := by
  have hm : (fun x y => (Shape.hashKey env x).equiv (Shape.hashKey env y) && Shape.eq env x y) = Shape.memR env := rfl
  simp only [Src.Eq.multiHash, Multi.hashKey, dtKey_map, hm] <;> (cases h : a.kind <;> simp_all)

theorem mpointHash_eq (a : Multi) (hk : a.kind = .mpoint) :
    (⟨Src.Eq.mpointHash heq bc wedge (Shape.eq env) (fun x y => (x.hashKey env).equiv (y.hashKey env))
        (Shape.hashKey env) a, none⟩ : MKey) = Multi.hashKey env a := by
  have hm : (fun x y => (Shape.hashKey env x).equiv (Shape.hashKey env y) && Shape.eq env x y) = Shape.memR env := rfl
  simp only [Src.Eq.mpointHash, Multi.hashKey, hm, hk]

/-! ## closing the knots: `==` / `hash` of a hole or a member is a dispatch on its class to the translated methods -/

/-- a translated `__eq__` that may raise, read as a truth value (it never raises: `polyEq_eq`) -/
def okTrue : Except String Bool → Bool
  | .ok b => b
  | .error _ => false

/-- `h == h'` for two holes as Python evaluates it: the `__eq__` of the class of `h`, at an `other` of the same class or
    of another one; a hole has no holes (`PolygonBase.__init__` rejects them).  `heq0` is what the translated `__eq__`
    would use for the holes *of the holes* — there are none. -/
def srcHoleEq (heq0 : Hole → Hole → Bool) (h h' : Hole) : Bool :=
  match h.g with
  | .poly o => (match h'.g with
      | .poly o' => okTrue (Src.Eq.polyEq heq0 bc wedge meq mheq mkey ⟨o, [], h.dt⟩ ⟨o', [], h'.dt⟩)
      | _ => Src.Eq.polyEqOther heq0 bc wedge meq mheq mkey ⟨o, [], h.dt⟩ ())
  | .box nw se => (match h'.g with
      | .box nw' se' => Src.Eq.boxEq heq0 bc wedge meq mheq mkey ⟨nw, se, [], h.dt⟩ ⟨nw', se', [], h'.dt⟩
      | _ => Src.Eq.boxEqOther heq0 bc wedge meq mheq mkey ⟨nw, se, [], h.dt⟩ ())
  | .circle c r => (match h'.g with
      | .circle c' r' => Src.Eq.circleEq heq0 bc wedge meq mheq mkey ⟨c, r, [], h.dt⟩ ⟨c', r', [], h'.dt⟩
      | _ => Src.Eq.circleEqOther heq0 bc wedge meq mheq mkey ⟨c, r, [], h.dt⟩ ())
  | .ellipse c a b rot => (match h'.g with
      | .ellipse c' a' b' rot' =>
          Src.Eq.ellipseEq heq0 bc wedge meq mheq mkey ⟨c, a, b, rot, [], h.dt⟩ ⟨c', a', b', rot', [], h'.dt⟩
      | _ => Src.Eq.ellipseEqOther heq0 bc wedge meq mheq mkey ⟨c, a, b, rot, [], h.dt⟩ ())
  | .ring c ri ro a1 a2 => (match h'.g with
      | .ring c' ri' ro' a1' a2' =>
          Src.Eq.ringEq heq0 bc wedge meq mheq mkey ⟨c, ri, ro, a1, a2, [], h.dt⟩ ⟨c', ri', ro', a1', a2', [], h'.dt⟩
      | _ => Src.Eq.ringEqOther heq0 bc wedge meq mheq mkey ⟨c, ri, ro, a1, a2, [], h.dt⟩ ())

/-- **the abstract `heq` is the model's `Hole.eq`**: whatever is handed in for the holes of the holes -/
theorem srcHoleEq_eq (hbc : BcOK env bc) (heq0 : Hole → Hole → Bool) (h h' : Hole) :
    srcHoleEq bc wedge meq mheq mkey heq0 h h' = Hole.eq h h' := by
  obtain ⟨g, dt⟩ := h
  obtain ⟨g', dt'⟩ := h'
  cases g <;> cases g' <;>
    simp [srcHoleEq, Hole.eq, Geom.eq, okTrue, polyEq_eq _ _ _ _ _ _ _ hbc, PolyR.toShape, Shape.eq_poly, pySetEq, dedupBy,
      subsetBy, Src.Eq.polyEqOther, Src.Eq.boxEq, Src.Eq.boxEqOther, Src.Eq.circleEq, Src.Eq.circleEqOther,
      Src.Eq.ellipseEq, Src.Eq.ellipseEqOther, Src.Eq.ringEq, Src.Eq.ringEqOther, coordEq_eq, optEq_dt, listEqBy] <;>
    grind

/-- `s == t` for two single shapes as Python evaluates it: the `__eq__` of the class of `s`, at a `t` of the same class
    or of another one; the holes are compared by the dispatch above -/
def srcShapeEq (s t : Shape) : Bool :=
  let heq := srcHoleEq bc wedge meq mheq mkey (fun _ _ => true)
  match s with
  | .point c dt => (match t with
      | .point c' dt' => Src.Eq.pointEq heq bc wedge meq mheq mkey ⟨c, dt⟩ ⟨c', dt'⟩
      | _ => Src.Eq.pointEqOther heq bc wedge meq mheq mkey ⟨c, dt⟩ ())
  | .line vs dt => (match t with
      | .line vs' dt' => Src.Eq.lineEq heq bc wedge meq mheq mkey ⟨vs, dt⟩ ⟨vs', dt'⟩
      | _ => Src.Eq.lineEqOther heq bc wedge meq mheq mkey ⟨vs, dt⟩ ())
  | .pl (.poly o) hs dt => (match t with
      | .pl (.poly o') hs' dt' => okTrue (Src.Eq.polyEq heq bc wedge meq mheq mkey ⟨o, hs, dt⟩ ⟨o', hs', dt'⟩)
      | _ => Src.Eq.polyEqOther heq bc wedge meq mheq mkey ⟨o, hs, dt⟩ ())
  | .pl (.box nw se) hs dt => (match t with
      | .pl (.box nw' se') hs' dt' => Src.Eq.boxEq heq bc wedge meq mheq mkey ⟨nw, se, hs, dt⟩ ⟨nw', se', hs', dt'⟩
      | _ => Src.Eq.boxEqOther heq bc wedge meq mheq mkey ⟨nw, se, hs, dt⟩ ())
  | .pl (.circle c r) hs dt => (match t with
      | .pl (.circle c' r') hs' dt' => Src.Eq.circleEq heq bc wedge meq mheq mkey ⟨c, r, hs, dt⟩ ⟨c', r', hs', dt'⟩
      | _ => Src.Eq.circleEqOther heq bc wedge meq mheq mkey ⟨c, r, hs, dt⟩ ())
  | .pl (.ellipse c a b rot) hs dt => (match t with
      | .pl (.ellipse c' a' b' rot') hs' dt' =>
          Src.Eq.ellipseEq heq bc wedge meq mheq mkey ⟨c, a, b, rot, hs, dt⟩ ⟨c', a', b', rot', hs', dt'⟩
      | _ => Src.Eq.ellipseEqOther heq bc wedge meq mheq mkey ⟨c, a, b, rot, hs, dt⟩ ())
  | .pl (.ring c ri ro a1 a2) hs dt => (match t with
      | .pl (.ring c' ri' ro' a1' a2') hs' dt' =>
          Src.Eq.ringEq heq bc wedge meq mheq mkey ⟨c, ri, ro, a1, a2, hs, dt⟩ ⟨c', ri', ro', a1', a2', hs', dt'⟩
      | _ => Src.Eq.ringEqOther heq bc wedge meq mheq mkey ⟨c, ri, ro, a1, a2, hs, dt⟩ ())

/-- **the dispatch over the translated `__eq__` methods is the model's `Shape.eq`** -/
theorem srcShapeEq_eq (hbc : BcOK env bc) (s t : Shape) :
    srcShapeEq bc wedge meq mheq mkey s t = Shape.eq env s t := by
  have hh : srcHoleEq bc wedge meq mheq mkey (fun _ _ => true) = Hole.eq := by
    funext h h'; exact srcHoleEq_eq bc wedge meq mheq mkey env hbc _ h h'
  unfold srcShapeEq
  simp only [hh]
  cases s with
  | point c dt => cases t <;> simp [pointEq_eq _ _ _ _ _ _ env, PointR.toShape, Shape.eq, Src.Eq.pointEqOther]
  | line vs dt => cases t <;> simp [lineEq_eq _ _ _ _ _ _ env, LineR.toShape, Shape.eq, Src.Eq.lineEqOther]
  | pl g hs dt =>
    cases g with
    | poly o =>
      cases t with
      | pl g' hs' dt' =>
        cases g' <;> simp [polyEq_eq _ _ _ _ _ _ env hbc, okTrue, PolyR.toShape, Shape.eq, Src.Eq.polyEqOther]
      | _ => simp [Shape.eq, Src.Eq.polyEqOther]
    | box nw se =>
      cases t with
      | pl g' hs' dt' => cases g' <;> simp [boxEq_eq _ _ _ _ _ env, BoxR.toShape, Shape.eq, Geom.eq, Src.Eq.boxEqOther]
      | _ => simp [Shape.eq, Src.Eq.boxEqOther]
    | circle c r =>
      cases t with
      | pl g' hs' dt' => cases g' <;> simp [circleEq_eq _ _ _ _ _ env, CircleR.toShape, Shape.eq, Geom.eq, Src.Eq.circleEqOther]
      | _ => simp [Shape.eq, Src.Eq.circleEqOther]
    | ellipse c a b rot =>
      cases t with
      | pl g' hs' dt' => cases g' <;> simp [ellipseEq_eq _ _ _ _ _ env, EllipseR.toShape, Shape.eq, Geom.eq, Src.Eq.ellipseEqOther]
      | _ => simp [Shape.eq, Src.Eq.ellipseEqOther]
    | ring c ri ro a1 a2 =>
      cases t with
      | pl g' hs' dt' => cases g' <;> simp [ringEq_eq _ _ _ _ _ env, RingR.toShape, Shape.eq, Geom.eq, Src.Eq.ringEqOther]
      | _ => simp [Shape.eq, Src.Eq.ringEqOther]

/-- `hash(s)` of a single shape: the `__hash__` of its class, the tuple read as the model's key -/
def srcShapeKey (s : Shape) : SKey :=
  match s with
  | .point c dt => let k := Src.Eq.pointHash heq bc wedge meq mheq mkey ⟨c, dt⟩; .point k.1 k.2
  | .line vs dt => let k := Src.Eq.lineHash heq bc wedge meq mheq mkey ⟨vs, dt⟩; .line k.1 k.2
  | .pl (.poly o) hs dt => let k := Src.Eq.polyHash heq bc wedge meq mheq mkey ⟨o, hs, dt⟩; .poly k.1 k.2
  | .pl (.box nw se) hs dt => let k := Src.Eq.boxHash heq bc wedge meq mheq mkey ⟨nw, se, hs, dt⟩; .box k.1 k.2.1 k.2.2
  | .pl (.circle c r) hs dt =>
      let k := Src.Eq.circleHash heq bc wedge meq mheq mkey ⟨c, r, hs, dt⟩; .circle k.1 k.2.1 k.2.2
  | .pl (.ellipse c a b rot) hs dt =>
      let k := Src.Eq.ellipseHash heq bc wedge meq mheq mkey ⟨c, a, b, rot, hs, dt⟩
      .ellipse k.1 k.2.1 k.2.2.1 k.2.2.2.1 k.2.2.2.2
  | .pl (.ring c ri ro a1 a2) hs dt =>
      let k := Src.Eq.ringHash heq bc wedge meq mheq mkey ⟨c, ri, ro, a1, a2, hs, dt⟩
      .ring k.1 k.2.1 k.2.2.1 k.2.2.2.1 k.2.2.2.2.1 k.2.2.2.2.2

/-- **the dispatch over the translated `__hash__` methods is the model's `Shape.hashKey`** -/
theorem srcShapeKey_eq (hw : WedgeOK env wedge) (s : Shape) :
    srcShapeKey heq bc wedge meq mheq mkey s = Shape.hashKey env s := by
  cases s with
  | point c dt => exact pointHash_eq heq bc wedge meq mheq mkey env ⟨c, dt⟩
  | line vs dt => exact lineHash_eq heq bc wedge meq mheq mkey env ⟨vs, dt⟩
  | pl g hs dt =>
    cases g with
    | poly o => exact polyHash_eq heq bc wedge meq mheq mkey env ⟨o, hs, dt⟩
    | box nw se => exact boxHash_eq heq bc wedge meq mheq mkey env ⟨nw, se, hs, dt⟩
    | circle c r => exact circleHash_eq heq bc wedge meq mheq mkey env ⟨c, r, hs, dt⟩
    | ellipse c a b rot => exact ellipseHash_eq heq bc wedge meq mheq mkey env ⟨c, a, b, rot, hs, dt⟩
    | ring c ri ro a1 a2 => exact ringHash_eq heq bc wedge meq mheq mkey env hw ⟨c, ri, ro, a1, a2, hs, dt⟩

/-- **the translated `MultiShapeBase.__eq__`, its members compared / hashed by dispatch to the translated single-shape
    methods**, is the model's `Multi.eq?` -/
theorem src_multiEq_eq (hbc : BcOK env bc) (hw : WedgeOK env wedge) (a b : Multi) :
    Src.Eq.multiEq heq bc wedge (srcShapeEq bc wedge meq mheq mkey)
        (fun x y => (srcShapeKey heq bc wedge meq mheq mkey x).equiv (srcShapeKey heq bc wedge meq mheq mkey y))
        (srcShapeKey heq bc wedge meq mheq mkey) a b = Multi.eq? env a (.multi b) := by
  have h1 : srcShapeEq bc wedge meq mheq mkey = Shape.eq env := by
    funext s t; exact srcShapeEq_eq bc wedge meq mheq mkey env hbc s t
  have h2 : srcShapeKey heq bc wedge meq mheq mkey = Shape.hashKey env := by
    funext s; exact srcShapeKey_eq heq bc wedge meq mheq mkey env hw s
  rw [h1, h2]; exact multiEq_eq heq bc wedge env a b

/-- `hash(m)` of a multi-shape: `MultiGeoPoint.__hash__` for a multi-point, else `MultiShapeBase.__hash__`; the members
    by dispatch to the translated single-shape methods -/
def srcMultiKey (a : Multi) : MKey :=
  let seq := srcShapeEq bc wedge meq mheq mkey
  let skey := srcShapeKey heq bc wedge meq mheq mkey
  match a.kind with
  | .mpoint => ⟨Src.Eq.mpointHash heq bc wedge seq (fun x y => (skey x).equiv (skey y)) skey a, none⟩
  | _ => let k := Src.Eq.multiHash heq bc wedge seq (fun x y => (skey x).equiv (skey y)) skey a; ⟨k.1, some k.2⟩

theorem srcMultiKey_eq (hbc : BcOK env bc) (hw : WedgeOK env wedge) (a : Multi) :
    srcMultiKey heq bc wedge meq mheq mkey a = Multi.hashKey env a := by
  have h1 : srcShapeEq bc wedge meq mheq mkey = Shape.eq env := by
    funext s t; exact srcShapeEq_eq bc wedge meq mheq mkey env hbc s t
  have h2 : srcShapeKey heq bc wedge meq mheq mkey = Shape.hashKey env := by
    funext s; exact srcShapeKey_eq heq bc wedge meq mheq mkey env hw s
  unfold srcMultiKey
  simp only [h1, h2]
  cases hk : a.kind
  · exact mpointHash_eq heq bc wedge env a hk
  · exact multiHash_eq heq bc wedge env a (by simp [hk])
  · exact multiHash_eq heq bc wedge env a (by simp [hk])

/-! ## the C15 headlines, restated for the translated source -/

/-- `Coordinate`: `a == b` exactly when the tuples handed to `hash()` are equal -/
theorem src_coord_eq_iff_hash (a b : Coord) :
    Src.Eq.coordEq heq bc wedge meq mheq mkey a b = true ↔
      Src.Eq.coordHash heq bc wedge meq mheq mkey a = Src.Eq.coordHash heq bc wedge meq mheq mkey b := by
  rw [coordEq_eq, coordHash_eq, coordHash_eq]; exact Coord.eq_iff_key a b

/-- `M` does not enter `Coordinate.__eq__` -/
theorem src_coord_m_irrelevant (a : Coord) (m' : Option Rat) :
    Src.Eq.coordEq heq bc wedge meq mheq mkey a { a with m := m' } = true := by
  rw [coordEq_eq]; exact Coord.m_irrelevant a m'

/-- the translated `GeoPolygon.__eq__` never raises (`o_outline[0]` is only reached on a non-empty list) -/
theorem src_poly_eq_total (hbc : BcOK env bc) (a b : PolyR) :
    ∃ r, Src.Eq.polyEq heq bc wedge meq mheq mkey a b = .ok r :=
  ⟨_, polyEq_eq heq bc wedge meq mheq mkey env hbc a b⟩

theorem src_poly_eq_refl (hbc : BcOK env bc) (a : PolyR) :
    Src.Eq.polyEq heq bc wedge meq mheq mkey a a = .ok true := by
  rw [polyEq_eq heq bc wedge meq mheq mkey env hbc, Shape.eq_refl]

theorem src_poly_eq_symm (hbc : BcOK env bc) {a b : PolyR}
    (h : Src.Eq.polyEq heq bc wedge meq mheq mkey a b = .ok true) :
    Src.Eq.polyEq heq bc wedge meq mheq mkey b a = .ok true := by
  rw [polyEq_eq heq bc wedge meq mheq mkey env hbc] at h ⊢
  rw [Shape.eq_symm env (by simpa using h)]

theorem src_poly_eq_trans (hbc : BcOK env bc) {a b c : PolyR}
    (h1 : Src.Eq.polyEq heq bc wedge meq mheq mkey a b = .ok true)
    (h2 : Src.Eq.polyEq heq bc wedge meq mheq mkey b c = .ok true) :
    Src.Eq.polyEq heq bc wedge meq mheq mkey a c = .ok true := by
  rw [polyEq_eq heq bc wedge meq mheq mkey env hbc] at h1 h2 ⊢
  rw [Shape.eq_trans env (by simpa using h1) (by simpa using h2)]

/-- **equal polygons hash equally** (stored outlines are non-empty and self-closing: what `__init__` guarantees):
    the `(frozenset(outline), dt)` keys are the same value for `hash()` -/
theorem src_poly_eq_imp_hash (hbc : BcOK env bc) {a b : PolyR} (ha : Closed a.outline) (hb : Closed b.outline)
    (h : Src.Eq.polyEq heq bc wedge meq mheq mkey a b = .ok true) :
    (let k := Src.Eq.polyHash heq bc wedge meq mheq mkey a
     let k' := Src.Eq.polyHash heq bc wedge meq mheq mkey b
     (SKey.poly k.1 k.2).equiv (SKey.poly k'.1 k'.2)) = true := by
  rw [polyEq_eq heq bc wedge meq mheq mkey env hbc] at h
  have := Shape.eq_imp_hashKey env (s := a.toShape) (t := b.toShape) ha hb (by simpa using h)
  rw [← polyHash_eq heq bc wedge meq mheq mkey env a, ← polyHash_eq heq bc wedge meq mheq mkey env b] at this
  exact this

/-- a polygon re-written from another start vertex or in the opposite winding equals the original, in the source -/
theorem src_poly_eq_rewrite (hbc : BcOK env bc) (o o' : List Coord) (ho : o ≠ []) (ho' : o' ≠ [])
    (hr : RotRev (keys o') (keys o)) (f f' : Bool) (hs : List Hole) (dt : Dt) :
    Src.Eq.polyEq heq bc wedge meq mheq mkey ⟨mkOutlineC (closeOpen o') f', hs, dt⟩ ⟨mkOutlineC (closeOpen o) f, hs, dt⟩ =
      .ok true := by
  rw [polyEq_eq heq bc wedge meq mheq mkey env hbc]
  exact congrArg Except.ok (poly_eq_rewrite env o o' ho ho' hr f f' hs dt)

/-- **every single shape**: `==` by dispatch to the translated methods is an equivalence relation … -/
theorem src_shape_eq_refl (hbc : BcOK env bc) (s : Shape) : srcShapeEq bc wedge meq mheq mkey s s = true := by
  rw [srcShapeEq_eq bc wedge meq mheq mkey env hbc]; exact Shape.eq_refl env s

theorem src_shape_eq_symm (hbc : BcOK env bc) {s t : Shape} (h : srcShapeEq bc wedge meq mheq mkey s t = true) :
    srcShapeEq bc wedge meq mheq mkey t s = true := by
  rw [srcShapeEq_eq bc wedge meq mheq mkey env hbc] at h ⊢; exact Shape.eq_symm env h

theorem src_shape_eq_trans (hbc : BcOK env bc) {s t u : Shape} (h1 : srcShapeEq bc wedge meq mheq mkey s t = true)
    (h2 : srcShapeEq bc wedge meq mheq mkey t u = true) : srcShapeEq bc wedge meq mheq mkey s u = true := by
  rw [srcShapeEq_eq bc wedge meq mheq mkey env hbc] at h1 h2 ⊢; exact Shape.eq_trans env h1 h2

/-- … and **equal ⇒ equal hash keys** -/
theorem src_shape_eq_imp_hash (hbc : BcOK env bc) (hw : WedgeOK env wedge) {s t : Shape} (hs : s.WF) (ht : t.WF)
    (h : srcShapeEq bc wedge meq mheq mkey s t = true) :
    (srcShapeKey heq bc wedge meq mheq mkey s).equiv (srcShapeKey heq bc wedge meq mheq mkey t) = true := by
  rw [srcShapeEq_eq bc wedge meq mheq mkey env hbc] at h
  rw [srcShapeKey_eq heq bc wedge meq mheq mkey env hw, srcShapeKey_eq heq bc wedge meq mheq mkey env hw]
  exact Shape.eq_imp_hashKey env hs ht h

/-- **equal multi-shapes hash equally** (member order and repetitions do not enter the key) -/
theorem src_multi_eq_imp_hash (hbc : BcOK env bc) (hw : WedgeOK env wedge) {a b : Multi}
    (h : Src.Eq.multiEq heq bc wedge (srcShapeEq bc wedge meq mheq mkey)
        (fun x y => (srcShapeKey heq bc wedge meq mheq mkey x).equiv (srcShapeKey heq bc wedge meq mheq mkey y))
        (srcShapeKey heq bc wedge meq mheq mkey) a b = some true) :
    (srcMultiKey heq bc wedge meq mheq mkey a).equiv (srcMultiKey heq bc wedge meq mheq mkey b) = true := by
  rw [src_multiEq_eq heq bc wedge meq mheq mkey env hbc hw] at h
  rw [srcMultiKey_eq heq bc wedge meq mheq mkey env hbc hw, srcMultiKey_eq heq bc wedge meq mheq mkey env hbc hw]
  apply Multi.eq_imp_hashKey env
  simp [Multi.eq, h]

/-! ## non-vacuity -/

private def envZ : Env := ⟨fun _ => [], fun c _ _ _ _ => c⟩
private def bcZ : Hole → List Coord := fun h => (h.g.bcKeys envZ).map (fun k => ⟨k.1, k.2.1, k.2.2, none⟩)
private def wedgeZ : RingR → Coord := fun r => r.center
private def cA : Coord := ⟨0, 0, none, none⟩
private def cB : Coord := ⟨2, 0, none, some 5⟩
private def cC : Coord := ⟨2, 2, none, none⟩
private def cD : Coord := ⟨0, 2, some 1, none⟩

private theorem bcZ_ok : BcOK envZ bcZ := fun h => by
  simp only [bcZ, keys, List.map_map]
  exact List.map_id'' (fun k => rfl) _

/-- a square and the same square written from its fourth vertex: the translated `__eq__` answers `True` -/
example : Src.Eq.polyEq heq bcZ wedge meq mheq mkey ⟨mkOutlineC (closeOpen ([cA, cB, cC, cD].rotate 3)), [], none⟩
    ⟨mkOutlineC (closeOpen [cA, cB, cC, cD]), [], none⟩ = .ok true := by
  rw [polyEq_eq heq bcZ wedge meq mheq mkey envZ bcZ_ok]
  exact congrArg Except.ok (poly_eq_rotate envZ _ (by simp) 3 false [] none)

/-- … and `False` for a different vertex order -/
example : Src.Eq.polyEq heq bcZ wedge meq mheq mkey ⟨closeOpen [cA, cB, cC, cD], [], none⟩
    ⟨closeOpen [cA, cC, cB, cD], [], none⟩ = .ok false := by
  rw [polyEq_eq heq bcZ wedge meq mheq mkey envZ bcZ_ok]
  exact congrArg Except.ok (by decide)

example : Closed (mkOutlineC (closeOpen [cA, cB, cC, cD])) := closed_mkOutlineC _ _ (by simp [closeOpen])

end GV.C15Src
