import GeoVerif.Gen.SrcRelate
import GeoVerif.Props.C02
import GeoVerif.Props.C04
/-!
# Source tie for `PolygonBase.contains_shape` / `intersects_shape` (`structures.py`)

`GeoVerif/Gen/SrcRelate.lean` is regenerated from the current text of `structures.py` on every run: one definition per
kind of argument (multi-shape, point-like, polygon-like, line-like), with everything the logic *uses* abstract.  Here the
abstract parts are instantiated with the model's (`edgeRings`, `containsCoord`, `holes`, the exact on-segment test) and
each instance is proved equal to `Model/Relate.lean` (`containsShape`, `intersectsShape`) — for every polygon-like
receiver and every argument of that kind — and to the member loops of `Model/Multi.lean`.
-/
namespace GV.C02Src
open GV GV.Shape

/-- the line-like argument's `segments` -/
def segsOf : Shape → List Edge
  | .line vs => ringSegs vs
  | _ => []

/-- the point-like argument's `centroid` -/
def cen : Shape → Pt
  | .point p => p
  | _ => (0, 0)

/-- the line-like shape's `vertices` -/
def vertsOf : Shape → List Pt
  | .line vs => vs
  | _ => []

/-- `_touches_coordinate`: the exact on-segment test over every edge of the shape -/
def tc (s : Shape) (q : Pt) : Bool := s.flatEdges.any (onEdge q)

variable (rs ri : Shape → Shape → Bool)

/-- the translated `_is_on_segment` is the model's exact on-edge test -/
theorem isOnSegment_eq (c a b : Pt) :
    Src.Relate.isOnSegment edgeRings segsOf containsCoord tc holes cen vertsOf rs ri c a b = onEdge c (a, b) := by
  simp only [Src.Relate.isOnSegment, onEdge, pcross]
  rw [Bool.eq_iff_iff]
  simp only [Bool.and_eq_true, beq_iff_eq, decide_eq_true_eq, Int.cast_zero]
  constructor
  · rintro ⟨⟨h1, h2, h3⟩, h4, h5⟩; exact ⟨⟨⟨⟨decide_eq_true h1, h2⟩, h3⟩, h4⟩, h5⟩
  · rintro ⟨⟨⟨⟨h1, h2⟩, h3⟩, h4⟩, h5⟩; exact ⟨⟨of_decide_eq_true h1, h2, h3⟩, h4, h5⟩

/-- the translated `_touches_coordinate` (two nested loops) is "some edge of some ring passes the on-edge test" -/
theorem touches_loop_eq (s : Shape) (q : Pt) :
    ∀ rings : List (List Edge),
      Src.Relate.touchesCoordinate.loop1 edgeRings segsOf containsCoord tc holes cen vertsOf rs ri s q rings =
        rings.flatten.any (onEdge q) := by
  intro rings
  induction rings with
  | nil => rfl
  | cons r rest ih =>
    unfold Src.Relate.touchesCoordinate.loop1
    simp only [ih, isOnSegment_eq, List.flatten_cons, List.any_append]
    cases r.any (fun e => onEdge q (e.1, e.2)) <;> simp_all

theorem touchesCoordinate_eq (s : Shape) (q : Pt) :
    Src.Relate.touchesCoordinate edgeRings segsOf containsCoord tc holes cen vertsOf rs ri s q = tc s q := by
  simp only [Src.Relate.touchesCoordinate, touches_loop_eq, tc, flatEdges]

/-- a constructed hole is never an empty outline -/
def HolesNonempty (s : Shape) : Prop := ∀ h ∈ s.holes, h ≠ []

/-- `edges[0][0][0]` is the model's `firstVertex` -/
theorem first_eq (er : List (List Edge)) (k : Pt → Except String Bool) :
    (match Py.getIdx er 0 with
      | Except.error e => Except.error e
      | Except.ok r => match Py.getIdx r 0 with
        | Except.error e => Except.error e
        | Except.ok r' => k r'.1) =
    (match (match er with | (e :: _) :: _ => (Except.ok e.1 : Except String Pt) | _ => .error "ERR:Index") with
      | Except.error e => Except.error e
      | Except.ok v => k v) := by
  cases er with
  | nil => rfl
  | cons r rest => cases r <;> rfl

theorem containsPoint_eq (s : Shape) (q : Pt) (hs : s.isPolygonLike = true) :
    (.ok (Src.Relate.containsPoint edgeRings segsOf containsCoord tc holes cen vertsOf rs ri s (.point q)) : Except String Bool) =
      containsShape s (.point q) := by
  cases s <;> simp_all [Src.Relate.containsPoint, containsShape, cen, isPolygonLike]

theorem containsPoly_eq (s t : Shape) (hs : s.isPolygonLike = true) (ht : t.isPolygonLike = true) (hh : HolesNonempty s) :
    Src.Relate.containsPoly edgeRings segsOf containsCoord tc holes cen vertsOf rs ri s t = containsShape s t := by
  have key : Src.Relate.containsPoly edgeRings segsOf containsCoord tc holes cen vertsOf rs ri s t =
      (if doEdgesIntersect s.flatEdges t.flatEdges then .ok false
       else if t.isPolygonLike && s.holes.any (fun h => match h.head? with
          | some v => t.containsCoord v | none => false) then .ok false
       else do
        let vt ← t.firstVertex
        return s.containsCoord vt) := by
    simp only [Src.Relate.containsPoly, flatEdges, ht, Bool.true_and]
    rw [Py.anyE_ok_mem (g := fun h => match h.head? with | some v => t.containsCoord v | none => false)]
    · simp only [firstVertex]
      split <;> [rfl; skip]
      split <;> [rfl; skip]
      cases t.edgeRings with
      | nil => rfl
      | cons r rest => cases r <;> rfl
    · intro h hm
      cases h with
      | nil => exact absurd rfl (hh _ hm)
      | cons v vs => rfl
  rw [key]
  cases s <;> cases t <;> first | rfl | (simp [isPolygonLike] at hs ht)

theorem containsLine_eq (s : Shape) (vs : List Pt) (hs : s.isPolygonLike = true) :
    Src.Relate.containsLine edgeRings segsOf containsCoord tc holes cen vertsOf rs ri s (.line vs) = containsShape s (.line vs) := by
  have key : Src.Relate.containsLine edgeRings segsOf containsCoord tc holes cen vertsOf rs ri s (.line vs) =
      (if doEdgesIntersect s.flatEdges (Shape.line vs).flatEdges then .ok false
       else do
        let vt ← (Shape.line vs).firstVertex
        return s.containsCoord vt) := by
    simp only [Src.Relate.containsLine, flatEdges, edgeRings, segsOf, firstVertex]
    congr 1
    cases ringSegs vs <;> rfl
  rw [key]
  cases s <;> first | rfl | (simp [isPolygonLike] at hs)

theorem containsMulti_eq (s : Shape) (ys : List Shape) :
    Src.Relate.containsMulti edgeRings segsOf containsCoord tc holes cen vertsOf rs ri s ys =
      Multi.singleContainsMulti rs s ys := by
  simp only [Src.Relate.containsMulti, Multi.singleContainsMulti_eq_all]
  rw [Bool.eq_iff_iff]; simp [List.any_eq_true, List.all_eq_true]

theorem intersectsMulti_eq (s : Shape) (ys : List Shape) :
    Src.Relate.intersectsMulti edgeRings segsOf containsCoord tc holes cen vertsOf rs ri s ys =
      Multi.singleIntersectsMulti ri s ys := by
  simp only [Src.Relate.intersectsMulti, Multi.singleIntersectsMulti_eq_any]
  cases ys.any (fun y => ri s y) <;> rfl

theorem intersectsPoint_eq (s : Shape) (q : Pt) (hs : s.isPolygonLike = true) :
    (.ok (Src.Relate.intersectsPoint edgeRings segsOf containsCoord tc holes cen vertsOf rs ri s (.point q)) : Except String Bool) =
      intersectsShape s (.point q) := by
  cases s <;> simp_all [Src.Relate.intersectsPoint, Src.Relate.containsPoint, touchesCoordinate_eq, intersectsShape, relInter,
    cen, tc, isPolygonLike]

theorem intersectsPoly_eq (s t : Shape) (hs : s.isPolygonLike = true) (ht : t.isPolygonLike = true) :
    Src.Relate.intersectsPoly edgeRings segsOf containsCoord tc holes cen vertsOf rs ri s t = intersectsShape s t := by
  have key : Src.Relate.intersectsPoly edgeRings segsOf containsCoord tc holes cen vertsOf rs ri s t =
      (if doEdgesIntersect s.flatEdges t.flatEdges then .ok true else orFirst s t) := by
    simp only [Src.Relate.intersectsPoly, flatEdges, orFirst, firstVertex]
    congr 1
    rcases t.edgeRings with _ | ⟨_ | ⟨e, _⟩, _⟩ <;> try rfl
    simp only [Py.getIdx]
    cases hc : s.containsCoord e.1
    · rcases s.edgeRings with _ | ⟨_ | ⟨e', _⟩, _⟩ <;> simp [hc, Py.getIdx, bind, Except.bind, pure, Except.pure]
    · simp [hc, bind, Except.bind, pure, Except.pure]
  rw [key]
  cases s <;> cases t <;> first | rfl | (simp [isPolygonLike] at hs ht)

theorem intersectsLine_eq (s : Shape) (vs : List Pt) (hs : s.isPolygonLike = true) :
    Src.Relate.intersectsLine edgeRings segsOf containsCoord tc holes cen vertsOf rs ri s (.line vs) =
      intersectsShape s (.line vs) := by
  have key : Src.Relate.intersectsLine edgeRings segsOf containsCoord tc holes cen vertsOf rs ri s (.line vs) =
      (if doEdgesIntersect s.flatEdges (Shape.line vs).flatEdges then .ok true else orFirst s (.line vs)) := by
    simp only [Src.Relate.intersectsLine, flatEdges, orFirst, firstVertex, segsOf]
    congr 1
    generalize s.edgeRings = se
    simp only [edgeRings]
    rcases ringSegs vs with _ | ⟨e, _⟩ <;> try rfl
    simp only [Py.getIdx]
    cases hc : s.containsCoord e.1
    · rcases se with _ | ⟨_ | ⟨e', _⟩, _⟩ <;> simp [hc, Py.getIdx, bind, Except.bind, pure, Except.pure]
    · simp [hc, bind, Except.bind, pure, Except.pure]
  rw [key]
  cases s <;> first | rfl | (simp [isPolygonLike] at hs)

/-! ### `_is_on_segment`, and `GeoLineString` / `GeoPoint` as the receiver -/

theorem lineContainsPoint_eq (vs : List Pt) (q : Pt) :
    (.ok (Src.Relate.lineContainsPoint edgeRings segsOf containsCoord tc holes cen vertsOf rs ri (.line vs) (.point q)) :
      Except String Bool) = containsShape (.line vs) (.point q) := by
  simp [Src.Relate.lineContainsPoint, Src.Relate.lineContainsCoordinate, containsShape, cen, vertsOf]

theorem lineContainsLine_eq (vs ws : List Pt) :
    (.ok (Src.Relate.lineContainsLine edgeRings segsOf containsCoord tc holes cen vertsOf rs ri (.line vs) (.line ws)) :
      Except String Bool) = containsShape (.line vs) (.line ws) := by
  simp [Src.Relate.lineContainsLine, containsShape, vertsOf]

theorem lineContainsPoly_eq (vs : List Pt) (t : Shape) (ht : t.isPolygonLike = true) :
    (.ok (Src.Relate.lineContainsPoly edgeRings segsOf containsCoord tc holes cen vertsOf rs ri (.line vs) t) :
      Except String Bool) = containsShape (.line vs) t := by
  cases t <;> simp_all [Src.Relate.lineContainsPoly, containsShape, isPolygonLike]

theorem lineContainsMulti_eq (s : Shape) (ys : List Shape) :
    Src.Relate.lineContainsMulti edgeRings segsOf containsCoord tc holes cen vertsOf rs ri s ys =
      Multi.singleContainsMulti rs s ys := by
  simp only [Src.Relate.lineContainsMulti, Multi.singleContainsMulti_eq_all]
  rw [Bool.eq_iff_iff]; simp [List.any_eq_true, List.all_eq_true]

theorem lineIntersectsMulti_eq (s : Shape) (ys : List Shape) :
    Src.Relate.lineIntersectsMulti edgeRings segsOf containsCoord tc holes cen vertsOf rs ri s ys =
      Multi.singleIntersectsMulti ri s ys := by
  simp only [Src.Relate.lineIntersectsMulti, Multi.singleIntersectsMulti_eq_any]
  cases ys.any (fun y => ri s y) <;> rfl

theorem lineIntersectsPoint_eq (vs : List Pt) (q : Pt) :
    (.ok (Src.Relate.lineIntersectsPoint edgeRings segsOf containsCoord tc holes cen vertsOf rs ri (.line vs) (.point q)) :
      Except String Bool) = intersectsShape (.line vs) (.point q) := by
  simp only [Src.Relate.lineIntersectsPoint, Src.Relate.lineContainsPoint, Src.Relate.lineContainsCoordinate, isOnSegment_eq,
    intersectsShape, relInter, cen, vertsOf, segsOf, containsCoord, flatEdges, edgeRings, List.flatten_cons,
    List.flatten_nil, List.append_nil]

theorem lineIntersectsPoly_eq (vs : List Pt) (t : Shape) (ht : t.isPolygonLike = true) :
    Src.Relate.lineIntersectsPoly edgeRings segsOf containsCoord tc holes cen vertsOf rs ri (.line vs) t =
      intersectsShape (.line vs) t := by
  have key : Src.Relate.lineIntersectsPoly edgeRings segsOf containsCoord tc holes cen vertsOf rs ri (.line vs) t =
      (if doEdgesIntersect (Shape.line vs).flatEdges t.flatEdges then .ok true else orFirst (.line vs) t) := by
    simp only [Src.Relate.lineIntersectsPoly, flatEdges, orFirst, firstVertex, segsOf]
    congr 1
    generalize t.edgeRings = te
    simp only [edgeRings]
    rcases te with _ | ⟨_ | ⟨e, _⟩, _⟩ <;> try rfl
    simp only [Py.getIdx]
    cases hc : (Shape.line vs).containsCoord e.1
    · rcases ringSegs vs with _ | ⟨e', _⟩ <;> simp [hc, Py.getIdx, bind, Except.bind, pure, Except.pure]
    · simp [hc, bind, Except.bind, pure, Except.pure]
  rw [key]
  cases t <;> first | rfl | (simp [isPolygonLike] at ht)

theorem lineIntersectsLine_eq (vs ws : List Pt) :
    Src.Relate.lineIntersectsLine edgeRings segsOf containsCoord tc holes cen vertsOf rs ri (.line vs) (.line ws) =
      intersectsShape (.line vs) (.line ws) := by
  have key : Src.Relate.lineIntersectsLine edgeRings segsOf containsCoord tc holes cen vertsOf rs ri (.line vs) (.line ws) =
      (if doEdgesIntersect (Shape.line vs).flatEdges (Shape.line ws).flatEdges then .ok true
       else orFirst (.line vs) (.line ws)) := by
    simp only [Src.Relate.lineIntersectsLine, flatEdges, orFirst, firstVertex, segsOf, edgeRings]
    congr 1
    rcases ringSegs ws with _ | ⟨e, _⟩ <;> try rfl
    simp only [Py.getIdx]
    cases hc : (Shape.line vs).containsCoord e.1
    · rcases ringSegs vs with _ | ⟨e', _⟩ <;> simp [hc, Py.getIdx, bind, Except.bind, pure, Except.pure]
    · simp [hc, bind, Except.bind, pure, Except.pure]
  rw [key]; rfl

theorem pointContainsPoint_eq (p q : Pt) :
    (.ok (Src.Relate.pointContainsPoint edgeRings segsOf containsCoord tc holes cen vertsOf rs ri (.point p) (.point q)) :
      Except String Bool) = containsShape (.point p) (.point q) := by
  simp [Src.Relate.pointContainsPoint, Src.Relate.pointContainsCoordinate, containsShape, cen]

theorem pointContainsOther_eq (p : Pt) (t : Shape) (ht : ∀ q, t ≠ .point q) :
    (.ok (Src.Relate.pointContainsPoly edgeRings segsOf containsCoord tc holes cen vertsOf rs ri (.point p) t) :
      Except String Bool) = containsShape (.point p) t ∧
    (.ok (Src.Relate.pointContainsLine edgeRings segsOf containsCoord tc holes cen vertsOf rs ri (.point p) t) :
      Except String Bool) = containsShape (.point p) t := by
  cases t <;> simp_all [Src.Relate.pointContainsPoly, Src.Relate.pointContainsLine, containsShape]

theorem pointIntersectsPoint_eq (p q : Pt) :
    (.ok (Src.Relate.pointIntersectsPoint edgeRings segsOf containsCoord tc holes cen vertsOf rs ri (.point p) (.point q)) :
      Except String Bool) = intersectsShape (.point p) (.point q) := by
  simp [Src.Relate.pointIntersectsPoint, intersectsShape, cen]

/-- a point asked about any other kind of shape *delegates*: `shape.intersects_shape(self)` — the model's
    `intersectsShape (.point p) t = relInter t (.point p)` is the same delegation -/
theorem pointIntersects_delegates (p : Pt) (t : Shape) :
    Src.Relate.pointIntersectsPoly edgeRings segsOf containsCoord tc holes cen vertsOf rs ri (.point p) t = ri t (.point p) ∧
    Src.Relate.pointIntersectsLine edgeRings segsOf containsCoord tc holes cen vertsOf rs ri (.point p) t = ri t (.point p) :=
  ⟨rfl, rfl⟩

theorem pointContainsMulti_eq (s : Shape) (ys : List Shape) :
    Src.Relate.pointContainsMulti edgeRings segsOf containsCoord tc holes cen vertsOf rs ri s ys =
      Multi.singleContainsMulti rs s ys := by
  simp only [Src.Relate.pointContainsMulti, Multi.singleContainsMulti_eq_all]
  rw [Bool.eq_iff_iff]; simp [List.any_eq_true, List.all_eq_true]

/-! ### C02 laws restated for the translated source -/

/-- the source's polygon-in-polygon containment implies the source's intersection (for valid receivers) -/
theorem src_contains_imp_intersects (s t : Shape) (hs : s.isPolygonLike = true) (ht : t.isPolygonLike = true)
    (hh : HolesNonempty s) (vs : C02.Valid s) (vt : C02.Valid t)
    (h : Src.Relate.containsPoly edgeRings segsOf containsCoord tc holes cen vertsOf rs ri s t = .ok true) :
    Src.Relate.intersectsPoly edgeRings segsOf containsCoord tc holes cen vertsOf rs ri s t = .ok true := by
  rw [containsPoly_eq rs ri s t hs ht hh] at h
  rw [intersectsPoly_eq rs ri s t hs ht]
  exact C02.contains_imp_intersects s t vs vt h

end GV.C02Src
