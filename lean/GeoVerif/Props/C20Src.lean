import GeoVerif.Gen.SrcIo
import GeoVerif.Props.C20
import Mathlib.Tactic.SplitIfs
/-!
# C20's source tie: the translated adapter logic (`Gen/SrcIo.lean`) equals the model (`Model/Io.lean`)
-/
namespace GV.C20Src
open GV.Io GV.Io.Py

/-! ## `_convert_dt` -/

theorem convertDt_eq (v : PVal) : SrcIo.convertDt (.p v) = .ok (.p (GV.Io.convertDt v)) := by
  cases v <;> rfl

theorem convertDt_none : SrcIo.convertDt .none = .ok .none := rfl

/-! ## `_get_dt` of `from_shapefile`, followed by what the shape constructor stores -/

macro "io_fin" : tactic => `(tactic|
  (simp only [V.truthy, V.fromiso, V.mkTI, V.isNull, V.isInst, PVal.tag, dtOfArg, isoField, mkDt, isDtVal, cellTruthy, bind,
      Except.bind, pure, Except.pure]
   try simp
   try (split_ifs <;> simp_all <;> omega)))

/-- one time field after `rec.get(f) or None`: absent / falsy, an ISO string, or something `fromisoformat` rejects -/
theorem field_spec (rec : Dict PVal) (k : String) :
    ((if V.truthy false (V.get rec k) then V.get rec k else V.none) = V.none ∧ isoField (dictGet rec k) = .ok none) ∨
    (∃ t, (if V.truthy false (V.get rec k) then V.get rec k else V.none) = V.p (.iso t) ∧
        isoField (dictGet rec k) = .ok (some t)) ∨
    (∃ d e, (if V.truthy false (V.get rec k) then V.get rec k else V.none) = d ∧ d ≠ V.none ∧ V.truthy false d = true ∧
        V.fromiso d = .error e ∧ isoField (dictGet rec k) = .error e) := by
  unfold V.get
  rcases dictGet rec k with _ | v
  · left; simp [V.truthy, isoField]
  · cases v with
    | str x => by_cases hx : x.isEmpty = true <;> simp [V.truthy, isoField, V.fromiso, hx]
    | int i => by_cases hi : i = 0 <;> simp [V.truthy, isoField, V.fromiso, hi]
    | bool b => cases b <;> simp [V.truthy, isoField, V.fromiso]
    | iso t => right; left; exact ⟨t, by simp [V.truthy, isoField]⟩
    | _ => simp [V.truthy, isoField, V.fromiso]

theorem shpGetDt_eq (fs fe : String) (rec : Dict PVal) :
    (SrcIo.shpGetDt fs fe rec >>= dtOfArg) = getDtShp rec fs fe := by
  unfold SrcIo.shpGetDt getDtShp
  simp only []
  rcases field_spec rec fs with ⟨h1, h2⟩ | ⟨a, h1, h2⟩ | ⟨d, e, h1, h0, ht, hf, h2⟩ <;>
    rcases field_spec rec fe with ⟨g1, g2⟩ | ⟨b, g1, g2⟩ | ⟨d', e', g1, g0, gt, gf, g2⟩ <;>
    simp only [h1, h2, g1, g2] <;>
    simp_all [V.truthy, V.fromiso, V.mkTI, dtOfArg, mkDt, bind, Except.bind, pure, Except.pure] <;>
    (try split_ifs) <;> (try simp_all) <;> (try omega)

/-! ## `_get_dt` of `from_geopandas` -/

theorem gpdGetDt_eq (fs fe : String) (rec : Dict PVal) :
    (SrcIo.gpdGetDt fs fe rec >>= dtOfArg) = getDtGpd rec fs fe := by
  unfold SrcIo.gpdGetDt getDtGpd V.get
  rcases dictGet rec fs with _ | s <;> rcases dictGet rec fe with _ | e
  · rfl
  · cases e <;> io_fin
  · cases s <;> io_fin
  · cases s <;> cases e <;> io_fin

/-! ## the importers with the translated helpers in place, and the headline theorems restated for them

`from_shapefile` / `from_geopandas` as `Model/Io.lean` has them, except that the time bounds of a row are what the
*translated* `_get_dt` returns, handed to the shape constructor (`dtOfArg`).  The loops around them and the per-shape
adapters are the model's (not translated: they are calls on pyshp / pandas / shapely objects). -/

def srcReadRow (fs fe : String) (row : ShpShapeR × Dict PVal) : Except String Shape :=
  match convMap row.1.gtype with
  | none => .error "ERR:Value"
  | some k => do
    let dt ← (SrcIo.shpGetDt fs fe row.2 >>= dtOfArg)
    let g ← fromPyshp k row.1
    pure { geom := g, dt := dt, props := (dictDel (dictDel row.2 fs) fe) }

def srcReadShp (files : List ShpFileR) (fs : String := "datetime_s") (fe : String := "datetime_e") :
    Except String (List Shape) :=
  (mapExcept (fun f => mapExcept (srcReadRow fs fe) f.rows) files).map List.flatten

theorem srcReadRow_eq (fs fe : String) : srcReadRow fs fe = readRow fs fe := by
  funext row
  unfold srcReadRow readRow
  rw [shpGetDt_eq]
  cases convMap row.1.gtype <;> rfl

theorem srcReadShp_eq (files : List ShpFileR) (fs fe : String) : srcReadShp files fs fe = readShp files fs fe := by
  unfold srcReadShp readShp
  rw [srcReadRow_eq]

def srcFromGpdRow (cols : List String) (fs fe : String) (r : GpdRowR) : Except String Shape :=
  match convMap r.geomType with
  | none => .error "ERR:Value"
  | some k => do
    let dt ← (SrcIo.gpdGetDt fs fe r.cells >>= dtOfArg)
    let g ← fromGI k r.wkt
    pure { geom := g, dt := dt,
           props := r.cells.filter fun kv => cols.contains kv.1 && kv.1 != fs && kv.1 != fe }

def srcFromGeopandas (f : GpdFrameR) (fs : String := "datetime_start") (fe : String := "datetime_end") :
    Except String (List Shape) :=
  mapExcept (srcFromGpdRow f.columns fs fe) f.rows

theorem srcFromGeopandas_eq (f : GpdFrameR) (fs fe : String) : srcFromGeopandas f fs fe = fromGeopandas f fs fe := by
  unfold srcFromGeopandas fromGeopandas
  congr 1
  funext r
  unfold srcFromGpdRow fromGpdRow
  rw [gpdGetDt_eq]
  cases convMap r.geomType <;> rfl

theorem shp_roundtrip_partial_src (ch : ShpFileW → ShpFileR) (hch : ∀ f, ch f = idealShp f)
    (coll : List Shape) (hwf : ∀ s ∈ coll, ShapeWF s) (hu : UniformTypes coll) :
    ∃ g files back, groupByFamily coll = .ok g ∧ writeShp none coll = .ok files ∧
      srcReadShp (files.map ch) = .ok back ∧
      List.Forall₂ BackRel (g.points ++ g.multipoints ++ g.lines ++ g.shapes) back := by
  obtain ⟨g, files, back, h1, h2, h3, h4⟩ := shp_roundtrip_partial ch hch coll hwf hu
  exact ⟨g, files, back, h1, h2, by rw [srcReadShp_eq]; exact h3, h4⟩

theorem gpd_roundtrip_partial_src (ch : GpdFrameW → GpdFrameR) (hch : ∀ w, ch w = idealGpd w)
    (coll : List Shape) (hwf : ∀ s ∈ coll, GpdShapeWF s) :
    ∃ w back, toGeopandas none coll = .ok w ∧ srcFromGeopandas (ch w) = .ok back ∧
      List.Forall₂ (GpdBackRel w.rows) coll back := by
  obtain ⟨w, back, h1, h2, h3⟩ := gpd_roundtrip_partial ch hch coll hwf
  exact ⟨w, back, h1, by rw [srcFromGeopandas_eq]; exact h2, h3⟩

end GV.C20Src
