import GeoVerif.Gen.SrcIo
import GeoVerif.Props.C20
import Mathlib.Tactic.SplitIfs
/-!
# C20's source tie: the translated adapter logic (`Gen/SrcIo.lean`) equals the model (`Model/Io.lean`)
-/
namespace GV.C20Src
open GV.Io GV.Io.Py

/-! ## `_convert_dt` -/

theorem convertDt_eq (v : PVal) : SrcIo.convertDt (.p v) = .ok (.p (GV.Io.convertDt v)) := by
  cases v <;> rfl

theorem convertDt_none : SrcIo.convertDt .none = .ok .none := rfl

/-! ## `_get_dt` of `from_shapefile`, followed by what the shape constructor stores -/

macro "io_fin" : tactic => `(tactic|
  (simp only [V.truthy, V.fromiso, V.mkTI, V.isNull, V.isInst, PVal.tag, dtOfArg, isoField, mkDt, isDtVal, cellTruthy, bind,
      Except.bind, pure, Except.pure]
   try simp
   try (split_ifs <;> simp_all <;> omega)))

/-- one time field after `rec.get(f) or None`: absent / falsy, an ISO string, or something `fromisoformat` rejects -/
theorem field_spec (rec : Dict PVal) (k : String) :
    ((if V.truthy false (V.get rec k) then V.get rec k else V.none) = V.none ∧ isoField (dictGet rec k) = .ok none) ∨
    (∃ t, (if V.truthy false (V.get rec k) then V.get rec k else V.none) = V.p (.iso t) ∧
        isoField (dictGet rec k) = .ok (some t)) ∨
    (∃ d e, (if V.truthy false (V.get rec k) then V.get rec k else V.none) = d ∧ d ≠ V.none ∧ V.truthy false d = true ∧
        V.fromiso d = .error e ∧ isoField (dictGet rec k) = .error e) := by
  unfold V.get
  rcases dictGet rec k with _ | v
  · left; simp [V.truthy, isoField]
  · cases v with
    | str x => by_cases hx : x.isEmpty = true <;> simp [V.truthy, isoField, V.fromiso, hx]
    | int i => by_cases hi : i = 0 <;> simp [V.truthy, isoField, V.fromiso, hi]
    | bool b => cases b <;> simp [V.truthy, isoField, V.fromiso]
    | iso t => right; left; exact ⟨t, by simp [V.truthy, isoField]⟩
    | _ => simp [V.truthy, isoField, V.fromiso]

theorem shpGetDt_eq (fs fe : String) (rec : Dict PVal) :
    (SrcIo.shpGetDt fs fe rec >>= dtOfArg) = getDtShp rec fs fe := by
  unfold SrcIo.shpGetDt getDtShp
  simp only []
  rcases field_spec rec fs with ⟨h1, h2⟩ | ⟨a, h1, h2⟩ | ⟨d, e, h1, h0, ht, hf, h2⟩ <;>
    rcases field_spec rec fe with ⟨g1, g2⟩ | ⟨b, g1, g2⟩ | ⟨d', e', g1, g0, gt, gf, g2⟩ <;>
    simp only [h1, h2, g1, g2] <;>
    simp_all [V.truthy, V.fromiso, V.mkTI, dtOfArg, mkDt, bind, Except.bind, pure, Except.pure] <;>
    (try split_ifs) <;> (try simp_all) <;> (try omega)

/-! ## `_get_dt` of `from_geopandas` -/

theorem gpdGetDt_eq (fs fe : String) (rec : Dict PVal) :
    (SrcIo.gpdGetDt fs fe rec >>= dtOfArg) = getDtGpd rec fs fe := by
  unfold SrcIo.gpdGetDt getDtGpd V.get
  rcases dictGet rec fs with _ | s <;> rcases dictGet rec fe with _ | e
  · rfl
  · cases e <;> io_fin
  · cases s <;> io_fin
  · cases s <;> cases e <;> io_fin

/-! ## the writer side: `to_shapefile` -/

def gTup (g : Groups) : List Shape × List Shape × List Shape × List Shape := (g.points, g.multipoints, g.lines, g.shapes)

/-- one step of the classification loop: the shape goes to the list of its family -/
theorem loop1_step (g : Groups) (s : Shape) : SrcIo.toShapefile.loop1 (gTup g) s =
    match family s.geom with
    | some .points => .ok (gTup { g with points := g.points ++ [s] })
    | some .multipoints => .ok (gTup { g with multipoints := g.multipoints ++ [s] })
    | some .lines => .ok (gTup { g with lines := g.lines ++ [s] })
    | some .shapes => .ok (gTup { g with shapes := g.shapes ++ [s] })
    | none => .error "ERR:Value" := by
  unfold SrcIo.toShapefile.loop1
  cases hg : s.geom <;> simp [shapeIsA, hg, family, gTup, pure, Except.pure]

/-- the classification loop is the model's `groupLoop` -/
theorem loop1_eq (coll : List Shape) : ∀ g : Groups,
    List.foldlM SrcIo.toShapefile.loop1 (gTup g) coll = (groupLoop coll g).map gTup := by
  induction coll with
  | nil => intro g; rfl
  | cons s rest ih =>
    intro g
    rw [List.foldlM_cons, loop1_step, groupLoop]
    cases hf : family s.geom with
    | none => rfl
    | some f => cases f <;> simp only [bind, Except.bind] <;> exact ih _

/-- the `issubclass` chain is `fieldType` -/
theorem loop3_step (w : WriterS) (k : String) (t : PTag) :
    SrcIo.toShapefile.loop3 w (k, t) = .ok (WriterS.field w k (fieldType t)) := by
  unfold SrcIo.toShapefile.loop3
  cases t <;> simp [PTag.isSub, fieldType, pure, Except.pure]

/-- the declaration loop appends one field per key of the type map -/
theorem loop3_eq : ∀ (tm : Dict PTag) (w : WriterS),
    List.foldlM SrcIo.toShapefile.loop3 w tm =
      .ok { w with file := { w.file with fields := w.file.fields ++ tm.map fun kt => (kt.1, fieldType kt.2) } } := by
  intro tm
  induction tm with
  | nil => intro w; simp [List.foldlM, pure, Except.pure]
  | cons kt rest ih =>
    intro w
    obtain ⟨k, t⟩ := kt
    rw [List.foldlM_cons, loop3_step]
    simp [WriterS.field, ih, bind, Except.bind]

/-- what `_convert_dt(props.get(k))` evaluates to -/
def cvt (props : Dict PVal) (k : String) : V :=
  match dictGet props k with
  | some v => V.p (GV.Io.convertDt v)
  | none => V.none

theorem convertDt_get (props : Dict PVal) (k : String) : SrcIo.convertDt (V.get props k) = .ok (cvt props k) := by
  unfold V.get cvt
  cases dictGet props k with
  | none => rfl
  | some v => exact convertDt_eq v

theorem cvt_toP (props : Dict PVal) (k : String) :
    V.toP (cvt props k) = GV.Io.convertDt ((dictGet props k).getD .null) := by
  unfold cvt
  cases dictGet props k <;> rfl

/-- one step of the record / shape loop -/
theorem loop4_step (tm : Dict PTag) (w : WriterS) (i : Nat) (s : Shape) :
    SrcIo.toShapefile.loop4 tm w (i, s) =
      match toPyshp s.geom with
      | none => .error "ERR:Attr"
      | some call => .ok (WriterS.shape (WriterS.record w (recordOf tm s i)) call) := by
  unfold SrcIo.toShapefile.loop4
  simp only []
  rw [mapExcept_ok _ (cvt s.properties) _ (fun k _ => convertDt_get s.properties k)]
  simp only [bind, Except.bind, pure, Except.pure]
  cases toPyshp s.geom with
  | none => rfl
  | some call => simp [recordOf, cvt_toP, List.map_map, Function.comp_def]

/-- the record / shape loop writes the model's rows -/
theorem loop4_eq (tm : Dict PTag) : ∀ (l : List (Nat × Shape)) (w : WriterS),
    (List.foldlM (SrcIo.toShapefile.loop4 tm) w l).map (·.file) =
      (writeRows tm l).map fun rows => { w.file with rows := w.file.rows ++ rows } := by
  intro l
  induction l with
  | nil => intro w; simp [List.foldlM, writeRows, pure, Except.pure, Except.map]
  | cons x rest ih =>
    intro w
    obtain ⟨i, s⟩ := x
    rw [List.foldlM_cons, loop4_step, writeRows]
    cases hc : toPyshp s.geom with
    | none => rfl
    | some call =>
      simp only [bind, Except.bind]
      rw [ih]
      cases writeRows tm rest with
      | error e => rfl
      | ok rows => simp [Except.map, WriterS.shape, WriterS.record]

theorem incl_eq (incl : Option (List String)) (k : String) :
    (!(inclTruthy incl) || inclContains incl k) = included incl k := by
  rcases incl with _ | _ | ⟨a, l⟩ <;> simp [inclTruthy, inclContains, included]

theorem ok_bind {α β} (a : α) (f : α → Except String β) : (Except.ok a >>= f) = f a := rfl

theorem bind_file (x : Except String WriterS) (out : List ShpFileW) :
    (x >>= fun st => pure (out ++ [st.file])) = (x.map (·.file)).map (fun f => out ++ [f]) := by
  cases x <;> rfl

/-- one layer: skipped when empty, else the model's `writeGroup` -/
theorem loop2_step (incl : Option (List String)) (out : List ShpFileW) (name : String) (group : List Shape) :
    SrcIo.toShapefile.loop2 incl out (name, group) =
      if group.isEmpty then .ok out else (writeGroup incl name group).map fun f => out ++ [f] := by
  unfold SrcIo.toShapefile.loop2
  by_cases h : group.isEmpty = true
  · simp [h, pure, Except.pure]
  · simp only [h, incl_eq, Bool.not_not, Bool.false_eq_true, if_false]
    rw [loop3_eq, ok_bind]
    simp only []
    rw [bind_file, loop4_eq]
    unfold writeGroup typemapOf
    simp only []
    cases writeRows _ (enumFrom 0 group) <;> simp [Except.map, WriterS.field, WriterS.new]

theorem loop2_eq (incl : Option (List String)) : ∀ (groups : List (String × List Shape)) (out : List ShpFileW),
    List.foldlM (SrcIo.toShapefile.loop2 incl) out groups = (writeGroups incl groups).map (out ++ ·) := by
  intro groups
  induction groups with
  | nil => intro out; simp [List.foldlM, writeGroups, Except.map, pure, Except.pure]
  | cons x rest ih =>
    intro out
    obtain ⟨name, group⟩ := x
    rw [List.foldlM_cons, loop2_step]
    by_cases h : group.isEmpty = true
    · simp only [h, if_true, writeGroups, bind, Except.bind]
      exact ih out
    · simp only [h, Bool.false_eq_true, if_false, writeGroups, bind, Except.bind]
      cases writeGroup incl name group with
      | error e => rfl
      | ok f =>
        simp only [Except.map]
        rw [ih]
        cases writeGroups incl rest with
        | error e => rfl
        | ok fs => simp [Except.map, pure, Except.pure]

/-- **`CollectionBase.to_shapefile`, translated, writes what the model's `writeShp` writes** -/
theorem toShapefile_eq (coll : List Shape) (incl : Option (List String)) :
    SrcIo.toShapefile coll incl = writeShp incl coll := by
  unfold SrcIo.toShapefile writeShp groupByFamily
  have h1 : List.foldlM SrcIo.toShapefile.loop1 ([], [], [], []) coll = (groupLoop coll {}).map gTup := loop1_eq coll {}
  simp only [h1, bind, Except.bind]
  cases groupLoop coll {} with
  | error e => rfl
  | ok g =>
    simp only [Except.map, gTup]
    rw [loop2_eq]
    unfold Groups.toList
    cases writeGroups incl _ with
    | error e => rfl
    | ok fs => simp [Except.map, pure, Except.pure]

/-! ## the reader side: `from_shapefile` (row loop, `conv_map` dispatch) -/

/-- `_get_dt` only returns what a shape constructor accepts as `dt` -/
theorem shpGetDt_range (fs fe : String) (rec : Dict PVal) (v : V) (h : SrcIo.shpGetDt fs fe rec = .ok v) :
    ∃ d, dtOfArg v = .ok d := by
  unfold SrcIo.shpGetDt at h
  simp only [] at h
  rcases field_spec rec fs with ⟨h1, _⟩ | ⟨a, h1, _⟩ | ⟨d, e, h1, h0, ht, hf, _⟩ <;>
    rcases field_spec rec fe with ⟨g1, _⟩ | ⟨b, g1, _⟩ | ⟨d', e', g1, g0, gt, gf, _⟩ <;>
    simp only [h1, g1] at h <;>
    simp_all [V.truthy, V.fromiso, V.mkTI, dtOfArg, bind, Except.bind, pure, Except.pure] <;>
    (try split_ifs at h) <;> (try simp_all [dtOfArg]) <;> (try (subst h; simp [dtOfArg]))

theorem filter_eq_dictDel (d : Dict PVal) (fs fe : String) :
    (d.filter fun kv => !(kv.1 == fs || kv.1 == fe)) = dictDel (dictDel d fs) fe := by
  unfold dictDel
  rw [List.filter_filter]
  congr 1
  funext kv
  by_cases h1 : kv.1 = fs <;> by_cases h2 : kv.1 = fe <;> simp [h1, h2, bne, Bool.and_comm]

theorem dictDel_comm (d : Dict PVal) (a b : String) : dictDel (dictDel d a) b = dictDel (dictDel d b) a := by
  unfold dictDel
  rw [List.filter_filter, List.filter_filter]
  congr 1
  funext kv
  rw [Bool.and_comm]

/-- the property filter with the two field names in the other order (a harmless rewrite of the source) -/
theorem filter_eq_dictDel' (d : Dict PVal) (fs fe : String) :
    (d.filter fun kv => !(kv.1 == fe || kv.1 == fs)) = dictDel (dictDel d fs) fe := by
  rw [← filter_eq_dictDel]
  congr 1
  funext kv
  rw [Bool.or_comm]

/-- one row: `conv_map` dispatch, `_get_dt`, the property filter, `from_pyshp` -/
theorem rloop2_step (fs fe : String) (cm : List (String × Kind)) (rd : ShpFileR) (hcm : ∀ t, dictGet cm t = convMap t)
    (shapes : List Shape) (row : ShpShapeR × Dict PVal) :
    SrcIo.fromShapefile.loop2 fs fe cm rd shapes row = (readRow fs fe row).map (shapes ++ [·]) := by
  unfold SrcIo.fromShapefile.loop2 readRow classGet
  simp only [hcm, filter_eq_dictDel]
  try rw [dictDel_comm row.2 fe fs]
  cases hk : convMap row.1.gtype with
  | none => rfl
  | some k =>
    simp only [Option.isNone_some, Bool.false_eq_true, if_false, ok_bind]
    rw [← shpGetDt_eq]
    cases hd : SrcIo.shpGetDt fs fe row.2 with
    | error e => rfl
    | ok v =>
      obtain ⟨d, hdv⟩ := shpGetDt_range fs fe row.2 v hd
      simp only [ok_bind, fromPyshpV, hdv, bind, Except.bind, pure, Except.pure]
      cases fromPyshp k row.1 <;> rfl

theorem rloop2_eq (fs fe : String) (cm : List (String × Kind)) (rd : ShpFileR) (hcm : ∀ t, dictGet cm t = convMap t) :
    ∀ (rows : List (ShpShapeR × Dict PVal)) (shapes : List Shape),
      List.foldlM (SrcIo.fromShapefile.loop2 fs fe cm rd) shapes rows =
        (mapExcept (readRow fs fe) rows).map (shapes ++ ·) := by
  intro rows
  induction rows with
  | nil => intro shapes; simp [List.foldlM, mapExcept, Except.map, pure, Except.pure]
  | cons row rest ih =>
    intro shapes
    rw [List.foldlM_cons, rloop2_step fs fe cm rd hcm, mapExcept]
    cases readRow fs fe row with
    | error e => rfl
    | ok sh =>
      simp only [Except.map, ok_bind, bind, Except.bind]
      rw [ih]
      cases mapExcept (readRow fs fe) rest <;> simp [Except.map, pure, Except.pure]

/-- one archive member: skipped unless it is a `.shp` layer with rows -/
theorem rloop1_step (arch : List Member) (fs fe : String) (cm : List (String × Kind)) (hcm : ∀ t, dictGet cm t = convMap t)
    (shapes : List Shape) (m : Member) :
    SrcIo.fromShapefile.loop1 arch fs fe () cm shapes m =
      if m.isShp then (mapExcept (readRow fs fe) m.reader.rows).map (shapes ++ ·) else .ok shapes := by
  unfold SrcIo.fromShapefile.loop1
  by_cases h : m.isShp = true
  · simp only [h, Bool.false_eq_true, if_false, Bool.not_true, if_true]
    rw [rloop2_eq fs fe cm m.reader hcm]
    cases hr : m.reader.rows with
    | nil => simp [mapExcept, Except.map, pure, Except.pure]
    | cons r rs =>
      simp only [List.map_cons, List.isEmpty_cons, Bool.not_false, Bool.not_true, Bool.false_eq_true, if_false]
      cases mapExcept (readRow fs fe) (r :: rs) <;> rfl
  · simp [h, pure, Except.pure]

theorem rloop1_eq (arch : List Member) (fs fe : String) (cm : List (String × Kind)) (hcm : ∀ t, dictGet cm t = convMap t) :
    ∀ (ms : List Member) (shapes : List Shape),
      List.foldlM (SrcIo.fromShapefile.loop1 arch fs fe () cm) shapes ms =
        (mapExcept (fun f => mapExcept (readRow fs fe) f.rows) ((ms.filter (·.isShp)).map (·.reader))).map
          (fun xs => shapes ++ xs.flatten) := by
  intro ms
  induction ms with
  | nil => intro shapes; simp [List.foldlM, mapExcept, Except.map, pure, Except.pure]
  | cons m rest ih =>
    intro shapes
    rw [List.foldlM_cons, rloop1_step arch fs fe cm hcm]
    by_cases h : m.isShp = true
    · simp only [h, if_true, List.filter_cons_of_pos, List.map_cons, mapExcept]
      cases mapExcept (readRow fs fe) m.reader.rows with
      | error e => rfl
      | ok xs =>
        simp only [Except.map, ok_bind, bind, Except.bind]
        rw [ih]
        cases mapExcept _ (List.map (·.reader) (List.filter (·.isShp) rest)) <;>
          simp [Except.map, pure, Except.pure]
    · simp only [h, Bool.false_eq_true, if_false, ok_bind]
      rw [ih, List.filter_cons_of_neg (by simpa using h)]

theorem convLit_eq (t : String) :
    dictGet [("Point", Kind.point), ("LineString", Kind.line), ("Polygon", Kind.poly), ("MultiPoint", Kind.mpoint),
      ("MultiLineString", Kind.mline), ("MultiPolygon", Kind.mpoly)] t = convMap t := by
  unfold convMap
  simp only [dictGet_cons, dictGet_nil, beq_iff_eq, eq_comm (b := t)]

/-- **`CollectionBase.from_shapefile`, translated, reads what the model's `readShp` reads from the `.shp` members** -/
theorem fromShapefile_eq (arch : List Member) (fs fe : String) :
    SrcIo.fromShapefile arch fs fe () = readShp ((arch.filter (·.isShp)).map (·.reader)) fs fe := by
  unfold SrcIo.fromShapefile readShp
  simp only []
  rw [rloop1_eq arch fs fe _ convLit_eq]
  cases mapExcept _ _ <;> simp [Except.map, bind, Except.bind, pure, Except.pure]

/-! ## GeoPandas: `to_geopandas` -/

theorem toP_get (d : Dict PVal) (k : String) : V.toP (V.get d k) = (dictGet d k).getD .null := by
  unfold V.get
  cases dictGet d k <;> rfl

theorem strSet_keys (coll : List Shape) :
    strSet ((coll.map fun s => (Shape.properties s).map (·.1)).flatten) = keyUnion coll := by
  unfold strSet keyUnion
  simp [List.map_flatten, List.map_map, Function.comp_def]

/-- **`CollectionBase.to_geopandas`, translated, hands pandas / GeoPandas what the model's `toGeopandas` does** -/
theorem toGeopandas_eq (coll : List Shape) (incl : Option (List String)) :
    SrcIo.toGeopandas coll incl = GV.Io.toGeopandas incl coll := by
  unfold SrcIo.toGeopandas GV.Io.toGeopandas
  simp only [List.map_map, Function.comp_def, List.map_id', toP_get]
  have hk : inclOr incl (strSet ((coll.map fun s => (Shape.properties s).map (·.1)).flatten)) =
      (match incl with | some (k :: ks) => k :: ks | _ => keyUnion coll) := by
    rcases incl with _ | _ | ⟨a, l⟩ <;> simp [inclOr, inclTruthy, strSet_keys]
  have hm : (fun x => giOrErr x) = giOrErr := rfl
  simp only [hm]
  cases mapExcept giOrErr coll with
  | error e => rfl
  | ok gs =>
    simp [hk, Except.map, bind, Except.bind, pure, Except.pure]
    intro s _
    rcases incl with _ | _ | ⟨b, l⟩ <;> rfl

/-! ## GeoPandas: `from_geopandas` (row loop, `conv_map` dispatch, property columns) -/

/-- `_get_dt` of `from_geopandas` only returns what a shape constructor accepts as `dt` -/
theorem gpdGetDt_range (fs fe : String) (rec : Dict PVal) (v : V) (h : SrcIo.gpdGetDt fs fe rec = .ok v) :
    ∃ d, dtOfArg v = .ok d := by
  revert v
  unfold SrcIo.gpdGetDt V.get
  rcases dictGet rec fs with _ | s <;> rcases dictGet rec fe with _ | e
  · intro v h; simp [V.isNull, V.isInst, pure, Except.pure] at h; subst h; exact ⟨_, rfl⟩
  · cases e <;> intro v h <;>
      simp [V.truthy, V.isNull, V.isInst, PVal.tag, V.mkTI, pure, Except.pure] at h <;>
      (try split_ifs at h) <;> (try subst v) <;> (try simp_all [dtOfArg]) <;> (try (rw [← h]; simp [dtOfArg]))
  · cases s <;> intro v h <;>
      simp [V.truthy, V.isNull, V.isInst, PVal.tag, V.mkTI, pure, Except.pure] at h <;>
      (try split_ifs at h) <;> (try subst v) <;> (try simp_all [dtOfArg]) <;> (try (rw [← h]; simp [dtOfArg]))
  · cases s <;> cases e <;> intro v h <;>
      simp [V.truthy, V.isNull, V.isInst, PVal.tag, V.mkTI, pure, Except.pure] at h <;>
      (try split_ifs at h) <;> (try subst v) <;> (try simp_all [dtOfArg]) <;> (try (rw [← h]; simp [dtOfArg]))

/-- the property columns: every column but the two time fields (the frame's `columns` are without `geometry`) -/
theorem propFields_contains (cols : List String) (fs fe k : String) (hgeo : "geometry" ∉ cols) :
    (cols.filter fun x => !(x == fs || x == fe || x == "geometry")).contains k =
      (cols.contains k && k != fs && k != fe) := by
  rw [Bool.eq_iff_iff]
  simp only [List.contains_iff_mem, List.mem_filter, Bool.and_eq_true, bne_iff_ne, Bool.not_eq_true', Bool.or_eq_false_iff,
    beq_eq_false_iff_ne, ne_eq]
  constructor
  · rintro ⟨hk, ⟨h1, h2⟩, _⟩; exact ⟨⟨hk, h1⟩, h2⟩
  · rintro ⟨⟨hk, h1⟩, h2⟩; exact ⟨hk, ⟨h1, h2⟩, fun h => hgeo (h ▸ hk)⟩

theorem gloop1_step (fs fe : String) (cm : List (String × Kind)) (pf cols : List String)
    (hcm : ∀ t, dictGet cm t = convMap t) (hpf : ∀ k, pf.contains k = (cols.contains k && k != fs && k != fe))
    (shapes : List Shape) (r : GpdRowR) :
    SrcIo.fromGeopandas.loop1 fs fe cm pf shapes r = (fromGpdRow cols fs fe r).map (shapes ++ [·]) := by
  unfold SrcIo.fromGeopandas.loop1 fromGpdRow classGet
  simp only [hcm, hpf]
  cases hk : convMap r.geomType with
  | none => rfl
  | some k =>
    simp only [Option.isNone_some, Bool.false_eq_true, if_false, ok_bind]
    rw [← gpdGetDt_eq]
    cases hd : SrcIo.gpdGetDt fs fe r.cells with
    | error e => rfl
    | ok v =>
      obtain ⟨d, hdv⟩ := gpdGetDt_range fs fe r.cells v hd
      simp only [ok_bind, fromWktV, hdv, bind, Except.bind, pure, Except.pure]
      cases fromGI k r.wkt <;> rfl

theorem gloop1_eq (fs fe : String) (cm : List (String × Kind)) (pf cols : List String)
    (hcm : ∀ t, dictGet cm t = convMap t) (hpf : ∀ k, pf.contains k = (cols.contains k && k != fs && k != fe)) :
    ∀ (rows : List GpdRowR) (shapes : List Shape),
      List.foldlM (SrcIo.fromGeopandas.loop1 fs fe cm pf) shapes rows =
        (mapExcept (fromGpdRow cols fs fe) rows).map (shapes ++ ·) := by
  intro rows
  induction rows with
  | nil => intro shapes; simp [List.foldlM, mapExcept, Except.map, pure, Except.pure]
  | cons r rest ih =>
    intro shapes
    rw [List.foldlM_cons, gloop1_step fs fe cm pf cols hcm hpf, mapExcept]
    cases fromGpdRow cols fs fe r with
    | error e => rfl
    | ok sh =>
      simp only [Except.map, ok_bind, bind, Except.bind]
      rw [ih]
      cases mapExcept (fromGpdRow cols fs fe) rest <;> simp [Except.map, pure, Except.pure]

/-- **`CollectionBase.from_geopandas`, translated, reads what the model's `fromGeopandas` reads** (the channel's
    `columns` are the columns other than `geometry`) -/
theorem fromGeopandas_eq (f : GpdFrameR) (fs fe : String) (hgeo : "geometry" ∉ f.columns) :
    SrcIo.fromGeopandas f fs fe = GV.Io.fromGeopandas f fs fe := by
  unfold SrcIo.fromGeopandas GV.Io.fromGeopandas
  simp only [List.map_id']
  rw [gloop1_eq fs fe _ _ f.columns convLit_eq (fun k => propFields_contains f.columns fs fe k hgeo)]
  cases mapExcept _ _ <;> simp [Except.map, bind, Except.bind, pure, Except.pure]

/-! ## KML exporters: `TimeInterval._to_fastkml`, `to_fastkml_placemark`, `to_fastkml_folder` -/

theorem tiToFastkml_eq (a b : Int) : SrcIo.tiToFastkml (a, b) = .ok (toKTime (some (a, b))) := by
  unfold SrcIo.tiToFastkml toKTime
  by_cases h : a = b
  · subst h; simp [pure, Except.pure]
  · have h' : ¬ b = a := fun e => h e.symm
    simp [h, h', pure, Except.pure]

theorem toFastkmlPlacemark_eq (s : Shape) : SrcIo.toFastkmlPlacemark s = toPlacemark s := by
  unfold SrcIo.toFastkmlPlacemark toPlacemark giOrErr
  cases toGI s.geom with
  | none => rfl
  | some g =>
    rcases hd : s.dt with _ | ⟨a, b⟩
    · simp [toKTime, bind, Except.bind, pure, Except.pure]
    · simp [tiToFastkml_eq, bind, Except.bind, pure, Except.pure]

/-- **`CollectionBase.to_fastkml_folder`, translated, builds the model's folder** -/
theorem toFastkmlFolder_eq (coll : List Shape) (name : String) :
    SrcIo.toFastkmlFolder coll name = toFolder name coll := by
  unfold SrcIo.toFastkmlFolder toFolder
  have h : (fun x => SrcIo.toFastkmlPlacemark x) = toPlacemark := funext toFastkmlPlacemark_eq
  simp only [h]
  cases mapExcept toPlacemark coll <;> rfl

/-- `TimeInterval._from_fastkml` on a time stamp / time span is the model's `fromKTime` (the caller only hands it a
    time object that is present; anything else is the `ValueError` of its last line) -/
theorem tiFromFastkml_eq (kt : KTime) :
    (SrcIo.tiFromFastkml kt).map some = match kt with | .none => .error "ERR:Value" | kt => fromKTime kt := by
  unfold SrcIo.tiFromFastkml
  cases kt with
  | none => rfl
  | stamp t =>
    simp [ktIsStamp, ktIsSpan, ktTimestampDt, ktBeginDt, ktEndDt, tiOfInts, fromKTime, Except.map, bind, Except.bind]
  | span b e =>
    by_cases h : e < b <;>
      simp [ktIsStamp, ktIsSpan, ktTimestampDt, ktBeginDt, ktEndDt, tiOfInts, fromKTime, Except.map, bind, Except.bind, h]

/-! ## the importers with the translated helpers in place, and the headline theorems restated for them

`from_shapefile` / `from_geopandas` as `Model/Io.lean` has them, except that the time bounds of a row are what the
*translated* `_get_dt` returns, handed to the shape constructor (`dtOfArg`).  The loops around them and the per-shape
adapters are the model's (not translated: they are calls on pyshp / pandas / shapely objects). -/

def srcReadRow (fs fe : String) (row : ShpShapeR × Dict PVal) : Except String Shape :=
  match convMap row.1.gtype with
  | none => .error "ERR:Value"
  | some k => do
    let dt ← (SrcIo.shpGetDt fs fe row.2 >>= dtOfArg)
    let g ← fromPyshp k row.1
    pure { geom := g, dt := dt, props := (dictDel (dictDel row.2 fs) fe) }

def srcReadShp (files : List ShpFileR) (fs : String := "datetime_s") (fe : String := "datetime_e") :
    Except String (List Shape) :=
  (mapExcept (fun f => mapExcept (srcReadRow fs fe) f.rows) files).map List.flatten

theorem srcReadRow_eq (fs fe : String) : srcReadRow fs fe = readRow fs fe := by
  funext row
  unfold srcReadRow readRow
  rw [shpGetDt_eq]
  cases convMap row.1.gtype <;> rfl

theorem srcReadShp_eq (files : List ShpFileR) (fs fe : String) : srcReadShp files fs fe = readShp files fs fe := by
  unfold srcReadShp readShp
  rw [srcReadRow_eq]

def srcFromGpdRow (cols : List String) (fs fe : String) (r : GpdRowR) : Except String Shape :=
  match convMap r.geomType with
  | none => .error "ERR:Value"
  | some k => do
    let dt ← (SrcIo.gpdGetDt fs fe r.cells >>= dtOfArg)
    let g ← fromGI k r.wkt
    pure { geom := g, dt := dt,
           props := r.cells.filter fun kv => cols.contains kv.1 && kv.1 != fs && kv.1 != fe }

def srcFromGeopandas (f : GpdFrameR) (fs : String := "datetime_start") (fe : String := "datetime_end") :
    Except String (List Shape) :=
  mapExcept (srcFromGpdRow f.columns fs fe) f.rows

theorem srcFromGeopandas_eq (f : GpdFrameR) (fs fe : String) : srcFromGeopandas f fs fe = fromGeopandas f fs fe := by
  unfold srcFromGeopandas fromGeopandas
  congr 1
  funext r
  unfold srcFromGpdRow fromGpdRow
  rw [gpdGetDt_eq]
  cases convMap r.geomType <;> rfl

/-- `shp_roundtrip_partial` for the translated writer (`to_shapefile`, whole) and the translated reader (`from_shapefile`,
    whole, with its `_get_dt`): the zip archive holds, among other members, one `.shp` layer per written file, read back
    through the channel `ch` -/
theorem shp_roundtrip_partial_src (ch : ShpFileW → ShpFileR) (hch : ∀ f, ch f = idealShp f)
    (arch : List ShpFileW → List Member)
    (harch : ∀ files, ((arch files).filter (·.isShp)).map (·.reader) = files.map ch)
    (coll : List Shape) (hwf : ∀ s ∈ coll, ShapeWF s) (hu : UniformTypes coll) :
    ∃ g files back, groupByFamily coll = .ok g ∧ SrcIo.toShapefile coll none = .ok files ∧
      SrcIo.fromShapefile (arch files) "datetime_s" "datetime_e" () = .ok back ∧
      List.Forall₂ BackRel (g.points ++ g.multipoints ++ g.lines ++ g.shapes) back := by
  obtain ⟨g, files, back, h1, h2, h3, h4⟩ := shp_roundtrip_partial ch hch coll hwf hu
  exact ⟨g, files, back, h1, by rw [toShapefile_eq]; exact h2, by rw [fromShapefile_eq, harch]; exact h3, h4⟩

/-- the archive hypothesis is satisfiable: the layers themselves, each followed by a non-`.shp` member -/
example (ch : ShpFileW → ShpFileR) : ∀ files : List ShpFileW,
    (((files.map fun f => [(⟨true, ch f⟩ : Member), ⟨false, ch f⟩]).flatten).filter (·.isShp)).map (·.reader) = files.map ch := by
  intro files
  induction files with
  | nil => rfl
  | cons f rest ih => simpa using ih

/-- `gpd_roundtrip_partial` for the translated exporter (`to_geopandas`) and importer (`from_geopandas`, whole, with its
    `_get_dt`).  `hgeo`: no property of the collection is called `geometry` (the frame's `columns` are the columns other
    than the geometry column) -/
theorem gpd_roundtrip_partial_src (ch : GpdFrameW → GpdFrameR) (hch : ∀ w, ch w = idealGpd w)
    (coll : List Shape) (hwf : ∀ s ∈ coll, GpdShapeWF s)
    (hgeo : ∀ w, GV.Io.toGeopandas none coll = .ok w → "geometry" ∉ (ch w).columns) :
    ∃ w back, SrcIo.toGeopandas coll none = .ok w ∧
      SrcIo.fromGeopandas (ch w) "datetime_start" "datetime_end" = .ok back ∧
      List.Forall₂ (GpdBackRel w.rows) coll back := by
  obtain ⟨w, back, h1, h2, h3⟩ := gpd_roundtrip_partial ch hch coll hwf
  exact ⟨w, back, by rw [toGeopandas_eq]; exact h1, by rw [fromGeopandas_eq _ _ _ (hgeo w h1)]; exact h2, h3⟩

/-- `hgeo` holds of a non-trivial collection -/
example : "geometry" ∉ (idealGpd ⟨[[("name", PVal.str "a"), ("n", PVal.int 1)]], [⟨"Point", [[[[0, 0]]]]⟩]⟩).columns := by
  decide

/-- `kml_roundtrip_partial` for the translated exporter (`to_fastkml_folder` with `to_fastkml_placemark` and
    `TimeInterval._to_fastkml`); the importer `parse_fastkml` is the model's (not translated) -/
theorem kml_roundtrip_partial_src (ch : KNode → KNode) (hch : ∀ n, ch n = idealKml n)
    (name : String) (coll : List Shape) (hwf : ∀ s ∈ coll, KmlShapeWF s) :
    ∃ folder back, SrcIo.toFastkmlFolder coll name = .ok folder ∧ fromFolder (ch folder) = .ok back ∧
      List.Forall₂ (KmlBackRel (folderLabel (some name))) coll back := by
  obtain ⟨folder, back, h1, h2, h3⟩ := kml_roundtrip_partial ch hch name coll hwf
  exact ⟨folder, back, by rw [toFastkmlFolder_eq]; exact h1, h2, h3⟩

end GV.C20Src
