import GeoVerif.Lemmas.GeoJson
/-!
# The library's orientation test versus the plain shoelace area

`is_counter_clockwise` sums `(x₂-x₁)(y₂+y₁)` over the cyclic edge list after `ensure_edge_bounds`.
For a closed ring without an antimeridian-crossing edge this sum is `- area2`, so
`isCCW r ↔ 0 ≤ area2 r`, and reversing a ring negates `area2`.
-/
namespace GV.GeoJson

/-- consecutive pairs -/
def pairs : List Pt → List (Pt × Pt)
  | a :: b :: r => (a, b) :: pairs (b :: r)
  | _ => []

theorem zip_shift (a : Pt) (vs : List Pt) (z : Pt) :
    (a :: vs).zip (vs ++ [z]) = pairs (a :: (vs ++ [z])) := by
  induction vs generalizing a with
  | nil => simp [pairs]
  | cons b t ih =>
    have := ih b
    simp only [List.cons_append, List.zip_cons_cons, pairs] at this ⊢
    rw [this]

theorem foldl_add_eq (l : List Rat) (c : Rat) : l.foldl (· + ·) c = c + l.sum := by
  induction l generalizing c with
  | nil => simp
  | cons x xs ih => simp [List.foldl_cons, ih, add_assoc]

theorem sum_pairs_eq_chain (g : Pt × Pt → Rat) (l : List Pt) :
    ((pairs l).map g).sum = chain (fun a b => g (a, b)) l := by
  fun_induction pairs l with
  | case1 a b r ih => simp [chain, ih]
  | case2 l h =>
    match l, h with
    | [], _ => simp [chain]
    | [a], _ => simp [chain]
    | a :: b :: r, h => exact absurd rfl (h a b r)

theorem chain_cons (f : Pt → Pt → Rat) (a : Pt) (t : List Pt) :
    chain f (a :: t) = (match t.head? with | some y => f a y | none => 0) + chain f t := by
  cases t with
  | nil => simp [chain]
  | cons b r => simp [chain]

theorem chain_append_single (f : Pt → Pt → Rat) (l : List Pt) (z : Pt) :
    chain f (l ++ [z]) = chain f l + (match l.getLast? with | some y => f y z | none => 0) := by
  induction l with
  | nil => simp [chain]
  | cons a t ih =>
    cases t with
    | nil => simp [chain]
    | cons b r =>
      have : chain f ((a :: b :: r) ++ [z]) = f a b + chain f ((b :: r) ++ [z]) := by
        simp [chain]
      rw [this, ih]
      simp [chain, add_assoc, List.getLast?_cons_cons]

theorem chain_congr {f g : Pt → Pt → Rat} (l : List Pt)
    (h : ∀ a b, (a, b) ∈ pairs l → f a b = g a b) : chain f l = chain g l := by
  fun_induction pairs l with
  | case1 a b r ih =>
    simp only [chain]
    rw [h a b (by simp), ih (fun x y hxy => h x y (by simp [hxy]))]
  | case2 l hl =>
    match l, hl with
    | [], _ => simp [chain]
    | [a], _ => simp [chain]
    | a :: b :: r, hl => exact absurd rfl (hl a b r)

theorem chain_sub (f g : Pt → Pt → Rat) (l : List Pt) :
    chain (fun a b => f a b - g a b) l = chain f l - chain g l := by
  fun_induction pairs l with
  | case1 a b r ih => simp only [chain]; rw [ih]; ring
  | case2 l hl =>
    match l, hl with
    | [], _ => simp [chain]
    | [a], _ => simp [chain]
    | a :: b :: r, hl => exact absurd rfl (hl a b r)

/-- telescoping -/
theorem chain_telescope (φ : Pt → Rat) (a : Pt) (t : List Pt) :
    chain (fun x y => φ y - φ x) (a :: t) = φ ((a :: t).getLast (by simp)) - φ a := by
  induction t generalizing a with
  | nil => simp [chain]
  | cons b r ih =>
    simp only [chain]
    rw [ih b]
    simp only [List.getLast_cons_cons]
    ring

/-- reversing the ring negates an antisymmetric edge sum -/
theorem chain_reverse (f : Pt → Pt → Rat) (hf : ∀ a b, f b a = - f a b) (l : List Pt) :
    chain f l.reverse = - chain f l := by
  induction l with
  | nil => simp [chain]
  | cons a t ih =>
    rw [List.reverse_cons, chain_append_single, ih, chain_cons, List.getLast?_reverse]
    cases t.head? with
    | none => simp
    | some y => simp [hf a y]

theorem area2_reverse (r : List Pt) : area2 r.reverse = - area2 r := by
  unfold area2
  exact chain_reverse _ (fun a b => by ring) r

theorem absR_sub_comm (x y : Rat) : absR (x - y) = absR (y - x) := by
  unfold absR
  by_cases h1 : x - y < 0 <;> by_cases h2 : y - x < 0 <;> simp [h1, h2] <;> linarith

theorem noWrap_cons (a : Pt) (t : List Pt) :
    NoWrap (a :: t) ↔ (match t.head? with | some y => absR (a.1 - y.1) ≤ 180 | none => True) ∧ NoWrap t := by
  cases t with
  | nil => simp [NoWrap]
  | cons b r => simp [NoWrap]

theorem noWrap_append_single (l : List Pt) (z : Pt) :
    NoWrap (l ++ [z]) ↔ NoWrap l ∧ (match l.getLast? with | some y => absR (y.1 - z.1) ≤ 180 | none => True) := by
  induction l with
  | nil => simp [NoWrap]
  | cons a t ih =>
    cases t with
    | nil => simp [NoWrap]
    | cons b r =>
      have : NoWrap ((a :: b :: r) ++ [z]) ↔ absR (a.1 - b.1) ≤ 180 ∧ NoWrap ((b :: r) ++ [z]) := by
        simp [NoWrap]
      rw [this, ih]
      simp [NoWrap, List.getLast?_cons_cons, and_assoc]

theorem noWrap_reverse (l : List Pt) : NoWrap l.reverse ↔ NoWrap l := by
  induction l with
  | nil => simp
  | cons a t ih =>
    rw [List.reverse_cons, noWrap_append_single, ih, noWrap_cons, List.getLast?_reverse]
    cases t.head? with
    | none => simp
    | some y => simp [absR_sub_comm y.1 a.1, and_comm]

/-- the summand of `is_counter_clockwise`, including `ensure_edge_bounds` -/
def slE (e : Pt × Pt) : Rat :=
  let e' := ensureEdge e.1 e.2
  (e'.2.1 - e'.1.1) * (e'.2.2 + e'.1.2)

theorem slE_of_le (a b : Pt) (h : absR (a.1 - b.1) ≤ 180) :
    slE (a, b) = (b.1 - a.1) * (b.2 + a.2) := by
  have : ¬ absR (a.1 - b.1) > 180 := not_lt.mpr h
  simp [slE, ensureEdge, this]

theorem slE_self (a : Pt) : slE (a, a) = 0 := by
  have h : absR (a.1 - a.1) ≤ 180 := by simp [absR]
  rw [slE_of_le a a h]; ring

theorem shoelace_eq_chain (a : Pt) (vs : List Pt) :
    shoelace (a :: vs) = chain (fun x y => slE (x, y)) (a :: (vs ++ [a])) := by
  have hc : cyclicPairs (a :: vs) = (a :: vs).zip (vs ++ [a]) := rfl
  unfold shoelace
  rw [hc, zip_shift, foldl_add_eq, zero_add]
  exact sum_pairs_eq_chain slE _

theorem chain_slE_noWrap (l : List Pt) (h : NoWrap l) :
    chain (fun x y => slE (x, y)) l = chain (fun x y => (y.1 - x.1) * (y.2 + x.2)) l := by
  fun_induction pairs l with
  | case1 a b r ih =>
    simp only [NoWrap] at h
    simp only [chain]
    rw [slE_of_le a b h.1, ih h.2]
  | case2 l hl =>
    match l, hl with
    | [], _ => simp [chain]
    | [a], _ => simp [chain]
    | a :: b :: r, hl => exact absurd rfl (hl a b r)

/-- **the library's sum is minus the plain shoelace area** on closed rings off the antimeridian -/
theorem shoelace_eq_neg_area2 (r : List Pt) (hc : Closed r) (hw : NoWrap r) : shoelace r = - area2 r := by
  cases r with
  | nil => simp [shoelace, cyclicPairs, area2, chain]
  | cons a vs =>
    rw [shoelace_eq_chain]
    have hlast : (a :: vs).getLast? = some a := by
      unfold Closed at hc; simpa using hc.symm
    have hl : a :: (vs ++ [a]) = (a :: vs) ++ [a] := rfl
    rw [hl, chain_append_single, hlast]
    simp only [slE_self, add_zero]
    rw [chain_slE_noWrap _ hw]
    have hsplit : (fun (x y : Pt) => (y.1 - x.1) * (y.2 + x.2)) =
        (fun (x y : Pt) => ((fun p : Pt => p.1 * p.2) y - (fun p : Pt => p.1 * p.2) x) - (x.1 * y.2 - y.1 * x.2)) := by
      funext x y; ring
    rw [hsplit, chain_sub, chain_telescope]
    have hg : (a :: vs).getLast (by simp) = a := by
      have := List.getLast?_eq_some_getLast (l := a :: vs) (by simp)
      rw [hlast] at this
      exact (Option.some.inj this).symm
    rw [hg]
    unfold area2
    ring

theorem isCCW_iff_area (r : List Pt) (hc : Closed r) (hw : NoWrap r) : isCCW r = true ↔ 0 ≤ area2 r := by
  unfold isCCW
  rw [shoelace_eq_neg_area2 r hc hw]
  simp

theorem isCCW_false_iff_area (r : List Pt) (hc : Closed r) (hw : NoWrap r) : isCCW r = false ↔ area2 r < 0 := by
  have := isCCW_iff_area r hc hw
  constructor
  · intro h
    by_contra hn
    rw [not_lt] at hn
    rw [this.mpr hn] at h
    exact Bool.noConfusion h
  · intro h
    cases hb : isCCW r with
    | false => rfl
    | true => exact absurd (this.mp hb) (not_le.mpr h)

/-- reversing a non-degenerate ring flips the library's orientation test -/
theorem isCCW_reverse (r : List Pt) (hc : Closed r) (hw : NoWrap r) (ha : area2 r ≠ 0) :
    isCCW r.reverse = !isCCW r := by
  have hcr : Closed r.reverse := closed_reverse hc
  have hwr : NoWrap r.reverse := (noWrap_reverse r).mpr hw
  cases hb : isCCW r with
  | true =>
    have h1 := (isCCW_iff_area r hc hw).mp hb
    have h2 : area2 r.reverse < 0 := by
      rw [area2_reverse]
      have : 0 < area2 r := lt_of_le_of_ne h1 (Ne.symm ha)
      linarith
    simpa using (isCCW_false_iff_area _ hcr hwr).mpr h2
  | false =>
    have h1 := (isCCW_false_iff_area r hc hw).mp hb
    have h2 : 0 ≤ area2 r.reverse := by rw [area2_reverse]; linarith
    simpa using (isCCW_iff_area _ hcr hwr).mpr h2

theorem closed_map {α β : Type} (f : α → β) {r : List α} (h : Closed r) : Closed (r.map f) := by
  unfold Closed at *
  rw [List.head?_map, List.getLast?_map, h]

/-! ### across the antimeridian: the library's sum is minus the shoelace area of the un-wrapped ring -/

theorem dlon_antisymm (a b : Rat) : dlon b a = - dlon a b := by
  unfold dlon
  by_cases h1 : b - a > 180
  · have h2 : ¬ (a - b > 180) := by intro h; linarith
    have h3 : a - b < -180 := by linarith
    simp [h1, h2, h3]; ring
  · by_cases h2 : b - a < -180
    · have h3 : a - b > 180 := by linarith
      simp [h1, h2, h3]; ring
    · have h3 : ¬ (a - b > 180) := by intro h; apply h2; linarith
      have h4 : ¬ (a - b < -180) := by intro h; apply h1; linarith
      simp [h1, h2, h3, h4]

/-- with stored longitudes in range, `ensure_edge_bounds` takes the short way round -/
theorem slE_eq_dlon (a b : Pt) (ha : -180 ≤ a.1 ∧ a.1 ≤ 180) (hb : -180 ≤ b.1 ∧ b.1 ≤ 180) :
    slE (a, b) = dlon a.1 b.1 * (b.2 + a.2) := by
  unfold slE ensureEdge dlon absR
  by_cases hneg : a.1 - b.1 < 0
  · by_cases hbig : -(a.1 - b.1) > 180
    · have h1 : b.1 - a.1 > 180 := by linarith
      have h2 : a.1 < 0 := by linarith [hb.2]
      simp [hneg, h1, h2]
      left; ring
    · have h1 : ¬ (b.1 - a.1 > 180) := by intro h; apply hbig; linarith
      have h2 : ¬ (b.1 - a.1 < -180) := by intro h; linarith
      simp [hneg, h1, h2]
  · by_cases hbig : a.1 - b.1 > 180
    · have h1 : ¬ (b.1 - a.1 > 180) := by intro h; linarith
      have h2 : b.1 - a.1 < -180 := by linarith
      have h3 : ¬ (a.1 < 0) := by intro h; linarith [hb.1]
      simp [hneg, hbig, h1, h2, h3]
      left; ring
    · have h1 : ¬ (b.1 - a.1 > 180) := by intro h; apply hneg; linarith
      have h2 : ¬ (b.1 - a.1 < -180) := by intro h; apply hbig; linarith
      simp [hneg, hbig, h1, h2]

theorem mem_of_mem_pairs {l : List Pt} {a b : Pt} (h : (a, b) ∈ pairs l) : a ∈ l ∧ b ∈ l := by
  fun_induction pairs l with
  | case1 x y r ih =>
    simp only [List.mem_cons] at h
    rcases h with h | h
    · cases h; simp
    · have := ih h
      exact ⟨by simp [this.1], by simp [this.2]⟩
  | case2 l hl => simp at h

theorem chain_slE_lonOK (l : List Pt) (h : LonOK l) :
    chain (fun x y => slE (x, y)) l = chain (fun x y => dlon x.1 y.1 * (y.2 + x.2)) l :=
  chain_congr l (fun a b hab => by
    obtain ⟨ha, hb⟩ := mem_of_mem_pairs hab
    exact slE_eq_dlon a b (h a ha) (h b hb))

theorem unwrapFrom_cons (u : Rat) (b : Pt) (t : List Pt) :
    ∃ tl, unwrapFrom u (b :: t) = (u, b.2) :: tl := by
  cases t with
  | nil => exact ⟨[], rfl⟩
  | cons c r => exact ⟨_, rfl⟩

theorem chain_dlon_unwrap (l : List Pt) (u : Rat) :
    chain (fun x y => dlon x.1 y.1 * (y.2 + x.2)) l
      = chain (fun x y => (y.1 - x.1) * (y.2 + x.2)) (unwrapFrom u l) := by
  induction l generalizing u with
  | nil => simp [unwrapFrom, chain]
  | cons a t ih =>
    cases t with
    | nil => simp [unwrapFrom, chain]
    | cons b r =>
      obtain ⟨tl, htl⟩ := unwrapFrom_cons (u + dlon a.1 b.1) b r
      have h1 : unwrapFrom u (a :: b :: r) = (u, a.2) :: unwrapFrom (u + dlon a.1 b.1) (b :: r) := rfl
      rw [h1, htl]
      simp only [chain]
      rw [ih (u + dlon a.1 b.1), htl]
      ring

theorem unwrapFrom_getLast (l : List Pt) (u : Rat) (a : Pt) (t : List Pt) (hl : l = a :: t) :
    (unwrapFrom u l).getLast? = some (u + turn l, (l.getLast (by rw [hl]; simp)).2) := by
  induction t generalizing u a l with
  | nil => subst hl; simp [unwrapFrom, turn, chain]
  | cons b r ih =>
    subst hl
    have h1 : unwrapFrom u (a :: b :: r) = (u, a.2) :: unwrapFrom (u + dlon a.1 b.1) (b :: r) := rfl
    obtain ⟨tl, htl⟩ := unwrapFrom_cons (u + dlon a.1 b.1) b r
    have := ih (b :: r) (u + dlon a.1 b.1) b rfl
    rw [h1, htl, List.getLast?_cons_cons, ← htl, this]
    simp [turn, chain, List.getLast_cons_cons, add_assoc]

theorem shoelace_closed (a : Pt) (vs : List Pt) (hc : Closed (a :: vs)) :
    shoelace (a :: vs) = chain (fun x y => slE (x, y)) (a :: vs) := by
  rw [shoelace_eq_chain]
  have hlast : (a :: vs).getLast? = some a := by
    unfold Closed at hc; simpa using hc.symm
  have hl : a :: (vs ++ [a]) = (a :: vs) ++ [a] := rfl
  rw [hl, chain_append_single, hlast]
  simp [slE_self]

/-- **closed ring, stored longitudes in range, not running around a pole**: the library's sum is minus the
    plain shoelace area of the un-wrapped ring — also when the ring crosses the antimeridian -/
theorem shoelace_eq_neg_area2_unwrap (r : List Pt) (hc : Closed r) (hl : LonOK r) (ht : turn r = 0) :
    shoelace r = - area2 (unwrap r) := by
  cases r with
  | nil => simp [shoelace, cyclicPairs, area2, chain, unwrap]
  | cons a vs =>
    rw [shoelace_closed a vs hc, chain_slE_lonOK _ hl, chain_dlon_unwrap _ a.1]
    have hlast : (a :: vs).getLast? = some a := by
      unfold Closed at hc; simpa using hc.symm
    have hg : (a :: vs).getLast (by simp) = a := by
      have := List.getLast?_eq_some_getLast (l := a :: vs) (by simp)
      rw [hlast] at this
      exact (Option.some.inj this).symm
    obtain ⟨tl, htl⟩ := unwrapFrom_cons a.1 a vs
    have hU := unwrapFrom_getLast (a :: vs) a.1 a vs rfl
    rw [ht, hg, add_zero, htl] at hU
    have hUl : ((a.1, a.2) :: tl).getLast (by simp) = (a.1, a.2) := by
      have := List.getLast?_eq_some_getLast (l := (a.1, a.2) :: tl) (by simp)
      rw [hU] at this
      exact (Option.some.inj this).symm
    have hsplit : (fun (x y : Pt) => (y.1 - x.1) * (y.2 + x.2)) =
        (fun (x y : Pt) => ((fun p : Pt => p.1 * p.2) y - (fun p : Pt => p.1 * p.2) x) - (x.1 * y.2 - y.1 * x.2)) := by
      funext x y; ring
    have hu : unwrap (a :: vs) = (a.1, a.2) :: tl := htl
    rw [hu, htl, hsplit, chain_sub, chain_telescope, hUl]
    unfold area2
    ring

theorem isCCW_iff_winding (r : List Pt) (hc : Closed r) (hl : LonOK r) (ht : turn r = 0) :
    isCCW r = true ↔ 0 ≤ area2 (unwrap r) := by
  unfold isCCW
  rw [shoelace_eq_neg_area2_unwrap r hc hl ht]
  simp

theorem lonOK_reverse {r : List Pt} (h : LonOK r) : LonOK r.reverse :=
  fun p hp => h p (List.mem_reverse.mp hp)

theorem turn_reverse (r : List Pt) : turn r.reverse = - turn r := by
  unfold turn
  exact chain_reverse _ (fun a b => dlon_antisymm a.1 b.1) r

/-- reversing a closed ring negates the library's sum — on either side of, or across, the antimeridian -/
theorem shoelace_reverse (r : List Pt) (hc : Closed r) (hl : LonOK r) : shoelace r.reverse = - shoelace r := by
  cases r with
  | nil => simp [shoelace, cyclicPairs]
  | cons a vs =>
    have hcr : Closed (a :: vs).reverse := closed_reverse hc
    have hne : (a :: vs).reverse ≠ [] := by simp
    obtain ⟨b, ws, hbw⟩ := List.exists_cons_of_ne_nil hne
    rw [hbw] at hcr
    rw [shoelace_closed a vs hc, hbw, shoelace_closed b ws hcr, ← hbw,
      chain_slE_lonOK _ hl, chain_slE_lonOK _ (lonOK_reverse hl)]
    exact chain_reverse _ (fun x y => by
      show dlon y.1 x.1 * (x.2 + y.2) = - (dlon x.1 y.1 * (y.2 + x.2))
      rw [dlon_antisymm]; ring) _

/-- reversing a ring with a non-zero sum flips the library's orientation test (antimeridian included) -/
theorem isCCW_reverse_lon (r : List Pt) (hc : Closed r) (hl : LonOK r) (ha : shoelace r ≠ 0) :
    isCCW r.reverse = !isCCW r := by
  unfold isCCW
  rw [shoelace_reverse r hc hl]
  by_cases h : shoelace r ≤ 0
  · have : ¬ (- shoelace r ≤ 0) := by
      intro h'; exact ha (le_antisymm h (by linarith))
    simp [h, this]
  · have : - shoelace r ≤ 0 := by linarith [not_le.mp h]
    simp [h, this]

end GV.GeoJson
