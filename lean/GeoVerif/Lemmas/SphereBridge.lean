import GeoVerif.Lemmas.SphereReal
/-!
# Bridge: the generic geodesy model at `ℝ` is the textbook expression

Every lemma here rewrites a `Model/Sphere.lean` function instantiated at the real numbers into plain
Mathlib terms (`RealGeo.havT`, `RealGeo.dLat`, …); nothing about the model is assumed.
-/
namespace GV.SphereBridge

open Real GV.Sphere GV.RealGeo GV.NumReal

abbrev RC := Coord ℝ

theorem radians_real (x : ℝ) : radians x = x * (π / 180) := by unfold radians; num_simp
theorem degrees_real (x : ℝ) : degrees x = x * (180 / π) := by unfold degrees; num_simp

theorem radians_add (x y : ℝ) : radians (x + y) = radians x + radians y := by
  simp only [radians_real]; ring
theorem radians_sub (x y : ℝ) : radians (x - y) = radians x - radians y := by
  simp only [radians_real]; ring
theorem radians_zero : radians (0 : ℝ) = 0 := by simp [radians_real]
theorem radians_add_360 (x : ℝ) (k : ℤ) : radians (x + 360 * k) = radians x + 2 * (k * π) := by
  simp only [radians_real]; ring
theorem degrees_radians (x : ℝ) : degrees (radians x) = x := by
  simp only [radians_real, degrees_real]; field_simp
theorem radians_degrees (x : ℝ) : radians (degrees x) = x := by
  simp only [radians_real, degrees_real]; field_simp

theorem absN_real (x : ℝ) : absN x = |x| := by
  unfold absN; num_simp
  split
  · rename_i h; rw [abs_of_neg h]
  · rename_i h; rw [abs_of_nonneg (not_lt.mp h)]

theorem pymod_real (x m : ℝ) : pymod x m = x - m * (⌊x / m⌋ : ℝ) := by unfold pymod; num_simp

theorem pymod_range (x : ℝ) {m : ℝ} (hm : 0 < m) : 0 ≤ pymod x m ∧ pymod x m < m := by
  rw [pymod_real]
  have h1 := Int.floor_le (x / m)
  have h2 := Int.lt_floor_add_one (x / m)
  have e : x = m * (x / m) := by field_simp
  constructor
  · have : m * (⌊x / m⌋ : ℝ) ≤ m * (x / m) := mul_le_mul_of_nonneg_left h1 hm.le
    linarith
  · have : m * (x / m) < m * ((⌊x / m⌋ : ℝ) + 1) := mul_lt_mul_of_pos_left h2 hm
    linarith

theorem capOne_real (v : ℝ) : capOne v = min v 1 := by
  unfold capOne; num_simp
  split
  · rename_i h; rw [min_eq_left h.le]
  · rename_i h; rw [min_eq_right (not_lt.mp h)]

theorem clampUnit_real (d : ℝ) : clampUnit d = max (-1) (min d 1) := by
  unfold clampUnit; num_simp
  by_cases h : d < 1
  · simp only [h, if_true, min_eq_left h.le]
    by_cases h' : -1 < d
    · simp only [h', if_true, max_eq_right h'.le]
    · simp only [h', if_false, max_eq_left (not_lt.mp h')]
  · simp only [h, if_false, min_eq_right (not_lt.mp h)]
    norm_num

theorem clampUnit_of_mem {d : ℝ} (h1 : -1 ≤ d) (h2 : d ≤ 1) : clampUnit d = d := by
  rw [clampUnit_real, min_eq_left h2, max_eq_right h1]

theorem havA_real (φ1 l1 φ2 l2 : ℝ) : havA φ1 l1 φ2 l2 = havT φ1 φ2 (l2 - l1) := by
  unfold havA sqr havT; num_simp

theorem havCore_real (R : ℝ) (c1 c2 : RC) :
    havCore R c1 c2 =
      R * 2 * atan2 (√(min (havT (radians c1.2) (radians c2.2) (radians c2.1 - radians c1.1)) 1))
        (√(1 - min (havT (radians c1.2) (radians c2.2) (radians c2.1 - radians c1.1)) 1)) := by
  unfold havCore
  simp only [havA_real, capOne_real]
  num_simp

/-- what `ensure_edge_bounds` does: the first coordinate and the second latitude are untouched, the
    second longitude moves by a whole number of turns -/
theorem ensureEdge_spec (c1 c2 : RC) :
    (ensureEdge c1 c2).1 = c1 ∧ (ensureEdge c1 c2).2.2 = c2.2 ∧
      ∃ k : ℤ, (ensureEdge c1 c2).2.1 = c2.1 + 360 * k := by
  unfold ensureEdge
  split
  · refine ⟨rfl, rfl, ?_⟩
    num_simp
    by_cases hneg : c1.1 < 0
    · simp only [hneg, if_true]
      exact ⟨-1, by push_cast; ring⟩
    · simp only [hneg, if_false]
      exact ⟨1, by push_cast; ring⟩
  · exact ⟨rfl, rfl, 0, by simp⟩

/-- `ensure_edge_bounds` is the identity on pairs at most 180° of longitude apart -/
theorem ensureEdge_near (c1 c2 : RC) (h : |c1.1 - c2.1| ≤ 180) : ensureEdge c1 c2 = (c1, c2) := by
  unfold ensureEdge
  rw [absN_real]; num_simp
  rw [if_neg (not_lt.mpr h)]

theorem neumaierStep_real (s c x : ℝ) : neumaierStep (s, c) x = (s + x, c) := by
  unfold neumaierStep; num_simp
  split <;> (congr 1; ring)

theorem pySum3_real (a b c : ℝ) : pySum3 a b c = a + b + c := by
  unfold pySum3
  rw [neumaierStep_real, neumaierStep_real]; num_simp; ring

theorem xyz_real (c : RC) :
    xyz c = (cos (radians c.2) * cos (radians c.1), cos (radians c.2) * sin (radians c.1),
      sin (radians c.2)) := by unfold xyz; num_simp

/-- the dot product of the two unit vectors in latitude/longitude form -/
theorem dot3_xyz (c1 c2 : RC) :
    dot3 (xyz c1) (xyz c2) =
      sin (radians c1.2) * sin (radians c2.2) +
        cos (radians c1.2) * cos (radians c2.2) * cos (radians c2.1 - radians c1.1) := by
  unfold dot3
  rw [pySum3_real, xyz_real, xyz_real]; num_simp
  rw [cos_sub]; ring

theorem distXyz_real (R : ℝ) (c1 c2 : RC) :
    distXyz R c1 c2 = arccos (clampUnit (dot3 (xyz c1) (xyz c2))) * R := by
  unfold distXyz; num_simp

/-- the un-rounded destination in textbook form -/
theorem destLatRad_real (R : ℝ) (s : RC) (θ d : ℝ) :
    destLatRad R s θ d = dLat (radians s.2) θ (d / R) := by
  unfold destLatRad dLat
  dsimp only
  rw [clampUnit_of_mem]
  · num_simp; unfold dS2; rw [radians_real]; ring_nf
  · num_simp
    have := (dS2_mem (s.2 * π / 180) θ (d / R)).1; unfold dS2 at this; exact this
  · num_simp
    have := (dS2_mem (s.2 * π / 180) θ (d / R)).2; unfold dS2 at this; exact this

theorem destLonRad_real (R : ℝ) (s : RC) (θ d : ℝ) :
    destLonRad R s θ d = radians s.1 + dDLon (radians s.2) θ (d / R) := by
  unfold destLonRad
  dsimp only
  rw [destLatRad_real]
  num_simp
  unfold dDLon dX dY
  rw [radians_real, radians_real]; ring_nf

theorem destRaw_real (R : ℝ) (s : RC) (θ d : ℝ) :
    destRaw R s θ d = (degrees (radians s.1 + dDLon (radians s.2) θ (d / R)),
      degrees (dLat (radians s.2) θ (d / R))) := by
  unfold destRaw
  rw [destLonRad_real, destLatRad_real]; num_simp
  rw [degrees_real, degrees_real]
  refine Prod.ext ?_ ?_ <;> (simp only; ring)

theorem bearingXY_real (c1 c2 : RC) :
    bearingX c1 c2 = cos (radians c2.2) * sin (radians (c2.1 - c1.1)) ∧
    bearingY c1 c2 = cos (radians c1.2) * sin (radians c2.2)
      - sin (radians c1.2) * cos (radians c2.2) * cos (radians (c2.1 - c1.1)) := by
  unfold bearingX bearingY; num_simp; exact ⟨trivial, trivial⟩

theorem rotPlain_real (o : RC) (deg : ℝ) (q : RC) :
    rotPlain o deg q =
      (cos (radians deg) * (q.1 - o.1) - sin (radians deg) * (q.2 - o.2) + o.1,
       sin (radians deg) * (q.1 - o.1) + cos (radians deg) * (q.2 - o.2) + o.2) := by
  unfold rotPlain; num_simp
  refine Prod.ext ?_ ?_ <;> ring

theorem radiusAtAngle_real (a b t : ℝ) :
    radiusAtAngle a b t = a * b / √(a ^ 2 * sin t ^ 2 + b ^ 2 * cos t ^ 2) := by
  unfold radiusAtAngle sqr; num_simp

end GV.SphereBridge
